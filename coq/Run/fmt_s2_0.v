From FP Require Import Lexer Parser ShowPT Digest Formatter.
From Coq Require Import String List NArith.
Import ListNotations.
Open Scope string_scope.
Set Printing Width 100000000.
Set Printing Depth 100000000.
Definition show_fres (r : fres) : string :=
  match r with
  | FOk s => "OK:" ++ sh_escaped s ""
  | FErr s => "ERR:" ++ sh_escaped s ""
  | FPanic p => "PANIC:" ++ p
  end.
Definition check (rs : list rune) : string := digest (show_fres (format_res rs)).
Definition full (rs : list rune) : string := show_fres (format_res rs).
Eval vm_compute in ("<<<M4445>>>" ++ check (runes_of_ascii "
// top
	  options 	 // c0a
    	// c0b
  {

    // c1

StringPrefixLenType // c2
    =  u8 ;
ArrayPrefixLenType 	 // c6

=  // c7
    	u32
    // c8
	;	// c9
  FixedStringPadFromLeft 
    // c10
	= 	 // c11a
  // c11b
	  false  // c12a
    // c12b

;
// c13
  FixedStringPadChar
    =

    ' '
;  // c17a
  // c17b
	}// c18a
  // c18b
packet
	Party 	 // c20a
// c20b
{  // c21a

  // c21b

repeat 
        // c22
		i16 // c23a
  // c23b

  Qty
    // c24
	  ,	// c25a
  // c25b
    repeat string 	 // c27

	Tail 	 // c28a
      // c28b
    ,
    i8  OrderId // c31a
      // c31b
	,  // c32a

// c32b

  i8 msgKind 	 // c34a
// c34b
    	,  // c35a
// c35b
      }packet

    Ack  // c38
  {  
      // c39

  Party // c40a
	// c40b
,
	repeat  // c42a
      // c42b
  InRef20 
// c43
    	{
Party  // c45a

  // c45b
,int8// c47a
	// c47b
tag7 
// c48
,
// c49
char[ // c50a
  	// c50b
5	// c51a
	// c51b
	]
    OrderId  // c53a
// c53b
	, zchar[7 // c56
]	// c57
		Tail // c58a
// c58b
,// c59
    char[]  // c60a
// c60b

  count	// c61
    ,	// c62a

	// c62b
InPrice45  // c63
		{ 	 // c64
		Party,  // c66a

// c66b
	char[
// c67
	  1
    // c68
      ]
	    // c69
Px , 

    // c71
} 	 // c72a
// c72b
  ,	} // c74a
// c74b
    ,	// c75a
	// c75b
char[ 	 // c76

12
        // c77
  ]  
  // c78
    price 
        // c79
  	,// c80
    int8  
  // c81
    sym// c82

,// c83
  	}  packet	Reject	// c86
  {
        // c87
		repeat InPrice47	// c89
      {  // c90a
	// c90b
Party
    ,// c92a
      // c92b
      } ,// c94a
    	// c94b
    zchar[ // c95a
// c95b
4	// c96
		] 	 // c97
	x  // c98
,  // c99
	  repeat
Ack
// c101
	,	// c102
  zchar[  // c103a
    // c103b
		2	// c104a
  	// c104b
	]	// c105a
  // c105b
	Ref ,
	// c107
  repeat Party
        // c109

,  // c110a
	// c110b

}  // c111
    packet 
Cancel // c113
	{ 	 // c114a
  // c114b

  Reject 
, 

// c116
  repeat

string // c118a
// c118b
f1, 

// c120
uint16  // c121a
	// c121b
OrderId 
// c122
  , 
    // c123
		u8 // c124
    Acct

    ,  // c126a
	  // c126b
  int8
    // c127
  msgKind ,}// c130
	root
packet	// c132
Fill
	    // c133
    	{	u8  // c135a
	// c135b
  count ,
char[] // c138
      tag7
,
    // c140
		zchar[  // c141a
  // c141b
	7 ] 

// c143
	  Acct 	 // c144a
// c144b

,	// c145a
// c145b
u32 // c146
	  OrderId , 

    // c148
    u32	Note
// c150
	@lengthOf(	// c151a
    // c151b
Body// c152
		)  // c153

	,	// c154a

// c154b
    match
    // c155
      OrderId// c156
    as  // c157a
	// c157b
		Body 
    // c158
  	{ // c159a
    	// c159b
  106
// c160

  :	// c161
    Cancel 
      // c162
	, 196
	    // c164
:// c165
  	Reject 	 // c166
	  , 	 // c167
	74	// c168
    :

Party ,  
      // c171
	  75 
:  // c173
		Ack 
  // c174
    ,	},// c177a
  // c177b
    }	// c178a
  // c178b")).
Eval vm_compute in ("<<<M88>>>" ++ check (runes_of_ascii "options  { BodyLength
=
    string; trueish	=""it's"" i8i8
    =  ""// no comment""
    // trailing space 
    roots
// a // b
// packet A { u8 x, }
=// `tick` ""quote"" 'q'
""" ++ [28040; 24687]%N ++ runes_of_ascii """ ;// a // b
falsey = '\x00' ; } packet metadata{
    packetx
    { repeat rootA x_y_z `tab	here` , repeat pack
, Logon {
    u16 msg_type , u8 BodyLength
`
`,
zchar[
3 ] int  ,} ,
a1
T, }
, // `tick` ""quote"" 'q'
repeat f32 o `crlf
line`
, i32 rootA, int32  matchKey , @leftPad
// a // b
// @lengthOf(
( )
x_y_z {	match body	as	u8x
    { [ ""{,}"" ]:u8x	, 3:
u8x , 4294967296: As ,
[ ""CRC32"" ]:A
,
255 // packet A { u8 x, }
: body
    //
    , // c
42
    :
x_y_z }
, } , repeat
body float
, } // trailing space 
packet trueish
{ stringy @lengthOf( float )	`{ , }`
,repeat// packet A { u8 x, }
i64_ ,
    uint16 string_
    // `tick` ""quote"" 'q'
    @calculatedFrom(
""\" ++ [233]%N ++ runes_of_ascii """)
`
`	, // a // b
@tag( 0123456789)char[
    //x
    4294967296 ]
    calculatedFrom @lengthOf( int )`line1
line2`	, // packet A { u8 x, }
match rootA as asx
{	""\" ++ [233]%N ++ runes_of_ascii """: f32a, ""\n"" :
    rootA [ ""a\\""
//
//
, 0123456789 ] : crc
,1 : msg_type , ""a	b"" :stringy// packet A { u8 x, }
, }
    // " ++ [27880; 37322]%N ++ runes_of_ascii "
    ,repeat len	{ string_{i16 _x , _x { repeat uint8x a1
, char[ 42
    ]	zchar
    `say ""hi""` , zchar[ 7  ] uint8x ,
}
    ,repeat i8i8 body, }
    // " ++ [128512]%N ++ runes_of_ascii " emoji
    , uint8
T	@lengthOf(
repeatCount ), } ,}root packet asx { @calculatedFrom(	""x y""
)
repeat pack ,repeat string_ { u8 metadata
,} ,  @calculatedFrom( ""abc"" )	roots
@lengthOf(
    T
) `` , match asx as uint8x
{ 3: u8x, }
    // a // b
    ,// trailing space 
u8x@calculatedFrom( ""{,}"" ) , } packet o // " ++ [128512]%N ++ runes_of_ascii " emoji
{ string Logon ,charz metadata , match// c
len as
float{
255
    :
    //	t
    uint8x , ""CRC32"": As ,
    1
    : body , 7
:	options1 ,[	""" ++ [128512]%N ++ runes_of_ascii """,""it's"" //
]:
    repeatCount}, @leftPad ( ) @calculatedFrom( ""x y"" )  @leftPad(  ' ' )repeat lengthOf,zchar[
42  ]
    Logon@calculatedFrom(// packet A { u8 x, }
"""" ), }
//x
")).
Eval vm_compute in ("<<<M510>>>" ++ check (runes_of_ascii "root
packet
Foo  {
chars
{ falsey body  , zchar[ 3	] repeatCount
    `{ , }` , } ,
@lengthOf(BodyLength ) i8 //	t
Z9_
    @lengthOf( trueish ) , // " ++ [128512]%N ++ runes_of_ascii " emoji
@rightPad (
) repeat Pad { _x@calculatedFrom( // `tick` ""quote"" 'q'
""\" ++ [233]%N ++ runes_of_ascii """
    )	, match msg_type as // @lengthOf(
uint8x
    { [ 1 , ""\n""
    ,0, ""\n""] : Packet ""CRC32"":
pack,} , } ,  @calculatedFrom( ""a\""b"" ) repeat body {
char[ 007 ] i64_ // `tick` ""quote"" 'q'
`
` ,
    match charz
    as pack{ 65535 :
    u8x 65535 :	zchar
    ,[ 255 ] // trailing space 
:	chars
// `tick` ""quote"" 'q'
// " ++ [128512]%N ++ runes_of_ascii " emoji
,1
:
    stringy, [ """ ++ [28040; 24687]%N ++ runes_of_ascii """] : int	,0
    :// " ++ [128512]%N ++ runes_of_ascii " emoji
asx , } // " ++ [27880; 37322]%N ++ runes_of_ascii "
, }
,  match // c
o
    as
// " ++ [128512]%N ++ runes_of_ascii " emoji
// `tick` ""quote"" 'q'
A
    { 007
    :
calculatedFrom ,	""abc""
:roots
// packet A { u8 x, }
// packet A { u8 x, }
, ""`tick`"":Foo
    ,
    ""it's"":Foo , 007 :
//	t
// packet A { u8 x, }
float,
} ,@leftPad
(' '
// trailing space 
// `tick` ""quote"" 'q'
)
// `tick` ""quote"" 'q'
// trailing space 
repeat repeatCount	, char[ 007 ]
u128
// `tick` ""quote"" 'q'
// packet A { u8 x, }
`crlf
line`,} //
packet asx {
charz { rootA
//	t
// trailing space 
@calculatedFrom( """ ++ [233]%N ++ runes_of_ascii "t" ++ [233]%N ++ runes_of_ascii """
) ,  }, }
packet msg_type
{
}MetaData  o{ f32
msg_type,
    int64 body
    , } root packet body {  @tag(1
    ) @calculatedFrom(	""`tick`""
)
    @tag(
    0123456789
) metadata
    {pack i64_ , } ,  repeat zchar[ 7
    // trailing space 
    ] asx ,
chars @calculatedFrom(""\n"" ) , repeat zchar[
    4294967296 ]
    x  ,@rightPad (
'\x00' )u8
    msg_type `" ++ [233]%N ++ runes_of_ascii "`
    ,
float64
pack @lengthOf(
    MetaDataX
    )
,	}")).
Eval vm_compute in ("<<<M3903>>>" ++ check (runes_of_ascii "
packet i64_ {
    @leftPad(  )
    @tag(	4294967296	)repeat

    string Logon

`{ , }`  ,	@lengthOf(float )
	u16
//x
		matchKey

@lengthOf(
body	)

    ,
repeat
/// triple
	  char[ 
4294967296

    ] tag
, @lengthOf( 
asx
) 
repeat
	trueish

    ,	repeat
    lengthOf len

,  // packet A { u8 x, }

	match asx 
as

    crc {  [ // a // b
""" ++ [28040; 24687]%N ++ runes_of_ascii """ 
	// trailing space 
  // c
  	,	""abc"" 
]

:
    roots

    ,

}
    ,  match uint8x as repeatCount

{	[  0123456789 ] : 
/// triple
Foo,""a\""b"" : Packet 42 : stringy
,	[	// `tick` ""quote"" 'q'
	  0123456789,  007 ]:
f32a

    ,//x

42
    : x

    } 

    // @lengthOf(
,  @lengthOf(  msg_type)

    uint8x

    ,repeat

metadata	// " ++ [27880; 37322]%N ++ runes_of_ascii "
	,
	}  MetaData 
float	{

char[  42
    ]
Logon

`a\` 
,

    stringy
    packetx
,	int32

pack
,  rootA  x,
	Logon Foo
    , u16 A
    //	t
//x
    	,} //x
	  packet
//	t

	Header

{
@calculatedFrom(""1""
)u ,@tag(

65535
        // a // b
    // trailing space 
		)

    pack

{
string  trueish

`" ++ [28040; 24687; 31867; 22411]%N ++ runes_of_ascii "` , match 
stringy as
	tag {
""a\\"" : float 
      // `tick` ""quote"" 'q'
	  ,
""abc"":

Z9_,
	007 
:
    metadata

    , 	 // c
	[ 10	] :
matchKey // " ++ [27880; 37322]%N ++ runes_of_ascii "

, ""a	b""  :_x 7 	 // " ++ [128512]%N ++ runes_of_ascii " emoji
  :
Pad
	} ,

    repeat
	body, f32 int 
,

    }

    , 
MetaDataX 
u128

    `doc` 
, }options {
}
")).
Eval vm_compute in ("<<<M829>>>" ++ check (runes_of_ascii "packet
    repeatCount
{match falsey as  string_{65535 : crc ,[ 007 ,
    // " ++ [27880; 37322]%N ++ runes_of_ascii "
    65535 , 65535 ] : i8i8 ,
} ,
    @lengthOf( // " ++ [128512]%N ++ runes_of_ascii " emoji
float)
T {// " ++ [128512]%N ++ runes_of_ascii " emoji
char[]Packet @lengthOf( // " ++ [27880; 37322]%N ++ runes_of_ascii "
trueish )
,}
    , uint64 Logon `doc` ,
zchar[ 0
]
trueish @calculatedFrom(
// trailing space 
// @lengthOf(
""// no comment""  ) , @lengthOf(a1)repeat rootA i64_ `// not a comment` , u64
    /// triple
    u ,} packet	i64_
// `tick` ""quote"" 'q'
// `tick` ""quote"" 'q'
{//
@rightPad (
' '
) f64 float, // `tick` ""quote"" 'q'
match	rootA as i8i8
    // c
    { [ ""\n"" ,
007 ,
    """ ++ [128512]%N ++ runes_of_ascii """
,
""" ++ [128512]%N ++ runes_of_ascii """ ] :lengthOf }
, i16
Packet , int16
    // `tick` ""quote"" 'q'
    lengthOf
    @calculatedFrom(""" ++ [28040; 24687]%N ++ runes_of_ascii """ ) `line1
line2` ,
@calculatedFrom( """" )@calculatedFrom( ""it's""	)
    zchar[
    // " ++ [128512]%N ++ runes_of_ascii " emoji
    007 ] As  , char[] i8i8@lengthOf(
zchar
//x
// trailing space 
),
u16 packetx @lengthOf(falsey  )
    , repeat	len
{// c
u32 lengthOf ,
},match MetaDataX as u128
    { 1
    : u ,""x y""
    : u	, 255 :
    i64_""x y"" :falsey
, [""1"" , 1 ] :repeatCount
// a // b
//	t
,// packet A { u8 x, }
} ,
}
options {  asx =  uint8 ; matchKey =  true
i64_ =	false Logon
= char[]
/// triple
// " ++ [27880; 37322]%N ++ runes_of_ascii "
;
    A =
00
} packet
Packet
{ // packet A { u8 x, }
uint32
float
    `it's` ,}
")).
Eval vm_compute in ("<<<M3940>>>" ++ check (runes_of_ascii "// top
options {
    // c1
    StringPrefixLenType = u16;
    ArrayPrefixLenType = u32;// c9a
    // c9b
    FixedStringPadFromLeft = false;// c13
    FixedStringPadChar = '0';// c17
}

// c18
packet Logout {
    // c21
    f64 f1,// c24a
    // c24b
    i16 Note,
    @rightPad('\x00')
    char[11] Flags,
}// c37a

// c37b
packet Cancel {
    // c40
    float64 msgKind,
    // c43
}// c44a

// c44b
packet Reject {
    // c47
    InQty43 {
        // c49a
        // c49b
        float32 sym,
        char[10] Tail,
        uint8 venue,// c60a
        // c60b
        uint16 f1,// c63
        char[9] Acct,
        // c68
    },// c70a
    // c70b
}// c71

packet Trade {
    // c74a
    // c74b
    char[] x,
    zchar[6] Note,
    // c82
    repeat Reject,// c85
}

root packet Order {
    // c90a
    // c90b
    Cancel,
    Logout,// c94
    u64 Acct,
    // c97
    u32 OrderId,
    match OrderId as Body {
        // c105
        [127, 70] : Reject,
        // c113
        177 : Trade,
        // c117
        58 : Logout,
        // c121
        75 : Cancel,
        // c125
    },
    u32 Tail @calculatedFrom(""CRC32""),
}// c134")).
Eval vm_compute in ("<<<M4460>>>" ++ check (runes_of_ascii "root packet crc {
    repeat zchar[3] Header `u8 x,`,
    @leftPad(' ')
    char[] string_ `say ""hi""`,
    @tag(4294967296)
    repeat f32a {
        MetaDataX {
            repeat u f32a,
        },
    },
    char[3] repeatCount `it's`,
    @tag(255)
    Packet `u8 x,`,
    @rightPad()
    int32 i64_ ``,
    @tag(4294967296)
    i8 o `{ , }`,
    @tag(4294967296)
    @calculatedFrom(""a\""b"")
    char[] trueish,
    @lengthOf(u8x)
    i8i8 {
        metadata zchar,
        repeat a1 {
            Header,
        },//
        As {
            match Z9_ as matchKey {
                ""packet"" : calculatedFrom,
                [
                    4294967296, """ ++ [233]%N ++ runes_of_ascii "t" ++ [233]%N ++ runes_of_ascii """, ""`tick`"", 65535, """ ++ [28040; 24687]%N ++ runes_of_ascii """,
                    ""// no comment"", 65535
                ] : trueish,
            },
            repeat metadata {
                repeat _x body `
                `,
                chars MetaDataX `crlf
                line`,
                uint16 u8x @lengthOf(As) `
                `,
            },
            uint8 f32a,
        },
    },
    char[] Logon,
}")).
Eval vm_compute in ("<<<M1326>>>" ++ check (runes_of_ascii "MetaData
// " ++ [128512]%N ++ runes_of_ascii " emoji
// trailing space 
o { char[
255 ] // @lengthOf(
BodyLength, } packet
    crc
    { @tag( 7 ) calculatedFrom @lengthOf(Header ) ,
    len
{ float {  i32 T, stringy string_
    // c
    , char[ // " ++ [27880; 37322]%N ++ runes_of_ascii "
65535 ] Packet
@lengthOf( a1 ) ``
    , falsey {	u16 Logon  `{ , }` , } ,	}
, repeat /// triple
falsey , repeat u8 Logon,} , zchar[ 65535] lengthOf @lengthOf(
asx  )`line1
line2` , @rightPad ('0'
    ) int16 f32a ,@rightPad ( // packet A { u8 x, }
'\x00' )char[]
len
    // packet A { u8 x, }
    `" ++ [28040; 24687; 31867; 22411]%N ++ runes_of_ascii "`, match string_ as string_
    /// triple
    { [ ""a\\"" ,
10 , 007 ,//	t
0123456789]	:As
, [ ""`tick`"" ] : //
metadata	, ""\n"" :
falsey,// `tick` ""quote"" 'q'
[
3 , // " ++ [27880; 37322]%N ++ runes_of_ascii "
""" ++ [233]%N ++ runes_of_ascii "t" ++ [233]%N ++ runes_of_ascii """ , //	t
""CRC32"" ]
    : lengthOf ,00 :	x_y_z ,  }  , packetx{
    repeat a1 `it's`// packet A { u8 x, }
,stringy
`{ , }`
    ,match
    T as
MetaDataX// @lengthOf(
{ ""CRC32""
:	lengthOf
    } , } ,	} MetaData  tag  { //x
}
packet Z9_ {  i16
rootA
// packet A { u8 x, }
// @lengthOf(
`
`// " ++ [27880; 37322]%N ++ runes_of_ascii "
, //	t
}")).
Eval vm_compute in ("<<<M941>>>" ++ check (runes_of_ascii "packet Packet	{
    u128 @calculatedFrom( ""// no comment"" // trailing space 
) , zchar[ 255 ]repeatCount@lengthOf( Z9_
    )`doc` ,repeat
    matchKey { char[ 10]
    msg_type @calculatedFrom(
    ""a\\"" )
    , zchar[ 255 ]
    o @calculatedFrom( ""CRC32""// a // b
)	,repeat zchar[00
    ]Header `it's`
,repeat asx
    //
    { BodyLength//x
@lengthOf( // " ++ [27880; 37322]%N ++ runes_of_ascii "
matchKey )
`{ , }`
, match metadata as//x
a1 { 255 : calculatedFrom , 7 : u8x // @lengthOf(
} , char[ 007 //x
]  float
    // trailing space 
    , match charz as //	t
u8x// trailing space 
{
""a\""b"" : Logon, }  ,} , } , repeat Foo
    `crlf
line`, @tag(
    10 )
rootA charz , int @lengthOf( a1 ) , }
MetaData lengthOf {zchar[0 // `tick` ""quote"" 'q'
] //	t
uint8x , } packet
len { }// @lengthOf(
packet u
    {match f32a as BodyLength{0
: float
, }	, } MetaData leftPad // trailing space 
{ u32 f32a `doc` ,zchar[ 255 ] i64_ ,
    char[]zchar  ,
    // `tick` ""quote"" 'q'
    T i64_
`" ++ [233]%N ++ runes_of_ascii "`
,
    }
")).
Eval vm_compute in ("<<<M576>>>" ++ check (runes_of_ascii "
root
    packet
    //	t
    len{roots@calculatedFrom( ""\n"" ) , } root packet u { @lengthOf( i8i8
) float64 Header@calculatedFrom(
    ""1""
)
`a\`  ,
lengthOf { stringy @lengthOf( BodyLength
)
, float64 BodyLength // trailing space 
`tab	here`
,/// triple
int16 a1@calculatedFrom( ""{,}""
) `{ , }`, BodyLength ,
} ,
@tag(1	)  @rightPad	( ) @rightPad
(
'0' ) // @lengthOf(
packetx
@calculatedFrom( ""\n"") ,// @lengthOf(
@lengthOf( Pad ) zchar[ 65535
// packet A { u8 x, }
// trailing space 
]
    // trailing space 
    lengthOf , char[// " ++ [27880; 37322]%N ++ runes_of_ascii "
007]	string_ `// not a comment`	, @rightPad ( )
    repeat //	t
string falsey , @tag( 4294967296)
    //x
    char Foo `
`,  match	options1	as body {65535 :	o
4294967296 :
tag, ""x y"": trueish
    // packet A { u8 x, }
    , ""packet""
    :
As , [ 0123456789]: rootA ,
""x y"":
uint8x ,} ,
} MetaData x { metadata
zchar`" ++ [28040; 24687; 31867; 22411]%N ++ runes_of_ascii "` , } options { Foo = char[ 255 ] ;
}")).
Eval vm_compute in ("<<<M721>>>" ++ check (runes_of_ascii "
packet a1 { @lengthOf( packetx ) A @lengthOf( T ) `tab	here`,zchar[// " ++ [128512]%N ++ runes_of_ascii " emoji
42
    //x
    ] Header, // " ++ [128512]%N ++ runes_of_ascii " emoji
@leftPad ( '0'
)
    match
o
as int
    { 1 :
    Logon ,} //x
, repeat// trailing space 
packetx `line1
line2` ,string x
    @calculatedFrom(
    ""CRC32"" )
, i8 repeatCount
    `// not a comment` , match i64_ // a // b
as x_y_z
{
    3
:
len , 4294967296
    : u8x
00	: crc
,[ 10,
007 ,3, 00
/// triple
// " ++ [27880; 37322]%N ++ runes_of_ascii "
,""" ++ [128512]%N ++ runes_of_ascii """ , 0123456789,0123456789	] : tag	,	42  :
// packet A { u8 x, }
//
repeatCount , }
, @lengthOf( f32a
    ) @lengthOf(
    stringy ) @calculatedFrom( ""\" ++ [233]%N ++ runes_of_ascii """
)
    repeat i64 As// trailing space 
,	@rightPad (
    ) repeat  leftPad {
uint32 crc
    @calculatedFrom( """ ++ [233]%N ++ runes_of_ascii "t" ++ [233]%N ++ runes_of_ascii """) ,  }
    , } MetaData Pad {  As
pack ,
    } root packet len{@calculatedFrom(  ""\" ++ [233]%N ++ runes_of_ascii """
) int64 a1@calculatedFrom( ""CRC32"" )// `tick` ""quote"" 'q'
,
}
// c
")).
Eval vm_compute in ("<<<M3676>>>" ++ check (runes_of_ascii "MetaData float {
    stringy leftPad,
}

root packet a1 {
    @lengthOf(matchKey)
    char[] int `
    `,
    char[42] body `a\`,
    @leftPad('0')
    T {
        zchar[1] u128 @lengthOf(repeatCount) `
        `,// trailing space 
    },
    @lengthOf(msg_type)
    repeat uint16 rootA,
    @rightPad()
    repeat metadata i64_ `two words`,
    match leftPad as _x {
        // @lengthOf(
        /// triple
        00 : charz,
        7 : float,
        // @lengthOf(
        ""CRC32"" : float,
        0123456789 : rootA,
    },
    rootA,
    zchar[42] pack,
    @lengthOf(trueish)
    i64 Foo,//x
    body `" ++ [28040; 24687; 31867; 22411]%N ++ runes_of_ascii "`,
}

packet T {
    repeat Packet,
    // trailing space 
    // `tick` ""quote"" 'q'
    char[] x `crlf
    line`,
    charz @lengthOf(pack),
    char[0] As,
    @calculatedFrom(""" ++ [28040; 24687]%N ++ runes_of_ascii """)
    MetaDataX,
}")).
Eval vm_compute in ("<<<M403>>>" ++ check (runes_of_ascii "  options //x
{options1= 65535
; }	root  packet int { match string_ as u8x	{
0123456789
    // trailing space 
    : zchar
    , } ,
zchar @calculatedFrom( """" ) `` ,
    repeat T {  metadata@calculatedFrom(
""x y"" ) , match
    a1
    as metadata { // @lengthOf(
4294967296 : options1 , ""x y""
    : i8i8 } , repeat leftPad
    //
    {	char[42 ] float , }
    , }, @tag( 65535)
    char[ 7
    ]/// triple
Pad,trueish,
/// triple
//
Header { // @lengthOf(
char[4294967296
    ]
    /// triple
    repeatCount @calculatedFrom(""packet"" ) , // packet A { u8 x, }
}, } MetaData float { repeatCount metadata `crlf
line` ,asx lengthOf	, char[] roots
`two words`  ,
// trailing space 
//
string  Pad  ,
    calculatedFrom
/// triple
// @lengthOf(
zchar , char T
    `a\`	, } /// triple")).
Eval vm_compute in ("<<<M3208>>>" ++ check (runes_of_ascii "// top
root // c0
packet // c1
msg_type // c2
{ // c3
i64 // c4
options1 // c5
, // c6
@lengthOf( // c7
f32a // c8
) // c9
repeat // c10
uint16 // c11
Foo // c12
, // c13
@calculatedFrom( // c14
""x y"" // c15
) // c16
repeat // c17
int64 // c18
pack // c19
, // c20
@leftPad // c21
( // c22
' ' // c23
) // c24
uint8 // c25
Foo // c26
, // c27
} // c28
packet // c29
rootA // c30
{ // c31
f32a // c32
x // c33
`two words` // c34
, // c35
char // c36
asx // c37
@lengthOf( // c38
falsey // c39
) // c40
`u8 x,` // c41
, // c42
@lengthOf( // c43
i64_ // c44
) // c45
uint16 // c46
chars // c47
, // c48
@tag( // c49
0 // c50
) // c51
string // c52
_x // c53
@calculatedFrom( // c54
""abc"" // c55
) // c56
`// not a comment` // c57
, // c58
} // c59
")).
Eval vm_compute in ("<<<M3761>>>" ++ check (runes_of_ascii "

  MetaData
	o
    {	uint8 asx ,  // " ++ [27880; 37322]%N ++ runes_of_ascii "

  }MetaData 
_x {
A  Z9_ `a\`	,
	}
    packet 
string_  {
    repeat
x_y_z
f32a,charz 
	//x
    // " ++ [27880; 37322]%N ++ runes_of_ascii "
  	{
msg_type @lengthOf(

A

)

    ,}
	,
uint16
    stringy
,  @calculatedFrom(
    """ ++ [233]%N ++ runes_of_ascii "t" ++ [233]%N ++ runes_of_ascii """ )	leftPad
    msg_type ,

    @tag(7 
)

    @calculatedFrom(

    //	t
  	""" ++ [28040; 24687]%N ++ runes_of_ascii """
)
	i64_
    ,
repeat

trueish
    x

`doc`  ,  uint16 metadata	//	t
    @lengthOf( 
i8i8
)  `tab	here` 
, repeat

    tag Logon

    ,
repeat repeatCount

metadata
	`` // a // b
    	,  // trailing space 
	}
packet
roots { 
repeat  x_y_z {
// `tick` ""quote"" 'q'
	char[ 4294967296	]
    stringy `line1
line2`
	,

uint16
body
	,
}  ,  @leftPad

( ' ')  MetaDataX

    stringy,

} ")).
Eval vm_compute in ("<<<M700>>>" ++ check (runes_of_ascii "packet tag// " ++ [27880; 37322]%N ++ runes_of_ascii "
{
@tag(65535 )//
zchar[ 3 ]
    metadata
, }  root
packet
pack{
@calculatedFrom( ""x y""
    /// triple
    ) a1 @calculatedFrom(""1"" ) `say ""hi""` // @lengthOf(
,
zchar @lengthOf(	packetx), @lengthOf( // " ++ [128512]%N ++ runes_of_ascii " emoji
u128 )@tag( 42	) // packet A { u8 x, }
@tag( 255 )
    repeat char[7 ]
    x_y_z `// not a comment`
,match u128
as rootA	{ ""packet"": // " ++ [128512]%N ++ runes_of_ascii " emoji
tag , [""abc""
    , ""a\""b"" , ""abc""	, 42,
    ""1"" ,
7 , ""// no comment"" ]:  matchKey, 007
:	roots , 00 :
// " ++ [27880; 37322]%N ++ runes_of_ascii "
// " ++ [27880; 37322]%N ++ runes_of_ascii "
i64_
    , [""// no comment"" ]
:
    // c
    a1 , } ,
// " ++ [128512]%N ++ runes_of_ascii " emoji
// @lengthOf(
repeat
Logon {
    char[ 007
] f32a
    @lengthOf(	Header)
//x
// packet A { u8 x, }
, } ,
    // " ++ [128512]%N ++ runes_of_ascii " emoji
    }")).
Eval vm_compute in ("<<<M91>>>" ++ check (runes_of_ascii "options{
T
    =
""x y"" ; } packet Z9_ { @leftPad
    ('0' )
int16
Header @calculatedFrom(
""1""
    ) , options1 @lengthOf(
    u8x )
`// not a comment`
,
    @calculatedFrom(""// no comment"" ) @lengthOf(pack //	t
) Header {
i32 // trailing space 
u
`{ , }`
, _x	, char[
    7 ] crc @lengthOf(i64_)  ,
    }
// a // b
// c
, // `tick` ""quote"" 'q'
float
@lengthOf(
roots ) `it's`  , } packet stringy { @rightPad( '\x00' //
) @rightPad ( //
'0' )
// " ++ [27880; 37322]%N ++ runes_of_ascii "
// packet A { u8 x, }
@calculatedFrom( """ ++ [28040; 24687]%N ++ runes_of_ascii """ ) string a1 ,
    f32
uint8x // packet A { u8 x, }
@lengthOf( charz
// c
// " ++ [128512]%N ++ runes_of_ascii " emoji
) `two words`
,
int32
x_y_z	@lengthOf( string_  ) //	t
,
}
")).
Eval vm_compute in ("<<<M3683>>>" ++ check (runes_of_ascii "  // top
		root // c0
	  packet
    Frame 

// c2
{  // c3a

// c3b
    	u8 
    // c4

	K 	 // c5
    ,// c6a
    // c6b
    Logon	// c7
first
	    // c8
	  ,

// c9
		match 	 // c10a
  	// c10b
    K
as

    // c12
      Body{ 	 // c14
		1	:	Logon 
      // c17
    ,// c18
	2

    : Logout
,  
  // c22
    	}
,  // c24
	}
packet  // c26
    Logon// c27a
	// c27b
  {	// c28a
  // c28b
	  string	// c29a
    	// c29b
      user 
	// c30
  , // c31a

// c31b
  }// c32a
// c32b

packet// c33
    	Logout
	    // c34
  {// c35a
// c35b
  u16	// c36a
  	// c36b
  reason
    , 
	// c38

	}
	    // c39
")).
Eval vm_compute in ("<<<M967>>>" ++ check (runes_of_ascii "root
packet	Logon	{@tag( 3 )// @lengthOf(
float64
options1 @calculatedFrom(
    ""1""
    ) ,
match
    roots
as // @lengthOf(
MetaDataX
    { 0123456789 :
As , //	t
[
    0, ""1"", 0123456789,
""CRC32"" ,
7
    // " ++ [27880; 37322]%N ++ runes_of_ascii "
    ,	""" ++ [128512]%N ++ runes_of_ascii """
, ""CRC32""
]
: x  ,
} ,  @tag( //x
007 ) string calculatedFrom
@calculatedFrom(""a\\"" ) `two words` , @lengthOf(	uint8x )trueish	`{ , }` , // trailing space 
} // @lengthOf(
root
    packet rootA { match As as	As { // `tick` ""quote"" 'q'
10 : MetaDataX /// triple
, ""{,}"" :body
} , @tag( 4294967296 )	_x
    @lengthOf(roots// " ++ [128512]%N ++ runes_of_ascii " emoji
) , packetx ``,
    } // c")).
Eval vm_compute in ("<<<M4303>>>" ++ check (runes_of_ascii "  packet 
u128

{  string	MetaDataX
    @lengthOf(
	matchKey

    )

, 
@lengthOf(  calculatedFrom)
// " ++ [128512]%N ++ runes_of_ascii " emoji

// " ++ [128512]%N ++ runes_of_ascii " emoji
    string// packet A { u8 x, }
  uint8x`it's`

    ,  As
@calculatedFrom(

""" ++ [233]%N ++ runes_of_ascii "t" ++ [233]%N ++ runes_of_ascii """ )
,
    } MetaData	repeatCount

    { 
        // c
zchar[	7	]
	msg_type	// " ++ [128512]%N ++ runes_of_ascii " emoji
	  , 	 // @lengthOf(
string

    trueish
    , u

As

`doc`, zchar	T
, string	roots// c
`doc` , }

    root  packet	o 	 //
{
    repeat  zchar[
    007 
// a // b
	//x

  ]  u8x

, 
repeat 
char[
4294967296
]
x
	,

    u8x`{ , }`

,
    } ")).
Eval vm_compute in ("<<<M400>>>" ++ check (runes_of_ascii "packet
i64_ {
@lengthOf( Foo ) // `tick` ""quote"" 'q'
@lengthOf(
    calculatedFrom) o
    /// triple
    @calculatedFrom( ""{,}"" ) , uint16 lengthOf@calculatedFrom( // a // b
""" ++ [128512]%N ++ runes_of_ascii """) , char[ 007 ] trueish ,  @tag(
    // c
    00
    // `tick` ""quote"" 'q'
    )	@tag( //	t
007 )
// a // b
// " ++ [128512]%N ++ runes_of_ascii " emoji
float @calculatedFrom( ""\n"" ),
charz A
    ,Logon @calculatedFrom( ""// no comment""  )
`
` // " ++ [27880; 37322]%N ++ runes_of_ascii "
,@lengthOf( msg_type ) BodyLength As `a\` , zchar[// @lengthOf(
10]
zchar @calculatedFrom( """" // trailing space 
)
`doc`, }
")).
Eval vm_compute in ("<<<M1393>>>" ++ check (runes_of_ascii "MetaData T {
//
// @lengthOf(
u64 BodyLength `say ""hi""` , i16
a1,
    int64 msg_type `// not a comment`
, x_y_z zchar,u64
T, float32 calculatedFrom
,
    } packet Logon{ @lengthOf( options1 )
    int64 x @lengthOf(
Z9_ )  `{ , }`,} packet
    lengthOf{
    // `tick` ""quote"" 'q'
    @calculatedFrom(""`tick`"" ) A // `tick` ""quote"" 'q'
`" ++ [233]%N ++ runes_of_ascii "`// `tick` ""quote"" 'q'
, falsey lengthOf , @lengthOf( x_y_z)  @lengthOf( options1 ) char[ 4294967296
    ]
body @calculatedFrom( """ ++ [28040; 24687]%N ++ runes_of_ascii """)
    // c
    ,}
")).
Eval vm_compute in ("<<<M3591>>>" ++ check (runes_of_ascii "packet charz {
    @lengthOf(x_y_z)
    match msg_type as msg_type {
        ""a	b"" : packetx,
    },
    repeat zchar[255] i8i8 `tab	here`,
    char[255] i8i8 @lengthOf(i64_),
}

root packet matchKey {
    zchar[3] body `crlf
        line`,
    @calculatedFrom(""x y"")
    char[00] leftPad `u8 x,`,
}// packet A { u8 x, }

packet u8x {
    @tag(00)
    metadata {
        repeat lengthOf {
            zchar[0] _x @calculatedFrom(""it's"") `say ""hi""`,
        },
    },
}")).
Eval vm_compute in ("<<<M4307>>>" ++ check (runes_of_ascii "

  packet x_y_z {
	@calculatedFrom( """"
    )
    repeat 
    // `tick` ""quote"" 'q'
	// `tick` ""quote"" 'q'
  _x 
f32a
, @calculatedFrom(""it's"" ) chars 
      // c
  // `tick` ""quote"" 'q'
,
    int32
u8x 	 // `tick` ""quote"" 'q'
    ,  // c
	  }options 
      // " ++ [128512]%N ++ runes_of_ascii " emoji
	{  crc

    =

    """ ++ [233]%N ++ runes_of_ascii "t" ++ [233]%N ++ runes_of_ascii """

    }
root 
packet

string_ { }
packet x
{
u8x

Packet  , i32
	float 
, 
}
options

    {
	Pad

    = 
4294967296
;leftPad
=  """ ++ [233]%N ++ runes_of_ascii "t" ++ [233]%N ++ runes_of_ascii """
	}")).
Eval vm_compute in ("<<<M817>>>" ++ check (runes_of_ascii "
packet As //x
{ repeatCount @lengthOf(tag // trailing space 
)	, trueish {i64 a1 //	t
,Z9_ @calculatedFrom(""CRC32""	) , char[
    42 ] rootA // c
, repeat/// triple
u128 _x ,}
, @lengthOf(
    string_ //	t
) i8
    falsey ,	@leftPad (' ' ) @rightPad (' ' ) match // @lengthOf(
calculatedFrom as  leftPad { 65535 :
leftPad
[
00
,
1 , ""\n"" ,
1 ,3
// " ++ [27880; 37322]%N ++ runes_of_ascii "
// a // b
]
: repeatCount , [
    // " ++ [27880; 37322]%N ++ runes_of_ascii "
    """ ++ [128512]%N ++ runes_of_ascii """ ,42 ] : i8i8, },} // " ++ [128512]%N ++ runes_of_ascii " emoji")).
Eval vm_compute in ("<<<M100>>>" ++ check (runes_of_ascii "packet roots {
    } packet metadata {
    @lengthOf( u) @tag(00 )
@lengthOf( Pad )  T @lengthOf( pack ),@rightPad
( '0' )lengthOf , @lengthOf(  u) char[]
    //
    A ,
match  Packet as // `tick` ""quote"" 'q'
a1{007
: leftPad 65535
    :// trailing space 
msg_type , ""a\\"" :
// " ++ [128512]%N ++ runes_of_ascii " emoji
// @lengthOf(
Z9_ """ ++ [233]%N ++ runes_of_ascii "t" ++ [233]%N ++ runes_of_ascii """
: A , ""// no comment""	:x_y_z,
4294967296 : a1
    ,/// triple
} ,f32	T
    , f64 roots	@lengthOf( int ), }")).
Eval vm_compute in ("<<<M3472>>>" ++ check (runes_of_ascii "// top
packet // c0a
  // c0b
A { // c2
u8 // c3a
  // c3b
a
    // c4
, // c5
} // c6a
  // c6b
packet B // c8a
  // c8b
{
    // c9
u16 b // c11
, // c12a
  // c12b
} root // c14
packet // c15
P { // c17
u8 // c18a
  // c18b
K , // c20
match // c21
K
    // c22
as // c23
M { // c25
1
    // c26
: // c27a
  // c27b
A // c28
, 1 // c30
: B // c32a
  // c32b
, // c33a
  // c33b
} // c34
, // c35
} ")).
Eval vm_compute in ("<<<M90>>>" ++ check (runes_of_ascii "options{ calculatedFrom
= '0'; }
root
    // " ++ [128512]%N ++ runes_of_ascii " emoji
    packet metadata{i64 float@calculatedFrom( ""1"" )	,	@rightPad ( // trailing space 
) Logon u `crlf
line` , // trailing space 
falsey Packet `line1
line2` , u32	a1  `tab	here`, } // " ++ [128512]%N ++ runes_of_ascii " emoji
options { lengthOf
    // packet A { u8 x, }
    = '\x00'
msg_type =
uint8;repeatCount
    // `tick` ""quote"" 'q'
    =
0123456789 ; } //x")).
Eval vm_compute in ("<<<M203>>>" ++ check (runes_of_ascii "/// triple
packet Logon
{ char[
1
    ] T // packet A { u8 x, }
,repeat f32a{ repeat
    options1 , //x
zchar[ 007
    ]Z9_
    ,  u64 packetx, // @lengthOf(
charz  ,
} ,crc  Packet ,
@lengthOf( charz //x
) @leftPad (
    ' ' ) float64 i8i8`{ , }`
//	t
//x
, }
MetaData // a // b
a1  {
    u8 len  `say ""hi""` ,
len Logon //x
`` ,char[] pack
,
    char
    body, }
")).
Eval vm_compute in ("<<<M543>>>" ++ check (runes_of_ascii "packet string_ // " ++ [27880; 37322]%N ++ runes_of_ascii "
{ match
    //	t
    Pad as Z9_{
    [42 ] :trueish ,
    // trailing space 
    }
, float32
x `u8 x,`	, @leftPad	( '\x00' )	o @lengthOf(
    x_y_z )
, msg_type @lengthOf(
//x
// `tick` ""quote"" 'q'
u ) `line1
line2`// `tick` ""quote"" 'q'
, @calculatedFrom(""a\\"" )  int @calculatedFrom( ""packet"" ),  BodyLength `// not a comment` ,}
")).
Eval vm_compute in ("<<<M122>>>" ++ check (runes_of_ascii "root packet u128{} root packet
charz {// packet A { u8 x, }
@tag( 7
    )MetaDataX	, _x { uint32
As,
    charz ,}	,
len {  int64	u128 , repeat falsey
{x_y_z@lengthOf(
asx )
//	t
// c
, // c
}
,repeatCount
    {	metadata
@calculatedFrom( ""\n""
) `doc` , Logon Foo
// trailing space 
// " ++ [128512]%N ++ runes_of_ascii " emoji
,} // " ++ [27880; 37322]%N ++ runes_of_ascii "
,
float  rootA , }
, }
// a // b
")).
Eval vm_compute in ("<<<M488>>>" ++ check (runes_of_ascii "root packet // " ++ [128512]%N ++ runes_of_ascii " emoji
charz
    { @calculatedFrom( ""x y"" ) zchar[ 0 ] u128
    @calculatedFrom( ""x y"" ) , u16 MetaDataX ,
zchar[ 0123456789] u128 , uint16 u128
,  @lengthOf(
    int
) _x Foo
    `
`,zchar[	00
    ]
o
@calculatedFrom( /// triple
""packet"" )  ,rootA `doc`,
    char[]msg_type @calculatedFrom(""" ++ [233]%N ++ runes_of_ascii "t" ++ [233]%N ++ runes_of_ascii """
) , }
")).
Eval vm_compute in ("<<<M449>>>" ++ check (runes_of_ascii "//x
packet int {	repeat options1 falsey , @lengthOf( // " ++ [128512]%N ++ runes_of_ascii " emoji
roots)	f32
    Header @lengthOf(leftPad
) ,repeat crc uint8x , falsey {
    _x	body `
` , repeat
Packet	Foo
    , uint64
As @calculatedFrom( ""1""
) `
`
,
    repeat Header,
    } , char[
7	]
    /// triple
    Logon @calculatedFrom( ""a\\"" )	, }
")).
Eval vm_compute in ("<<<M1495>>>" ++ check (runes_of_ascii "root packet Foo // " ++ [128512]%N ++ runes_of_ascii " emoji
{ } options {
    // a // b
    tag // `tick` ""quote"" 'q'
= //	t
""""
    ; u8x = zchar[0  ] }
MetaData MetaData
    int {zchar[ 10]
lengthOf	`` , i64 u8x`// not a comment` ,MetaDataX pack// `tick` ""quote"" 'q'
`crlf
line`
, Logon charz `crlf
line`
    ,
    // a // b
    }
")).
Eval vm_compute in ("<<<M1457>>>" ++ check (runes_of_ascii "root packet Foo // " ++ [128512]%N ++ runes_of_ascii " emoji
{ } options {
    // a // b
    tag // `tick` ""quote"" 'q'
= //	t
false
    ; u8x = zchar[0  ] }
MetaData
    int {zchar[ 10]
lengthOf	`` , i64 u8x`// not a comment` ,MetaDataX pack// `tick` ""quote"" 'q'
`crlf
line`
, Logon charz `crlf
line`
    ,
    // a // b
    }
")).
Eval vm_compute in ("<<<M1608>>>" ++ check (runes_of_ascii "root packet Foo // " ++ [128512]%N ++ runes_of_ascii " emoji
{ } options {
    // a // b
    tag // `tick` ""quote"" 'q'
= //	t
""""
    ; u8x = ? zchar[0  ] }
MetaData
    int {zchar[ 10]
lengthOf	`` , i64 u8x`// not a comment` ,MetaDataX pack// `tick` ""quote"" 'q'
`crlf
line`
, Logon charz `crlf
line`
    ,
    // a // b
    }
")).
Eval vm_compute in ("<<<M1456>>>" ++ check (runes_of_ascii "root packet Foo // " ++ [128512]%N ++ runes_of_ascii " emoji
{ } options {
    // a // b
    tag // `tick` ""quote"" 'q'
= //	t
;
    """" u8x = zchar[0  ] }
MetaData
    int {zchar[ 10]
lengthOf	`` , i64 u8x`// not a comment` ,MetaDataX pack// `tick` ""quote"" 'q'
`crlf
line`
, Logon charz `crlf
line`
    ,
    // a // b
    }
")).
Eval vm_compute in ("<<<M1270>>>" ++ check (runes_of_ascii "root
    // trailing space 
    packet
//	t
//
trueish { @tag(
0)
@lengthOf( float) @lengthOf(
trueish) repeat uint8 Logon
    `line1
line2`
,  char[]
body @lengthOf(A )
`
`,
// " ++ [128512]%N ++ runes_of_ascii " emoji
// c
repeat
    // packet A { u8 x, }
    char[ 00
    ]MetaDataX , @leftPad (  ) repeat int8 pack
,}
")).
Eval vm_compute in ("<<<M1413>>>" ++ check (runes_of_ascii "; packet Foo // " ++ [128512]%N ++ runes_of_ascii " emoji
{ } options {
    // a // b
    tag // `tick` ""quote"" 'q'
= //	t
""""
    ; u8x = zchar[0  ] }
MetaData
    int {zchar[ 10]
lengthOf	`` , i64 u8x`// not a comment` ,MetaDataX pack// `tick` ""quote"" 'q'
`crlf
line`
, Logon charz `crlf
line`
    ,
    // a // b
    }
")).
Eval vm_compute in ("<<<M1434>>>" ++ check (runes_of_ascii "root packet Foo // " ++ [128512]%N ++ runes_of_ascii " emoji
{ }  {
    // a // b
    tag // `tick` ""quote"" 'q'
= //	t
""""
    ; u8x = zchar[0  ] }
MetaData
    int {zchar[ 10]
lengthOf	`` , i64 u8x`// not a comment` ,MetaDataX pack// `tick` ""quote"" 'q'
`crlf
line`
, Logon charz `crlf
line`
    ,
    // a // b
    }
")).
Eval vm_compute in ("<<<M578>>>" ++ check (runes_of_ascii "packet chars
    {  rootA i64_
, @calculatedFrom(
    ""1"" ) len @lengthOf(A )`two words`
,repeat float32 leftPad
    ,
match	Z9_ as Pad{
[
""" ++ [28040; 24687]%N ++ runes_of_ascii """ // a // b
, ""\" ++ [233]%N ++ runes_of_ascii """	,	00 ,  10 ] : As
, }  ,
    }MetaData matchKey {
    leftPad uint8x`a\` , body x_y_z  ,} packet
    tag
{}")).
Eval vm_compute in ("<<<M949>>>" ++ check (runes_of_ascii "options
    { } packet repeatCount { Foo // " ++ [128512]%N ++ runes_of_ascii " emoji
T ,_x `// not a comment` , @calculatedFrom(//	t
""x y""  ) repeat
    float32 uint8x `doc` ,char
msg_type
@lengthOf( // " ++ [27880; 37322]%N ++ runes_of_ascii "
stringy ) , @lengthOf( int) repeat float `two words`, }MetaData u8x
// " ++ [27880; 37322]%N ++ runes_of_ascii "
// a // b
{	}")).
Eval vm_compute in ("<<<M3757>>>" ++ check (runes_of_ascii "options {
    As = char[007];
    _x = 1;
    matchKey = true;
    Logon = ' ';
    stringy = zchar[007];
}

root packet MetaDataX {
    //x
    match leftPad as Logon {
        255 : packetx,
        [0123456789] : x_y_z,
        10 : rootA,
    },
}")).
Eval vm_compute in ("<<<M352>>>" ++ check (runes_of_ascii "
root packet
    // `tick` ""quote"" 'q'
    BodyLength { metadata
/// triple
// `tick` ""quote"" 'q'
{
calculatedFrom,zchar[ 007 ] msg_type@lengthOf( int )
`say ""hi""` , chars uint8x , string
As @calculatedFrom( ""a	b""
)`
` ,/// triple
} ,  }
")).
Eval vm_compute in ("<<<M920>>>" ++ check (runes_of_ascii "packet len
    { repeat
metadata
    ,}
root packet
string_ { @calculatedFrom(""\n""	)  i16 Z9_ @calculatedFrom(
    // a // b
    ""a\\"") // packet A { u8 x, }
,
metadata @calculatedFrom( ""CRC32"")//
`u8 x,`,f64 options1 // " ++ [27880; 37322]%N ++ runes_of_ascii "
,	} 	 ")).
Eval vm_compute in ("<<<M2316>>>" ++ check (runes_of_ascii "MetaData Packet { }packet	asx  { @lengthOf( asx) falsey`crlf
line`
,
    }
    packet x	{uint32// @lengthOf(
rootA	,u32 options1 options1 `say ""hi""` , @tag( 7
    )// packet A { u8 x, }
msg_type @lengthOf(
stringy	)	, }

")).
Eval vm_compute in ("<<<M262>>>" ++ check (runes_of_ascii "packet charz
{ @lengthOf(leftPad ) charz  @calculatedFrom( ""a\""b""
)`it's`	, char[]
Foo ,	uint8 MetaDataX `u8 x,`
    ,int64 i8i8 , @calculatedFrom( ""a	b""
) zchar[ // trailing space 
7 ] string_, } MetaData Pad{
    }")).
Eval vm_compute in ("<<<M2371>>>" ++ check (runes_of_ascii "MetaData Packet { }packet	asx  { @lengthOf( asx) falsey`crlf
line`
,
    }
    packet x	{uint32// @lengthOf(
rootA	,u32 options1 `say ""hi""` , @tag( 7
    )// packet A { u8 x, }
msg_type @lengthOf(
stringy	)	, } }

")).
Eval vm_compute in ("<<<M2262>>>" ++ check (runes_of_ascii "MetaData Packet { }packet	asx  { @lengthOf( asx) `crlf
line`falsey
,
    }
    packet x	{uint32// @lengthOf(
rootA	,u32 options1 `say ""hi""` , @tag( 7
    )// packet A { u8 x, }
msg_type @lengthOf(
stringy	)	, }

")).
Eval vm_compute in ("<<<M2275>>>" ++ check (runes_of_ascii "MetaData Packet { }packet	asx  { @lengthOf( asx) falsey`crlf
line`
,
    
    packet x	{uint32// @lengthOf(
rootA	,u32 options1 `say ""hi""` , @tag( 7
    )// packet A { u8 x, }
msg_type @lengthOf(
stringy	)	, }

")).
Eval vm_compute in ("<<<M27>>>" ++ check (runes_of_ascii "packet
    MetaDataX {
    match Header as // a // b
zchar { 0
: pack	[ 42
// packet A { u8 x, }
// c
,	65535 ]
:
crc } , // @lengthOf(
@tag(
    1 )@rightPad (' ' // " ++ [27880; 37322]%N ++ runes_of_ascii "
)
int64  Foo, } // packet A { u8 x, }")).
Eval vm_compute in ("<<<M2323>>>" ++ check (runes_of_ascii "MetaData Packet { }packet	asx  { @lengthOf( asx) falsey`crlf
line`
,
    }
    packet x	{uint32// @lengthOf(
rootA	,u32 options1 { , @tag( 7
    )// packet A { u8 x, }
msg_type @lengthOf(
stringy	)	, }

")).
Eval vm_compute in ("<<<M3688>>>" ++ check (runes_of_ascii "

  packet

x_y_z 
{
}packet

Logon {
repeat
i8 
int,	}
	root

    packet stringy{ 
char
	chars	,

    char[]
    a1

    @calculatedFrom(""// no comment""

)`// not a comment`,
string  Logon,}")).
Eval vm_compute in ("<<<M751>>>" ++ check (runes_of_ascii "options
// " ++ [128512]%N ++ runes_of_ascii " emoji
// " ++ [128512]%N ++ runes_of_ascii " emoji
{options1	=""{,}"" //
} options
{ packetx = '0' ;roots
    =4294967296 As=	""CRC32"" ; chars
// trailing space 
// packet A { u8 x, }
=//	t
7; i8i8 = zchar[ 255	] }")).
Eval vm_compute in ("<<<M705>>>" ++ check (runes_of_ascii "  options { x=zchar[ 42 ]
//	t
// a // b
;  }
// @lengthOf(
// trailing space 
packet
matchKey { } options{ Header /// triple
= char[] leftPad =
    false charz = true; Header = 1 }")).
Eval vm_compute in ("<<<M3639>>>" ++ check (runes_of_ascii "
packet A {
    match k 
as
    n 
{
	[
1 ,	""bb""
,

    007  ,
""d""	,

5  ,""f""

    ,
    7
    ,  ""h""
    , 9  , ""j""

,  11
,
    ""l"" ]  :
	B
2 :
C

    }	,
    }

")).
Eval vm_compute in ("<<<M1330>>>" ++ check (runes_of_ascii "packet len{	}//	t
root packet Pad {char[] Header	, @lengthOf(	falsey
    )
    // " ++ [128512]%N ++ runes_of_ascii " emoji
    char[] Header , len`line1
line2`
,} packet asx { repeat int16
    u , }
")).
Eval vm_compute in ("<<<M3929>>>" ++ check (runes_of_ascii "MetaData stringy {
    zchar[255] u `
    `,// packet A { u8 x, }
    string repeatCount,
    As i8i8 `{ , }`,
    string x_y_z,
    uint16 Pad,
    uint32 asx,
}")).
Eval vm_compute in ("<<<M4237>>>" ++ check (runes_of_ascii "// c
options {
    lengthOf = false
    Logon = false;
}

MetaData lengthOf {
    // " ++ [128512]%N ++ runes_of_ascii " emoji
    float32 i8i8,
}

root packet roots {
    zchar[7] f32a,
}")).
Eval vm_compute in ("<<<M186>>>" ++ check (runes_of_ascii "//	t
MetaData asx { char[]asx , x
_x , } root packet lengthOf{ @tag(
10
)@rightPad ( '0' )
    @rightPad('0' ) // " ++ [128512]%N ++ runes_of_ascii " emoji
u32
BodyLength, //	t
}
")).
Eval vm_compute in ("<<<M1396>>>" ++ check (runes_of_ascii "root packet  BodyLength
{
}// `tick` ""quote"" 'q'
root
    // `tick` ""quote"" 'q'
    packet f32a// c
{
@leftPad ( '0')
    //
    int8	Z9_	,}

")).
Eval vm_compute in ("<<<M1683>>>" ++ check (runes_of_ascii "root packet /// triple
rootA {	i32
MetaDataX@calculatedFrom( ""CRC32"" ) `line1
line2` , } MetaData MetaData BodyLength {
u8
rootA, } // c")).
Eval vm_compute in ("<<<M3785>>>" ++ check (runes_of_ascii "packet A {
    match k as n {
        [
            ""a"", ""bb"", ""c c"", ""d"", ""e"",
            ""f""
        ] : B,
        2 : C,
    },
}")).
Eval vm_compute in ("<<<M299>>>" ++ check (runes_of_ascii "
packet a1
{ match i8i8
    as repeatCount
    // c
    { [ 00
    ] : crc, 3 :f32a 7 : matchKey , 0123456789	: float
    } , }
")).
Eval vm_compute in ("<<<M1639>>>" ++ check (runes_of_ascii "root packet /// triple
rootA i32	{
MetaDataX@calculatedFrom( ""CRC32"" ) `line1
line2` , } MetaData BodyLength {
u8
rootA, } // c")).
Eval vm_compute in ("<<<M666>>>" ++ check (runes_of_ascii "  MetaData body
{i16 // @lengthOf(
metadata
//	t
// packet A { u8 x, }
,
float64
    leftPad
`
`, BodyLength Z9_ `" ++ [233]%N ++ runes_of_ascii "`
    ,}
")).
Eval vm_compute in ("<<<M865>>>" ++ check (runes_of_ascii "
packet//x
trueish
{ u128 zchar`{ , }` ,repeat BodyLength crc`{ , }`, match len as As { ""CRC32"" : // " ++ [128512]%N ++ runes_of_ascii " emoji
rootA ,
} ,}")).
Eval vm_compute in ("<<<M1796>>>" ++ check (runes_of_ascii "packet
    Pad // a // b
{ i8i8 i8i8 @calculatedFrom( ""a	b"") `u8 x,` ,
} options{ float// " ++ [128512]%N ++ runes_of_ascii " emoji
= f64 i64_
=//	t
00 }
")).
Eval vm_compute in ("<<<M3598>>>" ++ check (runes_of_ascii "
packet
A{
match	k as n {

    [ 1 ,""bb"" , 
007
    ,	""d"" ,	5,  ""f"",7,  ""h""
,9  , 
""j""  ,
11	]
:

B

, 2
	:C
} , }")).
Eval vm_compute in ("<<<M1837>>>" ++ check (runes_of_ascii "packet
    Pad // a // b
{ i8i8 @calculatedFrom( ""a	b"") `u8 x,` ,
} options float {// " ++ [128512]%N ++ runes_of_ascii " emoji
= f64 i64_
=//	t
00 }
")).
Eval vm_compute in ("<<<M1817>>>" ++ check (runes_of_ascii "packet
    Pad // a // b
{ i8i8 @calculatedFrom( ""a	b"") , `u8 x,`
} options{ float// " ++ [128512]%N ++ runes_of_ascii " emoji
= f64 i64_
=//	t
00 }
")).
Eval vm_compute in ("<<<M3460>>>" ++ check (runes_of_ascii "// top
root
    // c0
packet // c1a
  // c1b
P // c2a
  // c2b
{ // c3a
  // c3b
string // c4
s , // c6
}
    // c7
")).
Eval vm_compute in ("<<<M1028>>>" ++ check (runes_of_ascii "MetaData int	{i64_ calculatedFrom , As
    //
    a1 `it's` ,u64  string_`two words` , repeatCount//
Pad
,
    }
")).
Eval vm_compute in ("<<<M4049>>>" ++ check (runes_of_ascii "root packet MetaDataX {
    //	t
    @calculatedFrom(""it's"")
    string msg_type @calculatedFrom("""") `{ , }`,
}")).
Eval vm_compute in ("<<<M511>>>" ++ check (runes_of_ascii "
MetaData
crc { MetaDataX pack
    //x
    ,
/// triple
// c
}
    MetaData repeatCount
{
// " ++ [128512]%N ++ runes_of_ascii " emoji
//
}
")).
Eval vm_compute in ("<<<M616>>>" ++ check (runes_of_ascii "packet
msg_type { @rightPad ( )	@leftPad ('\x00' ) @rightPad// @lengthOf(
(
'\x00'  )  rootA
    ``, }
")).
Eval vm_compute in ("<<<M3349>>>" ++ check (runes_of_ascii "packet calculatedFrom { @tag( 4294967296 ) // c
u msg_type , char[ 3 ] crc @lengthOf( len ) `u8 x,` , }")).
Eval vm_compute in ("<<<M1982>>>" ++ check (runes_of_ascii "root
packet crc
    { f32a @calculatedFrom( @calculatedFrom( """ ++ [233]%N ++ runes_of_ascii "t" ++ [233]%N ++ runes_of_ascii """ )
    `say ""hi""`, lengthOf `` ,  }")).
Eval vm_compute in ("<<<M3999>>>" ++ check (runes_of_ascii "packet
roots
	{ rootA
    @lengthOf(trueish
)	`line1
line2`
    , int16	Packet
    `" ++ [28040; 24687; 31867; 22411]%N ++ runes_of_ascii "`
    , } ")).
Eval vm_compute in ("<<<M2968>>>" ++ check (runes_of_ascii "packet A {
  match k as n {
    [1, ""bb"", 007, ""d"", 5, ""f"", 7, ""h"", 9, ""j""] : B
    2 : C
  },
}")).
Eval vm_compute in ("<<<M3225>>>" ++ check (runes_of_ascii "packet Logon { @tag( 42
// c
) @rightPad ( ' ' ) @leftPad ( ) repeat trueish { string T , } , }")).
Eval vm_compute in ("<<<M3257>>>" ++ check (runes_of_ascii "packet Logon { @tag( 42 ) @rightPad ( ' ' ) @leftPad ( ) repeat trueish { string T , } ,
// c
}")).
Eval vm_compute in ("<<<M2926>>>" ++ check (runes_of_ascii "packet A {
  match k as n {
    [""a"", ""bb"", ""c c"", ""d"", ""e"", ""f"", ""g""] : B,
    2 : C
  },
}")).
Eval vm_compute in ("<<<M4135>>>" ++ check (runes_of_ascii "packet A {
    B b `a
    
    b`,
    B `a
    
    b`,
    repeat B bs `a
    
    b`,
}")).
Eval vm_compute in ("<<<M1256>>>" ++ check (runes_of_ascii "options { leftPad= 42 matchKey
= ""CRC32"" // `tick` ""quote"" 'q'
; lengthOf = ""{,}"" ;
}
")).
Eval vm_compute in ("<<<M2034>>>" ++ check (runes_of_ascii "root
packet " ++ [233]%N ++ runes_of_ascii "crc
    { f32a @calculatedFrom( """ ++ [233]%N ++ runes_of_ascii "t" ++ [233]%N ++ runes_of_ascii """ )
    `say ""hi""`, lengthOf `` ,  }")).
Eval vm_compute in ("<<<M2018>>>" ++ check (runes_of_ascii "root
packet crc
    { f32a @calculatedFrom( """ ++ [233]%N ++ runes_of_ascii "t" ++ [233]%N ++ runes_of_ascii """ )
    `say ""hi""`, lengthOf `` }  ,")).
Eval vm_compute in ("<<<M1849>>>" ++ check (runes_of_ascii "packet
    Pad // a // b
{ i8i8 @calculatedFrom( ""a	b"") `u8 x,` ,
} options{ float")).
Eval vm_compute in ("<<<M2938>>>" ++ check (runes_of_ascii "packet A {
  match k as n {
    [1, 22, 007, 4, 5, 66, 7, 8] : B
    2 : C
  },
}")).
Eval vm_compute in ("<<<M3324>>>" ++ check (runes_of_ascii "packet o { @tag( 42 ) repeat x { char[ 0123456789 ] i64_ , } , // c
} options { }")).
Eval vm_compute in ("<<<M889>>>" ++ check (runes_of_ascii "options { // c
matchKey= ""a\""b""	; a1
=
uint16
charz
=char[]
a1	=u8; As = 00; }")).
Eval vm_compute in ("<<<M2733>>>" ++ check (runes_of_ascii """a	b"" , char[] @rightPad false @calculatedFrom( Foo ] i64 char MetaData 7 { }")).
Eval vm_compute in ("<<<M2895>>>" ++ check (runes_of_ascii "packet A {
  match k as n {
    [""a"", ""bb"", 007, ""d""] : B,
    2 : C
  },
}")).
Eval vm_compute in ("<<<M2975>>>" ++ check (runes_of_ascii "packet A { Inner { match k as n { [1,22,007,4,5,66,7,8,9,10] : B, }, }, }")).
Eval vm_compute in ("<<<M1277>>>" ++ check (runes_of_ascii "options{
    lengthOf = zchar[//	t
0 ]
Logon =42
roots = ""CRC32""
    }")).
Eval vm_compute in ("<<<M4256>>>" ++ check (runes_of_ascii "

  packet
A
{ match 
k as	n	{ [  ""a"" ] :	B  2

:
    C }
    ,

}

")).
Eval vm_compute in ("<<<M2204>>>" ++ check (runes_of_ascii "root
 @x   // `tick` ""quote"" 'q'
    packet As { trueish Packet , }
")).
Eval vm_compute in ("<<<M1829>>>" ++ check (runes_of_ascii "packet
    Pad // a // b
{ i8i8 @calculatedFrom( ""a	b"") `u8 x,` ,")).
Eval vm_compute in ("<<<M2873>>>" ++ check (runes_of_ascii "packet A {
  match k as n {
    [1, 22, 007] : B
    2 : C
  },
}")).
Eval vm_compute in ("<<<M16>>>" ++ check (runes_of_ascii "MetaData
    stringy
{ char[ 0] chars// @lengthOf(
`{ , }` , }")).
Eval vm_compute in ("<<<M1937>>>" ++ check (runes_of_ascii "
packet	As { @calculatedFrom(//x
""{,}""	)lengthOf , zchar[ 	 ")).
Eval vm_compute in ("<<<M2603>>>" ++ check (runes_of_ascii "packet A { match k as n { 1 : B 2 : C ""s"" : D [1] : E }, }")).
Eval vm_compute in ("<<<M4223>>>" ++ check (runes_of_ascii "  options{ }

options{} 	 // `tick` ""quote"" 'q@leftpad'
")).
Eval vm_compute in ("<<<M1932>>>" ++ check (runes_of_ascii "
packet	As { @calculatedFrom(//x
""{,}""	)lengthOf } , 	 ")).
Eval vm_compute in ("<<<M3163>>>" ++ check (runes_of_ascii "// a
MetaData M {} // b
// c
MetaData N {} // d
// e")).
Eval vm_compute in ("<<<M2862>>>" ++ check (runes_of_ascii "packet A { Inner { match k as n { [1] : B, }, }, }")).
Eval vm_compute in ("<<<M801>>>" ++ check (runes_of_ascii "MetaData tag { Logon rootA `` ,
} packet Pad{
}
")).
Eval vm_compute in ("<<<M2399>>>" ++ check (runes_of_ascii "MetaData A
{
i64
chars	,  // `tick` ""quote"" 'q'")).
Eval vm_compute in ("<<<M4312>>>" ++ check (runes_of_ascii "options {
    a = ""\
    "";
    b = ""\
    ""
}")).
Eval vm_compute in ("<<<M2597>>>" ++ check (runes_of_ascii "packet A { repeat B { C { u8 x, }, D d, }, }")).
Eval vm_compute in ("<<<M1226>>>" ++ check (runes_of_ascii "packet lengthOf { }
// packet A { u8 x, }
")).
Eval vm_compute in ("<<<M3417>>>" ++ check (runes_of_ascii "
root packet	P {
char  c
, u8 x 
, 
} ")).
Eval vm_compute in ("<<<M3192>>>" ++ check (runes_of_ascii "MetaData zchar // c
{ zchar[ 3 ] Pad , }")).
Eval vm_compute in ("<<<M2147>>>" ++ check (runes_of_ascii "MetaData x
{// " ++ [128512]%N ++ runes_of_ascii " emoji
i16 s'tringy , }")).
Eval vm_compute in ("<<<M3575>>>" ++ check (runes_of_ascii "
root packet 
P{
	string s

    ,} ")).
Eval vm_compute in ("<<<M2150>>>" ++ check (runes_of_ascii "MetaData x
{// " ++ [128512]%N ++ runes_of_ascii " emoji
i16 na" ++ [239]%N ++ runes_of_ascii "ve , }")).
Eval vm_compute in ("<<<M2582>>>" ++ check (runes_of_ascii "packet A { string x @lengthOf(y) }")).
Eval vm_compute in ("<<<M1604>>>" ++ check (runes_of_ascii "root packet Foo // " ++ [128512]%N ++ runes_of_ascii " emoji
{ } o")).
Eval vm_compute in ("<<<M3690>>>" ++ check (runes_of_ascii "root packet As {
    trueish,
}")).
Eval vm_compute in ("<<<M3113>>>" ++ check (runes_of_ascii "packet A {
 u8 x `d" ++ [8287]%N ++ runes_of_ascii "`, // c" ++ [8287]%N ++ runes_of_ascii "
}")).
Eval vm_compute in ("<<<M1433>>>" ++ check (runes_of_ascii "root packet Foo // " ++ [128512]%N ++ runes_of_ascii " emoji
{")).
Eval vm_compute in ("<<<M2722>>>" ++ check (runes_of_ascii "@tag( { } : match : { false")).
Eval vm_compute in ("<<<M2620>>>" ++ check (runes_of_ascii "packet A { @tag(x) u8 x, }")).
Eval vm_compute in ("<<<M3281>>>" ++ check (runes_of_ascii "options { u8x = 3 } // c
")).
Eval vm_compute in ("<<<M3273>>>" ++ check (runes_of_ascii "options { // c
u8x = 3 }")).
Eval vm_compute in ("<<<M2666>>>" ++ check (runes_of_ascii "options { packet = 1; }")).
Eval vm_compute in ("<<<M2773>>>" ++ check (runes_of_ascii "int64 ; char match i64")).
Eval vm_compute in ("<<<M409>>>" ++ check (runes_of_ascii "MetaData leftPad	{}
")).
Eval vm_compute in ("<<<M2641>>>" ++ check (runes_of_ascii "MetaData M { u8 x }")).
Eval vm_compute in ("<<<M2738>>>" ++ check (runes_of_ascii """{,}"" char [ match")).
Eval vm_compute in ("<<<M3122>>>" ++ check (runes_of_ascii "// c" ++ [12]%N ++ runes_of_ascii "
packet A {
}")).
Eval vm_compute in ("<<<M3059>>>" ++ check (runes_of_ascii "packet A {
}// c ")).
Eval vm_compute in ("<<<M3887>>>" ++ check (runes_of_ascii "packet x_y_z {
}")).
Eval vm_compute in ("<<<M2827>>>" ++ check (runes_of_ascii ";,1Ws PvAg=KMJ")).
Eval vm_compute in ("<<<M2755>>>" ++ check ([1074; 18; 65533; 65533; 65533]%N ++ runes_of_ascii "G" ++ [23; 65533; 65533]%N ++ runes_of_ascii "+t")).
Eval vm_compute in ("<<<M2055>>>" ++ check (runes_of_ascii "MetaData")).
Eval vm_compute in ("<<<M1789>>>" ++ check (runes_of_ascii "packet")).
Eval vm_compute in ("<<<M2449>>>" ++ check (runes_of_ascii "false")).
Eval vm_compute in ("<<<M3812>>>" ++ check (runes_of_ascii "
//
")).
Eval vm_compute in ("<<<M1319>>>" ++ check (runes_of_ascii "

")).
Eval vm_compute in ("<<<M2807>>>" ++ check (runes_of_ascii "e-z")).
Eval vm_compute in ("<<<M2516>>>" ++ check (runes_of_ascii "`")).
