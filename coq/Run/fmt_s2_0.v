From FP Require Import Lexer Parser ShowPT Digest Formatter.
From Coq Require Import String List NArith.
Import ListNotations.
Open Scope string_scope.
Set Printing Width 100000000.
Set Printing Depth 100000000.
Definition show_fres (r : fres) : string :=
  match r with
  | FOk s => "OK:" ++ sh_escaped s ""
  | FErr s => "ERR:" ++ sh_escaped s ""
  | FPanic p => "PANIC:" ++ p
  end.
Definition check (rs : list rune) : string := digest (show_fres (format_res rs)).
Definition full (rs : list rune) : string := show_fres (format_res rs).
Eval vm_compute in ("<<<M3949>>>" ++ check (runes_of_ascii "// top
options 
      // c0
{	// c1

LittleEndian 
        // c2
=	// c3a

	// c3b
	true // c4

  ;	// c5

	StringPrefixLenType // c6
    	=  
      // c7
		u8// c8a
// c8b
; 
      // c9
    	ArrayPrefixLenType	// c10a
	// c10b
=  u16	; 
FixedStringPadChar	// c14
    = 
	// c15
	'0'  // c16a
    	// c16b
  ; 
    // c17
  JavaPackage  =	// c19
  ""com.example.msg""// c20
  	;// c21
  GoPackage=	// c23a
    // c23b
	""msg""	; 
        // c25
GoModule=""example.com/msg""
// c28
;	} 
    // c30

MetaData	// c31a
	  // c31b
	Meta
{

u32  // c34
    SeqNum 
// c35
    `sequence number`
, // c37a

  // c37b
  char[  // c38
  	8	// c39a
	// c39b
]

// c40

Symbol  // c41
  `symbol`// c42a
// c42b
, 	 // c43
  zchar[ 
5

    // c45
    ]  // c46
    ZSym	// c47a
	// c47b
  `z symbol` 	 // c48
	, 
    // c49
  string

    Note	,	// c52
Symbol 
    // c53
		AltSymbol`alias of symbol` 	 // c55
    ,f64

    // c57
	Price 
	// c58
  , 	 // c59
}packet 	 // c61a
  // c61b
	Inner
        // c62

{	// c63
  	u8  a// c65
  	,	// c66a
  // c66b
i16

    b

    , 	 // c69a

	// c69b
string
	c 
    // c71

,	// c72
  }	// c73

packet
Inner2// c75

  { 	 // c76a
// c76b
u8  a2 
// c78

, 	 // c79a
// c79b
	  char[
	    // c80
  3	] 	 // c82
      c2
    // c83
,	// c84a

	// c84b
    }  packet // c86
    Logon{
    // c88
  u8 // c89
	x  
  // c90

	,	// c91

string 
	    // c92
	user
// c93
    	,

repeat
u16
// c96
codes
// c97
	  ,
}	// c99a
	// c99b
  packet  // c100

	Logout // c101a

// c101b
	{	// c102
u16 reason

,

// c105
    }
    // c106
  packet 
	// c107
		Empty// c108
	{
    } // c110a
    	// c110b

root  // c111
  packet 	 // c112a
	// c112b
	  Msg  // c113a
  // c113b
	{// c114a
	  // c114b

	u8
// c115
  su8  
      // c116

,  
  // c117
	uint8 
  // c118
luint8 
    // c119
  ,	u16// c121
su16
	, uint16	// c124
  luint16 // c125
,	// c126a
		// c126b
  u32 
    // c127
	su32	// c128
      ,
    // c129

uint32 	 // c130a
    	// c130b
	luint32  // c131a
  // c131b
    ,	// c132
	u64 // c133a

  // c133b
  su64  // c134
  ,// c135
  uint64	// c136a
// c136b
luint64 
	    // c137
    , // c138a
	  // c138b
i8  // c139a

  // c139b
  si8
	,	int8 	 // c142
lint8
, 

    // c144
	i16	// c145
si16 ,  int16
lint16
// c149
,	i32
    si32  // c152
  ,

    int32// c154a
  // c154b
    	lint32 
	// c155

	,// c156a
  // c156b
	i64 si64 

    // c158
,
// c159
    int64  lint64 
	// c161
, 
// c162
f32
    // c163
  sf32	// c164a
  // c164b

	,
    // c165
float32 	 // c166a

	// c166b
  lfloat32  // c167
  	,

f64// c169
	sf64// c170
  	,	// c171a
// c171b

  float64 	 // c172
lfloat64
    // c173

	,

char[ 	 // c175a
	// c175b
6 	 // c176
		] // c177a

	// c177b
    	fsplain 	 // c178a
    // c178b

  , 	 // c179a
// c179b
	@leftPad 	 // c180a
  // c180b
    ( '0'  )
	char[
	    // c184
  4// c185
    	] 
        // c186
    fs0 
// c187

, // c188a
	// c188b

@rightPad( 
      // c190
		'0'
)

char[ 	 // c193a

	// c193b
5// c194
  ] 

    // c195
    	fs1 // c196
,
    @leftPad

(	// c199
	' ' // c200a
	  // c200b
    )// c201
char[
    6
	// c203
] 
// c204
	fs2 
	// c205
	  ,  // c206a

// c206b
@rightPad
	// c207
    (  // c208a
  // c208b
  ' ')	// c210a
// c210b

char[ 7  // c212a

// c212b
] 	 // c213
		fs3 , @leftPad 	 // c216a
// c216b
( // c217

'\x00' // c218a
  	// c218b
	)  char[  // c220
      8	// c221
  ]	// c222
	fs4  // c223
      , // c224
@rightPad

    ( 
	    // c226
	'\x00'  // c227
) 	 // c228

  char[ 	 // c229
  9 // c230
	]
fs5	// c232a
    	// c232b
	, 	 // c233
  @leftPad  // c234
    (
	    // c235
  )// c236a
	// c236b
  char[ 	 // c237

10// c238a
      // c238b
    	]fs6// c240
,
	    // c241
  @rightPad  // c242
    ( // c243a
  // c243b
) 
    // c244
    char[ 
      // c245
    11
    ]
    // c247

  fs7 
      // c248
  ,// c249a
  // c249b

zchar[
        // c250

7 

// c251

  ] // c252a
  // c252b
	  fz
	    // c253
      ,
	@leftPad 	 // c255a
  // c255b
    (  
      // c256
'0'  // c257
	)	// c258a
  // c258b
  zchar[
3  // c260

  ] 	 // c261a
// c261b
	  fzl0 
	    // c262
  , 
    // c263
string  // c264a
	  // c264b
	s1  // c265

  `doc` // c266a

	// c266b
  , 	 // c267
char[]
	    // c268

	s2
        // c269

  ,
        // c270
	Inner// c271
	,	// c272a
  // c272b
    Sub
// c273
	{// c274
	u8	// c275a
  	// c275b
	q 
// c276
      ,string // c278a
    // c278b
    w
    ,  // c280

  Deep// c281
  { // c282
		u16 
	// c283
  z// c284
  ,
// c285
	repeat
i32 // c287a
  	// c287b

  zs 
    // c288
,
        // c289
  	} 

    // c290
	  ,	// c291a
// c291b
	}

    ,  // c293a
// c293b
  repeat	// c294a

	// c294b
  u8	// c295a
  	// c295b
    	ru8 // c296
	,	// c297
		repeat  // c298a

// c298b
	u16

    ru16	// c300a
// c300b
, repeat	// c302a
  // c302b
	u32  // c303
    ru32 // c304a
	// c304b
  , 	 // c305
  	repeat	// c306
  u64

    ru64	,
repeat

// c310
      i8  // c311
	ri8 // c312a
// c312b
  ,
    // c313
repeat
    i16
// c315
ri16  // c316
	, 
	    // c317
	repeat

i32

    ri32
    // c320
  , 
      // c321
repeat
    i64
	ri64

    ,  // c325
repeat// c326
	f32// c327a
      // c327b
    rf32 	 // c328
    	,// c329a
    // c329b
	repeat
    // c330
f64  rf64	// c332
  ,	// c333
repeat 

    // c334

string 
// c335

rstr// c336
, 	 // c337
  repeat
	    // c338
  char[]
    rstr2	// c340a
  // c340b
	  ,	repeat	char[	// c343a
    // c343b
	3	// c344
  ]  // c345

	rfs

    ,
    repeat // c348
    zchar[ 

// c349

  3  // c350a
// c350b

	] 	 // c351a
  // c351b

	rfz , 
	// c353
repeat// c354
Inner2 	 // c355a
	// c355b

,repeat  Grp	// c358

  {	u8 	 // c360a
// c360b
    k
	,	// c362a
    // c362b
    char[  // c363a

// c363b
	2
]

    v	// c366a
// c366b
,	// c367
	} 
      // c368
    , 	 // c369
  SeqNum// c370
  , 	 // c371
SeqNum  seq2

    // c373
    	,

repeat SeqNum
	// c376
    seqs  // c377

,
Symbol	// c379
,	// c380
  AltSymbol
    // c381
	alt
    // c382
    ,  // c383a
	// c383b
    ZSym,
Note// c386
	, 
    // c387
	  repeat  // c388
	Symbol // c389
	syms ,

    Price

px

    // c393
    , 	 // c394a
  	// c394b
  u16 MsgType// c396a

// c396b
,	// c397
  u32
BodyLen// c399
    @lengthOf(// c400a

// c400b
  Body
	)// c402a
  // c402b
    , 
// c403

	match// c404a
	  // c404b
MsgType  // c405
		as // c406a
// c406b
      Body { 
    // c408
  1 
  // c409
    	:  // c410
		Logon 	 // c411
, // c412
  [  // c413a
	// c413b
    2  // c414a
    // c414b
    , 
    // c415
  3 ]
    // c417
	  : 	 // c418a
	// c418b
Logout  // c419a
		// c419b
  ,	// c420
  7
    // c421
  	:	// c422a
    // c422b
	Logon

    ,

9 

    // c425

  : Empty // c427a
		// c427b

,// c428a
	// c428b
	  },	// c430a
	// c430b
	u32 	 // c431a
	// c431b
Checksum// c432
	@calculatedFrom(
    // c433
  	""CRC32""	// c434a

// c434b
    ) 
    // c435
		, 
    // c436
}
")).
Eval vm_compute in ("<<<M4274>>>" ++ check (runes_of_ascii "packet lengthOf {
    @leftPad(' ')
    match len as As {
        ""1"" : leftPad,
        255 : Pad,
        ""1"" : x,
        4294967296 : u128,
        // c
        // packet A { u8 x, }
    },
    @rightPad()
    crc `say ""hi""`,
    @lengthOf(leftPad)
    @calculatedFrom(""a\\"")
    repeat char[] _x `100% of %d`,
    repeatCount asx,
    repeat u {
        match falsey as i8i8 {
            """ ++ [233]%N ++ runes_of_ascii "t" ++ [233]%N ++ runes_of_ascii """ : float,
            [""\n""] : _x,
            ""CRC32"" : roots,
            7 : matchKey,
            ""packet"" : Foo,
            ""1"" : int,
        },
    },
    i8 x `
    `,
    MetaDataX @lengthOf(f32a),
    charz {
        tag @calculatedFrom(""a\\""),
        MetaDataX @lengthOf(matchKey),
        int16 msg_type,
    },
    @calculatedFrom(""x y"")
    match x_y_z as Z9_ {
        1 : lengthOf,
        255 : u128,
        ""it's"" : Z9_,
        // @lengthOf(
        // 50% %s
        42 : len,
    },
    //
    match calculatedFrom as crc {
        [
            0123456789, 255, ""packet"", ""it's"", 0,
            ""\n"", 1, 0123456789
        ] : calculatedFrom,
        65535 : _x,
        ""CRC32"" : tag,
        [""`tick`""] : T,
        [
            ""it's"", ""it's"", 0123456789, """ ++ [128512]%N ++ runes_of_ascii """, 4294967296,
            ""`tick`""
        ] : pack,
    },
}

packet u8x {
}

root packet string_ {
    @tag(3)
    char[] crc,
    @rightPad('\x00')
    @leftPad(' ')
    //x
    // packet A { u8 x, }
    repeat char[42] Foo,
    @calculatedFrom(""{,}"")
    string stringy @lengthOf(chars),
    @tag(1)
    zchar[007] charz `" ++ [28040; 24687; 31867; 22411]%N ++ runes_of_ascii "`,
    repeat msg_type {
        char uint8x `say ""hi""`,
        char[00] options1 @calculatedFrom(""" ++ [233]%N ++ runes_of_ascii "t" ++ [233]%N ++ runes_of_ascii """) `" ++ [233]%N ++ runes_of_ascii "`,
        matchKey @calculatedFrom(""1""),
    },
    @tag(0123456789)
    zchar[00] lengthOf,
    @tag(3)
    falsey As,
}

packet lengthOf {
    chars {
        Packet `two words`,//
        char[7] a1 @calculatedFrom(""\" ++ [233]%N ++ runes_of_ascii """) `doc`,
        charz @calculatedFrom(""" ++ [233]%N ++ runes_of_ascii "t" ++ [233]%N ++ runes_of_ascii """),
    },
    @lengthOf(body)
    match metadata as BodyLength {
        ""abc"" : chars,
        255 : o,
    },
    leftPad,
    repeat uint32 Logon,
}")).
Eval vm_compute in ("<<<M476>>>" ++ check (runes_of_ascii "root packet Pad
{@lengthOf(
    Logon ) zchar[ 3 ]As // a // b
@calculatedFrom(
""x y""
), @leftPad
( ' ' ) matchKey  `" ++ [28040; 24687; 31867; 22411]%N ++ runes_of_ascii "`,
@tag(3 )
    BodyLength { match
zchar as int{ ""a	b"" : int } // @lengthOf(
, } // a // b
,
@tag( 7  ) match x as A
{ 10 // " ++ [27880; 37322]%N ++ runes_of_ascii "
:metadata ,
    }
, zchar[
3 ] chars
    , len body // " ++ [128512]%N ++ runes_of_ascii " emoji
,
match Z9_	as  chars  { ""a	b""
: chars , },@lengthOf(
rootA ) //
A
,string tag , u32 a1 `" ++ [28040; 24687; 31867; 22411]%N ++ runes_of_ascii "` , }MetaData string_ { char[]
_x,
}
packet x { @lengthOf( As // 50% %s
) @lengthOf( //
asx ) repeat uint32
int , @leftPad
    ( ' ' ) repeat  char[
    3
    ]o
`two words` ,	repeat
a1 {
repeat f32a { calculatedFrom crc, x
    Pad , repeat u16
leftPad// 50% %s
,
repeat f32a	calculatedFrom
, // `tick` ""quote"" 'q'
},
i16 repeatCount, asx `a\` ,
} ,	a1 {
Z9_ x ,
charz @lengthOf(
    As
) `doc` , Packet
u , repeat char[007 ]
    Header ,
}
,
calculatedFrom //	t
lengthOf`" ++ [28040; 24687; 31867; 22411]%N ++ runes_of_ascii "`
, crc
    `a\`	,repeat
    char[] falsey ,@tag( 42
    ) string matchKey  , zchar  , @tag(0
// trailing space 
/// triple
)zchar[ 007] // packet A { u8 x, }
u128 `two words` ,
}MetaData f32a {  }
    packet calculatedFrom { @leftPad (
'0' ) @rightPad (' ' )metadata
Foo
    ,
@tag(1
    ) int64
    Pad
`line1
line2`  , tag  @lengthOf(
Header)
, string	u128 , @calculatedFrom( ""x y"" ) @lengthOf(
    i64_ ) tag /// triple
{ o	,Packet@calculatedFrom( ""`tick`""
)
    , },// @lengthOf(
i32
    leftPad @lengthOf(	u// " ++ [27880; 37322]%N ++ runes_of_ascii "
), i16 Logon
,
@calculatedFrom( ""it's"" ) uint16 BodyLength  @calculatedFrom( // packet A { u8 x, }
""" ++ [233]%N ++ runes_of_ascii "t" ++ [233]%N ++ runes_of_ascii """
)
    // trailing space 
    , zchar[
    10  ]x
    @calculatedFrom( """"
// " ++ [27880; 37322]%N ++ runes_of_ascii "
// 50% %s
) , }
")).
Eval vm_compute in ("<<<M561>>>" ++ check (runes_of_ascii "packet uint8x {
string// packet A { u8 x, }
rootA
    @calculatedFrom( // trailing space 
""\" ++ [233]%N ++ runes_of_ascii """
    ) ,
    @rightPad ( ' ' ) repeat matchKey
//x
// " ++ [27880; 37322]%N ++ runes_of_ascii "
,	string string_ @lengthOf( // trailing space 
A ) `say ""hi""`
    ,
    @lengthOf( chars )@tag(
7 )
    u8x string_  `line1
line2`, }packet
    // " ++ [128512]%N ++ runes_of_ascii " emoji
    asx { char[
255 //	t
]trueish ,@lengthOf( f32a
)  zchar[ 0 ]
zchar ,
// trailing space 
// @lengthOf(
match tag // 50% %s
as u { 0: Packet ""// no comment""
    :
//x
// c
_x
,	1
    // trailing space 
    :
// `tick` ""quote"" 'q'
//	t
float , """ ++ [128512]%N ++ runes_of_ascii """  : options1 ,},char[	255] metadata// c
`u8 x,` ,
    match repeatCount as lengthOf { 0123456789
: //x
options1 , 3
// 50% %s
// `tick` ""quote"" 'q'
:
stringy
    ,""" ++ [128512]%N ++ runes_of_ascii """ :
// " ++ [27880; 37322]%N ++ runes_of_ascii "
// trailing space 
u, 0123456789 :i8i8 , [ 42 ,
    """ ++ [128512]%N ++ runes_of_ascii """ ,0123456789  ,
    // 50% %s
    4294967296
,""" ++ [233]%N ++ runes_of_ascii "t" ++ [233]%N ++ runes_of_ascii """]
:
// trailing space 
// trailing space 
Logon ,3:o ,
    } ,@lengthOf( asx ) repeat i16 T,
@calculatedFrom( ""x y""
)
@calculatedFrom(""x y""
) @tag(
    4294967296	) zchar[0  ] lengthOf , repeat
zchar[ 00
]
    T
    ,
    // 50% %s
    } packet asx // " ++ [27880; 37322]%N ++ runes_of_ascii "
{ repeat
i8i8
// " ++ [128512]%N ++ runes_of_ascii " emoji
// a // b
{
    repeat u16
tag	`crlf
line`
    , trueish @lengthOf(
    x // " ++ [128512]%N ++ runes_of_ascii " emoji
) ,
    repeat len {
roots @lengthOf( Packet )
``
    , Packet
@lengthOf(/// triple
string_ )`100% of %d` ,
Foo options1, } ,
o `" ++ [28040; 24687; 31867; 22411]%N ++ runes_of_ascii "`
,}	,  }	packet Z9_ {
}
root packet // @lengthOf(
stringy
{ stringy, }
")).
Eval vm_compute in ("<<<M3601>>>" ++ check (runes_of_ascii "packet 
MetaDataX	{@tag( 3 	 // " ++ [128512]%N ++ runes_of_ascii " emoji
    )	match
asx

as

    u8x  {

[

    ""CRC32""
]	:
chars 0123456789

    : rootA
,//x
    65535	:
len	, """ ++ [128512]%N ++ runes_of_ascii """:
charz/// triple

  }  ,
lengthOf

Z9_
`
`, char[]
A
@calculatedFrom(""" ++ [233]%N ++ runes_of_ascii "t" ++ [233]%N ++ runes_of_ascii """  ) 
,	char[] T 
,
i32
repeatCount	,

@calculatedFrom( """ ++ [128512]%N ++ runes_of_ascii """)
pack
	@lengthOf(

chars)`line1
line2`

// 50% %s
	,
@tag( 0123456789 ) 
f32a
    {

    match

    MetaDataX as  f32a 
{  7 // " ++ [27880; 37322]%N ++ runes_of_ascii "
	  :
options1 
"""" : // " ++ [27880; 37322]%N ++ runes_of_ascii "
  chars  255:  
      // `tick` ""quote"" 'q'
    /// triple
  uint8x
00:
body	// " ++ [128512]%N ++ runes_of_ascii " emoji
  , [

    10	/// triple
	,
	42] :
packetx
    ,
    },
},

@tag(
0123456789
)repeat 
options1
options1 , u32  MetaDataX 
@lengthOf(
	// packet A { u8 x, }
  o )
, }
root	packet
    Pad  // trailing space 
	{

    msg_type ,
    }	packet
    i64_
    {
	float 
@lengthOf(f32a ) 
,
u64  int

@calculatedFrom( ""packet""  )

`" ++ [28040; 24687; 31867; 22411]%N ++ runes_of_ascii "`  , 
@leftPad  // a // b
		(

    ' ')

    @calculatedFrom( ""\" ++ [233]%N ++ runes_of_ascii """)uint64 BodyLength  , zchar[ 65535	] crc,
match	tag as

    charz

{ [	""" ++ [128512]%N ++ runes_of_ascii """] 	 //x
	: 
zchar
,	}	// 50% %s
  ,	// " ++ [128512]%N ++ runes_of_ascii " emoji
x  @lengthOf(x	// c

)
    `100% of %d`
	,

@tag( 7 ) float32	i64_
	@calculatedFrom(
	""packet""
	)`line1
line2`,
    repeat  tag 
Logon 

    // a // b
  , }	packet leftPad

    { }
")).
Eval vm_compute in ("<<<M682>>>" ++ check (runes_of_ascii "
packet
    Pad { repeat Pad  u8x ,@calculatedFrom( ""a\\"" )
zchar[ // a // b
007 ] asx
@calculatedFrom( ""abc"" ) ,	match zchar
    as
    x_y_z{ ""1""
    :  tag	,
""1""// `tick` ""quote"" 'q'
: asx } , repeat string f32a `say ""hi""` ,
    repeat
    char[] string_ ,float32
    leftPad
    @lengthOf(  u128 /// triple
) // " ++ [128512]%N ++ runes_of_ascii " emoji
,
    match tag
as f32a
{ ""\n"" :metadata , 255 : int
    // " ++ [27880; 37322]%N ++ runes_of_ascii "
    ,
    ""1"" // c
: body
    , 0 :
lengthOf[""1"" ] :
    // `tick` ""quote"" 'q'
    leftPad , ""abc""
: uint8x
//x
// c
} // packet A { u8 x, }
, //
@leftPad (' '  ) zchar[10 ]
trueish@calculatedFrom(""packet"" )// " ++ [128512]%N ++ runes_of_ascii " emoji
`crlf
line`	, match string_ as
    pack
{
    7: body [
    // trailing space 
    """ ++ [28040; 24687]%N ++ runes_of_ascii """	,
//	t
//
""" ++ [233]%N ++ runes_of_ascii "t" ++ [233]%N ++ runes_of_ascii """
]:u8x
, 3:
_x , [ 42
, ""CRC32""
    ]
    : roots ,
[ 00 ,
    ""a\""b"",
10 ,
/// triple
// @lengthOf(
""a\""b"" , ""a	b"" , 0123456789 , 1 ,"""" ] :  f32a  ,
""abc"" :i64_ }
    ,
// trailing space 
// trailing space 
@tag( 255 )
    Logon
Foo, } root packet string_{//
u8x@calculatedFrom(
    ""CRC32"")	, // `tick` ""quote"" 'q'
} packet x_y_z{
@rightPad ( ' '
) repeat crc asx , }options { body
    = u32 ;
} MetaData stringy{
    u64 float`// not a comment`, }
")).
Eval vm_compute in ("<<<M471>>>" ++ check (runes_of_ascii "root packet
    // " ++ [27880; 37322]%N ++ runes_of_ascii "
    MetaDataX {  @tag(1
    )	@leftPad
( '0'
) char i8i8 @calculatedFrom( ""\n"" )
// 50% %s
// trailing space 
, }root packet T {	repeat
o{	match f32a
    //x
    as
    a1 {
    [ ""x y"" ,
00
    ,
    65535
    , ""\n"" ] : packetx  , ""`tick`"": float	, 65535
:
Packet ""{,}"" : repeatCount ,
}  , repeat u128,}, @tag(	0
)//	t
char[ 7] BodyLength
    , f32a `doc` ,
char[]
    roots// a // b
, repeat msg_type ,
    @rightPad( )	char[] x// " ++ [27880; 37322]%N ++ runes_of_ascii "
,  body
@lengthOf( zchar// 50% %s
),matchKey { char[ 7 ] falsey , }
, }
packet i8i8 {
@tag(  007 )
repeat char[]
Packet , // a // b
@lengthOf(
MetaDataX)
    @calculatedFrom( """" ) @tag( 0123456789 ) f32 As ,
    string_ crc , int16 stringy, @lengthOf( Packet ) roots @lengthOf(falsey // packet A { u8 x, }
),
    string rootA ,// packet A { u8 x, }
char[]string_
// c
// packet A { u8 x, }
`// not a comment` , trueish { uint64 zchar
@calculatedFrom(
    // trailing space 
    ""abc"" )`// not a comment` , }, // c
@lengthOf(  Pad
) zchar[// trailing space 
1	]_x	`
`,
// packet A { u8 x, }
/// triple
string
    //x
    o `two words` , }
")).
Eval vm_compute in ("<<<M4130>>>" ++ check (runes_of_ascii "options {
    /// triple
    repeatCount = '\x00'
    u128 = ' ';
    A = 00
    int = '0'
    stringy = 3;
}

options {
    float = false;
    options1 = ""`tick`"";
    rootA = ' ';
    T = '0';
}

packet charz {
    @lengthOf(int)
    repeat i16 uint8x `say ""hi""`,
    repeat zchar[255] Z9_,
    metadata,
    @tag(007)
    // c
    Packet {
        char[1] x,// " ++ [27880; 37322]%N ++ runes_of_ascii "
        match asx as x {
            00 : len,
            ["""", ""a\\""] : crc,
            10 : matchKey,
            10 : leftPad,
        },
        match stringy as A {
            ""1"" : i64_,
            7 : As,
            ""{,}"" : i8i8,
        },
        zchar[007] matchKey,
    },
    repeat zchar[7] trueish,
    @tag(42)
    u8 metadata @lengthOf(Packet),
    @calculatedFrom(""a	b"")
    i8 i64_ `line1
        line2`,
    repeat A {
        chars {
            char[1] stringy @calculatedFrom(""1""),
        },
        repeat char[] Z9_,
        repeat u128 `" ++ [28040; 24687; 31867; 22411]%N ++ runes_of_ascii "`,
        chars @lengthOf(asx),
    },
}

packet Foo {
}

MetaData asx {
    char[] Header `doc`,
}")).
Eval vm_compute in ("<<<M3568>>>" ++ check (runes_of_ascii "  options
	{	LittleEndian
=

false 
;	StringPrefixLenType 
=	u16

    ;

    ArrayPrefixLenType  =
u16
; FixedStringPadFromLeft  = 
false	; FixedStringPadChar=' '
	;

}
	packet	Heartbeat
	{
	i32
f1	, } packet
Cancel{char[]Note,  }	packet  Fill { u32 price, float64  Ref
,
zchar[

    8
	]	tag7 ,	repeat  Cancel

,

int64

    Acct , }
packet
    Quote{	@rightPad
    (
	'0')	char[  12] 
count 
,	char[]seqNo , }  root

packet

    Party
{Fill ,

InMsgkind30 {	repeat

    u16
Ref
,	repeat

    InCount61 {repeat
    i8

    sym
	, char[]
	Ref	, 
repeat

char[
4
	]	Qty,

repeat
    Heartbeat
    ,  },u32
venue, uint16

    Flags 
,
} ,u8

    Px

,  repeat
    u16
Side2
    ,@rightPad (
'0'
)char[10 ]  Qty,

    @rightPad (

    '\x00'  ) char[ 
1]clOrdID	, u8  Tail  ,

    match Tail 
as Body
    {

[
159	, 182
] 
:Quote

, 
155
: Heartbeat,

178 :
Fill
	, 49 : Cancel,
}
,	u16

    Ref@calculatedFrom(""CRC32"" ) ,  }
")).
Eval vm_compute in ("<<<M3252>>>" ++ check (runes_of_ascii "// top
root
    // c0
packet
    // c1
msg_type
    // c2
{
    // c3
i64
    // c4
options1
    // c5
,
    // c6
@lengthOf(
    // c7
f32a
    // c8
)
    // c9
repeat
    // c10
uint16
    // c11
Foo
    // c12
,
    // c13
@calculatedFrom(
    // c14
""x y""
    // c15
)
    // c16
repeat
    // c17
int64
    // c18
pack
    // c19
,
    // c20
@leftPad
    // c21
(
    // c22
' '
    // c23
)
    // c24
uint8
    // c25
Foo
    // c26
,
    // c27
}
    // c28
packet
    // c29
rootA
    // c30
{
    // c31
f32a
    // c32
x
    // c33
`" ++ [28040; 24687; 31867; 22411]%N ++ runes_of_ascii "`
    // c34
,
    // c35
char
    // c36
asx
    // c37
@lengthOf(
    // c38
falsey
    // c39
)
    // c40
``
    // c41
,
    // c42
uint16
    // c43
chars
    // c44
,
    // c45
@tag(
    // c46
0
    // c47
)
    // c48
string
    // c49
_x
    // c50
@calculatedFrom(
    // c51
""abc""
    // c52
)
    // c53
`100% of %d`
    // c54
,
    // c55
}
    // c56
")).
Eval vm_compute in ("<<<M3534>>>" ++ check (runes_of_ascii "options { 
LittleEndian

=
    false  ;
StringPrefixLenType 
= u16 ;	ArrayPrefixLenType = u8  ;
    FixedStringPadFromLeft  =
	true	; 
FixedStringPadChar=
	' '
;}
packet Logon

    {} 
packet

    Reject
{ InPx48	{	repeat
	string

    price
    ,
    u32 msgKind

    ,repeat
InSide223
{ Logon
,
	repeat
f64

Ref
    ,
    string

    tag7 ,

}  ,
InClordid8{
    zchar[	5
    ]  Qty
,
u64	x

,
repeat string	lastPx
	, }	, 
} 
,	Logon
,	i16 lastPx , repeat
char[ 5

    ]
clOrdID, zchar[
	2
    ]
Flags ,
    repeat string
Side2
    , } root 
packet

    Order  {uint16 sym ,zchar[8	]	Side2

,repeat string
    clOrdID ,
string  tag7 ,
    zchar[  3

    ]
    OrderId  ,zchar[  4	] seqNo , u32 f1, u32 Acct@lengthOf(Body ) ,  match 
f1

as
    Body { 58
:Reject	,

    180	:Logon
    ,}
	, u32
    Px

    @calculatedFrom( ""CRC32""
    ) , }")).
Eval vm_compute in ("<<<M4107>>>" ++ check (runes_of_ascii "packet
	f32a 
{
@lengthOf( 
  //x
	  i8i8)	matchKey	@lengthOf(Pad
    )
`100% of %d`
,

@tag( 
    //

// " ++ [27880; 37322]%N ++ runes_of_ascii "
	0123456789

    )
    // 50% %s

@calculatedFrom( 
    // @lengthOf(

  //	t

	""abc"")
	repeat
    char[0 ] 
	//	t
    f32a/// triple

,
    @tag( 3

)
@calculatedFrom(

    ""1"" 
	    // " ++ [128512]%N ++ runes_of_ascii " emoji

//	t
  ) @lengthOf(
lengthOf	) zchar[
	1
    ] 
zchar , //x
  @calculatedFrom(
""a	b"") @tag(
65535 
)
char[
	65535 
] matchKey
	,
    //x
//	t
	int  //x
zchar

    `{ , }`,
	repeat metadata  As
	,

@calculatedFrom(""CRC32""  ) _x

,repeat
    Pad

{  uint8

    Header 
`{ , }`  ,
} ,
	@lengthOf(

u128// packet A { u8 x, }
  )
i32 trueish @lengthOf( 
      // c
		// `tick` ""quote"" 'q'
  chars

    ) `// not a comment`,@tag(
	65535  )  repeat u8x

    tag `a\`

, 

    // " ++ [128512]%N ++ runes_of_ascii " emoji
  	// @lengthOf(
  }")).
Eval vm_compute in ("<<<M3981>>>" ++ check (runes_of_ascii "root packet tag {
    repeat string charz `crlf
        line`,
}

MetaData roots {
    // packet A { u8 x, }
    char[4294967296] x_y_z `100% of %d`,
}

MetaData crc {
    // " ++ [27880; 37322]%N ++ runes_of_ascii "
    o A,
    leftPad u,
    Header Z9_,
    string calculatedFrom,
    char[] int,// " ++ [27880; 37322]%N ++ runes_of_ascii "
}// a // b

MetaData uint8x {
    body Packet,
    i32 i8i8,
    uint8 Z9_,
    string chars,
    zchar[00] roots `u8 x,`,
    int32 Foo,
}

root packet zchar {
    //	t
    @calculatedFrom(""packet"")
    match a1 as T {
        ""`tick`"" : repeatCount,
        [
            ""packet"", 4294967296, ""\n"", 3, ""\n"",
            ""CRC32"", ""CRC32"", """ ++ [28040; 24687]%N ++ runes_of_ascii """
        ] : BodyLength,
        [""" ++ [128512]%N ++ runes_of_ascii """] : x_y_z,
        [""" ++ [233]%N ++ runes_of_ascii "t" ++ [233]%N ++ runes_of_ascii """, ""a	b""] : uint8x,
    },
    int16 falsey @calculatedFrom(""x y""),
    match lengthOf as Z9_ {
        00 : Header,
    },
}")).
Eval vm_compute in ("<<<M473>>>" ++ check (runes_of_ascii "packet a1{@lengthOf( uint8x) repeat
zchar[ 1  ] x_y_z , @lengthOf(
x_y_z )@lengthOf(
    // `tick` ""quote"" 'q'
    Packet
    // a // b
    ) i8 stringy ,  a1
    { match
//	t
// `tick` ""quote"" 'q'
Foo as
falsey{ 4294967296// packet A { u8 x, }
: //
repeatCount ,
[
    ""\" ++ [233]%N ++ runes_of_ascii """ , """ ++ [128512]%N ++ runes_of_ascii """ /// triple
] :
asx , 255 :len , [""1"" , 7 ,// trailing space 
7
    ,3 ,
42 ] :msg_type  [1 //	t
,007 ,	""" ++ [128512]%N ++ runes_of_ascii """, ""// no comment"" , ""a\""b""  ] : f32a , """" : float }
, } ,@lengthOf( x ) @calculatedFrom( """ ++ [128512]%N ++ runes_of_ascii """  )Logon
,
@lengthOf(len //x
) match BodyLength
    as
    metadata {00
: u8x 00 : msg_type }
, int
{
uint8 lengthOf ,
uint32
    lengthOf
    // a // b
    @calculatedFrom(
    ""\" ++ [233]%N ++ runes_of_ascii """ ), } , _x`u8 x,`, @calculatedFrom(	""abc"")
    // c
    repeat
    A body ,
uint16
charz , }
")).
Eval vm_compute in ("<<<M314>>>" ++ check (runes_of_ascii "packet MetaDataX {
@lengthOf(
    pack )crc tag `it's` , // trailing space 
match A as
calculatedFrom // `tick` ""quote"" 'q'
{ ""a\\"" :  o ,[ ""packet""  ,""a\\"", """ ++ [128512]%N ++ runes_of_ascii """  , ""\n""
    ]
:
    string_ }
    , i32 MetaDataX @calculatedFrom(  ""a	b"")
    , @calculatedFrom( ""a	b"")@calculatedFrom(
""" ++ [233]%N ++ runes_of_ascii "t" ++ [233]%N ++ runes_of_ascii """)
    zchar[ 65535 ]
x_y_z , u8 zchar	@lengthOf( crc ) , repeatCount
// a // b
//
@calculatedFrom( ""it's"" )
    , zchar[7
] Z9_ @lengthOf( stringy
    ) // packet A { u8 x, }
`// not a comment` ,pack
    { asx
i8i8 ,/// triple
repeat x{ repeat MetaDataX
Logon
, zchar[ 10 ]
    Z9_ @calculatedFrom(
""\n"") `say ""hi""` ,}  , },roots @lengthOf(
u	) // packet A { u8 x, }
`say ""hi""` , @rightPad ( ' ')i8i8 @lengthOf(	Logon
)
, }
")).
Eval vm_compute in ("<<<M586>>>" ++ check (runes_of_ascii "packet body { }packet  falsey { float64 trueish, } options {
calculatedFrom	= ""it's"" asx /// triple
= 3;crc
    // @lengthOf(
    = // @lengthOf(
""x y"" ;}
    root packet len
    { f64 Foo
    ,@tag( 10
    )	repeat
/// triple
// packet A { u8 x, }
Pad // a // b
{ float @calculatedFrom( ""1""
    ) , f32 Z9_@lengthOf(
    //	t
    crc
    )  ,
} , repeat
leftPad`{ , }` , repeat uint8x	, x_y_z `doc`	,
@lengthOf( zchar
    )
// packet A { u8 x, }
// a // b
match
Logon as string_ {
10 : body ,
    }  ,
    // 50% %s
    repeat
    // " ++ [27880; 37322]%N ++ runes_of_ascii "
    int16//x
options1`
` , }root packet
options1
// a // b
//x
{
zchar[42 ]
// `tick` ""quote"" 'q'
// trailing space 
u8x //	t
,
    } // 50% %s")).
Eval vm_compute in ("<<<M3904>>>" ++ check (runes_of_ascii "options {
    u8x = '0';
    stringy = ""x y""
    lengthOf = true;//x
    _x = 007
    // trailing space 
    //
    A = '0';
}

root packet stringy {
    repeat uint16 len `tab	here`,
    @tag(7)
    @calculatedFrom(""" ++ [28040; 24687]%N ++ runes_of_ascii """)
    i16 msg_type `
    `,// a // b
    repeat repeatCount {
        repeat pack msg_type `tab	here`,
        match repeatCount as _x {
            ""`tick`"" : trueish,
            [""\n"", 65535, 255, ""abc"", 0123456789] : options1,
        },
    },
    @rightPad(' ')
    f64 Z9_,
    int32 BodyLength `two words`,
    @calculatedFrom(""a\\"")
    char[255] lengthOf,
    f64 Foo,
    char[1] Z9_,
    repeat roots uint8x,
}

packet Header {
}")).
Eval vm_compute in ("<<<M213>>>" ++ check (runes_of_ascii "  MetaData
    trueish {
matchKey
// @lengthOf(
// @lengthOf(
leftPad
, f64 stringy  , msg_type
packetx , matchKey stringy
`// not a comment` ,i16 x_y_z
`crlf
line`
,
roots
i64_ ,
} MetaData
body
    { int metadata ,Pad charz , } root packet BodyLength
{
repeat	zchar[	3 ] lengthOf	`100% of %d`
    ,
    @leftPad (
    '0' )	@rightPad ( ) @tag( 1 ) As pack	,lengthOf  , @calculatedFrom(
""{,}"" ) @calculatedFrom(
""a	b"" ) @lengthOf( asx)
    //	t
    repeat
    string_ { f32 BodyLength, }, char[
65535 ]Pad
,@lengthOf( A ) int8 i64_ , @tag( 007 ) // trailing space 
repeatCount
    ,
@tag(
7
)
repeat
uint32 int
`" ++ [233]%N ++ runes_of_ascii "`	, }
")).
Eval vm_compute in ("<<<M4040>>>" ++ check (runes_of_ascii "packet u {
    // @lengthOf(
    match Foo as a1 {
        [65535] : chars,
    },
    body @calculatedFrom(""CRC32""),
    // trailing space 
    // `tick` ""quote"" 'q'
    char[0] matchKey @calculatedFrom(""\" ++ [233]%N ++ runes_of_ascii """),
}

// trailing space 
// " ++ [27880; 37322]%N ++ runes_of_ascii "
packet crc {
}

packet Foo {
    @calculatedFrom(""" ++ [28040; 24687]%N ++ runes_of_ascii """)
    @tag(7)
    @calculatedFrom(""\" ++ [233]%N ++ runes_of_ascii """)
    match stringy as pack {
        // `tick` ""quote"" 'q'
        7 : string_,
        3 : calculatedFrom,
        ""`tick`"" : i64_,
        [""" ++ [128512]%N ++ runes_of_ascii """] : tag,
        [""CRC32""] : rootA,
    },
    packetx @lengthOf(calculatedFrom) `a\`,
    i32 Foo,
    i16 calculatedFrom,
}")).
Eval vm_compute in ("<<<M3518>>>" ++ check (runes_of_ascii "// top
root
    // c0
packet // c1a
  // c1b
Frame // c2a
  // c2b
{ // c3a
  // c3b
u8 // c4a
  // c4b
K , // c6
Logon // c7
first
    // c8
, // c9a
  // c9b
match // c10a
  // c10b
K as // c12a
  // c12b
Body // c13
{ // c14a
  // c14b
1 // c15
: // c16
Logon
    // c17
,
    // c18
2
    // c19
:
    // c20
Logout // c21a
  // c21b
, // c22a
  // c22b
} ,
    // c24
} // c25a
  // c25b
packet // c26a
  // c26b
Logon { string user // c30a
  // c30b
, // c31a
  // c31b
} // c32
packet
    // c33
Logout // c34
{ // c35
u16
    // c36
reason ,
    // c38
} // c39
")).
Eval vm_compute in ("<<<M78>>>" ++ check (runes_of_ascii "root packet
u	{repeat float, } MetaData
    rootA { u32
//
//
stringy , int64 matchKey `tab	here`
,matchKey o , char[ 0123456789 ]a1// 50% %s
`tab	here` ,
matchKey leftPad , }	packet
    int
    { @rightPad( ' ' ) zchar[1]Z9_ , // `tick` ""quote"" 'q'
@leftPad  ('0') body packetx ,	@calculatedFrom(
""x y"" )zchar[ 1 ]	A
,
    @rightPad ( '0')
    // " ++ [128512]%N ++ runes_of_ascii " emoji
    repeat leftPad
charz	`" ++ [28040; 24687; 31867; 22411]%N ++ runes_of_ascii "`
, @lengthOf(BodyLength ) @tag(0)@calculatedFrom( ""it's"" ) string	f32a
@lengthOf(
int ) ,u8x , Foo @calculatedFrom( ""x y""
), }  packet asx {	}
packet
    u
{ }")).
Eval vm_compute in ("<<<M3488>>>" ++ check (runes_of_ascii "// top
packet // c0
A
    // c1
{ u8 // c3a
  // c3b
a , // c5
}
    // c6
packet B // c8a
  // c8b
{ // c9a
  // c9b
u16 // c10a
  // c10b
b ,
    // c12
} // c13
root // c14a
  // c14b
packet
    // c15
P
    // c16
{ // c17
u8 // c18a
  // c18b
K1
    // c19
, // c20
u8
    // c21
K2
    // c22
, match // c24a
  // c24b
K1 as // c26a
  // c26b
M1 // c27a
  // c27b
{
    // c28
1 // c29
: A // c31
, } , match
    // c35
K2 as // c37
M2 // c38
{ // c39
1
    // c40
:
    // c41
B ,
    // c43
} // c44a
  // c44b
, }
    // c46
")).
Eval vm_compute in ("<<<M876>>>" ++ check (runes_of_ascii "packet
rootA {
zchar[0
]
    // " ++ [27880; 37322]%N ++ runes_of_ascii "
    chars @lengthOf(
    options1)
`crlf
line`
, repeat  chars{
    repeat zchar[
// a // b
// 50% %s
10] MetaDataX `doc` ,} , @calculatedFrom( ""`tick`"" ) zchar[ 255 ]x_y_z ,  u , @calculatedFrom(
""\n"" ) @lengthOf( chars)
    @calculatedFrom(
""\n""
) zchar[ // c
1]o
    // `tick` ""quote"" 'q'
    `it's` , } options
{
    As
/// triple
/// triple
=
""{,}"";BodyLength =  false ; roots = ""packet"" trueish = ""`tick`"" ; Z9_
// " ++ [128512]%N ++ runes_of_ascii " emoji
// packet A { u8 x, }
=false
    //
    ; }")).
Eval vm_compute in ("<<<M831>>>" ++ check (runes_of_ascii "root
// @lengthOf(
// " ++ [128512]%N ++ runes_of_ascii " emoji
packet float
    {@tag(
    65535 ) //	t
a1 {repeat Logon	i64_
, u8x
    //x
    { // 50% %s
x @lengthOf( Z9_ ) ,},
}
    , msg_type	,
repeat char[]
// c
//
a1
    `a\` , // a // b
match calculatedFrom	as
    MetaDataX
    { [""\" ++ [233]%N ++ runes_of_ascii """ // " ++ [128512]%N ++ runes_of_ascii " emoji
,
""\n"" , ""\" ++ [233]%N ++ runes_of_ascii """,
    10 ,
    // `tick` ""quote"" 'q'
    42 ,
""it's"" ,""a	b"" , 255 // trailing space 
]
:
MetaDataX
, [ 0 ]
    // trailing space 
    : lengthOf ,}, } packet charz	{ @tag(
7 )float64 rootA
, }
")).
Eval vm_compute in ("<<<M364>>>" ++ check (runes_of_ascii "MetaData string_
    {msg_type len ,
u
f32a ,
roots	pack
,
tag trueish `say ""hi""` , }
packet
trueish
{ }	root
packet _x{ char[ 007 ]Pad
, @rightPad ( '0' ) u//
repeatCount ,
@rightPad( '0'
/// triple
// 50% %s
)
u16 metadata `100% of %d` ,
@lengthOf(
    packetx
) @rightPad
    (
' ' ) @lengthOf( int  ) string // " ++ [27880; 37322]%N ++ runes_of_ascii "
repeatCount	`
` ,
    string chars , float32 packetx ,	repeat u8
msg_type
,
    repeat
    tag //	t
Logon `say ""hi""` , } packet x {}
")).
Eval vm_compute in ("<<<M210>>>" ++ check (runes_of_ascii "packet options1 {i64 roots ,	repeat string
As , repeat
    int64 charz ,
    @tag( 255
    // packet A { u8 x, }
    ) int32 calculatedFrom
// `tick` ""quote"" 'q'
//	t
@calculatedFrom( ""// no comment"") ,match i8i8 as
float
    // " ++ [128512]%N ++ runes_of_ascii " emoji
    {	1
    : packetx
,} , } packet charz { @lengthOf(
metadata ) repeat u128  ,T	o
    ,
@rightPad(' ')repeat o
`tab	here`
    ,
i16 As
//	t
/// triple
`two words` , }
    packet x /// triple
{
    }
")).
Eval vm_compute in ("<<<M155>>>" ++ check (runes_of_ascii "
packet falsey  {
int8 // a // b
T ``  ,
matchKey @calculatedFrom(""a\""b"" ) `" ++ [233]%N ++ runes_of_ascii "`	, @tag(
    // c
    1 )
match
lengthOf // 50% %s
as leftPad {[
    """ ++ [28040; 24687]%N ++ runes_of_ascii """ ,
4294967296
    // trailing space 
    ] :x , [ ""\n""
, 007
]	:x ,} , match crc as i64_ { ""1""  : _x ,} , }  packet As
{
match
lengthOf as Z9_ { //
[
""\" ++ [233]%N ++ runes_of_ascii """, ""a	b""
//	t
//x
,007
, 0123456789
    // `tick` ""quote"" 'q'
    ,255, ""{,}""] :
x_y_z  ""`tick`""
    : pack
, }, }")).
Eval vm_compute in ("<<<M4021>>>" ++ check (runes_of_ascii "MetaData o {
    u128 Z9_,
    i8 metadata,
    char len `u8 x,`,
    o f32a,
    float float,
    calculatedFrom i64_,
}

packet packetx {
    //	t
    @calculatedFrom(""a\\"")
    // 50% %s
    match u128 as x {
        [10, ""a\""b""] : tag,
        [255] : packetx,
        // " ++ [128512]%N ++ runes_of_ascii " emoji
        // a // b
        [0123456789] : metadata,
        ""CRC32"" : roots,
        """ ++ [28040; 24687]%N ++ runes_of_ascii """ : o,
        [255] : Packet,
    },
}//x")).
Eval vm_compute in ("<<<M3850>>>" ++ check (runes_of_ascii "MetaData repeatCount {
    string lengthOf,
    leftPad falsey,
    string u,
    // " ++ [128512]%N ++ runes_of_ascii " emoji
    //	t
    zchar[42] msg_type,
    uint8 pack `
    `,
}

packet x {
    repeat char[255] Foo,
}

packet Header {
}// `tick` ""quote"" 'q'

options {
    // packet A { u8 x, }
    options1 = false
    len = zchar[4294967296]
    i8i8 = float32;
}

// @lengthOf(
// `tick` ""quote"" 'q'
MetaData BodyLength {
}")).
Eval vm_compute in ("<<<M3688>>>" ++ check (runes_of_ascii "MetaData len {
    char[42] T `
        `,
    char[4294967296] asx `" ++ [233]%N ++ runes_of_ascii "`,
    float64 Z9_,
    msg_type falsey `line1
        line2`,
    char charz,// a // b
}

MetaData calculatedFrom {
    char[7] a1,
    // trailing space 
    // " ++ [27880; 37322]%N ++ runes_of_ascii "
    float msg_type,
    char[007] u `crlf
        line`,
    string stringy `" ++ [28040; 24687; 31867; 22411]%N ++ runes_of_ascii "`,// @lengthOf(
    zchar[00] chars,
    char[00] string_,
}")).
Eval vm_compute in ("<<<M712>>>" ++ check (runes_of_ascii "packet packetx { char[]  trueish@lengthOf( i8i8 )
, @tag( 1
// c
//
)
    @calculatedFrom(""it's"" )falsey charz `tab	here` ,@tag(
0 )
/// triple
// c
match a1 as leftPad
{[	""a	b"",	""{,}"",
""packet""
    // `tick` ""quote"" 'q'
    ,1, 10 // `tick` ""quote"" 'q'
, 007, 10 , """ ++ [28040; 24687]%N ++ runes_of_ascii """]	:
crc
, [ ""packet"" ,	42 ]
    : i64_ , } ,options1 @calculatedFrom(
""it's"" ) // a // b
,}
")).
Eval vm_compute in ("<<<M4110>>>" ++ check (runes_of_ascii "MetaData matchKey {
    zchar[1] crc `{ , }`,
    float o `line1
        line2`,
    A stringy `" ++ [233]%N ++ runes_of_ascii "`,
    u64 Logon `crlf
        line`,
}

packet roots {
    @lengthOf(u8x)
    T @lengthOf(x) `// not a comment`,
    x @calculatedFrom(""// no comment""),
    @leftPad(' ')
    zchar[0123456789] string_,
}

packet pack {
    @tag(7)
    repeat i64 charz,
}")).
Eval vm_compute in ("<<<M4019>>>" ++ check (runes_of_ascii "MetaData zchar {
    charz tag `say ""hi""`,
    char[10] string_,// 50% %s
    u16 u8x `100% of %d`,
    zchar[1] calculatedFrom `line1
    line2`,
    float32 string_ `" ++ [233]%N ++ runes_of_ascii "`,
}

packet Pad {
    char[007] As,
    As @calculatedFrom(""\" ++ [233]%N ++ runes_of_ascii """) `
    `,
    crc `100% of %d`,
    // c
    @tag(4294967296)
    @calculatedFrom(""" ++ [128512]%N ++ runes_of_ascii """)
    f32 u8x,
}")).
Eval vm_compute in ("<<<M1094>>>" ++ check (runes_of_ascii "options {
    // a // b
    Packet = ""{,}"" u8x = string
    /// triple
    ;  leftPad= '\x00'	; // trailing space 
} packet options1
{ match x as Foo { [ ""a\""b"" ,
    7
] : u128  """ ++ [128512]%N ++ runes_of_ascii """	: Packet ,
}  , repeat pack len  `{ , }` , @tag(
    4294967296 ) @lengthOf( Z9_) @tag(
65535 )
MetaDataX Z9_ , zchar[ 1	] metadata ,}
//	t
")).
Eval vm_compute in ("<<<M4429>>>" ++ check (runes_of_ascii "  MetaData	charz{
float32 u
`say ""hi""` ,
BodyLength
    charz
    `
` ,

char[ 10

] Foo ,	int64

float ,

    i32  charz
,

    char[ // @lengthOf(
007 
	/// triple
// trailing space 
  	]zchar

    `u8 x,`
	,

    }

options

    { 
  // a // b
  BodyLength

=
	true ;
	}
    //
	options {
    }")).
Eval vm_compute in ("<<<M366>>>" ++ check (runes_of_ascii "MetaData stringy
    {	zchar[
7	]x_y_z ,	zchar[ 007	]
    A
,
string As
`
` , }root packet tag {
@leftPad( )
match // " ++ [27880; 37322]%N ++ runes_of_ascii "
_x as _x	{	255 :
// a // b
// " ++ [27880; 37322]%N ++ runes_of_ascii "
chars , 10  :
    roots , 3
: Foo,
[
    ""{,}"",
//x
// @lengthOf(
""packet""
] :u ,
//x
//
00 :
x_y_z
    ,1 :
    i64_ ,}
    // 50% %s
    , }")).
Eval vm_compute in ("<<<M432>>>" ++ check (runes_of_ascii "MetaData BodyLength
    {pack i64_	`a\`
    , body a1 , int64
    Pad, f64 Z9_
,string
falsey `
` ,
charz u ,
    // `tick` ""quote"" 'q'
    }
    options
{ stringy //	t
= i32 ; } root packet x{	} MetaData A
{i32	i8i8 ,asx int, msg_type	int
,
    // " ++ [128512]%N ++ runes_of_ascii " emoji
    string uint8x
    , }

")).
Eval vm_compute in ("<<<M1934>>>" ++ check (runes_of_ascii "packet	packetx { // trailing space 
x_y_z
{
string
charz ,
string x// @lengthOf(
`two words`
    ,  u8x { // `tick` ""quote"" 'q'
charz `100% of %d` // packet A { u8 x, }
,string// " ++ [27880; 37322]%N ++ runes_of_ascii "
,} , }
    // a // b
    packet metadata {  @leftPad ( '0') repeat i32 options1 ,u64 uint8x , }
")).
Eval vm_compute in ("<<<M1902>>>" ++ check (runes_of_ascii "packet	packetx { // trailing space 
x_y_z
{
string
charz ,
string x// @lengthOf(
`two words`
    , ,  u8x { // `tick` ""quote"" 'q'
charz `100% of %d` // packet A { u8 x, }
,}// " ++ [27880; 37322]%N ++ runes_of_ascii "
,} , }
    // a // b
    packet metadata {  @leftPad ( '0') repeat i32 options1 ,u64 uint8x , }
")).
Eval vm_compute in ("<<<M1863>>>" ++ check (runes_of_ascii "packet	packetx { // trailing space 
{
x_y_z
string
charz ,
string x// @lengthOf(
`two words`
    ,  u8x { // `tick` ""quote"" 'q'
charz `100% of %d` // packet A { u8 x, }
,}// " ++ [27880; 37322]%N ++ runes_of_ascii "
,} , }
    // a // b
    packet metadata {  @leftPad ( '0') repeat i32 options1 ,u64 uint8x , }
")).
Eval vm_compute in ("<<<M1998>>>" ++ check (runes_of_ascii "packet	packetx { // trailing space 
x_y_z
{
string
charz ,
string x// @lengthOf(
`two words`
    ,  u8x { // `tick` ""quote"" 'q'
charz `100% of %d` // packet A { u8 x, }
,}// " ++ [27880; 37322]%N ++ runes_of_ascii "
,} , }
    // a // b
    packet metadata {  @leftPad ( '0') repeat options1 i32 ,u64 uint8x , }
")).
Eval vm_compute in ("<<<M1974>>>" ++ check (runes_of_ascii "packet	packetx { // trailing space 
x_y_z
{
string
charz ,
string x// @lengthOf(
`two words`
    ,  u8x { // `tick` ""quote"" 'q'
charz `100% of %d` // packet A { u8 x, }
,}// " ++ [27880; 37322]%N ++ runes_of_ascii "
,} , }
    // a // b
    packet metadata {  '\x00' ( '0') repeat i32 options1 ,u64 uint8x , }
")).
Eval vm_compute in ("<<<M2100>>>" ++ check (runes_of_ascii "packet// packet A { u8 x, }
repeatCount	{// packet A { u8 x, }
@leftPad ( '\x00'
) repeat u8x MetaDataX `crlf
line` `crlf
line`,
    repeat
    char[] MetaDataX
    ,
u64	uint8x@calculatedFrom(""a\""b""
// c
// packet A { u8 x, }
) `tab	here`
,//
}MetaData pack
    {
    }
")).
Eval vm_compute in ("<<<M93>>>" ++ check (runes_of_ascii "options {
    len = //
i32 ;	}
    options  { i64_ =  ' 'Foo =float32 ; chars
= ""a\""b"" ; roots = 00 } packet rootA {
// " ++ [128512]%N ++ runes_of_ascii " emoji
/// triple
uint64 o
    /// triple
    , repeat string Packet ,
@leftPad
( )
    leftPad
    @calculatedFrom( ""CRC32"" )
, /// triple
}

")).
Eval vm_compute in ("<<<M1429>>>" ++ check (runes_of_ascii "packet calculatedFrom
{ @calculatedFrom( @calculatedFrom( ""a\\"" ) zchar[ 4294967296 ]
calculatedFrom@lengthOf( pack )	`100% of %d` ,char[]body@calculatedFrom( ""// no comment"" )  ,
@tag( 007) //x
int8
leftPad`it's` , repeat pack
    { repeat char[ 3] body
,},
}")).
Eval vm_compute in ("<<<M2180>>>" ++ check (runes_of_ascii "packet// packet A { u8 x, }
repeatCount	{// packet A { u8 x, }
@leftPad ( '\x00'
) repeat u8x MetaDataX `crlf
line`,
    repeat
    char[] MetaDataX
    ,
u64	uint8x@calculatedFrom(""a\""b""
// c
// packet A { u8 x, }
) `tab	here`
,//
}MetaData pack
    { {
    }
")).
Eval vm_compute in ("<<<M2072>>>" ++ check (runes_of_ascii "packet// packet A { u8 x, }
repeatCount	{// packet A { u8 x, }
@leftPad } '\x00'
) repeat u8x MetaDataX `crlf
line`,
    repeat
    char[] MetaDataX
    ,
u64	uint8x@calculatedFrom(""a\""b""
// c
// packet A { u8 x, }
) `tab	here`
,//
}MetaData pack
    {
    }
")).
Eval vm_compute in ("<<<M2079>>>" ++ check (runes_of_ascii "packet// packet A { u8 x, }
repeatCount	{// packet A { u8 x, }
@leftPad ( '\x00'
 repeat u8x MetaDataX `crlf
line`,
    repeat
    char[] MetaDataX
    ,
u64	uint8x@calculatedFrom(""a\""b""
// c
// packet A { u8 x, }
) `tab	here`
,//
}MetaData pack
    {
    }
")).
Eval vm_compute in ("<<<M2147>>>" ++ check (runes_of_ascii "packet// packet A { u8 x, }
repeatCount	{// packet A { u8 x, }
@leftPad ( '\x00'
) repeat u8x MetaDataX `crlf
line`,
    repeat
    char[] MetaDataX
    ,
u64	uint8x@calculatedFrom([
// c
// packet A { u8 x, }
) `tab	here`
,//
}MetaData pack
    {
    }
")).
Eval vm_compute in ("<<<M1534>>>" ++ check (runes_of_ascii "packet calculatedFrom
{ @calculatedFrom( ""a\\"" ) zchar[ 4294967296 ]
calculatedFrom@lengthOf( pack )	`100% of %d` ,char[]body@calculatedFrom( ""// no comment"" )  ,
@tag( 007) //x
int8 int8
leftPad`it's` , repeat pack
    { repeat char[ 3] body
,},
}")).
Eval vm_compute in ("<<<M1454>>>" ++ check (runes_of_ascii "packet calculatedFrom
{ @calculatedFrom( ""a\\"" ) zchar[ 4294967296 ] ]
calculatedFrom@lengthOf( pack )	`100% of %d` ,char[]body@calculatedFrom( ""// no comment"" )  ,
@tag( 007) //x
int8
leftPad`it's` , repeat pack
    { repeat char[ 3] body
,},
}")).
Eval vm_compute in ("<<<M1585>>>" ++ check (runes_of_ascii "packet calculatedFrom
{ @calculatedFrom( ""a\\"" ) zchar[ 4294967296 ]
calculatedFrom@lengthOf( pack )	`100% of %d` ,char[]body@calculatedFrom( ""// no comment"" )  ,
@tag( 007) //x
int8
leftPad`it's` , repeat pack
    { repeat char[ 3 body ]
,},
}")).
Eval vm_compute in ("<<<M1485>>>" ++ check (runes_of_ascii "packet calculatedFrom
{ @calculatedFrom( ""a\\"" ) zchar[ 4294967296 ]
calculatedFrom@lengthOf( pack )	`100% of %d` char[],body@calculatedFrom( ""// no comment"" )  ,
@tag( 007) //x
int8
leftPad`it's` , repeat pack
    { repeat char[ 3] body
,},
}")).
Eval vm_compute in ("<<<M1473>>>" ++ check (runes_of_ascii "packet calculatedFrom
{ @calculatedFrom( ""a\\"" ) zchar[ 4294967296 ]
calculatedFrom@lengthOf( pack 	`100% of %d` ,char[]body@calculatedFrom( ""// no comment"" )  ,
@tag( 007) //x
int8
leftPad`it's` , repeat pack
    { repeat char[ 3] body
,},
}")).
Eval vm_compute in ("<<<M1558>>>" ++ check (runes_of_ascii "packet calculatedFrom
{ @calculatedFrom( ""a\\"" ) zchar[ 4294967296 ]
calculatedFrom@lengthOf( pack )	`100% of %d` ,char[]body@calculatedFrom( ""// no comment"" )  ,
@tag( 007) //x
int8
leftPad`it's` , repeat 
    { repeat char[ 3] body
,},
}")).
Eval vm_compute in ("<<<M1990>>>" ++ check (runes_of_ascii "packet	packetx { // trailing space 
x_y_z
{
string
charz ,
string x// @lengthOf(
`two words`
    ,  u8x { // `tick` ""quote"" 'q'
charz `100% of %d` // packet A { u8 x, }
,}// " ++ [27880; 37322]%N ++ runes_of_ascii "
,} , }
    // a // b
    packet metadata {  @leftPad ( '0'")).
Eval vm_compute in ("<<<M1582>>>" ++ check (runes_of_ascii "packet calculatedFrom
{ @calculatedFrom( ""a\\"" ) zchar[ 4294967296 ]
calculatedFrom@lengthOf( pack )	`100% of %d` ,char[]body@calculatedFrom( ""// no comment"" )  ,
@tag( 007) //x
int8
leftPad`it's` , repeat pack
    { repeat char[")).
Eval vm_compute in ("<<<M194>>>" ++ check (runes_of_ascii "//x
options{ falsey// " ++ [27880; 37322]%N ++ runes_of_ascii "
=
    00
pack= // @lengthOf(
'0'
    x_y_z =""\" ++ [233]%N ++ runes_of_ascii """	; }
    // " ++ [128512]%N ++ runes_of_ascii " emoji
    options
{ } root
// " ++ [27880; 37322]%N ++ runes_of_ascii "
// " ++ [27880; 37322]%N ++ runes_of_ascii "
packet _x // @lengthOf(
{ zchar[1 ]
    len@calculatedFrom( // a // b
""CRC32"" )`" ++ [28040; 24687; 31867; 22411]%N ++ runes_of_ascii "`, }")).
Eval vm_compute in ("<<<M1352>>>" ++ check (runes_of_ascii "options
{ pack =
0123456789}
    MetaData
    // `tick` ""quote"" 'q'
    metadata { u16 float , } packet As{ char[ 0123456789 ]repeatCount  , u32 _x
`100% of %d` ,// a // b
@tag( 3
)
    repeat i64 len `a\`,}
")).
Eval vm_compute in ("<<<M1196>>>" ++ check (runes_of_ascii "packet
Header{
}root
packet leftPad{ @tag( 255 ) // a // b
asx @calculatedFrom(""{,}"" ) // packet A { u8 x, }
,f32 zchar
, } packet roots {
i32 x_y_z , @tag(4294967296)i8 //
uint8x ,
//
// c
} //")).
Eval vm_compute in ("<<<M1547>>>" ++ check (runes_of_ascii "packet calculatedFrom
{ @calculatedFrom( ""a\\"" ) zchar[ 4294967296 ]
calculatedFrom@lengthOf( pack )	`100% of %d` ,char[]body@calculatedFrom( ""// no comment"" )  ,
@tag( 007) //x
int8
leftPad")).
Eval vm_compute in ("<<<M431>>>" ++ check (runes_of_ascii "root packet o { @tag( 7 )	repeat
char[ 0 ]
falsey ,  } options	{ MetaDataX = char[
4294967296 ] u
// @lengthOf(
/// triple
= '\x00' a1 = ""CRC32"" ; packetx
=
    /// triple
    ""a\\""
}
")).
Eval vm_compute in ("<<<M1290>>>" ++ check (runes_of_ascii "MetaData
asx  {
uint16 leftPad
    ,  char[ 4294967296 ] matchKey `tab	here` ,	u32 options1
// @lengthOf(
/// triple
, zchar[ 0 ] // @lengthOf(
falsey `` ,
char[
10 ] u
    , }")).
Eval vm_compute in ("<<<M4488>>>" ++ check (runes_of_ascii "packet A {
    match k as n {
        [
            ""a"", ""bb"", ""c c"", ""d"", ""e"",
            ""f"", ""g"", ""h"", ""i"", ""j"",
            ""k""
        ] : B,
        2 : C,
    },
}")).
Eval vm_compute in ("<<<M4102>>>" ++ check (runes_of_ascii "

  options
{len = true
string_= 
""a\\"" 
repeatCount
	=  //	t
  ""{,}""
;	uint8x
	    //	t
	//
  =
char[ 3 // " ++ [27880; 37322]%N ++ runes_of_ascii "
	]
} options
{ 
  // 50% %s
	// a // b
    }

")).
Eval vm_compute in ("<<<M1663>>>" ++ check (runes_of_ascii "options { } packet Packet{char[] char[] i64_ ,
@tag(
    255) match
crc as i8i8{""{,}"" : trueish """" : Pad , ""a\\"" :
Foo ,
    1 :packetx
, """ ++ [128512]%N ++ runes_of_ascii """ : trueish , } , }")).
Eval vm_compute in ("<<<M2138>>>" ++ check (runes_of_ascii "packet// packet A { u8 x, }
repeatCount	{// packet A { u8 x, }
@leftPad ( '\x00'
) repeat u8x MetaDataX `crlf
line`,
    repeat
    char[] MetaDataX
    ,
u64")).
Eval vm_compute in ("<<<M2394>>>" ++ check (runes_of_ascii "
packet MetaDataX
{
    @leftPad
( // a // b
'0'
) i8 u @lengthOf(
MetaDataX
    ) `say ""hi""` ,	} MetaData BodyLength {
    asx
x_y_z `" ++ [233]%N ++ runes_of_ascii "`
, uint64 u128 , }
%")).
Eval vm_compute in ("<<<M3907>>>" ++ check (runes_of_ascii "
options
{
    Packet

    =
	65535 BodyLength
=  
      // `tick` ""quote"" 'q'
	  int64}
options
    {
calculatedFrom

= 
'0'
	; Packet = ""packet""	}
")).
Eval vm_compute in ("<<<M2352>>>" ++ check (runes_of_ascii "
packet MetaDataX
{
    @leftPad
( // a // b
'0'
) i8 u @lengthOf(
MetaDataX
    ) `say ""hi""` 	} MetaData BodyLength {
    asx
x_y_z `" ++ [233]%N ++ runes_of_ascii "`
, uint64 u128 , }
")).
Eval vm_compute in ("<<<M2441>>>" ++ check (runes_of_ascii "
packet MetaDataX
{
    @leftPad
( // a // b
'0'
) i8 u @lengthOf(
options
    ) `say ""hi""` ,	} MetaData BodyLength {
    asx
x_y_z `" ++ [233]%N ++ runes_of_ascii "`
, uint64 u128 , }
")).
Eval vm_compute in ("<<<M1760>>>" ++ check (runes_of_ascii "options { } packet Packet{char[] i64_ ,
@tag(
    255) match
crc as i8i8{""{,}"" : trueish """" : Pad , ""a\\"" ,
Foo ,
    1 :packetx
, """ ++ [128512]%N ++ runes_of_ascii """ : trueish , } , }")).
Eval vm_compute in ("<<<M1757>>>" ++ check (runes_of_ascii "options { } packet Packet{char[] i64_ ,
@tag(
    255) match
crc as i8i8{""{,}"" : trueish """" : Pad , ""a\\"" 
Foo ,
    1 :packetx
, """ ++ [128512]%N ++ runes_of_ascii """ : trueish , } , }")).
Eval vm_compute in ("<<<M3399>>>" ++ check (runes_of_ascii "// top
packet // c0a
  // c0b
o // c1a
  // c1b
{
    // c2
@tag( 4294967296 ) options1
    // c6
@lengthOf( // c7
u8x
    // c8
) // c9
`" ++ [233]%N ++ runes_of_ascii "` , // c11
} ")).
Eval vm_compute in ("<<<M971>>>" ++ check (runes_of_ascii "packet crc
{ @lengthOf( u128) @tag(1	) @calculatedFrom(
// packet A { u8 x, }
//	t
""a\\"" )
// 50% %s
// " ++ [128512]%N ++ runes_of_ascii " emoji
char[]x `say ""hi""` ,	} packet int { }")).
Eval vm_compute in ("<<<M3773>>>" ++ check (runes_of_ascii "packet A {
    Inner {
        u8 x `tab
                	x`,
        Deep {
            u8 y `tab
                        	x`,
        },
    },
}")).
Eval vm_compute in ("<<<M1073>>>" ++ check (runes_of_ascii "root packet u128{ @rightPad (' '	)As @calculatedFrom(
    """" // " ++ [27880; 37322]%N ++ runes_of_ascii "
)
    // trailing space 
    `{ , }` ,
} packet As {
asx  `{ , }`
    , }")).
Eval vm_compute in ("<<<M3951>>>" ++ check (runes_of_ascii "packet A {
    Inner {
        u8 x `
                `,
        Deep {
            u8 y `
                        `,
        },
    },
}")).
Eval vm_compute in ("<<<M4276>>>" ++ check (runes_of_ascii "  MetaData
float
	{
uint8
BodyLength, 
} MetaData
    charz{ float32

    trueish
	`a\` ,

i16 metadata
    `say ""hi""`, } 	 // c
")).
Eval vm_compute in ("<<<M4336>>>" ++ check (runes_of_ascii "
// " ++ [27880; 37322]%N ++ runes_of_ascii "
      options  { }
	packet
	Foo/// triple

{
    match charz	as

    body
{4294967296
:

int
, 
}  , 	 // 50% %s
		} ")).
Eval vm_compute in ("<<<M3264>>>" ++ check (runes_of_ascii "MetaData metadata // c
{ } MetaData rootA { i8 i64_ , roots options1 `a\` , lengthOf Header , Z9_ Foo , int16 BodyLength , }")).
Eval vm_compute in ("<<<M3296>>>" ++ check (runes_of_ascii "MetaData metadata { } MetaData rootA { i8 i64_ , roots options1 `a\` , lengthOf Header , Z9_ // c
Foo , int16 BodyLength , }")).
Eval vm_compute in ("<<<M3829>>>" ++ check (runes_of_ascii "packet A {
    u16 len @lengthOf(body) `
        `,
    u32 crc @calculatedFrom(""CRC32"") `
        `,
    string body,
}")).
Eval vm_compute in ("<<<M1340>>>" ++ check (runes_of_ascii "root packet stringy
    { repeat //	t
falsey
uint8x , Pad@lengthOf(stringy ) , Pad @calculatedFrom(""{,}"")
`" ++ [233]%N ++ runes_of_ascii "`,	}
")).
Eval vm_compute in ("<<<M3021>>>" ++ check (runes_of_ascii "packet A {
  match k as n {
    [""a"", ""bb"", 007, ""d"", ""e"", 66, ""g"", ""h"", 9, ""j"", ""k"", 12] : B,
    2 : C
  },
}")).
Eval vm_compute in ("<<<M3335>>>" ++ check (runes_of_ascii "MetaData float { uint8 BodyLength , } MetaData charz
// c
{ float32 trueish `a\` , i16 metadata `say ""hi""` , }")).
Eval vm_compute in ("<<<M151>>>" ++ check (runes_of_ascii "  options {	A= true; pack=007 ; } options{
BodyLength /// triple
=true
;  A = 1 ; repeatCount =
char[00] }")).
Eval vm_compute in ("<<<M3016>>>" ++ check (runes_of_ascii "packet A {
  match k as n {
    [1, ""bb"", 007, ""d"", 5, ""f"", 7, ""h"", 9, ""j"", 11, ""l""] : B
    2 : C
  },
}")).
Eval vm_compute in ("<<<M3809>>>" ++ check (runes_of_ascii "

  packet
    A

{ match  k

as n
    {[
    1 
,
""bb""

,007
    , ""d"",

5,
""f"" ]  : 
B 2 :
C

} ,
}")).
Eval vm_compute in ("<<<M3057>>>" ++ check (runes_of_ascii "packet A {
    Inner {
        u8 x `x
`,
        Deep {
            u8 y `x
`,
        },
    },
}")).
Eval vm_compute in ("<<<M1401>>>" ++ check (runes_of_ascii "
packet
Foo {
    uint16 A	@calculatedFrom(  ""a\\""
    )// packet A { u8 x, }
`u8 x,` , }
//	t
")).
Eval vm_compute in ("<<<M2979>>>" ++ check (runes_of_ascii "packet A {
  match k as n {
    [""a"", 22, ""c c"", 4, ""e"", 66, ""g"", 8, ""i""] : B
    2 : C
  },
}")).
Eval vm_compute in ("<<<M775>>>" ++ check (runes_of_ascii "// `tick` ""quote"" 'q'
packet BodyLength
    // " ++ [27880; 37322]%N ++ runes_of_ascii "
    {repeat i32 u  `` ,
// " ++ [27880; 37322]%N ++ runes_of_ascii "
// a // b
}")).
Eval vm_compute in ("<<<M732>>>" ++ check (runes_of_ascii "options  { Packet	= zchar[
00
    //
    ]
As ='\x00' ; leftPad
= false ;rootA=float32 }")).
Eval vm_compute in ("<<<M2232>>>" ++ check (runes_of_ascii "MetaData _x {string , `// not a comment` , string
i64_ // trailing space 
`a\` ,
    }
")).
Eval vm_compute in ("<<<M681>>>" ++ check (runes_of_ascii "options {  } packet	crc { float32 BodyLength
@calculatedFrom( ""\n"" )	,//x
} // 50% %s")).
Eval vm_compute in ("<<<M2254>>>" ++ check (runes_of_ascii "MetaData _x {string x `// not a comment` , string
i64_ // trailing space 
 ,
    }
")).
Eval vm_compute in ("<<<M4097>>>" ++ check (runes_of_ascii "root packet trueish {
    @tag(255)
    // 50% %s
    repeat f32a leftPad `doc`,
}")).
Eval vm_compute in ("<<<M3467>>>" ++ check (runes_of_ascii "options {
    FixedStringPadFromLeft = true;
}
root packet P {
    char[4] z,
}
")).
Eval vm_compute in ("<<<M4370>>>" ++ check (runes_of_ascii "packet A {
    match k as n {
        [""a"", ""bb""] : B,
        2 : C,
    },
}")).
Eval vm_compute in ("<<<M3368>>>" ++ check (runes_of_ascii "MetaData _x { // c
f64 charz `tab	here` , } options { BodyLength = """ ++ [233]%N ++ runes_of_ascii "t" ++ [233]%N ++ runes_of_ascii """ ; }")).
Eval vm_compute in ("<<<M2269>>>" ++ check (runes_of_ascii "MetaData _x {string x `// not a comment` , string
i64_ // trailing space 
")).
Eval vm_compute in ("<<<M3227>>>" ++ check (runes_of_ascii "packet A {
    match k as n {
        1 : B // c
        , // d
    },
}")).
Eval vm_compute in ("<<<M1711>>>" ++ check (runes_of_ascii "options { } packet Packet{char[] i64_ ,
@tag(
    255) match
crc as")).
Eval vm_compute in ("<<<M3414>>>" ++ check (runes_of_ascii "packet o { @tag( 4294967296 ) options1 // c
@lengthOf( u8x ) `" ++ [233]%N ++ runes_of_ascii "` , }")).
Eval vm_compute in ("<<<M909>>>" ++ check (runes_of_ascii "options
{	MetaDataX= 0123456789 ;pack
    = ""{,}"" ;string_= i16 }")).
Eval vm_compute in ("<<<M2754>>>" ++ check (runes_of_ascii "; char[] repeat int8 false 4294967296 int32 ' ' repeat options ;")).
Eval vm_compute in ("<<<M1144>>>" ++ check (runes_of_ascii "//	t
options {msg_type =
// 50% %s
//
' ' ;
    }
// " ++ [128512]%N ++ runes_of_ascii " emoji
")).
Eval vm_compute in ("<<<M2919>>>" ++ check (runes_of_ascii "packet A { Inner { match k as n { [1,22,007,4] : B, }, }, }")).
Eval vm_compute in ("<<<M626>>>" ++ check (runes_of_ascii "packet
    charz { u8
//	t
//	t
_x
    `
` , // 50% %s
}")).
Eval vm_compute in ("<<<M2309>>>" ++ check (runes_of_ascii "
MetaData Pad{
u32 rootA rootA `line1
line2` ,
    }
")).
Eval vm_compute in ("<<<M3867>>>" ++ check (runes_of_ascii "packet A {
    u8 x `a
            b
          c`,
}")).
Eval vm_compute in ("<<<M4180>>>" ++ check (runes_of_ascii "

  packet A
    {
	@tag( // a
  1)	u8
x
,
    } ")).
Eval vm_compute in ("<<<M2295>>>" ++ check (runes_of_ascii "
MetaData {Pad
u32 rootA `line1
line2` ,
    }
")).
Eval vm_compute in ("<<<M4122>>>" ++ check (runes_of_ascii "options {
    a = 1;
}

options {
    a = 1;
}")).
Eval vm_compute in ("<<<M3934>>>" ++ check (runes_of_ascii "packet A {
    u8 x `a
        b
      c`,
}")).
Eval vm_compute in ("<<<M656>>>" ++ check (runes_of_ascii "  packet
    f32a
{ stringy`tab	here` , }")).
Eval vm_compute in ("<<<M3236>>>" ++ check (runes_of_ascii "MetaData zchar
// c
{ zchar[ 3 ] Pad , }")).
Eval vm_compute in ("<<<M2841>>>" ++ check (runes_of_ascii " %i:?mzDnjJos&s2{dih&|boM|e;6s?r4/y(^W")).
Eval vm_compute in ("<<<M2721>>>" ++ check (runes_of_ascii "Tqw6\RO}Mcbo,K| +RxyiqgL_H""U%uU~9}k~")).
Eval vm_compute in ("<<<M2855>>>" ++ check (runes_of_ascii "repeat uint8 ; string int16 `" ++ [233]%N ++ runes_of_ascii "` i64")).
Eval vm_compute in ("<<<M1209>>>" ++ check (runes_of_ascii "/// triple
 // `tick` ""quote"" 'q'")).
Eval vm_compute in ("<<<M3632>>>" ++ check (runes_of_ascii "packet A {
    u8 x `d" ++ [133]%N ++ runes_of_ascii "`,// c" ++ [133]%N ++ runes_of_ascii "
}")).
Eval vm_compute in ("<<<M3181>>>" ++ check (runes_of_ascii "packet A {
 u8 x `d" ++ [65279]%N ++ runes_of_ascii "`, // c" ++ [65279]%N ++ runes_of_ascii "
}")).
Eval vm_compute in ("<<<M4417>>>" ++ check (runes_of_ascii "root packet x {
}
/// triple")).
Eval vm_compute in ("<<<M2613>>>" ++ check (runes_of_ascii "packet A { u8 x @tag(1), }")).
Eval vm_compute in ("<<<M3893>>>" ++ check (runes_of_ascii "
packet	A	{ 
}  // c" ++ [12]%N ++ runes_of_ascii "
 
")).
Eval vm_compute in ("<<<M3762>>>" ++ check (runes_of_ascii "

  packet
	lengthOf {}")).
Eval vm_compute in ("<<<M374>>>" ++ check (runes_of_ascii "
root packet
u {} 	 ")).
Eval vm_compute in ("<<<M2659>>>" ++ check (runes_of_ascii "root MetaData M { }")).
Eval vm_compute in ("<<<M3134>>>" ++ check (runes_of_ascii "packet A {
}
// c" ++ [8202]%N)).
Eval vm_compute in ("<<<M450>>>" ++ check (runes_of_ascii "MetaData f32a { }")).
Eval vm_compute in ("<<<M4533>>>" ++ check (runes_of_ascii "packet falsey {
}")).
Eval vm_compute in ("<<<M3821>>>" ++ check (runes_of_ascii "packet pack {
}")).
Eval vm_compute in ("<<<M706>>>" ++ check (runes_of_ascii "
// " ++ [128512]%N ++ runes_of_ascii " emoji
")).
Eval vm_compute in ("<<<M2655>>>" ++ check (runes_of_ascii "packet A {")).
Eval vm_compute in ("<<<M2873>>>" ++ check (runes_of_ascii "-k#c~kZ ")).
Eval vm_compute in ("<<<M2453>>>" ++ check (runes_of_ascii "zchar[")).
Eval vm_compute in ("<<<M2531>>>" ++ check (runes_of_ascii """a
b""")).
Eval vm_compute in ("<<<M2498>>>" ++ check (runes_of_ascii "'  '")).
Eval vm_compute in ("<<<M2518>>>" ++ check (runes_of_ascii "/ /")).
Eval vm_compute in ("<<<M2517>>>" ++ check (runes_of_ascii "//")).
Eval vm_compute in ("<<<M2697>>>" ++ check (runes_of_ascii "1")).
