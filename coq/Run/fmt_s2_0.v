From FP Require Import Lexer Parser ShowPT Digest Formatter.
From Coq Require Import String List NArith.
Import ListNotations.
Open Scope string_scope.
Set Printing Width 100000000.
Set Printing Depth 100000000.
Definition show_fres (r : fres) : string :=
  match r with
  | FOk s => "OK:" ++ sh_escaped s ""
  | FErr s => "ERR:" ++ sh_escaped s ""
  | FPanic p => "PANIC:" ++ p
  end.
Definition check (rs : list rune) : string := digest (show_fres (format_res rs)).
Definition full (rs : list rune) : string := show_fres (format_res rs).
Eval vm_compute in ("<<<M1613>>>" ++ check (runes_of_ascii "// top
  options 	 // c0
  	{ 	 // c1
StringPrefixLenType
= 
  // c3
  	u8 // c4
	  ;	// c5a
		// c5b

ArrayPrefixLenType// c6a
// c6b
	=// c7a
	// c7b

  u32
	; 
    // c9
  FixedStringPadFromLeft =  
      // c11
      false // c12a

// c12b

;	// c13
FixedStringPadChar = // c15

' '  // c16a
	// c16b
    ;

    } 
    // c18
packet	Party  // c20a
    	// c20b

	{repeat 
  // c22
i16 	 // c23a
// c23b
	  Qty 

    // c24
, 
    // c25
  	repeat // c26
    string

Tail 	 // c28a
      // c28b

  , 
    // c29
	i8  OrderId, // c32
  i8	msgKind// c34
    , 

    // c35
    	} packet// c37a

  // c37b
	  Ack
	{  Party	// c40
, repeat
        // c42

	InRef20 	 // c43a
	  // c43b
    {
Party 
        // c45
		, // c46a
      // c46b
	int8// c47a
    // c47b
	tag7 	 // c48
    ,

char[
	    // c50
  	5
] 
    // c52
    	OrderId// c53a
	// c53b
	  ,	// c54
		zchar[  // c55

	7  // c56a
	// c56b
      ] 
      // c57
	Tail 	 // c58

, 	 // c59a

  // c59b
    char[]
    // c60
    count 	 // c61a

// c61b
, 
	    // c62

  InPrice45 	 // c63
{ 
    // c64
Party
,
	// c66
  	char[	// c67
  1	// c68
    ] // c69
	Px  // c70
		,
	} , 
	    // c73
    } ,// c75
  char[ 
	    // c76
  12  ]
    price // c79a
// c79b
  	, 	 // c80a
// c80b
	int8	sym  // c82a

// c82b

,  
      // c83
} 
packet 
// c85
  Reject {	// c87a

  // c87b
  	repeat	// c88
  InPrice47 // c89
	{
	Party// c91a
	// c91b
    , 

// c92
}  // c93a
  // c93b
    , zchar[// c95a
  // c95b
4 

// c96
    ]  
      // c97
x 
	// c98
	,
repeat
	Ack ,
zchar[ 2	// c104
	] 
  // c105
	  Ref
,

    repeat  // c108a
    	// c108b

Party
// c109
	,// c110
  }// c111
packet
        // c112
    Cancel // c113a
  // c113b
  {  // c114a
		// c114b
	  Reject	// c115

	,  // c116
	repeat 
// c117
  string

f1 	 // c119a
  // c119b
    , // c120
	uint16 	 // c121a

  // c121b
    OrderId 
    // c122
	,	// c123
  u8

    Acct	// c125a
  // c125b
    , 
int8 // c127a

// c127b
  msgKind

    , // c129a
    // c129b
  }
root packet 	 // c132a

// c132b
      Fill	{u8 	 // c135a
    	// c135b
  count

    , 
	    // c137
char[]
	tag7// c139
    , 

    // c140
      zchar[ // c141a
		// c141b
  7// c142a
// c142b
    ]  // c143a
// c143b
Acct

// c144
    ,  // c145
		u32 // c146

OrderId
	    // c147
  	,  // c148
  	u32 
        // c149
	Note// c150
    @lengthOf(  // c151a
    // c151b
  Body

// c152

  )	// c153a
      // c153b
  , 	 // c154

match  // c155a
// c155b
    OrderId
	// c156
    as
    // c157
Body 	 // c158a

  // c158b

  { // c159a
    // c159b
    106 
	// c160
		: 	 // c161a
  // c161b
  Cancel  // c162

, 	 // c163
  196: 	 // c165
	Reject  // c166
	, 
    // c167
    74	// c168a
  // c168b
  : 
	    // c169
  Party , 

// c171
  75 	 // c172
  	: Ack, // c175a
		// c175b

}
	,  // c177a
  // c177b
} 	 // c178a
  // c178b
")).
Eval vm_compute in ("<<<M1895>>>" ++ check (runes_of_ascii "// top
options {
    LittleEndian = false;// c5a
    // c5b
    StringPrefixLenType = u16;// c9
    ArrayPrefixLenType = u64;
    // c13
    FixedStringPadFromLeft = true;// c17a
    // c17b
    FixedStringPadChar = ' ';// c21
}// c22a

// c22b
packet Logon {
    // c25
    u16 Tail,
    // c28
    repeat string x,// c32
    i16 count,
    @leftPad('0')
    // c39a
    // c39b
    char[3] Note,
}

packet Fill {
    // c48a
    // c48b
}

// c49
packet Heartbeat {
    // c52a
    // c52b
}

// c53
packet Reject {
    string msgKind,// c59a
    // c59b
    repeat Logon,// c62a
    // c62b
    InFlags25 {
        // c64
        repeat InPrice29 {
            // c67
            u8 price,// c70
            Logon,// c72a
            // c72b
            repeat char[1] Note,// c78a
            // c78b
        },
        // c80
        char[] x,
        // c83
        Fill,
        // c85
    },
    // c87
    repeat Heartbeat,
    // c90
}// c91

root packet Order {
    InNote88 {
        // c97
        repeat i32 Acct,// c101
        repeat i16 clOrdID,// c105a
        // c105b
        repeat Logon,// c108
    },// c110a
    // c110b
    u16 tag7,// c113a
    // c113b
    match tag7 as Body {
        // c118a
        // c118b
        [14, 22] : Logon,
        // c126
        55 : Heartbeat,
        // c130
        93 : Reject,
        // c134
        13 : Fill,
    },
}
// c141")).
Eval vm_compute in ("<<<M371>>>" ++ check (runes_of_ascii "MetaData i8i8
    // trailing space 
    { Pad rootA
`tab	here` //
, x_y_z
metadata
,zchar[ 255] x_y_z `doc` , metadata i8i8 , uint8x
    leftPad
    `say ""hi""` , int32
charz
    `" ++ [28040; 24687; 31867; 22411]%N ++ runes_of_ascii "` , } packet
len {  char[
    255 ]
f32a//x
@calculatedFrom(
""a	b"") `// not a comment` ,f64 u8x
//
// `tick` ""quote"" 'q'
,
options1
{string charz `u8 x,` ,string_ // packet A { u8 x, }
@calculatedFrom( // " ++ [27880; 37322]%N ++ runes_of_ascii "
""a	b""
) , repeat falsey {a1 `it's`  , stringy
@lengthOf( Foo
    )
,	repeat  zchar[ 10  ]Logon
`line1
line2` ,  uint16 repeatCount @lengthOf( options1 )
    `doc`
,	} , repeat //x
u packetx, } , falsey
x_y_z, char[]matchKey
`u8 x,`
, } packet float
{ @lengthOf( Foo ) u16 a1 `crlf
line` // `tick` ""quote"" 'q'
,
    // `tick` ""quote"" 'q'
    @leftPad( )
@lengthOf( string_// `tick` ""quote"" 'q'
)
    match
asx as lengthOf{ """"
: f32a , }
,roots {
f32 A `a\` , i8 trueish @lengthOf(rootA )
    ,}
    ,
options1
    @lengthOf(_x
    )
    , /// triple
@lengthOf( asx// `tick` ""quote"" 'q'
)
    charz
    // " ++ [27880; 37322]%N ++ runes_of_ascii "
    ,
    zchar[ 10 ] a1
    @calculatedFrom(
    ""// no comment"")
`say ""hi""`
, //x
uint16 x @calculatedFrom( ""a\\"" )	,}")).
Eval vm_compute in ("<<<M354>>>" ++ check (runes_of_ascii "// a // b
packet chars {
    i64_ tag `say ""hi""` , }
// " ++ [128512]%N ++ runes_of_ascii " emoji
// `tick` ""quote"" 'q'
packet tag {
}// c
packet roots
    { repeat //x
x_y_z `
`	, } packet lengthOf { // c
i64 int`{ , }` , @lengthOf( trueish
    ) @lengthOf( stringy // packet A { u8 x, }
) // @lengthOf(
repeat
x repeatCount`u8 x,`,
    char[]
rootA ,uint16 int @calculatedFrom( // " ++ [128512]%N ++ runes_of_ascii " emoji
""\" ++ [233]%N ++ runes_of_ascii """ ) `say ""hi""`/// triple
,@lengthOf(
string_
    // a // b
    )char[]
    int @calculatedFrom(
""a\\"" )  , @tag( 0 )@calculatedFrom(""\n""  )// " ++ [128512]%N ++ runes_of_ascii " emoji
i32
string_  @lengthOf(
    falsey ) `say ""hi""` ,@tag(3
) @lengthOf( BodyLength
) repeat Z9_ {match// " ++ [27880; 37322]%N ++ runes_of_ascii "
T // @lengthOf(
as charz { // packet A { u8 x, }
[ 255
, ""a\""b"" ,
    """" , 00
    , 0123456789 ,""\n"" , ""\" ++ [233]%N ++ runes_of_ascii """//x
]:
x_y_z
3 : Foo ,
    // @lengthOf(
    }
    ,char[ 4294967296 ] calculatedFrom@lengthOf( Z9_ )	, } , i64
    trueish
    @lengthOf( /// triple
T) `" ++ [233]%N ++ runes_of_ascii "` , @lengthOf( body
)
@lengthOf(
matchKey // `tick` ""quote"" 'q'
) tag trueish `` , } packet Foo {
}")).
Eval vm_compute in ("<<<M244>>>" ++ check (runes_of_ascii "MetaData falsey { string tag
`// not a comment` , } packet x
{ char[]int @lengthOf( u)
`u8 x,`
    ,
@calculatedFrom( ""abc"" ) @leftPad ('0')@tag( 255) repeat T {
f32a
`" ++ [233]%N ++ runes_of_ascii "`  ,
u128 @calculatedFrom( """ ++ [128512]%N ++ runes_of_ascii """ ) // a // b
,
    // c
    repeat
float { char[] x ,}
    ,
},@lengthOf( Header
)string_ @lengthOf(Logon )//	t
, body
Pad `" ++ [28040; 24687; 31867; 22411]%N ++ runes_of_ascii "`,
}packet matchKey { }
    //	t
    packet options1	{
    string	a1 @calculatedFrom( ""{,}"" ) ,}	packet x {match a1 as i64_ { 1
: Packet , ""abc"": crc ,
    }
    , int8
calculatedFrom@lengthOf( i8i8
    //	t
    ),
    @calculatedFrom( """"	)
@calculatedFrom( """ ++ [128512]%N ++ runes_of_ascii """ ) lengthOf
`a\`, char[1  ] u8x , zchar[ 007]// packet A { u8 x, }
metadata  @calculatedFrom(// a // b
""\n"" ) , @lengthOf(
len) @rightPad ( ) char[
    // " ++ [27880; 37322]%N ++ runes_of_ascii "
    10 // packet A { u8 x, }
]	Pad , repeat options1 `{ , }`,
    char[] tag @lengthOf( Packet ),}
")).
Eval vm_compute in ("<<<M1654>>>" ++ check (runes_of_ascii "packet chars {
}// c

packet len {
    repeat char[] Foo,
    @rightPad('0')
    zchar[007] a1 `say ""hi""`,
    repeat BodyLength leftPad,
}

root packet u8x {
    f64 lengthOf @calculatedFrom(""CRC32""),
    string zchar @lengthOf(int) `crlf
        line`,
    int calculatedFrom,
    @lengthOf(As)
    match falsey as asx {
        65535 : _x,
        [1] : u,
        007 : uint8x,
        00 : f32a,
        """ ++ [233]%N ++ runes_of_ascii "t" ++ [233]%N ++ runes_of_ascii """ : Packet,
        [42, ""a\""b""] : len,
    },
    @lengthOf(stringy)
    @calculatedFrom(""1"")
    repeat A {
        char[] lengthOf `it's`,
    },
    _x `" ++ [28040; 24687; 31867; 22411]%N ++ runes_of_ascii "`,
    @leftPad('0')
    match Foo as crc {
        10 : trueish,
        42 : Pad,
        [4294967296, ""// no comment"", ""{,}""] : float,
    },
    @lengthOf(u8x)
    a1 @calculatedFrom(""\" ++ [233]%N ++ runes_of_ascii """),
}")).
Eval vm_compute in ("<<<M1739>>>" ++ check (runes_of_ascii "

  options{ 
StringPrefixLenType =
u16
	; ArrayPrefixLenType 
= u32; FixedStringPadFromLeft=false ;
    FixedStringPadChar =
'0' ;

}  packet  Logout{	f64 
f1
, 
i16
Note
,	@rightPad ( '\x00'

)char[
11 ]

    Flags
,

    }	packet
Cancel
    {
	float64 msgKind,} packet Reject{ InQty43
{
	float32 sym,
	char[
10	]
Tail
,

    uint8 
venue ,uint16 f1

    , char[ 
9
]
    Acct

, 
}
, }
	packet
Trade
	{	char[]x

,
	zchar[ 
6
]
Note,repeat
Reject , 
}root
    packet
Order

    { 
Cancel
, Logout,
u64
Acct ,u32
OrderId ,
match  OrderId
as

Body { [
127,

    70  ]  :
Reject
,
177	: Trade

    , 58: Logout
    , 
75 
:
Cancel  ,
}
	,
	u32 
Tail

@calculatedFrom(
""CR\
C32""
	), }")).
Eval vm_compute in ("<<<M1460>>>" ++ check (runes_of_ascii "options {
    LittleEndian = true;
    FixedStringPadFromLeft = true;
    FixedStringPadChar = '0';
}
packet Trade {
    string clOrdID,
    char[] Px,
    u32 x,
}
packet Reject {
    int32 Side2,
    repeat char[3] clOrdID,
    i32 tag7,
}
packet Leg {
}
root packet Quote {
    string Side2,
    string lastPx,
    InSym58 {
        int16 OrderId,
        Reject,
        i8 Qty,
        i64 venue,
        f32 Note,
    },
    char[] count,
    zchar[9] price,
    u16 Qty,
    match Qty as Body {
        69 : Leg,
        48 : Trade,
        51 : Reject,
    },
    u16 Acct @calculatedFrom(""CR\
C32""),
}
")).
Eval vm_compute in ("<<<M159>>>" ++ check (runes_of_ascii "packet BodyLength
    { repeat string As `{ , }`
,	@tag(4294967296 ) match Pad as
lengthOf { //	t
007	: // `tick` ""quote"" 'q'
i8i8 /// triple
,""a\""b"": //x
msg_type,	}, repeat
    uint32 Z9_ , @tag( 00 )// `tick` ""quote"" 'q'
charz
    , string
    // trailing space 
    i8i8 // packet A { u8 x, }
@lengthOf( BodyLength ) ,@calculatedFrom(
    ""{,}""  )
    // a // b
    @leftPad// " ++ [27880; 37322]%N ++ runes_of_ascii "
( )
leftPad metadata  ,
//
// " ++ [128512]%N ++ runes_of_ascii " emoji
string i8i8 ``
    , uint64 trueish@calculatedFrom(
""1""
/// triple
// " ++ [27880; 37322]%N ++ runes_of_ascii "
) `
`, }")).
Eval vm_compute in ("<<<M1781>>>" ++ check (runes_of_ascii "MetaData stringy
        //x
	  {A
MetaDataX

    , }
    packet x

{	@calculatedFrom(/// triple
	  """"
) char[]
body `` 
    /// triple

  // c

	,
	matchKey @lengthOf( 
uint8x )  ,
	} 	 // packet A { u8 x, }
options { 
T
    // `tick` ""quote"" 'q'
    	// trailing space 
	  =true
;o  // packet A { u8 x, }
	= 

    // c
//	t
    '0'

;
asx 
	    //
=4294967296 
x =  ""CRC32""o  = 
zchar[ 7

]
}options	{/// triple
  As 
=	false; } //x
 
")).
Eval vm_compute in ("<<<M1545>>>" ++ check (runes_of_ascii "packet float {
    // c
}

packet u128 {
    @calculatedFrom(""1"")
    asx x_y_z `" ++ [28040; 24687; 31867; 22411]%N ++ runes_of_ascii "`,
}

root packet u8x {
    repeat uint8x T,
}

packet leftPad {
    i64_,
    @leftPad('0')
    repeat tag,
    repeat uint8x {
        matchKey @calculatedFrom(""abc""),
        string charz,
    },
    @rightPad()
    zchar[10] charz @calculatedFrom(""" ++ [128512]%N ++ runes_of_ascii """) `// not a comment`,// trailing space 
}
// @lengthOf(")).
Eval vm_compute in ("<<<M1858>>>" ++ check (runes_of_ascii "options {
    BodyLength = ""{,}""
    tag = ""// no comment"";
}

options {
    charz = '\x00';// a // b
    repeatCount = 255;
    _x = """ ++ [128512]%N ++ runes_of_ascii """;
    Foo = '0'
    a1 = '0'
    //x
    //
}

root packet falsey {
    i64 packetx @lengthOf(Header) `" ++ [28040; 24687; 31867; 22411]%N ++ runes_of_ascii "`,
    len @lengthOf(roots) `a\`,
    zchar @lengthOf(MetaDataX) `line1
        line2`,
}// packet A { u8 x, }")).
Eval vm_compute in ("<<<M1819>>>" ++ check (runes_of_ascii "MetaData u8x {
    packetx len `crlf
    line`,
    char[255] calculatedFrom `" ++ [28040; 24687; 31867; 22411]%N ++ runes_of_ascii "`,
    float64 MetaDataX `say ""hi""`,
    BodyLength charz `crlf
    line`,
}

packet lengthOf {
    //	t
    @tag(4294967296)
    uint8x @calculatedFrom(""\n"") `" ++ [28040; 24687; 31867; 22411]%N ++ runes_of_ascii "`,
    char calculatedFrom @calculatedFrom(""" ++ [28040; 24687]%N ++ runes_of_ascii """) `two words`,
}")).
Eval vm_compute in ("<<<M341>>>" ++ check (runes_of_ascii "options { leftPad
    = 1
    ;	leftPad= char[]
    // c
    MetaDataX = false// @lengthOf(
u =
'\x00'roots =10
} packet
A { char[
    // packet A { u8 x, }
    10] o ,  match  a1 as T {
// @lengthOf(
//	t
65535 :	Z9_ 0 : _x ,} ,	}
    packet
    Foo {repeat i64_ `two words`//
, }
")).
Eval vm_compute in ("<<<M1470>>>" ++ check (runes_of_ascii "

  packet

    Sub {u8
	a ,  u32

SubSum
    @calculatedFrom(	""CRC16"" )
,} root
	packet
    Frame { u16
    MsgType

,
u16 BodyLen @lengthOf(	Body	)

,Sub Body
	,  string
note,u32
    Checksum
    @calculatedFrom( 
""CRC16"")
,
u8	tail
,

}
")).
Eval vm_compute in ("<<<M457>>>" ++ check (runes_of_ascii "options
{
matchKey = 42/// triple
x='0' ;
// packet A { u8 x, }
//
charz
=
// packet A { u8 x, }
// trailing space 
true  ; } MetaData MetaData BodyLength
{
uint8
pack,zchar[ 1]float ,  float32 x_y_z `` ,u32
_x,i16 body  , }
")).
Eval vm_compute in ("<<<M532>>>" ++ check (runes_of_ascii "options
{
matchKey = 42/// triple
x='0' ;
// packet A { u8 x, }
//
charz
=
// packet A { u8 x, }
// trailing space 
true  ; } MetaData BodyLength
{
uint8
pack,zchar[ 1]float ,  float32 x_y_z `` ,u32 u32
_x,i16 body  , }
")).
Eval vm_compute in ("<<<M562>>>" ++ check (runes_of_ascii "options
{
matchKey = 42/// triple
x='0' ;
// packet A { u8 x, }
//
charz
=
// packet A { u8 x, }
// trailing space 
true  ; } MetaData BodyLength
{
uint8
pack,zchar[ 1]float ,  float32 x_y_z `` ,u32
_x,i16 body  , } }
")).
Eval vm_compute in ("<<<M423>>>" ++ check (runes_of_ascii "options
{
matchKey = 42/// triple
x=; '0'
// packet A { u8 x, }
//
charz
=
// packet A { u8 x, }
// trailing space 
true  ; } MetaData BodyLength
{
uint8
pack,zchar[ 1]float ,  float32 x_y_z `` ,u32
_x,i16 body  , }
")).
Eval vm_compute in ("<<<M411>>>" ++ check (runes_of_ascii "options
{
matchKey = 42/// triple
='0' ;
// packet A { u8 x, }
//
charz
=
// packet A { u8 x, }
// trailing space 
true  ; } MetaData BodyLength
{
uint8
pack,zchar[ 1]float ,  float32 x_y_z `` ,u32
_x,i16 body  , }
")).
Eval vm_compute in ("<<<M551>>>" ++ check (runes_of_ascii "options
{
matchKey = 42/// triple
x='0' ;
// packet A { u8 x, }
//
charz
=
// packet A { u8 x, }
// trailing space 
true  ; } MetaData BodyLength
{
uint8
pack,zchar[ 1]float ,  float32 x_y_z `` ,u32
_x,i16   , }
")).
Eval vm_compute in ("<<<M545>>>" ++ check (runes_of_ascii "options
{
matchKey = 42/// triple
x='0' ;
// packet A { u8 x, }
//
charz
=
// packet A { u8 x, }
// trailing space 
true  ; } MetaData BodyLength
{
uint8
pack,zchar[ 1]float ,  float32 x_y_z `` ,u32
_x")).
Eval vm_compute in ("<<<M1400>>>" ++ check (runes_of_ascii "options {
    FixedStringPadChar = '0';
}
packet Q {
    zchar[4] z,
    @rightPad('\x00') char[3] n,
    char[5] d,
}
root packet R {
    Q,
    zchar[8] top,
    repeat zchar[2] zs,
}
")).
Eval vm_compute in ("<<<M720>>>" ++ check (runes_of_ascii "// c
packet i64_ {	char[] calculatedFrom , } packet
trueish  {@calculatedFrom(
""a\\"" ) o { i32 falsey@lengthOf( uint8x ),
} , } // `tick` ""quote"" 'q'
$options {// c
Z9_ = ' '//
}
")).
Eval vm_compute in ("<<<M1706>>>" ++ check (runes_of_ascii "
packet
    u128
    { i64

A 
`{ , }`	, 
}MetaData	i64_

{ trueish 
Z9_
    ,

    // " ++ [128512]%N ++ runes_of_ascii " emoji
    // `tick` ""quote"" 'q'
      } options { 
metadata = i16

; charz = false

}
")).
Eval vm_compute in ("<<<M1828>>>" ++ check (runes_of_ascii "packet lengthOf {
    @leftPad()
    // a // b
    @tag(7)
    u8 BodyLength,
    char[1] chars `
        `,
    @tag(00)
    char[0] Z9_ @lengthOf(float) `u8 x,`,
}")).
Eval vm_compute in ("<<<M1380>>>" ++ check (runes_of_ascii "root packet
    // c1
P // c2
{ u8 // c4
s_u8 // c5
, // c6
repeat // c7
u8 // c8
r_u8 , u16 // c11
b_len
    // c12
, // c13a
  // c13b
}
    // c14
")).
Eval vm_compute in ("<<<M1560>>>" ++ check (runes_of_ascii "packet
B{ 
u8 
a
,}	root packet  P
{u8

K	,match	K
as Body

    {
    1
	:B  ,
	}  ,

u16 L
	@lengthOf(
Body
    )

    ,

    }

")).
Eval vm_compute in ("<<<M1815>>>" ++ check (runes_of_ascii "packet A {
    match k as n {
        [
            1, 22, ""c c"", 4, 5,
            ""f"", 7, 8
        ] : B,
        2 : C,
    },
}")).
Eval vm_compute in ("<<<M2000>>>" ++ check (runes_of_ascii "packet A {
    u16 len @lengthOf(body) `a
        b`,
    u32 crc @calculatedFrom(""CRC32"") `a
        b`,
    string body,
}")).
Eval vm_compute in ("<<<M1663>>>" ++ check (runes_of_ascii "

  packet

A { match 
k as	n  {	[
""a""
, 22
, ""c c"",

4  ,

    ""e"" , 66 
,

""g""
,8
	, ""i"",
10
, ""k"" ]	:	B
2	:
	C  },}")).
Eval vm_compute in ("<<<M1585>>>" ++ check (runes_of_ascii "
packet	calculatedFrom
	{ 
@tag(
4294967296	)u	msg_type
,
char[ 3 ] crc  @lengthOf( 
	// c

	len 
)  `u8 x,` ,}
")).
Eval vm_compute in ("<<<M1511>>>" ++ check (runes_of_ascii "
packet o
	{  @tag(42)	repeat

    x { 
        // c
    char[ 
0123456789
    ]  i64_
,

    }	,  } options
{} ")).
Eval vm_compute in ("<<<M1101>>>" ++ check (runes_of_ascii "MetaData zchar // c1
{ // c2a
  // c2b
zchar[ // c3a
  // c3b
3 ]
    // c5
Pad // c6
, // c7a
  // c7b
} // c8
")).
Eval vm_compute in ("<<<M1330>>>" ++ check (runes_of_ascii "// top
root
    // c0
packet P {
    // c3
char // c4
c // c5
,
    // c6
u8 // c7
x // c8
, // c9
} // c10
")).
Eval vm_compute in ("<<<M897>>>" ++ check (runes_of_ascii "packet A {
  match k as n {
    [""a"", 22, ""c c"", 4, ""e"", 66, ""g"", 8, ""i"", 10, ""k""] : B
    2 : C
  },
}")).
Eval vm_compute in ("<<<M1280>>>" ++ check (runes_of_ascii "packet calculatedFrom { @tag( 4294967296 ) u msg_type , char[ 3 ] crc @lengthOf(
// c
len ) `u8 x,` , }")).
Eval vm_compute in ("<<<M883>>>" ++ check (runes_of_ascii "packet A {
  match k as n {
    [""a"", 22, ""c c"", 4, ""e"", 66, ""g"", 8, ""i"", 10] : B,
    2 : C
  },
}")).
Eval vm_compute in ("<<<M176>>>" ++ check (runes_of_ascii "MetaData
x_y_z
{
Logon
    repeatCount `say ""hi""`,  crc
    x_y_z
,
    char[	10 ] Foo  ,
}
")).
Eval vm_compute in ("<<<M1158>>>" ++ check (runes_of_ascii "packet Logon { @tag( 42 ) @rightPad ( ' ' ) @leftPad ( ) repeat trueish // c
{ string T , } , }")).
Eval vm_compute in ("<<<M868>>>" ++ check (runes_of_ascii "packet A {
  match k as n {
    [1, ""bb"", 007, ""d"", 5, ""f"", 7, ""h"", 9] : B,
    2 : C
  },
}")).
Eval vm_compute in ("<<<M282>>>" ++ check (runes_of_ascii "MetaData charz {
Pad tag `two words` ,
    u32 matchKey ,u128 Foo ,
char[ 255 ] body ,}
")).
Eval vm_compute in ("<<<M835>>>" ++ check (runes_of_ascii "packet A {
  match k as n {
    [""a"", ""bb"", 007, ""d"", ""e"", 66] : B,
    2 : C
  },
}")).
Eval vm_compute in ("<<<M1209>>>" ++ check (runes_of_ascii "packet
// c
o { @tag( 42 ) repeat x { char[ 0123456789 ] i64_ , } , } options { }")).
Eval vm_compute in ("<<<M1241>>>" ++ check (runes_of_ascii "packet o { @tag( 42 ) repeat x { char[ 0123456789 ] i64_ , } , }
// c
options { }")).
Eval vm_compute in ("<<<M1943>>>" ++ check (runes_of_ascii "MetaData// c
  _x	{  zchar[
    4294967296 ] lengthOf  `// not a comment` , }

")).
Eval vm_compute in ("<<<M826>>>" ++ check (runes_of_ascii "packet A {
  match k as n {
    [1, 22, 007, 4, 5, 66] : B
    2 : C
  },
}")).
Eval vm_compute in ("<<<M747>>>" ++ check (runes_of_ascii "@rightPad zchar[ @leftPad uint8 i8 uint64 asx ; ; @lengthOf( root @tag(")).
Eval vm_compute in ("<<<M1323>>>" ++ check (runes_of_ascii "MetaData _x { zchar[ 4294967296 ] lengthOf `// not a comment` // c
, }")).
Eval vm_compute in ("<<<M1480>>>" ++ check (runes_of_ascii "MetaData _x {
    zchar[4294967296] lengthOf `// not a comment`,
}")).
Eval vm_compute in ("<<<M1833>>>" ++ check (runes_of_ascii "MetaData matchKey {
    u64 chars,
    char[] lengthOf,//	t
}")).
Eval vm_compute in ("<<<M57>>>" ++ check (runes_of_ascii "MetaData stringy { uint8
//x
// @lengthOf(
string_
, }
")).
Eval vm_compute in ("<<<M944>>>" ++ check (runes_of_ascii "MetaData M {
    u8 x `a

b`,
    T t `a

b`,
}")).
Eval vm_compute in ("<<<M1994>>>" ++ check (runes_of_ascii "MetaData M

{ u8
x `x
`	, T t  `x
`
, 
}")).
Eval vm_compute in ("<<<M311>>>" ++ check (runes_of_ascii "MetaData x_y_z { string options1 , }
")).
Eval vm_compute in ("<<<M921>>>" ++ check (runes_of_ascii "root packet A {
    u8 x `a
b`,
}")).
Eval vm_compute in ("<<<M756>>>" ++ check ([65533]%N ++ runes_of_ascii "\" ++ [18]%N ++ runes_of_ascii "7" ++ [65533; 65533; 65533]%N ++ runes_of_ascii "W" ++ [65533; 65533]%N ++ runes_of_ascii "I" ++ [65533; 65533]%N ++ runes_of_ascii "9," ++ [65533]%N ++ runes_of_ascii "w" ++ [14; 65533]%N ++ runes_of_ascii "D" ++ [65533; 65533]%N ++ runes_of_ascii "H" ++ [65533; 65533; 65533]%N ++ runes_of_ascii "r" ++ [65533; 65533; 65533]%N)).
Eval vm_compute in ("<<<M66>>>" ++ check (runes_of_ascii "packet Foo{ f64 Pad ,x
, }")).
Eval vm_compute in ("<<<M1189>>>" ++ check (runes_of_ascii "options { u8x // c
= 3 }")).
Eval vm_compute in ("<<<M94>>>" ++ check (runes_of_ascii "  options //x
{} 	 ")).
Eval vm_compute in ("<<<M1001>>>" ++ check (runes_of_ascii "// c" ++ [8192]%N ++ runes_of_ascii "
packet A {
}")).
Eval vm_compute in ("<<<M978>>>" ++ check (runes_of_ascii "packet A {
}// c" ++ [12288]%N)).
Eval vm_compute in ("<<<M1832>>>" ++ check (runes_of_ascii "packet A {
}")).
Eval vm_compute in ("<<<M1009>>>" ++ check (runes_of_ascii "// c" ++ [8232]%N)).
