From FP Require Import Lexer Parser ShowPT Digest Formatter.
From Coq Require Import String List NArith.
Import ListNotations.
Open Scope string_scope.
Set Printing Width 100000000.
Set Printing Depth 100000000.
Definition show_fres (r : fres) : string :=
  match r with
  | FOk s => "OK:" ++ sh_escaped s ""
  | FErr s => "ERR:" ++ sh_escaped s ""
  | FPanic p => "PANIC:" ++ p
  end.
Definition check (rs : list rune) : string := digest (show_fres (format_res rs)).
Definition full (rs : list rune) : string := show_fres (format_res rs).
Eval vm_compute in ("<<<M3925>>>" ++ check (runes_of_ascii "
// top
    options  // c0
  {  // c1a
	// c1b

	StringPrefixLenType 
        // c2
    = // c3
		u8 	 // c4a

  // c4b
		;
ArrayPrefixLenType 	 // c6a
    // c6b
    = // c7a
	// c7b
	u32 	 // c8a
		// c8b
	; // c9a
    // c9b
    	FixedStringPadFromLeft// c10
    	= 	 // c11
      false// c12
  ;  // c13
  FixedStringPadChar // c14a
// c14b
    =// c15

	' '  // c16a
      // c16b
  ;	// c17
	} 	 // c18
  	packet	// c19
  Party  // c20a

// c20b
      {repeat

    // c22
i16 
	// c23
Qty	// c24
,
	// c25
    repeat 	 // c26a
    // c26b
	string 	 // c27
	Tail  // c28a
		// c28b
    	,	// c29a
  // c29b
i8	OrderId	// c31
  , // c32
  i8// c33
msgKind
    // c34
  ,	// c35

	}  
      // c36
  packet 
      // c37
  Ack 
{ // c39a

  // c39b
  	Party , 
      // c41
	  repeat // c42a
// c42b
InRef20 
// c43
  { 
// c44
Party
// c45
	, 	 // c46a
// c46b
    int8
	// c47
	tag7// c48a
	// c48b
    ,  // c49a
    // c49b
	char[ 
// c50
5	// c51
  ] 	 // c52
  OrderId  // c53
		,// c54a
  	// c54b
zchar[	// c55a
    // c55b
    7	// c56
  ]
	Tail
    , 	 // c59
	char[]

    // c60

count

, // c62a

// c62b
	InPrice45	// c63a
    // c63b
{  
      // c64
Party// c65a
  // c65b
,
char[1 
    // c68
	]
	Px 
      // c70

  , 
    // c71
	  }  // c72a
  // c72b
      ,

    // c73
  	}// c74
    	, 
// c75
    char[ 
	// c76
12// c77
	  ]	// c78a
    // c78b
	price
    // c79
  	,	// c80a
  // c80b
	int8 
    // c81
    sym	// c82
		,// c83a
	// c83b
  }

    // c84

packet// c85a

// c85b

Reject 
	// c86
    	{ // c87

	repeat InPrice47 	 // c89

	{// c90a
	// c90b
  	Party// c91
  ,
        // c92
  }

,  
  // c94

zchar[ 
    // c95
    	4// c96a
		// c96b
]
    x 
	// c98
  , 	 // c99
    repeat // c100a
// c100b
  Ack	// c101
      ,// c102
zchar[// c103a
// c103b

2	// c104a

  // c104b
    ]	Ref 	 // c106
, repeat
Party	// c109
  ,  // c110
	} 
    // c111

  packet 

// c112
    Cancel 	 // c113a

// c113b

  {  
  // c114
    Reject ,
repeat
	// c117
    string
f1
    // c119
  ,  // c120
    uint16// c121

  OrderId  // c122a

// c122b
,  // c123
    	u8// c124a
// c124b
    Acct // c125
, 	 // c126
      int8
        // c127
    msgKind 	 // c128
	,
} // c130
      root 
    // c131
  	packet// c132
    Fill 	 // c133a
// c133b
{

u8// c135
      count  // c136a
// c136b
	, char[]  // c138
  tag7	// c139a
// c139b
  , // c140a
	  // c140b

  zchar[ // c141a

// c141b

	7
    // c142
    ] 
    // c143
    Acct
, u32
        // c146
	OrderId

    , 

    // c148
	u32  
      // c149
    Note // c150
  	@lengthOf( 
Body	)  
  // c153
	, 

    // c154
    match
	    // c155
	OrderId

    as
Body
{ 	 // c159a
  // c159b
	106 // c160a

	// c160b

  :	// c161
Cancel 	 // c162
	  ,196	// c164
      :
    // c165
    Reject 
	    // c166

  ,74 
:	// c169
    Party
	,// c171
75 // c172
  : 	 // c173a
// c173b
	Ack 
        // c174
  	,	// c175
} 
,

}
")).
Eval vm_compute in ("<<<M4252>>>" ++ check (runes_of_ascii "packet /// triple
	u128 { @calculatedFrom( """ ++ [128512]%N ++ runes_of_ascii """
) 

/// triple
  	// c
	i64	charz  `tab	here`  ,

@lengthOf(  Header )
	float32  a1 @calculatedFrom(

    """ ++ [128512]%N ++ runes_of_ascii """ ) ,repeat string a1

    `it's`,

@tag( 42 ) @tag( 
7 )  zchar 
stringy
	,

    float32 calculatedFrom

`
`
	, }
	MetaData
x
	{ // " ++ [27880; 37322]%N ++ runes_of_ascii "
	Header
    x_y_z

    `
` ,

int64	options1
	`it's`
, char[]
chars
,	u16 options1 ,  u16
    calculatedFrom`tab	here` 	 // `tick` ""quote"" 'q'
    ,
    char[ 0123456789  ]u,

    }

    root
    packet uint8x { @rightPad
	(

    '\x00'
    ) char[	7]
	asx
	,

    int64

Pad	@lengthOf( As

)  `crlf
line`
	, msg_type
@calculatedFrom(""`tick`""
) , @calculatedFrom( // a // b
  ""a\\""  )
    @rightPad( ' '

)
repeatCount

    `line1
line2`
,@tag(	3) int32
As

    `two words` 
, @tag(
	1  ) @calculatedFrom(

    ""`tick`"")
	@lengthOf(
    f32a)

    match

zchar  as
u
	{ 0123456789
	:

    leftPad
	""\" ++ [233]%N ++ runes_of_ascii """

:  _x

    , 
7

:	MetaDataX ,
[

    4294967296	]:stringy ,
7
:uint8x}
,@leftPad (
	) string	Foo  @lengthOf(

MetaDataX

)

``  ,//
	match
calculatedFrom as
	A
    {
[
    255

, 7 
,
	1
	, //x
1
	, 
42
	,

007
,
007
    ]
    :
A , [	// `tick` ""quote"" 'q'
    ""a\\"" ,
""it's""
, ""1""  , 
00
    , """ ++ [128512]%N ++ runes_of_ascii """ 
,
""{,}""	,  42
] 
:

calculatedFrom

,
""it's"": f32a  , 
}
	,  repeat

char[]
    i8i8 ,

leftPad

    ,
}packet

_x  {	char[]  Z9_ ,
int64 options1
    @calculatedFrom(  """"	// trailing space 

  )
`u8 x,`

    ,  
      // `tick` ""quote"" 'q'
  @calculatedFrom(""// no comment"")
match
	tag 
as
roots
{

[ 	 // packet A { u8 x, }
		""abc""	] :options1
    65535

    : o ,  ""// no comment"" :f32a  // c
    ,

""packet""
:

    uint8x,
}
, 
leftPad

    @calculatedFrom(
""" ++ [233]%N ++ runes_of_ascii "t" ++ [233]%N ++ runes_of_ascii """ 
),
    repeat
x , zchar[  65535 
]float `line1
line2`
,
	i16 uint8x ,

zchar[  10
	]
    uint8x 	 // packet A { u8 x, }
	,

@calculatedFrom( ""abc"")
repeat 
x

{trueish
`tab	here` ,}
    ,
	@tag(
1 
)  char[

3]
// packet A { u8 x, }

	// a // b
    metadata
`say ""hi""`

    ,}
")).
Eval vm_compute in ("<<<M1073>>>" ++ check (runes_of_ascii "
packet uint8x { @lengthOf(i64_ // trailing space 
) calculatedFrom {i32 Foo	@lengthOf( pack),
// " ++ [27880; 37322]%N ++ runes_of_ascii "
// " ++ [128512]%N ++ runes_of_ascii " emoji
} ,@leftPad
    (
'\x00' ) repeat A `it's` //	t
, // a // b
@rightPad ( '\x00')Header@calculatedFrom(""" ++ [28040; 24687]%N ++ runes_of_ascii """ ) , @calculatedFrom( ""// no comment""	) @tag(
0123456789) @tag(  7
) options1 { match	u	as lengthOf { 10: lengthOf
    ,/// triple
""a\\""
:
    As//x
,
} ,
options1 roots	`{ , }` , },// @lengthOf(
repeat o
    //x
    `" ++ [28040; 24687; 31867; 22411]%N ++ runes_of_ascii "` , @tag(
42) @calculatedFrom(""" ++ [233]%N ++ runes_of_ascii "t" ++ [233]%N ++ runes_of_ascii """
)	int16 BodyLength	, repeat	Logon T`// not a comment` ,repeat x string_	, } MetaData len
    { Header lengthOf `// not a comment` , } packet metadata	{ roots
    // " ++ [27880; 37322]%N ++ runes_of_ascii "
    @lengthOf(asx ), @tag(
    65535 )
string Header
@calculatedFrom(  """ ++ [28040; 24687]%N ++ runes_of_ascii """ )
`
` , @lengthOf(As ) @lengthOf( string_ ) @leftPad	(
)
    repeat char[1] body  , @calculatedFrom( ""a\""b"" )
match u128 as
Pad{
""\" ++ [233]%N ++ runes_of_ascii """ : float  [
    7 // " ++ [128512]%N ++ runes_of_ascii " emoji
] :
    Packet
, 10 : i8i8	,
    // trailing space 
    },@tag( 255)
    f64 a1 @calculatedFrom( // a // b
""a\""b"" )
    ,
@lengthOf( falsey
)// trailing space 
MetaDataX@lengthOf(MetaDataX)
, @tag(42
)
    char[	007 ] x_y_z	,}MetaData Z9_{
f32 MetaDataX `{ , }` , zchar[10
    ] charz
`a\` , u16 leftPad `tab	here` ,packetx // trailing space 
asx `say ""hi""` , char[]
    //x
    u8x , }
root packet
    // packet A { u8 x, }
    Packet
    // @lengthOf(
    { int32 chars,	repeat int8 stringy , string chars
    ,repeat	chars
    // `tick` ""quote"" 'q'
    {  _x  ,repeat repeatCount trueish,
falsey // @lengthOf(
@calculatedFrom(
""it's"" )// " ++ [128512]%N ++ runes_of_ascii " emoji
, },
// packet A { u8 x, }
// trailing space 
char[] i8i8
    @lengthOf( packetx),}
")).
Eval vm_compute in ("<<<M3845>>>" ++ check (runes_of_ascii "  packet	i64_ {@leftPad (
	)

@tag(  4294967296

    )  repeat string	Logon

    `{ , }`
, @lengthOf(	float

) u16 
//x
  matchKey
@lengthOf(

    body 
)
	,repeat
    /// triple
	char[

4294967296	]
	tag	,	@lengthOf(	asx	) repeat

trueish

    ,
    repeat

    lengthOf	len
	, 	 // packet A { u8 x, }
match  asx
as crc

    {

    [  // a // b
	  """ ++ [28040; 24687]%N ++ runes_of_ascii """ 
        // trailing space 
// c
    ,

    ""abc""

    ]
    :

roots,	} , match

    uint8x
    as repeatCount {	[

    0123456789
    ]: 
	/// triple
	  Foo
    ,

""a\""b"": Packet

    42 :
stringy

,[ // `tick` ""quote"" 'q'
  0123456789
, 007 ]
: f32a
	,//x
    	42  : x
}
    // @lengthOf(
  ,

    @lengthOf( msg_type
)
	uint8x,
repeat

metadata  // " ++ [27880; 37322]%N ++ runes_of_ascii "
  , 
}MetaData
    float

{
	char[
42
    ]

    Logon	`a\`, 
stringy
packetx,
	int32
    pack

,
rootA

    x

,

    Logon
Foo
,
u16

    A 
  //	t
//x
, } //x
  packet 
    //	t
    	Header

    { @calculatedFrom(

    ""1"" 
)u ,	@tag( 
65535
    // a // b

// trailing space 
    )
pack
{ string

trueish
`" ++ [28040; 24687; 31867; 22411]%N ++ runes_of_ascii "`,  match 
stringy	as

tag
    {
""a\\"":

    float

    // `tick` ""quote"" 'q'
    , 
""abc"":  Z9_,
	007 
:

    metadata ,// c

[

10

]:matchKey 	 // " ++ [27880; 37322]%N ++ runes_of_ascii "
    ,  ""a	b""
:
_x
7	// " ++ [128512]%N ++ runes_of_ascii " emoji
    	:

    Pad }  ,
    repeat

    body

,
f32
int

,

    }  ,MetaDataX

    u128

`doc` ,

    }options
	{}
")).
Eval vm_compute in ("<<<M4392>>>" ++ check (runes_of_ascii "packet
options1 {

    body
int  `" ++ [28040; 24687; 31867; 22411]%N ++ runes_of_ascii "`	,
	}MetaData
	T // " ++ [27880; 37322]%N ++ runes_of_ascii "
    	{leftPad
charz, o

roots
,  }	packet 
float 
{

    @lengthOf( x_y_z
	)
repeat i8  
  // `tick` ""quote"" 'q'

  calculatedFrom 
`" ++ [233]%N ++ runes_of_ascii "` ,repeat

stringy `
`	,@tag( 007
) 
    /// triple

@rightPad (
' '	)
f32a	@lengthOf(

    len  )
    ,

    @lengthOf( 
u8x
)
    match
    chars

    as
	metadata
    { ""x y""

    :
    matchKey, 	 // trailing space 
""a\""b""

    :
    zchar  ,	[
    ""a\\"" , 4294967296 ] :

calculatedFrom,

    1
:
T	, 7:
i8i8 ,

}

,
u128 tag `" ++ [233]%N ++ runes_of_ascii "`,	T @calculatedFrom(	""{,}""  )	`doc` 
, 
    /// triple
  // c
  } packet 
uint8x 
{ }  root  // `tick` ""quote"" 'q'
      packet
    zchar
    {
	@tag( 
  // packet A { u8 x, }
		1  ) match packetx

    as
    calculatedFrom 
{ 
007
	: chars

    ,  """ ++ [128512]%N ++ runes_of_ascii """ :
	crc
, 
""a	b""
:

Foo 	 // @lengthOf(
      ,
42	:

u8x  , 
[

    ""\" ++ [233]%N ++ runes_of_ascii """]:  u8x,
    [

""it's""	,
""1""

    ,
    1

, 
""\n"" ,

00

] :MetaDataX

,
	}

    , @tag( 
00
)

    char x,

    @leftPad
('\x00' )

    @calculatedFrom(
""" ++ [28040; 24687]%N ++ runes_of_ascii """
    )
@lengthOf(repeatCount//

) u128

    falsey `doc` ,// c
  falsey@calculatedFrom(
	"""")
	, float64
Logon @calculatedFrom(

    """ ++ [28040; 24687]%N ++ runes_of_ascii """ ) 
	//x
// a // b
  	`it's`
,  } ")).
Eval vm_compute in ("<<<M1161>>>" ++ check (runes_of_ascii "MetaData body	{ asx stringy  , f64
// " ++ [27880; 37322]%N ++ runes_of_ascii "
// c
As ``	, Foo Logon `a\`
    // " ++ [27880; 37322]%N ++ runes_of_ascii "
    ,
    packetx asx `" ++ [28040; 24687; 31867; 22411]%N ++ runes_of_ascii "` ,u32 matchKey `line1
line2`
,
    u16  chars , } root
    packet
    _x //	t
{match rootA as repeatCount{
/// triple
//x
007 : msg_type /// triple
[
4294967296 ,""// no comment""
    ]
    : leftPad ,""""
    :packetx ,0123456789
    : Logon
, 10:
    a1 ,
    [
""abc"" , 7 // packet A { u8 x, }
,
""CRC32""
, 0123456789 ,
255
    ,""a\""b"" ,""" ++ [128512]%N ++ runes_of_ascii """ ]: len
    ,}, repeat string trueish , @rightPad ( ) int64 f32a@lengthOf(
tag  ) ,
// a // b
// @lengthOf(
zchar[ 42 ] lengthOf
    @lengthOf( tag )`{ , }`
    ,
    @tag( 10
) int32
//
//	t
leftPad `doc`,
    x_y_z
    chars
,@calculatedFrom( ""// no comment""
)
    @lengthOf(
_x ) @lengthOf( matchKey)repeat zchar
    zchar , @calculatedFrom(/// triple
""a	b""
    ) repeat
Pad i8i8 , @tag( 1
    // c
    ) repeat int16 metadata
    , }	options
{ T = ""`tick`""
    // packet A { u8 x, }
    ;
    crc
= '\x00' ; // packet A { u8 x, }
o=
    ' ' ;
    } packet matchKey // trailing space 
{
zchar[ 0123456789 ]  crc ,@lengthOf(packetx)
char[]//	t
uint8x
    `say ""hi""`, repeat As A, }
// c
")).
Eval vm_compute in ("<<<M4456>>>" ++ check (runes_of_ascii "//	t
		root packet	Header	{
    @tag(
255
)
float32 msg_type 
      // @lengthOf(
    	// packet A { u8 x, }
	@lengthOf(
u8x
    ) `" ++ [28040; 24687; 31867; 22411]%N ++ runes_of_ascii "` ,
//x

@calculatedFrom( ""a	b""
	)repeat string
i64_

    ,repeat

x_y_z
{ //x
	asx ,

string
    i8i8 @lengthOf(
float	)

    , uint16// `tick` ""quote"" 'q'
      As// @lengthOf(
	  @calculatedFrom(
    ""x y""

//
  ),

    }

    , //
  @lengthOf(i8i8)	msg_type{

    match tag as Z9_	{ [1  
      // " ++ [27880; 37322]%N ++ runes_of_ascii "
    ,
    ""packet""]
:Z9_,
[
    4294967296] 
:  options1

, ""\n"" : Pad	,

    } , match calculatedFrom
	as
	packetx
    {0123456789 	 /// triple
	  :metadata[ """ ++ [233]%N ++ runes_of_ascii "t" ++ [233]%N ++ runes_of_ascii """
] 
:	T  , 1	:

i64_ ,
}
,  //	t
match

BodyLength as 
chars
    {
0

:  metadata
    ,	""" ++ [128512]%N ++ runes_of_ascii """
    :

u128 ,	""a\""b"" :calculatedFrom ,0
:
    As , """ ++ [128512]%N ++ runes_of_ascii """ : 
x_y_z 7
:f32a ,	}//	t
      , 
u
    trueish  
      // " ++ [128512]%N ++ runes_of_ascii " emoji

,
	}

,} MetaData  charz
	{ i32 	 // " ++ [128512]%N ++ runes_of_ascii " emoji
      x `u8 x,`
    , 
char[] calculatedFrom

    `two words`  ,

    int8 
        // packet A { u8 x, }

	// trailing space 
  	packetx
    `crlf
line`, 
}  MetaData	//	t
      charz
	{
}")).
Eval vm_compute in ("<<<M365>>>" ++ check (runes_of_ascii "
packet
    trueish
    // @lengthOf(
    {
    char[ 7
]chars @calculatedFrom( """ ++ [128512]%N ++ runes_of_ascii """) , char[] uint8x@calculatedFrom( ""`tick`"" )// c
`
` ,  int16 // a // b
metadata @calculatedFrom( """ ++ [128512]%N ++ runes_of_ascii """// @lengthOf(
) `doc`, pack @lengthOf( stringy	) , u8
float @lengthOf( leftPad ) , @lengthOf(
chars ) f32a
    trueish, repeat
    zchar[ //	t
4294967296 ]
u  , @leftPad(
    //
    ' ' // trailing space 
)@lengthOf( leftPad ) @tag(
    7 ) repeat string	u128
,
    }
    packet Header { u64 leftPad
,	@lengthOf( u128	) repeat uint32
T
,@tag( 4294967296
)repeat uint32
    x_y_z ``
    , T	,
@tag( 1 ) zchar[7]	Packet@lengthOf( f32a  )
// @lengthOf(
//x
, // trailing space 
float32
    lengthOf
, // packet A { u8 x, }
i32 // " ++ [128512]%N ++ runes_of_ascii " emoji
calculatedFrom `crlf
line` ,@tag(0123456789	)
@tag( 1// trailing space 
)
//
// `tick` ""quote"" 'q'
@calculatedFrom( """ ++ [128512]%N ++ runes_of_ascii """ ) float32
lengthOf@calculatedFrom( ""\n"" )
    `" ++ [233]%N ++ runes_of_ascii "`
, zchar[ 007 ] zchar @calculatedFrom(
// a // b
// packet A { u8 x, }
""abc""	) `" ++ [28040; 24687; 31867; 22411]%N ++ runes_of_ascii "` /// triple
,
int32
    roots
,
}
")).
Eval vm_compute in ("<<<M391>>>" ++ check (runes_of_ascii "packet body{ }root packet  x { @rightPad
/// triple
// @lengthOf(
(  '\x00' ) charz // c
`tab	here`	, @calculatedFrom( ""\" ++ [233]%N ++ runes_of_ascii """
    ) // a // b
u128 , }packet trueish // " ++ [128512]%N ++ runes_of_ascii " emoji
{  match leftPad as u { // packet A { u8 x, }
""1"" :
float , 007: Packet
, 65535
// `tick` ""quote"" 'q'
//
:  _x 0123456789 : //x
charz ,
""" ++ [233]%N ++ runes_of_ascii "t" ++ [233]%N ++ runes_of_ascii """	: f32a  , ""abc"" : BodyLength ,} ,
repeat char T
,
    @tag(
    // trailing space 
    42 ) @tag(// packet A { u8 x, }
4294967296// @lengthOf(
)
@rightPad // @lengthOf(
('0' )repeat // c
int64 zchar
//	t
// `tick` ""quote"" 'q'
, }root packet Packet{
repeat	_x {
trueish
/// triple
// a // b
Foo ,} , @rightPad( '\x00' )int64 x_y_z @lengthOf(
    rootA )`
`
, @tag(
// @lengthOf(
// " ++ [27880; 37322]%N ++ runes_of_ascii "
4294967296
    ) //	t
match
pack	as pack
{ 007  :Logon, [42
    ] :metadata
    4294967296 : rootA
// a // b
//x
""1"" // c
: uint8x
, } , i8i8
{ i16 stringy `crlf
line` ,
    // trailing space 
    Pad x_y_z , u16 Packet @calculatedFrom( """"
)
, } , // c
} /// triple")).
Eval vm_compute in ("<<<M3503>>>" ++ check (runes_of_ascii "options{
LittleEndian= true;	StringPrefixLenType= u32;FixedStringPadChar =
'0'  ;
    } 
packet Logout {repeat
	InMsgkind49 
{u8 pad0	,}	,
    repeat char[
	5 ]
    seqNo
	,

repeat u8
	price,	} packet
Party

{  zchar[

7

] Qty 
, 
}packet Logon
{ repeat

    InRef10  {

    string	price , char[]sym
, repeat Logout,
}  ,  repeat char[  3 ]	count	, repeat Party , char[] tag7
    ,@rightPad 
(
    '0' )
	char[

2 ] 
clOrdID,} 
packet

Order {
InTail13
{

    Party  ,

    } ,repeat char[ 4
    ] count

    ,
} root
	packet 
Cancel 
{Logout ,	@leftPad 
('0'
)
char[ 9 
]	msgKind
	,
string lastPx ,

    string tag7	,  zchar[
1
    ] 
OrderId ,
repeat Party
,

    u16
sym
    ,u16
	Acct
    @lengthOf(

    Body )
	,
	match 
sym
as

Body {  [	24 
,

    44

]	:
    Logout

    ,
	160	:
Order ,
91
    : Logon

    , 43: Party, }

    ,

    u16
Tail @calculatedFrom(
""CRC32"")

,  }")).
Eval vm_compute in ("<<<M4014>>>" ++ check (runes_of_ascii "packet 
int
	{
char[]	// a // b
  crc
`it's`

    ,

}packet
	metadata
{
pack  Logon, @tag(
    00

) 
len { repeat u8x	leftPad
`" ++ [28040; 24687; 31867; 22411]%N ++ runes_of_ascii "`,repeat
	u16
    i64_ ,
    } ,
    @lengthOf(	x
) repeat
T
	MetaDataX`tab	here` , match 

    //x

matchKey as lengthOf 
{""a\\"" :
_x

    ,
[ 	 /// triple
  255
,  00  // `tick` ""quote"" 'q'
]	:chars

    ,

    [

    ""it's"" , 
0	]  // `tick` ""quote"" 'q'

  :
crc ,

    0 :  matchKey
, ""\" ++ [233]%N ++ runes_of_ascii """ 
  // " ++ [128512]%N ++ runes_of_ascii " emoji
  // a // b
      : 	 //
rootA	""x y"" // trailing space 
    :

    leftPad ,}
/// triple
,@tag( 255
) 
float32
	options1
	@calculatedFrom(""`tick`""
	)  ,
	@rightPad ( ) i64
    Packet `it's`, repeat 
zchar[
	255

] metadata `tab	here`,  /// triple

  @rightPad
( '\x00')	// trailing space 
  repeat i16

chars

    `" ++ [233]%N ++ runes_of_ascii "`
,

A 
        /// triple
    	// packet A { u8 x, }
  @lengthOf( 
    // c
      BodyLength ) , }
")).
Eval vm_compute in ("<<<M1394>>>" ++ check (runes_of_ascii "root packet
    // c
    stringy { match
    repeatCount as matchKey { ""a\\""
: // trailing space 
roots  ,} ,i8 o
`" ++ [233]%N ++ runes_of_ascii "`
, pack `" ++ [28040; 24687; 31867; 22411]%N ++ runes_of_ascii "`, u16  o , @tag(	0123456789 )zchar[  42	]
repeatCount
@calculatedFrom(
"""" ) ,
@leftPad( ' ' ) //
repeat Header
    {
match asx // " ++ [128512]%N ++ runes_of_ascii " emoji
as falsey {
""\n""
: asx  , 0
    : Z9_ ,
    // packet A { u8 x, }
    00
: repeatCount ,
7 // a // b
: a1 /// triple
,
    255 :A	,}
    ,match crc// @lengthOf(
as Foo
// trailing space 
//	t
{
    7 :
    // @lengthOf(
    packetx ,4294967296: lengthOf ,1
:
    pack , [
    007 ]: Z9_ ""\" ++ [233]%N ++ runes_of_ascii """	: trueish ,
} ,  int64
i64_
    // a // b
    @calculatedFrom( ""\" ++ [233]%N ++ runes_of_ascii """ ) , }// @lengthOf(
, repeat
int64
Foo ,@tag( 0123456789
) u16	u8x , char[3]
charz
    `" ++ [233]%N ++ runes_of_ascii "` ,} MetaData pack
    { //
string pack
// a // b
// c
, f32a
Packet ,
i64 u128 ,uint16 i8i8 , } // " ++ [128512]%N ++ runes_of_ascii " emoji")).
Eval vm_compute in ("<<<M4108>>>" ++ check (runes_of_ascii "packet msg_type {
    @rightPad('\x00')
    calculatedFrom chars,
}

packet string_ {
}

MetaData o {
    zchar[65535] a1,
}

root packet Foo {
    f32a {
        // " ++ [128512]%N ++ runes_of_ascii " emoji
        match len as Packet {
            [3] : body,
            7 : o,
            [00, 0, 42, ""x y""] : u,
            """ ++ [28040; 24687]%N ++ runes_of_ascii """ : Pad,
        },
        i64 A,
        string u8x,
        match stringy as As {
            65535 : i8i8,
            //x
            ""CRC32"" : u8x,
            [
                7, 0, 42, ""a\""b"", ""\n"",
                ""{,}"", ""a\""b""
            ] : MetaDataX,
            [""abc""] : falsey,
            // @lengthOf(
            [""`tick`""] : calculatedFrom,
        },
    },
}// " ++ [128512]%N ++ runes_of_ascii " emoji

options {
    body = ""CRC32"";
    body = ""a\""b""
    u128 = true;
    BodyLength = 10;
    leftPad = false;
}")).
Eval vm_compute in ("<<<M1010>>>" ++ check (runes_of_ascii "packet int { char[] // a // b
crc`it's` , } packet metadata{pack
    Logon , @tag( 00 )
    len { repeat u8x
leftPad`" ++ [28040; 24687; 31867; 22411]%N ++ runes_of_ascii "` ,
repeat u16 i64_ , } , @lengthOf( x
) repeat T MetaDataX`tab	here`
    ,match
    //x
    matchKey
    as lengthOf {
""a\\""
    :	_x ,	[/// triple
255 , 00 // `tick` ""quote"" 'q'
]: chars	,
[ ""it's"",
    0 ]// `tick` ""quote"" 'q'
:
    crc,0 :matchKey ,
""\" ++ [233]%N ++ runes_of_ascii """
// " ++ [128512]%N ++ runes_of_ascii " emoji
// a // b
: //
rootA ""x y"" // trailing space 
: leftPad,
}
    /// triple
    , @tag(
    255)float32 options1 @calculatedFrom( ""`tick`"") , @rightPad (  ) i64 Packet `it's` ,repeat zchar[ 255 ] metadata
`tab	here` , /// triple
@rightPad ( '\x00' )// trailing space 
repeat i16 chars `" ++ [233]%N ++ runes_of_ascii "` , A
/// triple
// packet A { u8 x, }
@lengthOf(
    // c
    BodyLength ), }
")).
Eval vm_compute in ("<<<M4444>>>" ++ check (runes_of_ascii "

  options {
LittleEndian =
false	;

    StringPrefixLenType
	=
    u16 
;  ArrayPrefixLenType  =  u32 ; 
} packet Order{
uint8 x ,
	repeat
string
venue , } packet	Heartbeat { i64 count, zchar[
1 
]Qty 
, repeat  InX29 { InSeqno26
{ int64 f1 ,	char[ 5 ]
Acct ,
    Order  ,
    }

,
repeat  InSide285 
{
repeat
    Order,
	char[  10
    ]Px

    ,zchar[9 ]  OrderId , 
}

    ,
	char[]

venue 
, Order ,}
	,
	@rightPad
    (
'\x00' ) 
char[
    4

    ] 
clOrdID , } root

packet	Party {

zchar[

    3
    ]

f1

    ,u32 
clOrdID , 
u32
Px
    @lengthOf( Body),

match clOrdID

    as

Body
    {  [
180 , 
64
    ]

: 
Heartbeat , 11
: Order
, 
} , u32	Side2@calculatedFrom( ""CRC32""

    ),	}

")).
Eval vm_compute in ("<<<M4022>>>" ++ check (runes_of_ascii "packet Header {
    @lengthOf(o)
    zchar[255] pack @lengthOf(len) `a\`,
    @calculatedFrom(""" ++ [128512]%N ++ runes_of_ascii """)
    repeat Foo {
        float @lengthOf(asx),
        repeat body,
        repeat x {
            As @lengthOf(Foo) `doc`,
            string uint8x @lengthOf(msg_type),
        },
    },
    @leftPad('0')
    @rightPad('0')
    x @calculatedFrom(""" ++ [233]%N ++ runes_of_ascii "t" ++ [233]%N ++ runes_of_ascii """),
    @tag(00)
    msg_type @calculatedFrom(""" ++ [128512]%N ++ runes_of_ascii """),
    @tag(65535)
    repeat x_y_z,
    @tag(1)
    // c
    // " ++ [27880; 37322]%N ++ runes_of_ascii "
    zchar[4294967296] matchKey,
    packetx,
    repeat charz packetx `line1
    line2`,
    int32 x @calculatedFrom(""\n""),
}

root packet int {
    @leftPad()
    char zchar @lengthOf(Pad) `// not a comment`,
}//x")).
Eval vm_compute in ("<<<M140>>>" ++ check (runes_of_ascii "options  { }
MetaData metadata  {	float32 u128 `" ++ [28040; 24687; 31867; 22411]%N ++ runes_of_ascii "` ,
}packet
roots {
i64 uint8x``
// `tick` ""quote"" 'q'
// `tick` ""quote"" 'q'
, @tag(  3) // packet A { u8 x, }
@tag(
    0123456789	) stringy @lengthOf(Header )`u8 x,` , f64 u //x
`tab	here`,  match  u8x as u8x
    // `tick` ""quote"" 'q'
    { 10 : string_ , }, zchar[
7 ]  u@calculatedFrom( // a // b
""packet"" ) ,  @leftPad
    ( ) repeat asx _x
    ,zchar[ // `tick` ""quote"" 'q'
7] uint8x
,body
{repeat zchar[
3]
    As , string Header
,
    char[] u, }
, repeat Logon{
repeat zchar[65535 ] packetx `// not a comment` , }
, } // packet A { u8 x, }
MetaData
msg_type{
f64
    crc	`{ , }`
, }
")).
Eval vm_compute in ("<<<M3964>>>" ++ check (runes_of_ascii "options {
    lengthOf = ""a\""b""
    A = false;
    repeatCount = 7;
    body = true;
}

packet roots {
    string f32a,
}

root packet crc {
    @rightPad('0')
    zchar[42] zchar @calculatedFrom(""abc"") `// not a comment`,
    f32 x_y_z,
    repeat packetx `u8 x,`,
    @lengthOf(tag)
    f64 u8x ``,
    char[] options1,
    @lengthOf(matchKey)
    Logon @calculatedFrom(""{,}"") `" ++ [28040; 24687; 31867; 22411]%N ++ runes_of_ascii "`,
}

root packet falsey {
    match matchKey as asx {
        ""\" ++ [233]%N ++ runes_of_ascii """ : i64_,
        [4294967296, ""a\\""] : falsey,
        [
            3, 7, 7, 0, 0,
            ""// no comment"", ""CRC32"", ""// no comment""
        ] : zchar,
    },
}")).
Eval vm_compute in ("<<<M967>>>" ++ check (runes_of_ascii "root
packet	Logon	{@tag( 3 )// @lengthOf(
float64
options1 @calculatedFrom(
    ""1""
    ) ,
match
    roots
as // @lengthOf(
MetaDataX
    { 0123456789 :
As , //	t
[
    0, ""1"", 0123456789,
""CRC32"" ,
7
    // " ++ [27880; 37322]%N ++ runes_of_ascii "
    ,	""" ++ [128512]%N ++ runes_of_ascii """
, ""CRC32""
]
: x  ,
} ,  @tag( //x
007 ) string calculatedFrom
@calculatedFrom(""a\\"" ) `two words` , @lengthOf(	uint8x )trueish	`{ , }` , // trailing space 
} // @lengthOf(
root
    packet rootA { match As as	As { // `tick` ""quote"" 'q'
10 : MetaDataX /// triple
, ""{,}"" :body
} , @tag( 4294967296 )	_x
    @lengthOf(roots// " ++ [128512]%N ++ runes_of_ascii " emoji
) , packetx ``,
    } // c")).
Eval vm_compute in ("<<<M293>>>" ++ check (runes_of_ascii "root packet zchar { @rightPad (  ) repeat
uint32 Pad  ,
// a // b
// c
char[ 4294967296 ] f32a @calculatedFrom( """" )
`u8 x,`
, uint16 BodyLength @lengthOf( packetx)
`it's`  , @calculatedFrom( ""a\\"" ) string falsey // c
`a\`
    , matchKey Packet`it's` , match trueish as matchKey
{ ""\n"" : trueish [ ""\n"" ,
3]
    : len , [ 10  ] : Logon // `tick` ""quote"" 'q'
0123456789
: packetx ,  ""it's"" :
Pad , 42
// @lengthOf(
// a // b
:
    falsey , } ,
match metadata
    as rootA { """ ++ [128512]%N ++ runes_of_ascii """ : Header ,
255 : T ,0123456789 : tag
    , ""x y""
: MetaDataX ,} ,}")).
Eval vm_compute in ("<<<M769>>>" ++ check (runes_of_ascii "packet// packet A { u8 x, }
MetaDataX{ zchar[ 00
] // `tick` ""quote"" 'q'
_x `" ++ [233]%N ++ runes_of_ascii "`	, @lengthOf(
T )  uint32
    asx @lengthOf(
x ) ,
float32 tag @lengthOf( Z9_), match uint8x
as options1 {
""" ++ [28040; 24687]%N ++ runes_of_ascii """ // " ++ [27880; 37322]%N ++ runes_of_ascii "
:
    len , 4294967296 :
As , [  0
, """ ++ [233]%N ++ runes_of_ascii "t" ++ [233]%N ++ runes_of_ascii """  ,00
,""" ++ [233]%N ++ runes_of_ascii "t" ++ [233]%N ++ runes_of_ascii """ , ""\n""  ,
0 , 0123456789
    //
    ] :
int } , zchar[
007 ]
    rootA @lengthOf( asx ) ,char[] Packet@calculatedFrom( ""it's"" ) ,
@lengthOf(
x )
    @tag( 3 )
@tag(7 )
    repeat zchar[//
007 ]
    As// " ++ [27880; 37322]%N ++ runes_of_ascii "
`" ++ [28040; 24687; 31867; 22411]%N ++ runes_of_ascii "` , @lengthOf(
packetx  ) Pad
    // @lengthOf(
    ,}
")).
Eval vm_compute in ("<<<M3879>>>" ++ check (runes_of_ascii "root packet a1 {
    int16 u8x,
    match pack as i8i8 {
        ""packet"" : i64_,
        [
            1, 7, 007, 0123456789, 0,
            """ ++ [233]%N ++ runes_of_ascii "t" ++ [233]%N ++ runes_of_ascii """
        ] : chars,
        [
            7, 007, 0, ""a\\"", ""a\""b"",
            ""// no comment""
        ] : A,
    },
    int64 metadata,
    @lengthOf(roots)
    len,
    repeat As `it's`,//	t
    repeat calculatedFrom {
        repeat options1 stringy,
        calculatedFrom matchKey `" ++ [28040; 24687; 31867; 22411]%N ++ runes_of_ascii "`,
        float32 options1 @lengthOf(float),
    },
}")).
Eval vm_compute in ("<<<M3844>>>" ++ check (runes_of_ascii "
root	packet  roots 
{

i8i8 @calculatedFrom( ""abc""	)
    , repeat
    uint32

matchKey`doc` ,

char[	255 ] 
A
    @lengthOf( 
calculatedFrom)
	`{ , }` 	 // c

, crc 	 //x
    { 
A

    Header  `
`
,char[]	o
    ,
    repeat  zchar[  1	] 	 //x
body	`" ++ [233]%N ++ runes_of_ascii "`	, 	 //	t
	}, int8
u ,

    match
packetx

    as  u { [ 	 /// triple
      0 
        // a // b
  ,""`tick`""
]

:Packet	//
    , 
""\" ++ [233]%N ++ runes_of_ascii """ 

/// triple
		:

Packet, 
[ 
4294967296
    ] 
: 
matchKey
,}	,

    } ")).
Eval vm_compute in ("<<<M427>>>" ++ check (runes_of_ascii "packet asx{
    //	t
    repeat
float64
    uint8x //
,}	packet u128 // packet A { u8 x, }
{ BodyLength , match
BodyLength as
    metadata {0123456789 : calculatedFrom [
10, ""packet""
,
// @lengthOf(
// @lengthOf(
""// no comment"" , ""CRC32"" ,
    // `tick` ""quote"" 'q'
    """ ++ [128512]%N ++ runes_of_ascii """ , 10,
""\n"" ] : BodyLength , 42 // " ++ [27880; 37322]%N ++ runes_of_ascii "
:crc
,
""packet""
// `tick` ""quote"" 'q'
// " ++ [27880; 37322]%N ++ runes_of_ascii "
: x_y_z
// a // b
// " ++ [128512]%N ++ runes_of_ascii " emoji
,	[ 3 ,  ""x y""// a // b
,""packet"" , 3 ,
    ""1"" ]: asx , }
,}
")).
Eval vm_compute in ("<<<M3752>>>" ++ check (runes_of_ascii "packet calculatedFrom {
    @lengthOf(crc)
    string a1 `say ""hi""`,
    repeat int64 float `" ++ [28040; 24687; 31867; 22411]%N ++ runes_of_ascii "`,
    @calculatedFrom(""`tick`"")
    BodyLength @calculatedFrom(""packet""),
    char[65535] pack,
}

packet Logon {
    u falsey,
    repeat i8i8,
    calculatedFrom @calculatedFrom(""" ++ [28040; 24687]%N ++ runes_of_ascii """),
    // c
    repeat A As,
}

MetaData uint8x {
    matchKey T `" ++ [233]%N ++ runes_of_ascii "`,
    o T,
    char[00] int `crlf
    line`,
    char[3] pack,
    len a1 `say ""hi""`,
}")).
Eval vm_compute in ("<<<M770>>>" ++ check (runes_of_ascii "
packet
T //x
{ matchKey Header
,
//
/// triple
zchar[
3 ]
a1,
// packet A { u8 x, }
// trailing space 
} MetaData
matchKey
{
    // " ++ [27880; 37322]%N ++ runes_of_ascii "
    f64 f32a`two words`
, zchar[
    255
    ] Logon
// `tick` ""quote"" 'q'
// packet A { u8 x, }
`{ , }` , zchar[ // `tick` ""quote"" 'q'
1 ] calculatedFrom , msg_type
// `tick` ""quote"" 'q'
// a // b
MetaDataX
`{ , }` //x
, a1 lengthOf `say ""hi""` ,
    }root
    packet pack{x	int , }
")).
Eval vm_compute in ("<<<M762>>>" ++ check (runes_of_ascii "options {} packet u {u @lengthOf( // @lengthOf(
crc ),  @tag( 65535
) T @calculatedFrom(
""// no comment"" ) , // packet A { u8 x, }
pack MetaDataX
,	repeat float , @lengthOf( chars
)//	t
char[] charz	,
    match // packet A { u8 x, }
T	as Z9_{//
7 :
    asx }
,zchar[ 65535 ] a1 @lengthOf( T	)
    ,	match A as tag
{ ""x y"" :
repeatCount 0
:
u8x ,
[ ""a	b"" ] :matchKey ,
    42: repeatCount , } , }
")).
Eval vm_compute in ("<<<M986>>>" ++ check (runes_of_ascii "//
packet asx { // c
match rootA
    as
u8x
    {
0123456789 :  As, } , @lengthOf(zchar ) i32 Z9_
    @calculatedFrom(
""`tick`""// packet A { u8 x, }
)	, repeat
string_ //x
{  repeat zchar[00] Logon `a\`, u16 packetx `` , } , _x ,repeat
string
    msg_type ,
u64 chars @lengthOf( chars)
    , asx falsey
    `tab	here` /// triple
,i32 u,
//
// trailing space 
} MetaData charz {
}")).
Eval vm_compute in ("<<<M203>>>" ++ check (runes_of_ascii "/// triple
packet Logon
{ char[
1
    ] T // packet A { u8 x, }
,repeat f32a{ repeat
    options1 , //x
zchar[ 007
    ]Z9_
    ,  u64 packetx, // @lengthOf(
charz  ,
} ,crc  Packet ,
@lengthOf( charz //x
) @leftPad (
    ' ' ) float64 i8i8`{ , }`
//	t
//x
, }
MetaData // a // b
a1  {
    u8 len  `say ""hi""` ,
len Logon //x
`` ,char[] pack
,
    char
    body, }
")).
Eval vm_compute in ("<<<M4152>>>" ++ check (runes_of_ascii "
packet

    As
    {
@leftPad ( )

@leftPad(	' '

    )	char[] zchar , A
string_`" ++ [233]%N ++ runes_of_ascii "`	,  a1 {
	Z9_
	@lengthOf(repeatCount  )
,
    u128

    { 
zchar[

4294967296 ]
	crc 

    //x
  //
	@calculatedFrom(	""packet"" )
    , 
repeat char 
x_y_z  ,	}  ,
u8
Logon	@calculatedFrom(

""" ++ [233]%N ++ runes_of_ascii "t" ++ [233]%N ++ runes_of_ascii """ )

    ,
    } 
, 
}

    packet	u 
{
    } 	 // " ++ [128512]%N ++ runes_of_ascii " emoji
 
")).
Eval vm_compute in ("<<<M4376>>>" ++ check (runes_of_ascii "options {
    BodyLength = ""{,}""
    tag = ""// no comment"";
}

options {
    charz = '\x00';// a // b
    repeatCount = 255;
    _x = """ ++ [128512]%N ++ runes_of_ascii """;
    Foo = '0'
    a1 = '0'
}

root packet falsey {
    i64 packetx @lengthOf(Header) `" ++ [28040; 24687; 31867; 22411]%N ++ runes_of_ascii "`,
    len @lengthOf(roots) `a\`,
    zchar @lengthOf(MetaDataX) `line1
        line2`,
}// packet A { u8 x, }")).
Eval vm_compute in ("<<<M52>>>" ++ check (runes_of_ascii "// `tick` ""quote"" 'q'
root packet u128{Z9_ { match trueish // c
as rootA { [	""abc"" , ""{,}""
,// c
0 ]
: MetaDataX [
""a\""b""
]
: tag ,
""CRC32"" :
//	t
/// triple
options1 ,
    [
    """ ++ [28040; 24687]%N ++ runes_of_ascii """,
""a\\"" ] :
lengthOf
    , ""a\""b""
: chars ,
    } , }
,
    @rightPad( '0'	) @calculatedFrom( ""CRC32"" ) char[00 ] packetx,
} // a // b")).
Eval vm_compute in ("<<<M449>>>" ++ check (runes_of_ascii "//x
packet int {	repeat options1 falsey , @lengthOf( // " ++ [128512]%N ++ runes_of_ascii " emoji
roots)	f32
    Header @lengthOf(leftPad
) ,repeat crc uint8x , falsey {
    _x	body `
` , repeat
Packet	Foo
    , uint64
As @calculatedFrom( ""1""
) `
`
,
    repeat Header,
    } , char[
7	]
    /// triple
    Logon @calculatedFrom( ""a\\"" )	, }
")).
Eval vm_compute in ("<<<M3286>>>" ++ check (runes_of_ascii "// top
packet // c0
u128 // c1
{ // c2
@lengthOf( // c3
body // c4
) // c5
match // c6
x_y_z // c7
as // c8
u // c9
{ // c10
""x y"" // c11
: // c12
i8i8 // c13
, // c14
} // c15
, // c16
@tag( // c17
255 // c18
) // c19
char[] // c20
roots // c21
@lengthOf( // c22
int // c23
) // c24
, // c25
} // c26
")).
Eval vm_compute in ("<<<M1500>>>" ++ check (runes_of_ascii "root packet Foo // " ++ [128512]%N ++ runes_of_ascii " emoji
{ } options {
    // a // b
    tag // `tick` ""quote"" 'q'
= //	t
""""
    ; u8x = zchar[0  ] }
MetaData
    int int {zchar[ 10]
lengthOf	`` , i64 u8x`// not a comment` ,MetaDataX pack// `tick` ""quote"" 'q'
`crlf
line`
, Logon charz `crlf
line`
    ,
    // a // b
    }
")).
Eval vm_compute in ("<<<M1480>>>" ++ check (runes_of_ascii "root packet Foo // " ++ [128512]%N ++ runes_of_ascii " emoji
{ } options {
    // a // b
    tag // `tick` ""quote"" 'q'
= //	t
""""
    ; u8x = zchar[0 0  ] }
MetaData
    int {zchar[ 10]
lengthOf	`` , i64 u8x`// not a comment` ,MetaDataX pack// `tick` ""quote"" 'q'
`crlf
line`
, Logon charz `crlf
line`
    ,
    // a // b
    }
")).
Eval vm_compute in ("<<<M1412>>>" ++ check (runes_of_ascii "packet root Foo // " ++ [128512]%N ++ runes_of_ascii " emoji
{ } options {
    // a // b
    tag // `tick` ""quote"" 'q'
= //	t
""""
    ; u8x = zchar[0  ] }
MetaData
    int {zchar[ 10]
lengthOf	`` , i64 u8x`// not a comment` ,MetaDataX pack// `tick` ""quote"" 'q'
`crlf
line`
, Logon charz `crlf
line`
    ,
    // a // b
    }
")).
Eval vm_compute in ("<<<M1571>>>" ++ check (runes_of_ascii "root packet Foo // " ++ [128512]%N ++ runes_of_ascii " emoji
{ } options {
    // a // b
    tag // `tick` ""quote"" 'q'
= //	t
""""
    ; u8x = zchar[0  ] }
MetaData
    int {zchar[ 10]
lengthOf	`` , i64 u8x`// not a comment` ,MetaDataX pack// `tick` ""quote"" 'q'
,
`crlf
line` Logon charz `crlf
line`
    ,
    // a // b
    }
")).
Eval vm_compute in ("<<<M1454>>>" ++ check (runes_of_ascii "root packet Foo // " ++ [128512]%N ++ runes_of_ascii " emoji
{ } options {
    // a // b
    tag // `tick` ""quote"" 'q'
= //	t

    ; u8x = zchar[0  ] }
MetaData
    int {zchar[ 10]
lengthOf	`` , i64 u8x`// not a comment` ,MetaDataX pack// `tick` ""quote"" 'q'
`crlf
line`
, Logon charz `crlf
line`
    ,
    // a // b
    }
")).
Eval vm_compute in ("<<<M1509>>>" ++ check (runes_of_ascii "root packet Foo // " ++ [128512]%N ++ runes_of_ascii " emoji
{ } options {
    // a // b
    tag // `tick` ""quote"" 'q'
= //	t
""""
    ; u8x = zchar[0  ] }
MetaData
    int { 10]
lengthOf	`` , i64 u8x`// not a comment` ,MetaDataX pack// `tick` ""quote"" 'q'
`crlf
line`
, Logon charz `crlf
line`
    ,
    // a // b
    }
")).
Eval vm_compute in ("<<<M3553>>>" ++ check (runes_of_ascii "
options {

LittleEndian
    = true;}packet

    Logon
	{ 
u8 x ,  string
    user,
} packet	Logout
{
    u16 reason
,
}packet
    Empty
{
}
	root
packet Frame  {
	u16
	MsgType  , @lengthOf( Body
    )
	u8 
BodyLen,	u8
flags
, 
Logon

    Body , u32 trailer ,

    }")).
Eval vm_compute in ("<<<M3497>>>" ++ check (runes_of_ascii "  packet 
P1{

    u8

a 
,}	packet
P2 {
    P1	,} packet
P3 {
P2
,
P1	,}  packet
    P4

    {
repeat P3
,	P2 ,}
root	packet P5

{ 
P4,

    P3

,P1 ,	u8  K

    ,
    match  K	as  Body	{

4 :	P4

,	3
:P3

    , 
2 : P2

,
    1
:

P1 ,

    } ,} ")).
Eval vm_compute in ("<<<M106>>>" ++ check (runes_of_ascii "// " ++ [27880; 37322]%N ++ runes_of_ascii "
options //x
{ msg_type
//x
//	t
= '0'} packet _x { // `tick` ""quote"" 'q'
@tag( 00  ) @tag(1)	char[] a1
,
// packet A { u8 x, }
/// triple
} packet float
//	t
// " ++ [128512]%N ++ runes_of_ascii " emoji
{ }
//	t
// packet A { u8 x, }
MetaData
    // `tick` ""quote"" 'q'
    Foo {
}")).
Eval vm_compute in ("<<<M1335>>>" ++ check (runes_of_ascii "root
    packet BodyLength
{// " ++ [128512]%N ++ runes_of_ascii " emoji
@leftPad ('\x00' //
) zchar[ 4294967296] zchar , int64 x_y_z , @lengthOf( f32a )
    // `tick` ""quote"" 'q'
    @calculatedFrom(
""abc"" ) @lengthOf(
    calculatedFrom )  char[ 0]tag
, falsey , } // a // b")).
Eval vm_compute in ("<<<M4080>>>" ++ check (runes_of_ascii "root packet len {
    @rightPad('0')
    T {
        /// triple
        // c
        match charz as crc {
            3 : BodyLength,
            42 : stringy,
            ""a\\"" : options1,
            // c
        },
    },
}// a // b")).
Eval vm_compute in ("<<<M4272>>>" ++ check (runes_of_ascii "options {
    falsey = ""a	b"";
    leftPad = '0';
    o = float64
}

packet x {
    match f32a as uint8x {
        [
            255, 7, 42, 7, 255,
            0, ""abc"", ""1""
        ] : matchKey,
    },
}// packet A { u8 x, }")).
Eval vm_compute in ("<<<M2293>>>" ++ check (runes_of_ascii "MetaData Packet { }packet	asx  { @lengthOf( asx) falsey`crlf
line`
,
    }
    packet x	string uint32// @lengthOf(
rootA	,u32 options1 `say ""hi""` , @tag( 7
    )// packet A { u8 x, }
msg_type @lengthOf(
stringy	)	, }

")).
Eval vm_compute in ("<<<M2271>>>" ++ check (runes_of_ascii "MetaData Packet { }packet	asx  { @lengthOf( asx) falsey`crlf
line`
, ,
    }
    packet x	{uint32// @lengthOf(
rootA	,u32 options1 `say ""hi""` , @tag( 7
    )// packet A { u8 x, }
msg_type @lengthOf(
stringy	)	, }

")).
Eval vm_compute in ("<<<M2391>>>" ++ check (runes_of_ascii "MetaData Packet { }packet	asx  { @lengthOf( asx) falsey`crlf
line`
,
    }
    packet x	{|uint32// @lengthOf(
rootA	,u32 options1 `say ""hi""` , @tag( 7
    )// packet A { u8 x, }
msg_type @lengthOf(
stringy	)	, }

")).
Eval vm_compute in ("<<<M2362>>>" ++ check (runes_of_ascii "MetaData Packet { }packet	asx  { @lengthOf( asx) falsey`crlf
line`
,
    }
    packet x	{uint32// @lengthOf(
rootA	,u32 options1 `say ""hi""` , @tag( 7
    )// packet A { u8 x, }
msg_type @lengthOf(
stringy	,	) }

")).
Eval vm_compute in ("<<<M2235>>>" ++ check (runes_of_ascii "MetaData Packet { }packet	  { @lengthOf( asx) falsey`crlf
line`
,
    }
    packet x	{uint32// @lengthOf(
rootA	,u32 options1 `say ""hi""` , @tag( 7
    )// packet A { u8 x, }
msg_type @lengthOf(
stringy	)	, }

")).
Eval vm_compute in ("<<<M917>>>" ++ check (runes_of_ascii "options { uint8x = ""\n"" ;
// " ++ [128512]%N ++ runes_of_ascii " emoji
// packet A { u8 x, }
}packet
    //
    repeatCount {
roots
len ,
@lengthOf( f32a )
    // `tick` ""quote"" 'q'
    o `say ""hi""` ,
    }//	t
options //x
{ a1 = u32 ; }
")).
Eval vm_compute in ("<<<M2265>>>" ++ check (runes_of_ascii "MetaData Packet { }packet	asx  { @lengthOf( asx) falsey
,
    }
    packet x	{uint32// @lengthOf(
rootA	,u32 options1 `say ""hi""` , @tag( 7
    )// packet A { u8 x, }
msg_type @lengthOf(
stringy	)	, }

")).
Eval vm_compute in ("<<<M4442>>>" ++ check (runes_of_ascii "root packet BodyLength {
    @rightPad(' ')
    f32 _x @lengthOf(Header) `" ++ [28040; 24687; 31867; 22411]%N ++ runes_of_ascii "`,
    @lengthOf(crc)
    @tag(007)
    char[] a1,
}

packet metadata {
    Foo @calculatedFrom(""\n""),
    char _x,
}")).
Eval vm_compute in ("<<<M3953>>>" ++ check (runes_of_ascii "// " ++ [128512]%N ++ runes_of_ascii " emoji
MetaData Foo {
}

MetaData x {
}

MetaData zchar {
    options1 f32a,
    int32 stringy,
    string msg_type `
    `,
    string T,
    a1 trueish `{ , }`,
    f32 BodyLength,
}")).
Eval vm_compute in ("<<<M1337>>>" ++ check (runes_of_ascii "MetaData options1
    { packetx x`
`, //	t
}
    options{
    x_y_z =true options1
    = char[]// trailing space 
;
    body =
65535/// triple
lengthOf =	""it's"" ;
x = '\x00'
}
")).
Eval vm_compute in ("<<<M3793>>>" ++ check (runes_of_ascii "root packet	BodyLength  {  }	// `tick` ""quote"" 'q'
    root 
    // `tick` ""quote"" 'q'
  	packet
    f32a 	 // c
	{
	@leftPad ('0'
    ) 
    //

int8

    Z9_
,  }
")).
Eval vm_compute in ("<<<M374>>>" ++ check (runes_of_ascii "
packet
// " ++ [27880; 37322]%N ++ runes_of_ascii "
// c
MetaDataX
{ repeat repeatCount i64_ , T `crlf
line`,	}packet As
    {
    @tag( 10
) @lengthOf(
    u8x
//
// @lengthOf(
) zchar[ 7 ] Foo , }
")).
Eval vm_compute in ("<<<M3600>>>" ++ check (runes_of_ascii "
root packet/// trip" ++ [65279]%N ++ runes_of_ascii "le

rootA {i32
    MetaDataX @calculatedFrom(
	""CRC32"" )  `line1
line2`
,

}
MetaData
BodyLength

    {
u8 
rootA

    ,	}  // c
 
")).
Eval vm_compute in ("<<<M3476>>>" ++ check (runes_of_ascii "packet
A

{ u8

    a
    ,

}
	packet
B
{
u16 b
,
    }
    root
packet P{
u8
K  ,match K	as M
	{
[ 1 ,
	2
] : A , 3	: B , 
7 
:	A, 
} , }
")).
Eval vm_compute in ("<<<M2378>>>" ++ check (runes_of_ascii "MetaData Packet { }packet	asx  { @lengthOf( asx) falsey`crlf
line`
,
    }
    packet x	{uint32// @lengthOf(
rootA	,u32 options1 `say ""hi""` , ")).
Eval vm_compute in ("<<<M778>>>" ++ check (runes_of_ascii "root
    packet leftPad
{ @tag( 65535) tag
Pad, char[] o
    @lengthOf( float) , }packet
//
//	t
A {char[] T @lengthOf(
    packetx ),  }
")).
Eval vm_compute in ("<<<M1727>>>" ++ check (runes_of_ascii "root packet /// triple
rootA {	i32
MetaDataX@calculatedFrom( ""CRC32"" ) `line1
line2` , } MetaData BodyLength {
u8
'\x01' rootA, } // c")).
Eval vm_compute in ("<<<M3909>>>" ++ check (runes_of_ascii "packet Pad {
}

packet len {
    string u128,
}

root packet o {
    @tag(7)
    char[] msg_type @calculatedFrom(""// no comment""),
}")).
Eval vm_compute in ("<<<M3708>>>" ++ check (runes_of_ascii "options {
    // c
    stringy = ""1"";
    float = i64;// a // b
    calculatedFrom = ""it's"";// c
    Z9_ = ""// no comment"";// " ++ [27880; 37322]%N ++ runes_of_ascii "
}")).
Eval vm_compute in ("<<<M1709>>>" ++ check (runes_of_ascii "root packet /// triple
rootA {	i32
MetaDataX@calculatedFrom( ""CRC32"" ) `line1
line2` , } MetaData BodyLength {
u8
rootA} , // c")).
Eval vm_compute in ("<<<M3817>>>" ++ check (runes_of_ascii "root packet Foo {
    //x
    char[] body `crlf
        line`,// " ++ [128512]%N ++ runes_of_ascii " emoji
}

options {
    _x = false
}

packet BodyLength {
}")).
Eval vm_compute in ("<<<M515>>>" ++ check (runes_of_ascii "  MetaData//
Foo
    // `tick` ""quote"" 'q'
    {char[ 65535
    ] crc `" ++ [233]%N ++ runes_of_ascii "`	, repeatCount lengthOf
,roots msg_type `it's` , }")).
Eval vm_compute in ("<<<M1851>>>" ++ check (runes_of_ascii "packet
    Pad // a // b
{ i8i8 @calculatedFrom( ""a	b"") `u8 x,` ,
} options{ float// " ++ [128512]%N ++ runes_of_ascii " emoji
= f64 f64 i64_
=//	t
00 }
")).
Eval vm_compute in ("<<<M1871>>>" ++ check (runes_of_ascii "packet
    Pad // a // b
{ i8i8 @calculatedFrom( ""a	b"") `u8 x,` ,
} options{ float// " ++ [128512]%N ++ runes_of_ascii " emoji
= f64 i64_
=//	t
00 } }
")).
Eval vm_compute in ("<<<M792>>>" ++ check (runes_of_ascii "packet i8i8 { @tag(00)@lengthOf( // @lengthOf(
chars ) @leftPad ( '\x00' ) A
@calculatedFrom(	""it's"" )	`{ , }` ,	}
")).
Eval vm_compute in ("<<<M1820>>>" ++ check (runes_of_ascii "packet
    Pad // a // b
{ i8i8 @calculatedFrom( ""a	b"") `u8 x,` 
} options{ float// " ++ [128512]%N ++ runes_of_ascii " emoji
= f64 i64_
=//	t
00 }
")).
Eval vm_compute in ("<<<M1038>>>" ++ check (runes_of_ascii "
packet BodyLength { @tag(3	) int16
    BodyLength , zchar[
1
]
    body @calculatedFrom( ""`tick`""
)
    , }
")).
Eval vm_compute in ("<<<M574>>>" ++ check (runes_of_ascii "options
{ x_y_z = /// triple
i32 ; } MetaData
_x
{
    //x
    chars Foo // `tick` ""quote"" 'q'
,i32 Header ,}
")).
Eval vm_compute in ("<<<M3688>>>" ++ check (runes_of_ascii "packet Logon {
    @tag(42)
    @rightPad(' ')
    @leftPad()
    repeat trueish {
        string T,
    },
}")).
Eval vm_compute in ("<<<M3599>>>" ++ check (runes_of_ascii "
packet 
A{	match

    k

    as
n {  [ ""a"" 
,
22
    ,
    ""c c""
,	4]
    : B 2 :
C

    }

,}
")).
Eval vm_compute in ("<<<M3342>>>" ++ check (runes_of_ascii "packet calculatedFrom
// c
{ @tag( 4294967296 ) u msg_type , char[ 3 ] crc @lengthOf( len ) `u8 x,` , }")).
Eval vm_compute in ("<<<M3374>>>" ++ check (runes_of_ascii "packet calculatedFrom { @tag( 4294967296 ) u msg_type , char[ 3 ] crc @lengthOf( len ) `u8 x,` ,
// c
}")).
Eval vm_compute in ("<<<M1859>>>" ++ check (runes_of_ascii "packet
    Pad // a // b
{ i8i8 @calculatedFrom( ""a	b"") `u8 x,` ,
} options{ float// " ++ [128512]%N ++ runes_of_ascii " emoji
= f64")).
Eval vm_compute in ("<<<M1718>>>" ++ check (runes_of_ascii "root packet /// triple
rootA {	i32
MetaDataX@calculatedFrom( ""CRC32"" ) `line1
line2` , } MetaDa")).
Eval vm_compute in ("<<<M3224>>>" ++ check (runes_of_ascii "packet Logon { @tag( 42 // c
) @rightPad ( ' ' ) @leftPad ( ) repeat trueish { string T , } , }")).
Eval vm_compute in ("<<<M3256>>>" ++ check (runes_of_ascii "packet Logon { @tag( 42 ) @rightPad ( ' ' ) @leftPad ( ) repeat trueish { string T , } , // c
}")).
Eval vm_compute in ("<<<M2926>>>" ++ check (runes_of_ascii "packet A {
  match k as n {
    [""a"", ""bb"", ""c c"", ""d"", ""e"", ""f"", ""g""] : B,
    2 : C
  },
}")).
Eval vm_compute in ("<<<M1686>>>" ++ check (runes_of_ascii "root packet /// triple
rootA {	i32
MetaDataX@calculatedFrom( ""CRC32"" ) `line1
line2` , }")).
Eval vm_compute in ("<<<M2022>>>" ++ check (runes_of_ascii "root
packet crc
    { f32a @calculatedFrom( """ ++ [233]%N ++ runes_of_ascii "t" ++ [233]%N ++ runes_of_ascii """ )
    `say ""hi""`, lengthOf `` ,  } }")).
Eval vm_compute in ("<<<M1964>>>" ++ check (runes_of_ascii "root
crc packet
    { f32a @calculatedFrom( """ ++ [233]%N ++ runes_of_ascii "t" ++ [233]%N ++ runes_of_ascii """ )
    `say ""hi""`, lengthOf `` ,  }")).
Eval vm_compute in ("<<<M2928>>>" ++ check (runes_of_ascii "packet A {
  match k as n {
    [1, ""bb"", 007, ""d"", 5, ""f"", 7] : B,
    2 : C
  },
}")).
Eval vm_compute in ("<<<M331>>>" ++ check (runes_of_ascii "MetaData
// a // b
//	t
rootA { } options //
{ tag // `tick` ""quote"" 'q'
=
3; }
")).
Eval vm_compute in ("<<<M3315>>>" ++ check (runes_of_ascii "packet o { @tag( 42 ) repeat x { char[ 0123456789
// c
] i64_ , } , } options { }")).
Eval vm_compute in ("<<<M3448>>>" ++ check (runes_of_ascii "options {
    FixedStringPadFromLeft = true;
}
root packet P {
    char[4] z,
}
")).
Eval vm_compute in ("<<<M1844>>>" ++ check (runes_of_ascii "packet
    Pad // a // b
{ i8i8 @calculatedFrom( ""a	b"") `u8 x,` ,
} options{")).
Eval vm_compute in ("<<<M3891>>>" ++ check (runes_of_ascii "packet A {
    B b `a
    b`,
    B `a
    b`,
    repeat B bs `a
    b`,
}")).
Eval vm_compute in ("<<<M1911>>>" ++ check (runes_of_ascii "
packet	As { @calculatedFrom( @calculatedFrom(//x
""{,}""	)lengthOf , } 	 ")).
Eval vm_compute in ("<<<M2208>>>" ++ check (runes_of_ascii "root
    // `tick` ""quote"" 'q'
@tag    packet As { trueish Packet , }
")).
Eval vm_compute in ("<<<M1903>>>" ++ check (runes_of_ascii "
packet	@calculatedFrom( { @calculatedFrom(//x
""{,}""	)lengthOf , } 	 ")).
Eval vm_compute in ("<<<M2876>>>" ++ check (runes_of_ascii "packet A {
  match k as n {
    [1, ""bb"", 007] : B,
    2 : C
  },
}")).
Eval vm_compute in ("<<<M2163>>>" ++ check (runes_of_ascii "root
    // `tick` ""quote"" 'q'
    packet { As trueish Packet , }
")).
Eval vm_compute in ("<<<M725>>>" ++ check (runes_of_ascii "MetaData options1
{ zchar[  007 ]u
,x_y_z f32a
    `u8 x,` , }
")).
Eval vm_compute in ("<<<M1750>>>" ++ check (runes_of_ascii "options { `// not a comment`options {  } // `tick` ""quote"" 'q'")).
Eval vm_compute in ("<<<M2157>>>" ++ check (runes_of_ascii "root
    // `tick` ""quote"" 'q'
     As { trueish Packet , }
")).
Eval vm_compute in ("<<<M2603>>>" ++ check (runes_of_ascii "packet A { match k as n { 1 : B 2 : C ""s"" : D [1] : E }, }")).
Eval vm_compute in ("<<<M466>>>" ++ check (runes_of_ascii "options
{ string_=
7 tag = string;
roots
=true  ; } 	 ")).
Eval vm_compute in ("<<<M3881>>>" ++ check (runes_of_ascii "MetaData u8x {
    uint32 metadata `line1
    line2`,
}")).
Eval vm_compute in ("<<<M2000>>>" ++ check (runes_of_ascii "root
packet crc
    { f32a @calculatedFrom( """ ++ [233]%N ++ runes_of_ascii "t" ++ [233]%N ++ runes_of_ascii """ )")).
Eval vm_compute in ("<<<M2406>>>" ++ check (runes_of_ascii "MetaData A
{
i64
options	, } // `tick` ""quote"" 'q'")).
Eval vm_compute in ("<<<M503>>>" ++ check (runes_of_ascii "options{Foo
    =
    int8 ; As =
    007 } //	t")).
Eval vm_compute in ("<<<M2102>>>" ++ check (runes_of_ascii "MetaData MetaData x
{// " ++ [128512]%N ++ runes_of_ascii " emoji
i16 stringy , }")).
Eval vm_compute in ("<<<M735>>>" ++ check (runes_of_ascii "
options
{ stringy =' ' /// triple
;
    } 	 ")).
Eval vm_compute in ("<<<M4250>>>" ++ check (runes_of_ascii "packet A {
    u8 x `a
        b
      c`,
}")).
Eval vm_compute in ("<<<M2108>>>" ++ check (runes_of_ascii "MetaData @tag(
{// " ++ [128512]%N ++ runes_of_ascii " emoji
i16 stringy , }")).
Eval vm_compute in ("<<<M4106>>>" ++ check (runes_of_ascii "
packet
A

    {

    } 
    // c x
")).
Eval vm_compute in ("<<<M3193>>>" ++ check (runes_of_ascii "MetaData zchar
// c
{ zchar[ 3 ] Pad , }")).
Eval vm_compute in ("<<<M2606>>>" ++ check (runes_of_ascii "packet A { match k as n { [1,] : B }, }")).
Eval vm_compute in ("<<<M3863>>>" ++ check (runes_of_ascii "root packet A {
    u8 x `a
    b`,
}")).
Eval vm_compute in ("<<<M2194>>>" ++ check (runes_of_ascii "root
    // `tick` ""quote"" 'q'
    p")).
Eval vm_compute in ("<<<M4164>>>" ++ check (runes_of_ascii "

  options  { zchar =	false  ;
	}
")).
Eval vm_compute in ("<<<M3007>>>" ++ check (runes_of_ascii "root packet A {
    u8 x `a
b`,
}")).
Eval vm_compute in ("<<<M661>>>" ++ check (runes_of_ascii "options  { metadata=""packet""	}
")).
Eval vm_compute in ("<<<M3083>>>" ++ check (runes_of_ascii "packet A {
 u8 x `d" ++ [5760]%N ++ runes_of_ascii "`, // c" ++ [5760]%N ++ runes_of_ascii "
}")).
Eval vm_compute in ("<<<M4141>>>" ++ check (runes_of_ascii "packet BodyLength {

    } ")).
Eval vm_compute in ("<<<M2588>>>" ++ check (runes_of_ascii "packet A { x @lengthOf(), }")).
Eval vm_compute in ("<<<M2575>>>" ++ check (runes_of_ascii "packet A { u8 x `d` `e`, }")).
Eval vm_compute in ("<<<M2782>>>" ++ check ([65533]%N ++ runes_of_ascii "`js" ++ [65533; 18; 65533; 65533; 0]%N ++ runes_of_ascii "}P" ++ [65533; 31; 1653]%N ++ runes_of_ascii "m" ++ [65533; 65533; 65533; 65533]%N ++ runes_of_ascii "E,T" ++ [65533]%N ++ runes_of_ascii "b" ++ [65533]%N)).
Eval vm_compute in ("<<<M3269>>>" ++ check (runes_of_ascii "// c
options { u8x = 3 }")).
Eval vm_compute in ("<<<M2666>>>" ++ check (runes_of_ascii "options { packet = 1; }")).
Eval vm_compute in ("<<<M3809>>>" ++ check (runes_of_ascii "// c" ++ [8239]%N ++ runes_of_ascii "

	packet A{  }

")).
Eval vm_compute in ("<<<M218>>>" ++ check (runes_of_ascii "
packet len
    { }")).
Eval vm_compute in ("<<<M2629>>>" ++ check (runes_of_ascii "packet A { } packet")).
Eval vm_compute in ("<<<M2801>>>" ++ check (runes_of_ascii "{ float32 : repeat")).
Eval vm_compute in ("<<<M3136>>>" ++ check (runes_of_ascii "packet A {
}
// c" ++ [65279]%N)).
Eval vm_compute in ("<<<M3074>>>" ++ check (runes_of_ascii "packet A {
}// c" ++ [133]%N)).
Eval vm_compute in ("<<<M126>>>" ++ check (runes_of_ascii "packet	float{ }")).
Eval vm_compute in ("<<<M2798>>>" ++ check (runes_of_ascii "/" ++ [65533]%N ++ runes_of_ascii "FS" ++ [65533]%N ++ runes_of_ascii "A" ++ [65533; 65533; 65533]%N ++ runes_of_ascii "q" ++ [65533; 65533; 65533]%N ++ runes_of_ascii "%")).
Eval vm_compute in ("<<<M1423>>>" ++ check (runes_of_ascii "root packet")).
Eval vm_compute in ("<<<M4319>>>" ++ check (runes_of_ascii "
// c" ++ [133]%N ++ runes_of_ascii "
")).
Eval vm_compute in ("<<<M2740>>>" ++ check (runes_of_ascii "6g/cniK")).
Eval vm_compute in ("<<<M2425>>>" ++ check (runes_of_ascii "char[")).
Eval vm_compute in ("<<<M3100>>>" ++ check (runes_of_ascii "// c" ++ [8233]%N)).
Eval vm_compute in ("<<<M2544>>>" ++ check (runes_of_ascii "a
b")).
Eval vm_compute in ("<<<M2548>>>" ++ check (runes_of_ascii "a" ++ [160]%N ++ runes_of_ascii "b")).
Eval vm_compute in ("<<<M4425>>>" ++ check (runes_of_ascii "  ")).
