From FP Require Import Lexer Parser ShowPT Digest Formatter.
From Coq Require Import String List NArith.
Import ListNotations.
Open Scope string_scope.
Set Printing Width 100000000.
Set Printing Depth 100000000.
Definition show_fres (r : fres) : string :=
  match r with
  | FOk s => "OK:" ++ sh_escaped s ""
  | FErr s => "ERR:" ++ sh_escaped s ""
  | FPanic p => "PANIC:" ++ p
  end.
Definition check (rs : list rune) : string := digest (show_fres (format_res rs)).
Definition full (rs : list rune) : string := show_fres (format_res rs).
Eval vm_compute in ("<<<M3657>>>" ++ check (runes_of_ascii "options {
    ArrayPrefixLenType = u16;
    FixedStringPadFromLeft = true;
    JavaPackage = ""com.example.msg"";
    GoPackage = ""msg"";
    GoModule = ""example.com/msg"";
}
MetaData Meta {
    u32 SeqNum `sequence number`,
    char[8] Symbol `symbol`,
    zchar[5] ZSym `z symbol`,
    string Note,
    Symbol AltSymbol `alias of symbol`,
    f64 Price,
}
packet Inner {
    u8 a,
    i16 b,
    string c,
}
packet Inner2 {
    u8 a2,
    char[3] c2,
}
packet Logon {
    u8 x,
    string user,
    repeat u16 codes,
}
packet Logout {
    u16 reason,
}
packet Empty {
}
root packet Msg {
    u8 su8,
    uint8 luint8,
    u16 su16,
    uint16 luint16,
    u32 su32,
    uint32 luint32,
    u64 su64,
    uint64 luint64,
    i8 si8,
    int8 lint8,
    i16 si16,
    int16 lint16,
    i32 si32,
    int32 lint32,
    i64 si64,
    int64 lint64,
    f32 sf32,
    float32 lfloat32,
    f64 sf64,
    float64 lfloat64,
    char[6] fsplain,
    @leftPad('0') char[4] fs0,
    @rightPad('0') char[5] fs1,
    @leftPad(' ') char[6] fs2,
    @rightPad(' ') char[7] fs3,
    @leftPad('\x00') char[8] fs4,
    @rightPad('\x00') char[9] fs5,
    @leftPad() char[10] fs6,
    @rightPad() char[11] fs7,
    zchar[7] fz,
    @leftPad('0') zchar[3] fzl0,
    string s1 `doc`,
    char[] s2,
    Inner,
    Sub {
        u8 q,
        string w,
        Deep {
            u16 z,
            repeat i32 zs,
        },
    },
    repeat u8 ru8,
    repeat u16 ru16,
    repeat u32 ru32,
    repeat u64 ru64,
    repeat i8 ri8,
    repeat i16 ri16,
    repeat i32 ri32,
    repeat i64 ri64,
    repeat f32 rf32,
    repeat f64 rf64,
    repeat string rstr,
    repeat char[] rstr2,
    repeat char[3] rfs,
    repeat zchar[3] rfz,
    repeat Inner2,
    repeat Grp {
        u8 k,
        char[2] v,
    },
    SeqNum,
    SeqNum seq2,
    repeat SeqNum seqs,
    Symbol,
    AltSymbol alt,
    ZSym,
    Note,
    repeat Symbol syms,
    Price px,
    u16 MsgType,
    u32 BodyLen @lengthOf(Body),
    match MsgType as Body {
        1 : Logon,
        [2, 3] : Logout,
        7 : Logon,
        9 : Empty,
    },
    u32 Checksum @calculatedFrom(""CRC32""),
}
")).
Eval vm_compute in ("<<<M4145>>>" ++ check (runes_of_ascii "
packet zchar

    /// triple
    {
    match calculatedFrom
	as
repeatCount{ [
	""{,}""]
: zchar 
,
00 :	Pad

    ,

    0
    : 
pack
, }	, 	 // @lengthOf(
		f64

    o

    `" ++ [28040; 24687; 31867; 22411]%N ++ runes_of_ascii "` ,int32 f32a
	@lengthOf(

body )//
  `
`
, 
char[
	3 
]

    chars  //	t
  `crlf
line` , }
        // @lengthOf(

	// packet A { u8 x, }

  MetaData  metadata{
string int

, len lengthOf ,	}
root  packet  A 
{ 
@tag( 0123456789
)zchar[ 
0123456789
    ] BodyLength  // " ++ [27880; 37322]%N ++ runes_of_ascii "
  	, @leftPad  (
    '0')
    @rightPad
	(' '  //
  ) zchar[
    0123456789	] tag  `it's` 
, 
@tag(007

) // trailing space 
  	@tag(
	7
)
    falsey
	@calculatedFrom(""\" ++ [233]%N ++ runes_of_ascii """//
	)
    ,
@calculatedFrom( ""{,}""	)
repeat Packet
	,
    @lengthOf(
    u  )	@calculatedFrom(""a\""b"" 
      // a // b
  // `tick` ""quote"" 'q'
    ) @lengthOf(
lengthOf)

    char[]	uint8x,  @leftPad 
(

    '\x00')  // trailing space 
	repeat T
{i8i8	a1 
,char[
65535]	chars 
`u8 x,` , Pad
	,
	}, @lengthOf(
o

)  u8
x
	, @calculatedFrom( // @lengthOf(
	""a	b""	) lengthOf  //
`// not a comment`
	, 
A

    {repeat
calculatedFrom

matchKey ,	options1 @calculatedFrom( ""a	b"" ) ,// trailing space 
    repeat	u

`line1
line2`
,

    }
,
	}

    packet	i8i8

{
	} 
packet 
pack 
{ zchar[
0123456789	]
leftPad
	`
`
    ,

@rightPad  ('\x00'
	) repeat  int `" ++ [28040; 24687; 31867; 22411]%N ++ runes_of_ascii "`, match Packet
as
BodyLength  // @lengthOf(
{

[

00  // a // b
	  , 7]	//x
:falsey } ,
@tag(	00) repeat

    zchar[

    1

]
len // a // b

  `u8 x,`,

@leftPad

    ( )rootA
    //	t
	//	t
  @lengthOf(
len ), @tag( 42 ) // `tick` ""quote"" 'q'
    @lengthOf( i64_ ) repeat

len{ x{Logon
{ options1
	Logon 
,
	}
    ,	stringy	{	string body  @lengthOf( 
tag  ) 
,}

, falsey

falsey,

    } //x

, MetaDataX roots`// not a comment`

,	}

    , 
}
")).
Eval vm_compute in ("<<<M1138>>>" ++ check (runes_of_ascii "packet T { @lengthOf(
Foo ) @tag( 10 )@lengthOf(rootA )chars `it's`,repeat
    char roots //	t
,
@tag(	0 ) match  charz as leftPad { 0 :tag
,} , Z9_ // trailing space 
u128 ,
    int32 int@calculatedFrom(  ""\n""  ) , @lengthOf( int )	Z9_
    // " ++ [27880; 37322]%N ++ runes_of_ascii "
    {
    repeat	char[] calculatedFrom`crlf
line`
,	zchar[0
    ] o @calculatedFrom( ""\" ++ [233]%N ++ runes_of_ascii """ ) ,
    u8x{_x
, // @lengthOf(
zchar[ 3 ] stringy @lengthOf( T) //	t
,
    // trailing space 
    uint8
body
    , char[]falsey
// `tick` ""quote"" 'q'
// @lengthOf(
@calculatedFrom( ""// no comment"" ) `" ++ [233]%N ++ runes_of_ascii "` , /// triple
}
, }
    , @tag(
1 )@calculatedFrom(""a\\""
    )
    // c
    @rightPad(
    '0')
    i32 tag @calculatedFrom(
    ""a\""b""
) `crlf
line` , match
    BodyLength as	f32a
    {[ 3
    ,""`tick`"" , ""`tick`"" , 007 , ""1"" , 65535// " ++ [128512]%N ++ runes_of_ascii " emoji
, //	t
1	,  0
] :
Z9_ ,
[ ""CRC32"" ,
    ""a\\""
] :
chars
,
""a\""b""
: roots , 1
: f32a
    , // " ++ [27880; 37322]%N ++ runes_of_ascii "
}
    , trueish{
//
/// triple
zchar{ match Pad
as tag {  [
0123456789 , 00
,
    7,""a	b"" , // @lengthOf(
""CRC32"" ] :
    options1 ,
    // @lengthOf(
    } , pack  { zchar[ 10
]
    chars ,}	,u `crlf
line`  , repeat // " ++ [27880; 37322]%N ++ runes_of_ascii "
int32 _x `two words` ,  } , }, // trailing space 
falsey
    As , } options {falsey // " ++ [128512]%N ++ runes_of_ascii " emoji
=
    ""abc"" ; Foo=	false ; } root
packet
A { @lengthOf(uint8x ) match u8x as
msg_type
{ [
007 , 00 ]: u128 , [	255 ,// a // b
""{,}""
    ,
    10
// " ++ [128512]%N ++ runes_of_ascii " emoji
// " ++ [27880; 37322]%N ++ runes_of_ascii "
, ""// no comment""	,""""  ,
    """ ++ [128512]%N ++ runes_of_ascii """ ] :
T ,255:string_ , ""`tick`"" :
As
},
}MetaData chars
{
char[	65535 ]
roots, i64 u128 , char[ 42]	pack // " ++ [128512]%N ++ runes_of_ascii " emoji
,} //x")).
Eval vm_compute in ("<<<M4404>>>" ++ check (runes_of_ascii "//x
  packet Header{

    body 
// " ++ [27880; 37322]%N ++ runes_of_ascii "
    // " ++ [27880; 37322]%N ++ runes_of_ascii "
@calculatedFrom(
	""CRC32"")

    `it's` 
, repeat

    int64	//x
    	msg_type // " ++ [128512]%N ++ runes_of_ascii " emoji

	,
//	t
    //
  @tag( 0)	zchar[

    0	//
  ]
    int
    //	t

// @lengthOf(

,
}
	// " ++ [128512]%N ++ runes_of_ascii " emoji
  options
    { Packet	=true

    MetaDataX
=
    """ ++ [28040; 24687]%N ++ runes_of_ascii """
A
= 
string	}
root 
packet
    Logon

{
    @leftPad// " ++ [27880; 37322]%N ++ runes_of_ascii "
		(	'0'  //x
	)
Header	//
    leftPad `doc`
,f32a  {
rootA@lengthOf(calculatedFrom  )
, int8
Packet

    `line1
line2`

,  }, 
repeat
    calculatedFrom

    { // `tick` ""quote"" 'q'

match packetx 
as len{

1 :  matchKey	,

0123456789
	: repeatCount 
,""\" ++ [233]%N ++ runes_of_ascii """
: float

    ,
255

:
MetaDataX
,} ,

    } 
,

    //x
// " ++ [27880; 37322]%N ++ runes_of_ascii "
leftPad{

repeat
roots
{  //	t
roots@calculatedFrom( 	 /// triple
""abc"" 
) , int32	BodyLength
@calculatedFrom(
""packet""

)
    , } ,match
	repeatCount
as matchKey {""abc""
:u128 ,	""" ++ [128512]%N ++ runes_of_ascii """ : a1  ,""a\\""	: rootA
,[
	3
,3 
]	// c

	:
    x_y_z 007
    :  Foo	}

    ,

    }  ,// c
		repeat
rootA	matchKey `it's`	//	t
	,a1

    @calculatedFrom( ""x y""
)	`line1
line2` , int
,	@tag( 

// trailing space 
  //x
    65535

    )
	match

    metadata as
	As	{""x y""  :Foo,//x
  [ // `tick` ""quote"" 'q'
  ""x y""
]  :
tag 
      //
// a // b
  , 
3
    :
pack 
}
,
    repeat
int8
charz

, 
char[]
	body	,
}
    options {MetaDataX=
char[ 0 ];
}	// a // b
")).
Eval vm_compute in ("<<<M1189>>>" ++ check (runes_of_ascii "// " ++ [27880; 37322]%N ++ runes_of_ascii "
packet a1
    // " ++ [27880; 37322]%N ++ runes_of_ascii "
    { @calculatedFrom( """ ++ [233]%N ++ runes_of_ascii "t" ++ [233]%N ++ runes_of_ascii """)Logon { options1
falsey `// not a comment`, Z9_@calculatedFrom( ""packet"" ), int8
    // trailing space 
    Packet  `two words`
// " ++ [128512]%N ++ runes_of_ascii " emoji
// a // b
,
}
, @tag(	007 )
    char[] chars@lengthOf( Packet ) `crlf
line` ,
    match msg_type as Header { """ ++ [28040; 24687]%N ++ runes_of_ascii """ : _x //x
}, repeat
    //
    u128  { Logon @calculatedFrom( ""it's"" ) `{ , }` , }
// " ++ [128512]%N ++ runes_of_ascii " emoji
// c
,	int64
calculatedFrom // c
, repeat zchar[
0
    ] a1 `say ""hi""`
    , match options1	as repeatCount
{[
    //x
    ""1""
, ""`tick`"" ,
//
// " ++ [128512]%N ++ runes_of_ascii " emoji
10,
""\" ++ [233]%N ++ runes_of_ascii """,0123456789 , ""a\""b"" ]
    :pack,// @lengthOf(
0123456789
    // " ++ [128512]%N ++ runes_of_ascii " emoji
    :
    // packet A { u8 x, }
    Logon
, 255 :	x } ,
@calculatedFrom( ""abc"" )@lengthOf(
// packet A { u8 x, }
// " ++ [128512]%N ++ runes_of_ascii " emoji
x )
    repeat
Pad{ u8x
{
uint8	T @lengthOf(float )  ,match Header // `tick` ""quote"" 'q'
as // a // b
trueish { ""a	b"":
    body//	t
, }
,int8 MetaDataX @calculatedFrom(
    ""a	b"") ,	i8i8
    Pad `" ++ [28040; 24687; 31867; 22411]%N ++ runes_of_ascii "`
,} , repeat i8
    //
    A , // trailing space 
}	,
    uint32
    x@lengthOf(
Logon ) /// triple
`two words`
, } packet trueish { }MetaData
    // @lengthOf(
    msg_type
    { } packet
i8i8 {  @tag( 007)
    //x
    zchar[ 10
    ] /// triple
msg_type
    , }
")).
Eval vm_compute in ("<<<M1068>>>" ++ check (runes_of_ascii "
packet Packet{
    @leftPad
// a // b
// a // b
( ' ' )
    repeat As{ repeatCount
@calculatedFrom(""" ++ [28040; 24687]%N ++ runes_of_ascii """
) ,	repeat pack { /// triple
x {match As
as uint8x  { [
    ""1""
, ""\" ++ [233]%N ++ runes_of_ascii """ , 00 ,""it's"",	""a\""b"" ,
    ""\" ++ [233]%N ++ runes_of_ascii """
] :
// " ++ [128512]%N ++ runes_of_ascii " emoji
// packet A { u8 x, }
pack[ ""a\""b"",""" ++ [233]%N ++ runes_of_ascii "t" ++ [233]%N ++ runes_of_ascii """
    ,
65535
    ,	""a	b"" ,
""`tick`"" ,
//	t
//x
""\n""
// " ++ [128512]%N ++ runes_of_ascii " emoji
// packet A { u8 x, }
]: As
,
0123456789  : float , /// triple
""a	b"" :
    x_y_z
, [ ""abc"" ] :
    stringy // trailing space 
} ,  f64
    MetaDataX ,zchar[
0123456789 ] charz ,
}, crc // trailing space 
{ char[]x_y_z // c
`
`
,	match Z9_
    as i8i8	{  00	:
// c
//	t
charz, } ,}	,	i8 // a // b
_x
,
repeat falsey
    {
    // `tick` ""quote"" 'q'
    char[
65535 // a // b
]
    Packet @calculatedFrom(
""x y""
) `line1
line2` ,	} ,}
, f32a // packet A { u8 x, }
MetaDataX
    `" ++ [233]%N ++ runes_of_ascii "`
, repeat//	t
matchKey{int32
int `crlf
line`	,
} ,} , float{ string	As
`// not a comment` , As
, stringy ,
    } ,
@tag( 00	) Foo ,	repeat int16	Z9_, @lengthOf(u8x )
    u8x{ repeat	uint64 asx ,
// packet A { u8 x, }
//
repeat int
    // packet A { u8 x, }
    `` , char[
1 ] uint8x @calculatedFrom(
    ""\" ++ [233]%N ++ runes_of_ascii """
) ,
    } ,  x , }
")).
Eval vm_compute in ("<<<M3854>>>" ++ check (runes_of_ascii "packet rootA {
    metadata {
        int32 body `doc`,
        repeat calculatedFrom u8x,
        u32 float,
    },
    @lengthOf(T)
    u8x Header,
    repeat u16 Z9_,
    @leftPad('0')
    repeat Z9_ {
        stringy msg_type `
        `,
        As {
            match i8i8 as chars {
                10 : len,
                [""abc"", 42, 7] : leftPad,
                42 : lengthOf,
                00 : zchar,
                //x
            },
            i32 i64_,
            repeat lengthOf msg_type ``,
        },
        int16 Packet @calculatedFrom(""packet""),
    },
    len @lengthOf(float) `two words`,
    @calculatedFrom(""a\""b"")
    repeat pack,
    @tag(0)
    float32 tag `tab	here`,
    rootA @calculatedFrom(""// no comment""),
    @lengthOf(x_y_z)
    msg_type {
        match crc as string_ {
            0 : u8x,
            10 : crc,
            ""x y"" : Pad,
            3 : a1,
            007 : x,
            [""""] : A,
        },
    },
    @calculatedFrom(""CRC32"")
    @rightPad(' ')
    @tag(10)
    match zchar as body {
        65535 : tag,
    },
}")).
Eval vm_compute in ("<<<M4225>>>" ++ check (runes_of_ascii "packet u128 {
    @lengthOf(x_y_z)
    @lengthOf(stringy)
    @lengthOf(_x)
    zchar[4294967296] asx @calculatedFrom(""\" ++ [233]%N ++ runes_of_ascii """) `
        `,
    char[0] matchKey,
    rootA u128,
    metadata metadata,
    zchar[3] string_ `" ++ [233]%N ++ runes_of_ascii "`,
    // `tick` ""quote"" 'q'
    // " ++ [27880; 37322]%N ++ runes_of_ascii "
    @calculatedFrom(""a	b"")
    char roots `" ++ [28040; 24687; 31867; 22411]%N ++ runes_of_ascii "`,
    repeat zchar[10] pack `
        `,
    @calculatedFrom(""{,}"")
    @lengthOf(Foo)
    packetx {
        // " ++ [128512]%N ++ runes_of_ascii " emoji
        match i8i8 as Header {
            255 : Z9_,
            """ ++ [233]%N ++ runes_of_ascii "t" ++ [233]%N ++ runes_of_ascii """ : tag,
            [
                7, 1, ""// no comment"", ""// no comment"", 3,
                """", 1
            ] : lengthOf,
            3 : asx,
            [42, 0, 1] : Z9_,
            10 : A,
        },
    },
}

root packet T {
    /// triple
    int32 roots `two words`,
    stringy,
    @rightPad('\x00')
    float64 len @lengthOf(o),
    match body as uint8x {
        10 : tag,
    },
    repeat u8 Pad `" ++ [28040; 24687; 31867; 22411]%N ++ runes_of_ascii "`,
    repeat char[] float,
    @calculatedFrom(""packet"")
    u16 x @lengthOf(u8x),
}//x")).
Eval vm_compute in ("<<<M411>>>" ++ check (runes_of_ascii "packet zchar { @calculatedFrom( ""a\\""
// @lengthOf(
// " ++ [27880; 37322]%N ++ runes_of_ascii "
)f32a`{ , }` , match // c
calculatedFrom as pack {""" ++ [233]%N ++ runes_of_ascii "t" ++ [233]%N ++ runes_of_ascii """
    // a // b
    :As , 0123456789
:
i8i8 ,4294967296	:
A , } ,
//x
// trailing space 
i32
    packetx `say ""hi""`, repeatCount
// `tick` ""quote"" 'q'
// " ++ [128512]%N ++ runes_of_ascii " emoji
{
//
/// triple
repeat falsey {rootA // c
{ T Logon	`a\`,
}
,char[
    007]
// trailing space 
// " ++ [27880; 37322]%N ++ runes_of_ascii "
A // trailing space 
, } , // trailing space 
} ,
repeat
// " ++ [128512]%N ++ runes_of_ascii " emoji
// " ++ [27880; 37322]%N ++ runes_of_ascii "
Packet
    {  int64
    matchKey
    ,
}
, // c
string _x `crlf
line` ,float
    { repeat
u8x {metadata@calculatedFrom( //
""a\\"" )`it's`
    ,
}
    , },
@lengthOf( o
)
    @tag(
00  ) @tag( 0123456789
    )
    // a // b
    falsey {repeat asx `crlf
line`, repeat // a // b
o , }  ,@tag( 00)
    match
// `tick` ""quote"" 'q'
// `tick` ""quote"" 'q'
float
    as Foo
    { """ ++ [128512]%N ++ runes_of_ascii """ : tag , } , @tag(
255 )	repeat i8i8 ,}// `tick` ""quote"" 'q'
packet As { i8 a1@lengthOf( options1/// triple
)	,}")).
Eval vm_compute in ("<<<M544>>>" ++ check (runes_of_ascii "packet MetaDataX { @tag( 65535 )
    match a1
    as
float
{
007 : Header } ,
repeat char[65535
    // " ++ [128512]%N ++ runes_of_ascii " emoji
    ]pack , @lengthOf(Logon ) zchar[ 65535]metadata , char calculatedFrom , match roots as stringy
{	""packet""
: BodyLength// " ++ [128512]%N ++ runes_of_ascii " emoji
,
    [	""// no comment"" ] :tag , 0123456789 // " ++ [27880; 37322]%N ++ runes_of_ascii "
:
a1,	0 : roots ,  [
""abc""	] :Header ,
} ,
repeat MetaDataX
{ match Foo as lengthOf
{
    // a // b
    ""CRC32""  :// " ++ [128512]%N ++ runes_of_ascii " emoji
trueish }
,
match // @lengthOf(
roots as metadata {	0 : body, } , u64	A ,
    char[
7]
    Z9_,
    //x
    }
    , Foo
    { zchar[  10
]roots @lengthOf( u8x// packet A { u8 x, }
) `tab	here` // c
,// trailing space 
string_ crc ,u8x@lengthOf(	u128  )
, }  ,
@lengthOf(
i8i8
    )
    // trailing space 
    @calculatedFrom( ""abc""	) char[] // packet A { u8 x, }
crc , @leftPad
( ' ') @lengthOf(
    // a // b
    trueish // c
) @lengthOf(  msg_type ) i8i8 asx	,
    }")).
Eval vm_compute in ("<<<M748>>>" ++ check (runes_of_ascii "MetaData	metadata{/// triple
packetx Packet ,
    // trailing space 
    chars body , char[]MetaDataX ,u32
    stringy ,float32
packetx `" ++ [28040; 24687; 31867; 22411]%N ++ runes_of_ascii "` , }options {
    lengthOf
    = uint16 ; pack
='0'
; charz //x
=
char[]
    ;	u // trailing space 
= f64 ;
    options1  = float32
    ; }root // packet A { u8 x, }
packet charz //x
{ repeat
uint32 float, stringy , // packet A { u8 x, }
uint8x  {chars
    { match Foo as u8x {""a\\"":
int // a // b
,
    }
    , string
Z9_  @calculatedFrom(
    // packet A { u8 x, }
    """ ++ [28040; 24687]%N ++ runes_of_ascii """ ) `// not a comment` ,
match trueish
as MetaDataX {
[ 0  ,  ""CRC32"" ,007
    // a // b
    ,007	, 0123456789 ] // packet A { u8 x, }
: Foo
    255 : falsey
    , 007 :
    _x 255 :
    Header
    007 :lengthOf""{,}""  : Header , } ,
}
, zchar[ 65535  ] leftPad `line1
line2` , char[ 007
] Z9_  @lengthOf(
u8x  ) ,
} , }
")).
Eval vm_compute in ("<<<M4218>>>" ++ check (runes_of_ascii "packet roots {
}

root packet metadata {
    repeat float32 int,
    _x @lengthOf(packetx) `
        `,
    repeat Packet Header,
    @tag(0)
    /// triple
    float32 msg_type @calculatedFrom(""\" ++ [233]%N ++ runes_of_ascii """),
    char[0] BodyLength,
    len @calculatedFrom(""" ++ [28040; 24687]%N ++ runes_of_ascii """) `tab	here`,
}

root packet calculatedFrom {
    @rightPad(' ')
    tag @calculatedFrom(""// no comment""),
    crc @calculatedFrom(""\" ++ [233]%N ++ runes_of_ascii """),
    @lengthOf(u128)
    @lengthOf(chars)
    repeat lengthOf `tab	here`,
    @tag(007)
    char[] roots,
    @calculatedFrom(""" ++ [233]%N ++ runes_of_ascii "t" ++ [233]%N ++ runes_of_ascii """)
    repeat zchar[0] chars `crlf
        line`,// `tick` ""quote"" 'q'
    @calculatedFrom(""a\\"")
    options1,
    // " ++ [27880; 37322]%N ++ runes_of_ascii "
    @rightPad()
    Z9_ {
        float32 x_y_z @lengthOf(asx),
        repeat float32 asx,
        f32 zchar `" ++ [28040; 24687; 31867; 22411]%N ++ runes_of_ascii "`,
        char[007] Packet `a\`,
    },
}")).
Eval vm_compute in ("<<<M1046>>>" ++ check (runes_of_ascii "// c
packet
i8i8{ } packet string_
{  @rightPad ( '\x00'//x
)
    int Packet , // a // b
@tag( 255 )
matchKey , chars@calculatedFrom( ""packet"")
`
`	,  _x @lengthOf(u
) , @tag(// c
255 )asx Foo, string
    roots ,	repeat
    falsey {	matchKey { match Pad as
i8i8 //x
{ [ 00 , 7 ] : u , 1 : BodyLength , // a // b
""// no comment""
:	metadata ,
""""
// @lengthOf(
//
: BodyLength
    /// triple
    , } , }
, A,
repeat char falsey , } , // packet A { u8 x, }
_x u `it's` ,
@leftPad  (	'\x00')
    @calculatedFrom(
""\n""
    )	match x_y_z as metadata { ""CRC32""
: packetx // packet A { u8 x, }
, ""packet""  :
metadata 1
    : string_// c
, [ 0 , // " ++ [128512]%N ++ runes_of_ascii " emoji
10 ]
: // packet A { u8 x, }
falsey // " ++ [27880; 37322]%N ++ runes_of_ascii "
,} , char[] chars @lengthOf(zchar /// triple
)`say ""hi""`	, } 	 ")).
Eval vm_compute in ("<<<M1289>>>" ++ check (runes_of_ascii "packet string_
    {A { // trailing space 
zchar[1 ] // a // b
len	,match leftPad	as metadata {
    // " ++ [27880; 37322]%N ++ runes_of_ascii "
    [
    4294967296 ,
    4294967296 , 00 , 1, ""{,}"" ,
    007 /// triple
, 7 ]
: chars
    /// triple
    , 0
: i64_
    ,}, }
    //	t
    ,	uint8 charz`" ++ [233]%N ++ runes_of_ascii "`
    // trailing space 
    ,
charz msg_type , @rightPad	(
    ' '
    )
    @calculatedFrom( ""it's"" ) repeat a1
`it's`
, //x
repeat Logon
{ int o , metadata , zchar[
    0] msg_type@calculatedFrom( """" ) , pack
,} ,	@calculatedFrom(""it's"" )  char[
    00 ] int `u8 x,`
, i32
charz
`{ , }`,
repeat f64 As `" ++ [28040; 24687; 31867; 22411]%N ++ runes_of_ascii "`
/// triple
// @lengthOf(
,} MetaData //
metadata
{ string
    falsey , }
    packet o	{	float64 roots @lengthOf( body ) ,
    //
    }")).
Eval vm_compute in ("<<<M1329>>>" ++ check (runes_of_ascii "packet
leftPad
{ @tag(
1
) i8 // a // b
crc , float64 packetx `" ++ [233]%N ++ runes_of_ascii "` , lengthOf
@lengthOf( charz
    // trailing space 
    ) , repeat
    Packet ,	@lengthOf( u )  @lengthOf(// " ++ [27880; 37322]%N ++ runes_of_ascii "
T )
    repeat u16 uint8x `" ++ [28040; 24687; 31867; 22411]%N ++ runes_of_ascii "`,
    zchar[  10
]// a // b
metadata ``
    , match // packet A { u8 x, }
trueish
    as options1{0123456789
: rootA
    ,255: MetaDataX[""a\\"" ,/// triple
""\n"",00
, 10 ] : trueish ,	""CRC32"" :
uint8x, 0 : Z9_ ,  ""1""// c
: i8i8
// `tick` ""quote"" 'q'
// packet A { u8 x, }
,} , @calculatedFrom( ""it's"" ) uint8 chars `
` , } options
    // @lengthOf(
    {
    f32a
= i16 ; // " ++ [128512]%N ++ runes_of_ascii " emoji
u
    = ""abc"" }MetaData chars{	i16 lengthOf , Packet msg_type
    `crlf
line` ,} // " ++ [27880; 37322]%N)).
Eval vm_compute in ("<<<M3793>>>" ++ check (runes_of_ascii "packet float {
    match asx as len {
        255 : metadata,
    },
    char[4294967296] x @lengthOf(lengthOf),
    matchKey int,
}

packet falsey {
    @tag(0123456789)
    match u128 as stringy {
        // " ++ [128512]%N ++ runes_of_ascii " emoji
        0123456789 : u128,
        // packet A { u8 x, }
        [3, ""CRC32"", 7, 10, 0] : o,
        1 : charz,
        0123456789 : u,
        255 : pack,
    },
}

packet T {
    // " ++ [27880; 37322]%N ++ runes_of_ascii "
    @lengthOf(Z9_)
    @rightPad('0')
    @calculatedFrom(""// no comment"")
    zchar[007] leftPad,
    @calculatedFrom(""1"")
    char[] As `two words`,
    @leftPad('0')
    repeat char[0123456789] x `// not a comment`,
    char[1] _x,
}")).
Eval vm_compute in ("<<<M906>>>" ++ check (runes_of_ascii "packet // trailing space 
A
{ @tag( 0
)
    string
i8i8`a\`
    // packet A { u8 x, }
    , float64
    x @lengthOf( Header // " ++ [128512]%N ++ runes_of_ascii " emoji
) `tab	here` // @lengthOf(
,zchar[
    3 ]	lengthOf ,
// packet A { u8 x, }
// " ++ [27880; 37322]%N ++ runes_of_ascii "
o msg_type `{ , }` ,
    //x
    Logon // c
@lengthOf( i64_)
,@leftPad (
' ' ) repeat As
// packet A { u8 x, }
// @lengthOf(
,  match
    len as leftPad
    {""x y"" :
    repeatCount , """ ++ [28040; 24687]%N ++ runes_of_ascii """ :
packetx , ""x y"" : u8x ,
4294967296:
Header ""a	b"": roots,
} , @calculatedFrom(
// " ++ [128512]%N ++ runes_of_ascii " emoji
/// triple
""{,}"" )
    // trailing space 
    uint32// packet A { u8 x, }
i64_ `line1
line2`, } // " ++ [128512]%N ++ runes_of_ascii " emoji")).
Eval vm_compute in ("<<<M4576>>>" ++ check (runes_of_ascii "packet matchKey {
    match Header as chars {
        [""" ++ [233]%N ++ runes_of_ascii "t" ++ [233]%N ++ runes_of_ascii """, 0] : body,
        [42, 10] : msg_type,
        """ ++ [128512]%N ++ runes_of_ascii """ : options1,
        7 : roots,
        ""\n"" : packetx,
    },
    zchar[0] A @lengthOf(int),
    char[] Header `
    `,// trailing space 
    repeat float {
        repeat o,// `tick` ""quote"" 'q'
        repeat int32 x_y_z `
        `,
    },
    @tag(0)
    u64 string_ @calculatedFrom(""`tick`"") `two words`,
    calculatedFrom {
        matchKey,// packet A { u8 x, }
        rootA,
    },
}

options {
    chars = """";
    As = true;
    Foo = 7;
    lengthOf = ""a\\""
}")).
Eval vm_compute in ("<<<M1352>>>" ++ check (runes_of_ascii "options {tag =""`tick`"" }
options { chars
// c
//
=
255 ;
    // packet A { u8 x, }
    int =
""abc"" string_
=
    true
    ;
    body
=  false asx = """ ++ [233]%N ++ runes_of_ascii "t" ++ [233]%N ++ runes_of_ascii """ ;// packet A { u8 x, }
}
    packet _x //x
{
repeat
o  { char[ 00
] f32a@calculatedFrom(
    """"
)	,
f32a `a\`  , } , }packet falsey {
} packet Z9_
{ @tag( 0 ) @calculatedFrom( ""`tick`"" )
    // a // b
    @tag( 00 ) char[ 3 // " ++ [27880; 37322]%N ++ runes_of_ascii "
] x @calculatedFrom( """"	) ,
// @lengthOf(
// packet A { u8 x, }
Pad  @calculatedFrom( ""\" ++ [233]%N ++ runes_of_ascii """) ,@rightPad (  '0' ) char[]
    trueish @lengthOf( packetx
)
, }
// c
")).
Eval vm_compute in ("<<<M4317>>>" ++ check (runes_of_ascii "packet string_ {
    BodyLength u128,
}

MetaData matchKey {
}

packet f32a {
    repeat uint32 matchKey,
}

root packet trueish {
    leftPad {
        match BodyLength as i8i8 {
            255 : metadata,
            ""CRC32"" : metadata,
            ""packet"" : a1,
        },
    },
}

packet asx {
    leftPad {
        // `tick` ""quote"" 'q'
        char[10] options1,
        char[4294967296] Packet `a\`,
        o `{ , }`,
        Z9_ {
            match Foo as T {
                3 : a1,
            },
        },
    },
}")).
Eval vm_compute in ("<<<M1044>>>" ++ check (runes_of_ascii "
options	{ x // c
= ""{,}"" ; i8i8 = true
;matchKey	=
""1"" ;} MetaData rootA { string
    packetx
    //	t
    `it's` // c
,
// `tick` ""quote"" 'q'
// packet A { u8 x, }
char[4294967296	] roots
,
    zchar As ,
    Z9_	asx `" ++ [28040; 24687; 31867; 22411]%N ++ runes_of_ascii "`,char[]Pad , } packet As{@leftPad //
('0' ) match falsey as pack{4294967296:leftPad ,	10 : // packet A { u8 x, }
zchar,""it's"" :
u8x, """" : string_} ,
    i8 Header , u16
lengthOf@lengthOf( leftPad ) , }packet int { @tag(3 )  tag ``, }  MetaData
    // " ++ [27880; 37322]%N ++ runes_of_ascii "
    a1 {repeatCount	asx , }")).
Eval vm_compute in ("<<<M1163>>>" ++ check (runes_of_ascii "
root  packet chars
{ }
    packet rootA{ u128
,match Header as
    _x	{ 1// a // b
:
Foo ,
// c
/// triple
[
""" ++ [28040; 24687]%N ++ runes_of_ascii """ , 007 ]
: float ""x y""	: repeatCount , ""\" ++ [233]%N ++ runes_of_ascii """ :
body 1
: float , } , i8
    // packet A { u8 x, }
    u8x @calculatedFrom( """ ++ [28040; 24687]%N ++ runes_of_ascii """
) // " ++ [128512]%N ++ runes_of_ascii " emoji
, string
metadata ,	@lengthOf( metadata )	repeat
    /// triple
    zchar[
    255
    ] Foo ,
// `tick` ""quote"" 'q'
//x
@tag( 007 )	Foo @calculatedFrom(	""// no comment""
) `a\` , leftPad@calculatedFrom(
""it's""
    ) `u8 x,` , }
")).
Eval vm_compute in ("<<<M3207>>>" ++ check (runes_of_ascii "// top
options
    // c0
{ charz // c2
= // c3a
  // c3b
f64 // c4a
  // c4b
; // c5a
  // c5b
metadata = // c7
7 // c8a
  // c8b
; // c9a
  // c9b
} // c10
options
    // c11
{
    // c12
u128 // c13
=
    // c14
10 // c15
options1 // c16
= // c17
true
    // c18
; zchar // c20
=
    // c21
uint16
    // c22
; lengthOf
    // c24
=
    // c25
true
    // c26
;
    // c27
} // c28a
  // c28b
options // c29
{
    // c30
len = // c32
1
    // c33
}
    // c34
")).
Eval vm_compute in ("<<<M4487>>>" ++ check (runes_of_ascii "MetaData len {
}

packet BodyLength {
    char[42] A @calculatedFrom(""// no comment"") `crlf
    line`,
    match Header as calculatedFrom {
        /// triple
        // packet A { u8 x, }
        ""`tick`"" : o,
        // packet A { u8 x, }
        // c
    },
    repeat packetx,
}

packet u {
}

packet x_y_z {
    @lengthOf(repeatCount)
    // trailing space 
    char[] charz @calculatedFrom(""it's"") `doc`,
}

packet calculatedFrom {
}")).
Eval vm_compute in ("<<<M395>>>" ++ check (runes_of_ascii "packet trueish
    // " ++ [128512]%N ++ runes_of_ascii " emoji
    { BodyLength
, // packet A { u8 x, }
repeat
    //
    len , @tag(
3 ) zchar[ 0 ] u128 // packet A { u8 x, }
,@calculatedFrom( ""a\""b""
    )char[] u128 `u8 x,` , }
MetaData BodyLength {char[
1]
A	,
/// triple
// `tick` ""quote"" 'q'
rootA	int ,
// trailing space 
// packet A { u8 x, }
string
    //x
    len ,
char[] o// @lengthOf(
, // `tick` ""quote"" 'q'
uint8x u128 `` , } // @lengthOf(")).
Eval vm_compute in ("<<<M584>>>" ++ check (runes_of_ascii "options { len
=""x y""; } packet // @lengthOf(
repeatCount { zchar[ // a // b
7]
f32a ,
} packet
    asx { len @calculatedFrom( ""a\\"" ) `line1
line2`
// @lengthOf(
// " ++ [27880; 37322]%N ++ runes_of_ascii "
, @lengthOf(T
    ) u8x`a\` ,@tag(3 )
    char Pad `
` ,
    char[
    4294967296 //	t
]
    metadata
    @calculatedFrom( ""CRC32"") ,	@lengthOf( Header ) u64
    uint8x// `tick` ""quote"" 'q'
@calculatedFrom(""x y""
    ) , }
// " ++ [128512]%N ++ runes_of_ascii " emoji
")).
Eval vm_compute in ("<<<M4575>>>" ++ check (runes_of_ascii "/// triple
MetaData x {
    uint64 u `doc`,
}

root packet i8i8 {
    uint32 zchar @lengthOf(chars),
    string rootA @calculatedFrom(""\n""),
}

packet MetaDataX {
    i32 A @lengthOf(string_) ``,
    @calculatedFrom(""a\\"")
    @lengthOf(roots)
    msg_type asx `crlf
    line`,
    @lengthOf(metadata)
    @calculatedFrom(""" ++ [28040; 24687]%N ++ runes_of_ascii """)
    @leftPad()
    repeat string o `// not a comment`,
}//x")).
Eval vm_compute in ("<<<M99>>>" ++ check (runes_of_ascii "packet i8i8{ matchKey //x
, match trueish
//	t
// c
as roots
{  [ 00 ] : int , 255 :  u128  ,	3 : matchKey , [ 65535 ]
    :
// c
//
trueish , //	t
}
    , } packet packetx{ }
packet
u8x {@tag(
3
    )
    match x_y_z as
leftPad
{ [ 7 ]:  u8x }
    , @tag(  42
) int64 lengthOf ,@tag(
255 )	zchar[ 7 ]	o , A ,@tag( 0
    // @lengthOf(
    ) repeat lengthOf u8x, }
")).
Eval vm_compute in ("<<<M691>>>" ++ check (runes_of_ascii "//x
packet string_ { @calculatedFrom(
""// no comment"" ) @calculatedFrom( ""abc"" ) @calculatedFrom(	""a	b"" )
match u8x as u8x { 7 :x
, [
    ""packet""]	: chars ,} , } MetaData i8i8 { char[] a1 , crc// trailing space 
a1 , // trailing space 
char[
1 ] // @lengthOf(
matchKey , // `tick` ""quote"" 'q'
}
    options {Logon
    = ""{,}""	; }// " ++ [27880; 37322]%N ++ runes_of_ascii "
options {  }

")).
Eval vm_compute in ("<<<M791>>>" ++ check (runes_of_ascii "root
    packet
falsey{  repeat i64_ , //	t
@tag( 4294967296 ) @leftPad (' ' )
@lengthOf( _x )x leftPad `a\`,
/// triple
// " ++ [27880; 37322]%N ++ runes_of_ascii "
@calculatedFrom( """"	)  @lengthOf( i8i8 ) @tag( 10
    ) stringy { u8x { int8 i8i8 @lengthOf( string_ ) `doc`
, string asx, }
// " ++ [128512]%N ++ runes_of_ascii " emoji
/// triple
,} ,
    @tag( 007
)string metadata  , } // packet A { u8 x, }")).
Eval vm_compute in ("<<<M1918>>>" ++ check (runes_of_ascii "MetaData
    u { }  options {
// c
// @lengthOf(
float = int8 ;rootA =@calculatedFrom( ; As =	int16 // `tick` ""quote"" 'q'
repeatCount
    // trailing space 
    =
    int16
; u8x =
    //	t
    '\x00' ; } options	{
    repeatCount
= 0
u128
    //
    = false ; i64_
// trailing space 
// `tick` ""quote"" 'q'
= '0' ; //	t
}
")).
Eval vm_compute in ("<<<M2031>>>" ++ check (runes_of_ascii "MetaData
    u { }  options {
// c
// @lengthOf(
float = int8 ;rootA =false ; As =	int16 // `tick` ""quote"" 'q'
repeatCount
    // trailing space 
    =
    int16
; u8x =
    //	t
    '\x00' ; } options	{
    repeatCount
= 0
u128
    //
    = false ; i64_ i64_
// trailing space 
// `tick` ""quote"" 'q'
= '0' ; //	t
}
")).
Eval vm_compute in ("<<<M1966>>>" ++ check (runes_of_ascii "MetaData
    u { }  options {
// c
// @lengthOf(
float = int8 ;rootA =false ; As =	int16 // `tick` ""quote"" 'q'
repeatCount
    // trailing space 
    =
    int16
; u8x = =
    //	t
    '\x00' ; } options	{
    repeatCount
= 0
u128
    //
    = false ; i64_
// trailing space 
// `tick` ""quote"" 'q'
= '0' ; //	t
}
")).
Eval vm_compute in ("<<<M2067>>>" ++ check (runes_of_ascii "MetaData
    u { }  options {
// c
// @lengthOf(
float = int8 ;rootA =false ; As =	int16 // `tick` ""quote"" 'q'
repeatCount
    // trailing space 
    =
    int16
; u8x =
    //	t
    '\x00' ; } options	{
    `repeatCount
= 0
u128
    //
    = false ; i64_
// trailing space 
// `tick` ""quote"" 'q'
= '0' ; //	t
}
")).
Eval vm_compute in ("<<<M1977>>>" ++ check (runes_of_ascii "MetaData
    u { }  options {
// c
// @lengthOf(
float = int8 ;rootA =false ; As =	int16 // `tick` ""quote"" 'q'
repeatCount
    // trailing space 
    =
    int16
; u8x =
    //	t
    '\x00' } ; options	{
    repeatCount
= 0
u128
    //
    = false ; i64_
// trailing space 
// `tick` ""quote"" 'q'
= '0' ; //	t
}
")).
Eval vm_compute in ("<<<M1955>>>" ++ check (runes_of_ascii "MetaData
    u { }  options {
// c
// @lengthOf(
float = int8 ;rootA =false ; As =	int16 // `tick` ""quote"" 'q'
repeatCount
    // trailing space 
    =
    int16
 u8x =
    //	t
    '\x00' ; } options	{
    repeatCount
= 0
u128
    //
    = false ; i64_
// trailing space 
// `tick` ""quote"" 'q'
= '0' ; //	t
}
")).
Eval vm_compute in ("<<<M1905>>>" ++ check (runes_of_ascii "MetaData
    u { }  options {
// c
// @lengthOf(
float = int8 ; =false ; As =	int16 // `tick` ""quote"" 'q'
repeatCount
    // trailing space 
    =
    int16
; u8x =
    //	t
    '\x00' ; } options	{
    repeatCount
= 0
u128
    //
    = false ; i64_
// trailing space 
// `tick` ""quote"" 'q'
= '0' ; //	t
}
")).
Eval vm_compute in ("<<<M4>>>" ++ check (runes_of_ascii "root packet pack  { match Pad as// a // b
f32a
    {	[
/// triple
//	t
"""" ]: leftPad
, [""" ++ [233]%N ++ runes_of_ascii "t" ++ [233]%N ++ runes_of_ascii """,007 ] : //	t
f32a //x
, 65535 :  body
    ,
    // @lengthOf(
    10:u128,42	: // trailing space 
pack, } ,}options{// " ++ [27880; 37322]%N ++ runes_of_ascii "
o=
    // c
    f64 ; x_y_z //
= /// triple
u32 len =
    42;
falsey
    = true	;}")).
Eval vm_compute in ("<<<M4087>>>" ++ check (runes_of_ascii "  root	packet	rootA
{

} 
root

packet

// a // b
  	// trailing space 
	_x // " ++ [27880; 37322]%N ++ runes_of_ascii "
  { i64_
	,  // a // b
    	} MetaData options1

    { 	 // `tick` ""quote"" 'q'
		a1  float `crlf
line` ,

    u8x

falsey  // " ++ [128512]%N ++ runes_of_ascii " emoji
`" ++ [233]%N ++ runes_of_ascii "`
,	f32a MetaDataX , 
int64 u8x  ,

    }packet
	f32a {

    }
")).
Eval vm_compute in ("<<<M61>>>" ++ check (runes_of_ascii "options
{  chars =
    /// triple
    char; o
    /// triple
    = true u128 =
    ""x y"" ;} packet	chars
    { @calculatedFrom( ""\n"" )repeat f64 packetx  ,  @tag(4294967296 ) float32 Header
, zchar[
007
]float `// not a comment`
    ,
    }
options  {
stringy = zchar[ 7 ] ;}")).
Eval vm_compute in ("<<<M39>>>" ++ check (runes_of_ascii "packet As
{//
@lengthOf(trueish ) uint8
    repeatCount	,
} options// c
{As =	""1""matchKey
=""x y"" ;
Packet = ' '  }MetaData repeatCount { string BodyLength `{ , }` , char[
    0123456789 ]//	t
trueish
    ,
uint16 A, u32 falsey `two words`
, } packet
float{// c
}

")).
Eval vm_compute in ("<<<M1660>>>" ++ check (runes_of_ascii "packet
//	t
// trailing spa@lengthOfce 
_x {
// packet A { u8 x, }
// c
char[
3
    ] u8x @lengthOf(
u8x ) , @calculatedFrom(""" ++ [128512]%N ++ runes_of_ascii """ // @lengthOf(
)
i16	Foo
@lengthOf(	string_
    )`doc`	, repeat	i64 metadata , @lengthOf( string_
) i8 // c
u  `line1
line2`	,
}
")).
Eval vm_compute in ("<<<M1598>>>" ++ check (runes_of_ascii "packet
//	t
// trailing space 
_x {
// packet A { u8 x, }
// c
char[
3
    ] u8x @lengthOf(
u8x ) , @calculatedFrom(""" ++ [128512]%N ++ runes_of_ascii """ // @lengthOf(
)
i16	Foo
@lengthOf(	string_
    )`doc`	, repeat	i64 i64 metadata , @lengthOf( string_
) i8 // c
u  `line1
line2`	,
}
")).
Eval vm_compute in ("<<<M1669>>>" ++ check (runes_of_ascii "packet
//	t
// trailing space 
_x {
// packet A { u8 x, }
// c
char[
3
    ] na" ++ [239]%N ++ runes_of_ascii "ve @lengthOf(
u8x ) , @calculatedFrom(""" ++ [128512]%N ++ runes_of_ascii """ // @lengthOf(
)
i16	Foo
@lengthOf(	string_
    )`doc`	, repeat	i64 metadata , @lengthOf( string_
) i8 // c
u  `line1
line2`	,
}
")).
Eval vm_compute in ("<<<M1539>>>" ++ check (runes_of_ascii "packet
//	t
// trailing space 
_x {
// packet A { u8 x, }
// c
char[
3
    ] u8x @lengthOf(
u8x ) @calculatedFrom( ,""" ++ [128512]%N ++ runes_of_ascii """ // @lengthOf(
)
i16	Foo
@lengthOf(	string_
    )`doc`	, repeat	i64 metadata , @lengthOf( string_
) i8 // c
u  `line1
line2`	,
}
")).
Eval vm_compute in ("<<<M1512>>>" ++ check (runes_of_ascii "packet
//	t
// trailing space 
_x {
// packet A { u8 x, }
// c
char[
3
     u8x @lengthOf(
u8x ) , @calculatedFrom(""" ++ [128512]%N ++ runes_of_ascii """ // @lengthOf(
)
i16	Foo
@lengthOf(	string_
    )`doc`	, repeat	i64 metadata , @lengthOf( string_
) i8 // c
u  `line1
line2`	,
}
")).
Eval vm_compute in ("<<<M777>>>" ++ check (runes_of_ascii "root packet i8i8
// `tick` ""quote"" 'q'
// packet A { u8 x, }
{ string calculatedFrom @calculatedFrom( ""a	b"" //x
)
    , @calculatedFrom(
""abc"") // " ++ [27880; 37322]%N ++ runes_of_ascii "
int32 float// " ++ [128512]%N ++ runes_of_ascii " emoji
,
//x
// a // b
@calculatedFrom( ""a\""b"")
repeat u64 BodyLength
,
    }
")).
Eval vm_compute in ("<<<M3390>>>" ++ check (runes_of_ascii "// top
MetaData
    // c0
body
    // c1
{
    // c2
i64
    // c3
pack
    // c4
`it's`
    // c5
,
    // c6
}
    // c7
packet
    // c8
stringy
    // c9
{
    // c10
int16
    // c11
calculatedFrom
    // c12
,
    // c13
}
    // c14
")).
Eval vm_compute in ("<<<M4473>>>" ++ check (runes_of_ascii "root packet roots {
}// `tick` ""quote"" 'q'

MetaData As {
    string u `{ , }`,
    zchar[3] x_y_z,
    i32 roots,
    u16 rootA `line1
    line2`,
    // `tick` ""quote"" 'q'
    // a // b
    i32 matchKey `doc`,
    u _x `{ , }`,
}")).
Eval vm_compute in ("<<<M4479>>>" ++ check (runes_of_ascii "packet _x {
    // packet A { u8 x, }
    // c
    char[3] u8x @lengthOf(u8x),
    @calculatedFrom(""" ++ [128512]%N ++ runes_of_ascii """)
    i16 Foo @lengthOf(string_) `doc`,
    repeat i64 metadata,
    @lengthOf(string_)
    i8 u `line1
        line2`,
}")).
Eval vm_compute in ("<<<M267>>>" ++ check (runes_of_ascii "root packet
i8i8
    { _x@lengthOf(chars
),
    char[	7]
packetx
    /// triple
    `say ""hi""`
,
    // c
    }root packet string_ {
    //
    repeat// `tick` ""quote"" 'q'
options1// c
`u8 x,`	,
    }
options {	}")).
Eval vm_compute in ("<<<M1846>>>" ++ check (runes_of_ascii "options { t@leftpadrueish = ""`tick`"" ; string_= """ ++ [233]%N ++ runes_of_ascii "t" ++ [233]%N ++ runes_of_ascii """
    // c
    } root
    packet body { stringy @calculatedFrom(
""a	b"" ) `line1
line2` , }
packet Logon {
    @leftPad(
    ' ' ) //	t
u16 string_ `u8 x,` ,
}
")).
Eval vm_compute in ("<<<M1852>>>" ++ check (runes_of_ascii "options { trueish = ""`tick`"" ; string_= """ ++ [233]%N ++ runes_of_ascii "t" ++ [233]%N ++ runes_of_ascii "@tag""
    // c
    } root
    packet body { stringy @calculatedFrom(
""a	b"" ) `line1
line2` , }
packet Logon {
    @leftPad(
    ' ' ) //	t
u16 string_ `u8 x,` ,
}
")).
Eval vm_compute in ("<<<M580>>>" ++ check (runes_of_ascii "options{float
    =
    float32 ; }	options {//x
As =
    char[]; roots = ""it's""
}packet
    leftPad {@tag( 42 // trailing space 
)
    repeat _x `two words` ,@calculatedFrom(""x y"" ) repeat char[] Pad
, }
")).
Eval vm_compute in ("<<<M1738>>>" ++ check (runes_of_ascii "options { trueish = ""`tick`"" ; string_= """ ++ [233]%N ++ runes_of_ascii "t" ++ [233]%N ++ runes_of_ascii """
    // c
    } root
    packet body stringy { @calculatedFrom(
""a	b"" ) `line1
line2` , }
packet Logon {
    @leftPad(
    ' ' ) //	t
u16 string_ `u8 x,` ,
}
")).
Eval vm_compute in ("<<<M1716>>>" ++ check (runes_of_ascii "options { trueish = ""`tick`"" ; string_= """ ++ [233]%N ++ runes_of_ascii "t" ++ [233]%N ++ runes_of_ascii """
    // c
     root
    packet body { stringy @calculatedFrom(
""a	b"" ) `line1
line2` , }
packet Logon {
    @leftPad(
    ' ' ) //	t
u16 string_ `u8 x,` ,
}
")).
Eval vm_compute in ("<<<M1781>>>" ++ check (runes_of_ascii "options { trueish = ""`tick`"" ; string_= """ ++ [233]%N ++ runes_of_ascii "t" ++ [233]%N ++ runes_of_ascii """
    // c
    } root
    packet body { stringy @calculatedFrom(
""a	b"" ) `line1
line2` , }
packet  {
    @leftPad(
    ' ' ) //	t
u16 string_ `u8 x,` ,
}
")).
Eval vm_compute in ("<<<M3540>>>" ++ check (runes_of_ascii "// top
root // c0
packet
    // c1
P // c2a
  // c2b
{ // c3a
  // c3b
hdr { // c5a
  // c5b
u8 // c6a
  // c6b
a ,
    // c8
} // c9a
  // c9b
, u8 // c11a
  // c11b
x
    // c12
,
    // c13
} ")).
Eval vm_compute in ("<<<M1325>>>" ++ check (runes_of_ascii "//
packet x_y_z
    // `tick` ""quote"" 'q'
    {
@calculatedFrom(""x y""  )	@calculatedFrom( ""packet"" ) @calculatedFrom(""CRC32""
    ) a1 uint8x
    //
    `u8 x,`
// " ++ [128512]%N ++ runes_of_ascii " emoji
// @lengthOf(
,}
")).
Eval vm_compute in ("<<<M4117>>>" ++ check (runes_of_ascii "packet pack {
	pack calculatedFrom,  len
,	u16 T
	,@lengthOf( trueish
)  repeat  leftPad,
@calculatedFrom(
	""" ++ [233]%N ++ runes_of_ascii "t" ++ [233]%N ++ runes_of_ascii """

)@rightPad (	'0' 
)	f64 a1
    ,repeat trueish
Header

    , } ")).
Eval vm_compute in ("<<<M430>>>" ++ check (runes_of_ascii "root packet i8i8 { @tag(
3) @tag( // " ++ [128512]%N ++ runes_of_ascii " emoji
42 )repeat zchar[ 0123456789 ]
    options1 // a // b
, string	charz
`say ""hi""` ,
    }
MetaData int{
    uint16 uint8x,
    }")).
Eval vm_compute in ("<<<M1969>>>" ++ check (runes_of_ascii "MetaData
    u { }  options {
// c
// @lengthOf(
float = int8 ;rootA =false ; As =	int16 // `tick` ""quote"" 'q'
repeatCount
    // trailing space 
    =
    int16
; u8x")).
Eval vm_compute in ("<<<M2393>>>" ++ check (runes_of_ascii "// c
packet x { @lengthOf( metadata ) repeat lengthOf
,a1{
trueish	,// c
repeat//	t
MetaDataX , } , zchar[
    4@lengthOf2	] rootA // `tick` ""quote"" 'q'
,
    }
")).
Eval vm_compute in ("<<<M2408>>>" ++ check (runes_of_ascii "// c
packet x { @lengthOf( metadata ) repeat lengthOf
,a1{
trueish	,// c
repeat//	t
MetaDataX , } , zchar[
    42	] rootA // `tick` ""quote"" 'q'
,'\x01'
    }
")).
Eval vm_compute in ("<<<M2388>>>" ++ check (runes_of_ascii "// c
packet x { @lengthOf( metadata ) repeat lengthOf
,a1{
trueish	,// c
repeat//	t
MetaDataX , } , zchar[
    42	true rootA // `tick` ""quote"" 'q'
,
    }
")).
Eval vm_compute in ("<<<M2314>>>" ++ check (runes_of_ascii "// c
packet x { @lengthOf( metadata ) repeat lengthOf
,a1 trueish
{	,// c
repeat//	t
MetaDataX , } , zchar[
    42	] rootA // `tick` ""quote"" 'q'
,
    }
")).
Eval vm_compute in ("<<<M2330>>>" ++ check (runes_of_ascii "// c
packet x { @lengthOf( metadata ) repeat lengthOf
,a1{
trueish	,// c
repeat//	t
, MetaDataX } , zchar[
    42	] rootA // `tick` ""quote"" 'q'
,
    }
")).
Eval vm_compute in ("<<<M2375>>>" ++ check (runes_of_ascii "// c
packet x { @lengthOf( metadata ) repeat lengthOf
,a1{
trueish	,// c
repeat//	t
MetaDataX ,  , zchar[
    42	] rootA // `tick` ""quote"" 'q'
,
    }
")).
Eval vm_compute in ("<<<M2166>>>" ++ check (runes_of_ascii "options{
_x
= true
} options
{ o	= /// triple
false
    ; chars
= ""\n"" } root packet	{
/// triple
// packet A { u8 x, }
Pad	chars
    // a // b
    ,}")).
Eval vm_compute in ("<<<M3583>>>" ++ check (runes_of_ascii "packet A {
    u8 a,
}
packet B {
    u16 b,
}
root packet P {
    u8 K,
    match K as M {
        [1, 2] : A,
        3 : B,
        7 : A,
    },
}
")).
Eval vm_compute in ("<<<M2317>>>" ++ check (runes_of_ascii "// c
packet x { @lengthOf( metadata ) repeat lengthOf
,a1{
trueish	,// c
//	t
MetaDataX , } , zchar[
    42	] rootA // `tick` ""quote"" 'q'
,
    }
")).
Eval vm_compute in ("<<<M2057>>>" ++ check (runes_of_ascii "MetaData
    u { }  options {
// c
// @lengthOf(
float = int8 ;rootA =false ; As =	int16 // `tick` ""quote"" 'q'
repeatCount
    // trailing space")).
Eval vm_compute in ("<<<M198>>>" ++ check (runes_of_ascii "MetaData
    //x
    body
    // a // b
    { BodyLength stringy ,
    //	t
    zchar[ 42 ] o
    ,
i64_ lengthOf `{ , }` ,u8 MetaDataX  , }")).
Eval vm_compute in ("<<<M104>>>" ++ check (runes_of_ascii "/// triple
options  { Header = 65535
    ; calculatedFrom =
""x y"" trueish = true i8i8 = false metadata // trailing space 
=	""" ++ [28040; 24687]%N ++ runes_of_ascii """ ;
}
")).
Eval vm_compute in ("<<<M3761>>>" ++ check (runes_of_ascii "

  MetaData  float  { float64	charz `
`
,
}

    root 
        // c
packet
    chars

    {
@rightPad (
    '0'
)	Foo , } ")).
Eval vm_compute in ("<<<M1275>>>" ++ check (runes_of_ascii "packet Z9_
{	}packet f32a	{
repeat metadata
//	t
// " ++ [27880; 37322]%N ++ runes_of_ascii "
`
` , charz // @lengthOf(
@calculatedFrom( ""a\\"" ) , i64
charz , }
")).
Eval vm_compute in ("<<<M807>>>" ++ check (runes_of_ascii "options { }
options {
pack =false; Z9_//
= false ;} packet Pad { }
packet u8x
{ repeat// " ++ [128512]%N ++ runes_of_ascii " emoji
matchKey packetx
, } //x")).
Eval vm_compute in ("<<<M3324>>>" ++ check (runes_of_ascii "root packet matchKey { zchar[ 3 ] // c
pack @calculatedFrom( ""a	b"" ) `doc` , } options { } MetaData A { int8 msg_type , }")).
Eval vm_compute in ("<<<M3356>>>" ++ check (runes_of_ascii "root packet matchKey { zchar[ 3 ] pack @calculatedFrom( ""a	b"" ) `doc` , } options { } MetaData A { int8 msg_type , // c
}")).
Eval vm_compute in ("<<<M1476>>>" ++ check (runes_of_ascii "
packet
    falsey { Header@calculatedFrom(""packet""  ) , char[
    0123456789 ] packetx
    , } // `tick` ""quote"" 'q'#")).
Eval vm_compute in ("<<<M1454>>>" ++ check (runes_of_ascii "
packet
    falsey { Header@calculatedFrom(""packet""  ) , char[
    0123456789 ] ,
    packetx } // `tick` ""quote"" 'q'")).
Eval vm_compute in ("<<<M1760>>>" ++ check (runes_of_ascii "options { trueish = ""`tick`"" ; string_= """ ++ [233]%N ++ runes_of_ascii "t" ++ [233]%N ++ runes_of_ascii """
    // c
    } root
    packet body { stringy @calculatedFrom(
""a	b""")).
Eval vm_compute in ("<<<M3724>>>" ++ check (runes_of_ascii "
MetaData

float {
	float64  charz 
`
` ,
	// c
	}
	root 
packet

    chars

{ @rightPad  ( '0')	Foo
	,	}
")).
Eval vm_compute in ("<<<M24>>>" ++ check (runes_of_ascii "root packet
    metadata// " ++ [128512]%N ++ runes_of_ascii " emoji
{ } packet // c
u
{@leftPad (
) repeat char[  4294967296 ] A
`a\`  ,
}
")).
Eval vm_compute in ("<<<M3186>>>" ++ check (runes_of_ascii "// top
root // c0
packet
    // c1
u128 // c2a
  // c2b
{
    // c3
chars
    // c4
`it's` , }
    // c7
")).
Eval vm_compute in ("<<<M2997>>>" ++ check (runes_of_ascii "packet A {
  match k as n {
    [1, 22, ""c c"", 4, 5, ""f"", 7, 8, ""i"", 10, 11, ""l""] : B
    2 : C
  },
}")).
Eval vm_compute in ("<<<M3732>>>" ++ check (runes_of_ascii "MetaData float {
    float64 charz `
    `,
}

root packet chars {
    @rightPad('0')
    Foo,
}// c")).
Eval vm_compute in ("<<<M2232>>>" ++ check (runes_of_ascii "options
{ } options { BodyLength BodyLength= u16 Header= f64 ; u128 =
    true
    ; } // a // b")).
Eval vm_compute in ("<<<M317>>>" ++ check (runes_of_ascii "packet
crc { @lengthOf( falsey )Packet /// triple
`crlf
line`
    // trailing space 
    ,
}
")).
Eval vm_compute in ("<<<M4355>>>" ++ check (runes_of_ascii "packet A {
    match k as n {
        [""a"", ""bb"", 007, ""d"", ""e""] : B,
        2 : C,
    },
}")).
Eval vm_compute in ("<<<M1063>>>" ++ check (runes_of_ascii "root packet
    calculatedFrom { uint8
pack  @lengthOf(
crc )//
`// not a comment`
    ,}
")).
Eval vm_compute in ("<<<M3272>>>" ++ check (runes_of_ascii "MetaData float
// c
{ float64 charz `
` , } root packet chars { @rightPad ( '0' ) Foo , }")).
Eval vm_compute in ("<<<M3304>>>" ++ check (runes_of_ascii "MetaData float { float64 charz `
` , } root packet chars { @rightPad ( '0' ) Foo ,
// c
}")).
Eval vm_compute in ("<<<M3515>>>" ++ check (runes_of_ascii "packet chars { } packet MetaDataX { @tag( 42 ) i16 string_ , repeat x `say ""hi""` // c
, }")).
Eval vm_compute in ("<<<M1264>>>" ++ check (runes_of_ascii "
MetaData i64_
{ A crc`crlf
line`, } options
// " ++ [27880; 37322]%N ++ runes_of_ascii "
// @lengthOf(
{ int =
    i8
    }")).
Eval vm_compute in ("<<<M1270>>>" ++ check (runes_of_ascii "MetaData
T { uint16
roots ,As lengthOf , As
trueish
    , char[]//
Packet ,
    } 	 ")).
Eval vm_compute in ("<<<M3223>>>" ++ check (runes_of_ascii "packet metadata { Logon { A // c
`" ++ [28040; 24687; 31867; 22411]%N ++ runes_of_ascii "` , tag o , } , zchar len `// not a comment` , }")).
Eval vm_compute in ("<<<M2212>>>" ++ check (runes_of_ascii "options
 } options { BodyLength= u16 Header= f64 ; u128 =
    true
    ; } // a // b")).
Eval vm_compute in ("<<<M3446>>>" ++ check (runes_of_ascii "packet o { repeat Logon uint8x , } options
// c
{ asx = zchar[ 3 ] stringy = '\x00' }")).
Eval vm_compute in ("<<<M3957>>>" ++ check (runes_of_ascii "options {
    rootA = i64
    i64_ = true
    matchKey = '\x00'
    charz = false;
}")).
Eval vm_compute in ("<<<M2899>>>" ++ check (runes_of_ascii "packet A {
  match k as n {
    [""a"", ""bb"", ""c c"", ""d"", ""e""] : B,
    2 : C
  },
}")).
Eval vm_compute in ("<<<M3421>>>" ++ check (runes_of_ascii "MetaData body { i64 pack `it's` , } packet stringy { int16 calculatedFrom ,
// c
}")).
Eval vm_compute in ("<<<M2915>>>" ++ check (runes_of_ascii "packet A {
  match k as n {
    [1, ""bb"", 007, ""d"", 5, ""f""] : B
    2 : C
  },
}")).
Eval vm_compute in ("<<<M3736>>>" ++ check (runes_of_ascii "
packet  // " ++ [27880; 37322]%N ++ runes_of_ascii "

  pack
	{

    //	t
  repeat

    zchar As,

i16 
roots

,}")).
Eval vm_compute in ("<<<M2905>>>" ++ check (runes_of_ascii "packet A {
  match k as n {
    [1, 22, ""c c"", 4, 5] : B,
    2 : C
  },
}")).
Eval vm_compute in ("<<<M4321>>>" ++ check (runes_of_ascii "
options

{ _x

    =
	0

;
    As

=zchar[  4294967296	]
    ;}  //x")).
Eval vm_compute in ("<<<M2884>>>" ++ check (runes_of_ascii "packet A {
  match k as n {
    [1, 22, 007, 4] : B,
    2 : C
  },
}")).
Eval vm_compute in ("<<<M2935>>>" ++ check (runes_of_ascii "packet A { Inner { match k as n { [1,22,007,4,5,66,7] : B, }, }, }")).
Eval vm_compute in ("<<<M922>>>" ++ check (runes_of_ascii "
packet _x  {repeat int8
    trueish
,// packet A { u8 x, }
}

")).
Eval vm_compute in ("<<<M770>>>" ++ check (runes_of_ascii "MetaData x
    /// triple
    {
int32 // " ++ [27880; 37322]%N ++ runes_of_ascii "
a1`say ""hi""`	, }
")).
Eval vm_compute in ("<<<M3571>>>" ++ check (runes_of_ascii "root packet P {
    repeat string ss,
    repeat u16 ns,
}
")).
Eval vm_compute in ("<<<M3380>>>" ++ check (runes_of_ascii "packet x { @rightPad ( ) repeat roots
// c
Logon `doc` , }")).
Eval vm_compute in ("<<<M1047>>>" ++ check (runes_of_ascii "options
{ stringy =  7;crc = ""x y"";}
MetaData f32a{ }
")).
Eval vm_compute in ("<<<M4471>>>" ++ check (runes_of_ascii "

  packet

A
{
	u8 x  , 
    // c
    u8  y  ,
	}

")).
Eval vm_compute in ("<<<M1384>>>" ++ check (runes_of_ascii "options {Foo// trailing space 
= // c
""abc"" ; }
")).
Eval vm_compute in ("<<<M3926>>>" ++ check (runes_of_ascii "  MetaData 
uint8x  // trailing space 

  {}

")).
Eval vm_compute in ("<<<M168>>>" ++ check (runes_of_ascii "root packet leftPad
    { f32a	tag ,
    }
")).
Eval vm_compute in ("<<<M2696>>>" ++ check (runes_of_ascii "; f32 , } true repeat u16 string lengthOf")).
Eval vm_compute in ("<<<M3202>>>" ++ check (runes_of_ascii "root packet u128 { chars `it's` ,
// c
}")).
Eval vm_compute in ("<<<M4297>>>" ++ check (runes_of_ascii "packet	int{

    }	packet 
roots{
	}")).
Eval vm_compute in ("<<<M3856>>>" ++ check (runes_of_ascii "
packet

A 
{
	u8
x 
`tab
	x` ,  }
")).
Eval vm_compute in ("<<<M2585>>>" ++ check (runes_of_ascii "packet A { string x @lengthOf(y) }")).
Eval vm_compute in ("<<<M21>>>" ++ check (runes_of_ascii "//	t
packet Packet{ u64 tag
,}
")).
Eval vm_compute in ("<<<M2735>>>" ++ check (runes_of_ascii ") char[] ] @leftPad ; f64 uint8")).
Eval vm_compute in ("<<<M3117>>>" ++ check (runes_of_ascii "packet A {
 u8 x `d" ++ [11]%N ++ runes_of_ascii "`, // c" ++ [11]%N ++ runes_of_ascii "
}")).
Eval vm_compute in ("<<<M2822>>>" ++ check (runes_of_ascii "sa;6G`'h:_2TsaQbH%GtGhb$f\i""")).
Eval vm_compute in ("<<<M792>>>" ++ check (runes_of_ascii "options { pack= int32 ;}
")).
Eval vm_compute in ("<<<M3254>>>" ++ check (runes_of_ascii "root // c
packet pack { }")).
Eval vm_compute in ("<<<M4606>>>" ++ check (runes_of_ascii "// c" ++ [11]%N ++ runes_of_ascii "
    	packet A {
} ")).
Eval vm_compute in ("<<<M730>>>" ++ check (runes_of_ascii "root	packet f32a { }
")).
Eval vm_compute in ("<<<M3478>>>" ++ check (runes_of_ascii "MetaData o { } // c
")).
Eval vm_compute in ("<<<M3146>>>" ++ check (runes_of_ascii "// c x
packet A {
}")).
Eval vm_compute in ("<<<M3090>>>" ++ check (runes_of_ascii "packet A {
}
// c" ++ [8202]%N)).
Eval vm_compute in ("<<<M2569>>>" ++ check (runes_of_ascii "packet A { u8 x }")).
Eval vm_compute in ("<<<M774>>>" ++ check (runes_of_ascii "options
    { }
")).
Eval vm_compute in ("<<<M2634>>>" ++ check (runes_of_ascii "packet A { } 1")).
Eval vm_compute in ("<<<M308>>>" ++ check (runes_of_ascii "options{
}")).
Eval vm_compute in ("<<<M2835>>>" ++ check (runes_of_ascii "char[ i64")).
Eval vm_compute in ("<<<M86>>>" ++ check (runes_of_ascii "
// c
")).
Eval vm_compute in ("<<<M2436>>>" ++ check (runes_of_ascii "zchar")).
Eval vm_compute in ("<<<M3800>>>" ++ check (runes_of_ascii "//
 
")).
Eval vm_compute in ("<<<M333>>>" ++ check (runes_of_ascii "

")).
Eval vm_compute in ("<<<M2813>>>" ++ check (runes_of_ascii "t^h")).
Eval vm_compute in ("<<<M2497>>>" ++ check (runes_of_ascii "/")).
