From FP Require Import Lexer Parser ShowPT Digest Formatter.
From Coq Require Import String List NArith.
Import ListNotations.
Open Scope string_scope.
Set Printing Width 100000000.
Set Printing Depth 100000000.
Definition show_fres (r : fres) : string :=
  match r with
  | FOk s => "OK:" ++ sh_escaped s ""
  | FErr s => "ERR:" ++ sh_escaped s ""
  | FPanic p => "PANIC:" ++ p
  end.
Definition check (rs : list rune) : string := digest (show_fres (format_res rs)).
Definition full (rs : list rune) : string := show_fres (format_res rs).
Eval vm_compute in ("<<<M28>>>" ++ check (runes_of_ascii "packet
tag { repeat
    //
    T MetaDataX
    , @calculatedFrom(
//
/// triple
""`tick`""  ) @tag( 007 ) leftPad `tab	here` , @tag( 0123456789  )
char x , @tag(0 ) u64 tag
    ,
i8 roots
    // a // b
    ,
    @lengthOf(
float ) @tag( 10 )
// c
// `tick` ""quote"" 'q'
body { chars
{repeat int8  body , }  , repeat Header {char[]
    leftPad	, },	match  Logon as zchar  { 4294967296 :
    len , ""a\""b"":A //
00
: x_y_z,
} , repeat i16	options1
, }
    , @calculatedFrom( """ ++ [128512]%N ++ runes_of_ascii """)@rightPad ( '0'
) i16 Pad , //
int64
    As @lengthOf(
crc ) , } MetaData x_y_z {u crc
, } root packet
Z9_{ @calculatedFrom( ""{,}"" ) tag, @lengthOf( lengthOf ) zchar[  42 ] crc //x
`" ++ [233]%N ++ runes_of_ascii "`
// a // b
// @lengthOf(
, char[ 007 ] options1 ,
}packet
    // `tick` ""quote"" 'q'
    x {char	trueish
    ,	char[] packetx @calculatedFrom(""" ++ [28040; 24687]%N ++ runes_of_ascii """)
    `line1
line2` ,  zchar[
1
    ]
    Foo // " ++ [128512]%N ++ runes_of_ascii " emoji
, zchar[ 00 ]
A , match msg_type as tag { """" : leftPad , [ """ ++ [128512]%N ++ runes_of_ascii """ ,
    0 ,10
    ,  3//	t
] :
Z9_,  ""it's"":	float , 10 : calculatedFrom ""x y"" // @lengthOf(
:
    f32a
    007	: roots
    , } // `tick` ""quote"" 'q'
,} packet
    u{ // trailing space 
@calculatedFrom( ""\n"" ) @calculatedFrom( ""a\""b"" )	i64_
rootA , match // @lengthOf(
x as Logon {
    1
:
    body,
""a\\"" /// triple
: _x ""packet"" : BodyLength,
},
    //x
    @rightPad ( '\x00'//x
) @calculatedFrom( """ ++ [128512]%N ++ runes_of_ascii """ )	repeat stringy { match
//x
// packet A { u8 x, }
T as float { ""a\\"" : len
    0:
BodyLength , [ ""it's""
, ""{,}"" , 255 // a // b
, 0123456789, ""a\\"" ] :
    Logon, 3:rootA
    // " ++ [27880; 37322]%N ++ runes_of_ascii "
    ,
    }
//
// packet A { u8 x, }
,
} ,//
u16 uint8x `{ , }`,
// trailing space 
//x
@leftPad
    // a // b
    (
'0' )  string i64_@lengthOf(  stringy  ),
// `tick` ""quote"" 'q'
// @lengthOf(
u64 leftPad@calculatedFrom( // " ++ [27880; 37322]%N ++ runes_of_ascii "
""a	b"" ) , repeat // @lengthOf(
Header MetaDataX `a\`
, @lengthOf(stringy
    )	Packet
leftPad , @tag( 00 ) repeat zchar _x `tab	here` , i32	matchKey , }
")).
Eval vm_compute in ("<<<M374>>>" ++ check (runes_of_ascii "packet BodyLength// packet A { u8 x, }
{ leftPad lengthOf ,	float rootA `it's`	, @leftPad (
    '0' ) repeat
    BodyLength ,@rightPad
(
    ) i16// a // b
falsey @lengthOf(// a // b
i64_ ) , // `tick` ""quote"" 'q'
repeat
char[ 0123456789 ]uint8x , repeat
    // " ++ [27880; 37322]%N ++ runes_of_ascii "
    f64 i64_,	a1 tag`" ++ [233]%N ++ runes_of_ascii "` ,char[ 10 ]packetx
`say ""hi""`
,
    repeat  tag metadata
`tab	here` , }
    /// triple
    options {
crc = """"
    ;
}
    packet int
{ repeat zchar[	255
    ]	i64_ `two words`//x
,
    string tag@lengthOf( // a // b
Header )
,char chars ,
@lengthOf(
    crc ) match asx as Foo{ 7  : BodyLength , ""packet"" : Z9_
,007 :
    matchKey ,} ,
uint16 metadata// a // b
,
i64_ {	repeat
u8
msg_type, stringy {char[ 0123456789 ] // c
o @calculatedFrom(
""\n"" ) `" ++ [233]%N ++ runes_of_ascii "` ,}
/// triple
// packet A { u8 x, }
, zchar[
00]
    stringy	`line1
line2`
, } ,
@leftPad//
('0') match uint8x as u128 {
[ 1 // a // b
, ""abc"" ]
    : _x  ""a	b"" :Packet
    // c
    3 : _x //	t
, ""`tick`"" :
packetx ,
""\n""
: Header ,  } ,
x
    // c
    @calculatedFrom(
    /// triple
    ""\n"" ) ,zchar[ 65535 ]
    Packet//x
,
} MetaData Logon{
    } packet packetx {
@calculatedFrom( ""a\\"" )
match roots as Foo { [""\n"", 4294967296 ] : asx ,00
:  o , ""{,}"" :Header ,255 : packetx , [255,4294967296	] :MetaDataX
    ,  } , }")).
Eval vm_compute in ("<<<M278>>>" ++ check (runes_of_ascii "MetaData f32a { uint8
/// triple
//x
x ,
f64 As
`" ++ [233]%N ++ runes_of_ascii "`
    // packet A { u8 x, }
    , i64 f32a `u8 x,`  , uint32 // " ++ [128512]%N ++ runes_of_ascii " emoji
string_ `crlf
line` , char[ 10] pack
    `a\` /// triple
,Packet lengthOf	,}
    root
packet
    MetaDataX { i32	u8x`tab	here` ,
char[] stringy @lengthOf( repeatCount
    ) `crlf
line` , @rightPad ( )@lengthOf( Foo  ) char[
65535	] body  , repeat pack{
rootA `it's`
    , match msg_type as  x_y_z {
1:
i64_ , 0123456789
:Logon
    , [ ""CRC32""]
:
A 1
: _x , // a // b
[ 42
    // a // b
    ] //
:// @lengthOf(
repeatCount , ""a	b""
: pack
    ,
},
char[
    4294967296]lengthOf @lengthOf( options1//x
), } , @tag( 4294967296 ) // " ++ [128512]%N ++ runes_of_ascii " emoji
@calculatedFrom( //x
""" ++ [128512]%N ++ runes_of_ascii """ )
// " ++ [128512]%N ++ runes_of_ascii " emoji
// " ++ [27880; 37322]%N ++ runes_of_ascii "
repeat string	u, @lengthOf( // @lengthOf(
f32a	) @tag(
    007 ) @tag(
7  ) msg_type Pad  , }
    MetaData roots
    { u64 MetaDataX
,}
packet // " ++ [27880; 37322]%N ++ runes_of_ascii "
roots
{
@tag(
    255 )
    char[
0123456789
]  Logon`" ++ [28040; 24687; 31867; 22411]%N ++ runes_of_ascii "`
    ,
    body // packet A { u8 x, }
@lengthOf( // a // b
u8x) `two words`
// " ++ [27880; 37322]%N ++ runes_of_ascii "
/// triple
, @lengthOf( Z9_
)
    packetx @calculatedFrom( """ ++ [28040; 24687]%N ++ runes_of_ascii """ )// " ++ [27880; 37322]%N ++ runes_of_ascii "
,
    }
")).
Eval vm_compute in ("<<<M131>>>" ++ check (runes_of_ascii "packet u128 {@lengthOf( x_y_z )	@lengthOf( stringy )
@lengthOf( _x) zchar[
// c
// c
4294967296 ] asx @calculatedFrom(
    ""\" ++ [233]%N ++ runes_of_ascii """	)
    `
` ,char[0 ] matchKey
, rootA
    u128
    ,
    metadata metadata ,	zchar[	3 ]
    string_ `" ++ [233]%N ++ runes_of_ascii "`
,
// `tick` ""quote"" 'q'
// " ++ [27880; 37322]%N ++ runes_of_ascii "
@calculatedFrom(""a	b""
)
char roots `" ++ [28040; 24687; 31867; 22411]%N ++ runes_of_ascii "` , repeat zchar[10]
pack
    `
`, @calculatedFrom( ""{,}"" )
@lengthOf( //	t
Foo )  packetx {// " ++ [128512]%N ++ runes_of_ascii " emoji
match i8i8 as Header
{ 255	: Z9_  """ ++ [233]%N ++ runes_of_ascii "t" ++ [233]%N ++ runes_of_ascii """ :tag
, [ 7,	1, ""// no comment"", ""// no comment"" , 3
,
    """" , // `tick` ""quote"" 'q'
1 ] :lengthOf 3 :  asx , [ 42	,
0 , 1 ] :Z9_ , 10 :
    A}, } , }root packet T {/// triple
int32 roots `two words`, stringy, @rightPad ( '\x00')float64 len	@lengthOf( o )
    ,match body // `tick` ""quote"" 'q'
as	uint8x { 10
    :
tag , }
    ,
    repeat u8
    Pad
    `" ++ [28040; 24687; 31867; 22411]%N ++ runes_of_ascii "`
    , repeat char[]
    float // c
, @calculatedFrom(	""packet"" ) u16 x
    @lengthOf(
u8x)
// c
// a // b
, } //x")).
Eval vm_compute in ("<<<M10>>>" ++ check (runes_of_ascii "
options{
crc
// " ++ [128512]%N ++ runes_of_ascii " emoji
// trailing space 
= uint8} packet len {uint8x @calculatedFrom( ""x y"" ), @lengthOf(
    rootA  )
    @lengthOf( body
// `tick` ""quote"" 'q'
// `tick` ""quote"" 'q'
)@calculatedFrom(  ""x y""
) Packet  @calculatedFrom(// `tick` ""quote"" 'q'
""\n"" )
`
`
, Packet ,  repeat
    // trailing space 
    i8	Z9_ , @tag(255 )
falsey `
` ,	i64 int `line1
line2` ,@calculatedFrom(
    ""\n""
// packet A { u8 x, }
/// triple
) @leftPad()
@calculatedFrom(//	t
""abc"" )// packet A { u8 x, }
BodyLength ,uint8 u , @calculatedFrom(
    ""a\""b""
) @lengthOf( metadata ) @rightPad (' ') // packet A { u8 x, }
char[10] f32a , }  packet repeatCount { }options  {
string_ =  i32 ;
o =	""a	b"" ;
    i8i8	=
    ""a\""b"" ; uint8x =
uint16
    // " ++ [128512]%N ++ runes_of_ascii " emoji
    ;
}")).
Eval vm_compute in ("<<<M164>>>" ++ check (runes_of_ascii "MetaData
Packet {
    float	Pad ,u32 // " ++ [128512]%N ++ runes_of_ascii " emoji
Foo `it's`
    ,uint16 stringy
    , } packet
    stringy // @lengthOf(
{ @lengthOf(
    chars
) repeat f32 pack ,  @lengthOf(
rootA
)
    // @lengthOf(
    @calculatedFrom( ""CRC32""  ) char[] MetaDataX
    // a // b
    `" ++ [28040; 24687; 31867; 22411]%N ++ runes_of_ascii "` , @tag( 4294967296
    ) len	@calculatedFrom(""a	b"")
,
} packet
stringy { f32 leftPad/// triple
,
stringy { int	@calculatedFrom(""1"" ) `" ++ [233]%N ++ runes_of_ascii "`,	char[] o, zchar[ 0123456789  ]
    matchKey @lengthOf(	lengthOf )
`two words`
, }
,
@leftPad ('\x00'
) @lengthOf(
// " ++ [128512]%N ++ runes_of_ascii " emoji
/// triple
falsey) repeat string falsey
    `// not a comment` // trailing space 
, //	t
string Pad
    , }

")).
Eval vm_compute in ("<<<M1489>>>" ++ check (runes_of_ascii "// top
packet // c0a
  // c0b
A // c1a
  // c1b
{ // c2
u8 a // c4a
  // c4b
, // c5a
  // c5b
} packet
    // c7
B // c8a
  // c8b
{ // c9a
  // c9b
u16 // c10a
  // c10b
b
    // c11
,
    // c12
} // c13
root // c14
packet // c15a
  // c15b
P { // c17
u8 // c18a
  // c18b
K1 , // c20a
  // c20b
u8 // c21
K2 , // c23
match K1
    // c25
as M1 // c27
{ // c28a
  // c28b
1 // c29a
  // c29b
:
    // c30
A // c31a
  // c31b
, // c32a
  // c32b
} , match // c35
K2 as
    // c37
M2
    // c38
{ 1 // c40a
  // c40b
:
    // c41
B , } // c44
,
    // c45
}
    // c46
")).
Eval vm_compute in ("<<<M1825>>>" ++ check (runes_of_ascii "
options

{ StringPrefixLenType = 
u8 ;	ArrayPrefixLenType=u32	;

}

packet Quote
	{ u32
    Ref 
, 
InNote74  { 
u8  pad0, }, }packet Ack

    {
repeat string

    OrderId,
}

    packet
Logout
	{ zchar[  7

    ]
venue, 
char[

12

    ]
Px

,
	string
    count ,
	char[] Tail	,

    char[]

Qty,

    Quote
	,

} root 
packet Trade{	zchar[	2 ] 
price
,

u32
    x , u32 lastPx @lengthOf(
Body ),	match 
x
	as Body
	{ 148: Ack  ,

171:
Quote, 15 
:

    Logout
,  }
    ,	} ")).
Eval vm_compute in ("<<<M349>>>" ++ check (runes_of_ascii "MetaData string_ {
char[]
Packet `
`
    , i8i8 A  ,
string A
`it's`
,// trailing space 
uint64 int
, }
// trailing space 
// " ++ [27880; 37322]%N ++ runes_of_ascii "
MetaData Z9_ { Header crc , // " ++ [27880; 37322]%N ++ runes_of_ascii "
} MetaData T {// c
float32 Z9_ `// not a comment`
    , char[] /// triple
uint8x`line1
line2` ,
Header u8x,
char[ 3] a1	,
    }MetaData Logon { a1 // " ++ [128512]%N ++ runes_of_ascii " emoji
repeatCount `say ""hi""` , char[
    42  ] Foo
    ,
    zchar[ 00
    ] metadata
,
int16  zchar `it's` , }")).
Eval vm_compute in ("<<<M99>>>" ++ check (runes_of_ascii "packet i8i8{ matchKey //x
, match trueish
//	t
// c
as roots
{  [ 00 ] : int , 255 :  u128  ,	3 : matchKey , [ 65535 ]
    :
// c
//
trueish , //	t
}
    , } packet packetx{ }
packet
u8x {@tag(
3
    )
    match x_y_z as
leftPad
{ [ 7 ]:  u8x }
    , @tag(  42
) int64 lengthOf ,@tag(
255 )	zchar[ 7 ]	o , A ,@tag( 0
    // @lengthOf(
    ) repeat lengthOf u8x, }
")).
Eval vm_compute in ("<<<M1714>>>" ++ check (runes_of_ascii "
root packet  tag
{

    }

packet
	MetaDataX {
char[  007
] 

    // c
/// triple
  asx
    @calculatedFrom(

    ""a\""b""

) `say ""hi""`  // " ++ [27880; 37322]%N ++ runes_of_ascii "

  ,

    @tag(
    4294967296 
) char[ 
1	//x

	]
	packetx

@calculatedFrom(""a\""b""
)	,

    // " ++ [128512]%N ++ runes_of_ascii " emoji
  // a // b
	  @calculatedFrom( """ ++ [233]%N ++ runes_of_ascii "t" ++ [233]%N ++ runes_of_ascii """

    ) pack // " ++ [27880; 37322]%N ++ runes_of_ascii "

  ,
	} 	 // c
 
")).
Eval vm_compute in ("<<<M1176>>>" ++ check (runes_of_ascii "// top
MetaData
    // c0
float
    // c1
{
    // c2
float64
    // c3
charz
    // c4
`
`
    // c5
,
    // c6
}
    // c7
root
    // c8
packet
    // c9
chars
    // c10
{
    // c11
@rightPad
    // c12
(
    // c13
'0'
    // c14
)
    // c15
Foo
    // c16
,
    // c17
}
    // c18
")).
Eval vm_compute in ("<<<M634>>>" ++ check (runes_of_ascii "root packet tag { }  packet MetaDataX{char[007	]
// c
/// triple
asx  @calculatedFrom( ""a\""b""
) `say ""hi""`// " ++ [27880; 37322]%N ++ runes_of_ascii "
,  @tag(4294967296 )
    char[1//x
] packetx @calculatedFrom(""a\""b""
    ) ,
// " ++ [128512]%N ++ runes_of_ascii " emoji
// a // b
@calculatedFrom(""" ++ [233]%N ++ runes_of_ascii "t" ++ [233]%N ++ runes_of_ascii """  ) repeat repeat pack // " ++ [27880; 37322]%N ++ runes_of_ascii "
,
    } // c")).
Eval vm_compute in ("<<<M499>>>" ++ check (runes_of_ascii "root packet tag { } }  packet MetaDataX{char[007	]
// c
/// triple
asx  @calculatedFrom( ""a\""b""
) `say ""hi""`// " ++ [27880; 37322]%N ++ runes_of_ascii "
,  @tag(4294967296 )
    char[1//x
] packetx @calculatedFrom(""a\""b""
    ) ,
// " ++ [128512]%N ++ runes_of_ascii " emoji
// a // b
@calculatedFrom(""" ++ [233]%N ++ runes_of_ascii "t" ++ [233]%N ++ runes_of_ascii """  ) repeat pack // " ++ [27880; 37322]%N ++ runes_of_ascii "
,
    } // c")).
Eval vm_compute in ("<<<M616>>>" ++ check (runes_of_ascii "root packet tag { }  packet MetaDataX{char[007	]
// c
/// triple
asx  @calculatedFrom( ""a\""b""
) `say ""hi""`// " ++ [27880; 37322]%N ++ runes_of_ascii "
,  @tag(4294967296 )
    char[1//x
] packetx @calculatedFrom(""a\""b""
    ) u8
// " ++ [128512]%N ++ runes_of_ascii " emoji
// a // b
@calculatedFrom(""" ++ [233]%N ++ runes_of_ascii "t" ++ [233]%N ++ runes_of_ascii """  ) repeat pack // " ++ [27880; 37322]%N ++ runes_of_ascii "
,
    } // c")).
Eval vm_compute in ("<<<M605>>>" ++ check (runes_of_ascii "root packet tag { }  packet MetaDataX{char[007	]
// c
/// triple
asx  @calculatedFrom( ""a\""b""
) `say ""hi""`// " ++ [27880; 37322]%N ++ runes_of_ascii "
,  @tag(4294967296 )
    char[1//x
] packetx @calculatedFrom()
    ""a\""b"" ,
// " ++ [128512]%N ++ runes_of_ascii " emoji
// a // b
@calculatedFrom(""" ++ [233]%N ++ runes_of_ascii "t" ++ [233]%N ++ runes_of_ascii """  ) repeat pack // " ++ [27880; 37322]%N ++ runes_of_ascii "
,
    } // c")).
Eval vm_compute in ("<<<M1509>>>" ++ check (runes_of_ascii "packet MDSnapshotZZ {
    u8 a,
}
packet OrderACK {
    u16 b,
}
packet HTTPServerInfo {
    string s,
}
root packet FIXMsg {
    u8 KType,
    MDSnapshotZZ,
    repeat OrderACK,
    match KType as Body {
        1 : HTTPServerInfo,
        2 : OrderACK,
    },
}
")).
Eval vm_compute in ("<<<M508>>>" ++ check (runes_of_ascii "root packet tag { }  packet {char[007	]
// c
/// triple
asx  @calculatedFrom( ""a\""b""
) `say ""hi""`// " ++ [27880; 37322]%N ++ runes_of_ascii "
,  @tag(4294967296 )
    char[1//x
] packetx @calculatedFrom(""a\""b""
    ) ,
// " ++ [128512]%N ++ runes_of_ascii " emoji
// a // b
@calculatedFrom(""" ++ [233]%N ++ runes_of_ascii "t" ++ [233]%N ++ runes_of_ascii """  ) repeat pack // " ++ [27880; 37322]%N ++ runes_of_ascii "
,
    } // c")).
Eval vm_compute in ("<<<M361>>>" ++ check (runes_of_ascii "root
packet
f32a {
trueish
    falsey
, tag , repeat
    // trailing space 
    Pad{ u32
    i8i8 @calculatedFrom(""x y""
    )
, } ,@calculatedFrom( ""// no comment""  )@lengthOf( calculatedFrom
    ) @tag(	65535)  string T,
    }

")).
Eval vm_compute in ("<<<M1808>>>" ++ check (runes_of_ascii "
MetaData x_y_z

    {
	string
msg_type 
`" ++ [233]%N ++ runes_of_ascii "`
,}

    packet

chars
	{

repeat
i32

metadata `say ""hi""` , 
@leftPad( )
    @tag( 0123456789	)  repeat
    zchar[
	    // a // b
	007	]
//x
  lengthOf 
,	}
")).
Eval vm_compute in ("<<<M1728>>>" ++ check (runes_of_ascii "
packet
u128
{
    u8 a,
    } root

    packet

Msg{	u8

    k	,	u24 
{  u8	Hi
,	u16 Lo
, 
}

    ,
	repeat
	i24
	{
    u32 q
,} , u128
    ,
	u16

float32x

,
	string
    s 
, }
")).
Eval vm_compute in ("<<<M463>>>" ++ check (runes_of_ascii "packet
    // `tick` ""quote"" 'q'
    crc@leftpad
// packet A { u8 x, }
//	t
{
u32 a1 ,
    // trailing space 
    roots
charz //
`two words`,	}
    MetaData int {
} /// triple")).
Eval vm_compute in ("<<<M410>>>" ++ check (runes_of_ascii "packet
    // `tick` ""quote"" 'q'
    crc
// packet A { u8 x, }
//	t
{
u32 a1 , ,
    // trailing space 
    roots
charz //
`two words`,	}
    MetaData int {
} /// triple")).
Eval vm_compute in ("<<<M329>>>" ++ check (runes_of_ascii "packet
pack
    { pack calculatedFrom, len, u16	T,
@lengthOf( trueish) repeat
leftPad ,
@calculatedFrom( """ ++ [233]%N ++ runes_of_ascii "t" ++ [233]%N ++ runes_of_ascii """	) @rightPad	( '0' ) f64 a1,repeat
trueish Header , } 	 ")).
Eval vm_compute in ("<<<M392>>>" ++ check (runes_of_ascii "packet
    // `tick` ""quote"" 'q'
    42
// packet A { u8 x, }
//	t
{
u32 a1 ,
    // trailing space 
    roots
charz //
`two words`,	}
    MetaData int {
} /// triple")).
Eval vm_compute in ("<<<M1753>>>" ++ check (runes_of_ascii "// top
packet metadata {
    // c2
    Logon {
        // c4
        A `" ++ [28040; 24687; 31867; 22411]%N ++ runes_of_ascii "`,// c7
        tag o,// c10
    },// c12
    zchar len `// not a comment`,// c16
}// c17")).
Eval vm_compute in ("<<<M58>>>" ++ check (runes_of_ascii "root packet chars { /// triple
int16 trueish	@lengthOf( MetaDataX)
`tab	here`,} MetaData
T
// a // b
// c
{
    int64 packetx `doc`
    // @lengthOf(
    ,}")).
Eval vm_compute in ("<<<M1785>>>" ++ check (runes_of_ascii "
packet A { match  k as

n {
	[	1  ,

    ""bb"" 
, 
007 , ""d""  ,
5 
, 
""f""
	, 7

    ,	""h""

, 9,
	""j"",  11 
,	""l""

    ]: B 2
:
C } 
, 
}

")).
Eval vm_compute in ("<<<M104>>>" ++ check (runes_of_ascii "/// triple
options  { Header = 65535
    ; calculatedFrom =
""x y"" trueish = true i8i8 = false metadata // trailing space 
=	""" ++ [28040; 24687]%N ++ runes_of_ascii """ ;
}
")).
Eval vm_compute in ("<<<M1897>>>" ++ check (runes_of_ascii "packet A {
    match k as n {
        [
            1, 22, 007, 4, 5,
            66, 7, 8
        ] : B,
        2 : C,
    },
}")).
Eval vm_compute in ("<<<M1227>>>" ++ check (runes_of_ascii "root packet matchKey // c
{ zchar[ 3 ] pack @calculatedFrom( ""a	b"" ) `doc` , } options { } MetaData A { int8 msg_type , }")).
Eval vm_compute in ("<<<M1259>>>" ++ check (runes_of_ascii "root packet matchKey { zchar[ 3 ] pack @calculatedFrom( ""a	b"" ) `doc` , } options { } MetaData A // c
{ int8 msg_type , }")).
Eval vm_compute in ("<<<M2112>>>" ++ check (runes_of_ascii "packet  chars {
} packet  MetaDataX  {
@tag(42

    )i16 string_
	,

    repeat

    x // c
  `say ""hi""`

,
}")).
Eval vm_compute in ("<<<M2122>>>" ++ check (runes_of_ascii "

  packet
metadata {
Logon {
A
`" ++ [28040; 24687; 31867; 22411]%N ++ runes_of_ascii "`  ,  tag
	o

,
} 

    // c
	  , zchar  len
	`// not a comment`,
	}

")).
Eval vm_compute in ("<<<M957>>>" ++ check (runes_of_ascii "packet A {
    Inner {
        u8 x `tab
	x`,
        Deep {
            u8 y `tab
	x`,
        },
    },
}")).
Eval vm_compute in ("<<<M907>>>" ++ check (runes_of_ascii "packet A {
  match k as n {
    [1, 22, ""c c"", 4, 5, ""f"", 7, 8, ""i"", 10, 11, ""l""] : B,
    2 : C
  },
}")).
Eval vm_compute in ("<<<M945>>>" ++ check (runes_of_ascii "packet A {
    Inner {
        u8 x `x
`,
        Deep {
            u8 y `x
`,
        },
    },
}")).
Eval vm_compute in ("<<<M461>>>" ++ check (runes_of_ascii "packet
    // `tick` ""quote"" 'q'
    crc
// packet A { u8 x, }
//	t
{
u32 a1 ,
    // trailing ")).
Eval vm_compute in ("<<<M1095>>>" ++ check (runes_of_ascii "// top
root // c0
packet // c1
u128 // c2
{ // c3
chars // c4
`it's` // c5
, // c6
} // c7
")).
Eval vm_compute in ("<<<M1186>>>" ++ check (runes_of_ascii "MetaData float { float64 // c
charz `
` , } root packet chars { @rightPad ( '0' ) Foo , }")).
Eval vm_compute in ("<<<M1397>>>" ++ check (runes_of_ascii "packet
// c
chars { } packet MetaDataX { @tag( 42 ) i16 string_ , repeat x `say ""hi""` , }")).
Eval vm_compute in ("<<<M1429>>>" ++ check (runes_of_ascii "packet chars { } packet MetaDataX { @tag( 42 ) i16 string_ , repeat x `say ""hi""` ,
// c
}")).
Eval vm_compute in ("<<<M1127>>>" ++ check (runes_of_ascii "packet metadata
// c
{ Logon { A `" ++ [28040; 24687; 31867; 22411]%N ++ runes_of_ascii "` , tag o , } , zchar len `// not a comment` , }")).
Eval vm_compute in ("<<<M1376>>>" ++ check (runes_of_ascii "packet o { repeat Logon uint8x , } options { asx = zchar[ 3 ] stringy = '\x00' } // c
")).
Eval vm_compute in ("<<<M1364>>>" ++ check (runes_of_ascii "packet o { repeat Logon uint8x , } options { asx = zchar[ // c
3 ] stringy = '\x00' }")).
Eval vm_compute in ("<<<M839>>>" ++ check (runes_of_ascii "packet A {
  match k as n {
    [1, ""bb"", 007, ""d"", 5, ""f"", 7] : B
    2 : C
  },
}")).
Eval vm_compute in ("<<<M1325>>>" ++ check (runes_of_ascii "MetaData body { i64 pack `it's` , } packet stringy { // c
int16 calculatedFrom , }")).
Eval vm_compute in ("<<<M834>>>" ++ check (runes_of_ascii "packet A {
  match k as n {
    [1, 22, 007, 4, 5, 66, 7] : B,
    2 : C
  },
}")).
Eval vm_compute in ("<<<M2086>>>" ++ check (runes_of_ascii "packet A {
    match k as n {
        [1, 22] : B,
        2 : C,
    },
}")).
Eval vm_compute in ("<<<M161>>>" ++ check (runes_of_ascii "// trailing space 
packet
Header { // c
repeat  char[] MetaDataX , }")).
Eval vm_compute in ("<<<M775>>>" ++ check (runes_of_ascii "packet A {
  match k as n {
    [""a"", ""bb""] : B,
    2 : C
  },
}")).
Eval vm_compute in ("<<<M144>>>" ++ check (runes_of_ascii "MetaData Pad{	x_y_z
    // packet A { u8 x, }
    T ,
    }
")).
Eval vm_compute in ("<<<M1285>>>" ++ check (runes_of_ascii "packet x { @rightPad (
// c
) repeat roots Logon `doc` , }")).
Eval vm_compute in ("<<<M1647>>>" ++ check (runes_of_ascii "
root  packet

A

    { u8

    x
`a

b`
,
	}

")).
Eval vm_compute in ("<<<M1692>>>" ++ check (runes_of_ascii "root packet P {
    repeat char cs,
    u8 x,
}")).
Eval vm_compute in ("<<<M2015>>>" ++ check (runes_of_ascii "MetaData float {
    f64 u8x `
        `,
}")).
Eval vm_compute in ("<<<M1113>>>" ++ check (runes_of_ascii "root packet u128 { chars `it's` ,
// c
}")).
Eval vm_compute in ("<<<M244>>>" ++ check (runes_of_ascii "
packet/// triple
packetx {
} // " ++ [27880; 37322]%N)).
Eval vm_compute in ("<<<M760>>>" ++ check ([17; 65533; 65533]%N ++ runes_of_ascii "Ab" ++ [65533]%N ++ runes_of_ascii ";A" ++ [65533; 65533; 65533; 65533]%N ++ runes_of_ascii "B" ++ [6; 65533; 1016; 65533]%N ++ runes_of_ascii "L" ++ [65533; 65533]%N ++ runes_of_ascii "33" ++ [65533; 65533]%N ++ runes_of_ascii "I+" ++ [65533; 65533]%N ++ runes_of_ascii "&" ++ [65533]%N ++ runes_of_ascii "P")).
Eval vm_compute in ("<<<M1072>>>" ++ check (runes_of_ascii "MetaData M {
}// c
options {}")).
Eval vm_compute in ("<<<M1167>>>" ++ check (runes_of_ascii "root packet // c
pack { }")).
Eval vm_compute in ("<<<M507>>>" ++ check (runes_of_ascii "root packet tag { }")).
Eval vm_compute in ("<<<M1007>>>" ++ check (runes_of_ascii "// c" ++ [8232]%N ++ runes_of_ascii "
packet A {
}")).
Eval vm_compute in ("<<<M1004>>>" ++ check (runes_of_ascii "packet A {
}// c" ++ [8232]%N)).
Eval vm_compute in ("<<<M745>>>" ++ check (runes_of_ascii "cJ<op-O(/i*")).
Eval vm_compute in ("<<<M1010>>>" ++ check (runes_of_ascii "// c" ++ [8233]%N)).
