From FP Require Import Lexer Parser ShowPT Digest Formatter.
From Coq Require Import String List NArith.
Import ListNotations.
Open Scope string_scope.
Set Printing Width 100000000.
Set Printing Depth 100000000.
Definition show_fres (r : fres) : string :=
  match r with
  | FOk s => "OK:" ++ sh_escaped s ""
  | FErr s => "ERR:" ++ sh_escaped s ""
  | FPanic p => "PANIC:" ++ p
  end.
Definition check (rs : list rune) : string := digest (show_fres (format_res rs)).
Definition full (rs : list rune) : string := show_fres (format_res rs).
Eval vm_compute in ("<<<M940>>>" ++ check (runes_of_ascii "// trailing space 
root
    packet metadata { @lengthOf(
asx) x zchar `{ , }`
,
} packet len { //x
@tag(  7 ) char[] Pad	, @lengthOf( i8i8
) char[ 7 ]
    //
    repeatCount ,
char[ 4294967296]
x_y_z,// @lengthOf(
repeat  charz { // a // b
match len
as
// @lengthOf(
// " ++ [128512]%N ++ runes_of_ascii " emoji
i8i8{
    /// triple
    3	: Header, ""// no comment"" : Z9_
//
//x
""// no comment""
: packetx [	65535 ,""\" ++ [233]%N ++ runes_of_ascii """] // a // b
:
// `tick` ""quote"" 'q'
// a // b
falsey // " ++ [27880; 37322]%N ++ runes_of_ascii "
,
} , repeat// c
uint32 u8x , }
,
    @tag( //
007)  T { a1 { match
tag as body { ""x y""
: f32a //x
,
    7: f32a ,
""it's""
    // c
    :_x, 007 :msg_type , [ 0 ,""""]  : // " ++ [128512]%N ++ runes_of_ascii " emoji
T , }
    // c
    ,}
, }, }root
//
/// triple
packet
Pad { @leftPad	( '0') MetaDataX @lengthOf(
x_y_z )`// not a comment` , }root packet chars { @lengthOf(
//
// a // b
crc)string_ {
    zchar[ 3] msg_type@lengthOf(As) ,
    repeat char[
0]f32a //	t
, repeat float32 Logon	`" ++ [233]%N ++ runes_of_ascii "`
, repeat
u8 f32a  `it's` ,
} ,// `tick` ""quote"" 'q'
@tag(65535 )Packet{ repeat crc ,Header packetx `crlf
line` ,A @calculatedFrom( ""\" ++ [233]%N ++ runes_of_ascii """  ) ,}
//	t
//
,
    crc stringy  ,repeat//	t
string_ {
    u8x  {
    match asx as u128
{
    """ ++ [233]%N ++ runes_of_ascii "t" ++ [233]%N ++ runes_of_ascii """  :calculatedFrom	42 :
body
    , ""{,}""
: chars, [ 4294967296 ,1	]:	BodyLength 007
    // `tick` ""quote"" 'q'
    : len , // " ++ [128512]%N ++ runes_of_ascii " emoji
""abc"" /// triple
:
    a1 ,  }
    , } ,} ,
    match x_y_z as packetx {
3 // " ++ [27880; 37322]%N ++ runes_of_ascii "
: string_	, 0123456789:u
    , }
, match
MetaDataX
    // @lengthOf(
    as crc { 3
: u  ,
// a // b
// `tick` ""quote"" 'q'
3
    // packet A { u8 x, }
    : Z9_
// " ++ [128512]%N ++ runes_of_ascii " emoji
//
""a\""b""
// " ++ [128512]%N ++ runes_of_ascii " emoji
/// triple
:
// `tick` ""quote"" 'q'
// `tick` ""quote"" 'q'
MetaDataX
    // " ++ [27880; 37322]%N ++ runes_of_ascii "
    ,
65535 :
    Z9_,
// " ++ [27880; 37322]%N ++ runes_of_ascii "
// " ++ [128512]%N ++ runes_of_ascii " emoji
}
,
}packet
    packetx{
MetaDataX{ uint16 Header
``	, match
// `tick` ""quote"" 'q'
// trailing space 
_x as // trailing space 
Packet { 007 :  stringy ,
} , match Packet
as
    uint8x { """ ++ [128512]%N ++ runes_of_ascii """  :
As, """" :
falsey""{,}"" :packetx ,
0123456789  :/// triple
Pad,4294967296	: u
// @lengthOf(
// @lengthOf(
, }
    , }, pack @calculatedFrom(""it's"" )	,
repeat string trueish ,
}
")).
Eval vm_compute in ("<<<M841>>>" ++ check (runes_of_ascii "packet
repeatCount {// `tick` ""quote"" 'q'
u {
    /// triple
    repeat char[] packetx ,x_y_z { repeat
Foo Z9_
, match asx // " ++ [128512]%N ++ runes_of_ascii " emoji
as Logon
{ 1 :stringy , [ ""abc""
, 7	, ""abc"",
    10
    ,""1"" /// triple
] : charz
, }
,
    uint8x { MetaDataX roots
// packet A { u8 x, }
//x
,// 50% %s
u8  pack @calculatedFrom(
""\n""
)
// c
// @lengthOf(
, }
    ,x body ,
    // " ++ [27880; 37322]%N ++ runes_of_ascii "
    } ,}
    , @lengthOf( tag ) asx /// triple
,	zchar[
    00  ]x_y_z @calculatedFrom(""\" ++ [233]%N ++ runes_of_ascii """  )// trailing space 
`tab	here` , @calculatedFrom(
""CRC32""
    ) int32
// @lengthOf(
// @lengthOf(
A , @calculatedFrom( ""it's"" )	@leftPad ( ' ')@rightPad ( '\x00'
) match
leftPad	as roots{
    [ 255, 007
    //	t
    , 00//
, ""packet""] // " ++ [128512]%N ++ runes_of_ascii " emoji
:
    trueish ,// " ++ [27880; 37322]%N ++ runes_of_ascii "
}
, @tag(
    3 )string options1  @calculatedFrom( ""`tick`""
)`100% of %d` // trailing space 
, @leftPad (  '\x00'
)string uint8x , @leftPad (	' ')
    @calculatedFrom(""// no comment"") // " ++ [27880; 37322]%N ++ runes_of_ascii "
@tag( 00 ) metadata	@calculatedFrom(""1"" ) , }
    root packet a1 { chars
@calculatedFrom( ""\" ++ [233]%N ++ runes_of_ascii """ ) , @tag(
    0123456789
    // packet A { u8 x, }
    )
repeatCount i64_ , repeat len { repeat
zchar[ 255 ]
A `" ++ [233]%N ++ runes_of_ascii "` ,  string
calculatedFrom`100% of %d`, f32
    asx, } ,
@leftPad	(	) uint64 crc
    `a\` ,
@tag( 0123456789
    // 50% %s
    )
string string_ ,
T
{
char[ 255 ] T ,
}, calculatedFrom string_  ,
}MetaData leftPad {
o f32a
,
//	t
//	t
}
MetaData lengthOf
    {string	charz , u64 len
`{ , }`
//x
//	t
,
u16 T `tab	here`, char[] Foo, }
packet	f32a
    // `tick` ""quote"" 'q'
    {
match string_ as crc
// @lengthOf(
// `tick` ""quote"" 'q'
{255 :
Z9_,
[
    """ ++ [128512]%N ++ runes_of_ascii """
, 7]
    :
leftPad,
    // trailing space 
    ""\n""
:
float """ ++ [233]%N ++ runes_of_ascii "t" ++ [233]%N ++ runes_of_ascii """	: f32a , }
, repeat u128 { string int
/// triple
//	t
@lengthOf( rootA ) ,  }	, u , }

")).
Eval vm_compute in ("<<<M209>>>" ++ check (runes_of_ascii "
packet x
    { match Foo as stringy  {
    [
    ""CRC32"" , //	t
""{,}"" , ""it's""
,  ""a\\""
,
    // @lengthOf(
    """ ++ [28040; 24687]%N ++ runes_of_ascii """ , """ ++ [233]%N ++ runes_of_ascii "t" ++ [233]%N ++ runes_of_ascii """]
// " ++ [27880; 37322]%N ++ runes_of_ascii "
// @lengthOf(
: Packet ,} ,
match Header as
Foo
    {
[ 42
    , 1
]: BodyLength , }
    // `tick` ""quote"" 'q'
    , i64_ @calculatedFrom(
    ""it's"" ) `{ , }` ,
    } root // `tick` ""quote"" 'q'
packet	stringy { zchar[ 42 ]
    asx
`doc` ,
// packet A { u8 x, }
//x
}
    packet Z9_ { uint8
// " ++ [27880; 37322]%N ++ runes_of_ascii "
// " ++ [27880; 37322]%N ++ runes_of_ascii "
charz @calculatedFrom( ""CRC32"" ) `it's` , match stringy
    as  u128 { 42 : i8i8// trailing space 
, 0123456789 : charz ,
[00
, ""\" ++ [233]%N ++ runes_of_ascii """ , """ ++ [128512]%N ++ runes_of_ascii """ ,""\n"" , 10 , 42 ,	10 ] :
falsey	, 10 : pack
    ,	} , @tag( 10 ) repeat trueish
{ x_y_z MetaDataX `100% of %d` , } , tag
@calculatedFrom( ""`tick`"" ) ,
// c
// @lengthOf(
@calculatedFrom(""x y"" ) len // 50% %s
`
` ,@calculatedFrom( // " ++ [27880; 37322]%N ++ runes_of_ascii "
""`tick`""
    )repeat // a // b
pack { MetaDataX`" ++ [28040; 24687; 31867; 22411]%N ++ runes_of_ascii "` // `tick` ""quote"" 'q'
,repeat char[
007
    ]
Header // " ++ [128512]%N ++ runes_of_ascii " emoji
,}
, match msg_type as uint8x{ ""a\""b"" :uint8x 00: i64_,
10 : Header""packet"" :
f32a ,} , repeat string_ i8i8 , int32
    charz `// not a comment` ,@rightPad
( ) // 50% %s
match T
    as charz
{ [""\n""
    , """" , 10 , 10
,10 ,
10 , 4294967296 ]
:crc// packet A { u8 x, }
, ""a	b"" : a1
,	""\" ++ [233]%N ++ runes_of_ascii """  : // @lengthOf(
len
, 255
    // c
    :
x
    } ,}options { // " ++ [128512]%N ++ runes_of_ascii " emoji
packetx =false } packet u {
    //x
    @calculatedFrom( """ ++ [28040; 24687]%N ++ runes_of_ascii """ )repeat
// packet A { u8 x, }
// a // b
char[ 7 ]	Logon, }

")).
Eval vm_compute in ("<<<M1405>>>" ++ check (runes_of_ascii "options {
	StringPrefixLenType = u16;
	ArrayPrefixLenType = u16;
}

packet SampleBinary {
    uint16 MsgType `" ++ [28040; 24687; 31867; 22411]%N ++ runes_of_ascii "`,
    u16 BodyLenght @lengthOf(Body) `" ++ [28040; 24687; 20307; 38271; 24230]%N ++ runes_of_ascii "`,
    match MsgType as Body {
        1 : Logon,
        2 : Logout,
        3 : Heartbeat,
        4 : RiskControlRequest,
        5 : RiskControlResponse,
    },
        @calculatedFrom(""CRC32"")
    u32 Ckecksum `" ++ [26657; 39564; 21644]%N ++ runes_of_ascii "`,
}

packet Logon {
     @leftPad('0')
    char[10] UserName `" ++ [29992; 25143; 21517]%N ++ runes_of_ascii "`,
    string Password `" ++ [23494; 30721]%N ++ runes_of_ascii "`,
    uint64 ClientId `" ++ [23458; 25143; 31471]%N ++ runes_of_ascii "ID`,
    u16 HeartbeatInterval `" ++ [24515; 36339; 38388; 38548]%N ++ runes_of_ascii "`,
}

packet Logout {
      @rightPad('0')
    char[10] UserName `" ++ [29992; 25143; 21517]%N ++ runes_of_ascii "`,
    uint64 ClientId `" ++ [23458; 25143; 31471]%N ++ runes_of_ascii "ID`,
}

packet Heartbeat {
}

packet RiskControlRequest {
    string UniqueOrderId `" ++ [21807; 19968; 35746; 21333; 21495]%N ++ runes_of_ascii "`,
    char[16] ClOrdID `" ++ [23458; 25143; 35746; 21333; 21495]%N ++ runes_of_ascii "`,
    char[3] MarketID `" ++ [24066; 22330]%N ++ runes_of_ascii "id`,
    char[12] SecurityID `" ++ [35777; 21048; 20195; 30721]%N ++ runes_of_ascii "`,
    char Side `" ++ [20080; 21334; 26041; 21521]%N ++ runes_of_ascii "`,
    char OrderType `" ++ [35746; 21333; 31867; 22411]%N ++ runes_of_ascii "`,
    u64 Price `" ++ [20215; 26684]%N ++ runes_of_ascii "`,
    u32 Qty `" ++ [25968; 37327]%N ++ runes_of_ascii "`,
    repeat string ExtraInfo `" ++ [38468; 21152; 20449; 24687]%N ++ runes_of_ascii "`,
    repeat SubOrder {
    		char[16] ClOrdID `" ++ [23376; 35746; 21333; 21495]%N ++ runes_of_ascii "`,
    		u64 Price `" ++ [23376; 35746; 21333; 20215; 26684]%N ++ runes_of_ascii "`,
    		u32 Qty `" ++ [23376; 35746; 21333; 25968; 37327]%N ++ runes_of_ascii "`,
    	},
}

packet RiskControlResponse {
    string UniqueOrderId `" ++ [21807; 19968; 35746; 21333; 21495]%N ++ runes_of_ascii "`,
    i32 Status `" ++ [29366; 24577]%N ++ runes_of_ascii "`,
    string Msg `" ++ [32467; 26524; 20449; 24687]%N ++ runes_of_ascii "`,
    repeat Detail,
}

packet Detail {
    string RuleName `" ++ [35268; 21017; 21517; 31216]%N ++ runes_of_ascii "`,
    u16 Code `" ++ [21407; 22240; 20195; 30721]%N ++ runes_of_ascii "`,
}")).
Eval vm_compute in ("<<<M3965>>>" ++ check (runes_of_ascii "root packet x {
    @calculatedFrom(""" ++ [233]%N ++ runes_of_ascii "t" ++ [233]%N ++ runes_of_ascii """)
    // `tick` ""quote"" 'q'
    // 50% %s
    Header tag `
    `,
    pack BodyLength `" ++ [233]%N ++ runes_of_ascii "`,/// triple
    @tag(7)
    Packet,
}

packet BodyLength {
    BodyLength,
}

packet float {
    match packetx as u {
        [
            10, """ ++ [128512]%N ++ runes_of_ascii """, 255, ""// no comment"", 42,
            00, ""{,}"", """ ++ [28040; 24687]%N ++ runes_of_ascii """
        ] : Packet,
    },
    @rightPad('0')
    repeat uint16 chars,
    @calculatedFrom(""" ++ [233]%N ++ runes_of_ascii "t" ++ [233]%N ++ runes_of_ascii """)
    string leftPad,
    match len as stringy {
        3 : pack,
    },
    repeat u8 Foo,
    roots @lengthOf(len) `it's`,
    // a // b
    // trailing space 
    @lengthOf(u128)
    char[255] string_,
    zchar[0123456789] stringy,
    @tag(10)
    match metadata as A {
        0123456789 : lengthOf,
        10 : o,
        // packet A { u8 x, }
        // 50% %s
        [
            ""a	b"", 00, 3, 007, ""a\""b"",
            10
        ] : chars,
        42 : u,
        """ ++ [28040; 24687]%N ++ runes_of_ascii """ : f32a,
        7 : u8x,
    },
}

root packet u {
    repeat o {
        repeat crc {
            int8 i8i8 @calculatedFrom(""x y"") `tab	here`,
            repeat falsey {
                uint32 crc @lengthOf(MetaDataX) `100% of %d`,
            },
        },
    },
}")).
Eval vm_compute in ("<<<M4207>>>" ++ check (runes_of_ascii "options {
    // c1a
    // c1b
    LittleEndian = true;// c5
    StringPrefixLenType = u8;// c9a
    // c9b
    FixedStringPadFromLeft = false;// c13
    FixedStringPadChar = '0';// c17
}

// c18
packet Order {
    repeat string Px,// c25a
    // c25b
    repeat char[2] Qty,
    string Tail,// c34
    char[] OrderId,
    // c37
    int8 tag7,// c40
    int64 Flags,// c43
}// c44

packet Party {
    // c47a
    // c47b
    Order,// c49
    f32 lastPx,
    f32 Note,// c55a
    // c55b
    string x,
}// c59

packet Logon {
    uint8 OrderId,
    // c65
    string msgKind,// c68
    int32 lastPx,// c71
}// c72a

// c72b
packet Ack {
    // c75
}

// c76
packet Cancel {
    // c79
    repeat char[5] Note,// c85a
    // c85b
    repeat i32 x,
    Ack,
    // c91
    repeat InF16 {
        repeat i8 sym,
    },// c100a
    // c100b
    char[1] Acct,
    // c105
}// c106a

// c106b
root packet Fill {
    // c110
    i32 price,
    @leftPad(' ')
    // c117
    char[8] msgKind,
    // c122
    char[] Acct,// c125a
    // c125b
    char[] Note,// c128
    uint64 venue,// c131a
    // c131b
}// c132")).
Eval vm_compute in ("<<<M1313>>>" ++ check (runes_of_ascii "root packet
// " ++ [27880; 37322]%N ++ runes_of_ascii "
// `tick` ""quote"" 'q'
x {
}
    packet trueish{ @rightPad(' '  )
    repeat u16 As `tab	here`
, }
    root  packet Packet { falsey
    @calculatedFrom( """ ++ [28040; 24687]%N ++ runes_of_ascii """) //	t
, @lengthOf(	u128
    ) repeat zchar[	42]
calculatedFrom `it's`
, u64 options1 @lengthOf( repeatCount )	, @rightPad
    (' '
    )
    @calculatedFrom( ""x y"" ) @rightPad ( '\x00') msg_type {
string A @calculatedFrom(  ""`tick`"" ) // trailing space 
, i16  Pad
@calculatedFrom( """ ++ [233]%N ++ runes_of_ascii "t" ++ [233]%N ++ runes_of_ascii """) `line1
line2` , float64
roots  @lengthOf(
body // `tick` ""quote"" 'q'
), }
    , @tag( // 50% %s
007 )f32 BodyLength  @lengthOf( float ) ,	Pad Foo  ,char[] chars `it's` , @calculatedFrom( """ ++ [233]%N ++ runes_of_ascii "t" ++ [233]%N ++ runes_of_ascii """
    )
Pad
{ repeat BodyLength
uint8x , match Pad
    as Foo{""packet""
    : i64_ ,
[
4294967296 ,""{,}"" ]
:BodyLength 10 :repeatCount
    ,[
0123456789 ,3 , 42
, ""\n""	, ""x y""]: Logon ,  [  10 , ""`tick`""
, 0123456789]: tag ,42
: trueish	} , repeat
//
// trailing space 
zchar[ 4294967296
] Foo `it's`,
}
    , } packet float
    {	@tag(1 ) u64 options1@calculatedFrom(""a\""b"" )
    ,}")).
Eval vm_compute in ("<<<M1224>>>" ++ check (runes_of_ascii "// trailing space 
packet i8i8 //x
{ @leftPad (
'\x00'
) @tag( 007)i32 _x
`tab	here` ,
    @tag( 00
    )
    repeat a1`" ++ [28040; 24687; 31867; 22411]%N ++ runes_of_ascii "` , _x /// triple
`it's` // " ++ [27880; 37322]%N ++ runes_of_ascii "
,// " ++ [128512]%N ++ runes_of_ascii " emoji
@leftPad ( ' '
    ) @calculatedFrom(
    ""\n""
) @leftPad ( '0'	) repeat f64 a1 , match _x as repeatCount { 3 :
stringy, [	""abc""
] :	u8x , 42 : packetx
    ,""{,}"":charz
    00:matchKey //	t
,
    } //
,match crc as
options1{ 65535
    // packet A { u8 x, }
    : x
, 10 // " ++ [27880; 37322]%N ++ runes_of_ascii "
:	_x
//
//
, [ """ ++ [233]%N ++ runes_of_ascii "t" ++ [233]%N ++ runes_of_ascii """ , // @lengthOf(
""{,}""	] :chars ,  } , // trailing space 
x_y_z { i16	Packet , repeat chars `doc` , repeat u32	trueish,
float // a // b
o , }
, repeat
    int8 Packet, @lengthOf( // a // b
leftPad // packet A { u8 x, }
) repeat // packet A { u8 x, }
rootA
, int64
    float // packet A { u8 x, }
, }
    root packet rootA{ char[ 00 ]len @calculatedFrom(""packet"" )
, u32 float
@calculatedFrom( """ ++ [233]%N ++ runes_of_ascii "t" ++ [233]%N ++ runes_of_ascii """ // c
), } packet falsey{
    x_y_z	@calculatedFrom( ""{,}"" ) `100% of %d` ,} packet Pad { @tag( 4294967296) u8
int
, }
")).
Eval vm_compute in ("<<<M96>>>" ++ check (runes_of_ascii "packet calculatedFrom { repeat string x_y_z,As  @lengthOf(  options1
    ) `say ""hi""`
, @rightPad( ) int	{  repeat
As
    rootA``	,char[]
// " ++ [27880; 37322]%N ++ runes_of_ascii "
// `tick` ""quote"" 'q'
string_ ,// " ++ [27880; 37322]%N ++ runes_of_ascii "
repeat
    // " ++ [128512]%N ++ runes_of_ascii " emoji
    u128	u, } ,
    } packet
    Header{ }
packet charz {@lengthOf( rootA) u64 calculatedFrom @lengthOf( // c
lengthOf ) `100% of %d`
// 50% %s
// c
, asx @calculatedFrom( ""// no comment"" // `tick` ""quote"" 'q'
) , int32 len , } packet uint8x
{
    @tag(7 ) @calculatedFrom(""\n"" ) string _x , @calculatedFrom( ""`tick`""
    // trailing space 
    )@leftPad
    // trailing space 
    (' '
)// `tick` ""quote"" 'q'
zchar
,//x
@lengthOf( x_y_z ) o , i64_	pack ,
@leftPad (
)
    repeat zchar[ 255 //
] u , i8
    chars @calculatedFrom(
    // c
    ""a\\"" ) `crlf
line` ,
char u128 // a // b
`` ,
@calculatedFrom(/// triple
""\n"" )	repeat	tag body	,}
    // packet A { u8 x, }
    options{
    calculatedFrom =  i64 pack	= uint16 }
")).
Eval vm_compute in ("<<<M3876>>>" ++ check (runes_of_ascii "root packet uint8x {
    match roots as a1 {
        ""a\\"" : int,
    },
    stringy pack,
    string_ @lengthOf(msg_type) `100% of %d`,
    repeat f32 x_y_z `it's`,
    zchar[7] lengthOf @lengthOf(int),
}

options {
}

packet Logon {
    char[] _x `" ++ [28040; 24687; 31867; 22411]%N ++ runes_of_ascii "`,
    char[7] matchKey,
    @rightPad('0')
    char[3] len,
    Foo @calculatedFrom(""a	b""),// packet A { u8 x, }
}// `tick` ""quote"" 'q'

options {
}

root packet a1 {
    uint64 stringy,
    @tag(10)
    match a1 as BodyLength {
        [10, 4294967296, 1] : zchar,
    },
    @rightPad()
    string string_ @lengthOf(x_y_z) `two words`,
    char[] T,
    @leftPad('0')
    string_ {
        /// triple
        //x
        match matchKey as crc {
            [""\" ++ [233]%N ++ runes_of_ascii """, 3, ""x y""] : calculatedFrom,
        },
        u128 Packet `{ , }`,
        float o,
        Packet @calculatedFrom(""{,}""),
        /// triple
        //	t
    },
}")).
Eval vm_compute in ("<<<M577>>>" ++ check (runes_of_ascii "  options { } root // @lengthOf(
packet x_y_z // @lengthOf(
{string	u128 ,i8 zchar , repeatCount roots `crlf
line`  ,} options {	float=char[
0
    ] // c
}
packet  packetx
    {
    @rightPad// c
( '0'
//
// @lengthOf(
) Packet { roots x
,
    } , zchar[ 0  ] trueish	@lengthOf( // 50% %s
zchar ), @lengthOf( float ) @leftPad(
'0' ) //x
@lengthOf( calculatedFrom ) char[/// triple
4294967296  ]
    x `" ++ [28040; 24687; 31867; 22411]%N ++ runes_of_ascii "` ,Z9_	@calculatedFrom( ""\n"" ),} packet MetaDataX {@rightPad //	t
( '0' ) @tag( 42
)a1 `` ,@calculatedFrom( """ ++ [233]%N ++ runes_of_ascii "t" ++ [233]%N ++ runes_of_ascii """ ) @tag( 007) @leftPad
    ( // packet A { u8 x, }
) char[ 1
] roots @lengthOf(
    repeatCount ) , char[]string_
@lengthOf( repeatCount )
,@tag( 3 )char[] x_y_z `u8 x,` ,  f64 o @lengthOf(
o ) , @calculatedFrom( """ ++ [28040; 24687]%N ++ runes_of_ascii """//x
) zchar[ 007 ] options1
    @lengthOf( msg_type) , @rightPad
( // c
'0'	)lengthOf  ,int8
a1 ,  }
")).
Eval vm_compute in ("<<<M4041>>>" ++ check (runes_of_ascii "root packet Foo {
    char[] lengthOf,
    @rightPad('0')
    string i8i8,
    repeat uint32 u8x,
    @tag(255)
    char[] leftPad `" ++ [28040; 24687; 31867; 22411]%N ++ runes_of_ascii "`,
    falsey @calculatedFrom(""a	b"") `crlf
        line`,
    @rightPad(' ')
    zchar[65535] matchKey,
}

root packet f32a {
    repeat packetx,
    //
    // " ++ [27880; 37322]%N ++ runes_of_ascii "
    @lengthOf(matchKey)
    match MetaDataX as i8i8 {
        7 : u8x,
        ""a	b"" : calculatedFrom,
    },
    @calculatedFrom(""1"")
    // `tick` ""quote"" 'q'
    lengthOf @lengthOf(f32a),
    len A,
    chars @lengthOf(calculatedFrom),
    zchar[0123456789] f32a,
    char[] metadata `tab	here`,
    As @lengthOf(_x) `say ""hi""`,
}

root packet As {
    int32 metadata `" ++ [233]%N ++ runes_of_ascii "`,
    x,
}

options {
    x = char[10];
    x_y_z = zchar[007];
    matchKey = zchar[00]
    asx = zchar[0123456789]
    //
}")).
Eval vm_compute in ("<<<M834>>>" ++ check (runes_of_ascii "packet
// trailing space 
/// triple
uint8x { match leftPad as float { 0123456789 // " ++ [27880; 37322]%N ++ runes_of_ascii "
: tag[ 007 ]
: Logon ,
    ""it's"" : leftPad  , """ ++ [128512]%N ++ runes_of_ascii """	: lengthOf , }
    , } // 50% %s
packet x { @tag(	42 ) // c
rootA
    // @lengthOf(
    chars , @calculatedFrom(
    ""a\""b"" )
@rightPad
    // " ++ [128512]%N ++ runes_of_ascii " emoji
    ( )@tag(  7)
    /// triple
    match A  as matchKey
{	[42 // packet A { u8 x, }
] :
    msg_type""x y""	:lengthOf ""a\\""
    :
packetx
// " ++ [27880; 37322]%N ++ runes_of_ascii "
// 50% %s
,  [""`tick`""
// " ++ [27880; 37322]%N ++ runes_of_ascii "
// `tick` ""quote"" 'q'
, ""x y"" , ""a\""b""
,	""x y"" , 00
    ,""it's""
    , 7// `tick` ""quote"" 'q'
,""""
]
    // `tick` ""quote"" 'q'
    : Logon
}, @lengthOf(
falsey )
repeat
falsey`" ++ [28040; 24687; 31867; 22411]%N ++ runes_of_ascii "`, u8x { // trailing space 
int16 lengthOf`100% of %d`
,
    match/// triple
tag
as f32a {
    7 :
x ,}
    ,	} ,
}
")).
Eval vm_compute in ("<<<M1185>>>" ++ check (runes_of_ascii "MetaData lengthOf { uint32 charz`100% of %d`//	t
,
    } packet zchar{
    @calculatedFrom(	""x y"" ) match As
// trailing space 
// `tick` ""quote"" 'q'
as As
{ [ 7 ,""" ++ [128512]%N ++ runes_of_ascii """
    ] : lengthOf, [""""
, 007
,
    3 , 42	, ""\n""// packet A { u8 x, }
] :Packet // " ++ [27880; 37322]%N ++ runes_of_ascii "
, //x
} , @leftPad ()
    @tag( 42 ) zchar// c
,
@lengthOf( x ) uint16 crc // " ++ [27880; 37322]%N ++ runes_of_ascii "
@lengthOf(lengthOf // " ++ [128512]%N ++ runes_of_ascii " emoji
) `u8 x,`// c
,Foo { repeat packetx , zchar[3] chars@lengthOf(
/// triple
//	t
tag ), string chars
    // `tick` ""quote"" 'q'
    @calculatedFrom(	""abc"" ) `a\`,
}	, @rightPad( '0'  )Logon {
// " ++ [128512]%N ++ runes_of_ascii " emoji
// " ++ [27880; 37322]%N ++ runes_of_ascii "
int16 leftPad
//	t
// `tick` ""quote"" 'q'
@calculatedFrom(	""""),
Foo@calculatedFrom(  ""\" ++ [233]%N ++ runes_of_ascii """
) ,
// 50% %s
// @lengthOf(
int16  len `u8 x,` , } ,	} MetaData matchKey {
    }
")).
Eval vm_compute in ("<<<M230>>>" ++ check (runes_of_ascii "root packet Header { @calculatedFrom( //
""abc""
) uint8 metadata ,
@tag(
65535
    ) @tag( 3 )
i8 charz , @calculatedFrom( """"
) @lengthOf( A ) @leftPad( ) uint16 Z9_ ,
repeat zchar[ // " ++ [27880; 37322]%N ++ runes_of_ascii "
1 ] metadata
``,u8x @calculatedFrom(	""" ++ [128512]%N ++ runes_of_ascii """ )
    //x
    `{ , }` //x
, repeat f32
    Foo , len
// " ++ [128512]%N ++ runes_of_ascii " emoji
// `tick` ""quote"" 'q'
@calculatedFrom( ""// no comment"" )
,repeat char[ 3  ]tag, repeat zchar[ 0123456789 ]
    asx
,
    u128, } options {	asx =007 ; calculatedFrom
    = false ; uint8x= zchar[ 65535
]
; A=
' '
    } packet len
    // `tick` ""quote"" 'q'
    { @leftPad
    ( ' ' )	string Pad
    // packet A { u8 x, }
    @calculatedFrom(""a\""b""  )	,
    }packet stringy  {@leftPad(
' ' ) repeat i64_ ,
    }
")).
Eval vm_compute in ("<<<M3593>>>" ++ check (runes_of_ascii "root packet T {
}

MetaData Header {
    zchar[4294967296] i64_ `" ++ [28040; 24687; 31867; 22411]%N ++ runes_of_ascii "`,
}

packet leftPad {
    @calculatedFrom(""a\\"")
    match charz as a1 {
        /// triple
        ""`tick`"" : As,
        [10, 3] : u8x,
        [255, 0] : leftPad,
        10 : repeatCount,
    },
    @tag(007)
    // packet A { u8 x, }
    uint8 f32a,
    @rightPad(' ')
    @leftPad('\x00')
    @lengthOf(stringy)
    T @lengthOf(charz),
    metadata matchKey,
    A T,
    @leftPad('0')
    char[1] Packet,
    @tag(7)
    @leftPad(' ')
    zchar[7] rootA @lengthOf(uint8x),
    // `tick` ""quote"" 'q'
    zchar[0123456789] Header `u8 x,`,
    char[255] x @lengthOf(MetaDataX) `line1
        line2`,
}")).
Eval vm_compute in ("<<<M3925>>>" ++ check (runes_of_ascii "options {
    // c1
    LittleEndian = false;
    // c5
    ArrayPrefixLenType = u8;
    // c9
}

// c10
packet Reject {
    int8 x,
}

packet Trade {
    zchar[4] msgKind,
    // c25
}

// c26
root packet Leg {
    // c30
    repeat i64 Note,
    u8 venue,// c37a
    // c37b
    @leftPad('0')
    // c41
    char[6] Qty,
    // c46
    @rightPad('\x00')
    char[12] count,
    repeat Reject,
    repeat char[3] Px,// c64a
    // c64b
    u16 lastPx,// c67a
    // c67b
    u16 Acct @lengthOf(Body),// c73
    match lastPx as Body {
        // c78
        104 : Reject,
        // c82
        61 : Trade,
        // c86a
        // c86b
    },// c88
}")).
Eval vm_compute in ("<<<M3492>>>" ++ check (runes_of_ascii "// top
packet
    // c0
Sub // c1a
  // c1b
{
    // c2
u8 a
    // c4
, // c5
@calculatedFrom( // c6a
  // c6b
""CRC16""
    // c7
) // c8a
  // c8b
i16 // c9
SubSum ,
    // c11
} root // c13
packet // c14a
  // c14b
Frame // c15a
  // c15b
{ // c16a
  // c16b
u16 MsgType // c18
, // c19a
  // c19b
u16 BodyLen // c21
@lengthOf(
    // c22
Body ) // c24a
  // c24b
, Sub Body // c27
, // c28
string note // c30
,
    // c31
@calculatedFrom( // c32a
  // c32b
""CRC16"" // c33a
  // c33b
) // c34
i16 // c35a
  // c35b
Checksum // c36a
  // c36b
, u8 // c38a
  // c38b
tail // c39a
  // c39b
, // c40a
  // c40b
} // c41a
  // c41b
")).
Eval vm_compute in ("<<<M3763>>>" ++ check (runes_of_ascii "options {
    i8i8 = ""1""
    u = ""a	b"";
    a1 = zchar[00];
    // c
    o = ""a	b"";
    float = char[];
}

root packet chars {
}

packet body {
    repeat u8x {
        int16 zchar,
        char[1] o `" ++ [233]%N ++ runes_of_ascii "`,
    },
}

packet BodyLength {
    // c
    @rightPad('0')
    u16 u8x @calculatedFrom(""// no comment""),
    @tag(1)
    // a // b
    // " ++ [128512]%N ++ runes_of_ascii " emoji
    match i8i8 as u128 {
        007 : len,
        """ ++ [128512]%N ++ runes_of_ascii """ : u128,
    },
    repeat repeatCount `u8 x,`,
    @calculatedFrom(""x y"")
    falsey {
        char[255] crc,
        Logon `two words`,
        roots options1,
    },
}

root packet calculatedFrom {
}")).
Eval vm_compute in ("<<<M539>>>" ++ check (runes_of_ascii "root packet lengthOf// packet A { u8 x, }
{  repeat float
{
int32 crc
    // 50% %s
    @calculatedFrom( ""{,}"" ) ,match chars//x
as _x
    { 00: crc , [	""a\""b"" , 10, 255 ] :chars
, 0123456789 : crc
, } , //x
match Foo
as
roots { ""a\\""
: string_ 007:
u8x
    [
""" ++ [128512]%N ++ runes_of_ascii """ ,""it's"" ]
    : MetaDataX ,[4294967296 ,0123456789 , 10 // 50% %s
]
:crc , [
""a\\"" ,7 ]	: trueish ,[	10
,	1
] :	string_ ,
    }, }
    // trailing space 
    ,}	packet
    // c
    f32a{
    // @lengthOf(
    @leftPad	(
/// triple
// 50% %s
) @tag(
    // @lengthOf(
    7 ) @lengthOf( T )
repeat
packetx x_y_z, }")).
Eval vm_compute in ("<<<M1052>>>" ++ check (runes_of_ascii "packet Z9_ {string u8x
    `
` ,
    @tag(
    3
// " ++ [128512]%N ++ runes_of_ascii " emoji
//	t
) f64 rootA // " ++ [128512]%N ++ runes_of_ascii " emoji
@calculatedFrom( ""packet"" )
`two words` , } root packet
    A
{  char // `tick` ""quote"" 'q'
o	@calculatedFrom(	""it's"" ) , @calculatedFrom( ""a\""b"" )@lengthOf( f32a )match lengthOf as asx
    {""// no comment""// `tick` ""quote"" 'q'
://	t
packetx
, ""// no comment"": x  , [
4294967296]// packet A { u8 x, }
:rootA
, ""{,}"" : leftPad
,""\n""
    : // 50% %s
u	, 255
    :
leftPad	,  } , @calculatedFrom( ""1"" // a // b
)	repeat stringy { i64_ repeatCount , } , } // trailing space ")).
Eval vm_compute in ("<<<M4247>>>" ++ check (runes_of_ascii "root packet A {
    f64 chars @lengthOf(Z9_),
    @lengthOf(repeatCount)
    //
    match falsey as crc {
        7 : _x,
    },
}

packet body {
    @lengthOf(BodyLength)
    charz @calculatedFrom(""// no comment"") `line1
    line2`,
    @calculatedFrom(""// no comment"")
    @leftPad(' ')
    @lengthOf(body)
    options1 @lengthOf(string_) `
    `,
    match _x as lengthOf {
        // `tick` ""quote"" 'q'
        ""`tick`"" : u8x,
        ""abc"" : o,
        // c
        1 : metadata,
        [3] : uint8x,
        65535 : charz,
    },
}")).
Eval vm_compute in ("<<<M1035>>>" ++ check (runes_of_ascii "packet chars {	i8i8 @calculatedFrom(
// " ++ [27880; 37322]%N ++ runes_of_ascii "
// `tick` ""quote"" 'q'
""a\""b""
) `
` , @lengthOf(Foo
    ) @lengthOf( roots)@tag( 255 ) zchar[ 7
] rootA@calculatedFrom(	"""")`" ++ [28040; 24687; 31867; 22411]%N ++ runes_of_ascii "` ,
    }
// packet A { u8 x, }
//x
packet u128 {
match calculatedFrom as i64_ {	007
    : // @lengthOf(
charz 1	: u8x, 00 : // @lengthOf(
stringy
""1""	: roots 42
    :
Packet	, }
    ,
// " ++ [27880; 37322]%N ++ runes_of_ascii "
//	t
a1
    , u``,
    @calculatedFrom( ""`tick`"" ) @leftPad  (
    /// triple
    '0' )	repeat char[ 1]	x
,
    }
    options {Z9_
    =
'0'	;
    }
")).
Eval vm_compute in ("<<<M731>>>" ++ check (runes_of_ascii "root packet crc { repeat
f32a
metadata  , Pad { string leftPad @lengthOf(
Logon
)//
`u8 x,`, uint16 rootA `tab	here` ,char[ 007 ]
crc
    @calculatedFrom( ""a	b"" // c
) `two words`
    ,
    match
    rootA
as
chars{ [ 1 ,3
    ,00
, 255
    ] : uint8x ,
// `tick` ""quote"" 'q'
//
1:u, 1
:
int,  00  : MetaDataX, },
} , repeat uint32
len, repeat i8 roots `{ , }` ,
    i32 body // a // b
@lengthOf( calculatedFrom )
    , } packet  Pad
{
    }
    MetaData stringy{uint32 u128
    , }
")).
Eval vm_compute in ("<<<M652>>>" ++ check (runes_of_ascii "/// triple
root packet leftPad //
{
    repeat metadata Logon ,
    i32 crc
@lengthOf( f32a
),@lengthOf( packetx ) @rightPad	(' ' )
//
// @lengthOf(
@tag( 3
)
match falsey as leftPad {
    [ """ ++ [233]%N ++ runes_of_ascii "t" ++ [233]%N ++ runes_of_ascii """ ] :
crc ,
1
    : Packet //
,	[
""CRC32"" ,
    00 ,
    7 ]: A
, ""x y"" :
falsey ,[  007, ""x y"" ]: Logon
0123456789  :leftPad }
,repeat leftPad ,
@lengthOf(
int )	i8 o @lengthOf(
    i64_ )`two words`
, u128 {
tag{
repeat lengthOf zchar `{ , }` , } , } ,
    }")).
Eval vm_compute in ("<<<M614>>>" ++ check (runes_of_ascii "MetaData
    Z9_ { }root packet // " ++ [128512]%N ++ runes_of_ascii " emoji
MetaDataX{@calculatedFrom( ""// no comment"" ) match
Packet as body {
""" ++ [233]%N ++ runes_of_ascii "t" ++ [233]%N ++ runes_of_ascii """ :metadata """ ++ [28040; 24687]%N ++ runes_of_ascii """: // " ++ [128512]%N ++ runes_of_ascii " emoji
u8x
, 10 : matchKey
""" ++ [28040; 24687]%N ++ runes_of_ascii """: stringy ,	},@leftPad
('0' ) char[] pack , @lengthOf(
charz ) match
    charz	as metadata// packet A { u8 x, }
{
    ""{,}"" : i64_ ,[0 ] : calculatedFrom
    ,
    ""CRC32"" :
rootA , [
4294967296 , ""packet""] : len
//	t
// " ++ [27880; 37322]%N ++ runes_of_ascii "
, [""abc"" ] : msg_type ""a\""b"": repeatCount,
} , }")).
Eval vm_compute in ("<<<M4328>>>" ++ check (runes_of_ascii "packet Header {
    @tag(0)
    repeat string_ zchar,
    char Z9_ @lengthOf(charz),
    char[] Packet,
    // c
    @lengthOf(stringy)
    @tag(7)
    @calculatedFrom(""`tick`"")
    float32 string_ `" ++ [233]%N ++ runes_of_ascii "`,
}

MetaData charz {
    int32 string_,
}

root packet int {
    @calculatedFrom(""a	b"")
    zchar[65535] x_y_z `crlf
    line`,
    @leftPad()
    o `" ++ [28040; 24687; 31867; 22411]%N ++ runes_of_ascii "`,
    uint8 leftPad @calculatedFrom(""" ++ [128512]%N ++ runes_of_ascii """),
    stringy len `it's`,
}")).
Eval vm_compute in ("<<<M753>>>" ++ check (runes_of_ascii "MetaData // " ++ [128512]%N ++ runes_of_ascii " emoji
MetaDataX
    { }
    options { } options { Pad =
42;
    //x
    }
    // trailing space 
    packet calculatedFrom {
repeat o
{ // trailing space 
o  { zchar[ // 50% %s
007 ] x
`100% of %d`,
    } , } , }
root packet uint8x{
@calculatedFrom( ""a\\""
    //
    )
// `tick` ""quote"" 'q'
// trailing space 
uint16	pack@calculatedFrom(
    //x
    ""\n""
    // trailing space 
    ),
} // c")).
Eval vm_compute in ("<<<M775>>>" ++ check (runes_of_ascii "// " ++ [27880; 37322]%N ++ runes_of_ascii "
root packet u8x
    { @rightPad(  '0' )
// a // b
// `tick` ""quote"" 'q'
repeat char[]
Z9_ // c
, falsey
string_ `{ , }`// @lengthOf(
,match
    rootA as x_y_z {""" ++ [233]%N ++ runes_of_ascii "t" ++ [233]%N ++ runes_of_ascii """: charz ,
""" ++ [28040; 24687]%N ++ runes_of_ascii """ :len 0
: As ,
42// trailing space 
:
// 50% %s
// c
packetx
, } , } packet  int
{
    repeat	uint32
    body , @calculatedFrom(
""abc""
) //
@lengthOf(roots ) @lengthOf( u
    )char[] Packet `it's`  , }

")).
Eval vm_compute in ("<<<M901>>>" ++ check (runes_of_ascii "options
    {} packet
    Pad { repeat
    //	t
    packetx rootA `" ++ [233]%N ++ runes_of_ascii "` , char[ 255 ] asx `u8 x,` , }
packet f32a {/// triple
repeat len
, //x
match calculatedFrom  as  u128{
// " ++ [128512]%N ++ runes_of_ascii " emoji
// " ++ [128512]%N ++ runes_of_ascii " emoji
0123456789:crc ,	[ 0 , 10 ,
""" ++ [128512]%N ++ runes_of_ascii """ , 65535 ,
// 50% %s
//
7 , ""it's""
, 0123456789
]
: i64_, 0123456789 : msg_type // " ++ [27880; 37322]%N ++ runes_of_ascii "
,
    } , } options { Z9_ =string ;
matchKey =
    ""packet"" }")).
Eval vm_compute in ("<<<M4087>>>" ++ check (runes_of_ascii "packet u8x {
    float32 roots `u8 x,`,
    repeat float32 crc `" ++ [28040; 24687; 31867; 22411]%N ++ runes_of_ascii "`,
    u32 pack @lengthOf(f32a) `100% of %d`,// " ++ [128512]%N ++ runes_of_ascii " emoji
    match u128 as _x {
        [65535] : MetaDataX,
        //x
    },
}

packet x_y_z {
    @rightPad('\x00')
    i64 roots,
    @calculatedFrom(""packet"")
    match o as trueish {
        [1, 0123456789] : u8x,
        //	t
    },
}")).
Eval vm_compute in ("<<<M865>>>" ++ check (runes_of_ascii "MetaData stringy{ char[	3 ]
T
    ,
char[
255
    ] Logon ,zchar[ 007 ]
packetx  ,	i8	pack`` , // 50% %s
} // 50% %s
packet// trailing space 
Logon { match u
    // `tick` ""quote"" 'q'
    as
roots {
[""// no comment"" , ""it's"" ]:
    lengthOf ,}
, uint64
u128 @calculatedFrom( // a // b
""\" ++ [233]%N ++ runes_of_ascii """
) , string metadata `say ""hi""` ,	} /// triple")).
Eval vm_compute in ("<<<M38>>>" ++ check (runes_of_ascii "packet leftPad { @leftPad ( ' ')
    // a // b
    @calculatedFrom(
""abc"" )  @rightPad ('0'  )  repeat uint64
// `tick` ""quote"" 'q'
// @lengthOf(
x ,} // " ++ [27880; 37322]%N ++ runes_of_ascii "
packet x_y_z { int16 // @lengthOf(
crc @lengthOf( f32a
) `
`,
    @lengthOf(	a1
) char[ 0123456789 ] float `// not a comment` , int32 T @calculatedFrom( ""\" ++ [233]%N ++ runes_of_ascii """	) , }
")).
Eval vm_compute in ("<<<M199>>>" ++ check (runes_of_ascii "MetaData
x {
_x Z9_
`u8 x,` ,
Z9_ matchKey,
    u128
    // packet A { u8 x, }
    roots, lengthOf matchKey
    , char[3 // @lengthOf(
] packetx `100% of %d`
, char[
    7 ]
    // c
    options1 `doc`  ,// 50% %s
}
options
{ leftPad=' '} packet roots {float32 T
    @lengthOf( int  )
    `" ++ [233]%N ++ runes_of_ascii "` ,
}packet
rootA { }")).
Eval vm_compute in ("<<<M3755>>>" ++ check (runes_of_ascii "  // 50% %s
	packet

    a1 {
	zchar[ 
	// a // b
    // 50%@x %s
	  007
	]

T`it's`, 
@rightPad
// a // b
    	(

'\x00' )

o repeatCount
	,
}	packet  Logon

    {
    } packet

Logon  //x
{ 
repeat  // " ++ [128512]%N ++ runes_of_ascii " emoji
  uint16
	u128 

//
	`a\`
,
    falsey

@calculatedFrom(""packet"" )	,

    }")).
Eval vm_compute in ("<<<M1025>>>" ++ check (runes_of_ascii "packet uint8x
{
    @leftPad ('\x00' ) i32 x , @lengthOf( A
) //	t
f32a @lengthOf( // `tick` ""quote"" 'q'
u
)
, match
calculatedFrom // @lengthOf(
as
// a // b
// c
pack{ 3 : i8i8, } , char[] options1	@lengthOf( u128 )
    ,repeat char asx `doc`	, float32	pack @lengthOf(o  )
    ``,
}")).
Eval vm_compute in ("<<<M1400>>>" ++ check (runes_of_ascii "packet
Header {
} root
// " ++ [27880; 37322]%N ++ runes_of_ascii "
/// triple
packet BodyLength {	As {a1 { char[ 65535 ]crc `two words`
    , msg_type	, }	, }  ,repeat Z9_/// triple
{T ,	pack
,
repeat tag // " ++ [27880; 37322]%N ++ runes_of_ascii "
A
    , int64 // `tick` ""quote"" 'q'
f32a
`u8 x,`, }
, } packet
    packetx// a // b
{ }
/// triple
")).
Eval vm_compute in ("<<<M4083>>>" ++ check (runes_of_ascii "packet body {
    roots @lengthOf(stringy) `" ++ [28040; 24687; 31867; 22411]%N ++ runes_of_ascii "`,
    @leftPad(' ')
    @rightPad(' ')
    @leftPad()
    a1 @lengthOf(u),
    match x as x_y_z {
        [
            255, ""packet"", 007, 10, """ ++ [233]%N ++ runes_of_ascii "t" ++ [233]%N ++ runes_of_ascii """,
            3, ""it's""
        ] : leftPad,
    },
    zchar[1] i64_,
}")).
Eval vm_compute in ("<<<M298>>>" ++ check (runes_of_ascii "options	{ zchar//
=
false  i64_= ' ' ; x = //
true ; Z9_	= zchar[
10 ] ;msg_type = i64 }  root packet
// `tick` ""quote"" 'q'
// @lengthOf(
lengthOf { repeat zchar[ 007]  A /// triple
,
// `tick` ""quote"" 'q'
// `tick` ""quote"" 'q'
} options {
options1 =
0123456789}
")).
Eval vm_compute in ("<<<M1695>>>" ++ check (runes_of_ascii "// 50% %s
packet	a1
    { zchar[
// a // b
// 50% %s
007]
T `it's`
    ,@rightPad
    // a // b
    (
'\x00')
    o repeatCount , }  packet Logon {  }packet	<Logon //x
{ repeat // " ++ [128512]%N ++ runes_of_ascii " emoji
uint16 u128
    //
    `a\`,
falsey
@calculatedFrom(""packet"" ) ,
    } 	 ")).
Eval vm_compute in ("<<<M1633>>>" ++ check (runes_of_ascii "// 50% %s
packet	a1
    { zchar[
// a // b
// 50% %s
007]
T `it's`
    ,@rightPad
    // a // b
    (
'\x00')
    o repeatCount , }  packet Logon {  }packet	Logon //x
repeat { // " ++ [128512]%N ++ runes_of_ascii " emoji
uint16 u128
    //
    `a\`,
falsey
@calculatedFrom(""packet"" ) ,
    } 	 ")).
Eval vm_compute in ("<<<M3468>>>" ++ check (runes_of_ascii "options {LittleEndian=

true
;StringPrefixLenType=
u16 ; ArrayPrefixLenType =
u8 ;
}
packet  Reject {

    repeat  char[ 1

]price,repeat
    InFlags60 {  u8
	pad0 ,
    } ,
u8
Qty, 
} root

packet
	Heartbeat
    {  repeat 
Reject
, repeat string
sym
, 
}")).
Eval vm_compute in ("<<<M1531>>>" ++ check (runes_of_ascii "// 50% %s
packet	a1
    { 
// a // b
// 50% %s
007]
T `it's`
    ,@rightPad
    // a // b
    (
'\x00')
    o repeatCount , }  packet Logon {  }packet	Logon //x
{ repeat // " ++ [128512]%N ++ runes_of_ascii " emoji
uint16 u128
    //
    `a\`,
falsey
@calculatedFrom(""packet"" ) ,
    } 	 ")).
Eval vm_compute in ("<<<M1370>>>" ++ check (runes_of_ascii "options
{}
packet
    calculatedFrom
    {
@lengthOf(
trueish // " ++ [128512]%N ++ runes_of_ascii " emoji
)  @lengthOf(
    // a // b
    asx )
@rightPad () char stringy @lengthOf( trueish
)
, } MetaData packetx{ // " ++ [27880; 37322]%N ++ runes_of_ascii "
f32 Pad `" ++ [28040; 24687; 31867; 22411]%N ++ runes_of_ascii "`
, int64 msg_type // 50% %s
, int32 matchKey
, }")).
Eval vm_compute in ("<<<M4307>>>" ++ check (runes_of_ascii "
options{

FixedStringPadChar
    = '0' ;
    } 
packet

Q { 
zchar[
4 
]
z
,

    @rightPad
	( '\x00'
) 
char[ 3  ]

n
	,  char[ 5 ]d

,

    } root

    packet
    R

    { 
Q ,zchar[
8 ]
top
,repeat
	zchar[	2

] 
zs
    ,
}
")).
Eval vm_compute in ("<<<M3538>>>" ++ check (runes_of_ascii "root packet zchar {
    repeat lengthOf crc,
    trueish @lengthOf(crc),
    @rightPad()
    @tag(0)
    char[7] tag,
}

options {
    leftPad = ""abc""
    Z9_ = true;
    Z9_ = '\x00'
    repeatCount = true
    MetaDataX = ""it's"";
}")).
Eval vm_compute in ("<<<M62>>>" ++ check (runes_of_ascii "
MetaData trueish { len packetx
`" ++ [28040; 24687; 31867; 22411]%N ++ runes_of_ascii "` , lengthOf len
// a // b
// trailing space 
,zchar[
7
    ]	T
`{ , }` , string_ // packet A { u8 x, }
f32a , len Z9_
`` , f64 options1 ,}	options
    {	u8x=
    string// 50% %s
;}")).
Eval vm_compute in ("<<<M1238>>>" ++ check (runes_of_ascii "options{x =
    3;  } packet
//x
// @lengthOf(
T{ a1
    roots , }options
// @lengthOf(
//
{ } options { } MetaData
a1 // a // b
{ uint64 int`two words` /// triple
, i32  options1	, string MetaDataX
    ,
    }
")).
Eval vm_compute in ("<<<M1023>>>" ++ check (runes_of_ascii "packet	o
{ chars { u32 T @lengthOf(
msg_type
    )
    , match Pad as i8i8 { [ ""1""
] :	a1 ,
    0: A ,//	t
007
: // @lengthOf(
roots,
42 : _x , 42
    : body ,
} , asx	`u8 x,` , }	,
    // " ++ [128512]%N ++ runes_of_ascii " emoji
    }")).
Eval vm_compute in ("<<<M3764>>>" ++ check (runes_of_ascii "packet Header {
    u128 @calculatedFrom(""""),
    @rightPad()
    // a // b
    zchar charz,
}

packet packetx {
    @calculatedFrom(""{,}"")
    string asx,
    f32 trueish @lengthOf(trueish),
}")).
Eval vm_compute in ("<<<M1284>>>" ++ check (runes_of_ascii "packet stringy { } // c
MetaData rootA
{ zchar[
42 ]	rootA
`it's`  , Logon i64_  ,
char[] repeatCount
`two words`	,
    //
    int64 int
, float64 tag `line1
line2` , f32 Foo `" ++ [233]%N ++ runes_of_ascii "` , }
")).
Eval vm_compute in ("<<<M1223>>>" ++ check (runes_of_ascii "//	t
options{ MetaDataX = true ; // `tick` ""quote"" 'q'
Foo =
    ' '} options {
tag=""{,}"" // " ++ [128512]%N ++ runes_of_ascii " emoji
As =
    char[ //	t
7 ]	; asx
= ' ' int =
    '\x00'
    ;}	options { }
")).
Eval vm_compute in ("<<<M100>>>" ++ check (runes_of_ascii "packet
_x  { @calculatedFrom( ""a\""b""
    //	t
    )
// a // b
/// triple
@rightPad (// " ++ [27880; 37322]%N ++ runes_of_ascii "
)
    asx
/// triple
//x
{ char[ 7
    //	t
    ]//
As // " ++ [128512]%N ++ runes_of_ascii " emoji
`` , } , }")).
Eval vm_compute in ("<<<M152>>>" ++ check (runes_of_ascii "// " ++ [128512]%N ++ runes_of_ascii " emoji
packet tag { @lengthOf( matchKey //	t
)	zchar[
    7
    ] i8i8 ,@rightPad
( //
'0'	)
    // " ++ [128512]%N ++ runes_of_ascii " emoji
    int64//x
i8i8
,
    zchar[	255 ] float ,
}
")).
Eval vm_compute in ("<<<M4445>>>" ++ check (runes_of_ascii "packet A {
    Inner {
        match k as n {
            [
                1, 22, 007, 4, 5,
                66, 7
            ] : B,
        },
    },
}")).
Eval vm_compute in ("<<<M2096>>>" ++ check (runes_of_ascii "MetaData BodyLength
{ int8 Foo
, string
    MetaDataX , float zchar zchar ,pack options1
,asx string_, }
packet u8x {Foo@lengthOf(charz )
`" ++ [28040; 24687; 31867; 22411]%N ++ runes_of_ascii "`,  }
")).
Eval vm_compute in ("<<<M2071>>>" ++ check (runes_of_ascii "MetaData BodyLength
{ int8 Foo
, , string
    MetaDataX , float zchar ,pack options1
,asx string_, }
packet u8x {Foo@lengthOf(charz )
`" ++ [28040; 24687; 31867; 22411]%N ++ runes_of_ascii "`,  }
")).
Eval vm_compute in ("<<<M2162>>>" ++ check (runes_of_ascii "MetaData BodyLength
{ int8 Foo
, string
    MetaDataX , float zchar ,pack options1
,asx string_, }
packet u8x {Foo charz@lengthOf( )
`" ++ [28040; 24687; 31867; 22411]%N ++ runes_of_ascii "`,  }
")).
Eval vm_compute in ("<<<M2117>>>" ++ check (runes_of_ascii "MetaData BodyLength
{ int8 Foo
, string
    MetaDataX , float zchar ,pack options1
asx, string_, }
packet u8x {Foo@lengthOf(charz )
`" ++ [28040; 24687; 31867; 22411]%N ++ runes_of_ascii "`,  }
")).
Eval vm_compute in ("<<<M2135>>>" ++ check (runes_of_ascii "MetaData BodyLength
{ int8 Foo
, string
    MetaDataX , float zchar ,pack options1
,asx string_, 
packet u8x {Foo@lengthOf(charz )
`" ++ [28040; 24687; 31867; 22411]%N ++ runes_of_ascii "`,  }
")).
Eval vm_compute in ("<<<M1964>>>" ++ check (runes_of_ascii "
packet leftPad {
@leftPad( '0')
@leftPad
i64_ `100% of %d` ,repeat// 50% %s
i8 chars
    ,
} MetaData
    f32a
{ // packet A { u8 x, }
}")).
Eval vm_compute in ("<<<M2299>>>" ++ check (runes_of_ascii "options
    {
x_y_z// " ++ [27880; 37322]%N ++ runes_of_ascii "
= 10 ; }
packet body {
    @calculatedFrom(
// trailing space 
// " ++ [27880; 37322]%N ++ runes_of_ascii "
""1""
)	match T as Foo
    {
255 255 :T , }
,}")).
Eval vm_compute in ("<<<M1957>>>" ++ check (runes_of_ascii "
packet leftPad {
@leftPad( '0') )
u32
i64_ `100% of %d` ,repeat// 50% %s
i8 chars
    ,
} MetaData
    f32a
{ // packet A { u8 x, }
}")).
Eval vm_compute in ("<<<M2329>>>" ++ check (runes_of_ascii "options
    {
x_y_z// " ++ [27880; 37322]%N ++ runes_of_ascii "
= 10 ; }
packet body {
    @calculatedFrom(
// trailing space 
// " ++ [27880; 37322]%N ++ runes_of_ascii "
""1""
)	match T as Foo
    {
255 :T , }
,} }")).
Eval vm_compute in ("<<<M1933>>>" ++ check (runes_of_ascii "
packet { leftPad
@leftPad( '0')
u32
i64_ `100% of %d` ,repeat// 50% %s
i8 chars
    ,
} MetaData
    f32a
{ // packet A { u8 x, }
}")).
Eval vm_compute in ("<<<M2240>>>" ++ check (runes_of_ascii "options
    {
x_y_z// " ++ [27880; 37322]%N ++ runes_of_ascii "
= 10 ; packet
} body {
    @calculatedFrom(
// trailing space 
// " ++ [27880; 37322]%N ++ runes_of_ascii "
""1""
)	match T as Foo
    {
255 :T , }
,}")).
Eval vm_compute in ("<<<M2001>>>" ++ check (runes_of_ascii "
packet leftPad {
@leftPad( '0')
u32
i64_ `100% of %d` ,repeat// 50% %s
i8 chars
    ,
 MetaData
    f32a
{ // packet A { u8 x, }
}")).
Eval vm_compute in ("<<<M1605>>>" ++ check (runes_of_ascii "// 50% %s
packet	a1
    { zchar[
// a // b
// 50% %s
007]
T `it's`
    ,@rightPad
    // a // b
    (
'\x00')
    o repeatCount , }")).
Eval vm_compute in ("<<<M2218>>>" ++ check (runes_of_ascii "options
    {
// " ++ [27880; 37322]%N ++ runes_of_ascii "
= 10 ; }
packet body {
    @calculatedFrom(
// trailing space 
// " ++ [27880; 37322]%N ++ runes_of_ascii "
""1""
)	match T as Foo
    {
255 :T , }
,}")).
Eval vm_compute in ("<<<M2009>>>" ++ check (runes_of_ascii "
packet leftPad {
@leftPad( '0')
u32
i64_ `100% of %d` ,repeat// 50% %s
i8 chars
    ,
} ,
    f32a
{ // packet A { u8 x, }
}")).
Eval vm_compute in ("<<<M902>>>" ++ check (runes_of_ascii "options {
    rootA
    =/// triple
float32
; u8x//
= true ;Z9_=
// a // b
// trailing space 
'0' // a // b
; } // @lengthOf(")).
Eval vm_compute in ("<<<M3373>>>" ++ check (runes_of_ascii "packet B {
    u8 a,
}
root packet P {
    u8 K,
    u64 L @lengthOf(Body),
    match K as Body {
        1 : B,
    },
}
")).
Eval vm_compute in ("<<<M3972>>>" ++ check (runes_of_ascii "  packet A
{ match k
    as

n  {
[

    1
,
""bb""  ,
007
,""d"",5
	,  ""f""
    ,
7 
]

    : B , 2

:C	}
    , }
")).
Eval vm_compute in ("<<<M1916>>>" ++ check (runes_of_ascii "packet o {
    roots `it's`
// trailing space 
//x
, char[ 42
    ]  @ A, // " ++ [27880; 37322]%N ++ runes_of_ascii "
f64
repeatCount
    `crlf
line`
,}")).
Eval vm_compute in ("<<<M1831>>>" ++ check (runes_of_ascii "o packet {
    roots `it's`
// trailing space 
//x
, char[ 42
    ]  A, // " ++ [27880; 37322]%N ++ runes_of_ascii "
f64
repeatCount
    `crlf
line`
,}")).
Eval vm_compute in ("<<<M1902>>>" ++ check (runes_of_ascii "packet o {
    roots `it's`
// trailing space 
//x
, char[ 42
    ]  A, // " ++ [27880; 37322]%N ++ runes_of_ascii "
f64
repeatCount
    `crlf
line`
,")).
Eval vm_compute in ("<<<M2024>>>" ++ check (runes_of_ascii "
packet leftPad {
@leftPad( '0')
u32
i64_ `100% of %d` ,repeat// 50% %s
i8 chars
    ,
} MetaData
    f32a
{")).
Eval vm_compute in ("<<<M2331>>>" ++ check (runes_of_ascii "options
    {
x_y_z// " ++ [27880; 37322]%N ++ runes_of_ascii "
= 10 ; }
packet body {
    @calculatedFrom(
// trailing space 
// " ++ [27880; 37322]%N ++ runes_of_ascii "
""1""
)	match T ")).
Eval vm_compute in ("<<<M3075>>>" ++ check (runes_of_ascii "packet A {
    Inner {
        u8 x `%%d%!`,
        Deep {
            u8 y `%%d%!`,
        },
    },
}")).
Eval vm_compute in ("<<<M1892>>>" ++ check (runes_of_ascii "packet o {
    roots `it's`
// trailing space 
//x
, char[ 42
    ]  A, // " ++ [27880; 37322]%N ++ runes_of_ascii "
f64
repeatCount
    
,}")).
Eval vm_compute in ("<<<M3045>>>" ++ check (runes_of_ascii "packet A {
    Inner {
        u8 x `x
`,
        Deep {
            u8 y `x
`,
        },
    },
}")).
Eval vm_compute in ("<<<M2139>>>" ++ check (runes_of_ascii "MetaData BodyLength
{ int8 Foo
, string
    MetaDataX , float zchar ,pack options1
,asx string_,")).
Eval vm_compute in ("<<<M1425>>>" ++ check (runes_of_ascii "packet
T
char[ match repeatCount as	calculatedFrom
{ [65535 ]	: As	,
} ,}
// trailing space 
")).
Eval vm_compute in ("<<<M730>>>" ++ check (runes_of_ascii "//
options
{
// @lengthOf(
// a // b
i64_ =""a	b""; //x
BodyLength = ' '
;lengthOf  = f64 ; }
")).
Eval vm_compute in ("<<<M1502>>>" ++ check (runes_of_ascii "packet
T
{ match repeatCount as	calculatedFrom
{ [65535 ]	: As	,
} ,}
// tra" ++ [0]%N ++ runes_of_ascii "iling space 
")).
Eval vm_compute in ("<<<M1459>>>" ++ check (runes_of_ascii "packet
T
{ match repeatCount as	calculatedFrom
{ [] 65535	: As	,
} ,}
// trailing space 
")).
Eval vm_compute in ("<<<M1477>>>" ++ check (runes_of_ascii "packet
T
{ match repeatCount as	calculatedFrom
{ [65535 ]	: As	
} ,}
// trailing space 
")).
Eval vm_compute in ("<<<M1748>>>" ++ check (runes_of_ascii "options{  lengthOf =//x
i16;
    BodyLength true 0 ; pack
= false;
    A = char[ 3 ] }")).
Eval vm_compute in ("<<<M1818>>>" ++ check (runes_of_ascii "options{  leng@xthOf =//x
i16;
    BodyLength = 0 ; pack
= false;
    A = char[ 3 ] }")).
Eval vm_compute in ("<<<M490>>>" ++ check (runes_of_ascii "
options {
options1 =	true ;
trueish= int64; float = 10 ; matchKey =
    float64 }
")).
Eval vm_compute in ("<<<M4148>>>" ++ check (runes_of_ascii "

  options

{ charz

= // " ++ [128512]%N ++ runes_of_ascii " emoji
false ;
body =
//	t
//x
	'\x00';	int
	=  '0'	} ")).
Eval vm_compute in ("<<<M2119>>>" ++ check (runes_of_ascii "MetaData BodyLength
{ int8 Foo
, string
    MetaDataX , float zchar ,pack options1")).
Eval vm_compute in ("<<<M3281>>>" ++ check (runes_of_ascii "MetaData Foo { zchar[ 0 ] matchKey , } options { lengthOf = i32 u = 00 ; } // c
")).
Eval vm_compute in ("<<<M3254>>>" ++ check (runes_of_ascii "MetaData Foo { zchar[ 0
// c
] matchKey , } options { lengthOf = i32 u = 00 ; }")).
Eval vm_compute in ("<<<M1514>>>" ++ check (runes_of_ascii "packet
T
{ match repeatCount as	x" ++ [178]%N ++ runes_of_ascii "
{ [65535 ]	: As	,
} ,}
// trailing space 
")).
Eval vm_compute in ("<<<M4144>>>" ++ check (runes_of_ascii "packet _x {
    int8 Packet,
}

options {
}

options {
    options1 = ' ';
}")).
Eval vm_compute in ("<<<M3535>>>" ++ check (runes_of_ascii "packet BodyLength {
    repeat repeatCount,
    @tag(0)
    trueish _x,
}")).
Eval vm_compute in ("<<<M3564>>>" ++ check (runes_of_ascii "packet u8x{	}
    MetaData
crc{
char[  // c

4294967296 ]
Foo
	,

}
")).
Eval vm_compute in ("<<<M9>>>" ++ check (runes_of_ascii "MetaData len{
    zchar
    // " ++ [128512]%N ++ runes_of_ascii " emoji
    Header `line1
line2` ,	}
")).
Eval vm_compute in ("<<<M2834>>>" ++ check (runes_of_ascii "match match match zchar[ ] 10 repeat @calculatedFrom( float64 char")).
Eval vm_compute in ("<<<M2876>>>" ++ check (runes_of_ascii "packet A {
  match k as n {
    [""a"", ""bb""] : B
    2 : C
  },
}")).
Eval vm_compute in ("<<<M137>>>" ++ check (runes_of_ascii "// @lengthOf(
packet repeatCount {	} MetaData o {asx crc , }
")).
Eval vm_compute in ("<<<M3310>>>" ++ check (runes_of_ascii "packet u8x { } MetaData crc { char[ 4294967296 ]
// c
Foo , }")).
Eval vm_compute in ("<<<M3207>>>" ++ check (runes_of_ascii "packet A { @leftPad() char[4] x, @rightPad( ) zchar[2] y, }")).
Eval vm_compute in ("<<<M3067>>>" ++ check (runes_of_ascii "packet A {
    B b `%`,
    B `%`,
    repeat B bs `%`,
}")).
Eval vm_compute in ("<<<M3186>>>" ++ check (runes_of_ascii "packet A { match k as n { 1 : B // a // b 2 : C }, }")).
Eval vm_compute in ("<<<M3552>>>" ++ check (runes_of_ascii "root packet leftPad {
    u64 Z9_ `doc`,// 50% %s
}")).
Eval vm_compute in ("<<<M1340>>>" ++ check (runes_of_ascii "// " ++ [27880; 37322]%N ++ runes_of_ascii "
options { As
    = false x =
false;
}
//x
")).
Eval vm_compute in ("<<<M323>>>" ++ check (runes_of_ascii "//	t
options
    { // 50% %s
body = 3
    }
")).
Eval vm_compute in ("<<<M1749>>>" ++ check (runes_of_ascii "options{  lengthOf =//x
i16;
    BodyLength")).
Eval vm_compute in ("<<<M2378>>>" ++ check (runes_of_ascii "MetaData
Foo {Header //
pack float32	} 	 ")).
Eval vm_compute in ("<<<M4016>>>" ++ check (runes_of_ascii "options {
	a =
	""x\
y""	;
b= ""x\
y""
	}

")).
Eval vm_compute in ("<<<M63>>>" ++ check (runes_of_ascii "root packet
f32a {
    // a // b
    }")).
Eval vm_compute in ("<<<M2398>>>" ++ check (runes_of_ascii "MetaData
Foo {Header //
pack ,	} 	 " ++ [65279]%N ++ runes_of_ascii " ")).
Eval vm_compute in ("<<<M3059>>>" ++ check (runes_of_ascii "root packet A {
    u8 x `tab
	x`,
}")).
Eval vm_compute in ("<<<M1061>>>" ++ check (runes_of_ascii "options { } root packet _x
    { }")).
Eval vm_compute in ("<<<M2779>>>" ++ check (runes_of_ascii "float32 float64 char } int64 root")).
Eval vm_compute in ("<<<M4162>>>" ++ check (runes_of_ascii "root packet T {
    // " ++ [128512]%N ++ runes_of_ascii " emoji
}")).
Eval vm_compute in ("<<<M2797>>>" ++ check (runes_of_ascii "RHnH6 /S[:7D4+W#FN9|rid}KtIp7H")).
Eval vm_compute in ("<<<M3193>>>" ++ check (runes_of_ascii "MetaData M {
}// c
options {}")).
Eval vm_compute in ("<<<M3348>>>" ++ check (runes_of_ascii "options { u8x = false // c
}")).
Eval vm_compute in ("<<<M2069>>>" ++ check (runes_of_ascii "MetaData BodyLength
{ int8")).
Eval vm_compute in ("<<<M4180>>>" ++ check (runes_of_ascii "// c" ++ [160]%N ++ runes_of_ascii "
packet
	A
    {}
")).
Eval vm_compute in ("<<<M2702>>>" ++ check (runes_of_ascii "q" ++ [65533; 65533]%N ++ runes_of_ascii "J" ++ [65533]%N ++ runes_of_ascii "\" ++ [248; 65533; 17; 65533; 65533; 65533; 26; 1285; 28]%N ++ runes_of_ascii "~" ++ [14]%N ++ runes_of_ascii "Q" ++ [65533]%N ++ runes_of_ascii "*" ++ [65533]%N ++ runes_of_ascii "}" ++ [65533]%N)).
Eval vm_compute in ("<<<M1346>>>" ++ check (runes_of_ascii "// a // b
 // " ++ [128512]%N ++ runes_of_ascii " emoji")).
Eval vm_compute in ("<<<M4278>>>" ++ check (runes_of_ascii "root packet i8i8 {
}")).
Eval vm_compute in ("<<<M456>>>" ++ check (runes_of_ascii "packet metadata{}
")).
Eval vm_compute in ("<<<M3142>>>" ++ check (runes_of_ascii "packet A {
}
// c" ++ [8287]%N)).
Eval vm_compute in ("<<<M2666>>>" ++ check (runes_of_ascii "options { a = ; }")).
Eval vm_compute in ("<<<M2384>>>" ++ check (runes_of_ascii "MetaData
Foo {He")).
Eval vm_compute in ("<<<M2369>>>" ++ check (runes_of_ascii "MetaData
Foo {")).
Eval vm_compute in ("<<<M2660>>>" ++ check (runes_of_ascii "MetaData { }")).
Eval vm_compute in ("<<<M2488>>>" ++ check (runes_of_ascii "@rightPad")).
Eval vm_compute in ("<<<M2456>>>" ++ check (runes_of_ascii "trueish")).
Eval vm_compute in ("<<<M2771>>>" ++ check (runes_of_ascii "( true")).
Eval vm_compute in ("<<<M2860>>>" ++ check (runes_of_ascii "KIM@.")).
Eval vm_compute in ("<<<M2530>>>" ++ check (runes_of_ascii "`
`")).
Eval vm_compute in ("<<<M2536>>>" ++ check (runes_of_ascii "1 2")).
Eval vm_compute in ("<<<M2544>>>" ++ check (runes_of_ascii "_1")).
