From FP Require Import Lexer Parser ShowPT Digest Formatter.
From Coq Require Import String List NArith.
Import ListNotations.
Open Scope string_scope.
Set Printing Width 100000000.
Set Printing Depth 100000000.
Definition show_fres (r : fres) : string :=
  match r with
  | FOk s => "OK:" ++ sh_escaped s ""
  | FErr s => "ERR:" ++ sh_escaped s ""
  | FPanic p => "PANIC:" ++ p
  end.
Definition check (rs : list rune) : string := digest (show_fres (format_res rs)).
Definition full (rs : list rune) : string := show_fres (format_res rs).
Eval vm_compute in ("<<<M855>>>" ++ check (runes_of_ascii "root packet crc	{ @calculatedFrom(""1""	) f32 x
, @calculatedFrom( ""// no comment""
)//x
string	chars ,	@calculatedFrom(  ""a\""b""
) @rightPad ( )
    @tag(
    7 )match A as matchKey {[ 42 ]:msg_type""x y"" : lengthOf
    ""a\\""
: packetx /// triple
,[""`tick`"",""x y""
, ""a\""b"" ,// packet A { u8 x, }
""x y""
, 00 ,
""it's""
    , 7
, """"
    ]: Logon }// a // b
,	@lengthOf(  falsey )repeat falsey `u8 x,` , u8x
{ int16
lengthOf
    `u8 x,` , f32a// " ++ [128512]%N ++ runes_of_ascii " emoji
packetx,
} , lengthOf @lengthOf(
calculatedFrom ) , @rightPad
('0')	f32	f32a ,
//
// packet A { u8 x, }
@calculatedFrom( """ ++ [128512]%N ++ runes_of_ascii """)tag ,
// " ++ [27880; 37322]%N ++ runes_of_ascii "
//x
string zchar `// not a comment` ,} MetaData matchKey {
    }	packet uint8x {
// a // b
//x
repeat lengthOf
// a // b
// @lengthOf(
{u16 u128 //
,Pad  , } , @tag( 4294967296	)
@calculatedFrom(	""x y"" ) @tag(	0) char[4294967296 ] options1 @calculatedFrom( ""CRC32"" )	,@rightPad ('\x00') repeat
    string
asx `a\` // " ++ [128512]%N ++ runes_of_ascii " emoji
, @calculatedFrom(
""" ++ [128512]%N ++ runes_of_ascii """ )	char[255
] len
@calculatedFrom(
""" ++ [233]%N ++ runes_of_ascii "t" ++ [233]%N ++ runes_of_ascii """ ) ,
@calculatedFrom( //x
""{,}"" )
repeat zchar
    calculatedFrom, @calculatedFrom( """ ++ [233]%N ++ runes_of_ascii "t" ++ [233]%N ++ runes_of_ascii """
    )string  o @lengthOf( u) ,uint64 falsey
    // " ++ [128512]%N ++ runes_of_ascii " emoji
    @calculatedFrom( ""\" ++ [233]%N ++ runes_of_ascii """ ) , zchar[ 65535 ] stringy @calculatedFrom( ""1""
), As , }packet BodyLength{  repeat uint32 body , zchar[ 65535 ]
    //	t
    Header ,As i8i8 `tab	here`,@calculatedFrom( """ ++ [128512]%N ++ runes_of_ascii """
    ) @rightPad( // trailing space 
'0'
) @tag(65535 )
    Pad { string
u128
, },@tag(  255 )
    @leftPad() @lengthOf(f32a) repeat o	,repeat i8i8{repeat f32a /// triple
float`line1
line2`, repeat char[ 0123456789 ]pack	`tab	here` , // `tick` ""quote"" 'q'
char[] x ,} ,
    @calculatedFrom(	"""" )
@lengthOf(lengthOf
    ) repeat char[ 65535 ] Foo , pack lengthOf , repeat Pad , }
packet // " ++ [128512]%N ++ runes_of_ascii " emoji
u8x {
    //
    @tag( // `tick` ""quote"" 'q'
255 ) repeat
zchar[ // trailing space 
4294967296
]
pack ,// " ++ [128512]%N ++ runes_of_ascii " emoji
char[ 0123456789 ] charz// trailing space 
@calculatedFrom( //x
""a\""b"" )// packet A { u8 x, }
,
    //
    @lengthOf( Header
)
// c
//x
f32a
    {  u128 @calculatedFrom(
    """"
    // " ++ [128512]%N ++ runes_of_ascii " emoji
    )
    `line1
line2` , T @calculatedFrom( ""a\""b""
)
, int32	lengthOf @lengthOf(
    msg_type  ) ,
Foo@calculatedFrom(
    ""a\""b""
) ,
} , }")).
Eval vm_compute in ("<<<M1161>>>" ++ check (runes_of_ascii "
root  packet MetaDataX	{int32
Logon,
}packet
    roots { match
calculatedFrom as i8i8 { [	""// no comment""	,""\" ++ [233]%N ++ runes_of_ascii """, // c
10 , ""\n"" , ""{,}"" , //	t
65535
, ""x y"" ] : // " ++ [128512]%N ++ runes_of_ascii " emoji
As , 10 :
    o ,
""\" ++ [233]%N ++ runes_of_ascii """
: MetaDataX
} , @leftPad ( '\x00' )
@lengthOf(
a1 )
    // `tick` ""quote"" 'q'
    @calculatedFrom(""a\\"" ) uint16 float @calculatedFrom( ""`tick`"") //	t
,string BodyLength
    @calculatedFrom(""x y""
) ,calculatedFrom stringy // packet A { u8 x, }
,
@lengthOf( a1 )
    @tag(	65535)char[]
falsey `// not a comment`
, @calculatedFrom( """ ++ [233]%N ++ runes_of_ascii "t" ++ [233]%N ++ runes_of_ascii """
    )char[ 255 ]/// triple
msg_type ,
o , @rightPad ( '0' ) // trailing space 
repeat rootA { x {  repeat u8 Z9_
    `
` ,	char[255 ] // " ++ [128512]%N ++ runes_of_ascii " emoji
leftPad , int32 len`line1
line2`
    , } ,// `tick` ""quote"" 'q'
repeat uint8x
{ char[] rootA @lengthOf(Z9_ ), match  zchar as x_y_z {	0
: Z9_	, [
007
, 007
    , 1 ,007,""""
    , ""1"" ]
    :
packetx
    ,	[""1"" , """"
]
: len , """" :BodyLength ,
    [ ""// no comment""
    ,
    //	t
    """ ++ [128512]%N ++ runes_of_ascii """ ,	""`tick`"" ] :
chars ,
10: T } , },
    // " ++ [27880; 37322]%N ++ runes_of_ascii "
    a1 @lengthOf( body
) ,  }
    //x
    , }MetaData// c
crc {  }
    options{ rootA =
'\x00' }
packet lengthOf
{ char[] float// " ++ [128512]%N ++ runes_of_ascii " emoji
`" ++ [28040; 24687; 31867; 22411]%N ++ runes_of_ascii "` ,
char[] falsey , repeatCount	`crlf
line` ,// packet A { u8 x, }
uint32 Foo
@lengthOf( string_ ) `doc`, @calculatedFrom(// @lengthOf(
""\n"" )
    f64 Pad @lengthOf(
    i8i8) ,
@lengthOf(
i8i8) x_y_z // `tick` ""quote"" 'q'
x
    ,@calculatedFrom(
    ""1""
// packet A { u8 x, }
// packet A { u8 x, }
) pack
{ float64 leftPad `crlf
line`
, repeat int {	match packetx
as repeatCount {// " ++ [27880; 37322]%N ++ runes_of_ascii "
[""a\""b"" ,
    // c
    42 ]  : repeatCount // a // b
,
    3 : // " ++ [128512]%N ++ runes_of_ascii " emoji
leftPad ,
    ""it's""
:i8i8
, ""packet"": x_y_z ""`tick`""
:
asx , 3
    : Foo, } , i32 //	t
options1 `" ++ [233]%N ++ runes_of_ascii "`
    ,repeat int i64_
    ,
    }
    ,
} , }
")).
Eval vm_compute in ("<<<M4281>>>" ++ check (runes_of_ascii "packet Packet {
    @leftPad(' ')
    repeat As {
        repeatCount @calculatedFrom(""" ++ [28040; 24687]%N ++ runes_of_ascii """),
        repeat pack {
            /// triple
            x {
                match As as uint8x {
                    [
                        00, ""1"", ""\" ++ [233]%N ++ runes_of_ascii """, ""it's"", ""a\""b"",
                        ""\" ++ [233]%N ++ runes_of_ascii """
                    ] : pack,
                    [
                        65535, ""a\""b"", """ ++ [233]%N ++ runes_of_ascii "t" ++ [233]%N ++ runes_of_ascii """, ""a	b"", ""`tick`"",
                        ""\n""
                    ] : As,
                    0123456789 : float,
                    /// triple
                    ""a	b"" : x_y_z,
                    [""abc""] : stringy,
                    // trailing space 
                },
                f64 MetaDataX,
                zchar[0123456789] charz,
            },
            crc {
                char[] x_y_z `
                `,
                match Z9_ as i8i8 {
                    00 : charz,
                },
            },
            i8 _x,
            repeat falsey {
                // `tick` ""quote"" 'q'
                char[65535] Packet @calculatedFrom(""x y"") `line1
                line2`,
            },
        },
        f32a MetaDataX `" ++ [233]%N ++ runes_of_ascii "`,
        repeat matchKey {
            int32 int `crlf
            line`,
        },
    },
    float {
        string As `// not a comment`,
        As,
        stringy,
    },
    @tag(00)
    Foo,
    repeat int16 Z9_,
    @lengthOf(u8x)
    u8x {
        repeat uint64 asx,
        // packet A { u8 x, }
        //
        repeat int ``,
        char[1] uint8x @calculatedFrom(""\" ++ [233]%N ++ runes_of_ascii """),
    },
    x,
}")).
Eval vm_compute in ("<<<M345>>>" ++ check (runes_of_ascii "// `tick` ""quote"" 'q'
root	packet /// triple
As { }packet x_y_z{@rightPad (
) @tag( 42 )
    @rightPad (' ' ) repeat f32a charz ,match Header as// a // b
stringy { [ 1	,	4294967296 ]// packet A { u8 x, }
: rootA ,
0123456789 : x_y_z
    , [
    65535
, 255]	:
/// triple
// a // b
metadata ,
[	7 , """ ++ [233]%N ++ runes_of_ascii "t" ++ [233]%N ++ runes_of_ascii """, ""{,}"" ,""{,}"" ] : T
// trailing space 
// " ++ [27880; 37322]%N ++ runes_of_ascii "
,""packet"" :
    chars , // trailing space 
[ 42
    , //
00] : Logon,} ,repeat i8i8 {
tag @calculatedFrom(// " ++ [27880; 37322]%N ++ runes_of_ascii "
""" ++ [128512]%N ++ runes_of_ascii """ )`{ , }` , }
,Z9_ @lengthOf(
    Packet
    // @lengthOf(
    ) ,
    // trailing space 
    lengthOf
    ,
trueish {
zchar[ 007/// triple
]
    packetx, zchar[ 0123456789
] MetaDataX `// not a comment`
, rootA @lengthOf(Z9_)
    `" ++ [233]%N ++ runes_of_ascii "`, }
,	} root// a // b
packet u8x { float64 len@calculatedFrom( ""packet"" )
//
// " ++ [27880; 37322]%N ++ runes_of_ascii "
, u8 calculatedFrom , @calculatedFrom( ""a\""b""
) @calculatedFrom( ""\n"") // trailing space 
@lengthOf(
    Foo ) Logon @lengthOf(	i8i8) , // trailing space 
@calculatedFrom(
""a\\"") falsey@calculatedFrom(
""" ++ [233]%N ++ runes_of_ascii "t" ++ [233]%N ++ runes_of_ascii """)`line1
line2` ,@leftPad('\x00' )
    // c
    match
i64_	as
    // c
    i64_{ [
    0123456789 ] :  a1
,[ ""1"" ,
3 , //
3 , 7 , 0
] :string_ ,
    """"// `tick` ""quote"" 'q'
:
    i64_ , }, @lengthOf( As )
    // packet A { u8 x, }
    T{zchar[ 0] roots
@lengthOf(
options1 )
    , /// triple
u16 pack
    ,//
} ,/// triple
string// `tick` ""quote"" 'q'
x	`crlf
line`
, }")).
Eval vm_compute in ("<<<M1376>>>" ++ check (runes_of_ascii "packet i64_{
char
i64_ @calculatedFrom(
""\n"")
    ,// c
@tag( 1 )MetaDataX {
    uint32 options1 @calculatedFrom( ""a	b""),repeat
    zchar `" ++ [28040; 24687; 31867; 22411]%N ++ runes_of_ascii "` ,
    body @calculatedFrom(""x y"" )	`doc`	,
    zchar[ 10
// a // b
// trailing space 
]
string_ @calculatedFrom( // trailing space 
""1""
    ) `doc`,	} , T
    ,
    @calculatedFrom( ""CRC32"" ) matchKey {	_x@lengthOf(u8x )`" ++ [28040; 24687; 31867; 22411]%N ++ runes_of_ascii "` , }
, } options{float
=
char[00 ] ;
    string_ = // @lengthOf(
i16
; //x
} root  packet rootA {  metadata {
    float32 pack
    , repeat	i64 string_	, i16 body `u8 x,`, } ,@calculatedFrom(""CRC32""
) repeat calculatedFrom{ repeat char[ 00  ] MetaDataX , }
    , @tag(	65535
)
match falsey as
    lengthOf {
    7 : // c
leftPad 1	:o
    ""packet""
:// " ++ [27880; 37322]%N ++ runes_of_ascii "
asx ,// packet A { u8 x, }
0123456789 : pack , [ 0123456789 , ""\n"" , ""abc"" , 00
,""x y"" // " ++ [128512]%N ++ runes_of_ascii " emoji
, 10
]	: f32a , 42 :x ,} ,
    lengthOf @lengthOf( float  )
    //
    ,
// c
//
match _x
as x  {
    10 :options1	, ""packet"": chars
//
// `tick` ""quote"" 'q'
, 42 :
    o ,""1"":
    // " ++ [128512]%N ++ runes_of_ascii " emoji
    msg_type
    [ ""a	b"" , ""\" ++ [233]%N ++ runes_of_ascii """ ,
255,  ""it's"", 10 ] : // " ++ [27880; 37322]%N ++ runes_of_ascii "
Pad
,} , @calculatedFrom( ""\n"" )
    @leftPad () @lengthOf( x ) zchar[00
]
    Header,
a1
    // a // b
    {repeat f32 chars , float64 Foo ,
    }, //	t
}
//x
")).
Eval vm_compute in ("<<<M4470>>>" ++ check (runes_of_ascii "options {
    StringPrefixLenType = u16;
    ArrayPrefixLenType = u8;
    FixedStringPadFromLeft = true;
    FixedStringPadChar = ' ';
}

packet Quote {
    int64 OrderId,
    char[] Ref,
    @leftPad('0')
    char[5] price,
}

packet Heartbeat {
    zchar[3] venue,
    string Flags,
}

packet Trade {
    repeat InTag787 {
        i32 venue,
        char[5] sym,
        repeat InPx98 {
            char[11] Qty,
            Heartbeat,
            char[] price,
            u32 x,
            float64 count,
            repeat Quote,
        },
        zchar[7] Note,
        repeat char[1] Tail,
    },
    repeat char[2] seqNo,
    InTail55 {
        repeat Quote,
        string msgKind,
        InPx18 {
            char[] count,
            repeat Quote,
            uint16 Qty,
        },
        char[4] seqNo,
        repeat Heartbeat,
        repeat string sym,
    },
    repeat Quote,
    Heartbeat,
    @leftPad(' ')
    char[10] OrderId,
}

root packet Fill {
    Heartbeat,
    uint32 count,
    u8 OrderId,
    match OrderId as Body {
        96 : Quote,
        195 : Trade,
        187 : Heartbeat,
    },
    u32 venue @calculatedFrom(""CR\
    C32""),
}")).
Eval vm_compute in ("<<<M1254>>>" ++ check (runes_of_ascii "options{ o = u8
    ; pack = true ; x = string
// @lengthOf(
// `tick` ""quote"" 'q'
} packet i64_// packet A { u8 x, }
{ @tag( 42
    /// triple
    )	@tag( 10
)	@lengthOf(len )
    match i8i8 as int // a // b
{ [
""""
,007 , ""abc""
    ,
00 , 255
, 00	,
    """ ++ [28040; 24687]%N ++ runes_of_ascii """]
    : MetaDataX ,
    10: _x , 4294967296 :BodyLength
    ,
    ""packet"" : len // packet A { u8 x, }
,""a	b""	: float , 10
    : f32a
}
, zchar  `// not a comment`/// triple
, u64 BodyLength	, @leftPad
    /// triple
    (
)@calculatedFrom( ""abc""
    ) match
Foo as //
T {
    [
    10
,""a	b"" ,	0123456789,
""it's""	, 3 ] :	pack ,  [ 3 ,
""CRC32"",
""it's""
, // @lengthOf(
""CRC32"" ,
""CRC32""
    ] :
crc , // c
""packet"" : //
msg_type ,
}
    ,
string_ o
    , @leftPad( ) char[] Header//	t
`{ , }`
    ,
@tag(  007)
    @lengthOf(  u128)
pack
    f32a , // packet A { u8 x, }
repeat tag{ repeat
As
    {
trueish,	}
,
repeat
    trueish { zchar[ 65535 ]stringy	,
    // " ++ [27880; 37322]%N ++ runes_of_ascii "
    }, zchar[ 65535]repeatCount// packet A { u8 x, }
, repeat u8 stringy , }  ,
} MetaData _x {string	o `" ++ [28040; 24687; 31867; 22411]%N ++ runes_of_ascii "`,matchKey trueish ,}
options
    { Packet=
' ' ; }
")).
Eval vm_compute in ("<<<M252>>>" ++ check (runes_of_ascii "packet u  { Header {
float64	Foo@lengthOf( Pad
    ) `{ , }`,	leftPad @calculatedFrom(""a	b"" )
    ,msg_type {
Z9_	@lengthOf(
    u8x ) ,
    falsey , len @lengthOf( float // " ++ [27880; 37322]%N ++ runes_of_ascii "
) `it's`
    , repeat int64
options1	`a\` , } , // trailing space 
} ,
//	t
// " ++ [128512]%N ++ runes_of_ascii " emoji
falsey// `tick` ""quote"" 'q'
u8x , zchar[  1 ]
x `` ,
    @lengthOf( uint8x
) crc
    @lengthOf(matchKey )  , repeat f32 string_
// `tick` ""quote"" 'q'
//
,packetx,
    // " ++ [27880; 37322]%N ++ runes_of_ascii "
    u8x
    { f64
Header , repeat uint8 uint8x , x_y_z
{  match string_
// " ++ [27880; 37322]%N ++ runes_of_ascii "
//	t
as a1 { [// `tick` ""quote"" 'q'
255
]  : f32a// @lengthOf(
, [
""packet""  ,""1"" , 00 ,
    """ ++ [128512]%N ++ runes_of_ascii """,  4294967296 , 4294967296]:Logon , } , pack @lengthOf( options1 ), zchar[  1 ] crc ``,}	, } , rootA zchar ,}
options { uint8x
= 4294967296
// " ++ [27880; 37322]%N ++ runes_of_ascii "
// @lengthOf(
tag // `tick` ""quote"" 'q'
=
float32 ; o = true ; // trailing space 
rootA =
    // @lengthOf(
    ""packet"" ; } //x
packet float
    {
    } // " ++ [27880; 37322]%N ++ runes_of_ascii "
options	{ // " ++ [27880; 37322]%N ++ runes_of_ascii "
msg_type// c
= i16 ;
    trueish = zchar[ 1 ] ; Logon =
    ""abc"" rootA = i16 ; } MetaData rootA
{
}
")).
Eval vm_compute in ("<<<M894>>>" ++ check (runes_of_ascii "packet leftPad{	char[]
matchKey@lengthOf( MetaDataX ) , }
options
{
}
    packet
    f32a {
@lengthOf(
int
) @leftPad
('\x00' )
@calculatedFrom(
""\" ++ [233]%N ++ runes_of_ascii """
    // a // b
    )  repeat
    T BodyLength ,@leftPad
('\x00' )uint16 body @calculatedFrom(  ""{,}"" ) `" ++ [233]%N ++ runes_of_ascii "` , @leftPad	(  ' '
    // trailing space 
    )
    match Z9_ as Foo // a // b
{ 7
: MetaDataX
,
    4294967296 :// c
options1 , ""x y"" :
A} ,	repeat zchar[
    10 //x
] f32a
    `it's`//
, // trailing space 
} packet x_y_z{ uint32 _x
    , MetaDataX { trueish metadata  ,char[
    // " ++ [128512]%N ++ runes_of_ascii " emoji
    42 ]
// " ++ [27880; 37322]%N ++ runes_of_ascii "
//	t
falsey, } //x
, char[] packetx//
`it's`  , falsey , repeat metadata `it's` ,//x
@tag(
42)
x
@calculatedFrom(	""x y"" ) , @lengthOf( float // a // b
)
    // packet A { u8 x, }
    repeat Foo{ asx
// a // b
// " ++ [128512]%N ++ runes_of_ascii " emoji
{ repeat char[]crc	`a\`, repeat A ,
} , u  Packet `say ""hi""`, roots @calculatedFrom(/// triple
""{,}"" // trailing space 
) , zchar[ 65535
]
f32a @lengthOf( o) ,  }
    ,
// @lengthOf(
// @lengthOf(
}")).
Eval vm_compute in ("<<<M4406>>>" ++ check (runes_of_ascii "packet leftPad {
}

packet u {
    @leftPad(' ')
    char[65535] leftPad,
    int8 packetx,
    string stringy `crlf
    line`,
    @leftPad(' ')
    // " ++ [128512]%N ++ runes_of_ascii " emoji
    i64 x @lengthOf(u) `" ++ [28040; 24687; 31867; 22411]%N ++ runes_of_ascii "`,
    @lengthOf(pack)
    // a // b
    //
    u64 asx @lengthOf(repeatCount) `u8 x,`,
    o A,
}

root packet charz {
    char[] repeatCount @lengthOf(tag) ``,
    repeat pack `a\`,
    @calculatedFrom(""// no comment"")
    T {
        string rootA @calculatedFrom(""{,}""),
    },
    repeat As Foo,
    char[3] trueish,
    @calculatedFrom("""")
    @lengthOf(metadata)
    @leftPad('0')
    repeat u64 float `{ , }`,
    stringy {
        // packet A { u8 x, }
        // c
        metadata {
            u8 f32a `two words`,
            repeat char[007] f32a `
            `,
        },
        u32 asx @calculatedFrom(""" ++ [233]%N ++ runes_of_ascii "t" ++ [233]%N ++ runes_of_ascii """),
        float64 i8i8,//x
    },
    // c
    // " ++ [27880; 37322]%N ++ runes_of_ascii "
    match lengthOf as zchar {
        00 : o,
    },
}")).
Eval vm_compute in ("<<<M3643>>>" ++ check (runes_of_ascii "options {
    LittleEndian = false;
    FixedStringPadFromLeft = false;
    FixedStringPadChar = ' ';
}
packet Fill {
    uint16 Qty,
    uint64 clOrdID,
    repeat i64 Flags,
}
packet Ack {
    zchar[7] clOrdID,
    u64 lastPx,
    char[] Note,
    repeat Fill,
    int32 count,
}
packet Quote {
    u8 venue,
    InRef40 {
        char[] Qty,
    },
    zchar[5] Flags,
    @rightPad('\x00') char[12] msgKind,
}
packet Logout {
    InSym79 {
        int32 Qty,
        Fill,
        char[3] x,
        repeat InNote29 {
            i16 price,
            Ack,
            f64 x,
            zchar[8] count,
        },
    },
}
root packet Logon {
    zchar[1] sym,
    u32 count,
    u16 tag7 @lengthOf(Body),
    match count as Body {
        [122, 152] : Ack,
        118 : Logout,
        61 : Quote,
        161 : Fill,
    },
    u32 Acct @calculatedFrom(""CR\
C32""),
}
")).
Eval vm_compute in ("<<<M4441>>>" ++ check (runes_of_ascii "packet int {
    @lengthOf(pack)
    f64 asx @calculatedFrom(""abc""),
    @calculatedFrom(""\" ++ [233]%N ++ runes_of_ascii """)
    f64 u `// not a comment`,// " ++ [128512]%N ++ runes_of_ascii " emoji
    @lengthOf(stringy)
    @tag(3)
    @rightPad()
    repeat float32 rootA,
    msg_type @lengthOf(packetx),
    @lengthOf(repeatCount)
    @calculatedFrom(""`tick`"")
    float lengthOf,
}

packet Pad {
    repeat uint8x body `u8 x,`,
    zchar {
        u8 trueish,
        float `
                `,
    },
    @lengthOf(uint8x)
    @lengthOf(float)
    u64 T @calculatedFrom(""// no comment""),
    @rightPad()
    repeat options1 int,
    @tag(00)
    @lengthOf(string_)
    @lengthOf(f32a)
    string u,
    match x as uint8x {
        [""it's"", ""x y"", ""it's""] : i64_,
    },
}

root packet trueish {
    i8i8 `line1
        line2`,
}// " ++ [27880; 37322]%N ++ runes_of_ascii "

packet tag {
    //	t
    float64 Foo ``,
}")).
Eval vm_compute in ("<<<M599>>>" ++ check (runes_of_ascii "root
    packet options1{
@lengthOf(  zchar ) charz `
` , //	t
Header {//
char[ 00]
msg_type, repeat zchar[
007
] Z9_ , } ,@tag(  10 )uint32 Foo , u32 u128
@lengthOf(float ) `two words`  , repeat
    char[ 7 ] stringy
    ``
    ,
Packet @lengthOf( /// triple
f32a ) , i64_
pack
, @calculatedFrom( ""packet"") repeat lengthOf { body @lengthOf(
//
// packet A { u8 x, }
a1) `{ , }` //
, x_y_z, },}
    packet string_
{ @calculatedFrom(
    ""a	b""	) zchar[// `tick` ""quote"" 'q'
0123456789 ] i64_	,@lengthOf(
    calculatedFrom
) u8x calculatedFrom , @tag( 1 )	repeat float32 BodyLength
, chars crc
, }root packet
    f32a { i32 _x  , }packet falsey { repeat char[ 007
    ] MetaDataX ,
@leftPad ( '0' ) // `tick` ""quote"" 'q'
packetx
    , x@calculatedFrom( ""\" ++ [233]%N ++ runes_of_ascii """ ) , }
")).
Eval vm_compute in ("<<<M3835>>>" ++ check (runes_of_ascii "root packet pack {
}

MetaData falsey {
    char[] A `// not a comment`,
}

packet uint8x {
    repeat o {
        u64 string_ @calculatedFrom(""" ++ [233]%N ++ runes_of_ascii "t" ++ [233]%N ++ runes_of_ascii """),
    },
    repeat string_ `" ++ [28040; 24687; 31867; 22411]%N ++ runes_of_ascii "`,
    repeat u {
        packetx @lengthOf(len) `doc`,
    },
    @lengthOf(u8x)
    float32 MetaDataX @calculatedFrom(""" ++ [233]%N ++ runes_of_ascii "t" ++ [233]%N ++ runes_of_ascii """),
    uint8 MetaDataX `it's`,
    @rightPad('\x00')
    repeat crc {
        x_y_z @lengthOf(As) `line1
        line2`,
        i32 repeatCount,
        // a // b
        // @lengthOf(
        repeat Pad {
            repeat string_ `" ++ [233]%N ++ runes_of_ascii "`,
            leftPad {
                char[] float,
            },
        },
    },
    @calculatedFrom(""it's"")
    zchar[42] A @lengthOf(matchKey),
    roots @calculatedFrom(""CRC32"") `a\`,
}")).
Eval vm_compute in ("<<<M1014>>>" ++ check (runes_of_ascii "packet	Header {
char repeatCount@lengthOf(a1
    ) , Packet @calculatedFrom( ""{,}""
    )
    `tab	here` ,
    _x
    `" ++ [28040; 24687; 31867; 22411]%N ++ runes_of_ascii "` ,  @tag(
255 ) u32
    string_	@calculatedFrom( ""{,}"" ) `line1
line2`// packet A { u8 x, }
, options1 @lengthOf( len
)
`u8 x,` , @leftPad ( ' ' )
lengthOf { char[
65535 ] options1// " ++ [128512]%N ++ runes_of_ascii " emoji
, MetaDataX @calculatedFrom( """ ++ [28040; 24687]%N ++ runes_of_ascii """ ) , } , @leftPad  ( '\x00' ) zchar[ 255 ]
    pack @calculatedFrom(
    ""1"")
`u8 x,`  , u32 Header , @lengthOf(
    falsey)	@rightPad
(' ' )
//x
//x
@calculatedFrom(
// " ++ [128512]%N ++ runes_of_ascii " emoji
/// triple
""a\\"" ) msg_type , }
    root packet chars{
} options {}MetaData Pad{
    string
    // " ++ [128512]%N ++ runes_of_ascii " emoji
    _x
`{ , }` ,  Packet u128, zchar[
4294967296 ] A
    ``
, }")).
Eval vm_compute in ("<<<M3746>>>" ++ check (runes_of_ascii "
root

    packet
stringy {u @calculatedFrom(

    ""packet"" 
)  ``
,  @calculatedFrom(
    """ ++ [28040; 24687]%N ++ runes_of_ascii """
)@lengthOf(  //x
	Foo	// packet A { u8 x, }
	)
    @calculatedFrom(// trailing space 
	""abc""

)
	u64

    zchar

, match

    body  
      // " ++ [128512]%N ++ runes_of_ascii " emoji
    	// c
    	as
	// trailing space 
    // " ++ [27880; 37322]%N ++ runes_of_ascii "
  body

    {

0:

charz
""packet"":

charz 
,

0123456789

:	repeatCount,

""\" ++ [233]%N ++ runes_of_ascii """:Foo } ,	repeat
string
    asx 
`u8 x,`  , }

MetaData 
BodyLength	{string Z9_	, zchar[
	0123456789 
]  Header ,

char[
65535 ]
asx
	, zchar[
255	] charz `// not a comment` ,	f32
    crc ,}
options {
	}
packet
_x
{
	}  packet
trueish{

@calculatedFrom( """" )  x
, 	 // " ++ [27880; 37322]%N ++ runes_of_ascii "
  } ")).
Eval vm_compute in ("<<<M576>>>" ++ check (runes_of_ascii "root packet roots  { }packet body{ @lengthOf(Pad ) repeat
a1
BodyLength , char[
7
    ]
    stringy ,	zchar[
255] asx
, uint8x u128 , } options {Header
=
""\" ++ [233]%N ++ runes_of_ascii """ T =""abc""
;
    _x
=zchar[  3 ];
falsey = 65535;
A =
4294967296 } packet x{
    @leftPad
    (
    //
    ' ') @calculatedFrom( ""a	b"")
    /// triple
    @lengthOf(rootA // trailing space 
)
float64 rootA `a\` ,  f64 o	, repeat
pack, @rightPad () uint64	u8x, @lengthOf(
chars
)	repeat  f64 _x// packet A { u8 x, }
`two words` ,// c
Pad
Header `it's`,
zchar[ 00 ] options1 @lengthOf( i8i8	),
} packet u8x{
    char[// @lengthOf(
00 ] string_ @lengthOf( falsey  )
, }")).
Eval vm_compute in ("<<<M709>>>" ++ check (runes_of_ascii "options
{ }  root packet a1 { @tag( 00
)Logon , @calculatedFrom( ""{,}""
)repeatCount
// a // b
// packet A { u8 x, }
{ repeat float i64_ ,
    match u8x // trailing space 
as
leftPad
    // `tick` ""quote"" 'q'
    {3 :u128 ,1	: i8i8
//	t
// " ++ [128512]%N ++ runes_of_ascii " emoji
, 42 :
    u128
, """ ++ [233]%N ++ runes_of_ascii "t" ++ [233]%N ++ runes_of_ascii """
: msg_type , [ 1,
42 ] : A , } ,
    repeat
    i64 metadata ,
} ,
    match	len
as	Z9_ { 255 :o,
    0123456789 :Pad ,//
[ 7
, ""{,}""
    , // trailing space 
""abc"" , 007 ] :chars
, 3
: // packet A { u8 x, }
packetx 00 ://
o, /// triple
} ,  zchar[ 0123456789
    ]
i64_
@lengthOf(	chars ) , float32 trueish `" ++ [28040; 24687; 31867; 22411]%N ++ runes_of_ascii "` ,}
")).
Eval vm_compute in ("<<<M450>>>" ++ check (runes_of_ascii "  packet
    body {
    @tag( 00 ) zchar[
255 ]
//	t
// `tick` ""quote"" 'q'
zchar @calculatedFrom( ""it's"" ) , int8 i8i8	,
    x_y_z @lengthOf(options1 )
    ,
    // packet A { u8 x, }
    zchar[00
] T,
repeat float64
chars , f64 repeatCount `doc` ,
    repeat i64_
repeatCount, repeat Header int
    , uint16 len `line1
line2`
    ,
@lengthOf(	Header)
@tag( 0123456789
) float64 u8x @lengthOf(options1 ) `u8 x,`
    , }options { x = ""\" ++ [233]%N ++ runes_of_ascii """ ; }
    // " ++ [128512]%N ++ runes_of_ascii " emoji
    MetaData	trueish	{ options1 float ``  , // a // b
zchar[ 3]
    lengthOf , }options{ rootA
    =""1""  T = """ ++ [128512]%N ++ runes_of_ascii """ }
")).
Eval vm_compute in ("<<<M888>>>" ++ check (runes_of_ascii "
packet packetx //	t
{
lengthOf
    @lengthOf( T )
    // trailing space 
    `// not a comment`
, char[ 42] Header `two words` ,} packet
    Logon { repeat
string i64_ `u8 x,`
, @rightPad ( )match calculatedFrom //
as
stringy /// triple
{ [ 0123456789 , // trailing space 
7  ,
""1""
, 1
, ""`tick`""	]
:
    zchar
, 3 //	t
:
packetx
    [
    10,""CRC32"" ]:	x
[7 ]  :
    // `tick` ""quote"" 'q'
    Foo
,[ ""CRC32""
,
10 ,
// " ++ [27880; 37322]%N ++ runes_of_ascii "
// packet A { u8 x, }
65535 ,
// " ++ [27880; 37322]%N ++ runes_of_ascii "
// a // b
7 ,""{,}"" ] : A // @lengthOf(
, 00 :rootA
    , }
, } options{
}
")).
Eval vm_compute in ("<<<M3639>>>" ++ check (runes_of_ascii "options 
{

LittleEndian  =

    false 
;

ArrayPrefixLenType
=u64
	;  FixedStringPadChar= 
'0'
    ;}

packet

    Quote{

repeat
	InFlags37 {
	char[] lastPx 
, 
} 
, i16 tag7 
,
char[]f1,zchar[6 ]

    Note , }
	packet 
Order
{	u8 Ref, repeat
Quote
    ,
	repeat
    string  Acct , }root
packet  Heartbeat{	repeat

    Quote
	,
@leftPad
('0'
)
	char[
11 
]  OrderId
,

zchar[8

]
    Ref , u32 Flags
	,
u32 Tail@lengthOf(  Body)
	,
    match
	Flags 
as
Body

{ 156 :	Order  ,7 :
Quote, 
}  ,

    } ")).
Eval vm_compute in ("<<<M950>>>" ++ check (runes_of_ascii "root
packet // " ++ [128512]%N ++ runes_of_ascii " emoji
msg_type
    {
zchar[ 1  ] float
    @lengthOf( A )
    // packet A { u8 x, }
    , u8x {// @lengthOf(
repeat trueish {match
    crc as Logon {
    [ 1, 7 ]
: // @lengthOf(
A
,} , } ,  } ,@tag(255
    // c
    ) match A as options1 { 7:body ,
    [	""x y"", 3 /// triple
, 0 ,7  , 0123456789] : tag ,
    ""x y"" : crc
    }	,	match stringy// packet A { u8 x, }
as Z9_ { ""it's""
// a // b
// " ++ [128512]%N ++ runes_of_ascii " emoji
: x_y_z
    //
    ,	1
:pack }
, //	t
}
MetaData repeatCount
    {
}
")).
Eval vm_compute in ("<<<M4251>>>" ++ check (runes_of_ascii "MetaData o {
}

packet BodyLength {
    @tag(255)
    zchar[00] leftPad @lengthOf(float) `" ++ [233]%N ++ runes_of_ascii "`,
}

packet asx {
    @leftPad()
    char[] _x,
    char[65535] trueish @calculatedFrom(""a\""b""),
    int64 u,
    match x as u8x {
        255 : o,
        65535 : asx,
        ""a\\"" : string_,
        ""\" ++ [233]%N ++ runes_of_ascii """ : f32a,
        65535 : x_y_z,
        7 : uint8x,
    },
    repeat msg_type {
        u128 charz ``,
        u64 options1,
        repeat a1 ``,
    },
    repeatCount,
}")).
Eval vm_compute in ("<<<M4494>>>" ++ check (runes_of_ascii "packet o {
    repeat MetaDataX,
    uint64 f32a `" ++ [233]%N ++ runes_of_ascii "`,
    f32 packetx `doc`,
    leftPad {
        repeat len x,
        zchar[0123456789] tag @lengthOf(MetaDataX),
        chars {
            zchar[65535] u8x `" ++ [28040; 24687; 31867; 22411]%N ++ runes_of_ascii "`,
            u16 BodyLength @calculatedFrom(""`tick`"") `line1
            line2`,
            char[] stringy,
            repeat i64_ charz `crlf
            line`,// trailing space 
        },
        f32 msg_type,
    },
    x ``,
}")).
Eval vm_compute in ("<<<M3623>>>" ++ check (runes_of_ascii "options {
    LittleEndian = true;
    StringPrefixLenType = u16;
    ArrayPrefixLenType = u64;
}
packet Fill {
}
packet Logon {
    repeat char[3] Tail,
    zchar[6] venue,
    repeat string Side2,
}
root packet Cancel {
    char[] Flags,
    char[] OrderId,
    zchar[6] msgKind,
    Fill,
    char[] Acct,
    u8 f1,
    match f1 as Body {
        188 : Fill,
        5 : Logon,
    },
    u32 clOrdID @calculatedFrom(""CRC32""),
}
")).
Eval vm_compute in ("<<<M218>>>" ++ check (runes_of_ascii "packet lengthOf {
f64 lengthOf
@lengthOf(a1
)
`" ++ [28040; 24687; 31867; 22411]%N ++ runes_of_ascii "`
, uint64 Logon `" ++ [233]%N ++ runes_of_ascii "`
,	string Pad@calculatedFrom( ""\n"" )
/// triple
// trailing space 
,zchar[ 0123456789
    ] Foo @lengthOf( charz )	`// not a comment` ,
@rightPad ()match falsey
    as Packet{ """"
    :
u ,
65535 :
float ,[  4294967296
] :	trueish // trailing space 
,	[10 ,0123456789 ]  :
Logon , 1 : roots [  7 ,
""\" ++ [233]%N ++ runes_of_ascii """ , 00
    //
    ]:
float , } ,}
")).
Eval vm_compute in ("<<<M4129>>>" ++ check (runes_of_ascii "root packet x {
    f64 trueish @calculatedFrom(""" ++ [28040; 24687]%N ++ runes_of_ascii """),
    @calculatedFrom(""a	b"")
    zchar[00] lengthOf,
    char[] roots `tab	here`,
    @leftPad('\x00')
    char[] body,
    // " ++ [27880; 37322]%N ++ runes_of_ascii "
    Header {
        string _x,
        i32 falsey,
        repeat uint8 Packet,//	t
        float32 leftPad @lengthOf(u) `a\`,
    },
    int32 chars,
    @calculatedFrom(""\n"")
    repeat u32 roots,
    o ``,
}")).
Eval vm_compute in ("<<<M114>>>" ++ check (runes_of_ascii "packet BodyLength {  @tag(
0 )
    char[
4294967296 ]
    options1 , }
    root packet asx{ repeat string //x
zchar //	t
,
    repeat char string_ `" ++ [28040; 24687; 31867; 22411]%N ++ runes_of_ascii "` ,
    } options{ rootA = zchar[ 00
] ;len = ""a\""b"" ; float =7;uint8x= f64 ;// `tick` ""quote"" 'q'
}root packet
    stringy{trueish Foo , } packet
pack{ u64
// @lengthOf(
// c
repeatCount @lengthOf( Header
    ) ,
}

")).
Eval vm_compute in ("<<<M3897>>>" ++ check (runes_of_ascii "// " ++ [128512]%N ++ runes_of_ascii " emoji
packet u8x {
    char[] Z9_,
    @leftPad('0')
    //x
    u64 int @lengthOf(A) `crlf
    line`,
    repeat u8x `" ++ [28040; 24687; 31867; 22411]%N ++ runes_of_ascii "`,
    int64 leftPad @lengthOf(T),
    i8i8 i64_,// " ++ [128512]%N ++ runes_of_ascii " emoji
    repeat msg_type,
    @rightPad('\x00')
    @lengthOf(zchar)
    matchKey,
}

MetaData u {
}

MetaData x_y_z {
    int16 rootA,
    char[] o `it's`,
}

options {
}")).
Eval vm_compute in ("<<<M3647>>>" ++ check (runes_of_ascii "options {
    FixedStringPadFromLeft = true;
    FixedStringPadChar = ' ';
}
packet Reject {
}
packet Fill {
    repeat i16 Tail,
}
root packet Trade {
    float64 Ref,
    Fill,
    u8 Note,
    u16 count @lengthOf(Body),
    match Note as Body {
        [98, 101] : Fill,
        34 : Reject,
    },
    u32 x @calculatedFrom(""CR\
C32""),
}
")).
Eval vm_compute in ("<<<M1110>>>" ++ check (runes_of_ascii "  MetaData	i64_ { // trailing space 
falsey asx	`u8 x,`  , } MetaData T
    { }
root packet msg_type
{ zchar[ 7	] options1@calculatedFrom(
    ""a	b"" )
`// not a comment`
    , @calculatedFrom( """ ++ [28040; 24687]%N ++ runes_of_ascii """) matchKey @lengthOf(//x
x_y_z
), uint64 len
,
    @tag(255) u32	A
// " ++ [128512]%N ++ runes_of_ascii " emoji
// packet A { u8 x, }
`` ,
    // c
    } // a // b")).
Eval vm_compute in ("<<<M4231>>>" ++ check (runes_of_ascii "
packet

Packet
{

f32a  // @lengthOf(

	pack
    ,

    @tag(00 )

@tag(	//	t
7 ) // @lengthOf(
A
	@calculatedFrom(
""\" ++ [233]%N ++ runes_of_ascii """ 
      // " ++ [27880; 37322]%N ++ runes_of_ascii "
  // " ++ [128512]%N ++ runes_of_ascii " emoji
    )
, crc stringy
    ,	}  packet Packet
    {
    i64
	u8x
    `u8 x,`,  // " ++ [27880; 37322]%N ++ runes_of_ascii "
      @leftPad(
'\x00')@lengthOf(

MetaDataX
) @lengthOf(As
) chars  o`" ++ [28040; 24687; 31867; 22411]%N ++ runes_of_ascii "`
,	}

")).
Eval vm_compute in ("<<<M1186>>>" ++ check (runes_of_ascii "root
packet u128 {match zchar
as
    msg_type // `tick` ""quote"" 'q'
{ 7
    //	t
    :	lengthOf ,0123456789:MetaDataX
""{,}""  :  o
    ,  255
// trailing space 
//
://
metadata ,
[ 1 ] :	A , [
007 , ""a\\"" , 0123456789
,	255 ,
""\" ++ [233]%N ++ runes_of_ascii """,  007 ] :
// `tick` ""quote"" 'q'
// packet A { u8 x, }
falsey,
}
    , } // a // b")).
Eval vm_compute in ("<<<M2046>>>" ++ check (runes_of_ascii "MetaData
    u { }  options {
// c
// @lengthOf(
float = int8 ;rootA =false ; As =	int16 // `tick` ""quote"" 'q'
repeatCount
    // trailing space 
    =
    int16
; u8x =
    //	t
    '\x00' ; } options	{
    repeatCount
= 0
u128
    //
    = false ; i64_
// trailing space 
// `tick` ""quote"" 'q'
= '0' ; ; //	t
}
")).
Eval vm_compute in ("<<<M1882>>>" ++ check (runes_of_ascii "MetaData
    u { }  options float
// c
// @lengthOf(
{ = int8 ;rootA =false ; As =	int16 // `tick` ""quote"" 'q'
repeatCount
    // trailing space 
    =
    int16
; u8x =
    //	t
    '\x00' ; } options	{
    repeatCount
= 0
u128
    //
    = false ; i64_
// trailing space 
// `tick` ""quote"" 'q'
= '0' ; //	t
}
")).
Eval vm_compute in ("<<<M2032>>>" ++ check (runes_of_ascii "MetaData
    u { }  options {
// c
// @lengthOf(
float = int8 ;rootA =false ; As =	int16 // `tick` ""quote"" 'q'
repeatCount
    // trailing space 
    =
    int16
; u8x =
    //	t
    '\x00' ; } options	{
    repeatCount
= 0
u128
    //
    = false ; =
// trailing space 
// `tick` ""quote"" 'q'
i64_ '0' ; //	t
}
")).
Eval vm_compute in ("<<<M510>>>" ++ check (runes_of_ascii "// trailing space 
root
packet x_y_z //	t
{ @leftPad (
    )
repeat
rootA  {BodyLength body`
` ,
u8 leftPad
@calculatedFrom( ""1""	)``,
char[007 ] i64_ , } ,u32
// trailing space 
// c
zchar `line1
line2`, char[ 10
    // packet A { u8 x, }
    ]
    //	t
    i8i8 @calculatedFrom( """ ++ [233]%N ++ runes_of_ascii "t" ++ [233]%N ++ runes_of_ascii """ ) , }
packet a1
    {}
")).
Eval vm_compute in ("<<<M4081>>>" ++ check (runes_of_ascii "MetaData T {
    Foo lengthOf,
    string packetx `// not a comment`,
    zchar[0] metadata `crlf
        line`,
    x string_ `line1
        line2`,
}

packet repeatCount {
    char[255] A @calculatedFrom(""a\\""),
    float32 BodyLength @lengthOf(_x) `doc`,
    char[] trueish @calculatedFrom(""packet""),
}")).
Eval vm_compute in ("<<<M4242>>>" ++ check (runes_of_ascii "packet x {
    lengthOf rootA,
    @rightPad('0')
    i8 asx @lengthOf(calculatedFrom),
    @lengthOf(Pad)
    repeat int16 trueish ``,
    @calculatedFrom(""" ++ [128512]%N ++ runes_of_ascii """)
    @tag(0)
    @lengthOf(matchKey)
    string MetaDataX `doc`,
    i16 options1 @lengthOf(u8x) `a\`,
    u128 u128 `line1
    line2`,
}")).
Eval vm_compute in ("<<<M4082>>>" ++ check (runes_of_ascii "packet zchar {
    @rightPad()
    uint8 a1 `line1
        line2`,
    @calculatedFrom(""x y"")
    match pack as matchKey {
        /// triple
        """ ++ [28040; 24687]%N ++ runes_of_ascii """ : u128,
        3 : i64_,
        ""a\""b"" : As,
    },
    // " ++ [27880; 37322]%N ++ runes_of_ascii "
    // @lengthOf(
    u8 Packet @calculatedFrom(""// no comment""),
}")).
Eval vm_compute in ("<<<M4025>>>" ++ check (runes_of_ascii "packet packetx {
    @tag(7)
    @calculatedFrom(""`tick`"")
    @calculatedFrom(""a\\"")
    char[] int,
    @rightPad(' ')
    string tag `tab	here`,
    @lengthOf(asx)
    u8 repeatCount,
    @calculatedFrom(""// no comment"")
    //x
    // trailing space 
    zchar[1] a1,
}")).
Eval vm_compute in ("<<<M228>>>" ++ check (runes_of_ascii "
packet
Z9_  { } packet T
{
repeat
    charz {match float as // " ++ [128512]%N ++ runes_of_ascii " emoji
stringy {00 : f32a [ 00
    //x
    , 00 ,""a\\""
// packet A { u8 x, }
// a // b
, 0 ,	7, 0 ] : As , } ,//	t
uint32 asx ,
//
/// triple
repeat u8x {
    repeat
//x
//
u8 string_ ,
} , } , }
")).
Eval vm_compute in ("<<<M1500>>>" ++ check (runes_of_ascii "packet
//	t
// trailing space 
_x uint64
// packet A { u8 x, }
// c
char[
3
    ] u8x @lengthOf(
u8x ) , @calculatedFrom(""" ++ [128512]%N ++ runes_of_ascii """ // @lengthOf(
)
i16	Foo
@lengthOf(	string_
    )`doc`	, repeat	i64 metadata , @lengthOf( string_
) i8 // c
u  `line1
line2`	,
}
")).
Eval vm_compute in ("<<<M1588>>>" ++ check (runes_of_ascii "packet
//	t
// trailing space 
_x {
// packet A { u8 x, }
// c
char[
3
    ] u8x @lengthOf(
u8x ) , @calculatedFrom(""" ++ [128512]%N ++ runes_of_ascii """ // @lengthOf(
)
i16	Foo
@lengthOf(	string_
    )`doc`	, , repeat	i64 metadata , @lengthOf( string_
) i8 // c
u  `line1
line2`	,
}
")).
Eval vm_compute in ("<<<M1490>>>" ++ check (runes_of_ascii "_x
//	t
// trailing space 
packet {
// packet A { u8 x, }
// c
char[
3
    ] u8x @lengthOf(
u8x ) , @calculatedFrom(""" ++ [128512]%N ++ runes_of_ascii """ // @lengthOf(
)
i16	Foo
@lengthOf(	string_
    )`doc`	, repeat	i64 metadata , @lengthOf( string_
) i8 // c
u  `line1
line2`	,
}
")).
Eval vm_compute in ("<<<M1634>>>" ++ check (runes_of_ascii "packet
//	t
// trailing space 
_x {
// packet A { u8 x, }
// c
char[
3
    ] u8x @lengthOf(
u8x ) , @calculatedFrom(""" ++ [128512]%N ++ runes_of_ascii """ // @lengthOf(
)
i16	Foo
@lengthOf(	string_
    )`doc`	, repeat	i64 metadata , @lengthOf( string_
) i8 // c
`line1
line2`  u	,
}
")).
Eval vm_compute in ("<<<M970>>>" ++ check (runes_of_ascii "root
packet _x { // `tick` ""quote"" 'q'
@tag( // " ++ [27880; 37322]%N ++ runes_of_ascii "
1) zchar @lengthOf( len
// trailing space 
//	t
), } packet metadata {
uint8x{ a1
Foo ,
    }
    , }options {rootA =""`tick`"" ; Pad // c
=
    // a // b
    65535} packet
    //	t
    charz { }
")).
Eval vm_compute in ("<<<M1640>>>" ++ check (runes_of_ascii "packet
//	t
// trailing space 
_x {
// packet A { u8 x, }
// c
char[
3
    ] u8x @lengthOf(
u8x ) , @calculatedFrom(""" ++ [128512]%N ++ runes_of_ascii """ // @lengthOf(
)
i16	Foo
@lengthOf(	string_
    )`doc`	, repeat	i64 metadata , @lengthOf( string_
) i8 // c
u  @tag(	,
}
")).
Eval vm_compute in ("<<<M1542>>>" ++ check (runes_of_ascii "packet
//	t
// trailing space 
_x {
// packet A { u8 x, }
// c
char[
3
    ] u8x @lengthOf(
u8x ) , """ ++ [128512]%N ++ runes_of_ascii """ // @lengthOf(
)
i16	Foo
@lengthOf(	string_
    )`doc`	, repeat	i64 metadata , @lengthOf( string_
) i8 // c
u  `line1
line2`	,
}
")).
Eval vm_compute in ("<<<M4190>>>" ++ check (runes_of_ascii "packet crc {
    @calculatedFrom("""")
    int8 len @lengthOf(lengthOf),
    @leftPad('\x00')
    _x @calculatedFrom(""" ++ [28040; 24687]%N ++ runes_of_ascii """),
    string leftPad @lengthOf(packetx) `say ""hi""`,// packet A { u8 x, }
}

options {
    u128 = 65535;
}")).
Eval vm_compute in ("<<<M100>>>" ++ check (runes_of_ascii "
options{ calculatedFrom = false ; } packet i64_
{
    body,
//	t
//x
}/// triple
options { float
=	true ;// @lengthOf(
charz =// a // b
char[65535 ]; u=/// triple
true ;metadata = ""\" ++ [233]%N ++ runes_of_ascii """  matchKey = '\x00'
    } // " ++ [27880; 37322]%N)).
Eval vm_compute in ("<<<M3744>>>" ++ check (runes_of_ascii "  root
packet
a1{  u8x 
{
	char[ // trailing space 
    10 ] 
tag 
``
	, } 	 // " ++ [128512]%N ++ runes_of_ascii " emoji

,	}
packet	packetx  { 
string
	crc  @calculatedFrom( ""abc""	) 
, @lengthOf(  Packet )
repeat u32 rootA

, // @lengthOf(
	} ")).
Eval vm_compute in ("<<<M3480>>>" ++ check (runes_of_ascii "// top
packet // c0
chars // c1
{ // c2
} // c3
packet // c4
MetaDataX // c5
{ // c6
@tag( // c7
42 // c8
) // c9
i16 // c10
string_ // c11
, // c12
repeat // c13
x // c14
`say ""hi""` // c15
, // c16
} // c17
")).
Eval vm_compute in ("<<<M580>>>" ++ check (runes_of_ascii "options{float
    =
    float32 ; }	options {//x
As =
    char[]; roots = ""it's""
}packet
    leftPad {@tag( 42 // trailing space 
)
    repeat _x `two words` ,@calculatedFrom(""x y"" ) repeat char[] Pad
, }
")).
Eval vm_compute in ("<<<M1738>>>" ++ check (runes_of_ascii "options { trueish = ""`tick`"" ; string_= """ ++ [233]%N ++ runes_of_ascii "t" ++ [233]%N ++ runes_of_ascii """
    // c
    } root
    packet body stringy { @calculatedFrom(
""a	b"" ) `line1
line2` , }
packet Logon {
    @leftPad(
    ' ' ) //	t
u16 string_ `u8 x,` ,
}
")).
Eval vm_compute in ("<<<M1736>>>" ++ check (runes_of_ascii "options { trueish = ""`tick`"" ; string_= """ ++ [233]%N ++ runes_of_ascii "t" ++ [233]%N ++ runes_of_ascii """
    // c
    } root
    packet body  stringy @calculatedFrom(
""a	b"" ) `line1
line2` , }
packet Logon {
    @leftPad(
    ' ' ) //	t
u16 string_ `u8 x,` ,
}
")).
Eval vm_compute in ("<<<M1781>>>" ++ check (runes_of_ascii "options { trueish = ""`tick`"" ; string_= """ ++ [233]%N ++ runes_of_ascii "t" ++ [233]%N ++ runes_of_ascii """
    // c
    } root
    packet body { stringy @calculatedFrom(
""a	b"" ) `line1
line2` , }
packet  {
    @leftPad(
    ' ' ) //	t
u16 string_ `u8 x,` ,
}
")).
Eval vm_compute in ("<<<M914>>>" ++ check (runes_of_ascii "/// triple
options {
    // packet A { u8 x, }
    Foo = 00 ; } root packet	string_ {u32 falsey	@calculatedFrom( ""x y"" )
`u8 x,`	,} root packet // `tick` ""quote"" 'q'
T { } // `tick` ""quote"" 'q'")).
Eval vm_compute in ("<<<M3811>>>" ++ check (runes_of_ascii "  packet  options1
    {
@leftPad

(

    '0' )
    asx 	 //
  {
    MetaDataX
	,
u16
u8x`
`

,
	trueish`a\`

    ,
float32
rootA
@calculatedFrom(""a	b""
	)

    ,} // a // b
	,} ")).
Eval vm_compute in ("<<<M3971>>>" ++ check (runes_of_ascii "packet A {
    match k as n {
        ""x\
        y"" : B,
        [1, ""x\
        y""] : C,
        [
            1, 2, 3, 4, 5,
            ""x\
            y""
        ] : D,
    },
}")).
Eval vm_compute in ("<<<M1107>>>" ++ check (runes_of_ascii "MetaData
// `tick` ""quote"" 'q'
/// triple
matchKey// " ++ [27880; 37322]%N ++ runes_of_ascii "
{  char[ //x
255
] Pad`it's`
, u8
x_y_z //
, i64_ packetx// a // b
`tab	here` // " ++ [128512]%N ++ runes_of_ascii " emoji
,trueish
zchar`it's` , }

")).
Eval vm_compute in ("<<<M156>>>" ++ check (runes_of_ascii "packet asx {
    }
    // packet A { u8 x, }
    options
    { options1
= float64 leftPad
=true ; MetaDataX =char[00] ; roots=false }// " ++ [128512]%N ++ runes_of_ascii " emoji
packet string_{
    }

")).
Eval vm_compute in ("<<<M1800>>>" ++ check (runes_of_ascii "options { trueish = ""`tick`"" ; string_= """ ++ [233]%N ++ runes_of_ascii "t" ++ [233]%N ++ runes_of_ascii """
    // c
    } root
    packet body { stringy @calculatedFrom(
""a	b"" ) `line1
line2` , }
packet Logon {
    @leftPad")).
Eval vm_compute in ("<<<M4296>>>" ++ check (runes_of_ascii "packet rootA {
    asx,
    @tag(10)
    @tag(1)
    @calculatedFrom(""1"")
    /// triple
    charz @calculatedFrom(""a\\"") `line1
        line2`,// @lengthOf(
}")).
Eval vm_compute in ("<<<M4448>>>" ++ check (runes_of_ascii "//
MetaData u {
    uint64 string_ `doc`,
    A metadata `u8 x,`,
    string Logon `u8 x,`,
    float64 float,
    char[] T `crlf
    line`,
    u8 Logon,
}")).
Eval vm_compute in ("<<<M2390>>>" ++ check (runes_of_ascii "// c
packet x i8 @lengthOf( metadata ) repeat lengthOf
,a1{
trueish	,// c
repeat//	t
MetaDataX , } , zchar[
    42	] rootA // `tick` ""quote"" 'q'
,
    }
")).
Eval vm_compute in ("<<<M2382>>>" ++ check (runes_of_ascii "// c
packet { x @lengthOf( metadata ) repeat lengthOf
,a1{
trueish	,// c
repeat//	t
MetaDataX , } , zchar[
    42	] rootA // `tick` ""quote"" 'q'
,
    }
")).
Eval vm_compute in ("<<<M2416>>>" ++ check (runes_of_ascii "// c
packet x { @lengthOf( metadata ) repeat lengthOf
,a1
trueish	,// c
repeat//	t
MetaDataX , } , zchar[
    42	] rootA // `tick` ""quote"" 'q'
,
    }
")).
Eval vm_compute in ("<<<M2359>>>" ++ check (runes_of_ascii "// c
packet x { @lengthOf( metadata ) repeat lengthOf
,a1{
trueish	,// c
repeat//	t
MetaDataX , } , zchar[
    42	] u64 // `tick` ""quote"" 'q'
,
    }
")).
Eval vm_compute in ("<<<M225>>>" ++ check (runes_of_ascii "
MetaData options1 { zchar[
    007 ] // `tick` ""quote"" 'q'
zchar	`a\` , uint32 As ,
    i8i8
Foo ,
// packet A { u8 x, }
//x
}
    packet falsey { }")).
Eval vm_compute in ("<<<M1343>>>" ++ check (runes_of_ascii "
options
{
asx
    =""CRC32"" ; MetaDataX// c
= char[ 4294967296	]
    ;
// " ++ [27880; 37322]%N ++ runes_of_ascii "
// trailing space 
_x = '0'; trueish=
""a	b"" ;	} // packet A { u8 x, }")).
Eval vm_compute in ("<<<M1271>>>" ++ check (runes_of_ascii "packet options1 {
@leftPad
( '0' )
asx //
{ MetaDataX ,u16  u8x `
`
, trueish `a\` ,float32 rootA @calculatedFrom( ""a	b"" ) ,}// a // b
,
    }")).
Eval vm_compute in ("<<<M1566>>>" ++ check (runes_of_ascii "packet
//	t
// trailing space 
_x {
// packet A { u8 x, }
// c
char[
3
    ] u8x @lengthOf(
u8x ) , @calculatedFrom(""" ++ [128512]%N ++ runes_of_ascii """ // @lengthOf(
)
i16")).
Eval vm_compute in ("<<<M694>>>" ++ check (runes_of_ascii "MetaData Logon
    // a // b
    { } packet x_y_z {} packet repeatCount
{ lengthOf @calculatedFrom(
""" ++ [28040; 24687]%N ++ runes_of_ascii """
)
    `// not a comment` ,}
")).
Eval vm_compute in ("<<<M4181>>>" ++ check (runes_of_ascii "MetaData  float

    {
float64  charz `
`  , }

    root

    packet chars  { 
// c
  @rightPad	(
'0'
)

    Foo	,
}
")).
Eval vm_compute in ("<<<M643>>>" ++ check (runes_of_ascii "
packet metadata {
// trailing space 
// trailing space 
@calculatedFrom(// `tick` ""quote"" 'q'
""CRC32"" )
stringy As ,
    }
")).
Eval vm_compute in ("<<<M3358>>>" ++ check (runes_of_ascii "root packet matchKey { zchar[ 3 ] pack @calculatedFrom( ""a	b"" ) `doc` , } options { } MetaData A { int8 msg_type , } // c
")).
Eval vm_compute in ("<<<M3330>>>" ++ check (runes_of_ascii "root packet matchKey { zchar[ 3 ] pack @calculatedFrom( ""a	b"" // c
) `doc` , } options { } MetaData A { int8 msg_type , }")).
Eval vm_compute in ("<<<M649>>>" ++ check (runes_of_ascii "root packet
string_{
@calculatedFrom( ""`tick`"" )
    uint8 stringy `a\` //
, int16 Packet @calculatedFrom( ""it's"" ), }")).
Eval vm_compute in ("<<<M3848>>>" ++ check (runes_of_ascii "// @lengthOf(

	options {

u128
=' ' chars
=
char 
;
float	=  ""// no comment""

repeatCount  
      //x

=false

;
}
")).
Eval vm_compute in ("<<<M1427>>>" ++ check (runes_of_ascii "
packet
    falsey { Header@calculatedFrom(""packet""   , char[
    0123456789 ] packetx
    , } // `tick` ""quote"" 'q'")).
Eval vm_compute in ("<<<M4538>>>" ++ check (runes_of_ascii "packet

A
{ match	k as
n	{
[

1 ,	22
	,
""c c""

    ,
4 ,  5
, ""f"" , 7
	,
	8 ] 
: B , 2 :	C
} 
,

    }
")).
Eval vm_compute in ("<<<M1420>>>" ++ check (runes_of_ascii "
packet
    falsey { Header MetaData""packet""  ) , char[
    0123456789 ] packetx
    , } // `tick` ""quote"" 'q'")).
Eval vm_compute in ("<<<M406>>>" ++ check (runes_of_ascii "options	{ roots = ""CRC32""zchar
= string; f32a
=string ; pack
    =
""x y"" }options {
    // @lengthOf(
    }")).
Eval vm_compute in ("<<<M3739>>>" ++ check (runes_of_ascii "root packet charz {
    // " ++ [128512]%N ++ runes_of_ascii " emoji
    repeat char[65535] options1,
}

options {
    As = ""\n""
}// a // b")).
Eval vm_compute in ("<<<M487>>>" ++ check (runes_of_ascii "
options {
    A
= 42 /// triple
;
    body =
false; options1 = 0123456789 ; As
= char[
    7
] ; }")).
Eval vm_compute in ("<<<M876>>>" ++ check (runes_of_ascii "packet repeatCount{ }
root packet uint8x {
    @rightPad ( '\x00' )
options1//x
As , // a // b
}
")).
Eval vm_compute in ("<<<M3834>>>" ++ check (runes_of_ascii "packet B {
    u8 a,
    string s,
}

root packet P {
    u16 L @lengthOf(B),
    B,
    u8 t,
}")).
Eval vm_compute in ("<<<M1396>>>" ++ check (runes_of_ascii "root packet SimpleMessage {
    uint16 MsgType `" ++ [28040; 24687; 31867; 22411]%N ++ runes_of_ascii "`,
    string JsonBody `Json" ++ [23383; 31526; 20018; 28040; 24687; 20307]%N ++ runes_of_ascii "`,
}")).
Eval vm_compute in ("<<<M3184>>>" ++ check (runes_of_ascii "// top
root // c0
packet // c1
u128 // c2
{ // c3
chars // c4
`it's` // c5
, // c6
} // c7
")).
Eval vm_compute in ("<<<M2958>>>" ++ check (runes_of_ascii "packet A {
  match k as n {
    [1, 22, ""c c"", 4, 5, ""f"", 7, 8, ""i""] : B
    2 : C
  },
}")).
Eval vm_compute in ("<<<M3298>>>" ++ check (runes_of_ascii "MetaData float { float64 charz `
` , } root packet chars { @rightPad ( '0'
// c
) Foo , }")).
Eval vm_compute in ("<<<M3509>>>" ++ check (runes_of_ascii "packet chars { } packet MetaDataX { @tag( 42 ) i16 string_ , // c
repeat x `say ""hi""` , }")).
Eval vm_compute in ("<<<M2963>>>" ++ check (runes_of_ascii "packet A {
  match k as n {
    [1, 22, 007, 4, 5, 66, 7, 8, 9, 10] : B
    2 : C
  },
}")).
Eval vm_compute in ("<<<M4283>>>" ++ check (runes_of_ascii "

  MetaData  Foo
    { char[
	4294967296 ]
	BodyLength 
    //
	`tab	here`
    ,
}

")).
Eval vm_compute in ("<<<M3216>>>" ++ check (runes_of_ascii "packet metadata
// c
{ Logon { A `" ++ [28040; 24687; 31867; 22411]%N ++ runes_of_ascii "` , tag o , } , zchar len `// not a comment` , }")).
Eval vm_compute in ("<<<M3465>>>" ++ check (runes_of_ascii "packet o { repeat Logon uint8x , } options { asx = zchar[ 3 ] stringy = '\x00' } // c
")).
Eval vm_compute in ("<<<M3436>>>" ++ check (runes_of_ascii "packet o { repeat
// c
Logon uint8x , } options { asx = zchar[ 3 ] stringy = '\x00' }")).
Eval vm_compute in ("<<<M7>>>" ++ check (runes_of_ascii "packet pack {
repeat As {
char[ 65535 // trailing space 
] crc `crlf
line` , },
}
")).
Eval vm_compute in ("<<<M4285>>>" ++ check (runes_of_ascii "  packet 
A	{match
k as
    n{ [ 1 
,
22,""c c""]	:
    B

    2 :

C

    }, }")).
Eval vm_compute in ("<<<M3413>>>" ++ check (runes_of_ascii "MetaData body { i64 pack `it's` , } packet stringy
// c
{ int16 calculatedFrom , }")).
Eval vm_compute in ("<<<M2915>>>" ++ check (runes_of_ascii "packet A {
  match k as n {
    [1, ""bb"", 007, ""d"", 5, ""f""] : B
    2 : C
  },
}")).
Eval vm_compute in ("<<<M1451>>>" ++ check (runes_of_ascii "
packet
    falsey { Header@calculatedFrom(""packet""  ) , char[
    0123456789")).
Eval vm_compute in ("<<<M3533>>>" ++ check (runes_of_ascii "packet Inner {
    u8 a,
}
root packet P {
    Inner ref_obj,
    u8 x,
}
")).
Eval vm_compute in ("<<<M2892>>>" ++ check (runes_of_ascii "packet A {
  match k as n {
    [1, 22, ""c c"", 4] : B,
    2 : C
  },
}")).
Eval vm_compute in ("<<<M1511>>>" ++ check (runes_of_ascii "packet
//	t
// trailing space 
_x {
// packet A { u8 x, }
// c
char[")).
Eval vm_compute in ("<<<M3574>>>" ++ check (runes_of_ascii "root packet P {
    u8 s_u8,
    repeat u8 r_u8,
    u16 b_len,
}
")).
Eval vm_compute in ("<<<M1177>>>" ++ check (runes_of_ascii "packet // @lengthOf(
o{ }options
{Logon /// triple
=
    00 }
")).
Eval vm_compute in ("<<<M2797>>>" ++ check (runes_of_ascii "char[ '\x00' uint16 @lengthOf( i16 zchar[ MetaData u32 repeat")).
Eval vm_compute in ("<<<M2414>>>" ++ check (runes_of_ascii "// c
packet x { @lengthOf( metadata ) repeat lengthOf
,a1")).
Eval vm_compute in ("<<<M4147>>>" ++ check (runes_of_ascii "root packet f32a {
    @tag(42)
    char Header `
    `,
}")).
Eval vm_compute in ("<<<M410>>>" ++ check (runes_of_ascii "packet crc { @rightPad ('0'
) //x
char[] asx `doc`	,}
")).
Eval vm_compute in ("<<<M45>>>" ++ check (runes_of_ascii "
MetaData int	{ string f32a//	t
`two words`
, } //")).
Eval vm_compute in ("<<<M1384>>>" ++ check (runes_of_ascii "options {Foo// trailing space 
= // c
""abc"" ; }
")).
Eval vm_compute in ("<<<M4131>>>" ++ check (runes_of_ascii "options  //
  { u8x

    =
	zchar[ 
0

] }

")).
Eval vm_compute in ("<<<M3878>>>" ++ check (runes_of_ascii "options {
    zchar = int32;
    T = false
}")).
Eval vm_compute in ("<<<M31>>>" ++ check (runes_of_ascii "root
packet uint8x {}root packet  Pad
{}")).
Eval vm_compute in ("<<<M3197>>>" ++ check (runes_of_ascii "root packet u128 { chars // c
`it's` , }")).
Eval vm_compute in ("<<<M3055>>>" ++ check (runes_of_ascii "options {
    a = ""\
"";
    b = ""\
""
}")).
Eval vm_compute in ("<<<M3152>>>" ++ check (runes_of_ascii "options { a = 1 // c b = 2; // d}")).
Eval vm_compute in ("<<<M437>>>" ++ check (runes_of_ascii "packet // a // b
int{ } // a // b")).
Eval vm_compute in ("<<<M2759>>>" ++ check ([65533; 65533; 65533; 65533]%N ++ runes_of_ascii "Q" ++ [2; 65533; 65533; 29; 65533]%N ++ runes_of_ascii "%" ++ [30; 65533]%N ++ runes_of_ascii "f" ++ [65533; 65533]%N ++ runes_of_ascii ";lJ" ++ [65533]%N ++ runes_of_ascii "p" ++ [65533]%N ++ runes_of_ascii "," ++ [65533; 65533; 65533; 65533; 65533]%N ++ runes_of_ascii "[k-" ++ [65533; 65533]%N)).
Eval vm_compute in ("<<<M550>>>" ++ check (runes_of_ascii "
packet int {} packet roots
{}")).
Eval vm_compute in ("<<<M3087>>>" ++ check (runes_of_ascii "packet A {
 u8 x `d" ++ [8192]%N ++ runes_of_ascii "`, // c" ++ [8192]%N ++ runes_of_ascii "
}")).
Eval vm_compute in ("<<<M2586>>>" ++ check (runes_of_ascii "packet A { x @lengthOf(y), }")).
Eval vm_compute in ("<<<M93>>>" ++ check (runes_of_ascii "packet repeatCount{	} // c")).
Eval vm_compute in ("<<<M3252>>>" ++ check (runes_of_ascii "// c
root packet pack { }")).
Eval vm_compute in ("<<<M1178>>>" ++ check (runes_of_ascii "root packet //
i64_ { }")).
Eval vm_compute in ("<<<M2772>>>" ++ check (runes_of_ascii "5rg/0~r2x>%:GDBld$X~A")).
Eval vm_compute in ("<<<M385>>>" ++ check (runes_of_ascii "packet lengthOf
{ }")).
Eval vm_compute in ("<<<M3847>>>" ++ check (runes_of_ascii "MetaData uint8x {
}")).
Eval vm_compute in ("<<<M3095>>>" ++ check (runes_of_ascii "packet A {
}
// c" ++ [8232]%N)).
Eval vm_compute in ("<<<M2572>>>" ++ check (runes_of_ascii "packet A { x y, }")).
Eval vm_compute in ("<<<M774>>>" ++ check (runes_of_ascii "options
    { }
")).
Eval vm_compute in ("<<<M2634>>>" ++ check (runes_of_ascii "packet A { } 1")).
Eval vm_compute in ("<<<M376>>>" ++ check (runes_of_ascii "
options{}")).
Eval vm_compute in ("<<<M2753>>>" ++ check (runes_of_ascii ", char[ }")).
Eval vm_compute in ("<<<M2464>>>" ++ check (runes_of_ascii "repeats")).
Eval vm_compute in ("<<<M3870>>>" ++ check (runes_of_ascii "
//
")).
Eval vm_compute in ("<<<M3099>>>" ++ check (runes_of_ascii "// c" ++ [8233]%N)).
Eval vm_compute in ("<<<M2546>>>" ++ check (runes_of_ascii "a
b")).
Eval vm_compute in ("<<<M2545>>>" ++ check (runes_of_ascii "ab")).
Eval vm_compute in ("<<<M2556>>>" ++ check ([233]%N ++ runes_of_ascii "a")).
