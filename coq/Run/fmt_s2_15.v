From FP Require Import Lexer Parser ShowPT Digest Formatter.
From Coq Require Import String List NArith.
Import ListNotations.
Open Scope string_scope.
Set Printing Width 100000000.
Set Printing Depth 100000000.
Definition show_fres (r : fres) : string :=
  match r with
  | FOk s => "OK:" ++ sh_escaped s ""
  | FErr s => "ERR:" ++ sh_escaped s ""
  | FPanic p => "PANIC:" ++ p
  end.
Definition check (rs : list rune) : string := digest (show_fres (format_res rs)).
Definition full (rs : list rune) : string := show_fres (format_res rs).
Eval vm_compute in ("<<<M1329>>>" ++ check (runes_of_ascii "packet o { match
    crc	as roots
    { 4294967296
    // " ++ [128512]%N ++ runes_of_ascii " emoji
    : o ,
} , u128 @lengthOf(
    u8x )
    // 50% %s
    ,repeat Header
    // @lengthOf(
    `say ""hi""`, @rightPad(
' ' ) repeat string charz
,string BodyLength
@calculatedFrom(  ""it's"" )	,
@leftPad
(
'\x00'	) @tag(
4294967296
    )repeat
    a1	{// " ++ [128512]%N ++ runes_of_ascii " emoji
charz `// not a comment` , _x o, metadata ,
uint8 MetaDataX	, }
    // c
    , repeat u128`two words` ,@lengthOf(
    metadata ) char[ 0123456789] _x	, repeat Z9_  ``
    ,//	t
}
    packet packetx // " ++ [27880; 37322]%N ++ runes_of_ascii "
{ //	t
@lengthOf( // `tick` ""quote"" 'q'
pack ) // 50% %s
@rightPad
( '\x00')
repeat char[ 42]
f32a
/// triple
//
`doc` , @rightPad
//
// " ++ [128512]%N ++ runes_of_ascii " emoji
( '0' )
BodyLength{	u16 calculatedFrom  @calculatedFrom( ""a\\"" // @lengthOf(
) `crlf
line`
    ,
}, a1
    {
u
pack , repeat o //
{ // " ++ [27880; 37322]%N ++ runes_of_ascii "
match
int as falsey {  ""CRC32""  :
uint8x , 7: repeatCount
    ,
    ""// no comment"":
    i8i8 , // " ++ [128512]%N ++ runes_of_ascii " emoji
65535 : charz , } ,
} , falsey
    x_y_z,u16 i64_ @lengthOf(falsey
) `" ++ [233]%N ++ runes_of_ascii "`// `tick` ""quote"" 'q'
, } ,
    match int as T
// trailing space 
// trailing space 
{7// trailing space 
:
    int , }
, } packet roots { zchar[
1 ] T @lengthOf( BodyLength
) //
`{ , }` , match
Z9_
as rootA { 00 :
f32a  } , @lengthOf( u8x) f64 T@lengthOf(
    As )
    `two words`	, i64_ matchKey
`a\` , @calculatedFrom(""" ++ [233]%N ++ runes_of_ascii "t" ++ [233]%N ++ runes_of_ascii """
    )  u32 falsey @lengthOf( u128 )
`two words` , u64 u8x @calculatedFrom(
    ""it's""  )
    // a // b
    `it's`, char[
    0 ]len@calculatedFrom( """ ++ [128512]%N ++ runes_of_ascii """
    ) `" ++ [233]%N ++ runes_of_ascii "`
    , @tag( 255 ) match stringy
// `tick` ""quote"" 'q'
//	t
as
    Foo
    { 007 :u	,7
:BodyLength 1
// " ++ [27880; 37322]%N ++ runes_of_ascii "
// " ++ [128512]%N ++ runes_of_ascii " emoji
: f32a, 4294967296 :
crc """ ++ [28040; 24687]%N ++ runes_of_ascii """ :chars// c
,	} ,
    // " ++ [128512]%N ++ runes_of_ascii " emoji
    } MetaData
    // " ++ [27880; 37322]%N ++ runes_of_ascii "
    matchKey//
{ } root
packet pack
{	@lengthOf( Header
    )u8 len
@lengthOf( x_y_z )
``	, @tag(
4294967296)repeat
matchKey{ int8	pack , }
    ,	@tag(
    65535 ) @rightPad( )  @lengthOf(Pad ) uint8x//x
`it's` ,
    repeat zchar { match uint8x as u128 {""it's""  :
// " ++ [128512]%N ++ runes_of_ascii " emoji
// a // b
chars ,},
}// " ++ [128512]%N ++ runes_of_ascii " emoji
, @calculatedFrom( ""x y""  )
@leftPad
    ( ' ' )@lengthOf(
zchar ) float64
charz	,
@lengthOf(repeatCount ) repeat f32a
{ repeat
i8 _x `it's`, }	, Z9_//x
@lengthOf( Header
)
    `
` ,
lengthOf
x,}")).
Eval vm_compute in ("<<<M3998>>>" ++ check (runes_of_ascii "
packet  trueish 
{
	pack
@calculatedFrom(

""1"")  ,zchar[

0
    ]
	u8x
	@calculatedFrom(
""" ++ [128512]%N ++ runes_of_ascii """ ) ,
options1@lengthOf( stringy ) `// not a comment` ,

@calculatedFrom(""1""
	)	char[
	4294967296 ] uint8x  @lengthOf(
	int
)

`
`  // `tick` ""quote"" 'q'
	,

    @calculatedFrom(""\" ++ [233]%N ++ runes_of_ascii """

    )uint8  Pad

    `say ""hi""`	, crc Z9_ , @calculatedFrom(
    ""`tick`""
)
	repeat

zchar[1 ]
    u`
` ,	match
BodyLength as

    uint8x
	{
	""CRC32"" //x
      :a1, } ,
	@calculatedFrom( ""`tick`"") 
	    // c
	// " ++ [128512]%N ++ runes_of_ascii " emoji
@rightPad	( )
u32 
len  ,
@calculatedFrom(
    ""1"" )

MetaDataX

Header
`// not a comment` ,
}MetaData

    uint8x
	// `tick` ""quote"" 'q'
  { }
	packet

    Logon
{match//x
	int// @lengthOf(

  as
string_ 
{00

    :
	leftPad  ,

}

    , @lengthOf(
repeatCount 
) i64_
	@calculatedFrom(
    //x
	//	t
    ""\n"" )
`tab	here`, lengthOf@calculatedFrom(
""it's""

    )	`line1
line2` ,
    T  {repeat 
zchar[	3 ]
	string_
,

    match

    T 
as	stringy
	{
	// @lengthOf(
4294967296
:	A 

//	t
	, 4294967296  : 
msg_type	, 7
	:	msg_type , 

    // trailing space 
	0 
:

    chars, 1	: asx

,0

:

// 50% %s
	// a // b
  float

    ,}  , 
	// a // b

	// c

	Pad

    @lengthOf(
	len
)

    , }
	,	BodyLength @calculatedFrom(
	    // " ++ [27880; 37322]%N ++ runes_of_ascii "
	  //x

  """ ++ [128512]%N ++ runes_of_ascii """  ),
	repeat // a // b
      Logon,x
{ match
stringy as
	Header {
	    // c
  	[ ""abc"" 
] :

i64_ ,255
	:f32a  }
        // " ++ [128512]%N ++ runes_of_ascii " emoji
	// `tick` ""quote"" 'q'

,

}
	,
	uint32
    u8x

,  uint32

    int ,}

    MetaData 
BodyLength	{i8i8

Logon

`crlf
line`  ,
	int
    // " ++ [128512]%N ++ runes_of_ascii " emoji
    // @lengthOf(
  options1 
`say ""hi""`

, Foo tag  
  //	t
// `tick` ""quote"" 'q'
  ,

} root

packet
	lengthOf

{

    repeat

    zchar[  255]

    lengthOf

    `// not a comment`// " ++ [128512]%N ++ runes_of_ascii " emoji
    , }")).
Eval vm_compute in ("<<<M1051>>>" ++ check (runes_of_ascii "packet
As  { repeat char[10
    // `tick` ""quote"" 'q'
    ] metadata  `{ , }` , match u
    as// packet A { u8 x, }
trueish
    { 10 : As
    ,	} ,@tag( 007 )	repeat metadata {trueish ,  repeat  msg_type,
// " ++ [128512]%N ++ runes_of_ascii " emoji
// trailing space 
} , metadata `{ , }`,zchar
`line1
line2` ,
    match Z9_ as
    o { [ ""x y""
    , """ ++ [128512]%N ++ runes_of_ascii """ ] : u8x // a // b
, ""CRC32""
: o
    255:
u128 , // packet A { u8 x, }
[ 10,007
, 10 , 7 , """ ++ [233]%N ++ runes_of_ascii "t" ++ [233]%N ++ runes_of_ascii """	]
: body
    // @lengthOf(
    , } , // trailing space 
repeat char[ //	t
00
    ] len,match  u
as Packet {0123456789:
    // packet A { u8 x, }
    repeatCount
    [ 0 ,	""1""
    ,
65535 //
, // " ++ [27880; 37322]%N ++ runes_of_ascii "
007  ,	00
]// a // b
: i64_ , ""CRC32""// trailing space 
:
packetx , }, zchar[007 ]	Logon @calculatedFrom(
""""
    ), char[ 00 ] msg_type@lengthOf( Logon ) , // c
} packet tag//x
{ zchar[
/// triple
// trailing space 
42
    ] string_ `doc` ,}  packet len{
char[ 0123456789] leftPad @calculatedFrom( // `tick` ""quote"" 'q'
""abc"")	`" ++ [233]%N ++ runes_of_ascii "`
    ,char[ 00
//
// trailing space 
]
int
    `it's` , match
    a1
as BodyLength { 3 : matchKey
[
00 ] : leftPad
    } , repeat string
    //x
    Logon`a\` ,
    @lengthOf( float)	repeat i8i8
`it's` , @tag( 0123456789 ) repeat i8 matchKey `" ++ [28040; 24687; 31867; 22411]%N ++ runes_of_ascii "`
,} // 50% %s
MetaData
    stringy { }
    /// triple
    packet i64_ { match // 50% %s
i64_ as roots
    {  ""\n"" : roots[  0123456789 ,1 ] :
x_y_z
,
10 :
i8i8, // @lengthOf(
3
    : // packet A { u8 x, }
Z9_
, [	""packet"", 255
    ]: Pad, [ 007
    , 0123456789
, 1 ,
    4294967296]  : tag ,} , } 	 ")).
Eval vm_compute in ("<<<M916>>>" ++ check (runes_of_ascii "packet // `tick` ""quote"" 'q'
x
    {zchar[
10] leftPad ,
@leftPad () char[
10
]
repeatCount `crlf
line` , @rightPad
// trailing space 
// 50% %s
( ' '  ) @lengthOf(Header
) @tag( 007 //	t
) A @lengthOf( rootA
    ) `doc`
,@tag( 7)
@rightPad	(
//x
// `tick` ""quote"" 'q'
' ') @leftPad ( )
match repeatCount	as BodyLength
    {  3
: tag ,
65535
    : o
    ,[ ""it's"" , 3
] :
    i64_
, 00:
u128, """" :
    Logon
    , } , string // packet A { u8 x, }
pack
    // trailing space 
    ,calculatedFrom
asx
// " ++ [128512]%N ++ runes_of_ascii " emoji
// `tick` ""quote"" 'q'
, } root packet x_y_z  { packetx  , }
    packet
    // " ++ [128512]%N ++ runes_of_ascii " emoji
    lengthOf{	i32	x `100% of %d` ,
    match
    u
//
// packet A { u8 x, }
as
    packetx { [
//x
//x
""\" ++ [233]%N ++ runes_of_ascii """	,
    // " ++ [27880; 37322]%N ++ runes_of_ascii "
    255
    ,
// a // b
// c
65535  , 0123456789 //	t
]
: Z9_, } , repeat char[007 ] // c
packetx, match	metadata
as repeatCount
    { [ 1	, 10
] :
// c
/// triple
x_y_z , 7 : T ,
}, float trueish ,  T
@lengthOf( A )  , match
    charz as
// " ++ [27880; 37322]%N ++ runes_of_ascii "
//x
uint8x {""" ++ [128512]%N ++ runes_of_ascii """
    :
BodyLength }
    , repeat
trueish
{i64_
    /// triple
    { string f32a @calculatedFrom(""`tick`"" ) `// not a comment` ,} ,}
    ,} root packet float {@calculatedFrom(
    ""x y"") match // " ++ [27880; 37322]%N ++ runes_of_ascii "
Packet
as
Foo {
[ ""it's"" ]
    : u , 65535
    // " ++ [27880; 37322]%N ++ runes_of_ascii "
    : u128, 007 : u
,
[ 00] //	t
:
    calculatedFrom ,/// triple
[  42 ] : tag } , }")).
Eval vm_compute in ("<<<M3670>>>" ++ check (runes_of_ascii "packet lengthOf {
    @lengthOf(uint8x)
    // " ++ [27880; 37322]%N ++ runes_of_ascii "
    @lengthOf(Pad)
    // trailing space 
    a1 @calculatedFrom(""packet""),
    @lengthOf(i8i8)
    repeat o {
        zchar[7] leftPad @calculatedFrom(""CRC32""),
        trueish @lengthOf(trueish),
        repeat u16 zchar `line1
        line2`,
        repeat uint8 f32a `say ""hi""`,
        // @lengthOf(
    },
    match uint8x as T {
        //	t
        0 : Logon,
        0123456789 : Logon,
        ""{,}"" : stringy,
    },
    leftPad @calculatedFrom(""{,}"") `" ++ [233]%N ++ runes_of_ascii "`,
    @calculatedFrom(""1"")
    // `tick` ""quote"" 'q'
    string_ {
        match Header as leftPad {
            [255] : x,
            [7] : u8x,
            /// triple
            [
                3, """ ++ [128512]%N ++ runes_of_ascii """, 255, ""packet"", ""a	b"",
                7, 1
            ] : crc,
            ""x y"" : string_,
            [42, ""`tick`""] : zchar,
            // trailing space 
        },
    },
}// trailing space 

packet u128 {
    i16 leftPad @calculatedFrom(""packet""),// " ++ [128512]%N ++ runes_of_ascii " emoji
    i64_ @calculatedFrom(""" ++ [128512]%N ++ runes_of_ascii """),
    repeat lengthOf,
    As,
    // `tick` ""quote"" 'q'
    repeat A {
        repeat string _x `{ , }`,
    },
}

packet crc {
}

MetaData float {
    // `tick` ""quote"" 'q'
    int16 roots,
    i32 i8i8,
}")).
Eval vm_compute in ("<<<M1323>>>" ++ check (runes_of_ascii "//	t
root	packet
    charz
    { @calculatedFrom(
/// triple
// trailing space 
""\n""
)@rightPad // packet A { u8 x, }
('0'
    )u8
    a1 , Logon
``
, match zchar as charz{ 255:
calculatedFrom , //
[  ""1"" ,""a\\"",
""a\""b"" ,
// @lengthOf(
// trailing space 
00  , 65535	]:
metadata // packet A { u8 x, }
,
// a // b
// " ++ [128512]%N ++ runes_of_ascii " emoji
255: Pad
, 255 : calculatedFrom[
// " ++ [128512]%N ++ runes_of_ascii " emoji
// " ++ [27880; 37322]%N ++ runes_of_ascii "
255	]
    : body ,
    //
    [ ""CRC32"" ,
// @lengthOf(
/// triple
0 ,	""{,}"" , 0123456789 , 0 ,
00 ] : string_} //x
, repeat string roots
, repeat
    int{ char[]//
tag ,
    repeat //	t
Logon
Foo , _x // `tick` ""quote"" 'q'
zchar , zchar[ 10
] asx ,
}
,
    repeat char[]
lengthOf
    , MetaDataX
{
    // packet A { u8 x, }
    char[]
    msg_type ,repeat o
{ repeat float f32a
,char packetx , char[] stringy
,
},repeat float// " ++ [27880; 37322]%N ++ runes_of_ascii "
{ Pad `u8 x,` , repeat
string_ i64_ // trailing space 
, }
    ,  match a1 as Header { ""1"": Z9_
,}
    , } , @calculatedFrom( ""a\""b"" ) @calculatedFrom(	""`tick`""
)	@calculatedFrom( ""1""	) match trueish as matchKey { ""it's"" :
pack ,
007//x
:  trueish 0123456789 : lengthOf
// a // b
// `tick` ""quote"" 'q'
,
} ,// 50% %s
} //x")).
Eval vm_compute in ("<<<M1049>>>" ++ check (runes_of_ascii "root
packet rootA {repeat
    calculatedFrom
//	t
// packet A { u8 x, }
body ,T ,
@tag( 10 ) // " ++ [128512]%N ++ runes_of_ascii " emoji
repeat i8i8,	match
f32a
as
o  {
    [
""CRC32""]  :
trueish, },	match
    u8x	as u128 {// trailing space 
""CRC32"" :	x,0 // a // b
: repeatCount
    , """ ++ [128512]%N ++ runes_of_ascii """ : Packet,
""""	:repeatCount,
    3 :
    //	t
    u
//x
// " ++ [128512]%N ++ runes_of_ascii " emoji
} , repeat
    char[0//x
]
    f32a,float,	int64 Pad @lengthOf(
u8x// " ++ [128512]%N ++ runes_of_ascii " emoji
) /// triple
, } // trailing space 
packet
calculatedFrom { u8x
// a // b
// `tick` ""quote"" 'q'
,@rightPad('\x00'
) As @calculatedFrom( ""\n"" ) , charz,	repeat float64 Packet ,match calculatedFrom // " ++ [128512]%N ++ runes_of_ascii " emoji
as T  {
""" ++ [128512]%N ++ runes_of_ascii """ :As
    //x
    , } // trailing space 
,} // " ++ [27880; 37322]%N ++ runes_of_ascii "
packet asx { @lengthOf( //	t
trueish
) @tag(
1 ) repeat len
{ BodyLength ,metadata `line1
line2` , repeat falsey`it's`,  Header { i8i8 chars `say ""hi""`// c
, string _x @lengthOf( msg_type	)
,
} , } , @lengthOf( f32a	) @lengthOf( i64_ ) @rightPad(  '0'
) leftPad `tab	here` , //	t
u64
    BodyLength
    ``
,	charz `" ++ [28040; 24687; 31867; 22411]%N ++ runes_of_ascii "`, }
MetaData Pad
{ u16 u`u8 x,` ,
    }MetaData
calculatedFrom { }
")).
Eval vm_compute in ("<<<M1235>>>" ++ check (runes_of_ascii "// a // b
packet chars{}
MetaData o	{ } packet _x { // @lengthOf(
@calculatedFrom( ""// no comment"" ) @lengthOf( Header)
    @calculatedFrom( ""{,}"" ) match	roots	as  trueish{
    // packet A { u8 x, }
    """ ++ [233]%N ++ runes_of_ascii "t" ++ [233]%N ++ runes_of_ascii """ : string_ 00 :Pad ,
10 :  len , [00  , ""CRC32"" ]
:
    A , /// triple
}
    , @leftPad( ' ' )// " ++ [128512]%N ++ runes_of_ascii " emoji
uint64 T@calculatedFrom(
    ""1""
    )	,
x @calculatedFrom( """ ++ [28040; 24687]%N ++ runes_of_ascii """ // " ++ [27880; 37322]%N ++ runes_of_ascii "
) `u8 x,` , @tag( 255
    ) u8 uint8x ,
rootA { match calculatedFrom as As
    {	""" ++ [28040; 24687]%N ++ runes_of_ascii """
:Logon
, } , repeat int32 a1 `line1
line2`,
    match
options1 as body { ""\" ++ [233]%N ++ runes_of_ascii """ : x ,[1 ,  007 ,10 , 007
, ""{,}""
    ] : msg_type
,10 :// trailing space 
lengthOf , }
, },	@lengthOf( int )uint64 lengthOf @calculatedFrom( ""`tick`"" )  ,char[ 4294967296 ] Logon
    `tab	here`, @rightPad(
    )
    //
    repeatCount @calculatedFrom(""`tick`"") `it's` ,	tag _x // c
, } options { repeatCount =
    char i8i8 = '\x00' zchar =	""\" ++ [233]%N ++ runes_of_ascii """ ; Header
= // a // b
4294967296 } options{
options1
    // " ++ [27880; 37322]%N ++ runes_of_ascii "
    =  ""\n""
    /// triple
    ; }
")).
Eval vm_compute in ("<<<M4052>>>" ++ check (runes_of_ascii "packet Z9_ {
    @rightPad('\x00')
    repeat Header options1,
    Header MetaDataX ``,
    zchar[0] o,
}

packet chars {
    // `tick` ""quote"" 'q'
}

packet len {
    repeat char[] Foo,
    @rightPad('0')
    zchar[007] a1 `" ++ [233]%N ++ runes_of_ascii "`,
    repeat BodyLength leftPad,
}

root packet u8x {
    f64 lengthOf @calculatedFrom(""CRC32""),
    string zchar @lengthOf(int) `tab	here`,
    int calculatedFrom,
    @lengthOf(As)
    match falsey as asx {
        65535 : _x,
        [1] : u,
        007 : uint8x,
        00 : f32a,
        """ ++ [233]%N ++ runes_of_ascii "t" ++ [233]%N ++ runes_of_ascii """ : Packet,
        [42, ""a\""b""] : len,
    },
    @lengthOf(stringy)
    @calculatedFrom(""1"")
    repeat A {
        char[] lengthOf `
                `,
    },
    MetaDataX @calculatedFrom("""") `it's`,
    @lengthOf(T)
    match Foo as crc {
        10 : trueish,
        42 : Pad,
        // c
        [4294967296, ""// no comment"", ""{,}""] : float,
    },
    @lengthOf(u8x)
    a1 @calculatedFrom(""\" ++ [233]%N ++ runes_of_ascii """),
}// a // b")).
Eval vm_compute in ("<<<M4395>>>" ++ check (runes_of_ascii "root packet len {
    match body as a1 {
        10 : uint8x,
    },
    char[10] zchar,
    roots @lengthOf(u) `" ++ [28040; 24687; 31867; 22411]%N ++ runes_of_ascii "`,
    float @calculatedFrom(""a	b""),
    @lengthOf(Packet)
    zchar @lengthOf(body) `
        `,// `tick` ""quote"" 'q'
    @tag(255)
    repeat Packet {
        repeat char falsey `" ++ [28040; 24687; 31867; 22411]%N ++ runes_of_ascii "`,
        repeat T {
            char[] chars,// @lengthOf(
            repeat f32a {
                repeat char[] falsey `{ , }`,
            },
        },
        // a // b
        // " ++ [27880; 37322]%N ++ runes_of_ascii "
        string int,
        match float as i64_ {
            // 50% %s
            [4294967296, ""\n""] : A,
            ""packet"" : roots,
            3 : float,
            // `tick` ""quote"" 'q'
            [0123456789, 255, 0, ""abc"", """ ++ [128512]%N ++ runes_of_ascii """] : charz,
        },
    },
}

root packet tag {
}

MetaData repeatCount {
    // " ++ [128512]%N ++ runes_of_ascii " emoji
    roots Logon ``,
    char[4294967296] packetx,
    uint32 Foo,//x
}")).
Eval vm_compute in ("<<<M3515>>>" ++ check (runes_of_ascii "// top
packet // c0
P1 // c1
{ // c2
u8 // c3a
  // c3b
a
    // c4
, // c5a
  // c5b
} // c6
packet P2 // c8a
  // c8b
{ P1 // c10a
  // c10b
, // c11a
  // c11b
} // c12a
  // c12b
packet
    // c13
P3 // c14
{ // c15a
  // c15b
P2 // c16a
  // c16b
,
    // c17
P1
    // c18
, } // c20a
  // c20b
packet // c21
P4 // c22a
  // c22b
{ // c23
repeat P3 // c25
, // c26
P2 // c27a
  // c27b
, // c28
} // c29
root // c30
packet // c31
P5 // c32a
  // c32b
{ P4
    // c34
, // c35
P3 // c36a
  // c36b
, // c37
P1
    // c38
,
    // c39
u8
    // c40
K // c41a
  // c41b
, // c42a
  // c42b
match // c43a
  // c43b
K
    // c44
as Body // c46
{
    // c47
4 : // c49a
  // c49b
P4 ,
    // c51
3 :
    // c53
P3 , // c55
2 : // c57
P2 // c58a
  // c58b
, 1
    // c60
:
    // c61
P1 // c62a
  // c62b
,
    // c63
} , // c65a
  // c65b
} // c66a
  // c66b
")).
Eval vm_compute in ("<<<M4339>>>" ++ check (runes_of_ascii "
// " ++ [27880; 37322]%N ++ runes_of_ascii "
MetaData

rootA{ f64
    As 
,
	f64	//

int
    `two words`// `tick` ""quote"" 'q'
	  ,
f32 	 //x
	body 	 // " ++ [128512]%N ++ runes_of_ascii " emoji

`say ""hi""`
    ,
zchar[
4294967296	] 	 /// triple
    	x
,  // a // b
    uint32
    // " ++ [27880; 37322]%N ++ runes_of_ascii "
    	// c
      lengthOf
    `
`
, 
}
root packet

pack {

    match  pack
	as 
repeatCount

{""CRC32"" :
crc  1

    : 
calculatedFrom,  [
	""packet""
    ,
""{,}""
	, 10
	, ""a\\""
	] :
    float
    , //	t
  ""packet"" : _x
	,	10 :o
, }  ,match  a1
    as
T

{ 65535

    : 
Z9_
0: _x ,	},	u64 
Pad//	t
	`" ++ [233]%N ++ runes_of_ascii "` ,@calculatedFrom( ""packet"")MetaDataX pack
	, char[007
]  uint8x ,i8i8 @lengthOf(
msg_type
) `u8 x,`
, @rightPad  ( '\x00'

    ) string_`" ++ [233]%N ++ runes_of_ascii "`	,

    }

    root
	packet a1
	{  }
    MetaData

x_y_z
{ i16
roots
    `say ""hi""` 
    /// triple
    	// `tick` ""quote"" 'q'
  ,}")).
Eval vm_compute in ("<<<M4471>>>" ++ check (runes_of_ascii "
options  {// 50% %s
  	}
packet
Packet  { @leftPad

    ( '\x00'
) x_y_z

    , @tag(	3 )  repeat

string

    stringy  ,
	Foo {  Header
@lengthOf(  repeatCount ) , 
	// `tick` ""quote"" 'q'
		repeat

    falsey

    Header

,	uint8x roots
	    // " ++ [128512]%N ++ runes_of_ascii " emoji
	// c
	,

/// triple
  }
,
	int64
calculatedFrom
, 
}root packet 
rootA { i8i8  string_
, zchar[ 0 
]crc

    @calculatedFrom( ""a	b""  //x
) , string_

{ 
pack

    ,

x_y_z crc
	`" ++ [28040; 24687; 31867; 22411]%N ++ runes_of_ascii "`  ,  }
, 
@leftPad
(
'0') match
    int as// @lengthOf(
	body {	""" ++ [233]%N ++ runes_of_ascii "t" ++ [233]%N ++ runes_of_ascii """ :	tag , ""1"" :
// packet A { u8 x, }
// @lengthOf(
    charz 
, 
""\n""

:
MetaDataX
, 
""a	b"":
	repeatCount , //	t
	  """"
    : 
leftPad
[ ""\n"" , ""// no comment""  ] :lengthOf
,} , @lengthOf( len)	int32 
Pad
// c
	// @lengthOf(
`line1
line2` ,  }")).
Eval vm_compute in ("<<<M4251>>>" ++ check (runes_of_ascii "root packet int{}
    packet
    Header	// packet A { u8 x, }

{	@calculatedFrom(

""""
)@calculatedFrom(

    ""1""
) @calculatedFrom(
    ""\" ++ [233]%N ++ runes_of_ascii """
)	//	t
rootA
`crlf
line`,
} packet 
leftPad
{
    u32 
o
    @calculatedFrom(
""packet""  )	`{ , }`	,
body
    @lengthOf(
roots	)	,i64
	Header  `tab	here`,

    string
x_y_z	// trailing space 
  `say ""hi""`  // packet A { u8 x, }
  ,zchar[0
] a1
	`say ""hi""`	// @lengthOf(

  , 
uint8 T 
, @calculatedFrom(
""abc""

    ) A@lengthOf( matchKey )
    `` 
        // @lengthOf(
	  // " ++ [27880; 37322]%N ++ runes_of_ascii "
      , @calculatedFrom(
""1""

)
    repeat
u32 falsey 
  // packet A { u8 x, }
	// " ++ [27880; 37322]%N ++ runes_of_ascii "
    ,@lengthOf(

    BodyLength
)// `tick` ""quote"" 'q'
	repeat 
uint16
chars`tab	here` 
, 
}MetaData
    body  {
} ")).
Eval vm_compute in ("<<<M1247>>>" ++ check (runes_of_ascii "packet  x_y_z{string	BodyLength `crlf
line` ,
    @tag( 007 /// triple
) i32 As// packet A { u8 x, }
@calculatedFrom( ""`tick`"")`doc`	,  @tag( 0123456789)  @calculatedFrom( ""CRC32""
)zchar[
// `tick` ""quote"" 'q'
// trailing space 
007
]
stringy @lengthOf( zchar)
, @calculatedFrom(
// c
//x
""CRC32"" ) Z9_ { Logon , },// " ++ [128512]%N ++ runes_of_ascii " emoji
packetx@lengthOf( zchar // packet A { u8 x, }
) ,
    repeat string Header
, repeat u32 f32a
`u8 x,` // packet A { u8 x, }
,char trueish , uint8x{
roots	o // a // b
, repeat f32 msg_type, uint8 falsey	@calculatedFrom(
    // 50% %s
    """ ++ [128512]%N ++ runes_of_ascii """
    //
    )
,repeat
    packetx	{  i16 //
Packet@lengthOf( //	t
trueish ) , } ,
} , @tag(
0
) crc@calculatedFrom(	""" ++ [233]%N ++ runes_of_ascii "t" ++ [233]%N ++ runes_of_ascii """	) , }
")).
Eval vm_compute in ("<<<M4252>>>" ++ check (runes_of_ascii "packet u 
{// @lengthOf(
	match
Foo
	as 
a1{ [
	65535
]
//
	:

chars	,	} ,body @calculatedFrom(
	// `tick` ""quote"" 'q'
	""CRC32"") 
,

// trailing space 
  	// `tick` ""quote"" 'q'
	char[	//	t

  0]
matchKey@calculatedFrom( ""\" ++ [233]%N ++ runes_of_ascii """ ) 
, 
}
// trailing space 
  // " ++ [27880; 37322]%N ++ runes_of_ascii "
packet

crc {
    }	packet
    Foo{  @calculatedFrom( """ ++ [28040; 24687]%N ++ runes_of_ascii """ ) @tag( 7	)

    @calculatedFrom(

    ""\" ++ [233]%N ++ runes_of_ascii """)
	match
    stringy
	as

    pack {  // `tick` ""quote"" 'q'

7
:
	string_  ,

    3
: 
calculatedFrom

,
""`tick`""

:i64_ , [
	""" ++ [128512]%N ++ runes_of_ascii """ 
// c
  	] 
:
    tag
    ,	[ ""CRC32""]:
rootA
,  }
,  packetx@lengthOf(
calculatedFrom  // @lengthOf(

  )
`a\` 
,

    i32 Foo,  i16
    calculatedFrom,
	}")).
Eval vm_compute in ("<<<M863>>>" ++ check (runes_of_ascii "
root
packet MetaDataX // 50% %s
{ @lengthOf( Foo /// triple
)
@rightPad  ( ) //	t
int ,repeat //x
zchar  `// not a comment` ,
@tag(
007 ) i32 stringy @lengthOf( a1 ) `a\` , @lengthOf(
    a1 )
rootA trueish , char[ 10 ]
repeatCount`// not a comment`// packet A { u8 x, }
, match // a // b
Header as
len
{ 4294967296
:x ,
[ ""it's"" // " ++ [27880; 37322]%N ++ runes_of_ascii "
, ""\" ++ [233]%N ++ runes_of_ascii """
// " ++ [27880; 37322]%N ++ runes_of_ascii "
// @lengthOf(
]: float
0:
falsey,
    ""// no comment"":
    roots } , int32
int @calculatedFrom(""`tick`"" )
,
    Foo lengthOf// 50% %s
`{ , }` , rootA,zchar[
007] msg_type
    @lengthOf(
u) ,
    /// triple
    }// " ++ [128512]%N ++ runes_of_ascii " emoji
options // trailing space 
{// a // b
}
// `tick` ""quote"" 'q'
")).
Eval vm_compute in ("<<<M4394>>>" ++ check (runes_of_ascii "root packet u {
    zchar[4294967296] Header @lengthOf(uint8x),
    charz,
    @lengthOf(packetx)
    uint8x lengthOf `crlf
        line`,
    zchar[007] o,
    repeat u8x {
        // " ++ [27880; 37322]%N ++ runes_of_ascii "
        string metadata ``,
    },
}

MetaData string_ {
    char options1 ``,
    As packetx `crlf
        line`,
    char[00] T,
    string string_ `// not a comment`,
    i32 lengthOf,
    zchar[007] u,//	t
}

packet trueish {
    // " ++ [27880; 37322]%N ++ runes_of_ascii "
}

options {
    Foo = int16;
    As = ' ';
    zchar = 3
    chars = false;
    As = string
}

MetaData o {
    zchar[007] i64_,
    char[3] Logon `" ++ [233]%N ++ runes_of_ascii "`,
    char[7] stringy `
        `,
}")).
Eval vm_compute in ("<<<M3863>>>" ++ check (runes_of_ascii "options {
    calculatedFrom = ""a	b"";
    lengthOf = ""packet"";// 50% %s
    Header = zchar[7];
}

packet Logon {
    @calculatedFrom(""" ++ [28040; 24687]%N ++ runes_of_ascii """)
    i16 charz,
}

packet asx {
    Packet @lengthOf(tag) `crlf
    line`,
    @calculatedFrom(""" ++ [128512]%N ++ runes_of_ascii """)
    char[7] i8i8 @calculatedFrom(""\n"") `line1
    line2`,
    i32 pack @lengthOf(f32a) `two words`,
    falsey f32a `tab	here`,
    @tag(3)
    u16 lengthOf,
    // trailing space 
    //x
    Foo @lengthOf(uint8x),
    @lengthOf(chars)
    zchar @lengthOf(stringy) `crlf
    line`,
    asx,/// triple
    zchar[65535] Z9_ @calculatedFrom(""1""),
}")).
Eval vm_compute in ("<<<M1332>>>" ++ check (runes_of_ascii "options
    // " ++ [27880; 37322]%N ++ runes_of_ascii "
    { } packet float{uint16 tag	@lengthOf( trueish
    )
    `" ++ [28040; 24687; 31867; 22411]%N ++ runes_of_ascii "` ,
    @tag( 65535 ) char[
255
// c
/// triple
] matchKey ,@tag( 65535 ) @calculatedFrom( ""// no comment""
)msg_type { char lengthOf`a\` , uint16 Logon
    @calculatedFrom( ""// no comment""),repeat
lengthOf chars `" ++ [28040; 24687; 31867; 22411]%N ++ runes_of_ascii "`
    , matchKey{ Foo
    // " ++ [128512]%N ++ runes_of_ascii " emoji
    @calculatedFrom(
""a\\""
    // " ++ [27880; 37322]%N ++ runes_of_ascii "
    ) // 50% %s
,f32 Header `it's` ,char[	007
//
// " ++ [27880; 37322]%N ++ runes_of_ascii "
]A
,} ,
// `tick` ""quote"" 'q'
// " ++ [128512]%N ++ runes_of_ascii " emoji
} ,} MetaData
    x_y_z  {
    int32
T ,
tag  crc `u8 x,` ,char[ 3 ]
metadata  ,
}")).
Eval vm_compute in ("<<<M238>>>" ++ check (runes_of_ascii "packet
    Packet // a // b
{ @calculatedFrom(
""a	b""
    )@calculatedFrom(
""it's""  )
    @calculatedFrom( ""// no comment""
    ) trueish { char[]/// triple
charz
@calculatedFrom( ""\n"" )
    , } ,@rightPad (
'0' )	@tag(255) len{ zchar[
// 50% %s
// `tick` ""quote"" 'q'
65535 ]f32a , } , f64 i8i8 `line1
line2` , @rightPad('\x00'	) repeat
    int `two words`
,
As Pad`{ , }`
    ,
@rightPad ('\x00' ) pack `doc`// c
,
@tag(	1 ) f32
tag  ,//x
zchar[ 3
    // @lengthOf(
    ] i64_ ,	uint64 trueish /// triple
@calculatedFrom( ""CRC32"" ) , }")).
Eval vm_compute in ("<<<M230>>>" ++ check (runes_of_ascii "options {
// packet A { u8 x, }
// c
} packet stringy
// " ++ [128512]%N ++ runes_of_ascii " emoji
//x
{ char[ 7 ]
    leftPad @calculatedFrom( ""{,}"" ) , @tag(42
// @lengthOf(
// c
) @leftPad
// c
// trailing space 
( ' ') @lengthOf( i8i8 )stringy @calculatedFrom( // c
""" ++ [233]%N ++ runes_of_ascii "t" ++ [233]%N ++ runes_of_ascii """	)
    // `tick` ""quote"" 'q'
    `u8 x,` ,	o MetaDataX
, float32// `tick` ""quote"" 'q'
body @lengthOf(  A ) , uint16 x `" ++ [28040; 24687; 31867; 22411]%N ++ runes_of_ascii "`, @rightPad (	)  o {uint8
// 50% %s
// 50% %s
x@lengthOf(
Header ) , } ,string a1 ,a1	@lengthOf(calculatedFrom ), } MetaData // 50% %s
repeatCount{ T Packet,}")).
Eval vm_compute in ("<<<M109>>>" ++ check (runes_of_ascii "root packet Pad { T crc, @tag(	255
    ) repeat
rootA `// not a comment`	, chars@lengthOf(
    float
) `two words`
    , repeat _x u128 , @lengthOf(
lengthOf ) repeat
    x_y_z { char[ 10
    ]u `
` , a1 roots , } , /// triple
@calculatedFrom( ""x y""
    ) int16
leftPad `{ , }`	, _x
matchKey`it's`
    , match
Logon as metadata
    { """ ++ [128512]%N ++ runes_of_ascii """ // 50% %s
:
matchKey
    42 ://x
u128 , // 50% %s
42 : matchKey
""it's""
    // trailing space 
    : asx ,""{,}"" : Z9_,} , // c
stringy `" ++ [28040; 24687; 31867; 22411]%N ++ runes_of_ascii "`
, // c
}")).
Eval vm_compute in ("<<<M843>>>" ++ check (runes_of_ascii "MetaData  crc	{
float zchar
    , }  root packet msg_type// " ++ [128512]%N ++ runes_of_ascii " emoji
{
    repeat
u128
// @lengthOf(
//x
{char[] body
    , matchKey u128 ,
}
, repeat	chars { // " ++ [27880; 37322]%N ++ runes_of_ascii "
match
rootA
    as
    As{""packet""
: falsey	, [ 65535 ,
0 ]	: roots ,
    // 50% %s
    [
    """ ++ [128512]%N ++ runes_of_ascii """  , // " ++ [27880; 37322]%N ++ runes_of_ascii "
0
]: T , }
// " ++ [128512]%N ++ runes_of_ascii " emoji
//x
,	},
} MetaData tag { char[ 3 ] repeatCount , string
    options1
`two words` ,char[]
x , // a // b
body lengthOf// @lengthOf(
,roots i64_ , //	t
options1 T `{ , }` ,}")).
Eval vm_compute in ("<<<M418>>>" ++ check (runes_of_ascii "options
{
    Header =
    '\x00'
} root
packet MetaDataX	{char[ 0123456789 ]leftPad  `tab	here`  , @lengthOf(rootA )uint8 u	``,
match
string_ //
as
    Pad	{ 255 : a1
,// a // b
[
    // 50% %s
    4294967296 ] :msg_type ,
    [ 3
// c
//	t
] :
    //	t
    u128 ,255	: crc ,
[
// trailing space 
//
0123456789 , ""a\""b"" ,
    ""a\""b""
,
""""// trailing space 
,""""
    , ""CRC32"" ,
    ""CRC32"" ] : crc// `tick` ""quote"" 'q'
,// " ++ [27880; 37322]%N ++ runes_of_ascii "
} ,  }packet
asx
{ }
")).
Eval vm_compute in ("<<<M3256>>>" ++ check (runes_of_ascii "// top
MetaData // c0
body // c1a
  // c1b
{ // c2
} // c3a
  // c3b
root // c4
packet // c5a
  // c5b
chars // c6
{ // c7a
  // c7b
@lengthOf( // c8
i64_ // c9a
  // c9b
) // c10
chars ,
    // c12
i8i8 { // c14a
  // c14b
falsey @lengthOf( stringy // c17a
  // c17b
)
    // c18
`` // c19a
  // c19b
, // c20a
  // c20b
} , x // c23a
  // c23b
@lengthOf(
    // c24
A // c25a
  // c25b
)
    // c26
`tab	here` , } // c29a
  // c29b
")).
Eval vm_compute in ("<<<M1404>>>" ++ check (runes_of_ascii "packet
x
{ @rightPad ( '0'
    ) int
    uint8x
    // trailing space 
    , match asx as
    charz{
    ""CRC32"" : MetaDataX  ,
[ /// triple
""a\\"",00 ] :
u128  , } , char[]	f32a
@lengthOf( zchar
    )	`crlf
line` , @calculatedFrom(
""1"")match // packet A { u8 x, }
trueish
    as BodyLength {7 // a // b
: falsey
""`tick`"" :
// `tick` ""quote"" 'q'
// packet A { u8 x, }
A
// c
// " ++ [27880; 37322]%N ++ runes_of_ascii "
, } , @rightPad( )i16 zchar , } 	 ")).
Eval vm_compute in ("<<<M3860>>>" ++ check (runes_of_ascii "options  
      // c

  {

lengthOf= 0123456789
x_y_z =

    ""CRC32"" ;
}

root
packet	Packet

    { @rightPad (

    ' ')
char[]
string_	@calculatedFrom(""// no comment"" 

    /// triple
	// " ++ [128512]%N ++ runes_of_ascii " emoji
		)
	,
// c
		// a // b
    match body as	Z9_
    {	""`tick`""
    :

    charz

    ,

    4294967296 : uint8x  ,00
: x	, 
} ,@tag( 	 //
	3)
@tag( 255 )/// triple
	  repeat i64_	`a\`
,
	}")).
Eval vm_compute in ("<<<M328>>>" ++ check (runes_of_ascii "options // `tick` ""quote"" 'q'
{ packetx= 0 metadata = char[ 0123456789 ] As =42
; msg_type
= '0' ;}
options{ body = ""packet""; metadata=
false
    ;chars=
42 falsey =
42 } packet body // " ++ [128512]%N ++ runes_of_ascii " emoji
{
@leftPad ( '\x00' ) leftPad	@lengthOf(repeatCount
), }	MetaData  _x {
uint16 lengthOf
`100% of %d`,crc T,uint32// c
Pad `
`
,u64 msg_type	,string_
    u128
    ,zchar[
4294967296
]
_x	,}")).
Eval vm_compute in ("<<<M4240>>>" ++ check (runes_of_ascii "packet
	uint8x{
	uint8x charz

`100% of %d`
    // c
,
    @rightPad 
(' '
)repeat
	roots
	{
zchar[
    42
    ]

_x

    ,
	asx,
	match  i64_
    as	f32a{  ""a\\""
:
falsey, 0
    : options1, ""1""	// @lengthOf(
:	x ,0	:
        //
  	u128

,  [

00
	,
4294967296	/// triple

]	:len,

[// c
""`tick`"" , 
    //x

""packet"" ,
7

    ,
    3,

""" ++ [233]%N ++ runes_of_ascii "t" ++ [233]%N ++ runes_of_ascii """
] :
	A , }

,
    }
, }")).
Eval vm_compute in ("<<<M696>>>" ++ check (runes_of_ascii "packet calculatedFrom  { // " ++ [128512]%N ++ runes_of_ascii " emoji
@calculatedFrom( ""a	b"" )
    repeat
    int32 Header
    // `tick` ""quote"" 'q'
    `a\` , }packet leftPad{ @leftPad ( ) @tag( 65535  ) @rightPad (
    ) repeat msg_type , string charz
@calculatedFrom( ""// no comment"" )
    `100% of %d`, Z9_ lengthOf , @lengthOf( i64_
    //
    )char[ 0 ] i8i8 @calculatedFrom( """ ++ [128512]%N ++ runes_of_ascii """ )
,
}")).
Eval vm_compute in ("<<<M3254>>>" ++ check (runes_of_ascii "// top
MetaData // c0
body // c1
{ // c2
} // c3
root // c4
packet // c5
chars // c6
{ // c7
@lengthOf( // c8
i64_ // c9
) // c10
chars // c11
, // c12
i8i8 // c13
{ // c14
falsey // c15
@lengthOf( // c16
stringy // c17
) // c18
`` // c19
, // c20
} // c21
, // c22
x // c23
@lengthOf( // c24
A // c25
) // c26
`tab	here` // c27
, // c28
} // c29
")).
Eval vm_compute in ("<<<M3671>>>" ++ check (runes_of_ascii "packet trueish {
    x metadata,
    uint16 f32a,
    repeat leftPad {
        match MetaDataX as lengthOf {
            4294967296 : calculatedFrom,
            [""a\\"", ""a\\""] : len,
            0 : f32a,
            [""CRC32""] : chars,
            // @lengthOf(
            // " ++ [128512]%N ++ runes_of_ascii " emoji
            65535 : i8i8,
        },
    },
}")).
Eval vm_compute in ("<<<M85>>>" ++ check (runes_of_ascii "MetaData options1
    // c
    { char[]x ,} MetaData
float
    { pack u128 , }
    packet len{
i32
    float
@lengthOf( _x ) , @lengthOf( Packet )
    repeat crc x_y_z
`tab	here`
, @tag(
00
    ) repeat string_ pack
    , @rightPad
(
'\x00'
    )@rightPad ( '0') // 50% %s
@calculatedFrom(//
""" ++ [28040; 24687]%N ++ runes_of_ascii """
) string a1, }
")).
Eval vm_compute in ("<<<M690>>>" ++ check (runes_of_ascii "options
{	metadata = 00
    }
    packet
metadata {
@calculatedFrom(
""1""  ) // @lengthOf(
repeat//	t
stringy {
char[ 0123456789
    ] crc// trailing space 
@lengthOf(	u8x
    /// triple
    ) // @lengthOf(
, metadata
options1,char[] int
    ,
// c
/// triple
}
, // `tick` ""quote"" 'q'
}
// " ++ [128512]%N ++ runes_of_ascii " emoji
")).
Eval vm_compute in ("<<<M134>>>" ++ check (runes_of_ascii "// packet A { u8 x, }
options
{float
= string
    } options { } packet options1 {} packet o{}MetaData  float{ tag
    metadata`` , i32 // 50% %s
o `// not a comment`
    , u32 len
    ,zchar[ 3 ]
// `tick` ""quote"" 'q'
// " ++ [27880; 37322]%N ++ runes_of_ascii "
Header , o zchar	`` , o // @lengthOf(
stringy `two words` //
, }
")).
Eval vm_compute in ("<<<M2045>>>" ++ check (runes_of_ascii "packet	packetx { // trailing space 
x_y_z
{
string
charz ,
string x// @lengthOf(
`two words`
    ,  u8x { // `tick` ""quote"" 'q'
charz `100% of %d` // packet A@leftpad { u8 x, }
,}// " ++ [27880; 37322]%N ++ runes_of_ascii "
,} , }
    // a // b
    packet metadata {  @leftPad ( '0') repeat i32 options1 ,u64 uint8x , }
")).
Eval vm_compute in ("<<<M2037>>>" ++ check (runes_of_ascii "packet	packetx { // trailing space 
x_y_z
{
string
charz ,
string x// @lengthOf(
`two words`
    ,  u8x { // `tick` ""quote"" 'q'
charz `100% of %d` // packet A { u8 x, }
,}// " ++ [27880; 37322]%N ++ runes_of_ascii "
@tag,} , }
    // a // b
    packet metadata {  @leftPad ( '0') repeat i32 options1 ,u64 uint8x , }
")).
Eval vm_compute in ("<<<M2024>>>" ++ check (runes_of_ascii "packet	packetx { // trailing space 
x_y_z
{
string
charz ,
string x// @lengthOf(
`two words`
    ,  u8x { // `tick` ""quote"" 'q'
charz `100% of %d` // packet A { u8 x, }
,}// " ++ [27880; 37322]%N ++ runes_of_ascii "
,} , }
    // a // b
    packet metadata {  @leftPad ( '0') repeat i32 options1 ,u64 uint8x u16 }
")).
Eval vm_compute in ("<<<M1928>>>" ++ check (runes_of_ascii "packet	packetx { // trailing space 
x_y_z
{
string
charz ,
string x// @lengthOf(
`two words`
    ,  u8x { // `tick` ""quote"" 'q'
charz `100% of %d` // packet A { u8 x, }
},// " ++ [27880; 37322]%N ++ runes_of_ascii "
,} , }
    // a // b
    packet metadata {  @leftPad ( '0') repeat i32 options1 ,u64 uint8x , }
")).
Eval vm_compute in ("<<<M1926>>>" ++ check (runes_of_ascii "packet	packetx { // trailing space 
x_y_z
{
string
charz ,
string x// @lengthOf(
`two words`
    ,  u8x { // `tick` ""quote"" 'q'
charz `100% of %d` // packet A { u8 x, }
}// " ++ [27880; 37322]%N ++ runes_of_ascii "
,} , }
    // a // b
    packet metadata {  @leftPad ( '0') repeat i32 options1 ,u64 uint8x , }
")).
Eval vm_compute in ("<<<M2162>>>" ++ check (runes_of_ascii "packet// packet A { u8 x, }
repeatCount	{// packet A { u8 x, }
@leftPad ( '\x00'
) repeat u8x MetaDataX `crlf
line`,
    repeat
    char[] MetaDataX
    ,
u64	uint8x@calculatedFrom(""a\""b""
// c
// packet A { u8 x, }
) `tab	here`
@calculatedFrom(//
}MetaData pack
    {
    }
")).
Eval vm_compute in ("<<<M3561>>>" ++ check (runes_of_ascii "  options  {LittleEndian = false ;StringPrefixLenType

=	u32 
;ArrayPrefixLenType  =
	u64
; 
FixedStringPadFromLeft =false
; 
FixedStringPadChar	=
	'0' ; 
}
packet
Fill	{

zchar[

6 ] 
price
	, } root  packet Quote

{
Fill  ,
float32	count, repeat

f64
	OrderId
,	} ")).
Eval vm_compute in ("<<<M800>>>" ++ check (runes_of_ascii "root
    packet float
    {@calculatedFrom( ""// no comment"" ) Pad	uint8x // a // b
`tab	here` , @leftPad  ()repeat pack{
i8 packetx
`doc`
, } ,
zchar[ 0123456789 ]metadata ,
@rightPad
    ()
    @lengthOf( leftPad ) repeat
    char[
    7] u8x `line1
line2` ,
}

")).
Eval vm_compute in ("<<<M2197>>>" ++ check (runes_of_ascii "packet// packet A { u8 x, }
repeatCount	{// packet A { u8 x, }
@leftPad ( '\x00'
) repeat u8x '1'MetaDataX `crlf
line`,
    repeat
    char[] MetaDataX
    ,
u64	uint8x@calculatedFrom(""a\""b""
// c
// packet A { u8 x, }
) `tab	here`
,//
}MetaData pack
    {
    }
")).
Eval vm_compute in ("<<<M2203>>>" ++ check (runes_of_ascii "packet// packet A { u8 x, }
repeatCount	{// packet A { u8 x, }
@leftPad ( '\x00'
) repeat u8x MetaDataX `crlf
line`,
    repeat
    char[] MetaDataX
    ,
u64	uint8x@calculatedFrom(""a\""b""
// c
// packet A { u8 x, }
" ++ [0]%N ++ runes_of_ascii ") `tab	here`
,//
}MetaData pack
    {
    }
")).
Eval vm_compute in ("<<<M2126>>>" ++ check (runes_of_ascii "packet// packet A { u8 x, }
repeatCount	{// packet A { u8 x, }
@leftPad ( '\x00'
) repeat u8x MetaDataX `crlf
line`,
    repeat
    char[] MetaDataX
    u64
,	uint8x@calculatedFrom(""a\""b""
// c
// packet A { u8 x, }
) `tab	here`
,//
}MetaData pack
    {
    }
")).
Eval vm_compute in ("<<<M867>>>" ++ check (runes_of_ascii "root packet
falsey { @tag( 0123456789 )leftPad , repeat o
    // @lengthOf(
    metadata,
calculatedFrom @lengthOf(  pack) , repeat int{
// packet A { u8 x, }
//
int8 zchar// @lengthOf(
, float32 float
`100% of %d` , repeat u64 repeatCount
    ,
    } ,	}

")).
Eval vm_compute in ("<<<M2207>>>" ++ check (runes_of_ascii "packet// packet A { u8 x, }
repeatCount	{// packet A { u8 x, }
@leftPad ( '\x00'
) repeat u8x a" ++ [769]%N ++ runes_of_ascii "b `crlf
line`,
    repeat
    char[] MetaDataX
    ,
u64	uint8x@calculatedFrom(""a\""b""
// c
// packet A { u8 x, }
) `tab	here`
,//
}MetaData pack
    {
    }
")).
Eval vm_compute in ("<<<M1627>>>" ++ check (runes_of_ascii "packet calculatedFrom
{ @calculatedFrom( ""a\\"" ) zchar[ 4294967296 ]
calculatedFrom@lengthOf( pack )	`100% of %d` ,char[]body@calculatedFrom( ""// no comment"" )  ,
@tag( 007) //x
'1' int8
leftPad`it's` , repeat pack
    { repeat char[ 3] body
,},
}")).
Eval vm_compute in ("<<<M1609>>>" ++ check (runes_of_ascii "packet calculatedFrom
{ @calculatedFrom( ""a\\"" ) zchar[ 4294967296 ]
calculatedFrom@lengthOf( pack )	`100% of %d` ,char[]body@calculatedFrom( ""// no comment"" )  ,
@tag( 007) //x
int8
leftPad`it's` , repeat pack
    { repeat char[ 3] body
,},
} }")).
Eval vm_compute in ("<<<M4478>>>" ++ check (runes_of_ascii "  options
	{
i8i8 = 
""// no comment""
;lengthOf  =  false 
    // " ++ [128512]%N ++ runes_of_ascii " emoji
// a // b
    	;
	    //x

	body='\x00' ; 
T
= '\x00'
//	t
  //

  ;
} root

    packet	trueish{	//x
  string body

`100% of %d` 
,
repeat

u8 u8x
`line1
line2`,
    }")).
Eval vm_compute in ("<<<M1565>>>" ++ check (runes_of_ascii "packet calculatedFrom
{ @calculatedFrom( ""a\\"" ) zchar[ 4294967296 ]
calculatedFrom@lengthOf( pack )	`100% of %d` ,char[]body@calculatedFrom( ""// no comment"" )  ,
@tag( 007) //x
int8
leftPad`it's` , repeat pack
    repeat { char[ 3] body
,},
}")).
Eval vm_compute in ("<<<M4412>>>" ++ check (runes_of_ascii "
//x
    options
{falsey// " ++ [27880; 37322]%N ++ runes_of_ascii "
    =
00
	pack
=  // @lengthOf(

  '0'	x_y_z
=  ""\" ++ [233]%N ++ runes_of_ascii """

; 
} 
// " ++ [128512]%N ++ runes_of_ascii " emoji

options 
{	}
root 
  // " ++ [27880; 37322]%N ++ runes_of_ascii "
// " ++ [27880; 37322]%N ++ runes_of_ascii "
packet
_x 	 // @lengthOf(

	{
zchar[ 1  ]	len
	@calculatedFrom(// a // b
""CRC32""
    )`" ++ [28040; 24687; 31867; 22411]%N ++ runes_of_ascii "`

    ,}

")).
Eval vm_compute in ("<<<M1573>>>" ++ check (runes_of_ascii "packet calculatedFrom
{ @calculatedFrom( ""a\\"" ) zchar[ 4294967296 ]
calculatedFrom@lengthOf( pack )	`100% of %d` ,char[]body@calculatedFrom( ""// no comment"" )  ,
@tag( 007) //x
int8
leftPad`it's` , repeat pack
    { repeat  3] body
,},
}")).
Eval vm_compute in ("<<<M1421>>>" ++ check (runes_of_ascii "packet 3
{ @calculatedFrom( ""a\\"" ) zchar[ 4294967296 ]
calculatedFrom@lengthOf( pack )	`100% of %d` ,char[]body@calculatedFrom( ""// no comment"" )  ,
@tag( 007) //x
int8
leftPad`it's` , repeat pack
    { repeat char[ 3] body
,},
}")).
Eval vm_compute in ("<<<M1975>>>" ++ check (runes_of_ascii "packet	packetx { // trailing space 
x_y_z
{
string
charz ,
string x// @lengthOf(
`two words`
    ,  u8x { // `tick` ""quote"" 'q'
charz `100% of %d` // packet A { u8 x, }
,}// " ++ [27880; 37322]%N ++ runes_of_ascii "
,} , }
    // a // b
    packet metadata {")).
Eval vm_compute in ("<<<M190>>>" ++ check (runes_of_ascii "// a // b
root packet packetx
{ string matchKey
, tag chars
    `u8 x,`
    ,
}
MetaData
Foo {stringy len , // @lengthOf(
float32 matchKey ,int64 lengthOf,}MetaData i8i8  { char[10 ]body, } // `tick` ""quote"" 'q'")).
Eval vm_compute in ("<<<M3398>>>" ++ check (runes_of_ascii "// top
packet
    // c0
o
    // c1
{
    // c2
@tag(
    // c3
4294967296
    // c4
)
    // c5
options1
    // c6
@lengthOf(
    // c7
u8x
    // c8
)
    // c9
`" ++ [233]%N ++ runes_of_ascii "`
    // c10
,
    // c11
}
    // c12
")).
Eval vm_compute in ("<<<M1039>>>" ++ check (runes_of_ascii "MetaData packetx
    //x
    {// a // b
i16 _x , zchar[ 0123456789 ]x_y_z
, BodyLength roots // " ++ [128512]%N ++ runes_of_ascii " emoji
, zchar[ 1 /// triple
] lengthOf , options1
// a // b
// packet A { u8 x, }
Pad `it's` , }
")).
Eval vm_compute in ("<<<M234>>>" ++ check (runes_of_ascii "packet Packet {	@calculatedFrom(
""// no comment""	)
    @lengthOf( T )
    uint16 msg_type
    ,@tag( 10 // trailing space 
) char[ 4294967296
]tag  ,	repeat options1 rootA
, }
// 50% %s
")).
Eval vm_compute in ("<<<M1542>>>" ++ check (runes_of_ascii "packet calculatedFrom
{ @calculatedFrom( ""a\\"" ) zchar[ 4294967296 ]
calculatedFrom@lengthOf( pack )	`100% of %d` ,char[]body@calculatedFrom( ""// no comment"" )  ,
@tag( 007) //x
int8")).
Eval vm_compute in ("<<<M1358>>>" ++ check (runes_of_ascii "packet Header {
match T as msg_type { 1 : leftPad ,  """ ++ [128512]%N ++ runes_of_ascii """ : crc , """ ++ [233]%N ++ runes_of_ascii "t" ++ [233]%N ++ runes_of_ascii """:
As ""\" ++ [233]%N ++ runes_of_ascii """ : body
    ,	10 : i64_ , [10 , ""a\""b"" ] //x
: Header , } // trailing space 
, } // @lengthOf(")).
Eval vm_compute in ("<<<M1021>>>" ++ check (runes_of_ascii "packet T {// packet A { u8 x, }
@leftPad
(
'0' ) zchar[10] string_ ,
    @calculatedFrom( ""a\\"" )
    A@calculatedFrom(
""a\\"" ) , char[ //	t
3 ] i8i8 , }
// 50% %s
")).
Eval vm_compute in ("<<<M2434>>>" ++ check (runes_of_ascii "
packet MetaDataX
float64
    @leftPad
( // a // b
'0'
) i8 u @lengthOf(
MetaDataX
    ) `say ""hi""` ,	} MetaData BodyLength {
    asx
x_y_z `" ++ [233]%N ++ runes_of_ascii "`
, uint64 u128 , }
")).
Eval vm_compute in ("<<<M1718>>>" ++ check (runes_of_ascii "options { } packet Packet{char[] i64_ ,
@tag(
    255) match
crc as i8i8{""{,}"" ""{,}"" : trueish """" : Pad , ""a\\"" :
Foo ,
    1 :packetx
, """ ++ [128512]%N ++ runes_of_ascii """ : trueish , } , }")).
Eval vm_compute in ("<<<M2435>>>" ++ check (runes_of_ascii "
packet MetaDataX
{
    @leftPad
( // a // b
'0'
) i8 u @lengthOf(
MetaDataX
    ) `say ""hi""` ,	} MetaData BodyLength {
    asx
x_y_z `" ++ [233]%N ++ runes_of_ascii "`
, uint64 u128 , } }
")).
Eval vm_compute in ("<<<M2355>>>" ++ check (runes_of_ascii "
packet MetaDataX
{
    @leftPad
( // a // b
)
'0' i8 u @lengthOf(
MetaDataX
    ) `say ""hi""` ,	} MetaData BodyLength {
    asx
x_y_z `" ++ [233]%N ++ runes_of_ascii "`
, uint64 u128 , }
")).
Eval vm_compute in ("<<<M1758>>>" ++ check (runes_of_ascii "options { } packet Packet{char[] i64_ ,
@tag(
    255) match
crc as i8i8{""{,}"" : trueish """" : Pad , ""a\\"" : :
Foo ,
    1 :packetx
, """ ++ [128512]%N ++ runes_of_ascii """ : trueish , } , }")).
Eval vm_compute in ("<<<M1654>>>" ++ check (runes_of_ascii "options { } packet {Packet char[] i64_ ,
@tag(
    255) match
crc as i8i8{""{,}"" : trueish """" : Pad , ""a\\"" :
Foo ,
    1 :packetx
, """ ++ [128512]%N ++ runes_of_ascii """ : trueish , } , }")).
Eval vm_compute in ("<<<M1694>>>" ++ check (runes_of_ascii "options { } packet Packet{char[] i64_ ,
@tag(
    255) crc
match as i8i8{""{,}"" : trueish """" : Pad , ""a\\"" :
Foo ,
    1 :packetx
, """ ++ [128512]%N ++ runes_of_ascii """ : trueish , } , }")).
Eval vm_compute in ("<<<M2397>>>" ++ check (runes_of_ascii "
packet MetaDataX
{
    @leftPad
( // a // b
'0'
) i8 u @lengthOf(
MetaDataX
    ) `say ""hi""` ,	} MetaData BodyLength {
    asx
x_y_z 
, uint64 u128 , }
")).
Eval vm_compute in ("<<<M3730>>>" ++ check (runes_of_ascii "MetaData i8i8 {
    i64 chars `two words`,
    int32 repeatCount `u8 x,`,
    float options1,
    i64 tag,
    char[] As `{ , }`,
    Foo roots `it's`,
}")).
Eval vm_compute in ("<<<M1785>>>" ++ check (runes_of_ascii "options { } packet Packet{char[] i64_ ,
@tag(
    255) match
crc as i8i8{""{,}"" : trueish """" : Pad , ""a\\"" :
Foo ,
    1 :int8
, """ ++ [128512]%N ++ runes_of_ascii """ : trueish , } , }")).
Eval vm_compute in ("<<<M1059>>>" ++ check (runes_of_ascii "packet f32a
/// triple
// " ++ [27880; 37322]%N ++ runes_of_ascii "
{// @lengthOf(
repeat
// trailing space 
/// triple
uint8 i8i8 ,} root
    packet u8x {
    } MetaData T // " ++ [128512]%N ++ runes_of_ascii " emoji
{}
")).
Eval vm_compute in ("<<<M982>>>" ++ check (runes_of_ascii "root packet
Header{	@leftPad ( '\x00') f32a	string_
, @calculatedFrom(	""{,}"") options1 @calculatedFrom(
// trailing space 
/// triple
""" ++ [128512]%N ++ runes_of_ascii """ ),
}
")).
Eval vm_compute in ("<<<M953>>>" ++ check (runes_of_ascii "// @lengthOf(
MetaData lengthOf{ pack roots `doc` ,
i64_ chars ,
    /// triple
    string Packet
`a\`,
//	t
// " ++ [27880; 37322]%N ++ runes_of_ascii "
float64 u `{ , }` , }
")).
Eval vm_compute in ("<<<M1162>>>" ++ check (runes_of_ascii "options { Packet = 65535 BodyLength	=
    // `tick` ""quote"" 'q'
    int64 } options {
    calculatedFrom = '0';
    Packet= ""packet"" }
")).
Eval vm_compute in ("<<<M1069>>>" ++ check (runes_of_ascii "MetaData	rootA { uint8x MetaDataX	,
char[] roots  , roots i8i8 , uint16
// packet A { u8 x, }
// 50% %s
o
, int16 lengthOf ,
    }
")).
Eval vm_compute in ("<<<M1258>>>" ++ check (runes_of_ascii "packet repeatCount
{ @leftPad ( '\x00' )
x_y_z @calculatedFrom( ""\" ++ [233]%N ++ runes_of_ascii """	)
    , @calculatedFrom( ""\" ++ [233]%N ++ runes_of_ascii """	) zchar
T `{ , }` , } //	t")).
Eval vm_compute in ("<<<M3279>>>" ++ check (runes_of_ascii "MetaData metadata { } MetaData rootA { i8 i64_
// c
, roots options1 `a\` , lengthOf Header , Z9_ Foo , int16 BodyLength , }")).
Eval vm_compute in ("<<<M4147>>>" ++ check (runes_of_ascii "MetaData float {
    uint8 BodyLength,
}

MetaData charz {
    // c
    float32 trueish `a\`,
    i16 metadata `say ""hi""`,
}")).
Eval vm_compute in ("<<<M2113>>>" ++ check (runes_of_ascii "packet// packet A { u8 x, }
repeatCount	{// packet A { u8 x, }
@leftPad ( '\x00'
) repeat u8x MetaDataX `crlf
line`,")).
Eval vm_compute in ("<<<M4137>>>" ++ check (runes_of_ascii "  root

    packet
T

    {	}
	MetaData	msg_type {
i64_
i64_ ,  } 
/// triple
  root 
packet
    x_y_z {}
")).
Eval vm_compute in ("<<<M3318>>>" ++ check (runes_of_ascii "MetaData // c
float { uint8 BodyLength , } MetaData charz { float32 trueish `a\` , i16 metadata `say ""hi""` , }")).
Eval vm_compute in ("<<<M3350>>>" ++ check (runes_of_ascii "MetaData float { uint8 BodyLength , } MetaData charz { float32 trueish `a\` , i16 metadata `say ""hi""` // c
, }")).
Eval vm_compute in ("<<<M3008>>>" ++ check (runes_of_ascii "packet A {
  match k as n {
    [""a"", ""bb"", 007, ""d"", ""e"", 66, ""g"", ""h"", 9, ""j"", ""k""] : B,
    2 : C
  },
}")).
Eval vm_compute in ("<<<M3033>>>" ++ check (runes_of_ascii "packet A {
    Inner {
        u8 x `a
b`,
        Deep {
            u8 y `a
b`,
        },
    },
}")).
Eval vm_compute in ("<<<M3027>>>" ++ check (runes_of_ascii "packet A {
    Inner {
        u8 x `a
b`,
        Deep {
            u8 y `a
b`,
        },
    },
}")).
Eval vm_compute in ("<<<M2211>>>" ++ check (runes_of_ascii "MetaData MetaData _x {string x `// not a comment` , string
i64_ // trailing space 
`a\` ,
    }
")).
Eval vm_compute in ("<<<M2266>>>" ++ check (runes_of_ascii "MetaData _x {string x `// not a comment` , string
i64_ // trailing space 
`a\` ,
    @leftPad
")).
Eval vm_compute in ("<<<M2994>>>" ++ check (runes_of_ascii "packet A {
  match k as n {
    [1, 22, ""c c"", 4, 5, ""f"", 7, 8, ""i"", 10] : B
    2 : C
  },
}")).
Eval vm_compute in ("<<<M2230>>>" ++ check (runes_of_ascii "MetaData _x {string x x `// not a comment` , string
i64_ // trailing space 
`a\` ,
    }
")).
Eval vm_compute in ("<<<M2963>>>" ++ check (runes_of_ascii "packet A {
  match k as n {
    [1, ""bb"", 007, ""d"", 5, ""f"", 7, ""h""] : B,
    2 : C
  },
}")).
Eval vm_compute in ("<<<M2229>>>" ++ check (runes_of_ascii "MetaData _x {string  `// not a comment` , string
i64_ // trailing space 
`a\` ,
    }
")).
Eval vm_compute in ("<<<M2972>>>" ++ check (runes_of_ascii "packet A {
  match k as n {
    [1, 22, 007, 4, 5, 66, 7, 8, 9] : B,
    2 : C
  },
}")).
Eval vm_compute in ("<<<M2951>>>" ++ check (runes_of_ascii "packet A {
  match k as n {
    [1, ""bb"", 007, ""d"", 5, ""f"", 7] : B
    2 : C
  },
}")).
Eval vm_compute in ("<<<M3660>>>" ++ check (runes_of_ascii "packet orderItem {
    u8 a,
}

root packet newOrder {
    orderItem,
    u8 x,
}")).
Eval vm_compute in ("<<<M2931>>>" ++ check (runes_of_ascii "packet A {
  match k as n {
    [""a"", ""bb"", 007, ""d"", ""e""] : B
    2 : C
  },
}")).
Eval vm_compute in ("<<<M4228>>>" ++ check (runes_of_ascii "
packet A {match
    k
as  n

    {	[ 1 , 22
	]
:  B 2
    :C
	}	,
    }

")).
Eval vm_compute in ("<<<M3383>>>" ++ check (runes_of_ascii "MetaData _x { f64 charz `tab	here` , } options {
// c
BodyLength = """ ++ [233]%N ++ runes_of_ascii "t" ++ [233]%N ++ runes_of_ascii """ ; }")).
Eval vm_compute in ("<<<M3843>>>" ++ check (runes_of_ascii "packet Inner {
    u8 a,
}

root packet P {
    Inner ref_obj,
    u8 x,
}")).
Eval vm_compute in ("<<<M4100>>>" ++ check (runes_of_ascii "  packet
    A

{
    match k as n  {  1

    :
B 
, // c
    }  ,}
")).
Eval vm_compute in ("<<<M2902>>>" ++ check (runes_of_ascii "packet A {
  match k as n {
    [1, 22, ""c c""] : B,
    2 : C
  },
}")).
Eval vm_compute in ("<<<M4378>>>" ++ check (runes_of_ascii "MetaData pack {
    // `tick` ""quote"" 'q'
    uint16 Logon `" ++ [28040; 24687; 31867; 22411]%N ++ runes_of_ascii "`,
}")).
Eval vm_compute in ("<<<M3484>>>" ++ check (runes_of_ascii "root packet P {
    u8 s_u8,
    repeat u8 r_u8,
    u16 b_len,
}
")).
Eval vm_compute in ("<<<M2751>>>" ++ check (runes_of_ascii "options @tag( @tag( match uint16 [ { u16 char packet , ] uint16")).
Eval vm_compute in ("<<<M722>>>" ++ check (runes_of_ascii "MetaData roots { zchar[0123456789] metadata `it's`	, } // " ++ [27880; 37322]%N)).
Eval vm_compute in ("<<<M3638>>>" ++ check (runes_of_ascii "root
	packet len
    { }  root  packet
i8i8 	 //
	  {	}
")).
Eval vm_compute in ("<<<M2344>>>" ++ check (runes_of_ascii "
MetaData Pad{
'\x01' u32 rootA `line1
line2` ,
    }
")).
Eval vm_compute in ("<<<M3221>>>" ++ check (runes_of_ascii "packet A { repeat // a
 B // b
 b // c
 `d` // e
 , }")).
Eval vm_compute in ("<<<M515>>>" ++ check (runes_of_ascii "
MetaData x  { Packet // " ++ [128512]%N ++ runes_of_ascii " emoji
leftPad `it's` ,}")).
Eval vm_compute in ("<<<M2608>>>" ++ check (runes_of_ascii "packet A { x @lengthOf(y) @calculatedFrom(""c""), }")).
Eval vm_compute in ("<<<M2318>>>" ++ check (runes_of_ascii "
MetaData Pad{
u32 rootA `line1
line2` 
    }
")).
Eval vm_compute in ("<<<M3028>>>" ++ check (runes_of_ascii "MetaData M {
    u8 x `a
b`,
    T t `a
b`,
}")).
Eval vm_compute in ("<<<M3064>>>" ++ check (runes_of_ascii "MetaData M {
    u8 x `
x`,
    T t `
x`,
}")).
Eval vm_compute in ("<<<M3250>>>" ++ check (runes_of_ascii "MetaData zchar { zchar[ 3 ] Pad , }
// c
")).
Eval vm_compute in ("<<<M726>>>" ++ check (runes_of_ascii "options
{ i8i8 ='\x00'int
=true ; } 	 ")).
Eval vm_compute in ("<<<M1676>>>" ++ check (runes_of_ascii "options { } packet Packet{char[] i64_")).
Eval vm_compute in ("<<<M4146>>>" ++ check (runes_of_ascii "

  root
packet  A{  u8

x `%`

,}
")).
Eval vm_compute in ("<<<M2640>>>" ++ check (runes_of_ascii "packet A { @tag(1) @tag(2) u8 x, }")).
Eval vm_compute in ("<<<M333>>>" ++ check (runes_of_ascii "
options{ }
packet leftPad	{}
")).
Eval vm_compute in ("<<<M927>>>" ++ check (runes_of_ascii "root packet  repeatCount {
}
")).
Eval vm_compute in ("<<<M3048>>>" ++ check (runes_of_ascii "packet A {
    u8 x `a

b`,
}")).
Eval vm_compute in ("<<<M3060>>>" ++ check (runes_of_ascii "packet A {
    u8 x `
x`,
}")).
Eval vm_compute in ("<<<M1289>>>" ++ check (runes_of_ascii "
root
packet len
{
    }
")).
Eval vm_compute in ("<<<M3849>>>" ++ check (runes_of_ascii "root packet

i8i8

{ }
")).
Eval vm_compute in ("<<<M454>>>" ++ check (runes_of_ascii "
root packet
As {}

")).
Eval vm_compute in ("<<<M363>>>" ++ check (runes_of_ascii "packet lengthOf{	}
")).
Eval vm_compute in ("<<<M2329>>>" ++ check (runes_of_ascii "
MetaData Pad{
u3")).
Eval vm_compute in ("<<<M3174>>>" ++ check (runes_of_ascii "packet A {
}
// c" ++ [8203]%N)).
Eval vm_compute in ("<<<M3107>>>" ++ check (runes_of_ascii "packet A {
}// c" ++ [12288]%N)).
Eval vm_compute in ("<<<M2853>>>" ++ check (runes_of_ascii "P""_z/DJ`P<};\Xy/")).
Eval vm_compute in ("<<<M3641>>>" ++ check (runes_of_ascii "packet Z9_ {
}")).
Eval vm_compute in ("<<<M465>>>" ++ check (runes_of_ascii "options
{	}")).
Eval vm_compute in ("<<<M2710>>>" ++ check (runes_of_ascii "-;]VJ>hQd")).
Eval vm_compute in ("<<<M2487>>>" ++ check (runes_of_ascii "matches")).
Eval vm_compute in ("<<<M899>>>" ++ check (runes_of_ascii "// c
")).
Eval vm_compute in ("<<<M3143>>>" ++ check (runes_of_ascii "// c" ++ [8233]%N)).
Eval vm_compute in ("<<<M2701>>>" ++ check (runes_of_ascii "
	 ")).
Eval vm_compute in ("<<<M2568>>>" ++ check (runes_of_ascii "a" ++ [11]%N ++ runes_of_ascii "b")).
Eval vm_compute in ("<<<M2820>>>" ++ check ([65533]%N ++ runes_of_ascii "n")).
