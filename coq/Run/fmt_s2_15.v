From FP Require Import Lexer Parser ShowPT Digest Formatter.
From Coq Require Import String List NArith.
Import ListNotations.
Open Scope string_scope.
Set Printing Width 100000000.
Set Printing Depth 100000000.
Definition show_fres (r : fres) : string :=
  match r with
  | FOk s => "OK:" ++ sh_escaped s ""
  | FErr s => "ERR:" ++ sh_escaped s ""
  | FPanic p => "PANIC:" ++ p
  end.
Definition check (rs : list rune) : string := digest (show_fres (format_res rs)).
Definition full (rs : list rune) : string := show_fres (format_res rs).
Eval vm_compute in ("<<<M1076>>>" ++ check (runes_of_ascii "  packet a1 {} options{len= ""a\""b"" ;
} options
{Header =
    '\x00' // " ++ [128512]%N ++ runes_of_ascii " emoji
; BodyLength=
uint8 ; } packet Foo {
    @lengthOf(
// " ++ [27880; 37322]%N ++ runes_of_ascii "
// trailing space 
a1) packetx{ a1 @calculatedFrom(
""\n"" ) , asx{	repeat char[ 3
]
roots`` , repeat string_	{
string a1 @calculatedFrom(""// no comment"" ) `// not a comment`, uint8 charz, string_ ,}	, string	_x `line1
line2` ,
    repeat char[] float `{ , }`  ,
    }
    , MetaDataX , },Packet
, char[
    0123456789] string_
    `say ""hi""` , @lengthOf( stringy
    ) @tag( 65535 ) @leftPad // a // b
( '0'
) match
    chars as
u8x { // packet A { u8 x, }
0123456789 :Packet,
0 : u , [ """ ++ [128512]%N ++ runes_of_ascii """	]
: matchKey
    // @lengthOf(
    , 0123456789 : // trailing space 
len , //	t
""a\\""
    : As,0123456789  :
x_y_z , },match
    // packet A { u8 x, }
    msg_type
    as metadata {	0123456789
    :
chars //
, // " ++ [27880; 37322]%N ++ runes_of_ascii "
65535  :	calculatedFrom
,// a // b
""packet"" : charz ,// trailing space 
}
, @tag( 10) repeat i8i8 falsey	`{ , }` ,
@tag(
    3) match repeatCount as zchar{ 10 : calculatedFrom // c
} , match//x
Logon as
/// triple
// trailing space 
falsey
    { ""a\""b"" : packetx,  } ,@lengthOf(
zchar )repeat zchar[ 00 // `tick` ""quote"" 'q'
]body	,
    repeat char[ 00
//
// trailing space 
]
len
    , } packet
    uint8x
{ @lengthOf( float ) @calculatedFrom( ""\n""
)
match zchar as BodyLength
    { 10 :Pad
    //x
    ,} ,
    @lengthOf( charz)	f32 stringy
`line1
line2` , crc { u64 BodyLength@lengthOf( calculatedFrom )
,char[ // @lengthOf(
00 ] msg_type
    /// triple
    @lengthOf( Logon ) , /// triple
} ,
    i16 MetaDataX`
`
,
@calculatedFrom( ""x y"" ) match roots as leftPad
{ ""\n"" : rootA , [ ""x y""
, 0123456789 , 0
,65535,
    ""x y""  ,
    ""abc"" ]:pack  ,  0 : float ,
    } , @lengthOf(lengthOf
) @lengthOf( f32a
) i32
// packet A { u8 x, }
// trailing space 
matchKey @lengthOf(len
)
, u8 Z9_ // " ++ [128512]%N ++ runes_of_ascii " emoji
@calculatedFrom( ""packet""
    )`it's` ,
@lengthOf( float
) repeat i8i8 `crlf
line` , @tag( 0123456789 ) repeat
i8
    matchKey `two words`, @leftPad
(
' '// a // b
) string metadata @calculatedFrom(  ""it's"" ) , }

")).
Eval vm_compute in ("<<<M1094>>>" ++ check (runes_of_ascii "packet/// triple
u128 {@calculatedFrom(
""" ++ [128512]%N ++ runes_of_ascii """ )
/// triple
// c
i64 charz `tab	here` ,
    @lengthOf(
Header ) float32 a1@calculatedFrom(""" ++ [128512]%N ++ runes_of_ascii """) , repeat string a1
`it's`
    , @tag( 42
) @tag(
7 )zchar stringy ,
float32	calculatedFrom `
`,} MetaData x{ // " ++ [27880; 37322]%N ++ runes_of_ascii "
Header x_y_z`
` ,int64
options1
`it's`, char[]
chars, u16 options1
,u16 calculatedFrom `tab	here` // `tick` ""quote"" 'q'
, char[	0123456789 ] u , } root packet uint8x { @rightPad (	'\x00')
    char[	7]asx , int64
Pad @lengthOf(
As)`crlf
line`, msg_type  @calculatedFrom(
    ""`tick`"" ) ,
@calculatedFrom(// a // b
""a\\"" ) @rightPad ( ' '
    )repeatCount	`line1
line2`
, @tag(3 ) int32 As `two words`
,@tag( 1) @calculatedFrom( ""`tick`""  ) @lengthOf( f32a )match zchar
as u {0123456789: leftPad	""\" ++ [233]%N ++ runes_of_ascii """:  _x  , 7 : MetaDataX
, [ 4294967296 ]
:	stringy, 7:uint8x } ,@leftPad (
    ) string Foo
@lengthOf(MetaDataX ) ``, //
match calculatedFrom as A
{ [ 255
, 7 ,
1
, //x
1
    , 42,007 ,
007
    ]: A , [// `tick` ""quote"" 'q'
""a\\"",	""it's"",""1""
,	00 ,
    """ ++ [128512]%N ++ runes_of_ascii """,
""{,}"" ,
42]
:
    calculatedFrom	, ""it's""	:
    f32a ,
},
repeat char[]
i8i8,  leftPad
    ,
} packet _x { char[] Z9_  ,
int64 options1
    @calculatedFrom( """"// trailing space 
)`u8 x,`
,
    // `tick` ""quote"" 'q'
    @calculatedFrom( ""// no comment"" ) match tag
    as roots { [ // packet A { u8 x, }
""abc"" ] : options1	65535: o,	""// no comment"" : f32a// c
,""packet""
:uint8x ,  } ,  leftPad@calculatedFrom(""" ++ [233]%N ++ runes_of_ascii "t" ++ [233]%N ++ runes_of_ascii """ ) ,
    repeat x
    ,zchar[ 65535
] float `line1
line2` , i16 uint8x,	zchar[ 10
] uint8x // packet A { u8 x, }
,
@calculatedFrom(""abc"") repeat	x
{ trueish
    `tab	here`
,
}	, @tag( 1
) char[ 3 ]
// packet A { u8 x, }
// a // b
metadata`say ""hi""` , }
")).
Eval vm_compute in ("<<<M4039>>>" ++ check (runes_of_ascii "
packet
options1
{ /// triple
      string
falsey`doc`

    ,  float//
      BodyLength
,
@tag( 65535
    )
	Logon

@calculatedFrom( ""a	b"" )	,
repeat matchKey
	_x
`u8 x,` ,  // `tick` ""quote"" 'q'

	repeat  tag {
repeat u8 trueish `a\`
    ,char[]
        // a // b
    u8x @calculatedFrom(""it's""

    )
,

    },match	i64_ as

BodyLength 	 //x
	  {

""" ++ [28040; 24687]%N ++ runes_of_ascii """
	:

T 
, 
[
""packet"" ]  // " ++ [128512]%N ++ runes_of_ascii " emoji
	:

    x_y_z , 
""a\""b""
:
A 
,

65535
:
	asx[  //	t

""\n""
	,	0123456789 , 
0
,

    0123456789 ] : charz	//
    [  ""{,}""

    ,
""a\\""
	, // @lengthOf(
      255  ,
    10
, 1
,
""\" ++ [233]%N ++ runes_of_ascii """
,

    10 ]

    :  metadata  ,
    } ,	repeat string 
x_y_z,

    //
	/// triple
    match i8i8
as

    len 
// @lengthOf(
  {
	""\n""  : 
u8x 
, 0123456789 :

int

, 10// " ++ [128512]%N ++ runes_of_ascii " emoji
	:roots
	, }

    ,	rootA
	, 
@tag( // " ++ [27880; 37322]%N ++ runes_of_ascii "
	3)

rootA  @lengthOf(f32a) 	 // c

, 
// trailing space 

  }

packet 
options1{
    @calculatedFrom(""" ++ [128512]%N ++ runes_of_ascii """
	)

    i8i8  //
      @lengthOf(	Logon)
,
	    // @lengthOf(
// `tick` ""quote"" 'q'
    float32 chars

    `tab	here`

    ,  @leftPad  (  '0'  )
	@tag( 3 )  @calculatedFrom(
""""// trailing space 
    )	matchKey  @calculatedFrom(  // packet A { u8 x, }
	""" ++ [233]%N ++ runes_of_ascii "t" ++ [233]%N ++ runes_of_ascii """

    ) , repeat
    uint16
u``
,
@rightPad 
(/// triple

)	rootA ,@leftPad

    (
    // a // b
  '0'
) // @lengthOf(

  _x 
  // trailing space 

//	t
Z9_
, char[ 0123456789
]	packetx

`crlf
line` 
, }
")).
Eval vm_compute in ("<<<M4007>>>" ++ check (runes_of_ascii "
root
    packet
msg_type
	{ 
u128//
, @calculatedFrom( """ ++ [233]%N ++ runes_of_ascii "t" ++ [233]%N ++ runes_of_ascii """ )
repeat
char[ 

    //
		3	]

    metadata  `crlf
line`
,
char[255 ]

    Pad,asx @calculatedFrom( ""packet"" )

,repeat
    stringy

    `tab	here`,
	//x
  //	t

repeat //x
As
    `two words` ,@leftPad(

    '\x00'
) repeat matchKey
`a\`
,

@rightPad (' '	) 
repeat  /// triple
    Pad {	repeat u
    , 
      // trailing space 
// packet A { u8 x, }
repeat char[]uint8x 
, 
}	,u128

    {  repeat

    As

    `u8 x,`
,pack

msg_type

    , uint32	lengthOf
    @calculatedFrom(	""1""  )
,
match
    roots
as 
        // " ++ [128512]%N ++ runes_of_ascii " emoji
	x	{ ""{,}""	:
// " ++ [27880; 37322]%N ++ runes_of_ascii "
	Pad
	}
, }

,

    } root packet tag
{

string pack
    ,

    }	root

packet u8x	{	string
    pack 
`doc` ,	@lengthOf(
options1)f32	matchKey
@calculatedFrom(
""`tick`""
    ) `two words`
    ,

    @leftPad ( '\x00'
    )	@lengthOf( Packet)
@tag( 007	//x
  ) int32 
Pad

    @calculatedFrom( ""a\\""  )
, @calculatedFrom( """"
    )
    string
a1 @lengthOf(	metadata
)
,

    match
u128
    as

Foo{[
    ""`tick`""	]
    :msg_type	,10 // a // b
	: msg_type ,

00
	:
	len , ""`tick`"" :
_x

,  1: repeatCount, [
    1  , 	 //	t
		1  ]

:
        // packet A { u8 x, }
pack
,

    } 
, @leftPad (  ) float64
    pack  `
` ,

    }
")).
Eval vm_compute in ("<<<M534>>>" ++ check (runes_of_ascii "  packet roots
    {
@lengthOf(
    a1
)
    //x
    uint32 stringy `it's` ,
@tag( 0  ) string a1
//	t
//x
,match len as zchar {
    // @lengthOf(
    42 : lengthOf ,""" ++ [233]%N ++ runes_of_ascii "t" ++ [233]%N ++ runes_of_ascii """ : len """"
: Z9_
    ,} ,  @calculatedFrom(
    ""{,}""  ) // " ++ [128512]%N ++ runes_of_ascii " emoji
@tag(
    42 )rootA @lengthOf( repeatCount ) `" ++ [233]%N ++ runes_of_ascii "` // `tick` ""quote"" 'q'
,  BodyLength
    {
    f64 tag `u8 x,`
    ,
    //
    }	,	zchar[
255 ]
f32a `
` , @lengthOf( rootA )
a1 , @calculatedFrom( """ ++ [28040; 24687]%N ++ runes_of_ascii """ ) repeat u32  As `doc` ,	} packet o
{ repeat uint8
    A ,
    }MetaData u128{ int64 //	t
x_y_z `doc` , }options { asx // @lengthOf(
= 65535
; metadata //
= u32; pack = zchar[
    0123456789 ] }root
packet
lengthOf
{
@leftPad( '0' )
    @calculatedFrom(
// " ++ [27880; 37322]%N ++ runes_of_ascii "
//x
""it's"" ) int@calculatedFrom( ""`tick`"")
,i32 len
, @leftPad
( '\x00'
    )repeat	char[]falsey , @tag( 255
)
i32
lengthOf
    @lengthOf( MetaDataX )  , match int as A { 10
:
body ,	""abc"" :
    a1
,  }, metadata `a\`, int32 uint8x @lengthOf( repeatCount )
    ,@leftPad( )crc  body
,
    repeat
T
{
    // " ++ [128512]%N ++ runes_of_ascii " emoji
    float64 x,
char[] tag
    // trailing space 
    `say ""hi""`  , repeat Header { char[] string_ `say ""hi""`  ,Z9_
, }
, // " ++ [128512]%N ++ runes_of_ascii " emoji
}
    //x
    ,	}
")).
Eval vm_compute in ("<<<M3889>>>" ++ check (runes_of_ascii "

  root packet MetaDataX

    { }
options {
	matchKey

=

""abc"" ;i64_
    = 	 // a // b
	7
	;
len	= 1

    x_y_z

    =  //x

  '0'
;}

    options { 
A =
	7
len
    // a // b
	//x
  =
	zchar[  4294967296
	]
; o
=

string
    ; 
int

=
false

    f32a

=	// trailing space 
  ""CRC32"" ;
}  root  packet crc 
        // " ++ [27880; 37322]%N ++ runes_of_ascii "
  	{char[]
string_,
match  i8i8	// c
as tag	{	//x
3
	:
packetx
    }
	, @rightPad(
' '

)
repeat _x 
// packet A { u8 x, }
//x
    { a1	trueish
`// not a comment`
, } ,
	int16// packet A { u8 x, }
  Z9_ ,
@lengthOf( uint8x

    // @lengthOf(
	) 
	// `tick` ""quote"" 'q'
	// `tick` ""quote"" 'q'
	  zchar[  
      // " ++ [128512]%N ++ runes_of_ascii " emoji
      4294967296
] A@lengthOf( 
i64_ )  //	t
	`two words`
    ,  repeat // " ++ [27880; 37322]%N ++ runes_of_ascii "
  uint64

metadata 
,
@calculatedFrom( ""packet""

    )

    string 
    //x
	//	t

x `it's`,
	match

    T

as

asx
// " ++ [27880; 37322]%N ++ runes_of_ascii "
	//	t
{

    ""abc""

: A

    ,
""it's"":Logon

    ,
} , // packet A { u8 x, }

@calculatedFrom(
    //
	// a // b
	""\n"") string
	_x

    ,  uint64	zchar@lengthOf(

    lengthOf

)
, } 
packet uint8x
	{  }	// a // b
 
")).
Eval vm_compute in ("<<<M507>>>" ++ check (runes_of_ascii "
packet _x { repeat o int , match
int
    as Logon{
""packet"" :
// a // b
// packet A { u8 x, }
string_ },
@leftPad ( '0'
) zchar[
1 ] asx , }// @lengthOf(
packet leftPad { }	root
packet i8i8{
    @calculatedFrom(""it's"" ) _x
    len// " ++ [27880; 37322]%N ++ runes_of_ascii "
`crlf
line`, } root
    packet rootA { char[]
    rootA @lengthOf( leftPad
    )`u8 x,` , match
falsey
as calculatedFrom {42:
    Foo }
,
    repeat Z9_
    {
    uint16 _x// " ++ [128512]%N ++ runes_of_ascii " emoji
`doc` , zchar[ // `tick` ""quote"" 'q'
42// " ++ [128512]%N ++ runes_of_ascii " emoji
]
u8x ,repeat
zchar[
// @lengthOf(
// c
42
/// triple
// " ++ [27880; 37322]%N ++ runes_of_ascii "
]Z9_	`// not a comment`, } // trailing space 
,
string//
T,u8x i8i8, @calculatedFrom( ""CRC32"")  u64 zchar,
//
// " ++ [128512]%N ++ runes_of_ascii " emoji
}
packet Packet {repeat
    Z9_ int ,
int16 asx`// not a comment`
,@lengthOf(	options1
)
repeat int8
    As`" ++ [233]%N ++ runes_of_ascii "`// @lengthOf(
, @leftPad ( '\x00'
// " ++ [27880; 37322]%N ++ runes_of_ascii "
//	t
)
o { repeat
    //
    rootA
`crlf
line`
    //x
    ,
    Packet, }  , @calculatedFrom( ""`tick`""
    //
    ) @lengthOf( T
)
    //	t
    repeatCount
_x  ,
_x{ i16 x_y_z @lengthOf(a1
) `
`,}
// packet A { u8 x, }
//
,
    }")).
Eval vm_compute in ("<<<M3508>>>" ++ check (runes_of_ascii "options {
    // c1
LittleEndian // c2
= // c3a
  // c3b
false ; // c5a
  // c5b
StringPrefixLenType // c6
=
    // c7
u32
    // c8
; // c9a
  // c9b
ArrayPrefixLenType // c10
= // c11
u16
    // c12
; // c13
} // c14a
  // c14b
packet // c15
Party {
    // c17
@leftPad // c18a
  // c18b
(
    // c19
'0'
    // c20
) // c21
char[ 12 // c23a
  // c23b
] // c24a
  // c24b
Ref // c25
,
    // c26
repeat
    // c27
char[
    // c28
6
    // c29
] x , // c32
}
    // c33
packet
    // c34
Logon // c35a
  // c35b
{ uint32 // c37
clOrdID , // c39a
  // c39b
Party , } // c42
root
    // c43
packet // c44
Ack
    // c45
{ zchar[ 2 // c48a
  // c48b
] // c49a
  // c49b
f1
    // c50
, // c51a
  // c51b
u32
    // c52
seqNo
    // c53
, // c54a
  // c54b
u32 Side2
    // c56
@lengthOf( Body // c58
) // c59
, match seqNo as
    // c63
Body {
    // c65
43 // c66
:
    // c67
Logon , // c69a
  // c69b
93 // c70
: // c71
Party // c72a
  // c72b
, } // c74
, // c75a
  // c75b
} ")).
Eval vm_compute in ("<<<M168>>>" ++ check (runes_of_ascii "packet // trailing space 
crc {	match	trueish
    as pack {[// trailing space 
007
    , ""`tick`""
    , 42 ,3 ,
""x y"" ] :
    // " ++ [128512]%N ++ runes_of_ascii " emoji
    u128
, } , // packet A { u8 x, }
@tag( 255
)
    lengthOf
    // " ++ [128512]%N ++ runes_of_ascii " emoji
    lengthOf , repeat zchar[ 0123456789]
    calculatedFrom`" ++ [233]%N ++ runes_of_ascii "` , // trailing space 
@calculatedFrom(
""" ++ [28040; 24687]%N ++ runes_of_ascii """ ) repeat/// triple
f32a ,repeat char[]
// packet A { u8 x, }
/// triple
msg_type
`u8 x,` ,
    x @calculatedFrom( ""{,}"" ) , f32 uint8x// packet A { u8 x, }
`two words`,
    char[  0 ]
i8i8 , @calculatedFrom(
""1"" ) rootA BodyLength,
repeat string a1 //	t
, } root// " ++ [128512]%N ++ runes_of_ascii " emoji
packet
// c
// " ++ [27880; 37322]%N ++ runes_of_ascii "
metadata
{ @calculatedFrom( ""abc"" ) options1 // trailing space 
Header ,
// @lengthOf(
// " ++ [27880; 37322]%N ++ runes_of_ascii "
}root
packet charz{
repeat stringy ,@tag( 3 // trailing space 
)
    Foo x_y_z`{ , }` ,
    char[
    1]
Logon
@lengthOf( float)
,	int8
    int
    ,
    } //	t
packet Packet { char[] zchar
//x
// " ++ [128512]%N ++ runes_of_ascii " emoji
`
`
    // c
    , }
")).
Eval vm_compute in ("<<<M3937>>>" ++ check (runes_of_ascii "packet chars {
}

options {
    calculatedFrom = i8;
}

packet x {
    @tag(255)
    // `tick` ""quote"" 'q'
    match u8x as leftPad {
        [1, ""\n"", ""a\""b""] : stringy,
    },
    float @calculatedFrom(""\n"") `
        `,
    @calculatedFrom(""{,}"")
    repeat char[0123456789] Header,
    body {
        f32a `" ++ [28040; 24687; 31867; 22411]%N ++ runes_of_ascii "`,
        char[10] Pad @lengthOf(packetx) `line1
                line2`,
        match Header as crc {
            [7] : roots,
            4294967296 : Header,
            255 : crc,
            00 : Z9_,
            255 : Z9_,
            [42, 255] : repeatCount,
        },
        leftPad {
            repeat asx `" ++ [28040; 24687; 31867; 22411]%N ++ runes_of_ascii "`,
            float,
        },
    },
    @leftPad()
    @lengthOf(Foo)
    @calculatedFrom(""abc"")
    uint64 BodyLength,
    @tag(65535)
    i64 u8x `it's`,
    @tag(0)
    /// triple
    crc {
        zchar[65535] u `tab	here`,
    },// a // b
}")).
Eval vm_compute in ("<<<M1175>>>" ++ check (runes_of_ascii "// a // b
root packet
    // trailing space 
    charz { @tag(007 ) repeat u32
    chars, Packet
`doc`
    , } MetaData rootA // `tick` ""quote"" 'q'
{  char[ 42 ]Packet
    `crlf
line` , }// c
packet asx
{repeat  calculatedFrom{
asx @lengthOf(	chars
    )  ,repeat string //	t
x_y_z `line1
line2`
, repeat u32  i64_ //	t
`it's` ,A
    //x
    @lengthOf(
Logon ) `tab	here` , }
    ,
uint32
asx // c
@lengthOf(
BodyLength) ,
// " ++ [27880; 37322]%N ++ runes_of_ascii "
// " ++ [27880; 37322]%N ++ runes_of_ascii "
char[ 0123456789 ] calculatedFrom ,repeat Z9_,
match
    asx //	t
as uint8x {// c
[ ""{,}"",
    // `tick` ""quote"" 'q'
    ""it's""
    , 7 ,""CRC32""
] :
msg_type
    ,
    [
    // packet A { u8 x, }
    1	]// " ++ [128512]%N ++ runes_of_ascii " emoji
: u8x ""CRC32""
:  T, }
    // @lengthOf(
    ,
i8
    charz	@calculatedFrom(
    ""x y""
)
    // `tick` ""quote"" 'q'
    `" ++ [233]%N ++ runes_of_ascii "` ,
    }MetaData u8x
{
    // " ++ [128512]%N ++ runes_of_ascii " emoji
    i8 T , }
")).
Eval vm_compute in ("<<<M3692>>>" ++ check (runes_of_ascii "packet msg_type {
    @rightPad('\x00')
    calculatedFrom chars,
}

packet string_ {
}

MetaData o {
    zchar[65535] a1,
}

root packet Foo {
    f32a {
        // " ++ [128512]%N ++ runes_of_ascii " emoji
        match len as Packet {
            [3] : body,
            7 : o,
            [00, 0, ""x y"", 42] : u,
            """ ++ [28040; 24687]%N ++ runes_of_ascii """ : Pad,
        },
        i64 A,
        string u8x,
        match stringy as As {
            65535 : i8i8,
            //x
            ""CRC32"" : u8x,
            [
                ""a\""b"", 7, ""\n"", ""{,}"", 0,
                42, ""a\""b""
            ] : MetaDataX,
            [""abc""] : falsey,
            // @lengthOf(
            [""`tick`""] : calculatedFrom,
        },
    },
}// " ++ [128512]%N ++ runes_of_ascii " emoji

options {
    body = ""CRC32"";
    body = ""a\""b""
    u128 = true;
    BodyLength = 10;
    leftPad = false;
}")).
Eval vm_compute in ("<<<M308>>>" ++ check (runes_of_ascii "root packet options1 //	t
{ @lengthOf( Packet )
//x
//	t
repeat chars // " ++ [128512]%N ++ runes_of_ascii " emoji
{ repeatCount
u128 , match u as
BodyLength/// triple
{
[ 65535 ] :
// trailing space 
//x
packetx // a // b
,
3 :
    zchar ,
255: roots """ ++ [233]%N ++ runes_of_ascii "t" ++ [233]%N ++ runes_of_ascii """// c
: Header}
    , i64 Packet,	char[]	uint8x @calculatedFrom(
""// no comment""  ) `crlf
line`
,
    } , string
trueish , @leftPad  (' '  )
i8i8	{/// triple
float64
T @lengthOf( leftPad )
    ,// @lengthOf(
u128 `" ++ [233]%N ++ runes_of_ascii "`
    , lengthOf, // a // b
matchKey ,
    },
    repeat
    char[1] MetaDataX	`a\`  ,
// c
// " ++ [128512]%N ++ runes_of_ascii " emoji
@calculatedFrom( ""1"" )string chars
    `it's` , char[] calculatedFrom
    @lengthOf(
    calculatedFrom) `doc`, rootA// @lengthOf(
_x
// `tick` ""quote"" 'q'
/// triple
`" ++ [28040; 24687; 31867; 22411]%N ++ runes_of_ascii "` , } MetaData calculatedFrom {  u tag `
`,
}
")).
Eval vm_compute in ("<<<M3777>>>" ++ check (runes_of_ascii "

  options{
} MetaData metadata {

float32 u128 
`" ++ [28040; 24687; 31867; 22411]%N ++ runes_of_ascii "` 
,

}
    packet roots

{
	i64 uint8x

    `` 

    // `tick` ""quote"" 'q'
// `tick` ""quote"" 'q'
    	, 
@tag(3
	)  // packet A { u8 x, }
  @tag(
0123456789
)  stringy
    @lengthOf( Header
) `u8 x,` , f64
u //x
  `tab	here`
    , match
    u8x 
as
u8x 
// `tick` ""quote"" 'q'
	{ 
10
: string_,  } 
, 
zchar[  7]  u 
@calculatedFrom( // a // b

""packet""
)	, @leftPad 
(

    )repeat
	asx

_x
    ,
zchar[ 	 // `tick` ""quote"" 'q'
      7]uint8x	, body
{ repeat
zchar[
3]As 
,
string Header,	char[] u
,
} ,
repeat	Logon
    {repeat

    zchar[ 
65535]packetx	`// not a comment`, 
}
	,} // packet A { u8 x, }
	MetaData  msg_type
    {
	f64 
crc `{ , }` ,
    }

")).
Eval vm_compute in ("<<<M696>>>" ++ check (runes_of_ascii "
MetaData
packetx { }
    MetaData _x { char[ 255] string_
, int32	trueish  `u8 x,` ,}
packet
    //	t
    asx{x_y_z, @calculatedFrom( ""it's"" )
match // a // b
Pad
as falsey {
[ ""`tick`"" ,	7 , """ ++ [28040; 24687]%N ++ runes_of_ascii """
,
    """ ++ [233]%N ++ runes_of_ascii "t" ++ [233]%N ++ runes_of_ascii """ , ""a\\""
,
// " ++ [27880; 37322]%N ++ runes_of_ascii "
//x
3
,
    // " ++ [27880; 37322]%N ++ runes_of_ascii "
    65535 ]:// " ++ [128512]%N ++ runes_of_ascii " emoji
packetx,
    // @lengthOf(
    1
    :	zchar
// " ++ [128512]%N ++ runes_of_ascii " emoji
// " ++ [27880; 37322]%N ++ runes_of_ascii "
,
[ ""a\""b"" , 42 ] // a // b
:f32a , } , @tag(	007 //
)
    repeat string
    len
`doc`	,@calculatedFrom(
    ""a\\"" )// `tick` ""quote"" 'q'
matchKey
//	t
// `tick` ""quote"" 'q'
calculatedFrom `{ , }`, u8x@lengthOf( T )
`it's`,
}MetaData packetx { metadata  o`" ++ [233]%N ++ runes_of_ascii "`
    , i32 u128
`a\` , char[]msg_type , uint32 u, u32
Packet`" ++ [28040; 24687; 31867; 22411]%N ++ runes_of_ascii "`
    ,
    int16
    len`" ++ [28040; 24687; 31867; 22411]%N ++ runes_of_ascii "` ,	}
")).
Eval vm_compute in ("<<<M326>>>" ++ check (runes_of_ascii "options {
a1 = '\x00';Pad=
char[007 ] ;
} MetaData o{
zchar[  42] crc ,
} /// triple
packet matchKey { @lengthOf( u ) @tag(	65535 )
i8i8
    `// not a comment`,match
    u128 as msg_type
{10 : //	t
zchar
    0 : lengthOf ,3
:uint8x
, ""x y"" :
msg_type , 255  :
matchKey , } ,char[  3 //
] // trailing space 
As `a\`,
@lengthOf( // c
calculatedFrom) match //	t
chars
as u128{
    // packet A { u8 x, }
    [""a	b"" , 00/// triple
] :
zchar , // `tick` ""quote"" 'q'
7 : leftPad [255 // @lengthOf(
,
""x y""
, 4294967296
    //	t
    ,	0 ,
    //
    3
// a // b
//x
] :
    Packet, // `tick` ""quote"" 'q'
[ """ ++ [128512]%N ++ runes_of_ascii """
] : body ,
    """ ++ [28040; 24687]%N ++ runes_of_ascii """
:
    Z9_ , }
,
} options { }
")).
Eval vm_compute in ("<<<M1386>>>" ++ check (runes_of_ascii "packet
Packet
{ MetaDataX @calculatedFrom( ""abc""), i32 zchar
    ,
    // c
    @calculatedFrom( """ ++ [128512]%N ++ runes_of_ascii """ )
    repeat x_y_z `tab	here`
, len
@calculatedFrom(""`tick`"" ) `{ , }` ,repeat
char[ 7 ]	asx `
` ,@tag(7
//	t
// packet A { u8 x, }
) repeat
int64 // " ++ [128512]%N ++ runes_of_ascii " emoji
x// trailing space 
, uint32 f32a
`u8 x,`, }
    packet uint8x{match body as u{ [ 10 ]
    : repeatCount,
[ 4294967296 ] :metadata
    ,
} ,repeat x_y_z{
u8 MetaDataX@lengthOf( packetx )
    `" ++ [233]%N ++ runes_of_ascii "`
, } ,
float32 body ,// " ++ [27880; 37322]%N ++ runes_of_ascii "
repeat
BodyLength string_ , char string_
    `line1
line2`	, @tag( 7) char[] len @calculatedFrom( """ ++ [233]%N ++ runes_of_ascii "t" ++ [233]%N ++ runes_of_ascii """) , repeat float32 _x ,
Header uint8x
`it's` , }
")).
Eval vm_compute in ("<<<M3540>>>" ++ check (runes_of_ascii "options {
    LittleEndian = true;
    FixedStringPadFromLeft = true;
    FixedStringPadChar = '0';
}
packet Trade {
    string clOrdID,
    char[] Px,
    u32 x,
}
packet Reject {
    int32 Side2,
    repeat char[3] clOrdID,
    i32 tag7,
}
packet Leg {
}
root packet Quote {
    string Side2,
    string lastPx,
    InSym58 {
        int16 OrderId,
        Reject,
        i8 Qty,
        i64 venue,
        f32 Note,
    },
    char[] count,
    zchar[9] price,
    u16 Qty,
    match Qty as Body {
        69 : Leg,
        48 : Trade,
        51 : Reject,
    },
    u16 Acct @calculatedFrom(""CRC32""),
}
")).
Eval vm_compute in ("<<<M910>>>" ++ check (runes_of_ascii "packet repeatCount
    { match BodyLength as body{ 255: As ,	}	,_x @calculatedFrom(  ""x y"" ) `" ++ [233]%N ++ runes_of_ascii "` ,@calculatedFrom( ""1"" ) // @lengthOf(
repeat uint32 A , zchar[ 00 ] x_y_z
,  @rightPad (
'0' )@leftPad
( ' ' //x
) i32 lengthOf , repeat
// packet A { u8 x, }
//	t
i64 len `" ++ [28040; 24687; 31867; 22411]%N ++ runes_of_ascii "` ,
@calculatedFrom(""packet"" ) stringy
float , @calculatedFrom( ""{,}"" )
    repeat
    char[ 7
    ]u8x `two words`
,
    } options
    { int	=""a\""b"" ;
Header	=
    true; trueish = zchar[
00// packet A { u8 x, }
]; falsey = false ; Pad =
//	t
// `tick` ""quote"" 'q'
zchar[
1 ] }//
packet T{ }
")).
Eval vm_compute in ("<<<M153>>>" ++ check (runes_of_ascii "packet  BodyLength { @rightPad // packet A { u8 x, }
()
i32 packetx
@lengthOf( leftPad) ,  @lengthOf( MetaDataX
    ) leftPad
    ,
    _x {
match
zchar as zchar {
    [ // `tick` ""quote"" 'q'
""a\\"" ]
: crc """ ++ [28040; 24687]%N ++ runes_of_ascii """ :
Foo ,  1 : trueish ,	42 : rootA , [ 4294967296
// @lengthOf(
// `tick` ""quote"" 'q'
]
    //	t
    :
    float
    // " ++ [128512]%N ++ runes_of_ascii " emoji
    ""a\\"": Foo ,}  ,	repeat
float
    leftPad, uint8x i8i8 ,char[ 255  ]As// trailing space 
,	} ,  char[
    // " ++ [27880; 37322]%N ++ runes_of_ascii "
    4294967296
] uint8x`u8 x,` , @leftPad ( )
float32
body `two words` , }
")).
Eval vm_compute in ("<<<M4314>>>" ++ check (runes_of_ascii "packet calculatedFrom {
    // trailing space 
    @lengthOf(crc)
    string a1 `say ""hi""`,
    repeat int64 float `" ++ [28040; 24687; 31867; 22411]%N ++ runes_of_ascii "`,
    // trailing space 
    // " ++ [128512]%N ++ runes_of_ascii " emoji
    @calculatedFrom(""`tick`"")
    BodyLength @calculatedFrom(""packet""),
    char[65535] pack,
}

packet Logon {
    u falsey,
    repeat i8i8,
    calculatedFrom @calculatedFrom(""" ++ [28040; 24687]%N ++ runes_of_ascii """),
    // c
    repeat A As,
}

MetaData uint8x {
    matchKey T `" ++ [233]%N ++ runes_of_ascii "`,
    o T,
    char[00] int `crlf
        line`,
    char[3] pack,
    len a1 `say ""hi""`,
}")).
Eval vm_compute in ("<<<M167>>>" ++ check (runes_of_ascii "root
packet i64_{
    packetx
// " ++ [128512]%N ++ runes_of_ascii " emoji
// " ++ [27880; 37322]%N ++ runes_of_ascii "
{	string zchar // c
@calculatedFrom(
""`tick`""
    )
    `
`
, zchar[1 ]  metadata	`doc`	, Foo
    @calculatedFrom(
""CRC32""
    )
    ,}
    //	t
    ,char[]roots `crlf
line`
//	t
//x
, @calculatedFrom(""it's"" )  char
    rootA
    ,
@tag( 7 )
    charz o //x
`it's`
, // a // b
char[ 007] msg_type@lengthOf(x_y_z )
,
    repeat //	t
zchar[ 007 ]repeatCount `say ""hi""` , match i64_ as rootA
{ [""abc"" ] :T }
, repeat chars ,  }
")).
Eval vm_compute in ("<<<M1017>>>" ++ check (runes_of_ascii "  MetaData// `tick` ""quote"" 'q'
zchar {packetx calculatedFrom `doc` , zchar[ 3	]
    Z9_
, char[ 65535 ]i64_	,
    u64
lengthOf `
`, zchar[
    // " ++ [128512]%N ++ runes_of_ascii " emoji
    00
    ] Pad
`{ , }` ,
A lengthOf
`two words`
    ,}  MetaData BodyLength
// c
// " ++ [128512]%N ++ runes_of_ascii " emoji
{  char[
3 // " ++ [27880; 37322]%N ++ runes_of_ascii "
] u128
    ,
// `tick` ""quote"" 'q'
/// triple
string MetaDataX,
u8x // " ++ [128512]%N ++ runes_of_ascii " emoji
i64_
`u8 x,`,/// triple
} MetaData
chars
    { string Logon `{ , }`
    ,char[
    10] u ,
len  repeatCount,	} 	 ")).
Eval vm_compute in ("<<<M1339>>>" ++ check (runes_of_ascii "packet trueish { @tag(  007  )len {
string float ,
    // packet A { u8 x, }
    repeat
// c
//	t
Z9_ `tab	here`
    , f32
A @calculatedFrom(
""CRC32"") ,	} , match
BodyLength// " ++ [27880; 37322]%N ++ runes_of_ascii "
as // `tick` ""quote"" 'q'
int {1 :msg_type  , """ ++ [128512]%N ++ runes_of_ascii """ // @lengthOf(
:
falsey
    // a // b
    ,
// " ++ [128512]%N ++ runes_of_ascii " emoji
/// triple
""// no comment""/// triple
:x_y_z // @lengthOf(
} , repeat // @lengthOf(
i32 rootA `doc` ,  }packet asx
{ }options// `tick` ""quote"" 'q'
{ T
=	""a	b"" }
")).
Eval vm_compute in ("<<<M160>>>" ++ check (runes_of_ascii "root packet o
    { }	packet T{ zchar[ 4294967296
]asx `say ""hi""` ,} MetaData f32a{f64 MetaDataX  `say ""hi""`
    // packet A { u8 x, }
    ,x_y_z
    rootA`doc`
, //	t
u32
repeatCount
    /// triple
    ,
string T
, u8x u`doc` ,} options {x_y_z
    = 0	} // packet A { u8 x, }
root packet// c
MetaDataX { @calculatedFrom( ""abc""
) @calculatedFrom(
    """ ++ [128512]%N ++ runes_of_ascii """ ) @tag( 3
) charz@lengthOf(
Packet )
    `line1
line2` ,	} /// triple")).
Eval vm_compute in ("<<<M4325>>>" ++ check (runes_of_ascii "packet Frame {
    u8 HK,
    u8 BK,
    u8 TK,
    match HK as Hdr {
        1 : HdrA,
        2 : HdrB,
    },
    match BK as Body {
        1 : BodyA,
        2 : BodyB,
    },
    match TK as Trl {
        1 : TrlA,
    },
}

packet HdrA {
    u8 a,
}

packet HdrB {
    u16 b,
}

packet BodyA {
    u32 c,
}

packet BodyB {
    u64 d,
}

packet TrlA {
    u8 e,
}

root packet Msg {
    Frame,
    u8 x,
}")).
Eval vm_compute in ("<<<M3623>>>" ++ check (runes_of_ascii "// top
root packet Frame {
    // c3a
    // c3b
    u8 K,// c6a
    // c6b
    Logon first,
    // c9
    match K as Body {
        // c14
        1 : Logon,
        // c18
        2 : Logout,
        // c22
    },// c24
}

packet Logon {
    // c28a
    // c28b
    string user,// c31a
    // c31b
}// c32a

// c32b
packet Logout {
    // c35a
    // c35b
    u16 reason,
    // c38
}
// c39")).
Eval vm_compute in ("<<<M1171>>>" ++ check (runes_of_ascii "root packet
string_ {
zchar[1
// a // b
// `tick` ""quote"" 'q'
] stringy //	t
@lengthOf(charz  )
    `u8 x,` // " ++ [27880; 37322]%N ++ runes_of_ascii "
,
repeat falsey {i8 u128
    @lengthOf(
    u128
//	t
// packet A { u8 x, }
) `line1
line2` ,
    float@calculatedFrom( ""a	b"" )
// a // b
//
,chars
,
    char[
0] Header ,},	i8i8 `// not a comment` , //
} packet T
    // a // b
    { repeat //	t
lengthOf
,}
")).
Eval vm_compute in ("<<<M260>>>" ++ check (runes_of_ascii "// " ++ [27880; 37322]%N ++ runes_of_ascii "
packet tag { repeat i64_
/// triple
// @lengthOf(
{
zchar[007 ]  Logon@calculatedFrom( ""packet""
    ) , repeat char[]leftPad `a\`
    ,
    zchar[ 3
] float , }, }packet pack //
{
    repeat i8
    len `
` ,
    }
root packet uint8x
    { // packet A { u8 x, }
@leftPad
() @calculatedFrom( ""a\\""
    ) @rightPad ( '\x00') repeat char[	0
]
T,
    } //	t")).
Eval vm_compute in ("<<<M1191>>>" ++ check (runes_of_ascii "
options
    { body // " ++ [27880; 37322]%N ++ runes_of_ascii "
=
0123456789} packet	tag{ o @lengthOf( packetx ) `" ++ [28040; 24687; 31867; 22411]%N ++ runes_of_ascii "` , repeat options1
{ float64
o `doc`, } , } root packet float {
    // trailing space 
    @calculatedFrom(
    ""a	b"") //	t
float32 BodyLength // " ++ [128512]%N ++ runes_of_ascii " emoji
`crlf
line`
    ,  repeat // " ++ [128512]%N ++ runes_of_ascii " emoji
f32a
Header
`say ""hi""` ,int8 falsey// `tick` ""quote"" 'q'
`{ , }`, }
")).
Eval vm_compute in ("<<<M142>>>" ++ check (runes_of_ascii "options { i8i8  =
    int64 ; charz = ""// no comment""; repeatCount ="""" ; f32a = 0 stringy ='\x00' }
    // packet A { u8 x, }
    options
    {
Logon = 255
}
    packet Header // c
{} MetaData
lengthOf{
    // `tick` ""quote"" 'q'
    }
options {stringy  =false ; options1
= true ; asx=3
/// triple
/// triple
roots =
'\x00' }
")).
Eval vm_compute in ("<<<M718>>>" ++ check (runes_of_ascii "packet
metadata {
    char[
    0 ] Z9_
`line1
line2` , }
    root packet
chars {
/// triple
// @lengthOf(
As { zchar[ 3 ] BodyLength @calculatedFrom( ""it's"") `line1
line2` ,  }  ,
} packet o {
    @rightPad
// trailing space 
// trailing space 
( '\x00' )
    string
f32a@calculatedFrom( ""it's"" ) `// not a comment` ,}")).
Eval vm_compute in ("<<<M3335>>>" ++ check (runes_of_ascii "// top
packet
    // c0
calculatedFrom
    // c1
{
    // c2
@tag(
    // c3
4294967296
    // c4
)
    // c5
u
    // c6
msg_type
    // c7
,
    // c8
char[
    // c9
3
    // c10
]
    // c11
crc
    // c12
@lengthOf(
    // c13
len
    // c14
)
    // c15
`u8 x,`
    // c16
,
    // c17
}
    // c18
")).
Eval vm_compute in ("<<<M1565>>>" ++ check (runes_of_ascii "root packet Foo // " ++ [128512]%N ++ runes_of_ascii " emoji
{ } options {
    // a // b
    tag // `tick` ""quote"" 'q'
= //	t
""""
    ; u8x = zchar[0  ] }
MetaData
    int {zchar[ 10]
lengthOf	`` , i64 u8x`// not a comment` ,MetaDataX pack pack// `tick` ""quote"" 'q'
`crlf
line`
, Logon charz `crlf
line`
    ,
    // a // b
    }
")).
Eval vm_compute in ("<<<M1430>>>" ++ check (runes_of_ascii "root packet Foo // " ++ [128512]%N ++ runes_of_ascii " emoji
{ } } options {
    // a // b
    tag // `tick` ""quote"" 'q'
= //	t
""""
    ; u8x = zchar[0  ] }
MetaData
    int {zchar[ 10]
lengthOf	`` , i64 u8x`// not a comment` ,MetaDataX pack// `tick` ""quote"" 'q'
`crlf
line`
, Logon charz `crlf
line`
    ,
    // a // b
    }
")).
Eval vm_compute in ("<<<M1617>>>" ++ check (runes_of_ascii "root packet Foo // " ++ [128512]%N ++ runes_of_ascii " emoji
{ } options {
    // a // b
    tag // `tick` ""quote"" 'q'
= //	t
""""
    ; u8x = zchar[0  ] }
MetaData
    int {zchar[ 10]
lengthOf	`` , i64 u8x`// not a comment` ,MetaDataX pack// `tick` ""quote"" 'q'
`crlf
line`
, Logon charz `crlf
" ++ [8232]%N ++ runes_of_ascii "line`
    ,
    // a // b
    }
")).
Eval vm_compute in ("<<<M1541>>>" ++ check (runes_of_ascii "root packet Foo // " ++ [128512]%N ++ runes_of_ascii " emoji
{ } options {
    // a // b
    tag // `tick` ""quote"" 'q'
= //	t
""""
    ; u8x = zchar[0  ] }
MetaData
    int {zchar[ 10]
lengthOf	`` , u8x i64`// not a comment` ,MetaDataX pack// `tick` ""quote"" 'q'
`crlf
line`
, Logon charz `crlf
line`
    ,
    // a // b
    }
")).
Eval vm_compute in ("<<<M1574>>>" ++ check (runes_of_ascii "root packet Foo // " ++ [128512]%N ++ runes_of_ascii " emoji
{ } options {
    // a // b
    tag // `tick` ""quote"" 'q'
= //	t
""""
    ; u8x = zchar[0  ] }
MetaData
    int {zchar[ 10]
lengthOf	`` , i64 u8x`// not a comment` ,MetaDataX pack// `tick` ""quote"" 'q'
`crlf
line`
 Logon charz `crlf
line`
    ,
    // a // b
    }
")).
Eval vm_compute in ("<<<M3491>>>" ++ check (runes_of_ascii "packet 
MDSnapshotZZ
{
	u8 a , 
}  packet OrderACK {
    u16

    b

    , }

packet
HTTPServerInfo{  string s  , 
}	root 
packet
FIXMsg { u8	KType

    ,  MDSnapshotZZ,repeat

OrderACK
,	match 
KType  as Body {
	1 : HTTPServerInfo
,

    2
	:

    OrderACK  ,
	}

    ,
}
")).
Eval vm_compute in ("<<<M1569>>>" ++ check (runes_of_ascii "root packet Foo // " ++ [128512]%N ++ runes_of_ascii " emoji
{ } options {
    // a // b
    tag // `tick` ""quote"" 'q'
= //	t
""""
    ; u8x = zchar[0  ] }
MetaData
    int {zchar[ 10]
lengthOf	`` , i64 u8x`// not a comment` ,MetaDataX pack// `tick` ""quote"" 'q'

, Logon charz `crlf
line`
    ,
    // a // b
    }
")).
Eval vm_compute in ("<<<M883>>>" ++ check (runes_of_ascii "
packet repeatCount{	@calculatedFrom( ""\n"" )
match BodyLength as matchKey
// trailing space 
// trailing space 
{ 0123456789 : /// triple
msg_type 4294967296 :f32a,	[""" ++ [233]%N ++ runes_of_ascii "t" ++ [233]%N ++ runes_of_ascii """, ""// no comment""
,3 ] : Foo ,
    65535
:zchar	,
// a // b
//
4294967296 : packetx	,
}
    ,	}")).
Eval vm_compute in ("<<<M302>>>" ++ check (runes_of_ascii "packet calculatedFrom {
    @lengthOf( zchar )	char[]// `tick` ""quote"" 'q'
chars
    `line1
line2` ,string
    Logon @calculatedFrom( ""it's""  ), matchKey `say ""hi""`, @lengthOf( T
    // c
    )
x_y_z @calculatedFrom(
    ""it's"" ) `// not a comment`	,
    }")).
Eval vm_compute in ("<<<M3936>>>" ++ check (runes_of_ascii "
packet
P1{
u8 
a 
,
} packet P2

    {P1
	, }
packet	P3 {

P2 ,
    P1,	} packet P4{ repeat
P3

,P2 ,
    }root

packet P5

    {

    P4

,	P3
,

P1

,
u8 K

    ,match K  as
    Body
{ 
4 :

P4  , 3

:P3 ,
	2
:

P2	,
1 :  P1	,
}
,
}")).
Eval vm_compute in ("<<<M3589>>>" ++ check (runes_of_ascii "options {
}

packet repeatCount {
    Foo T,
    _x `// not a comment`,
    @calculatedFrom(""x y"")
    repeat float32 uint8x `doc`,
    char msg_type @lengthOf(stringy),
    @lengthOf(int)
    repeat float `two words`,
}

MetaData u8x {
}")).
Eval vm_compute in ("<<<M4021>>>" ++ check (runes_of_ascii "  MetaData
tag

    {
	i8

    body ,char[]

tag ,
int16

metadata ,
	// c

	f64 body
	`" ++ [28040; 24687; 31867; 22411]%N ++ runes_of_ascii "` 
// a // b

  /// triple
  ,
char[ // `tick` ""quote"" 'q'
      42 ]	rootA

, // a // b
T
metadata `say ""hi""`

    ,
    } ")).
Eval vm_compute in ("<<<M2261>>>" ++ check (runes_of_ascii "MetaData Packet { }packet	asx  { @lengthOf( asx) falsey falsey`crlf
line`
,
    }
    packet x	{uint32// @lengthOf(
rootA	,u32 options1 `say ""hi""` , @tag( 7
    )// packet A { u8 x, }
msg_type @lengthOf(
stringy	)	, }

")).
Eval vm_compute in ("<<<M2221>>>" ++ check (runes_of_ascii "MetaData Packet { { }packet	asx  { @lengthOf( asx) falsey`crlf
line`
,
    }
    packet x	{uint32// @lengthOf(
rootA	,u32 options1 `say ""hi""` , @tag( 7
    )// packet A { u8 x, }
msg_type @lengthOf(
stringy	)	, }

")).
Eval vm_compute in ("<<<M2387>>>" ++ check (runes_of_ascii "MetaData Packet { }packet	asx  { @lengthOf( asx) falsey`crlf
line`
,
    }
    packet x	{uint32// @lengthOf(
rootA	,u32 options1 `say ""hi""` , ?@tag( 7
    )// packet A { u8 x, }
msg_type @lengthOf(
stringy	)	, }

")).
Eval vm_compute in ("<<<M2342>>>" ++ check (runes_of_ascii "MetaData Packet { }packet	asx  { @lengthOf( asx) falsey`crlf
line`
,
    }
    packet x	{uint32// @lengthOf(
rootA	,u32 options1 `say ""hi""` , @tag( 7
    msg_type// packet A { u8 x, }
) @lengthOf(
stringy	)	, }

")).
Eval vm_compute in ("<<<M2253>>>" ++ check (runes_of_ascii "MetaData Packet { }packet	asx  { @lengthOf( =) falsey`crlf
line`
,
    }
    packet x	{uint32// @lengthOf(
rootA	,u32 options1 `say ""hi""` , @tag( 7
    )// packet A { u8 x, }
msg_type @lengthOf(
stringy	)	, }

")).
Eval vm_compute in ("<<<M4267>>>" ++ check (runes_of_ascii "

  MetaData
asx
{  /// triple
  uint16//

leftPad
	,char[
	4294967296] matchKey `
`	, 
// @lengthOf(
		/// triple
	u32 
options1
,
	zchar[ 	 // @lengthOf(

	0	]
	falsey
`it's`  ,char
leftPad`u8 x,` ,

}
")).
Eval vm_compute in ("<<<M4353>>>" ++ check (runes_of_ascii "  packet
calculatedFrom
	{
	}
	MetaData
charz

{
Z9_ 

// @lengthOf(
	Pad	// a // b
  	,	uint64 
	// packet A { u8 x, }
// a // b
	u
`" ++ [233]%N ++ runes_of_ascii "`  ,	char[
00	]
	Z9_, }	// `tick` ""quote"" 'q'
	  options {}
")).
Eval vm_compute in ("<<<M1165>>>" ++ check (runes_of_ascii "options
{
roots = u8 f32a =
'\x00'	BodyLength
=
    """ ++ [28040; 24687]%N ++ runes_of_ascii """ }MetaData// a // b
packetx{ i32  options1,	zchar[ 1]
u8x // @lengthOf(
`doc` ,
    zchar[ 7 ]	matchKey // " ++ [27880; 37322]%N ++ runes_of_ascii "
, int8 As `crlf
line`
, }")).
Eval vm_compute in ("<<<M1201>>>" ++ check (runes_of_ascii "root packet BodyLength
    { lengthOf { char[/// triple
42  ]
Foo `` // trailing space 
, u64 Foo @calculatedFrom(""x y"" //
) ,}  ,rootA
@lengthOf(Packet
)
    , }
options
{ Pad = 00
}
")).
Eval vm_compute in ("<<<M4415>>>" ++ check (runes_of_ascii "packet
    x
{
match
u128
as
stringy	// " ++ [128512]%N ++ runes_of_ascii " emoji
    {	// a // b

[

    """ ++ [28040; 24687]%N ++ runes_of_ascii """
	    //	t
  ,
	42
,
	""// no comment""	// a // b
    ,	""1""
	]
    : MetaDataX

,""it's"":o 
,  }  , } ")).
Eval vm_compute in ("<<<M3877>>>" ++ check (runes_of_ascii "packet A {
    match k as n {
        [
            ""a"", ""bb"", ""c c"", ""d"", ""e"",
            ""f"", ""g"", ""h"", ""i"", ""j"",
            ""k""
        ] : B,
        2 : C,
    },
}")).
Eval vm_compute in ("<<<M4188>>>" ++ check (runes_of_ascii "packet A {
    match k as n {
        [
            1, ""bb"", 007, ""d"", 5,
            ""f"", 7, ""h"", 9, ""j"",
            11, ""l""
        ] : B,
        2 : C,
    },
}")).
Eval vm_compute in ("<<<M3447>>>" ++ check (runes_of_ascii "options
    { LittleEndian =	true
	;
} 
packet  B{ u8

a
    ,  string s

,

    } root

packet	P	{

u16	L  @lengthOf( B
)
,

    B
	, u8
    t  ,
	}
")).
Eval vm_compute in ("<<<M2344>>>" ++ check (runes_of_ascii "MetaData Packet { }packet	asx  { @lengthOf( asx) falsey`crlf
line`
,
    }
    packet x	{uint32// @lengthOf(
rootA	,u32 options1 `say ""hi""` , @tag( 7")).
Eval vm_compute in ("<<<M1208>>>" ++ check (runes_of_ascii "
packet asx{ @tag( 10 )  u64
_x @calculatedFrom( """ ++ [28040; 24687]%N ++ runes_of_ascii """ ) ,
    } options
{ i64_ = true /// triple
packetx = u16 ; } options {
msg_type =
""{,}"" }")).
Eval vm_compute in ("<<<M3655>>>" ++ check (runes_of_ascii "root packet rootA {
    i32 MetaDataX @calculatedFrom(""CRC32"") `line1
        lin@lengthOfe2`,
}

MetaData BodyLength {
    u8 rootA,
}// c")).
Eval vm_compute in ("<<<M845>>>" ++ check (runes_of_ascii "root
    packet
charz
{ @calculatedFrom( ""a	b""
) repeat f32a options1
`u8 x,` ,} options{ // " ++ [27880; 37322]%N ++ runes_of_ascii "
zchar=
    char[3 ] ;
    }
/// triple
")).
Eval vm_compute in ("<<<M3713>>>" ++ check (runes_of_ascii "packet

    Logon { @tag( 42  ) @rightPad 	 // c
		(' '

)

@leftPad
    ( 
) repeat
trueish

    {
string

T

    ,	} ,  }

")).
Eval vm_compute in ("<<<M3910>>>" ++ check (runes_of_ascii "packet A {
    u16 len @lengthOf(body) `tab
        	x`,
    u32 crc @calculatedFrom(""CRC32"") `tab
        	x`,
    string body,
}")).
Eval vm_compute in ("<<<M1709>>>" ++ check (runes_of_ascii "root packet /// triple
rootA {	i32
MetaDataX@calculatedFrom( ""CRC32"" ) `line1
line2` , } MetaData BodyLength {
u8
rootA} , // c")).
Eval vm_compute in ("<<<M1636>>>" ++ check (runes_of_ascii "root packet /// triple
as {	i32
MetaDataX@calculatedFrom( ""CRC32"" ) `line1
line2` , } MetaData BodyLength {
u8
rootA, } // c")).
Eval vm_compute in ("<<<M1685>>>" ++ check (runes_of_ascii "root packet /// triple
rootA {	i32
MetaDataX@calculatedFrom( ""CRC32"" ) `line1
line2` , } ' ' BodyLength {
u8
rootA, } // c")).
Eval vm_compute in ("<<<M1863>>>" ++ check (runes_of_ascii "packet
    Pad // a // b
{ i8i8 @calculatedFrom( ""a	b"") `u8 x,` ,
} options{ float// " ++ [128512]%N ++ runes_of_ascii " emoji
= f64 i64_
uint8//	t
00 }
")).
Eval vm_compute in ("<<<M1846>>>" ++ check (runes_of_ascii "packet
    Pad // a // b
{ i8i8 @calculatedFrom( ""a	b"") `u8 x,` ,
} options{ float// " ++ [128512]%N ++ runes_of_ascii " emoji
= = f64 i64_
=//	t
00 }
")).
Eval vm_compute in ("<<<M4058>>>" ++ check (runes_of_ascii "  options{ 
metadata =

    // @lengthOf(
  // @lengthOf(
    ""a	b""  u
=  0
;// trailing space 
    	i8i8
	= 0 ;
	}

")).
Eval vm_compute in ("<<<M3801>>>" ++ check (runes_of_ascii "  packet Logon
	{ 
  // c
@tag(  42 )

    @rightPad(' '
)
    @leftPad  ( 
) 
repeat trueish{
string
T
,	}

,

} ")).
Eval vm_compute in ("<<<M4033>>>" ++ check (runes_of_ascii "packet f32a {
    int16 int,
}

MetaData f32a {
    char i8i8,/// triple
    string Pad,
    zchar f32a,
    x T,
}")).
Eval vm_compute in ("<<<M3187>>>" ++ check (runes_of_ascii "MetaData zchar // c1
{ // c2a
  // c2b
zchar[ // c3a
  // c3b
3 ]
    // c5
Pad // c6
, // c7a
  // c7b
} // c8
")).
Eval vm_compute in ("<<<M764>>>" ++ check (runes_of_ascii "// c
root packet u128	{asx ,} packet body
    { @lengthOf(
    i8i8 ) crc @lengthOf(
    Header)
    , } // c")).
Eval vm_compute in ("<<<M2993>>>" ++ check (runes_of_ascii "packet A {
  match k as n {
    [1, ""bb"", 007, ""d"", 5, ""f"", 7, ""h"", 9, ""j"", 11, ""l""] : B,
    2 : C
  },
}")).
Eval vm_compute in ("<<<M1186>>>" ++ check (runes_of_ascii "//x
options { x_y_z
= i16// " ++ [128512]%N ++ runes_of_ascii " emoji
charz
    // c
    = ""a	b""
    ;
// @lengthOf(
//
len  =	' '
    ;}")).
Eval vm_compute in ("<<<M3364>>>" ++ check (runes_of_ascii "packet calculatedFrom { @tag( 4294967296 ) u msg_type , char[ 3 ] crc
// c
@lengthOf( len ) `u8 x,` , }")).
Eval vm_compute in ("<<<M3492>>>" ++ check (runes_of_ascii "packet FooBar {
    u8 a,
}
packet foo_bar {
    u16 b,
}
root packet R {
    FooBar,
    foo_bar,
}
")).
Eval vm_compute in ("<<<M875>>>" ++ check (runes_of_ascii "
root packet T {
f32 pack // trailing space 
@calculatedFrom( ""abc"" )
`" ++ [28040; 24687; 31867; 22411]%N ++ runes_of_ascii "`
    , /// triple
}")).
Eval vm_compute in ("<<<M635>>>" ++ check (runes_of_ascii "packet// trailing space 
len
{f32 MetaDataX @calculatedFrom(	""{,}"" )
,
} // packet A { u8 x, }")).
Eval vm_compute in ("<<<M3240>>>" ++ check (runes_of_ascii "packet Logon { @tag( 42 ) @rightPad ( ' ' ) @leftPad ( ) // c
repeat trueish { string T , } , }")).
Eval vm_compute in ("<<<M1717>>>" ++ check (runes_of_ascii "root packet /// triple
rootA {	i32
MetaDataX@calculatedFrom( ""CRC32"" ) `line1
line2` , } Met")).
Eval vm_compute in ("<<<M2955>>>" ++ check (runes_of_ascii "packet A {
  match k as n {
    [1, ""bb"", 007, ""d"", 5, ""f"", 7, ""h"", 9] : B
    2 : C
  },
}")).
Eval vm_compute in ("<<<M3429>>>" ++ check (runes_of_ascii "packet

    Inner {  u8 a
    , }root
packet  P

{repeat 
Inner

items
    ,
u8 x , } ")).
Eval vm_compute in ("<<<M3267>>>" ++ check (runes_of_ascii "// top
options
    // c0
{
    // c1
u8x
    // c2
=
    // c3
3
    // c4
}
    // c5
")).
Eval vm_compute in ("<<<M1676>>>" ++ check (runes_of_ascii "root packet /// triple
rootA {	i32
MetaDataX@calculatedFrom( ""CRC32"" ) `line1
line2`")).
Eval vm_compute in ("<<<M2021>>>" ++ check (runes_of_ascii "root
packet crc
    { f32a @calculatedFrom( """ ++ [233]%N ++ runes_of_ascii "t" ++ [233]%N ++ runes_of_ascii """ )
    `say ""hi""`, lengthOf `` ,  ")).
Eval vm_compute in ("<<<M2917>>>" ++ check (runes_of_ascii "packet A {
  match k as n {
    [""a"", 22, ""c c"", 4, ""e"", 66] : B,
    2 : C
  },
}")).
Eval vm_compute in ("<<<M3307>>>" ++ check (runes_of_ascii "packet o { @tag( 42 ) repeat
// c
x { char[ 0123456789 ] i64_ , } , } options { }")).
Eval vm_compute in ("<<<M231>>>" ++ check (runes_of_ascii "MetaData Z9_
    { a1
//
/// triple
Z9_
    , zchar[ 10	] x
    , } options { }
")).
Eval vm_compute in ("<<<M4281>>>" ++ check (runes_of_ascii "MetaData
    charz

{

char[

    7
]
body
    `tab	here`// " ++ [27880; 37322]%N ++ runes_of_ascii "
    ,
    }
")).
Eval vm_compute in ("<<<M2199>>>" ++ check (runes_of_ascii "root
    // `tick` ""quote"" 'q'
    packet As @lengthOf { trueish Packet , }
")).
Eval vm_compute in ("<<<M3780>>>" ++ check (runes_of_ascii "packet i8i8 {
}

options {
    MetaDataX = ""it's""
    asx = char[65535];
}")).
Eval vm_compute in ("<<<M372>>>" ++ check (runes_of_ascii "
packet Z9_ { } // a // b
root
    packet roots{
    /// triple
    }")).
Eval vm_compute in ("<<<M3399>>>" ++ check (runes_of_ascii "MetaData _x { // c
zchar[ 4294967296 ] lengthOf `// not a comment` , }")).
Eval vm_compute in ("<<<M3766>>>" ++ check (runes_of_ascii "options {
    tag = 42
}

root packet pack {
    zchar[007] Packet,
}")).
Eval vm_compute in ("<<<M2156>>>" ++ check (runes_of_ascii "false
    // `tick` ""quote"" 'q'
    packet As { trueish Packet , }
")).
Eval vm_compute in ("<<<M3183>>>" ++ check (runes_of_ascii "packet A {
    match k as n {
        1 : B,
        // c
    },
}")).
Eval vm_compute in ("<<<M4250>>>" ++ check (runes_of_ascii "packet A  { repeat B 
{  C { u8
x
    ,}
,	D d

    ,	} ,	}
")).
Eval vm_compute in ("<<<M1661>>>" ++ check (runes_of_ascii "root packet /// triple
rootA {	i32
MetaDataX@calculatedFrom(")).
Eval vm_compute in ("<<<M1953>>>" ++ check (runes_of_ascii "
@tagpacket	As { @calculatedFrom(//x
""{,}""	)lengthOf , } 	 ")).
Eval vm_compute in ("<<<M1921>>>" ++ check (runes_of_ascii "
packet	As { @calculatedFrom(//x
""{,}""	) )lengthOf , } 	 ")).
Eval vm_compute in ("<<<M2706>>>" ++ check (runes_of_ascii "; f64 ; ' ' [ as char[] } : float32 char[] '\x00' char[]")).
Eval vm_compute in ("<<<M518>>>" ++ check (runes_of_ascii "packet options1
{ @lengthOf(
x_y_z ) falsey , }
// c
")).
Eval vm_compute in ("<<<M3700>>>" ++ check (runes_of_ascii "
// a // b
packet
calculatedFrom	{
i32

_x ,  }
")).
Eval vm_compute in ("<<<M1896>>>" ++ check (runes_of_ascii "
	As { @calculatedFrom(//x
""{,}""	)lengthOf , } 	 ")).
Eval vm_compute in ("<<<M738>>>" ++ check (runes_of_ascii "options {
float = ' '
;
    _x	= 4294967296 ; }")).
Eval vm_compute in ("<<<M430>>>" ++ check (runes_of_ascii "// a // b
packet calculatedFrom{ i32
    _x, }")).
Eval vm_compute in ("<<<M2812>>>" ++ check (runes_of_ascii "@tag( `tab	here` repeat int16 zchar[ uint64 )")).
Eval vm_compute in ("<<<M1603>>>" ++ check (runes_of_ascii "root packet Foo // " ++ [128512]%N ++ runes_of_ascii " emoji
{ } options {
  ")).
Eval vm_compute in ("<<<M551>>>" ++ check (runes_of_ascii "options {i64_
    = 10}packet options1 {}")).
Eval vm_compute in ("<<<M2125>>>" ++ check (runes_of_ascii "MetaData x
{// " ++ [128512]%N ++ runes_of_ascii " emoji
i16 stringy , , }")).
Eval vm_compute in ("<<<M3461>>>" ++ check (runes_of_ascii "

  root 
packet	P{
	string	s,

    } ")).
Eval vm_compute in ("<<<M1924>>>" ++ check (runes_of_ascii "
packet	As { @calculatedFrom(//x
""{,}""")).
Eval vm_compute in ("<<<M2129>>>" ++ check (runes_of_ascii "MetaData x
{// " ++ [128512]%N ++ runes_of_ascii " emoji
i16 stringy , ")).
Eval vm_compute in ("<<<M542>>>" ++ check (runes_of_ascii "packet chars
    { repeat pack , }
")).
Eval vm_compute in ("<<<M4245>>>" ++ check (runes_of_ascii "packet A {
u8 x`d" ++ [8233]%N ++ runes_of_ascii "`
	, 	 // c" ++ [8233]%N ++ runes_of_ascii "

}")).
Eval vm_compute in ("<<<M3459>>>" ++ check (runes_of_ascii "root packet P {
    string s,
}
")).
Eval vm_compute in ("<<<M2135>>>" ++ check (runes_of_ascii "MetaData x
{// " ++ [128512]%N ++ runes_of_ascii " emoji
i16 str")).
Eval vm_compute in ("<<<M1919>>>" ++ check (runes_of_ascii "
packet	As { @calculatedFrom(")).
Eval vm_compute in ("<<<M3731>>>" ++ check (runes_of_ascii "  options{ 
}  /// triple
 
")).
Eval vm_compute in ("<<<M704>>>" ++ check (runes_of_ascii "
options { int	= i16 ; }
")).
Eval vm_compute in ("<<<M2088>>>" ++ check (runes_of_ascii "MetaData A { `u64 pack, }")).
Eval vm_compute in ("<<<M1214>>>" ++ check (runes_of_ascii "options {leftPad =' ' }
")).
Eval vm_compute in ("<<<M3593>>>" ++ check (runes_of_ascii "packet
	A
	{  } 

// c" ++ [6158]%N ++ runes_of_ascii "
")).
Eval vm_compute in ("<<<M415>>>" ++ check (runes_of_ascii "// packet A { u8 x, }
")).
Eval vm_compute in ("<<<M2573>>>" ++ check (runes_of_ascii "packet A { x `d` y, }")).
Eval vm_compute in ("<<<M4199>>>" ++ check (runes_of_ascii "packet A {
}// a// b")).
Eval vm_compute in ("<<<M4206>>>" ++ check (runes_of_ascii "packet
	Packet{ 
} ")).
Eval vm_compute in ("<<<M3081>>>" ++ check (runes_of_ascii "packet A {
}
// c" ++ [5760]%N)).
Eval vm_compute in ("<<<M2027>>>" ++ check (runes_of_ascii "root
packet crc
")).
Eval vm_compute in ("<<<M3139>>>" ++ check (runes_of_ascii "packet A {
}// c" ++ [6158]%N)).
Eval vm_compute in ("<<<M2568>>>" ++ check (runes_of_ascii "packet A { x, }")).
Eval vm_compute in ("<<<M742>>>" ++ check (runes_of_ascii "packet Z9_{}")).
Eval vm_compute in ("<<<M2538>>>" ++ check (runes_of_ascii ":,;=()[]{}")).
Eval vm_compute in ("<<<M2427>>>" ++ check (runes_of_ascii "char[]x")).
Eval vm_compute in ("<<<M2735>>>" ++ check (runes_of_ascii "B3{" ++ [65533; 65533; 65533]%N)).
Eval vm_compute in ("<<<M2811>>>" ++ check (runes_of_ascii "}#.UJ")).
Eval vm_compute in ("<<<M2500>>>" ++ check (runes_of_ascii "//x")).
Eval vm_compute in ("<<<M2525>>>" ++ check (runes_of_ascii "007")).
Eval vm_compute in ("<<<M2533>>>" ++ check (runes_of_ascii "__")).
