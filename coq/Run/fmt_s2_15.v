From FP Require Import Lexer Parser ShowPT Digest Formatter.
From Coq Require Import String List NArith.
Import ListNotations.
Open Scope string_scope.
Set Printing Width 100000000.
Set Printing Depth 100000000.
Definition show_fres (r : fres) : string :=
  match r with
  | FOk s => "OK:" ++ sh_escaped s ""
  | FErr s => "ERR:" ++ sh_escaped s ""
  | FPanic p => "PANIC:" ++ p
  end.
Definition check (rs : list rune) : string := digest (show_fres (format_res rs)).
Definition full (rs : list rune) : string := show_fres (format_res rs).
Eval vm_compute in ("<<<M1439>>>" ++ check (runes_of_ascii "options { // c1
LittleEndian = // c3a
  // c3b
false
    // c4
;
    // c5
StringPrefixLenType // c6a
  // c6b
= u16 ; // c9a
  // c9b
ArrayPrefixLenType // c10a
  // c10b
=
    // c11
u32 // c12
; // c13
} // c14a
  // c14b
packet Order
    // c16
{ // c17a
  // c17b
uint8 // c18a
  // c18b
x // c19a
  // c19b
,
    // c20
repeat string venue , // c24
} // c25
packet // c26a
  // c26b
Heartbeat // c27
{ // c28a
  // c28b
i64 // c29
count // c30a
  // c30b
,
    // c31
zchar[
    // c32
1 // c33a
  // c33b
] // c34
Qty
    // c35
, // c36
repeat InX29 {
    // c39
InSeqno26
    // c40
{ // c41a
  // c41b
int64
    // c42
f1 , char[
    // c45
5
    // c46
] // c47a
  // c47b
Acct
    // c48
,
    // c49
Order , // c51
} // c52
, repeat
    // c54
InSide285 // c55
{ // c56
repeat // c57
Order // c58
, // c59
char[ 10 // c61
] Px // c63
, // c64
zchar[ // c65
9
    // c66
] // c67
OrderId // c68
, } // c70
, // c71a
  // c71b
char[] // c72a
  // c72b
venue // c73
, // c74
Order // c75a
  // c75b
, // c76a
  // c76b
} // c77a
  // c77b
, @rightPad // c79a
  // c79b
( '\x00' // c81a
  // c81b
) // c82
char[ // c83a
  // c83b
4 ]
    // c85
clOrdID // c86
, // c87
}
    // c88
root // c89
packet Party // c91a
  // c91b
{ // c92a
  // c92b
zchar[ // c93a
  // c93b
3 // c94a
  // c94b
] // c95
f1 // c96a
  // c96b
, // c97a
  // c97b
u32 // c98a
  // c98b
clOrdID // c99a
  // c99b
,
    // c100
u32 // c101a
  // c101b
Px @lengthOf( Body // c104a
  // c104b
) // c105
, // c106
match
    // c107
clOrdID // c108a
  // c108b
as // c109a
  // c109b
Body { // c111a
  // c111b
[ 180 , 64 ] // c116a
  // c116b
: // c117a
  // c117b
Heartbeat // c118
,
    // c119
11 // c120
: // c121a
  // c121b
Order // c122
, } // c124
, // c125a
  // c125b
u32
    // c126
Side2 // c127a
  // c127b
@calculatedFrom( ""CRC32"" // c129a
  // c129b
) // c130
, // c131
} ")).
Eval vm_compute in ("<<<M1732>>>" ++ check (runes_of_ascii "packet x_y_z {
    packetx {
        i16 pack `doc`,
        repeat char[255] leftPad,
    },
    u8x,
    match o as roots {
        [0123456789] : x_y_z,
        [""a\\""] : packetx,
    },
    repeat charz {
        int32 i64_ `{ , }`,
    },
}

packet x_y_z {
    @calculatedFrom(""CRC32"")
    @tag(00)
    @lengthOf(x)
    match As as stringy {
        1 : i64_,
        // " ++ [27880; 37322]%N ++ runes_of_ascii "
        [
            ""it's"", ""1"", ""x y"", 4294967296, ""\n"",
            ""x y""
        ] : u128,
        00 : calculatedFrom,
        [4294967296, ""// no comment"", 42, 3, ""{,}""] : charz,
    },
    @calculatedFrom(""a\\"")
    Logon A,
    chars @lengthOf(Logon),
    @rightPad('0')
    @tag(0)
    @rightPad('0')
    string Foo `a\`,
}

packet packetx {
    repeat i64_ {
        o @lengthOf(A),
    },
    @tag(42)
    repeat char[] crc,
    @leftPad()
    u16 roots,
    falsey @lengthOf(As),
    repeat Foo {
        float32 f32a @calculatedFrom(""`tick`""),
        len `
        `,
        // packet A { u8 x, }
    },
    @leftPad('\x00')
    T @calculatedFrom(""a	b"") `" ++ [28040; 24687; 31867; 22411]%N ++ runes_of_ascii "`,
    char[] trueish `u8 x,`,
    @lengthOf(falsey)
    match rootA as BodyLength {
        // " ++ [128512]%N ++ runes_of_ascii " emoji
        [""CRC32""] : x,
        // @lengthOf(
        // c
        42 : BodyLength,
        // trailing space 
    },
}")).
Eval vm_compute in ("<<<M1995>>>" ++ check (runes_of_ascii "// top
	options
        // c0
{
    // c1
  chars 
    // c2

= 

// c3
    ""a\\"" 
    // c4

  } 
// c5
	packet 
    // c6
	  Z9_ 
// c7

  { 
        // c8
match
    // c9
    BodyLength 
    // c10
		as

    // c11
	roots
        // c12
	{ 
  // c13
	""" ++ [28040; 24687]%N ++ runes_of_ascii """ 
// c14
  : 
      // c15
  falsey 

// c16
    , 
    // c17
      00
    // c18
		: 
    // c19
  u128 
// c20
	0 
// c21
	:

    // c22
  len
    // c23
	,  
      // c24
    007
    // c25

  :
// c26
f32a 
// c27
  } 

    // c28
	  , 
      // c29
	@tag( 
    // c30
	  3 
    // c31
) 
	    // c32

	@calculatedFrom(

// c33
	""`tick`"" 
	    // c34
)
	// c35
	@leftPad 
    // c36
    (

    // c37
    	' ' 
      // c38
		) 
    // c39
		string 
// c40
	asx
        // c41
  ,
	    // c42

	string

    // c43
  u 
// c44

@lengthOf( 
	    // c45
options1 

    // c46
  ) 
      // c47
	,
    // c48
    float32 

// c49
	i64_ 
// c50
  	@calculatedFrom( 
        // c51

""a\""b""
    // c52

	)
	// c53
,
// c54
  	}
// c55
")).
Eval vm_compute in ("<<<M1771>>>" ++ check (runes_of_ascii "// top
options {
    // c1
    LittleEndian = true;// c5a
    // c5b
    FixedStringPadFromLeft = true;
    FixedStringPadChar = '0';
    // c13
}

// c14
packet Trade {
    string clOrdID,
    char[] Px,// c23
    u32 x,// c26a
    // c26b
}// c27

packet Reject {
    // c30
    int32 Side2,
    // c33
    repeat char[3] clOrdID,
    i32 tag7,// c42a
    // c42b
}// c43a

// c43b
packet Leg {
}

root packet Quote {
    // c51
    string Side2,
    string lastPx,
    // c57
    InSym58 {
        int16 OrderId,// c62a
        // c62b
        Reject,// c64
        i8 Qty,
        // c67
        i64 venue,
        f32 Note,// c73
    },// c75a
    // c75b
    char[] count,
    zchar[9] price,// c83
    u16 Qty,
    // c86
    match Qty as Body {
        // c91
        69 : Leg,
        48 : Trade,
        // c99
        51 : Reject,
        // c103
    },
    u16 Acct @calculatedFrom(""CRC32""),// c111a
    // c111b
}")).
Eval vm_compute in ("<<<M1834>>>" ++ check (runes_of_ascii "options {
    LittleEndian = true;
    StringPrefixLenType = u64;
    ArrayPrefixLenType = u8;
    FixedStringPadChar = '0';
}

packet Reject {
    i32 Ref,
    repeat f64 OrderId,
    repeat InNote12 {
        u8 pad0,
    },
    @leftPad(' ')
    char[6] count,
}

packet Logout {
    zchar[6] Tail,
    repeat string venue,
}

packet Cancel {
    u64 count,
    repeat char[5] lastPx,
    i64 Tail,
    repeat InF140 {
        repeat Logout,
        repeat Reject,
    },
}

root packet Trade {
    repeat InMsgkind39 {
        repeat Reject,
        char[4] Px,
    },
    string Acct,
    uint16 price,
    f32 OrderId,
    u16 x,
    u16 clOrdID @lengthOf(Body),
    match x as Body {
        178 : Logout,
        13 : Cancel,
        174 : Reject,
    },
    u16 Flags @calculatedFrom(""CRC32""),
}")).
Eval vm_compute in ("<<<M1441>>>" ++ check (runes_of_ascii "options {
    LittleEndian = false;
    StringPrefixLenType = u16;
    ArrayPrefixLenType = u32;
}
packet Order {
    uint8 x,
    repeat string venue,
}
packet Heartbeat {
    i64 count,
    zchar[1] Qty,
    repeat InX29 {
        InSeqno26 {
            int64 f1,
            char[5] Acct,
            Order,
        },
        repeat InSide285 {
            repeat Order,
            char[10] Px,
            zchar[9] OrderId,
        },
        char[] venue,
        Order,
    },
    @rightPad('\x00') char[4] clOrdID,
}
root packet Party {
    zchar[3] f1,
    u32 clOrdID,
    u32 Px @lengthOf(Body),
    match clOrdID as Body {
        [180, 64] : Heartbeat,
        11 : Order,
    },
    u32 Side2 @calculatedFrom(""CR\
C32""),
}
")).
Eval vm_compute in ("<<<M363>>>" ++ check (runes_of_ascii "packet A {
repeat
    o Z9_ ,
    @calculatedFrom( """ ++ [233]%N ++ runes_of_ascii "t" ++ [233]%N ++ runes_of_ascii """ ) @calculatedFrom(
    ""a\\"" ) @tag( 42) match Header as
    // packet A { u8 x, }
    tag {
    ""`tick`"" :
As , [
    ""\" ++ [233]%N ++ runes_of_ascii """ ] :
asx[ 3
,  ""1"", ""\n"" , 007
,
    ""\n"" ] :options1 ""abc"" :
//	t
/// triple
falsey , 4294967296 :	metadata , } ,  @tag(4294967296) tag @calculatedFrom( """ ++ [128512]%N ++ runes_of_ascii """ ) , }
    // `tick` ""quote"" 'q'
    packet stringy {
    char[]
packetx
`
`,string leftPad @lengthOf(float
    ) ,@tag( //	t
65535 )	@lengthOf( packetx) @lengthOf( Pad )
// trailing space 
// " ++ [27880; 37322]%N ++ runes_of_ascii "
repeatCount BodyLength , // a // b
char[] A
    @lengthOf( // packet A { u8 x, }
a1)
    `two words` , }
packet falsey // " ++ [27880; 37322]%N ++ runes_of_ascii "
{ }")).
Eval vm_compute in ("<<<M261>>>" ++ check (runes_of_ascii "packet// " ++ [128512]%N ++ runes_of_ascii " emoji
BodyLength {@calculatedFrom( ""it's"" ) zchar[ 0123456789] Z9_ `it's` , } packet zchar{ @lengthOf(
rootA )@rightPad ( '0' )// " ++ [27880; 37322]%N ++ runes_of_ascii "
repeat
int64
stringy
,@lengthOf( lengthOf ) match Pad as o
// a // b
//x
{ [ 10
    , ""a\""b""] :
BodyLength, """ ++ [233]%N ++ runes_of_ascii "t" ++ [233]%N ++ runes_of_ascii """ :zchar  3:T },
} MetaData Logon { uint8x i64_ , } root packet
/// triple
// `tick` ""quote"" 'q'
zchar {
charz `" ++ [28040; 24687; 31867; 22411]%N ++ runes_of_ascii "` , } packet i64_
{	u
`two words`
// `tick` ""quote"" 'q'
// c
, @calculatedFrom(""it's""
)char[
    // trailing space 
    0123456789	] body`it's`
    ,char[ 255 ]leftPad `two words` , }")).
Eval vm_compute in ("<<<M1951>>>" ++ check (runes_of_ascii "// top
options {
    // c1a
    // c1b
    LittleEndian = true;// c5
    ArrayPrefixLenType = u64;// c9a
    // c9b
    FixedStringPadFromLeft = false;
    // c13
}// c14a

// c14b
packet Quote {
    // c17
}// c18

root packet Order {
    // c22
    i64 Side2,// c25
    Quote,// c27a
    // c27b
    u32 Px,// c30
    match Px as Body {
        // c35
        [119, 147] : Quote,
    },// c45a
    // c45b
    u16 Flags @calculatedFrom(""CRC32""),
    // c51
}// c52a
// c52b")).
Eval vm_compute in ("<<<M1810>>>" ++ check (runes_of_ascii "options  {
LittleEndian
=

false ;
    StringPrefixLenType
=
    u32

;
    ArrayPrefixLenType 
= u16
;} packet
Party	{@leftPad ( '0'	) char[
12] Ref ,repeat

    char[
6	] 
x ,}
    packet	Logon

    {	uint32
clOrdID ,Party ,	}

    root packet

    Ack

{
    zchar[

    2 
] f1
, u32	seqNo 
,

    u32 Side2
@lengthOf(  Body) 
,
	match  seqNo  as Body 
{
43
:

Logon

    ,	93:Party

    , 
},}
")).
Eval vm_compute in ("<<<M1572>>>" ++ check (runes_of_ascii "MetaData o {
    u32 string_,
    char[] a1 `crlf
        line`,
    int8 options1,
}

packet Foo {
    @lengthOf(matchKey)
    f32 f32a,
    @tag(0)
    // @lengthOf(
    match MetaDataX as trueish {
        //	t
        255 : T,
        4294967296 : pack,
        3 : falsey,
        ""1"" : uint8x,
        7 : u128,
        4294967296 : MetaDataX,
    },
    i32 roots,
}")).
Eval vm_compute in ("<<<M285>>>" ++ check (runes_of_ascii "
MetaData o// a // b
{ u32 string_, char[]a1
`crlf
line` , int8 options1 ,
} packet
    Foo{ @lengthOf( matchKey )f32 f32a ,
@tag(0 ) // @lengthOf(
match MetaDataX as trueish { //	t
255 : T ,	4294967296 : pack
    // a // b
    ,	3 :falsey ,
""1"" :uint8x ,7
    : u128 4294967296 :
    // " ++ [27880; 37322]%N ++ runes_of_ascii "
    MetaDataX
, } , i32 //
roots
, }")).
Eval vm_compute in ("<<<M1860>>>" ++ check (runes_of_ascii "  // top
  options 	 // c0a
	  // c0b
  	{	// c1a
// c1b
	LittleEndian 

// c2
=

    true	// c4a
	  // c4b
;  // c5a
	// c5b

}	// c6
    root // c7

packet 
// c8
  P  // c9a
	// c9b

  { 
// c10

	repeat
	char

cs// c13
  , // c14a
		// c14b
    u8 // c15
    x // c16
  ,  // c17
	} ")).
Eval vm_compute in ("<<<M1487>>>" ++ check (runes_of_ascii "packet P1 {
    u8 a,
}

packet P2 {
    P1,
}

packet P3 {
    P2,
    P1,
}

packet P4 {
    repeat P3,
    P2,
}

root packet P5 {
    P4,
    P3,
    P1,
    u8 K,
    match K as Body {
        4 : P4,
        3 : P3,
        2 : P2,
        1 : P1,
    },
}")).
Eval vm_compute in ("<<<M1694>>>" ++ check (runes_of_ascii "packet T {
}

MetaData i8i8 {
    calculatedFrom u128 `u8 x,`,
    string_ a1 `" ++ [233]%N ++ runes_of_ascii "`,
    Foo int,
    zchar[007] chars,
    pack x,
    crc repeatCount,
}

packet options1 {
    @tag(1)
    char[1] f32a,
    _x @lengthOf(_x) ``,
}// " ++ [128512]%N ++ runes_of_ascii " emoji")).
Eval vm_compute in ("<<<M517>>>" ++ check (runes_of_ascii "options
{
matchKey = 42/// triple
x='0' ;
// packet A { u8 x, }
//
charz
=
// packet A { u8 x, }
// trailing space 
true  ; } MetaData BodyLength
{
uint8
pack,zchar[ 1]float ,  float32 x_y_z x_y_z `` ,u32
_x,i16 body  , }
")).
Eval vm_compute in ("<<<M412>>>" ++ check (runes_of_ascii "options
{
matchKey = 42/// triple
x x='0' ;
// packet A { u8 x, }
//
charz
=
// packet A { u8 x, }
// trailing space 
true  ; } MetaData BodyLength
{
uint8
pack,zchar[ 1]float ,  float32 x_y_z `` ,u32
_x,i16 body  , }
")).
Eval vm_compute in ("<<<M538>>>" ++ check (runes_of_ascii "options
{
matchKey = 42/// triple
x='0' ;
// packet A { u8 x, }
//
charz
=
// packet A { u8 x, }
// trailing space 
true  ; } MetaData BodyLength
{
uint8
pack,zchar[ 1]float ,  float32 x_y_z `` ,u32
,_x i16 body  , }
")).
Eval vm_compute in ("<<<M496>>>" ++ check (runes_of_ascii "options
{
matchKey = 42/// triple
x='0' ;
// packet A { u8 x, }
//
charz
=
// packet A { u8 x, }
// trailing space 
true  ; } MetaData BodyLength
{
uint8
pack,zchar[ 1 float ,  float32 x_y_z `` ,u32
_x,i16 body  , }
")).
Eval vm_compute in ("<<<M521>>>" ++ check (runes_of_ascii "options
{
matchKey = 42/// triple
x='0' ;
// packet A { u8 x, }
//
charz
=
// packet A { u8 x, }
// trailing space 
true  ; } MetaData BodyLength
{
uint8
pack,zchar[ 1]float ,  float32 x_y_z  ,u32
_x,i16 body  , }
")).
Eval vm_compute in ("<<<M511>>>" ++ check (runes_of_ascii "options
{
matchKey = 42/// triple
x='0' ;
// packet A { u8 x, }
//
charz
=
// packet A { u8 x, }
// trailing space 
true  ; } MetaData BodyLength
{
uint8
pack,zchar[ 1]float ,   x_y_z `` ,u32
_x,i16 body  , }
")).
Eval vm_compute in ("<<<M13>>>" ++ check (runes_of_ascii "packet crc {
@tag(  0123456789// " ++ [128512]%N ++ runes_of_ascii " emoji
) i64 uint8x , }
MetaData i8i8 {
    zchar[
    65535 ] int, }	packet lengthOf  {
// trailing space 
//	t
@leftPad	('0')	falsey int ,	}
// @lengthOf(
")).
Eval vm_compute in ("<<<M1792>>>" ++ check (runes_of_ascii "packet A {
    Inner {
        u8 x `a
                
                b`,
        Deep {
            u8 y `a
                        
                        b`,
        },
    },
}")).
Eval vm_compute in ("<<<M723>>>" ++ check (runes_of_ascii "// c
packet i64_ {	char[] calculatedFrom , } packet
trueish  {@calculatedFrom(
""a\\"" ) o { i32 falsey@lengthOf( uint8x ),
} , } // `tick` ""quote"" 'q'
options {// c
Z9_ ' ' =//
}
")).
Eval vm_compute in ("<<<M1772>>>" ++ check (runes_of_ascii "packet A {
    match k as n {
        [
            ""a"", ""bb"", ""c c"", ""d"", ""e"",
            ""f"", ""g"", ""h"", ""i"", ""j"",
            ""k""
        ] : B,
        2 : C,
    },
}")).
Eval vm_compute in ("<<<M115>>>" ++ check (runes_of_ascii "root packet T{ }	MetaData	msg_type { i64_ //x
i64_,  } root packet
    // packet A { u8 x, }
    x_y_z { }  MetaData	crc { o
zchar`line1
line2`
,} packet
x{ }")).
Eval vm_compute in ("<<<M119>>>" ++ check (runes_of_ascii "MetaData  trueish {
    chars	u8x // trailing space 
,
A chars ,i8i8 asx `tab	here`
    ,char[ 3 ]
body	`" ++ [233]%N ++ runes_of_ascii "`,
    zchar[	00	]
u128 ,
}
/// triple
")).
Eval vm_compute in ("<<<M1561>>>" ++ check (runes_of_ascii "  packet
	A

{	Inner {

    match
k

as
n

    {

[ 1 , 22

,

007
,4
, 
5

,  66
, 
7

    ,8,
9  ]
	:
    B	,
	}
,

}

,

} ")).
Eval vm_compute in ("<<<M1928>>>" ++ check (runes_of_ascii "packet A {
    match k as n {
        [
            1, 22, 007, 4, 5,
            66, 7, 8
        ] : B,
        2 : C,
    },
}")).
Eval vm_compute in ("<<<M1541>>>" ++ check (runes_of_ascii "packet Logon {
    @tag(42)
    @rightPad(' ')
    @leftPad()
    repeat trueish {
        string T,
        // c
    },
}")).
Eval vm_compute in ("<<<M654>>>" ++ check (runes_of_ascii "\ MetaData
    // trailing space 
    matchKey
{ u64 chars // a // b
,char[] lengthOf `// not a comment`
    , //	t
}")).
Eval vm_compute in ("<<<M618>>>" ++ check (runes_of_ascii "MetaData
    // trailing space 
    matchKey
{ u64 chars // a // b
,lengthOf char[] `// not a comment`
    , //	t
}")).
Eval vm_compute in ("<<<M75>>>" ++ check (runes_of_ascii "options { pack =0 } MetaData int{ char[	00
    ]
    T
    `crlf
line` ,  i8 string_
,//	t
int16
matchKey , }
")).
Eval vm_compute in ("<<<M942>>>" ++ check (runes_of_ascii "packet A {
    u16 len @lengthOf(body) `a

b`,
    u32 crc @calculatedFrom(""CRC32"") `a

b`,
    string body,
}")).
Eval vm_compute in ("<<<M1368>>>" ++ check (runes_of_ascii "options {
    LittleEndian = true;
}
root packet P {
    u16 a,
    u32 Sum @calculatedFrom(""CR\
C32""),
}
")).
Eval vm_compute in ("<<<M1263>>>" ++ check (runes_of_ascii "packet calculatedFrom { @tag( 4294967296 ) // c
u msg_type , char[ 3 ] crc @lengthOf( len ) `u8 x,` , }")).
Eval vm_compute in ("<<<M887>>>" ++ check (runes_of_ascii "packet A {
  match k as n {
    [""a"", ""bb"", 007, ""d"", ""e"", 66, ""g"", ""h"", 9, ""j""] : B,
    2 : C
  },
}")).
Eval vm_compute in ("<<<M881>>>" ++ check (runes_of_ascii "packet A {
  match k as n {
    [1, ""bb"", 007, ""d"", 5, ""f"", 7, ""h"", 9, ""j""] : B,
    2 : C
  },
}")).
Eval vm_compute in ("<<<M1141>>>" ++ check (runes_of_ascii "packet Logon { @tag( 42 )
// c
@rightPad ( ' ' ) @leftPad ( ) repeat trueish { string T , } , }")).
Eval vm_compute in ("<<<M1931>>>" ++ check (runes_of_ascii "packet o {
    @tag(42)
    repeat x {
        char[0123456789] i64_,
    },
}// c

options {
}")).
Eval vm_compute in ("<<<M872>>>" ++ check (runes_of_ascii "packet A {
  match k as n {
    [1, 22, ""c c"", 4, 5, ""f"", 7, 8, ""i""] : B,
    2 : C
  },
}")).
Eval vm_compute in ("<<<M1932>>>" ++ check (runes_of_ascii "
packet
o// c
{  @tag( 42)  repeat

x	{ char[

0123456789 ] i64_
	, 
}	,}options
{}
")).
Eval vm_compute in ("<<<M814>>>" ++ check (runes_of_ascii "packet A {
  match k as n {
    [""a"", ""bb"", ""c c"", ""d"", ""e""] : B,
    2 : C
  },
}")).
Eval vm_compute in ("<<<M1224>>>" ++ check (runes_of_ascii "packet o { @tag( 42 ) repeat x { // c
char[ 0123456789 ] i64_ , } , } options { }")).
Eval vm_compute in ("<<<M830>>>" ++ check (runes_of_ascii "packet A {
  match k as n {
    [1, ""bb"", 007, ""d"", 5, ""f""] : B
    2 : C
  },
}")).
Eval vm_compute in ("<<<M1874>>>" ++ check (runes_of_ascii "packet
A {	match	k

as n{  [  1
    ,
22 , 007 ,4  ] :

B
2:C	}
,

    } ")).
Eval vm_compute in ("<<<M805>>>" ++ check (runes_of_ascii "packet A {
  match k as n {
    [""a"", 22, ""c c"", 4] : B,
    2 : C
  },
}")).
Eval vm_compute in ("<<<M808>>>" ++ check (runes_of_ascii "packet A {
  match k as n {
    [1, 22, ""c c"", 4] : B
    2 : C
  },
}")).
Eval vm_compute in ("<<<M800>>>" ++ check (runes_of_ascii "packet A {
  match k as n {
    [1, 22, 007, 4] : B
    2 : C
  },
}")).
Eval vm_compute in ("<<<M781>>>" ++ check (runes_of_ascii "packet A {
  match k as n {
    [1, ""bb""] : B,
    2 : C
  },
}")).
Eval vm_compute in ("<<<M1683>>>" ++ check (runes_of_ascii "MetaData M {
    u8 x `x
        `,
    T t `x
        `,
}")).
Eval vm_compute in ("<<<M35>>>" ++ check (runes_of_ascii "MetaData trueish { char[]chars , char[] int
    ,}
")).
Eval vm_compute in ("<<<M54>>>" ++ check (runes_of_ascii "  MetaData
u128{ uint32 lengthOf ,
    }
")).
Eval vm_compute in ("<<<M1116>>>" ++ check (runes_of_ascii "MetaData zchar { zchar[ 3 ] Pad // c
, }")).
Eval vm_compute in ("<<<M1826>>>" ++ check (runes_of_ascii "
packet 
A  {
u8 x `d" ++ [65279]%N ++ runes_of_ascii "` 
,	// c" ++ [65279]%N ++ runes_of_ascii "
}
")).
Eval vm_compute in ("<<<M1915>>>" ++ check (runes_of_ascii "

  packet A {
u8
x `
x`
,
}
")).
Eval vm_compute in ("<<<M1052>>>" ++ check (runes_of_ascii "packet A {
 u8 x `d" ++ [65279]%N ++ runes_of_ascii "`, // c" ++ [65279]%N ++ runes_of_ascii "
}")).
Eval vm_compute in ("<<<M744>>>" ++ check (runes_of_ascii "IO" ++ [65533; 1602; 65533; 4; 26]%N ++ runes_of_ascii "^r" ++ [65533]%N ++ runes_of_ascii "yC9" ++ [65533]%N ++ runes_of_ascii "K" ++ [65533]%N ++ runes_of_ascii "=" ++ [65533; 65533]%N ++ runes_of_ascii "7" ++ [65533; 65533; 65533]%N ++ runes_of_ascii "t" ++ [65533]%N)).
Eval vm_compute in ("<<<M225>>>" ++ check (runes_of_ascii "packet
    matchKey{ }
")).
Eval vm_compute in ("<<<M1785>>>" ++ check (runes_of_ascii "
packet
As

{

}
")).
Eval vm_compute in ("<<<M1038>>>" ++ check (runes_of_ascii "packet A {
}// c 	")).
Eval vm_compute in ("<<<M1081>>>" ++ check (runes_of_ascii "options { // a
 }")).
Eval vm_compute in ("<<<M323>>>" ++ check (runes_of_ascii "// c


")).
Eval vm_compute in ("<<<M205>>>" ++ check (runes_of_ascii "

")).
