From FP Require Import Lexer Parser ShowPT Digest Formatter.
From Coq Require Import String List NArith.
Import ListNotations.
Open Scope string_scope.
Set Printing Width 100000000.
Set Printing Depth 100000000.
Definition show_fres (r : fres) : string :=
  match r with
  | FOk s => "OK:" ++ sh_escaped s ""
  | FErr s => "ERR:" ++ sh_escaped s ""
  | FPanic p => "PANIC:" ++ p
  end.
Definition check (rs : list rune) : string := digest (show_fres (format_res rs)).
Definition full (rs : list rune) : string := show_fres (format_res rs).
Eval vm_compute in ("<<<M3666>>>" ++ check (runes_of_ascii "options { 	 // c1a
	// c1b
    StringPrefixLenType  // c2
    =

// c3

u16// c4a

  // c4b
		; 	 // c5a
// c5b
		ArrayPrefixLenType	// c6
=	u32// c8
    ; 
    // c9
  FixedStringPadFromLeft  
  // c10
    = 
	// c11

false

;  FixedStringPadChar // c14a
    // c14b

= '0'
	;	// c17

} 
    // c18
      packet 
	    // c19
Logout 
        // c20
		{ 	 // c21a
// c21b
  	f64 // c22
	f1
	    // c23
  ,// c24
	  i16	// c25
  Note 	 // c26
,
    // c27
    @rightPad
        // c28
(	// c29a
  	// c29b

  '\x00' 	 // c30
) 	 // c31a
    // c31b
char[ 	 // c32a
// c32b
  11	// c33
		] 	 // c34
  Flags,  // c36
		}  // c37
  packet
        // c38
    Cancel 

    // c39
{ 

// c40
	  float64 
        // c41
msgKind
// c42

,	// c43a

  // c43b
  }  // c44
      packet 
Reject{ 	 // c47a
// c47b
	InQty43 {
    float32 	 // c50
	sym 
    // c51
		,

// c52
char[ 	 // c53a
  // c53b
	  10	// c54
    ] 	 // c55a
    // c55b
    Tail
// c56
,// c57
    	uint8// c58a
		// c58b
		venue ,  // c60

	uint16  // c61a

// c61b

  f1  
      // c62
  ,
        // c63
      char[ // c64
      9	]	// c66
	  Acct 	 // c67a
// c67b

  ,
	} 

// c69
,
	}
    // c71
packet 
        // c72
		Trade // c73
	{ 	 // c74a
	// c74b
	char[]  // c75a
// c75b
  x // c76a
    // c76b
  ,  
  // c77
    	zchar[// c78a
	  // c78b

	6] // c80
    Note 	 // c81
  ,  // c82
    repeat// c83a
	  // c83b
Reject // c84
    	, 	 // c85
  } 
	// c86
  root
packet	// c88
  Order  // c89
      {  // c90a
  // c90b
      Cancel  // c91a
    // c91b
	,

    // c92
Logout
,  // c94
	u64 	 // c95a
	// c95b
      Acct	, 	 // c97

u32 	 // c98a

// c98b
      OrderId// c99a
    // c99b
	  ,	match// c101a
      // c101b
OrderId 	 // c102
		as
	Body	// c104
  {

    [ 127  // c107
  ,	// c108
    70  // c109
  ] 	 // c110
	:	// c111
  Reject 

    // c112
	, 
177  
      // c114
    :	// c115a
  	// c115b
Trade	// c116a
    // c116b

,  // c117
    	58  // c118
  :
    // c119
Logout	, 

// c121
75
    : 
    // c123

  Cancel // c124
	, // c125

	}// c126a
// c126b
  ,	// c127
	u32// c128
  Tail@calculatedFrom(  // c130
""CRC32"" 	 // c131
	) 
      // c132
  ,}")).
Eval vm_compute in ("<<<M1057>>>" ++ check (runes_of_ascii "packet Foo
{ @lengthOf(chars ) @leftPad (
    //x
    ) repeat
    metadata
// @lengthOf(
// c
{
// packet A { u8 x, }
// " ++ [128512]%N ++ runes_of_ascii " emoji
_x,u body , match A as Logon { [ ""\" ++ [233]%N ++ runes_of_ascii """ ,10 ,	7 , """" , 0
//
// @lengthOf(
]
    // packet A { u8 x, }
    :	stringy, """ ++ [128512]%N ++ runes_of_ascii """
    // `tick` ""quote"" 'q'
    : msg_type ,} , uint16
    asx
@calculatedFrom(
    """ ++ [233]%N ++ runes_of_ascii "t" ++ [233]%N ++ runes_of_ascii """	)
, } , @lengthOf(
metadata
    ) match
matchKey
as o
//x
// `tick` ""quote"" 'q'
{[ 65535
,	255 ]: rootA,
} , @lengthOf(
    Z9_ )
match Header as
o{ 4294967296 : pack , 65535 : MetaDataX
,  ""CRC32"" : leftPad ,
[ ""{,}""] :	calculatedFrom
    , //x
""" ++ [28040; 24687]%N ++ runes_of_ascii """ // packet A { u8 x, }
: o ""a\\"" :u
    ,
    }
, @tag( 42 ) @lengthOf( options1	) @lengthOf( o) // c
match  options1 // `tick` ""quote"" 'q'
as uint8x{ [
//x
// " ++ [27880; 37322]%N ++ runes_of_ascii "
1 , ""CRC32""	, ""a\\""
,
//x
// c
1
, ""// no comment"" , 007  ]
// a // b
// `tick` ""quote"" 'q'
:
int 0	: repeatCount ,0123456789  :f32a
[
//x
// @lengthOf(
255, ""\" ++ [233]%N ++ runes_of_ascii """ ,
""a\\"" ]
:asx
,1 : Header
    // trailing space 
    , } , match	tag as _x // a // b
{00
    : lengthOf ,// " ++ [27880; 37322]%N ++ runes_of_ascii "
}  , repeat char[] i64_
,match
    // " ++ [27880; 37322]%N ++ runes_of_ascii "
    msg_type as Pad // c
{// a // b
""// no comment""
:asx ,	[
""" ++ [28040; 24687]%N ++ runes_of_ascii """
    ,
""\" ++ [233]%N ++ runes_of_ascii """ ] // c
:x
    ,
0:
u , /// triple
10
:
Foo
, } ,
// trailing space 
/// triple
@rightPad
    ( )
    //	t
    u8x
    ,@leftPad (	'\x00')
u64
crc @calculatedFrom( ""`tick`""
)
`
` , @lengthOf( rootA ) zchar[ 00 ]	roots
, }MetaData
MetaDataX
{} packet
    len // " ++ [27880; 37322]%N ++ runes_of_ascii "
{  repeat Z9_//x
{ i8
    //
    i8i8,
    }, match repeatCount
as
// trailing space 
// " ++ [27880; 37322]%N ++ runes_of_ascii "
asx
{ ""{,}""
: tag , 65535 // trailing space 
: Foo	, 7 : f32a , [
    """ ++ [28040; 24687]%N ++ runes_of_ascii """ , 0 ]
    ://	t
T	,
    [ 00 , """ ++ [128512]%N ++ runes_of_ascii """
    // " ++ [27880; 37322]%N ++ runes_of_ascii "
    ]
: x_y_z 0123456789 : MetaDataX, }
    , char[
    007
]
x `" ++ [233]%N ++ runes_of_ascii "`
//	t
// " ++ [27880; 37322]%N ++ runes_of_ascii "
,@leftPad ( )
i16 Logon@lengthOf( MetaDataX ) ,
} packet u8x {
}
")).
Eval vm_compute in ("<<<M432>>>" ++ check (runes_of_ascii "packet rootA
{ @rightPad ( '0' ) string
leftPad	@calculatedFrom(
""" ++ [233]%N ++ runes_of_ascii "t" ++ [233]%N ++ runes_of_ascii """ )
    `two words` , } packet // a // b
A{ @calculatedFrom( ""it's""	) char[] // @lengthOf(
msg_type
@lengthOf( asx ) `u8 x,` ,charz
    o ,@calculatedFrom(""`tick`"" )
    @lengthOf( // @lengthOf(
crc
// " ++ [27880; 37322]%N ++ runes_of_ascii "
// trailing space 
)
    //
    match // " ++ [128512]%N ++ runes_of_ascii " emoji
falsey as metadata	{
    // @lengthOf(
    [
65535
, 65535
] :u8x
, ""\n""
// @lengthOf(
// @lengthOf(
: int // " ++ [128512]%N ++ runes_of_ascii " emoji
,
    007 :MetaDataX,
    ""it's""
: f32a ,
    0
:
    i8i8 , [
65535
, 255 ] : u8x
,} ,
    }	packet charz { string
MetaDataX// a // b
,
    // packet A { u8 x, }
    repeat	char[] _x,
@rightPad(
)
    match pack as
    //	t
    string_ {""a	b""	: trueish ,
""it's""
// trailing space 
//
: A 10 :
    T
0
:// trailing space 
msg_type,
    [ 7 ,
    1 , ""1"" ,// `tick` ""quote"" 'q'
00// " ++ [27880; 37322]%N ++ runes_of_ascii "
, 10  ,4294967296
,
10 ]: Pad, }
,// a // b
A {
repeat u128
    { char[ 00 ] a1  `line1
line2`, //x
uint8x rootA `say ""hi""` , match uint8x as i64_
{""" ++ [28040; 24687]%N ++ runes_of_ascii """
: msg_type	,  ""\n"" : i8i8, } ,
i64 x_y_z `{ , }` ,}
// a // b
// a // b
, match zchar
//	t
// c
as Header{	3
:
    pack	, ""x y"" :packetx ,
    //x
    255  : u8x, ""abc"": Z9_ ,""x y"" :
msg_type [""a\\""
    ,
    10 // @lengthOf(
] // `tick` ""quote"" 'q'
:	o } , char[
    // `tick` ""quote"" 'q'
    0 ]
    leftPad `{ , }`, string stringy
@calculatedFrom(
    ""`tick`""
)
    `u8 x,` ,  }, repeat zchar[ 00] // packet A { u8 x, }
Packet ,repeat u16
tag , @tag(65535  ) repeat uint64
    MetaDataX , } MetaData pack { }")).
Eval vm_compute in ("<<<M1271>>>" ++ check (runes_of_ascii "//	t
root	packet T { i8 //
roots, @lengthOf( Pad
    )
    @calculatedFrom( // @lengthOf(
""a	b"") @rightPad ('0' )
float @calculatedFrom( // " ++ [128512]%N ++ runes_of_ascii " emoji
""" ++ [28040; 24687]%N ++ runes_of_ascii """//	t
) `{ , }` ,	@lengthOf(	roots )
repeat
    tag {match
i8i8
    as packetx{
// a // b
/// triple
[""// no comment"" ] //x
: // " ++ [128512]%N ++ runes_of_ascii " emoji
packetx ,""\" ++ [233]%N ++ runes_of_ascii """  :  i8i8 ,""a\\"" : //x
Packet
    ,
    // packet A { u8 x, }
    00
/// triple
// @lengthOf(
: a1 ,
    ""1"" :
Foo
// a // b
// packet A { u8 x, }
, ""\" ++ [233]%N ++ runes_of_ascii """ :	rootA, }//
,
    uint8x
matchKey // " ++ [27880; 37322]%N ++ runes_of_ascii "
`two words`
,
char[ 0123456789 ]  i8i8, }	,  @lengthOf( calculatedFrom
    //x
    )
Foo a1 , @lengthOf( pack ) zchar[ 3  ]
trueish , } root packet o { /// triple
}	root packet // " ++ [128512]%N ++ runes_of_ascii " emoji
tag // `tick` ""quote"" 'q'
{// c
@lengthOf(A	)
uint16 i64_
    `it's`
    , // a // b
repeat roots{
string stringy
    ,
    match _x as int { 7
:// packet A { u8 x, }
leftPad , 65535  :lengthOf,
7 : Foo , ""a\\""
    //	t
    : float , 255
:
    leftPad
    007 :u128 ,} ,MetaDataX
@lengthOf(
leftPad ) , lengthOf @calculatedFrom( ""`tick`"" )
,}
, @rightPad
() @lengthOf( f32a )	zchar[ 00 ]  T // packet A { u8 x, }
@calculatedFrom(
""a\""b"" ) ,  repeat  Pad{ zchar[ 0 ]
msg_type`say ""hi""`// " ++ [27880; 37322]%N ++ runes_of_ascii "
,} , u64
    string_ @lengthOf(
    // packet A { u8 x, }
    T	)  `line1
line2`
    ,
    // packet A { u8 x, }
    }
")).
Eval vm_compute in ("<<<M1126>>>" ++ check (runes_of_ascii "packet // `tick` ""quote"" 'q'
BodyLength {char[ 3//
]i64_ @calculatedFrom( ""`tick`"" )  `line1
line2`
    // trailing space 
    ,@leftPad// " ++ [128512]%N ++ runes_of_ascii " emoji
(
) x `two words` // trailing space 
,zchar[ 0123456789 ]
pack
// a // b
//	t
@calculatedFrom(""a\""b""//
) `crlf
line`	,	calculatedFrom{ char[
    255 ] MetaDataX @calculatedFrom( ""packet"" ) `doc` , zchar[
    //x
    007
]leftPad `crlf
line`,
uint8x
    @calculatedFrom(
""a\""b"") ,
//
//
MetaDataX  _x , },@calculatedFrom( // " ++ [27880; 37322]%N ++ runes_of_ascii "
""packet"" )
zchar[  7] repeatCount
    `" ++ [28040; 24687; 31867; 22411]%N ++ runes_of_ascii "`
, @lengthOf(Foo ) // " ++ [128512]%N ++ runes_of_ascii " emoji
int64  A @lengthOf(	charz	)``
    , @tag(	7
    ) packetx
@calculatedFrom( """")`a\`,  } root
packet u128 { } packet
Logon {
    T {
T
    @lengthOf(
// a // b
//	t
u8x ) `tab	here` // packet A { u8 x, }
,
As `u8 x,`,
}  , int64
    T
, i64 tag // `tick` ""quote"" 'q'
@lengthOf( i64_ )
    , @lengthOf( metadata
) repeat i8
rootA , int64 Foo // trailing space 
@lengthOf( a1	) , chars
    {  string// @lengthOf(
packetx // a // b
@lengthOf(chars
) `" ++ [233]%N ++ runes_of_ascii "` , a1 @calculatedFrom(""a\""b"" ), char[] crc // packet A { u8 x, }
@lengthOf(i8i8 // " ++ [128512]%N ++ runes_of_ascii " emoji
)
    , } , }options{ matchKey  =	' '
    asx = true ; MetaDataX=	""it's""; }

")).
Eval vm_compute in ("<<<M809>>>" ++ check (runes_of_ascii "packet	Logon
{ @calculatedFrom(	""CRC32"" )
    a1 , @lengthOf(
    T  ) @lengthOf(
metadata )len{ repeat Header
{
    char[ 0123456789 ]float
    `// not a comment` ,}
    , } ,
    // `tick` ""quote"" 'q'
    @leftPad (
)	char[ 7
    ]
    x	@calculatedFrom( ""it's"")  ,  char[ 7 ] calculatedFrom , // trailing space 
char[]o @calculatedFrom( ""x y"" ) ,
@lengthOf( matchKey )match
    //	t
    options1 as	Logon {
    42 :
roots, }
    , @tag(3//
)int64 MetaDataX ,@calculatedFrom( ""CRC32"" ) @calculatedFrom(""x y""
    ) char[ 10
] chars@calculatedFrom( ""packet"" ) `// not a comment`
, match pack as i8i8{	[
00] : crc , [ 0,// packet A { u8 x, }
""it's"" , 7 , 255
    // a // b
    ]: trueish [ ""a	b"",// `tick` ""quote"" 'q'
4294967296 , 1,
// packet A { u8 x, }
// packet A { u8 x, }
42
,
0 , ""`tick`""] :
    Z9_
    /// triple
    ,10
:options1, } , } packet repeatCount { int8
    falsey@calculatedFrom(
""" ++ [233]%N ++ runes_of_ascii "t" ++ [233]%N ++ runes_of_ascii """
)
    , }
options{// a // b
trueish
//x
/// triple
= zchar[ 255
]	}root packet uint8x
// c
/// triple
{}
packet
    rootA {	zchar[ 0 ] leftPad @calculatedFrom(""""
    // trailing space 
    )
    `say ""hi""` ,
}
")).
Eval vm_compute in ("<<<M739>>>" ++ check (runes_of_ascii "MetaData	roots {
//
// " ++ [27880; 37322]%N ++ runes_of_ascii "
char[ //x
00 ]
    i8i8 // @lengthOf(
,
uint32
    metadata
`tab	here`// a // b
, } options  {
Header
/// triple
// a // b
=
    true metadata
=
    false Logon //x
=	42 ; T =
    // c
    '\x00'Header
    =// packet A { u8 x, }
""\" ++ [233]%N ++ runes_of_ascii """
} root // trailing space 
packet // c
uint8x
    {char[]// @lengthOf(
A`" ++ [233]%N ++ runes_of_ascii "`
    ,@tag( 65535
    ) uint32 i8i8 ,
@rightPad( '0'
    ) zchar[
// c
// " ++ [27880; 37322]%N ++ runes_of_ascii "
0123456789 ]leftPad ,float32 leftPad , @tag(
// a // b
// `tick` ""quote"" 'q'
42) @leftPad
(
)
    /// triple
    @tag( 0
) string
    f32a, @tag( 3
) char[
42]
MetaDataX ,string repeatCount @lengthOf( Foo)`tab	here` ,	@lengthOf(A)repeat roots { repeat len stringy`it's` ,A { zchar[ 42
] u128  @calculatedFrom( ""CRC32"" ) , } , char[]
u128 , // " ++ [128512]%N ++ runes_of_ascii " emoji
}  , @lengthOf(Z9_) u ,
// c
// " ++ [128512]%N ++ runes_of_ascii " emoji
}	MetaData
/// triple
//
len { float64 u8x ,
char[]
    //
    Header , char[ 65535 ] chars`{ , }` ,
}MetaData
Pad {
roots
a1 , i64 // `tick` ""quote"" 'q'
u128
    ,
    char[  255 ]	rootA , u16	packetx, i32 MetaDataX , u8 stringy
    , }

")).
Eval vm_compute in ("<<<M375>>>" ++ check (runes_of_ascii "
options{ MetaDataX= ' '
//	t
// trailing space 
; trueish = """ ++ [233]%N ++ runes_of_ascii "t" ++ [233]%N ++ runes_of_ascii """ ;
    /// triple
    } packet BodyLength{@lengthOf( repeatCount ) char[65535 ]
    crc @calculatedFrom(
    """"
),zchar[0 ]
x_y_z @calculatedFrom( ""packet"" )`a\` , } packet Header	{	repeat
    // " ++ [128512]%N ++ runes_of_ascii " emoji
    T
{
//x
//x
u128 chars , }, match Pad as
    crc{ ""a\""b"" :	x , }
    ,
    @lengthOf(	rootA
) @lengthOf(
stringy )
i32
    // a // b
    x
,
    @calculatedFrom( """ ++ [128512]%N ++ runes_of_ascii """
) int8	u @lengthOf(
    Pad
) `doc` , @tag(
65535)charz { a1
_x,
repeat	float32 Header `say ""hi""` ,char u , } ,
    //x
    @leftPad ( )
@leftPad (
    '0' ) @rightPad( '\x00'
    )
    match falsey as As { // " ++ [128512]%N ++ runes_of_ascii " emoji
""a\\"": pack } /// triple
,repeat metadata , match i8i8 as u {
[ 4294967296 ,
    42 ] // @lengthOf(
: uint8x ,}  , repeat uint16
    chars
// " ++ [27880; 37322]%N ++ runes_of_ascii "
// @lengthOf(
`u8 x,` ,
u16 repeatCount`crlf
line` ,
} packet
    tag {
    char[ 7 ]// `tick` ""quote"" 'q'
trueish  , int8
    string_ ``
// @lengthOf(
// @lengthOf(
,
    } 	 ")).
Eval vm_compute in ("<<<M867>>>" ++ check (runes_of_ascii "packet rootA
    {@calculatedFrom(	""// no comment"" )repeat roots
`tab	here` , u8x len ,
    u8x``	,@lengthOf(o )@tag(0) repeat char[] options1
    , int32 o `" ++ [233]%N ++ runes_of_ascii "`
, @tag(00) uint16 int , } packet BodyLength {
@tag( 4294967296  )
    repeat
// trailing space 
/// triple
zchar[ 1] Z9_ , uint32 leftPad @calculatedFrom( """ ++ [28040; 24687]%N ++ runes_of_ascii """)// packet A { u8 x, }
, i8 f32a , repeat u8 lengthOf, Header
{ leftPad ,	repeat stringy { msg_type @lengthOf(  body ) `crlf
line` ,repeat
    packetx `say ""hi""`
// c
//
, o ,} , } , repeat int8 f32a `{ , }` // @lengthOf(
, Z9_
// packet A { u8 x, }
// trailing space 
, body , match tag as
    //
    zchar{10 :
lengthOf , 10
    : i64_ ,65535:len , 1 :
msg_type,	""\n""	: Foo , 10:
zchar
    ,
}
,repeat lengthOf {// `tick` ""quote"" 'q'
int64 lengthOf @calculatedFrom(""packet"" ) ,
    repeat calculatedFrom
    A , repeat char uint8x
,
    As	{	stringy
    // " ++ [128512]%N ++ runes_of_ascii " emoji
    `it's` ,	} , } // trailing space 
,
    //x
    }
")).
Eval vm_compute in ("<<<M3525>>>" ++ check (runes_of_ascii "  options 
{ StringPrefixLenType = u32;
    ArrayPrefixLenType	=
u8  ;	FixedStringPadFromLeft
=  false

    ;	}packet Logon {
	i8
    venue	, int16
f1

    , 
zchar[
	8 ] Acct

    ,

repeat

    InNote16

{  InQty73  {
float32
    tag7  ,  }, 
f32 Acct
	, zchar[
	5  ]
sym

,
}
,
    uint16  Side2	, i32
	lastPx, } packet

    Fill
	{ repeat
InOrderid15  { zchar[

    8
]
sym ,	repeat
	char[  2 ]
OrderId
	,	repeat Logon  , InQty82 {char[]

Tail,

    repeat
    Logon 
,	float64 price,f64 Side2 , }
, char[
    12 ] venue
,	char[
4  ]

Px 
, 
} ,@rightPad ('0' 
) char[
    2
]  venue,	InPrice99
	{
	InAcct72{
	u8 pad0	,  }  ,
    u32

    OrderId
,
	Logon
	,	}
, } root  packet
Reject

{
    zchar[	9

]	msgKind,

u32

venue ,  u16
	seqNo@lengthOf(

Body), match

    venue
	as  Body {
57
	:
	Fill	,
	8
	: Logon ,

    },u16
Tail @calculatedFrom(
""CRC32"") 
,
}
")).
Eval vm_compute in ("<<<M1029>>>" ++ check (runes_of_ascii "packet
T  { }
    root packet BodyLength{ match falsey
as MetaDataX {
[ 4294967296 ]	: _x ,// @lengthOf(
00: options1 [
    007  , // `tick` ""quote"" 'q'
65535 , ""CRC32"" // " ++ [128512]%N ++ runes_of_ascii " emoji
] : i64_ ,
} , @leftPad
()
    metadata `doc` //x
,
Z9_ { repeat  float32	lengthOf
, packetx { uint16  zchar@calculatedFrom(""" ++ [28040; 24687]%N ++ runes_of_ascii """) ,
}
,
} , @tag(
7) uint32
    metadata@calculatedFrom( ""{,}""
) , char[  65535 ]string_ `a\`
,	}packet zchar
{trueish
    `crlf
line`
    ,	@tag(00 ) float Pad// c
, int16 //x
options1 @calculatedFrom( ""a\\"" )	, @calculatedFrom( ""x y""
)  @lengthOf(string_ )metadata @calculatedFrom( ""`tick`""
)`crlf
line` , crc
    // trailing space 
    packetx `crlf
line` ,	metadata
// a // b
// a // b
packetx`// not a comment`
, i8 u128
    //	t
    @lengthOf(	int ) , //	t
@rightPad
    (' '
)Header @lengthOf( leftPad ) `doc` ,i8i8 Header``
    , }")).
Eval vm_compute in ("<<<M164>>>" ++ check (runes_of_ascii "packet
    Logon
{
    repeat	char
MetaDataX `say ""hi""`,
@lengthOf(
packetx) char[] repeatCount// `tick` ""quote"" 'q'
`doc` , @leftPad (
    '0' )@tag(
7 ) Header@calculatedFrom(
    """" // " ++ [128512]%N ++ runes_of_ascii " emoji
)	,
@lengthOf(
    /// triple
    MetaDataX
) match // trailing space 
x
//
// trailing space 
as Header
// trailing space 
//	t
{ ""x y"" : u8x // trailing space 
,
""" ++ [128512]%N ++ runes_of_ascii """
: /// triple
charz , """ ++ [233]%N ++ runes_of_ascii "t" ++ [233]%N ++ runes_of_ascii """
:// packet A { u8 x, }
_x,[ 3 , // " ++ [27880; 37322]%N ++ runes_of_ascii "
00
    ] :  uint8x , ""it's"" //	t
:// `tick` ""quote"" 'q'
rootA[
    00
    ,  65535//x
] :
    zchar }
    ,@calculatedFrom( ""// no comment"" )int32 i64_,
repeat// " ++ [128512]%N ++ runes_of_ascii " emoji
body {zchar[
    10  ]
BodyLength `line1
line2` , lengthOf Logon
, // @lengthOf(
repeat
    float64	i8i8 ,char[0123456789]leftPad // `tick` ""quote"" 'q'
`
` ,	}
    ,  repeat char[ 255
    //
    ] a1`" ++ [28040; 24687; 31867; 22411]%N ++ runes_of_ascii "`, } 	 ")).
Eval vm_compute in ("<<<M130>>>" ++ check (runes_of_ascii "
packet
    o {// trailing space 
body {
string options1@lengthOf(int ) ,
    // " ++ [27880; 37322]%N ++ runes_of_ascii "
    repeat u
{ match  tag
    as
BodyLength { [	""" ++ [128512]%N ++ runes_of_ascii """
, /// triple
""`tick`"" ,
    // @lengthOf(
    ""packet"" ,
""a\\"" ,65535
, 0123456789 // trailing space 
]: u
// `tick` ""quote"" 'q'
// c
""a\\"" : rootA ,
    """ ++ [128512]%N ++ runes_of_ascii """: Foo 3
:  uint8x ,	} , match leftPad as // `tick` ""quote"" 'q'
a1
    {1 : //	t
Header
,
}
, },
    }
,
    chars , repeatCount body
//	t
// " ++ [128512]%N ++ runes_of_ascii " emoji
`a\` ,}	packet metadata {
@rightPad ('0' // " ++ [27880; 37322]%N ++ runes_of_ascii "
)
@leftPad
( //x
'0' ) @calculatedFrom( ""packet"") match o as	Logon{ """"
: A, [
    007// c
, 7  , 1
, """"// trailing space 
,  42, ""a	b""]  :	A	""it's"" :
    _x,  },@lengthOf(//x
Header
)char[  3 ] i8i8@lengthOf( int )	,char[]Packet @calculatedFrom( ""a	b"")
, leftPad ,
    }packet charz { }")).
Eval vm_compute in ("<<<M633>>>" ++ check (runes_of_ascii "packet u{ uint64
    u8x , @leftPad (
'0' )u16
uint8x@lengthOf( T
    ), @lengthOf(
// `tick` ""quote"" 'q'
// `tick` ""quote"" 'q'
lengthOf) @lengthOf( msg_type)u16
tag @calculatedFrom(""a\""b""
    )
    // a // b
    `crlf
line` ,
} packet As {@calculatedFrom( ""a\\"")u128 { int16
string_
    // c
    @lengthOf( Header ) , repeat i64_ `{ , }`,
    },/// triple
} root packet
    roots { @calculatedFrom( //	t
""`tick`"" ) i32 Header `" ++ [233]%N ++ runes_of_ascii "` ,int8 T ,  @rightPad
( ' ' ) u32
    charz`doc`, char[ 65535 ]f32a
    , metadata,
}  MetaData T { u8x roots
`it's` ,
options1 MetaDataX , int32 f32a , } options { // trailing space 
f32a = '0' Pad =
//x
// trailing space 
0123456789 ;
    repeatCount
    // a // b
    = char[] x_y_z
//x
// " ++ [27880; 37322]%N ++ runes_of_ascii "
=
'\x00'
}
")).
Eval vm_compute in ("<<<M962>>>" ++ check (runes_of_ascii "  MetaData
stringy{ Packet
    falsey `" ++ [28040; 24687; 31867; 22411]%N ++ runes_of_ascii "`
, }
packet Foo
{@lengthOf(i8i8 ) zchar[ 10 ]
    chars // a // b
`{ , }`,	@calculatedFrom( ""1"") char[ 007 // " ++ [27880; 37322]%N ++ runes_of_ascii "
] x ,@lengthOf(  int
    )  zchar[10] string_ `two words` , repeat repeatCount { u32
len // c
, T
rootA , char[ 7 ] falsey @lengthOf( crc ),
// " ++ [128512]%N ++ runes_of_ascii " emoji
// packet A { u8 x, }
int16// `tick` ""quote"" 'q'
BodyLength
    // a // b
    , } ,packetx @lengthOf(	u
// c
// @lengthOf(
) ,zchar[
3 ] chars // c
, float32
x_y_z `{ , }` ,@calculatedFrom( ""1"")
    uint16 trueish@calculatedFrom(""" ++ [128512]%N ++ runes_of_ascii """)
    `line1
line2`,
Z9_ chars	, }root packet crc {	char[]	T ,	}
MetaData len  { uint16
uint8x , f64 string_`" ++ [28040; 24687; 31867; 22411]%N ++ runes_of_ascii "` ,
char[]
i8i8`// not a comment`
    ,}")).
Eval vm_compute in ("<<<M326>>>" ++ check (runes_of_ascii "options {
a1 = '\x00';Pad=
char[007 ] ;
} MetaData o{
zchar[  42] crc ,
} /// triple
packet matchKey { @lengthOf( u ) @tag(	65535 )
i8i8
    `// not a comment`,match
    u128 as msg_type
{10 : //	t
zchar
    0 : lengthOf ,3
:uint8x
, ""x y"" :
msg_type , 255  :
matchKey , } ,char[  3 //
] // trailing space 
As `a\`,
@lengthOf( // c
calculatedFrom) match //	t
chars
as u128{
    // packet A { u8 x, }
    [""a	b"" , 00/// triple
] :
zchar , // `tick` ""quote"" 'q'
7 : leftPad [255 // @lengthOf(
,
""x y""
, 4294967296
    //	t
    ,	0 ,
    //
    3
// a // b
//x
] :
    Packet, // `tick` ""quote"" 'q'
[ """ ++ [128512]%N ++ runes_of_ascii """
] : body ,
    """ ++ [28040; 24687]%N ++ runes_of_ascii """
:
    Z9_ , }
,
} options { }
")).
Eval vm_compute in ("<<<M3938>>>" ++ check (runes_of_ascii "  // top
    packet
    // c0
Sub// c1
		{  // c2a
	  // c2b
u8  // c3a
		// c3b

  a // c4a
  // c4b
  ,
	@calculatedFrom(
// c6
  ""CRC16""
    ) 
      // c8
	i16// c9a
	  // c9b
      SubSum// c10
  ,

}	// c12
	root// c13a
	// c13b

packet
Frame 
  // c15
{u16 // c17a
// c17b
    MsgType ,
        // c19
	u16  // c20a
    // c20b
		BodyLen
    // c21
		@lengthOf(
    // c22
Body  // c23
	),	// c25a

	// c25b
      Sub
    // c26
	Body
, 
string // c29
  note

,	// c31

@calculatedFrom( 
    // c32
		""CRC16""
    )  // c34a
    // c34b
i16
    Checksum,// c37
    u8	tail 
// c39
,// c40a
	// c40b
    }
")).
Eval vm_compute in ("<<<M3939>>>" ++ check (runes_of_ascii "// a // b
packet matchKey {
    @rightPad(' ')
    @tag(007)
    @lengthOf(float)
    repeat packetx,
    @calculatedFrom(""a\""b"")
    @tag(255)
    @tag(00)
    Pad @calculatedFrom(""" ++ [28040; 24687]%N ++ runes_of_ascii """) `{ , }`,
}

root packet string_ {
    repeat Logon {
        match Z9_ as float {
            ""packet"" : packetx,
            [42, 00, ""CRC32"", ""packet""] : Foo,
            """ ++ [28040; 24687]%N ++ runes_of_ascii """ : BodyLength,
            [""CRC32""] : x_y_z,
            00 : packetx,
            7 : rootA,
        },
    },
    repeat metadata {
        u16 Logon `
        `,
        matchKey @calculatedFrom(""""),
        repeat char[] leftPad,
    },
}")).
Eval vm_compute in ("<<<M3778>>>" ++ check (runes_of_ascii "

  root 
packet	T

{
@calculatedFrom(
""it's"")  repeat  
  // @lengthOf(
u64 x_y_z,

    u64 
f32a 
      // " ++ [128512]%N ++ runes_of_ascii " emoji
`say ""hi""`

, repeat u32
    u8x //	t
  	,
@lengthOf( calculatedFrom
	)match

u as	T //x
  	{

    1 
: Pad

    ,

    42

:
	Z9_ [
1 ]  :
o	, 
}
    , uint8
uint8x@lengthOf(Logon)

, }
	// `tick` ""quote"" 'q'
  // @lengthOf(
  packet
    string_ {
	len,
	char[]pack @calculatedFrom( ""a\""b"" )  , len
    @lengthOf( _x)
`say ""hi""`

    ,@lengthOf(  rootA

    )

    @tag(

    4294967296
    ) len
a1 , @tag(
	7
	) u16 T
,} //	t
")).
Eval vm_compute in ("<<<M690>>>" ++ check (runes_of_ascii "packet Z9_	{a1,
}root packet crc
    {
/// triple
// trailing space 
u32 o@calculatedFrom( ""it's""
)
,
    float32
lengthOf  , zchar[4294967296
    //	t
    ] repeatCount @lengthOf( MetaDataX ) `{ , }` ,//
@rightPad ( '0'
// packet A { u8 x, }
// c
) body {
string Packet
`tab	here` ,}
    ,	repeat i8i8 {match
BodyLength as Foo{ 7 : f32a , 42
    : A ""packet"" : uint8x , [ ""a\\"" ]
    // a // b
    :  u8x	, ""it's"" : As
, } , repeat zchar[ 65535 ] crc , char[]
chars `a\`
    ,}//	t
,  char[ 4294967296 ]	repeatCount `two words`,
    }")).
Eval vm_compute in ("<<<M549>>>" ++ check (runes_of_ascii "packet int	{ @lengthOf( body
) @leftPad
    // @lengthOf(
    ( )@lengthOf( pack ) u32 o , int32
// c
// packet A { u8 x, }
u8x
    , @calculatedFrom(""a\\"" // @lengthOf(
)x
chars	,//	t
@tag( 65535) charz
{  msg_type u128 , } ,Pad charz ,repeat len { zchar[ 0
] roots `doc`, char[ 7
    ] o `a\` ,
repeat int64 pack
    ,
} ,  @rightPad	( ' ' // c
) repeat
options1	{
    /// triple
    zchar[ 3 ] Foo ,
char[
    7 ]
x_y_z
    @calculatedFrom(
/// triple
//	t
""a\""b"" ) ,
repeat
packetx , }//x
, }
")).
Eval vm_compute in ("<<<M562>>>" ++ check (runes_of_ascii "MetaData	Z9_
    { char[ 00 ] i64_ `say ""hi""` ,
char
Foo
, char[	10 ] uint8x ,zchar[ 65535 ]
    float // @lengthOf(
`// not a comment` , f32
body `two words` , //x
i32
    body
    `{ , }` //	t
,
    } root
// trailing space 
// trailing space 
packet// @lengthOf(
i64_{
    // @lengthOf(
    }
MetaData options1 { i64 i8i8
`" ++ [28040; 24687; 31867; 22411]%N ++ runes_of_ascii "` , Logon metadata
    `tab	here` , i64_ calculatedFrom // c
`" ++ [28040; 24687; 31867; 22411]%N ++ runes_of_ascii "`	,}
options
{
charz=
""a\""b"" ;
chars = ' ' ; Header = 10 ;  i64_ =""\n"" ;	}
")).
Eval vm_compute in ("<<<M179>>>" ++ check (runes_of_ascii "  packet
    body
//x
/// triple
{ } packet Foo {int @lengthOf( x
    ) , float32 len
    `" ++ [28040; 24687; 31867; 22411]%N ++ runes_of_ascii "`, repeat f32a Packet ,	i8 // @lengthOf(
stringy
/// triple
// trailing space 
@calculatedFrom(""// no comment"" )
`line1
line2`
    ,
@tag( 0
    // a // b
    ) match  u
    as
    falsey
    //
    { [ 10 , 3, ""`tick`"" , 42	, 3// `tick` ""quote"" 'q'
]
    : Pad  ,
7 : repeatCount// c
, 0 :
    Foo}, }MetaData Packet { string// c
u , }options { uint8x = true
; }
")).
Eval vm_compute in ("<<<M1130>>>" ++ check (runes_of_ascii "packet
matchKey
{
    repeat matchKey,	@rightPad(
)uint64 i64_ @calculatedFrom(""1"" )`crlf
line`
// trailing space 
//	t
, repeat	crc crc, // c
roots
// " ++ [27880; 37322]%N ++ runes_of_ascii "
// packet A { u8 x, }
{ string lengthOf `doc` , }
, i16	pack , Foo , u128 { repeat
uint8 T ,} ,
string	Packet ,  uint64
f32a
@calculatedFrom( ""\" ++ [233]%N ++ runes_of_ascii """ ) , repeat
    T{
u64 roots@calculatedFrom( ""CRC32"" ) `// not a comment` ,
    int16 msg_type ,stringy trueish  , repeat
    T
float
, } , }")).
Eval vm_compute in ("<<<M163>>>" ++ check (runes_of_ascii "
packet
    float {
    char[ 00 ] u8x ,	}
packet // " ++ [128512]%N ++ runes_of_ascii " emoji
A // @lengthOf(
{ string
i8i8 , A //x
@calculatedFrom(
""a	b"" ) `a\`, @tag( 1 )
    chars	@lengthOf( Pad ) `u8 x,`
    , /// triple
match repeatCount as stringy { 42 :
x
3: // @lengthOf(
tag, [ 00 , 0123456789
] : packetx , [ """ ++ [28040; 24687]%N ++ runes_of_ascii """	, ""packet""
]: string_ , }	,
}options // @lengthOf(
{ i8i8= """ ++ [233]%N ++ runes_of_ascii "t" ++ [233]%N ++ runes_of_ascii """ Foo
    = false
    // packet A { u8 x, }
    ;  Pad =
' '
    ;}")).
Eval vm_compute in ("<<<M595>>>" ++ check (runes_of_ascii "root packet
    body { // `tick` ""quote"" 'q'
x_y_z @calculatedFrom(
""\" ++ [233]%N ++ runes_of_ascii """  ) `" ++ [233]%N ++ runes_of_ascii "` ,
@lengthOf( stringy ) asx `crlf
line` , @calculatedFrom(""{,}"")	float { repeat chars `doc` ,
} , }root
    // packet A { u8 x, }
    packet trueish // " ++ [27880; 37322]%N ++ runes_of_ascii "
{ uint8x `tab	here`
    , @calculatedFrom(
    ""it's"" )
    u16 trueish `{ , }`
, @lengthOf( // " ++ [128512]%N ++ runes_of_ascii " emoji
stringy )
i8i8{ u16 MetaDataX``, string matchKey ,
    //	t
    }  ,}
")).
Eval vm_compute in ("<<<M105>>>" ++ check (runes_of_ascii "
MetaData u8x {
    packetx
    len `crlf
line`
    ,char[
255
] calculatedFrom `" ++ [28040; 24687; 31867; 22411]%N ++ runes_of_ascii "` , float64  MetaDataX // `tick` ""quote"" 'q'
`say ""hi""` ,BodyLength
// `tick` ""quote"" 'q'
// trailing space 
charz
`crlf
line`// a // b
,
}packet lengthOf{
    //	t
    @tag( 4294967296 ) uint8x @calculatedFrom(
    ""\n"" ) `" ++ [28040; 24687; 31867; 22411]%N ++ runes_of_ascii "` ,
    char calculatedFrom	@calculatedFrom(
""" ++ [28040; 24687]%N ++ runes_of_ascii """) // " ++ [27880; 37322]%N ++ runes_of_ascii "
`two words` , }
")).
Eval vm_compute in ("<<<M4406>>>" ++ check (runes_of_ascii "

  root
packet float{

char[]

    metadata	`two words` ,	match	u128 
as leftPad 	 // packet A { u8 x, }
	{ ""packet""	// c
	:
f32a
	,	}
	,  i64
	MetaDataX
    @lengthOf(options1 
)	,
zchar[
00] 
        // @lengthOf(
  //

Logon , @lengthOf( falsey  )  char[  00] 
i64_ ,

    @lengthOf(
Pad
    )
u32
Pad `tab	here`
	,
uint8 
metadata
	,// packet A { u8 x, }
}
")).
Eval vm_compute in ("<<<M260>>>" ++ check (runes_of_ascii "// " ++ [27880; 37322]%N ++ runes_of_ascii "
packet tag { repeat i64_
/// triple
// @lengthOf(
{
zchar[007 ]  Logon@calculatedFrom( ""packet""
    ) , repeat char[]leftPad `a\`
    ,
    zchar[ 3
] float , }, }packet pack //
{
    repeat i8
    len `
` ,
    }
root packet uint8x
    { // packet A { u8 x, }
@leftPad
() @calculatedFrom( ""a\\""
    ) @rightPad ( '\x00') repeat char[	0
]
T,
    } //	t")).
Eval vm_compute in ("<<<M4111>>>" ++ check (runes_of_ascii "packet len {
    repeat crc,
    zchar[7] roots `" ++ [233]%N ++ runes_of_ascii "`,
    u {
        string_ x_y_z,
    },
}

root packet len {
    falsey `a\`,
    @rightPad(' ')
    @rightPad()
    @tag(007)
    repeat float {
        msg_type `" ++ [28040; 24687; 31867; 22411]%N ++ runes_of_ascii "`,
        int8 i8i8 `say ""hi""`,
        match u128 as crc {
            007 : tag,
        },
        char[] As `it's`,
    },
}")).
Eval vm_compute in ("<<<M285>>>" ++ check (runes_of_ascii "
MetaData o// a // b
{ u32 string_, char[]a1
`crlf
line` , int8 options1 ,
} packet
    Foo{ @lengthOf( matchKey )f32 f32a ,
@tag(0 ) // @lengthOf(
match MetaDataX as trueish { //	t
255 : T ,	4294967296 : pack
    // a // b
    ,	3 :falsey ,
""1"" :uint8x ,7
    : u128 4294967296 :
    // " ++ [27880; 37322]%N ++ runes_of_ascii "
    MetaDataX
, } , i32 //
roots
, }")).
Eval vm_compute in ("<<<M4484>>>" ++ check (runes_of_ascii "options {
    x_y_z = ""x y"";
}

// " ++ [27880; 37322]%N ++ runes_of_ascii "
packet int {
    @calculatedFrom(""\" ++ [233]%N ++ runes_of_ascii """)
    match MetaDataX as o {
        // c
        4294967296 : o,
    },
}

MetaData asx {
    As u8x `// not a comment`,
    char[] string_ `doc`,
    i64_ Z9_,
    i16 leftPad `it's`,
    u16 BodyLength `// not a comment`,
    lengthOf len,
}")).
Eval vm_compute in ("<<<M4291>>>" ++ check (runes_of_ascii "packet crc // " ++ [27880; 37322]%N ++ runes_of_ascii "
{ zchar[ 
0123456789 ]

    A

    `say ""hi""`, 
repeat
char[
255
	]u,zchar
	`// not a comment` 	 //
		,  }
    packet
	uint8x	{ int16
Packet

,

repeat uint8x

    { asx
	lengthOf

, // @lengthOf(

  char[

    0123456789 ]// packet A { u8 x, }
  asx`line1
line2`
	,
    }
,}
")).
Eval vm_compute in ("<<<M1475>>>" ++ check (runes_of_ascii "root packet Foo // " ++ [128512]%N ++ runes_of_ascii " emoji
{ } options {
    // a // b
    tag // `tick` ""quote"" 'q'
= //	t
""""
    ; u8x = zchar[ zchar[0  ] }
MetaData
    int {zchar[ 10]
lengthOf	`` , i64 u8x`// not a comment` ,MetaDataX pack// `tick` ""quote"" 'q'
`crlf
line`
, Logon charz `crlf
line`
    ,
    // a // b
    }
")).
Eval vm_compute in ("<<<M1515>>>" ++ check (runes_of_ascii "root packet Foo // " ++ [128512]%N ++ runes_of_ascii " emoji
{ } options {
    // a // b
    tag // `tick` ""quote"" 'q'
= //	t
""""
    ; u8x = zchar[0  ] }
MetaData
    int {zchar[ 10 10]
lengthOf	`` , i64 u8x`// not a comment` ,MetaDataX pack// `tick` ""quote"" 'q'
`crlf
line`
, Logon charz `crlf
line`
    ,
    // a // b
    }
")).
Eval vm_compute in ("<<<M1616>>>" ++ check (runes_of_ascii "root packet Foo // " ++ [128512]%N ++ runes_of_ascii " emoji
{ } options {
    // a // b
    tag // `tick` ""quote"" 'q'
= //	t
""""
    ; u8x = zchar[0  ] }
MetaData
    int {zchar[ 10]
lengthOf	`` , i64 u8x`// not a comment` ,MetaDataX % pack// `tick` ""quote"" 'q'
`crlf
line`
, Logon charz `crlf
line`
    ,
    // a // b
    }
")).
Eval vm_compute in ("<<<M1486>>>" ++ check (runes_of_ascii "root packet Foo // " ++ [128512]%N ++ runes_of_ascii " emoji
{ } options {
    // a // b
    tag // `tick` ""quote"" 'q'
= //	t
""""
    ; u8x = zchar[0  } ]
MetaData
    int {zchar[ 10]
lengthOf	`` , i64 u8x`// not a comment` ,MetaDataX pack// `tick` ""quote"" 'q'
`crlf
line`
, Logon charz `crlf
line`
    ,
    // a // b
    }
")).
Eval vm_compute in ("<<<M1459>>>" ++ check (runes_of_ascii "root packet Foo // " ++ [128512]%N ++ runes_of_ascii " emoji
{ } options {
    // a // b
    tag // `tick` ""quote"" 'q'
= //	t
""""
     u8x = zchar[0  ] }
MetaData
    int {zchar[ 10]
lengthOf	`` , i64 u8x`// not a comment` ,MetaDataX pack// `tick` ""quote"" 'q'
`crlf
line`
, Logon charz `crlf
line`
    ,
    // a // b
    }
")).
Eval vm_compute in ("<<<M1572>>>" ++ check (runes_of_ascii "root packet Foo // " ++ [128512]%N ++ runes_of_ascii " emoji
{ } options {
    // a // b
    tag // `tick` ""quote"" 'q'
= //	t
""""
    ; u8x = zchar[0  ] }
MetaData
    int {zchar[ 10]
lengthOf	`` , i64 u8x`// not a comment` ,MetaDataX pack// `tick` ""quote"" 'q'
@rightPad
, Logon charz `crlf
line`
    ,
    // a // b
    }
")).
Eval vm_compute in ("<<<M341>>>" ++ check (runes_of_ascii "options { leftPad
    = 1
    ;	leftPad= char[]
    // c
    MetaDataX = false// @lengthOf(
u =
'\x00'roots =10
} packet
A { char[
    // packet A { u8 x, }
    10] o ,  match  a1 as T {
// @lengthOf(
//	t
65535 :	Z9_ 0 : _x ,} ,	}
    packet
    Foo {repeat i64_ `two words`//
, }
")).
Eval vm_compute in ("<<<M3896>>>" ++ check (runes_of_ascii "MetaData chars {
    char[] As `a\`,
}

packet repeatCount {
    repeat charz {
        char[00] Pad,
    },
    @calculatedFrom(""// no comment"")
    char[] matchKey `doc`,
    u64 T @lengthOf(int),
}

packet Header {
    @calculatedFrom(""a\""b"")
    char[65535] falsey,
}")).
Eval vm_compute in ("<<<M885>>>" ++ check (runes_of_ascii "packet//	t
u8x{
// `tick` ""quote"" 'q'
//x
Pad @lengthOf(
    _x
// " ++ [27880; 37322]%N ++ runes_of_ascii "
/// triple
)
,
    //	t
    }
// `tick` ""quote"" 'q'
// c
packet body
    { @rightPad ( '\x00'// `tick` ""quote"" 'q'
) asx`it's`, }packet u128 { } packet stringy { @rightPad
    ( ) chars, }
")).
Eval vm_compute in ("<<<M1317>>>" ++ check (runes_of_ascii "options
{
uint8x =""{,}""
// `tick` ""quote"" 'q'
// " ++ [128512]%N ++ runes_of_ascii " emoji
; } packet asx { match f32a
    as
    msg_type {
    ""{,}"":  int [ """ ++ [233]%N ++ runes_of_ascii "t" ++ [233]%N ++ runes_of_ascii """
,	""a\\"" ,3 ,
    """ ++ [128512]%N ++ runes_of_ascii """ , 1  , ""a\""b"" , """ ++ [128512]%N ++ runes_of_ascii """ ] : repeatCount ,}
, string Z9_
`{ , }`,
u128 {
char[] Packet
    , } ,//	t
}")).
Eval vm_compute in ("<<<M3956>>>" ++ check (runes_of_ascii "MetaData

Packet

{
}  packet	asx
{@lengthOf(
asx
	) falsey  `crlf
line` , }packet x
{uint32 	 // @lengthOf(

rootA	,

    u32 options1 `say " ++ [127]%N ++ runes_of_ascii """hi""`
    ,
    @tag( 
7
    ) 	 // packet A { u8 x, }
  msg_type  @lengthOf(	stringy	)
, }")).
Eval vm_compute in ("<<<M3885>>>" ++ check (runes_of_ascii "MetaData Packet {
}

packet asx {
    @lengthOf(asx)
    falsey `crlf
        line`,
}

packet x {
    // @lengthOf(
    rootA,
    u32 options1 `say ""hi""`,
    @tag(7)
    // packet A { u8 x, }
    msg_type @lengthOf(stringy),
}")).
Eval vm_compute in ("<<<M2356>>>" ++ check (runes_of_ascii "MetaData Packet { }packet	asx  { @lengthOf( asx) falsey`crlf
line`
,
    }
    packet x	{uint32// @lengthOf(
rootA	,u32 options1 `say ""hi""` , @tag( 7
    )// packet A { u8 x, }
msg_type @lengthOf(
stringy stringy	)	, }

")).
Eval vm_compute in ("<<<M2236>>>" ++ check (runes_of_ascii "MetaData Packet { }packet	asx asx  { @lengthOf( asx) falsey`crlf
line`
,
    }
    packet x	{uint32// @lengthOf(
rootA	,u32 options1 `say ""hi""` , @tag( 7
    )// packet A { u8 x, }
msg_type @lengthOf(
stringy	)	, }

")).
Eval vm_compute in ("<<<M4473>>>" ++ check (runes_of_ascii "root packet Foo {
}

options {
    // a // b
    tag = """";
    u8x = zchar[0]
}

MetaData int {
    zchar[10] lengthOf ``,
    i64 u8x,
    MetaDataX pack `crlf
        line`,
    Logon charz `crlf
        line`,
}")).
Eval vm_compute in ("<<<M2272>>>" ++ check (runes_of_ascii "MetaData Packet { }packet	asx  { @lengthOf( asx) falsey`crlf
line`
}
    ,
    packet x	{uint32// @lengthOf(
rootA	,u32 options1 `say ""hi""` , @tag( 7
    )// packet A { u8 x, }
msg_type @lengthOf(
stringy	)	, }

")).
Eval vm_compute in ("<<<M2290>>>" ++ check (runes_of_ascii "MetaData Packet { }packet	asx  { @lengthOf( asx) falsey`crlf
line`
,
    }
    packet x	uint32// @lengthOf(
rootA	,u32 options1 `say ""hi""` , @tag( 7
    )// packet A { u8 x, }
msg_type @lengthOf(
stringy	)	, }

")).
Eval vm_compute in ("<<<M1259>>>" ++ check (runes_of_ascii "packet
x_y_z//x
{@tag(	0123456789
    )match // " ++ [27880; 37322]%N ++ runes_of_ascii "
T	as	roots
{ 255 : asx ,[
    1
    //x
    ,
    3 , ""`tick`"" ] : Header 3
    :
    pack// " ++ [128512]%N ++ runes_of_ascii " emoji
},u64  a1/// triple
`tab	here`
,
_x options1`{ , }` ,
}")).
Eval vm_compute in ("<<<M2323>>>" ++ check (runes_of_ascii "MetaData Packet { }packet	asx  { @lengthOf( asx) falsey`crlf
line`
,
    }
    packet x	{uint32// @lengthOf(
rootA	,u32 options1 { , @tag( 7
    )// packet A { u8 x, }
msg_type @lengthOf(
stringy	)	, }

")).
Eval vm_compute in ("<<<M4454>>>" ++ check (runes_of_ascii "MetaData x {
    Foo Header,
    char[0123456789] len,
    int64 i64_,
    char[42] i8i8,
    i16 pack,
    int64 u8x `it's`,
}

packet pack {
    @calculatedFrom(""// no comment"")
    len matchKey,
}")).
Eval vm_compute in ("<<<M1376>>>" ++ check (runes_of_ascii "packet _x
{ repeat packetx {match Pad
    as
// c
// a // b
roots {""// no comment"" :
    tag
,[ """ ++ [233]%N ++ runes_of_ascii "t" ++ [233]%N ++ runes_of_ascii """, ""\" ++ [233]%N ++ runes_of_ascii """
    ]:	As	,3	:  options1 ,3 : charz ,
    } , //
} , repeat
    Foo`line1
line2`, }")).
Eval vm_compute in ("<<<M932>>>" ++ check (runes_of_ascii "packet //x
roots
    { @rightPad(
    '\x00'// a // b
)
o Z9_ ,
@tag( 00 )  @tag(1
    // trailing space 
    ) @lengthOf( MetaDataX ) Z9_@calculatedFrom( // @lengthOf(
""x y"" )	,}
")).
Eval vm_compute in ("<<<M1203>>>" ++ check (runes_of_ascii "packet i8i8
    { int64	BodyLength	@calculatedFrom( ""packet"")	,  @leftPad()
    zchar[ /// triple
1 ] calculatedFrom ,
    repeat
x_y_z , //	t
T A
, }MetaData
charz {
} // " ++ [27880; 37322]%N)).
Eval vm_compute in ("<<<M1074>>>" ++ check (runes_of_ascii "packet
f32a {
    }
    options { metadata = ' ' ; }
options { }packet a1
{ Foo { // " ++ [128512]%N ++ runes_of_ascii " emoji
repeat zchar[00	]
_x
,
}  ,
    }
MetaData Pad  {
u16 u `tab	here`,	}")).
Eval vm_compute in ("<<<M1249>>>" ++ check (runes_of_ascii "  options {  falsey =	u8
;	metadata = ' ' leftPad = int64 ; lengthOf
=
    255 string_= // packet A { u8 x, }
""a\""b"" ; } MetaData //
uint8x	{ u32
zchar , //x
}")).
Eval vm_compute in ("<<<M3732>>>" ++ check (runes_of_ascii "// @lengthOf(
MetaData u {
    char[] float,
    u8 leftPad `
        `,
    metadata string_,
    char[] Header,
    zchar[0123456789] a1 `
        `,
}")).
Eval vm_compute in ("<<<M1097>>>" ++ check (runes_of_ascii "packet	calculatedFrom
{
@lengthOf(body)
    @tag(0123456789)
@calculatedFrom(
// trailing space 
// a // b
""" ++ [128512]%N ++ runes_of_ascii """ ) options1 `// not a comment` , }
")).
Eval vm_compute in ("<<<M4408>>>" ++ check (runes_of_ascii "

  root  packet 

    // c1
	  P

{
    // c3
    	repeat

string  ss 
,  // c7

repeat 	 // c8
u16 // c9
      ns 
      // c10
	,}// c12")).
Eval vm_compute in ("<<<M200>>>" ++ check (runes_of_ascii "
root packet	f32a {char[]x_y_z `doc` ,@calculatedFrom(	""CRC32""
) A tag `u8 x,`
,
int , } options { Packet =""1""
    ; } options {  } 	 ")).
Eval vm_compute in ("<<<M4186>>>" ++ check (runes_of_ascii "root packet pack {
    @calculatedFrom(""it's"")
    //
    zchar[0123456789] packetx @calculatedFrom(""CRC32""),
    char[] BodyLength,
}")).
Eval vm_compute in ("<<<M3707>>>" ++ check (runes_of_ascii "packet A {
    match k as n {
        [
            007, 66, ""a"", ""bb"", ""d"",
            ""e""
        ] : B,
        2 : C,
    },
}")).
Eval vm_compute in ("<<<M1631>>>" ++ check (runes_of_ascii "root rootA /// triple
packet {	i32
MetaDataX@calculatedFrom( ""CRC32"" ) `line1
line2` , } MetaData BodyLength {
u8
rootA, } // c")).
Eval vm_compute in ("<<<M1736>>>" ++ check (runes_of_ascii "root packet /// triple
" ++ [252]%N ++ runes_of_ascii "ber {	i32
MetaDataX@calculatedFrom( ""CRC32"" ) `line1
line2` , } MetaData BodyLength {
u8
rootA, } // c")).
Eval vm_compute in ("<<<M3630>>>" ++ check (runes_of_ascii "packet  o	{ @tag( 
42 )repeat
x
{

    char[

    0123456789

]
    i64_

    ,  }	,
        // c
  }
options { 
}

")).
Eval vm_compute in ("<<<M1629>>>" ++ check (runes_of_ascii "root  /// triple
rootA {	i32
MetaDataX@calculatedFrom( ""CRC32"" ) `line1
line2` , } MetaData BodyLength {
u8
rootA, } // c")).
Eval vm_compute in ("<<<M3699>>>" ++ check (runes_of_ascii "
packet
    x { 	 //
	  Header 
, repeat float32  i8i8
,
	    // `tick` ""quote"" 'q'
		// packet A { u8 x, }
    	}

")).
Eval vm_compute in ("<<<M1843>>>" ++ check (runes_of_ascii "packet
    Pad // a // b
{ i8i8 @calculatedFrom( ""a	b"") `u8 x,` ,
} options{ repeat// " ++ [128512]%N ++ runes_of_ascii " emoji
= f64 i64_
=//	t
00 }
")).
Eval vm_compute in ("<<<M1847>>>" ++ check (runes_of_ascii "packet
    Pad // a // b
{ i8i8 @calculatedFrom( ""a	b"") `u8 x,` ,
} options{ float// " ++ [128512]%N ++ runes_of_ascii " emoji
f64 = i64_
=//	t
00 }
")).
Eval vm_compute in ("<<<M624>>>" ++ check (runes_of_ascii "packet Packet { uint8 options1	`a\` ,@rightPad
    (
    '0') u16 // packet A { u8 x, }
x_y_z
    `crlf
line` ,
}
")).
Eval vm_compute in ("<<<M1028>>>" ++ check (runes_of_ascii "MetaData int	{i64_ calculatedFrom , As
    //
    a1 `it's` ,u64  string_`two words` , repeatCount//
Pad
,
    }
")).
Eval vm_compute in ("<<<M1223>>>" ++ check (runes_of_ascii "packet options1
    {zchar[ 007
]f32a
    @lengthOf(
    //
    msg_type )
// `tick` ""quote"" 'q'
// " ++ [128512]%N ++ runes_of_ascii " emoji
,}")).
Eval vm_compute in ("<<<M1869>>>" ++ check (runes_of_ascii "packet
    Pad // a // b
{ i8i8 @calculatedFrom( ""a	b"") `u8 x,` ,
} options{ float// " ++ [128512]%N ++ runes_of_ascii " emoji
= f64 i64_
=")).
Eval vm_compute in ("<<<M3375>>>" ++ check (runes_of_ascii "packet calculatedFrom { @tag( 4294967296 ) u msg_type , char[ 3 ] crc @lengthOf( len ) `u8 x,` , } // c
")).
Eval vm_compute in ("<<<M3357>>>" ++ check (runes_of_ascii "packet calculatedFrom { @tag( 4294967296 ) u msg_type , char[ // c
3 ] crc @lengthOf( len ) `u8 x,` , }")).
Eval vm_compute in ("<<<M2953>>>" ++ check (runes_of_ascii "packet A {
  match k as n {
    [""a"", ""bb"", ""c c"", ""d"", ""e"", ""f"", ""g"", ""h"", ""i""] : B
    2 : C
  },
}")).
Eval vm_compute in ("<<<M4268>>>" ++ check (runes_of_ascii "

  options {
	LittleEndian	=

    true;	} root
packet
    P 
{ repeat
char  cs,
u8  x
    , }
")).
Eval vm_compute in ("<<<M586>>>" ++ check (runes_of_ascii "options {charz=//	t
""" ++ [28040; 24687]%N ++ runes_of_ascii """rootA= '0'//	t
trueish=  ""// no comment""; }
options { body
=
char[] }
")).
Eval vm_compute in ("<<<M3239>>>" ++ check (runes_of_ascii "packet Logon { @tag( 42 ) @rightPad ( ' ' ) @leftPad (
// c
) repeat trueish { string T , } , }")).
Eval vm_compute in ("<<<M2971>>>" ++ check (runes_of_ascii "packet A {
  match k as n {
    [1, 22, ""c c"", 4, 5, ""f"", 7, 8, ""i"", 10] : B,
    2 : C
  },
}")).
Eval vm_compute in ("<<<M3759>>>" ++ check (runes_of_ascii "packet o {
    @tag(42)
    repeat x {
        char[0123456789] i64_,
    },
}

options {
}")).
Eval vm_compute in ("<<<M1969>>>" ++ check (runes_of_ascii "root
packet `" ++ [28040; 24687; 31867; 22411]%N ++ runes_of_ascii "`
    { f32a @calculatedFrom( """ ++ [233]%N ++ runes_of_ascii "t" ++ [233]%N ++ runes_of_ascii """ )
    `say ""hi""`, lengthOf `` ,  }")).
Eval vm_compute in ("<<<M2031>>>" ++ check (runes_of_ascii "root
packet crc
    { f32a @calculatedFrom( """ ++ [233]%N ++ runes_of_ascii "t" ++ [233]%N ++ runes_of_ascii """ )
 $   `say ""hi""`, lengthOf `` ,  }")).
Eval vm_compute in ("<<<M2018>>>" ++ check (runes_of_ascii "root
packet crc
    { f32a @calculatedFrom( """ ++ [233]%N ++ runes_of_ascii "t" ++ [233]%N ++ runes_of_ascii """ )
    `say ""hi""`, lengthOf `` }  ,")).
Eval vm_compute in ("<<<M3051>>>" ++ check (runes_of_ascii "packet A {
    u32 crc @calculatedFrom(""x\
y""),
    @calculatedFrom(""x\
y"") u8 y,
}")).
Eval vm_compute in ("<<<M3298>>>" ++ check (runes_of_ascii "packet o { // c
@tag( 42 ) repeat x { char[ 0123456789 ] i64_ , } , } options { }")).
Eval vm_compute in ("<<<M3330>>>" ++ check (runes_of_ascii "packet o { @tag( 42 ) repeat x { char[ 0123456789 ] i64_ , } , } options { // c
}")).
Eval vm_compute in ("<<<M3001>>>" ++ check (runes_of_ascii "packet A { Inner { match k as n { [1,22,007,4,5,66,7,8,9,10,11,12] : B, }, }, }")).
Eval vm_compute in ("<<<M2713>>>" ++ check (runes_of_ascii "options repeat [ ] uint32 false match char[] @tag( MetaData string , float32")).
Eval vm_compute in ("<<<M4386>>>" ++ check (runes_of_ascii "packet A {
    match k as n {
        [1, 22] : B,
        2 : C,
    },
}")).
Eval vm_compute in ("<<<M2154>>>" ++ check (runes_of_ascii "root root
    // `tick` ""quote"" 'q'
    packet As { trueish Packet , }
")).
Eval vm_compute in ("<<<M3402>>>" ++ check (runes_of_ascii "MetaData _x { zchar[
// c
4294967296 ] lengthOf `// not a comment` , }")).
Eval vm_compute in ("<<<M802>>>" ++ check (runes_of_ascii "// `tick` ""quote"" 'q'
packet zchar{ repeat char[
    1 ] f32a  ``, }")).
Eval vm_compute in ("<<<M2206>>>" ++ check (runes_of_ascii "root
    // `tick` ""quote"" 'q'
    packet As { trueish P" ++ [127]%N ++ runes_of_ascii "acket , }
")).
Eval vm_compute in ("<<<M4011>>>" ++ check (runes_of_ascii "packet A {
    match k as n {
        1 : B,
        // d
    },
}")).
Eval vm_compute in ("<<<M362>>>" ++ check (runes_of_ascii "//x
MetaData msg_type
    {// a // b
uint32 pack
`tab	here`, }
")).
Eval vm_compute in ("<<<M2174>>>" ++ check (runes_of_ascii "root
    // `tick` ""quote"" 'q'
    packet As { as Packet , }
")).
Eval vm_compute in ("<<<M634>>>" ++ check (runes_of_ascii "  packet	As {char[ 42
]	o
`it's`
    // @lengthOf(
    ,  }")).
Eval vm_compute in ("<<<M1921>>>" ++ check (runes_of_ascii "
packet	As { @calculatedFrom(//x
""{,}""	) )lengthOf , } 	 ")).
Eval vm_compute in ("<<<M2859>>>" ++ check (runes_of_ascii "packet A {
  match k as n {
    [1] : B
    2 : C
  },
}")).
Eval vm_compute in ("<<<M518>>>" ++ check (runes_of_ascii "packet options1
{ @lengthOf(
x_y_z ) falsey , }
// c
")).
Eval vm_compute in ("<<<M3048>>>" ++ check (runes_of_ascii "MetaData M {
    u8 x `tab
	x`,
    T t `tab
	x`,
}")).
Eval vm_compute in ("<<<M1329>>>" ++ check (runes_of_ascii "packet As  {
//x
// " ++ [128512]%N ++ runes_of_ascii " emoji
repeat
char zchar , }")).
Eval vm_compute in ("<<<M4449>>>" ++ check (runes_of_ascii "packet
	A {

zchar[3]
    x@lengthOf(  y  )
	,
}")).
Eval vm_compute in ("<<<M1767>>>" ++ check ([233]%N ++ runes_of_ascii "options { }options {  } // `tick` ""quote"" 'q'")).
Eval vm_compute in ("<<<M2825>>>" ++ check (runes_of_ascii "@lengthOf( @calculatedFrom( MetaDataX i8 i8 ;")).
Eval vm_compute in ("<<<M2754>>>" ++ check (runes_of_ascii "options1 : int64 match @lengthOf( 007 65535")).
Eval vm_compute in ("<<<M2117>>>" ++ check (runes_of_ascii "MetaData x
{// " ++ [128512]%N ++ runes_of_ascii " emoji
uint32 stringy , }")).
Eval vm_compute in ("<<<M2130>>>" ++ check (runes_of_ascii "MetaData x
{// " ++ [128512]%N ++ runes_of_ascii " emoji
i16 stringy , } }")).
Eval vm_compute in ("<<<M3772>>>" ++ check (runes_of_ascii "
packet	A 
{	u8

x

`d" ++ [133]%N ++ runes_of_ascii "`	, // c" ++ [133]%N ++ runes_of_ascii "
    }
")).
Eval vm_compute in ("<<<M1924>>>" ++ check (runes_of_ascii "
packet	As { @calculatedFrom(//x
""{,}""")).
Eval vm_compute in ("<<<M2605>>>" ++ check (runes_of_ascii "packet A { match k as n { [] : B }, }")).
Eval vm_compute in ("<<<M499>>>" ++ check (runes_of_ascii "packet Packet {crc u `two words` ,}")).
Eval vm_compute in ("<<<M3013>>>" ++ check (runes_of_ascii "root packet A {
    u8 x `a
b`,
}")).
Eval vm_compute in ("<<<M2838>>>" ++ check (runes_of_ascii "mHV)h@t@{RF2uS0T]{?I<`nQp>O|RT0-")).
Eval vm_compute in ("<<<M1336>>>" ++ check (runes_of_ascii "MetaData Packet{  }
// a // b
")).
Eval vm_compute in ("<<<M3924>>>" ++ check (runes_of_ascii "  packet

A
{ } 
    // c" ++ [12]%N ++ runes_of_ascii "
 
")).
Eval vm_compute in ("<<<M2777>>>" ++ check (runes_of_ascii "= u128 u8 u16 char u16 false")).
Eval vm_compute in ("<<<M4147>>>" ++ check (runes_of_ascii "packet  A

    {

} // c" ++ [8203]%N)).
Eval vm_compute in ("<<<M1308>>>" ++ check (runes_of_ascii "
root
packet len
{
    }
")).
Eval vm_compute in ("<<<M1003>>>" ++ check (runes_of_ascii "packet repeatCount {} //")).
Eval vm_compute in ("<<<M3385>>>" ++ check (runes_of_ascii "packet lengthOf
// c
{ }")).
Eval vm_compute in ("<<<M965>>>" ++ check (runes_of_ascii "options { } /// triple")).
Eval vm_compute in ("<<<M2075>>>" ++ check (runes_of_ascii "MetaData A { u64 pack")).
Eval vm_compute in ("<<<M2841>>>" ++ check (runes_of_ascii "29" ++ [5; 6]%N ++ runes_of_ascii "<" ++ [65533]%N ++ runes_of_ascii "F>" ++ [6]%N ++ runes_of_ascii "r " ++ [65533]%N ++ runes_of_ascii "C" ++ [65533; 65533; 0; 65533]%N ++ runes_of_ascii "2N" ++ [65533]%N)).
Eval vm_compute in ("<<<M564>>>" ++ check (runes_of_ascii "MetaData
Logon
{ }")).
Eval vm_compute in ("<<<M3091>>>" ++ check (runes_of_ascii "packet A {
}
// c" ++ [8202]%N)).
Eval vm_compute in ("<<<M2566>>>" ++ check (runes_of_ascii "packet A { u8 x }")).
Eval vm_compute in ("<<<M128>>>" ++ check (runes_of_ascii "packet i8i8
{}
")).
Eval vm_compute in ("<<<M2689>>>" ++ check (runes_of_ascii "= u32 """" uint64")).
Eval vm_compute in ("<<<M4333>>>" ++ check (runes_of_ascii "
// " ++ [128512]%N ++ runes_of_ascii " emoji
")).
Eval vm_compute in ("<<<M2484>>>" ++ check (runes_of_ascii "@lengthOf(")).
Eval vm_compute in ("<<<M3883>>>" ++ check (runes_of_ascii "
// c" ++ [5760]%N ++ runes_of_ascii "
")).
Eval vm_compute in ("<<<M2460>>>" ++ check (runes_of_ascii "repeat")).
Eval vm_compute in ("<<<M2509>>>" ++ check (runes_of_ascii """a
b""")).
Eval vm_compute in ("<<<M2443>>>" ++ check (runes_of_ascii "i8i8")).
Eval vm_compute in ("<<<M2496>>>" ++ check (runes_of_ascii "/ /")).
Eval vm_compute in ("<<<M2493>>>" ++ check (runes_of_ascii "@@")).
Eval vm_compute in ("<<<M2675>>>" ++ check (runes_of_ascii "1")).
