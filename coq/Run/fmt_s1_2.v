From FP Require Import Lexer Parser ShowPT Digest Formatter.
From Coq Require Import String List NArith.
Import ListNotations.
Open Scope string_scope.
Set Printing Width 100000000.
Set Printing Depth 100000000.
Definition show_fres (r : fres) : string :=
  match r with
  | FOk s => "OK:" ++ sh_escaped s ""
  | FErr s => "ERR:" ++ sh_escaped s ""
  | FPanic p => "PANIC:" ++ p
  end.
Definition check (rs : list rune) : string := digest (show_fres (format_res rs)).
Definition full (rs : list rune) : string := show_fres (format_res rs).
Eval vm_compute in ("<<<M1874>>>" ++ check (runes_of_ascii "// top

options 	 // c0
	{// c1a
// c1b
	StringPrefixLenType// c2
  =// c3
    	u16 
	    // c4

;
	ArrayPrefixLenType 	 // c6a

	// c6b
=u8	// c8a
      // c8b
  ; FixedStringPadFromLeft  =
	    // c11
	true	// c12
      ;FixedStringPadChar 	 // c14
    = // c15a
	// c15b

	' '
; 
	    // c17
	}
    // c18

	packet
        // c19
  Quote// c20a

// c20b
	{  int64 

// c22

OrderId 
    // c23
		,
    // c24
	  char[]	// c25

	Ref
    // c26
    ,

@leftPad 
('0'	// c30
)	// c31a

// c31b
    char[ 	 // c32
	5
	] 
    // c34
	price // c35
,// c36
	}  // c37
  packet
	Heartbeat
{// c40
	  zchar[ // c41
	  3
]
    venue 	 // c44a
  // c44b
	, string// c46a
    // c46b
  Flags// c47a
	// c47b
	,	// c48
}	// c49a
  // c49b
  packet 	 // c50

Trade
// c51
{

    repeat 
	// c53
InTag787
	{// c55a
    // c55b
	i32

// c56
  venue	// c57
, 	 // c58
    char[ // c59
	5 
	// c60
    	] sym	// c62
    ,
        // c63
	repeat 
	    // c64
InPx98 
    // c65
	{  // c66
char[ // c67

	11
	    // c68
  ] 
    // c69
      Qty 
	// c70
    , // c71

Heartbeat// c72a
	  // c72b

, // c73a
// c73b
    char[] 
// c74

	price 
      // c75
      , // c76
		u32
    // c77
	x
// c78
	,float64 
        // c80
  count // c81

, 

    // c82
  	repeat Quote 
    // c84
      , 

// c85
    },
zchar[ 

    // c88
7
] 	 // c90a
  // c90b
  Note 

// c91

  , repeat 	 // c93a
// c93b
	  char[ 	 // c94a
    	// c94b

	1
] 	 // c96a
	// c96b
  	Tail  // c97
	, 

    // c98
    	}  
      // c99
	, // c100
		repeat // c101
  char[ 	 // c102
2 ]
seqNo
, 	 // c106
	  InTail55 {  // c108a
	// c108b

	repeat 
      // c109
Quote	// c110
	,string // c112a
	// c112b

  msgKind 
// c113
	, 

// c114
  InPx18  // c115a

  // c115b
  {  // c116
    char[] count 	 // c118
,repeat	Quote  // c121

,
uint16	// c123a

	// c123b
Qty// c124a
  // c124b
	  ,// c125a
    	// c125b
  	}	// c126a
    	// c126b

, 	 // c127
  char[ // c128a
// c128b
      4 // c129a
    	// c129b

]// c130
    seqNo
    // c131
,	// c132
	repeat  // c133

Heartbeat// c134a

  // c134b
    	, 	 // c135a

	// c135b
      repeat  
  // c136
    string

sym  // c138a
	// c138b
	,
// c139
  }	, // c141
repeat// c142a
	// c142b
	  Quote 
,

Heartbeat // c145a
    	// c145b
  , 

    // c146

@leftPad

    // c147
    (// c148
' ' ) 	 // c150a
	// c150b
	char[ 	 // c151
      10 ] 	 // c153a

  // c153b
  OrderId ,
        // c155
}	// c156a
  // c156b
root 
    // c157
	packet // c158
    Fill{ 	 // c160a
// c160b
Heartbeat	// c161
	,uint32  // c163a
      // c163b
      count  ,// c165
u8 	 // c166a
	// c166b
    OrderId 
    // c167
,	// c168
  match	// c169
  OrderId

as// c171a

	// c171b
		Body // c172a

	// c172b

	{
	96  // c174a
	// c174b
: Quote  // c176a
	// c176b
  , 
      // c177

195 
    // c178
	:  // c179
    Trade
	, // c181
187 // c182
  	:  // c183

Heartbeat ,// c185a

// c185b
	}// c186a
  // c186b
  ,
// c187
	  u32 venue@calculatedFrom( 	 // c190
	""CRC32"" 
) // c192

,	}// c194")).
Eval vm_compute in ("<<<M1627>>>" ++ check (runes_of_ascii "options {
    // c1a
    // c1b
    LittleEndian = true;
    StringPrefixLenType = u16;
    ArrayPrefixLenType = u8;// c13
    FixedStringPadChar = '0';
    // c17
}// c18a

// c18b
packet Logout {
    // c21
    repeat i16 f1,
    // c25
    string Ref,// c28a
    // c28b
    @rightPad('\x00')
    char[9] Tail,
    repeat char[6] Flags,
    // c43
    repeat char[3] Acct,
    // c49
}

// c50
packet Party {
    // c53a
    // c53b
    char[2] f1,
    u8 Side2,// c61
    @leftPad(' ')
    // c65
    char[1] venue,// c70
}// c71a

// c71b
packet Order {
    // c74
    repeat i64 Ref,
    InPx62 {
        // c80a
        // c80b
        i32 OrderId,// c83
    },
    InNote53 {
        // c87
        InClordid80 {
            char[] Acct,
            // c92
            u32 Px,// c95
            repeat Party,// c98a
            // c98b
        },// c100
        InPrice12 {
            // c102
            u8 pad0,
        },// c107a
        // c107b
        repeat Logout,
        InFlags23 {
            // c112a
            // c112b
            repeat string seqNo,
            // c116
            string sym,// c119
            int8 Flags,
            // c122
            zchar[5] lastPx,
            zchar[6] Px,// c132a
            // c132b
        },
        // c134
        char[10] Acct,
        InPx18 {
            // c141
            zchar[2] count,// c146
            Party,// c148a
            // c148b
        },// c150a
        // c150b
    },// c152
    char[5] Side2,// c157a
    // c157b
    char[1] Acct,
}// c163a

// c163b
root packet Ack {
    // c167
    u32 Tail,
    repeat char[4] msgKind,// c176a
    // c176b
    repeat Logout,
    // c179
}
// c180")).
Eval vm_compute in ("<<<M134>>>" ++ check (runes_of_ascii "packet As { options1
    { i16 o , } , i64 roots ,repeat char[] o
    `a\` , @calculatedFrom( ""1""//x
)  repeatCount	@lengthOf(/// triple
falsey /// triple
)
// packet A { u8 x, }
// " ++ [128512]%N ++ runes_of_ascii " emoji
`a\` ,
@lengthOf( stringy ) char[]	As
`" ++ [233]%N ++ runes_of_ascii "` ,
asx {match msg_type as
chars { //	t
00: metadata
    // `tick` ""quote"" 'q'
    , }
    , i8 pack// c
@calculatedFrom(
    /// triple
    ""x y"" )
// trailing space 
// a // b
,//	t
match u8x as	rootA{
""1"": a1
, [
    // packet A { u8 x, }
    4294967296 ]
:msg_type
//
//x
,
}
, } // a // b
, @calculatedFrom(
""" ++ [233]%N ++ runes_of_ascii "t" ++ [233]%N ++ runes_of_ascii """ ) int16 roots ,
    @tag(1 )	@leftPad ( '0' ) @rightPad // " ++ [27880; 37322]%N ++ runes_of_ascii "
( '\x00'
)i32 asx `tab	here`	,char Logon `u8 x,` // trailing space 
,  }
root	packet string_ {// @lengthOf(
}packet Z9_ { int8 _x
, repeat u8 uint8x `" ++ [233]%N ++ runes_of_ascii "`
,
float64 x_y_z @calculatedFrom(	""x y"" )
    , @calculatedFrom(	""a\""b"" ) @calculatedFrom( ""a\""b"" )
    int
{zchar[255
] //
msg_type,  i64_
    // trailing space 
    {
    stringy @lengthOf(x_y_z )
    , u
    options1
    //
    `tab	here` ,
char[0123456789 ] msg_type ,float32
    Foo `{ , }`
    , } , } ,  @tag(	0
)
    @calculatedFrom( ""CRC32"" ) charz , @tag(
    // @lengthOf(
    4294967296 )
i64 packetx ,  } //	t")).
Eval vm_compute in ("<<<M153>>>" ++ check (runes_of_ascii "options
// packet A { u8 x, }
/// triple
{	}MetaData	zchar// @lengthOf(
{
    A i64_
`crlf
line` , char[]string_ `
` , Packet
stringy `a\` , // `tick` ""quote"" 'q'
char[ 1] i8i8 // @lengthOf(
,float32
options1 `{ , }` ,} packet
    a1{@lengthOf( o ) //x
o { calculatedFrom @calculatedFrom(
    //x
    ""a\\""
) , } , @lengthOf(
a1) repeat i8i8
    stringy ,int8	pack , @lengthOf( u8x
    ) string
packetx @calculatedFrom( ""`tick`"" ) `` , @lengthOf( Header ) @tag( 0123456789 ) @calculatedFrom(
""CRC32"" ) repeat BodyLength `two words` , @lengthOf( T)  zchar[ 1//
] repeatCount@lengthOf( o	) ,
    match // " ++ [128512]%N ++ runes_of_ascii " emoji
As as options1 { ""1"":
    o, ""a\\"": crc
,[ 0123456789, ""a	b"" // `tick` ""quote"" 'q'
, """ ++ [128512]%N ++ runes_of_ascii """ ,	65535
, """ ++ [128512]%N ++ runes_of_ascii """
    // `tick` ""quote"" 'q'
    ,  ""1""	,
00 ] : x , [ ""abc""	,
""\n""
, 4294967296 ,
10 ,
    //x
    0123456789
,	42 , """ ++ [128512]%N ++ runes_of_ascii """, 3 ] :
    // " ++ [128512]%N ++ runes_of_ascii " emoji
    msg_type } , match
u8x as
lengthOf
    { [""x y"" , ""{,}""// a // b
] :	asx // `tick` ""quote"" 'q'
4294967296  : chars,
    ""CRC32"" : a1 ""a	b"" :metadata ,  7 : zchar  , }
, }")).
Eval vm_compute in ("<<<M1566>>>" ++ check (runes_of_ascii "options {
    LittleEndian = false;
    FixedStringPadFromLeft = false;
    FixedStringPadChar = ' ';
}
packet Fill {
    uint16 Qty,
    uint64 clOrdID,
    repeat i64 Flags,
}
packet Ack {
    zchar[7] clOrdID,
    u64 lastPx,
    char[] Note,
    repeat Fill,
    int32 count,
}
packet Quote {
    u8 venue,
    InRef40 {
        char[] Qty,
    },
    zchar[5] Flags,
    @rightPad('\x00') char[12] msgKind,
}
packet Logout {
    InSym79 {
        int32 Qty,
        Fill,
        char[3] x,
        repeat InNote29 {
            i16 price,
            Ack,
            f64 x,
            zchar[8] count,
        },
    },
}
root packet Logon {
    zchar[1] sym,
    u32 count,
    u16 tag7 @lengthOf(Body),
    match count as Body {
        [122, 152] : Ack,
        118 : Logout,
        61 : Quote,
        161 : Fill,
    },
    u32 Acct @calculatedFrom(""CR\
C32""),
}
")).
Eval vm_compute in ("<<<M1765>>>" ++ check (runes_of_ascii "  packet	zchar{ BodyLength  x // `tick` ""quote"" 'q'
	, // trailing space 
	  @rightPad

    ( '0' 
) match _x  as

    x
{  [
""" ++ [128512]%N ++ runes_of_ascii """
]
: falsey
,	65535 :chars
0

    :
    falsey, [
    ""packet""
]

    :  // c
    metadata  0
: 
repeatCount  , 00//
		:	packetx 
, }  , }packet crc 
{	match 
body 
    //x
//x
as 
len{ 7
    :
leftPad
, 007
:x_y_z ,00 :
	x_y_z , [ 0

,  10 
,
10

, 	 //	t
      10 ]
    :
calculatedFrom// packet A { u8 x, }
  ,""packet""
:calculatedFrom

    },

    @leftPad (
'0')
    @tag( 
4294967296

)match
u128 // c
  	as
	trueish

    {
	3 :
i64_

    , } ,

char[

255
	]  o
	@lengthOf(	leftPad )  `u8 x,` 
,	} MetaData o
{ float roots ,	x_y_z 
MetaDataX 
, packetx zchar , }
")).
Eval vm_compute in ("<<<M1648>>>" ++ check (runes_of_ascii "

  root
	packet

i8i8 
{ BodyLength

    `" ++ [28040; 24687; 31867; 22411]%N ++ runes_of_ascii "`
,

    Header
, 
int16
	len @lengthOf( 
msg_type
) `
`  ,

@leftPad  /// triple
	( ' '	/// triple
    	)
@rightPad 	 // " ++ [27880; 37322]%N ++ runes_of_ascii "
      (	// a // b
) 	 // trailing space 
  	@calculatedFrom( ""x y""  )
	repeatCount 	 // @lengthOf(
  @calculatedFrom(	/// triple

	""packet"")

`crlf
line`,
    @lengthOf(
    falsey)

roots @lengthOf(

metadata  )
	`line1
line2`

,	i8  i64_
,
    @tag(4294967296
    )	@tag(3

)  repeat
zchar[
    1
]
lengthOf ,	@lengthOf( Logon 
  // `tick` ""quote"" 'q'
	// `tick` ""quote"" 'q'
)
repeat asx
{ stringy	float	`line1
line2`	,
Pad
	,	}
,

    }
")).
Eval vm_compute in ("<<<M33>>>" ++ check (runes_of_ascii "root/// triple
packet int{
f32 i8i8 , uint8x /// triple
zchar
    `// not a comment`// a // b
,
    u64 u8x @lengthOf( u ) ,char[] i64_@lengthOf( crc
    ), @lengthOf( packetx
    )metadata i64_
, } packet a1	{ zchar[ 65535
] float, zchar[ 00
    //	t
    ]
    matchKey
,
} options { crc =u64 } MetaData leftPad { trueish string_ ,  uint64 Header
`" ++ [28040; 24687; 31867; 22411]%N ++ runes_of_ascii "` , }
    // " ++ [128512]%N ++ runes_of_ascii " emoji
    MetaData//x
tag { zchar
chars
// " ++ [27880; 37322]%N ++ runes_of_ascii "
//x
,  repeatCount  lengthOf`
` , i16
u /// triple
`tab	here` , lengthOf
a1 ,u16 o
    , char
i64_  `two words` , }
//x
")).
Eval vm_compute in ("<<<M223>>>" ++ check (runes_of_ascii "
root packet // a // b
matchKey
    { @calculatedFrom(
""// no comment"")match matchKey as crc { 65535:metadata , 255 :options1 , ""{,}"" :asx
,
    [ ""\" ++ [233]%N ++ runes_of_ascii """ , 00
,	""""  , /// triple
""{,}"" ,
""a\\"" ]
    : msg_type , 007: f32a ,//x
} , @lengthOf(
repeatCount) @leftPad ()
    @calculatedFrom(  ""a\\"")float ,@tag( 42 ) u8 crc @calculatedFrom( //
""" ++ [28040; 24687]%N ++ runes_of_ascii """// " ++ [27880; 37322]%N ++ runes_of_ascii "
)
, uint64
BodyLength @lengthOf( f32a)
    `" ++ [28040; 24687; 31867; 22411]%N ++ runes_of_ascii "` , tag a1 ,
tag @calculatedFrom( ""`tick`""
), } // trailing space ")).
Eval vm_compute in ("<<<M1433>>>" ++ check (runes_of_ascii "// top
packet
    // c0
float
    // c1
{
    // c2
repeat
    // c3
i8i8
    // c4
MetaDataX
    // c5
`it's`
    // c6
,
    // c7
rootA
    // c8
,
    // c9
repeat
    // c10
int8
    // c11
int
    // c12
,
    // c13
match
    // c14
repeatCount
    // c15
as
    // c16
x_y_z
    // c17
{
    // c18
""{,}""
    // c19
:
    // c20
Logon
    // c21
,
    // c22
}
    // c23
,
    // c24
}
    // c25
")).
Eval vm_compute in ("<<<M309>>>" ++ check (runes_of_ascii "options // " ++ [27880; 37322]%N ++ runes_of_ascii "
{charz
    =
/// triple
/// triple
int64 chars // trailing space 
=
65535
// " ++ [27880; 37322]%N ++ runes_of_ascii "
// a // b
zchar =
'\x00'MetaDataX// a // b
=	0123456789
roots
// trailing space 
// " ++ [27880; 37322]%N ++ runes_of_ascii "
= """" } options {crc // c
=""" ++ [28040; 24687]%N ++ runes_of_ascii """
    ;
    } MetaData	float {
    zchar[ 42
// `tick` ""quote"" 'q'
//
]
leftPad
    `line1
line2` ,
i64_ u,float32 // packet A { u8 x, }
A`" ++ [28040; 24687; 31867; 22411]%N ++ runes_of_ascii "` , }")).
Eval vm_compute in ("<<<M1472>>>" ++ check (runes_of_ascii "// top
options // c0a
  // c0b
{ // c1a
  // c1b
LittleEndian // c2
=
    // c3
true
    // c4
; // c5
}
    // c6
root
    // c7
packet // c8a
  // c8b
P // c9
{ u16 a
    // c12
, // c13a
  // c13b
u32 Sum // c15
@calculatedFrom(
    // c16
""CRC32"" // c17
) // c18a
  // c18b
, // c19a
  // c19b
} // c20a
  // c20b
")).
Eval vm_compute in ("<<<M539>>>" ++ check (runes_of_ascii "root packet tag { }  packet MetaDataX{char[007	]
// c
/// triple
asx  @calculatedFrom( @calculatedFrom( ""a\""b""
) `say ""hi""`// " ++ [27880; 37322]%N ++ runes_of_ascii "
,  @tag(4294967296 )
    char[1//x
] packetx @calculatedFrom(""a\""b""
    ) ,
// " ++ [128512]%N ++ runes_of_ascii " emoji
// a // b
@calculatedFrom(""" ++ [233]%N ++ runes_of_ascii "t" ++ [233]%N ++ runes_of_ascii """  ) repeat pack // " ++ [27880; 37322]%N ++ runes_of_ascii "
,
    } // c")).
Eval vm_compute in ("<<<M92>>>" ++ check (runes_of_ascii "options
    {
    u8x =zchar[ 42 ] ;
roots = """ ++ [233]%N ++ runes_of_ascii "t" ++ [233]%N ++ runes_of_ascii """	; calculatedFrom
= '0' As =
    ""packet"" ; } options	{falsey=  10
    ; A=
// c
// packet A { u8 x, }
'\x00' ; leftPad// c
=	""" ++ [233]%N ++ runes_of_ascii "t" ++ [233]%N ++ runes_of_ascii """
    ;
    crc
//	t
// c
= u16
// `tick` ""quote"" 'q'
// @lengthOf(
;As
= 255 } /// triple")).
Eval vm_compute in ("<<<M614>>>" ++ check (runes_of_ascii "root packet tag { }  packet MetaDataX{char[007	]
// c
/// triple
asx  @calculatedFrom( ""a\""b""
) `say ""hi""`// " ++ [27880; 37322]%N ++ runes_of_ascii "
,  @tag(4294967296 )
    char[1//x
] packetx @calculatedFrom(""a\""b""
    ) , ,
// " ++ [128512]%N ++ runes_of_ascii " emoji
// a // b
@calculatedFrom(""" ++ [233]%N ++ runes_of_ascii "t" ++ [233]%N ++ runes_of_ascii """  ) repeat pack // " ++ [27880; 37322]%N ++ runes_of_ascii "
,
    } // c")).
Eval vm_compute in ("<<<M481>>>" ++ check (runes_of_ascii "packet root tag { }  packet MetaDataX{char[007	]
// c
/// triple
asx  @calculatedFrom( ""a\""b""
) `say ""hi""`// " ++ [27880; 37322]%N ++ runes_of_ascii "
,  @tag(4294967296 )
    char[1//x
] packetx @calculatedFrom(""a\""b""
    ) ,
// " ++ [128512]%N ++ runes_of_ascii " emoji
// a // b
@calculatedFrom(""" ++ [233]%N ++ runes_of_ascii "t" ++ [233]%N ++ runes_of_ascii """  ) repeat pack // " ++ [27880; 37322]%N ++ runes_of_ascii "
,
    } // c")).
Eval vm_compute in ("<<<M645>>>" ++ check (runes_of_ascii "root packet tag { }  packet MetaDataX{char[007	]
// c
/// triple
asx  @calculatedFrom( ""a\""b""
) `say ""hi""`// " ++ [27880; 37322]%N ++ runes_of_ascii "
,  @tag(4294967296 )
    char[1//x
] packetx @calculatedFrom(""a\""b""
    ) ,
// " ++ [128512]%N ++ runes_of_ascii " emoji
// a // b
@calculatedFrom(""" ++ [233]%N ++ runes_of_ascii "t" ++ [233]%N ++ runes_of_ascii """  ) repeat pack // " ++ [27880; 37322]%N ++ runes_of_ascii "
}
    , // c")).
Eval vm_compute in ("<<<M479>>>" ++ check (runes_of_ascii " packet tag { }  packet MetaDataX{char[007	]
// c
/// triple
asx  @calculatedFrom( ""a\""b""
) `say ""hi""`// " ++ [27880; 37322]%N ++ runes_of_ascii "
,  @tag(4294967296 )
    char[1//x
] packetx @calculatedFrom(""a\""b""
    ) ,
// " ++ [128512]%N ++ runes_of_ascii " emoji
// a // b
@calculatedFrom(""" ++ [233]%N ++ runes_of_ascii "t" ++ [233]%N ++ runes_of_ascii """  ) repeat pack // " ++ [27880; 37322]%N ++ runes_of_ascii "
,
    } // c")).
Eval vm_compute in ("<<<M1578>>>" ++ check (runes_of_ascii "options{LittleEndian
=true ;}
packet	Logon
{ u8
x	,string 
user ,  } packet
Logout {	u16 reason 
,}  packet Empty
	{

}
    root

packet  Frame
	{ 
u16 
MsgType ,
u16 BodyLen@lengthOf( Body )	,
	u8
    flags,Logon
    Body
	,u32 trailer  ,
    }

")).
Eval vm_compute in ("<<<M1579>>>" ++ check (runes_of_ascii "packet Sub {
    u8 a,
    @calculatedFrom(""CRC16"") u16 SubSum,
}
root packet Frame {
    u16 MsgType,
    u16 BodyLen @lengthOf(Body),
    Sub Body,
    string note,
    @calculatedFrom(""CRC16"") u16 Checksum,
    u8 tail,
}
")).
Eval vm_compute in ("<<<M331>>>" ++ check (runes_of_ascii "options {
calculatedFrom =  '0'
    // c
    float= char[] ; Pad= 0	;//	t
_x
    // packet A { u8 x, }
    =007
    ;
}packet u
    { @lengthOf( u) repeat
string /// triple
o
,} root packet lengthOf { }

")).
Eval vm_compute in ("<<<M1737>>>" ++ check (runes_of_ascii "root packet Frame {
    u8 K,
    Logon first,
    match K as Body {
        1 : Logon,
        2 : Logout,
    },
}

packet Logon {
    string user,
}

packet Logout {
    u16 reason,
}")).
Eval vm_compute in ("<<<M607>>>" ++ check (runes_of_ascii "root packet tag { }  packet MetaDataX{char[007	]
// c
/// triple
asx  @calculatedFrom( ""a\""b""
) `say ""hi""`// " ++ [27880; 37322]%N ++ runes_of_ascii "
,  @tag(4294967296 )
    char[1//x
] packetx @calculatedFrom(")).
Eval vm_compute in ("<<<M466>>>" ++ check (runes_of_ascii "packet
    // `tick` ""quote"" 'q'
    crc
// packet A { u8 x, }
//	t
{
u32 @xa1 ,
    // trailing space 
    roots
charz //
`two words`,	}
    MetaData int {
} /// triple")).
Eval vm_compute in ("<<<M426>>>" ++ check (runes_of_ascii "packet
    // `tick` ""quote"" 'q'
    crc
// packet A { u8 x, }
//	t
{
u32 a1 ,
    // trailing space 
    roots
charz //
,`two words`	}
    MetaData int {
} /// triple")).
Eval vm_compute in ("<<<M685>>>" ++ check (runes_of_ascii "root packet len // trailing space 

// " ++ [27880; 37322]%N ++ runes_of_ascii "
//	t
char[10
] metadata	@lengthOf( o ) `crlf
line`,
    @rightPad
( ' '
) string
    Header @calculatedFrom( ""a\\""
    ), }
")).
Eval vm_compute in ("<<<M442>>>" ++ check (runes_of_ascii "packet
    // `tick` ""quote"" 'q'
    crc
// packet A { u8 x, }
//	t
{
u32 a1 ,
    // trailing space 
    roots
charz //
`two words`,	}
    as int {
} /// triple")).
Eval vm_compute in ("<<<M1619>>>" ++ check (runes_of_ascii "packet A {
    Inner {
        match k as n {
            [
                1, 22, 007, 4, 5,
                66, 7
            ] : B,
        },
    },
}")).
Eval vm_compute in ("<<<M1812>>>" ++ check (runes_of_ascii "packet

    B{  u8
    a, 
}root
packet
	P  {
    u8
K

    ,
u64 
L

@lengthOf(

Body )

    ,match	K
	as Body
    {
1 : B 
, 
}  ,	}

")).
Eval vm_compute in ("<<<M433>>>" ++ check (runes_of_ascii "packet
    // `tick` ""quote"" 'q'
    crc
// packet A { u8 x, }
//	t
{
u32 a1 ,
    // trailing space 
    roots
charz //
`two words`")).
Eval vm_compute in ("<<<M1837>>>" ++ check (runes_of_ascii "root packet matchKey {
    zchar[3] pack @calculatedFrom(""a	b"") `doc`,
}

options {
}

MetaData A {
    int8 msg_type,
}
// c")).
Eval vm_compute in ("<<<M1236>>>" ++ check (runes_of_ascii "root packet matchKey { zchar[ 3 ]
// c
pack @calculatedFrom( ""a	b"" ) `doc` , } options { } MetaData A { int8 msg_type , }")).
Eval vm_compute in ("<<<M1268>>>" ++ check (runes_of_ascii "root packet matchKey { zchar[ 3 ] pack @calculatedFrom( ""a	b"" ) `doc` , } options { } MetaData A { int8 msg_type ,
// c
}")).
Eval vm_compute in ("<<<M567>>>" ++ check (runes_of_ascii "root packet tag { }  packet MetaDataX{char[007	]
// c
/// triple
asx  @calculatedFrom( ""a\""b""
) `say ""hi""`// " ++ [27880; 37322]%N ++ runes_of_ascii "
,")).
Eval vm_compute in ("<<<M1856>>>" ++ check (runes_of_ascii "MetaData
body
{i64

    pack
`it's`  , }

    packet stringy  {
	int16

    calculatedFrom 
, // c
}

")).
Eval vm_compute in ("<<<M944>>>" ++ check (runes_of_ascii "packet A {
    u16 len @lengthOf(body) `x
`,
    u32 crc @calculatedFrom(""CRC32"") `x
`,
    string body,
}")).
Eval vm_compute in ("<<<M883>>>" ++ check (runes_of_ascii "packet A {
  match k as n {
    [""a"", ""bb"", 007, ""d"", ""e"", 66, ""g"", ""h"", 9, ""j""] : B,
    2 : C
  },
}")).
Eval vm_compute in ("<<<M1644>>>" ++ check (runes_of_ascii "packet	A 
{match 
k 
as
	n	{[

1
    , ""bb""	, 007

,""d"" ,5 ]
	:

    B 
2

    :
C}

,
    }

")).
Eval vm_compute in ("<<<M857>>>" ++ check (runes_of_ascii "packet A {
  match k as n {
    [""a"", ""bb"", 007, ""d"", ""e"", 66, ""g"", ""h""] : B,
    2 : C
  },
}")).
Eval vm_compute in ("<<<M1216>>>" ++ check (runes_of_ascii "MetaData float { float64 charz `
` , } root packet chars { @rightPad ( '0' ) Foo , } // c
")).
Eval vm_compute in ("<<<M1195>>>" ++ check (runes_of_ascii "MetaData float { float64 charz `
` , }
// c
root packet chars { @rightPad ( '0' ) Foo , }")).
Eval vm_compute in ("<<<M1406>>>" ++ check (runes_of_ascii "packet chars { } packet MetaDataX // c
{ @tag( 42 ) i16 string_ , repeat x `say ""hi""` , }")).
Eval vm_compute in ("<<<M1834>>>" ++ check (runes_of_ascii "
packet A

    {
match
	k
    as n  {[
	1,""bb"" ,007

,""d""

, 5 ]
:
	B ,

2 : C }  ,
}")).
Eval vm_compute in ("<<<M1136>>>" ++ check (runes_of_ascii "packet metadata { Logon { A `" ++ [28040; 24687; 31867; 22411]%N ++ runes_of_ascii "` // c
, tag o , } , zchar len `// not a comment` , }")).
Eval vm_compute in ("<<<M1341>>>" ++ check (runes_of_ascii "packet
// c
o { repeat Logon uint8x , } options { asx = zchar[ 3 ] stringy = '\x00' }")).
Eval vm_compute in ("<<<M1373>>>" ++ check (runes_of_ascii "packet o { repeat Logon uint8x , } options { asx = zchar[ 3 ] stringy =
// c
'\x00' }")).
Eval vm_compute in ("<<<M842>>>" ++ check (runes_of_ascii "packet A {
  match k as n {
    [1, 22, ""c c"", 4, 5, ""f"", 7] : B,
    2 : C
  },
}")).
Eval vm_compute in ("<<<M1502>>>" ++ check (runes_of_ascii "packet orderItem  {u8
    a ,}  root packet 
newOrder
	{ orderItem , u8	x
    ,}
")).
Eval vm_compute in ("<<<M814>>>" ++ check (runes_of_ascii "packet A {
  match k as n {
    [""a"", 22, ""c c"", 4, ""e""] : B,
    2 : C
  },
}")).
Eval vm_compute in ("<<<M97>>>" ++ check (runes_of_ascii "options // " ++ [27880; 37322]%N ++ runes_of_ascii "
{
// packet A { u8 x, }
// a // b
}
    packet T {
    }
")).
Eval vm_compute in ("<<<M747>>>" ++ check (runes_of_ascii "as [ match ] ] : @calculatedFrom( uint8 ) as @calculatedFrom( string")).
Eval vm_compute in ("<<<M158>>>" ++ check (runes_of_ascii "options { x_y_z =
true;a1 = true ;
options1  =
    true  ; }
")).
Eval vm_compute in ("<<<M1086>>>" ++ check (runes_of_ascii "packet A { @leftPad() char[4] x, @rightPad( ) zchar[2] y, }")).
Eval vm_compute in ("<<<M1294>>>" ++ check (runes_of_ascii "packet x { @rightPad ( ) repeat roots Logon `doc` // c
, }")).
Eval vm_compute in ("<<<M2106>>>" ++ check (runes_of_ascii "
root
packet 
P

{	repeat char cs	, u8
    x  ,

} ")).
Eval vm_compute in ("<<<M1378>>>" ++ check (runes_of_ascii "// top
MetaData // c0
o // c1
{ // c2
} // c3
")).
Eval vm_compute in ("<<<M935>>>" ++ check (runes_of_ascii "root packet A {
    u8 x `a
    b
  c`,
}")).
Eval vm_compute in ("<<<M1766>>>" ++ check (runes_of_ascii "MetaData packetx {
    zchar[7] u128,
}")).
Eval vm_compute in ("<<<M1085>>>" ++ check (runes_of_ascii "packet A { @tag( // a
 1 ) u8 x, }")).
Eval vm_compute in ("<<<M983>>>" ++ check (runes_of_ascii "packet A {
 u8 x `d" ++ [160]%N ++ runes_of_ascii "`, // c" ++ [160]%N ++ runes_of_ascii "
}")).
Eval vm_compute in ("<<<M314>>>" ++ check (runes_of_ascii "MetaData roots	{ u Logon ,}")).
Eval vm_compute in ("<<<M737>>>" ++ check (runes_of_ascii "\Tv)jTR6Bqg&Y!_Pjqu\Kxc")).
Eval vm_compute in ("<<<M1386>>>" ++ check (runes_of_ascii "MetaData o
// c
{ }")).
Eval vm_compute in ("<<<M1031>>>" ++ check (runes_of_ascii "packet A {
}
// c" ++ [12]%N)).
Eval vm_compute in ("<<<M1077>>>" ++ check (runes_of_ascii "options { // a
 }")).
Eval vm_compute in ("<<<M340>>>" ++ check (runes_of_ascii "// " ++ [27880; 37322]%N ++ runes_of_ascii "

")).
Eval vm_compute in ("<<<M487>>>" ++ check (runes_of_ascii "root")).
