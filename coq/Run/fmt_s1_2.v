From FP Require Import Lexer Parser ShowPT Digest Formatter.
From Coq Require Import String List NArith.
Import ListNotations.
Open Scope string_scope.
Set Printing Width 100000000.
Set Printing Depth 100000000.
Definition show_fres (r : fres) : string :=
  match r with
  | FOk s => "OK:" ++ sh_escaped s ""
  | FErr s => "ERR:" ++ sh_escaped s ""
  | FPanic p => "PANIC:" ++ p
  end.
Definition check (rs : list rune) : string := digest (show_fres (format_res rs)).
Definition full (rs : list rune) : string := show_fres (format_res rs).
Eval vm_compute in ("<<<M991>>>" ++ check (runes_of_ascii "options {options1 =true
roots =
'\x00' ; } packet uint8x {zchar[
3
] MetaDataX
`tab	here`
,
@lengthOf(T
    )
    // `tick` ""quote"" 'q'
    char[]  A @calculatedFrom(
    // `tick` ""quote"" 'q'
    ""abc"" ) `
`,
@rightPad(	' '  )
    //x
    @rightPad ( ) @calculatedFrom( ""`tick`"")
char[]
    // 50% %s
    body ,
    @leftPad ('0'	)
repeat u8x {
    int { match MetaDataX
as As {
// " ++ [27880; 37322]%N ++ runes_of_ascii "
// " ++ [128512]%N ++ runes_of_ascii " emoji
[
""a\\"" ,  4294967296 ] : u128""\" ++ [233]%N ++ runes_of_ascii """
    : i8i8 ,	} , } ,	} , i8i8 `" ++ [233]%N ++ runes_of_ascii "` ,repeat
zchar[
4294967296] charz , match
trueish
as uint8x
{ [ 7 ,
""" ++ [128512]%N ++ runes_of_ascii """
    ,	3 , 4294967296 ,0123456789
] :
    msg_type
    ""`tick`"": asx
    ,	[
255 ,
""a\""b""
    ] : options1 // a // b
, [ 4294967296,
    ""// no comment""
    ,
    ""a	b"" ]: falsey
// a // b
/// triple
, } , @rightPad (
// " ++ [128512]%N ++ runes_of_ascii " emoji
// " ++ [27880; 37322]%N ++ runes_of_ascii "
'\x00' )
i8 o , match o
as u128  { [ ""CRC32"" //	t
, 42 , """ ++ [128512]%N ++ runes_of_ascii """ , ""\" ++ [233]%N ++ runes_of_ascii """,
// trailing space 
//x
""x y"" ,
00 ,
""" ++ [128512]%N ++ runes_of_ascii """	, 00 ]
    :
    x , ""x y"" : MetaDataX
,
    }
    , } packet chars { @tag(007 )match MetaDataX  as As { """ ++ [233]%N ++ runes_of_ascii "t" ++ [233]%N ++ runes_of_ascii """ :
    // " ++ [27880; 37322]%N ++ runes_of_ascii "
    pack //x
,[ ""a	b""
    , 10 , ""// no comment"",
3 , ""a\\"" , ""CRC32"" ,
    /// triple
    ""\" ++ [233]%N ++ runes_of_ascii """
, ""// no comment"" ] :uint8x 007 :crc	, [ 3
,
    /// triple
    007
] :
    Foo ,7 :
    roots ,	""" ++ [128512]%N ++ runes_of_ascii """ : trueish, } , @rightPad ('0' )	match o
/// triple
// " ++ [128512]%N ++ runes_of_ascii " emoji
as BodyLength
// trailing space 
//	t
{[ 10 ] : string_
,} ,
int8 i64_
    @calculatedFrom(
    ""it's"" )`100% of %d` ,@lengthOf( asx) @calculatedFrom( ""\" ++ [233]%N ++ runes_of_ascii """ // c
)
    // a // b
    int, repeat
    //	t
    int16 BodyLength ,
    @tag( 3 ) string_ { repeat
int32 stringy
    , u16 options1, metadata, }
,
@tag( 007 ) char[
00 ] body  ,i64 i8i8@lengthOf( i8i8
// `tick` ""quote"" 'q'
// a // b
) , _x{ u128,repeat
i32
asx  , // a // b
msg_type
chars	`u8 x,`, u32 len @lengthOf( tag ) , },@lengthOf( body
/// triple
//	t
) @lengthOf(// @lengthOf(
u128 )
@calculatedFrom( // 50% %s
""" ++ [128512]%N ++ runes_of_ascii """
    // packet A { u8 x, }
    ) f32a {int32 A
, body// a // b
{ uint16 Header,}
, int64 float, } , }packet
stringy
//
// `tick` ""quote"" 'q'
{ x { string metadata @lengthOf(_x )
    `// not a comment`
    , char[] uint8x `// not a comment` , }  , repeat
    // " ++ [128512]%N ++ runes_of_ascii " emoji
    Packet `a\`
, @tag(
    007) zchar[ 255
] f32a
, char[]  Z9_ ,
repeat zchar[  65535 ] falsey ,zchar[ 7
    ] int`100% of %d`
    ,
@calculatedFrom( ""\" ++ [233]%N ++ runes_of_ascii """ )
char[]
msg_type `" ++ [28040; 24687; 31867; 22411]%N ++ runes_of_ascii "`	, @lengthOf( Logon ) i32 options1
, @lengthOf( tag  )
    char[
1 ] metadata , }
")).
Eval vm_compute in ("<<<M4254>>>" ++ check (runes_of_ascii "packet roots {
    char[] falsey @calculatedFrom(""`tick`"") `{ , }`,
    match tag as BodyLength {
        // @lengthOf(
        ""packet"" : T,
        42 : f32a,
        255 : lengthOf,
        // " ++ [27880; 37322]%N ++ runes_of_ascii "
    },
    BodyLength {
        Z9_ {
            stringy {
                metadata,
            },
            zchar @lengthOf(x_y_z),
            match lengthOf as float {
                10 : repeatCount,
            },
            repeat string Pad `u8 x,`,
        },
        charz {
            repeat lengthOf {
                zchar[007] f32a @calculatedFrom(""it's"") `" ++ [28040; 24687; 31867; 22411]%N ++ runes_of_ascii "`,
                uint64 tag @calculatedFrom(""packet"") `" ++ [233]%N ++ runes_of_ascii "`,
                char[10] calculatedFrom `tab	here`,
                char[] Logon `" ++ [28040; 24687; 31867; 22411]%N ++ runes_of_ascii "`,
            },
            i16 x_y_z `doc`,
            // packet A { u8 x, }
            // trailing space 
            string u128,
        },
    },
    Foo @lengthOf(o),
    i32 int,
    options1,
}

options {
    // " ++ [128512]%N ++ runes_of_ascii " emoji
    // trailing space 
    leftPad = '\x00';
    Foo = 255
    x = true;
}

packet x {
    @calculatedFrom(""" ++ [28040; 24687]%N ++ runes_of_ascii """)
    repeat u8 As,
    repeat char[42] A,
    int8 o `two words`,
    @lengthOf(asx)
    @lengthOf(tag)
    match trueish as lengthOf {
        0 : o,
        ""{,}"" : chars,
        [""packet""] : A,
        ""\" ++ [233]%N ++ runes_of_ascii """ : pack,
        [
            ""\n"", 10, ""CRC32"", 00, 007,
            42, 0123456789, """"
        ] : stringy,
        ""packet"" : i64_,
    },
    repeatCount,
    i32 zchar @lengthOf(Logon) `tab	here`,
    zchar @calculatedFrom(""CRC32"") `u8 x,`,
    @lengthOf(lengthOf)
    // c
    @rightPad()
    Packet @calculatedFrom(""// no comment""),
    @tag(10)
    // trailing space 
    // `tick` ""quote"" 'q'
    len `a\`,// " ++ [128512]%N ++ runes_of_ascii " emoji
}

packet _x {
}

root packet uint8x {
    uint8 falsey `" ++ [233]%N ++ runes_of_ascii "`,
    zchar[007] stringy,
    BodyLength float,
    zchar[1] roots,
    uint8 Packet,
    repeat float64 repeatCount,
    repeat char f32a `
    `,
    i32 a1 `crlf
    line`,
}// @lengthOf(")).
Eval vm_compute in ("<<<M815>>>" ++ check (runes_of_ascii "packet
Foo
{
@lengthOf(
    u128	) char[ 007]u128 `// not a comment` , @calculatedFrom( """ ++ [233]%N ++ runes_of_ascii "t" ++ [233]%N ++ runes_of_ascii """) char[ 4294967296 ]	i8i8
@calculatedFrom(	""" ++ [28040; 24687]%N ++ runes_of_ascii """ )
,
zchar[ 1]
    repeatCount , } packet body {u32 A  , @lengthOf(trueish
)@lengthOf(
    u8x
) @rightPad ( '0' )Foo @calculatedFrom( ""a	b"") ,
char[007 ] charz `" ++ [28040; 24687; 31867; 22411]%N ++ runes_of_ascii "`,@lengthOf(
int)
packetx @lengthOf( rootA
    ) `u8 x,`
, @rightPad ( '\x00') char[
/// triple
// trailing space 
255] /// triple
repeatCount`line1
line2`,
f32	trueish
    ,
    @leftPad ( ' ' )// `tick` ""quote"" 'q'
@lengthOf(
    MetaDataX )
@lengthOf( leftPad
    ) /// triple
Pad {match
Logon as i64_ {
[255 // `tick` ""quote"" 'q'
,
""it's"" , """ ++ [28040; 24687]%N ++ runes_of_ascii """ ,""x y"" ] :
// `tick` ""quote"" 'q'
// `tick` ""quote"" 'q'
pack , [ 10 ,
    //x
    ""a\""b"" ,  ""x y"" ,
// packet A { u8 x, }
//	t
""\" ++ [233]%N ++ runes_of_ascii """
,0,
    // " ++ [27880; 37322]%N ++ runes_of_ascii "
    10 , 0,
255 ] : charz 0
: string_ ,	[""x y"" ,
1]: asx""a	b"": asx ,
    ""a	b"" // " ++ [27880; 37322]%N ++ runes_of_ascii "
:Header ,	} , } , } packet// 50% %s
A
{ }options {
    len =
true ;f32a ='0' o
= char[7 ]
;  body =
    ' ' o
    = 3  } packet	As  {
@tag( 007 ) @rightPad  ('\x00'
)
    @rightPad (' ' ) match roots// `tick` ""quote"" 'q'
as _x{ 0123456789 : string_ ,
[ """ ++ [28040; 24687]%N ++ runes_of_ascii """ , ""1"" ,
""a	b"" , 3
    , ""x y""
    ,
00 , 10 , ""\" ++ [233]%N ++ runes_of_ascii """
// c
// `tick` ""quote"" 'q'
] :Pad
65535 :	x 7 : x_y_z 3 :
charz ,
    }
,
@rightPad (	' ' ) repeat f64 //
u128 ,i8 calculatedFrom// @lengthOf(
@calculatedFrom( ""it's"" ) , @tag( 0
    /// triple
    )
    repeat
//
// 50% %s
zchar[65535
    ] lengthOf `" ++ [233]%N ++ runes_of_ascii "` ,
asx
{msg_type f32a
`a\` ,
} ,
@lengthOf( A)	@rightPad ( )
@calculatedFrom(
""packet"")
char Logon @calculatedFrom( """ ++ [128512]%N ++ runes_of_ascii """ ) , @lengthOf( f32a// 50% %s
) zchar[
1
    ]i8i8`it's`, //	t
u16 As@calculatedFrom( ""packet"" )  `
` , }
")).
Eval vm_compute in ("<<<M148>>>" ++ check (runes_of_ascii "root packet  i64_ { uint8x
`tab	here` ,  }
MetaData// " ++ [27880; 37322]%N ++ runes_of_ascii "
zchar{ falsey lengthOf  ,
// a // b
// @lengthOf(
i64 asx
`a\` , } packet
    _x{ @tag(
    // " ++ [27880; 37322]%N ++ runes_of_ascii "
    007 )repeat
f64 string_ `" ++ [28040; 24687; 31867; 22411]%N ++ runes_of_ascii "` ,
int64 charz,
    // trailing space 
    match a1  as Pad {
    7:trueish, 0 : i64_
, 65535: calculatedFrom
,
1
: chars
,  4294967296: u
,
    42:f32a , } // trailing space 
,	i32 string_@calculatedFrom( """ ++ [28040; 24687]%N ++ runes_of_ascii """ ) ,
    @lengthOf( matchKey ) repeat asx trueish , string
zchar
, uint16
    Z9_
, }  MetaData len /// triple
{T// 50% %s
stringy // " ++ [27880; 37322]%N ++ runes_of_ascii "
`100% of %d`
    , As string_ ,Header MetaDataX,  stringy x // packet A { u8 x, }
, int chars ,
} packet pack {  @lengthOf(
    T
    ) @leftPad
    ( ) A @lengthOf(
    roots)
    `doc` ,  @lengthOf( body
    )
repeat
    zchar { char[ 42 ] o,
match uint8x as MetaDataX
{ 7
    :
// 50% %s
//x
chars , 4294967296 : Pad ,[ 42 , 007
    ] : u128} ,// @lengthOf(
uint16 charz ,// a // b
},
@leftPad(
// a // b
// packet A { u8 x, }
'0') repeat A , Logon@lengthOf(Packet) `say ""hi""` , trueish { chars @lengthOf(A ) ,
repeat u64 chars	,  leftPad@calculatedFrom(""`tick`""// c
) , asx , } , char[ 65535
    ] falsey `a\` // `tick` ""quote"" 'q'
,
    @rightPad (
'0'
    )	int
    { crc @lengthOf(
crc ) `say ""hi""` ,
options1 // packet A { u8 x, }
packetx `" ++ [233]%N ++ runes_of_ascii "`,} , @rightPad( ' ') falsey
    // 50% %s
    @lengthOf(BodyLength ) ,}")).
Eval vm_compute in ("<<<M4300>>>" ++ check (runes_of_ascii "

  MetaData	options1

{
// @lengthOf(
// c
      }// " ++ [128512]%N ++ runes_of_ascii " emoji

packet As
    {
    repeat	//
    	calculatedFrom // trailing space 
i8i8
	`" ++ [233]%N ++ runes_of_ascii "`  ,@calculatedFrom("""")

@tag( 3// " ++ [27880; 37322]%N ++ runes_of_ascii "
	)	// c
    @lengthOf( calculatedFrom  )	// " ++ [27880; 37322]%N ++ runes_of_ascii "
	repeat

    len
falsey  `a\` 
,  
  //
  stringy

    {
    uint16 
options1 
,

}
    ,

@lengthOf(	asx

)  repeat
	Z9_{
repeat
o {
repeat  uint8x

,
repeat
falsey
{ 
match x	//
as charz	// trailing space 
  {
""it's"" 
/// triple
// " ++ [27880; 37322]%N ++ runes_of_ascii "
    :  A	""" ++ [233]%N ++ runes_of_ascii "t" ++ [233]%N ++ runes_of_ascii """
    : int
    ,
[255 ,
	""CRC32""

    , 
""1"" ,
	007,

4294967296 
/// triple
// packet A { u8 x, }
,
	42 	 // c
    ] :

    float	""packet""
:
Logon

    ,	3	:
string_
, }
,	string	zchar	,}	,
    },A trueish	,
	}
	,char[  65535 ]
Pad  ,	@rightPad ( 	 /// triple
	'0'

    )	@lengthOf(	msg_type 
)

@rightPad 
( 
'0' ) match lengthOf	as
    float {  //	t

	255  /// triple

  :  asx  [
	1 , ""{,}""	,

""""

]:
leftPad,[ 
0123456789	,
	""a\""b""	//	t
	]: x_y_z
	1
    : 
MetaDataX 
,[  42

, 0123456789  ] 
:lengthOf,

},}

options{ Packet =	""a\""b""  ;  }
packet  // " ++ [128512]%N ++ runes_of_ascii " emoji
	BodyLength {int64

    x_y_z
	@lengthOf(	crc )
    ,
@leftPad
( 
)
BodyLength 
falsey

    ,
	@calculatedFrom(  ""// no comment""
	) @lengthOf(u  )	//
    repeat
    float64  A  , }")).
Eval vm_compute in ("<<<M388>>>" ++ check (runes_of_ascii "options { // a // b
_x = ' ' ;}MetaData // `tick` ""quote"" 'q'
u8x
    { char crc // a // b
`doc`
// c
//	t
, u body ,
zchar[  3 ] lengthOf
,
    x_y_z options1 ,
    }
    options // 50% %s
{ } packet calculatedFrom {	@leftPad
(
// @lengthOf(
// a // b
' '
    // a // b
    ) char pack`" ++ [233]%N ++ runes_of_ascii "`
,@calculatedFrom(""a	b"") match msg_type
as A{ [ 0123456789  , 007 , /// triple
""`tick`"", ""\" ++ [233]%N ++ runes_of_ascii """] : o	,42:
    i64_
} , x  @calculatedFrom( ""it's""  ),pack , chars {  uint8x
, i8i8 @calculatedFrom(
""abc"")
    , tag {repeat falsey// " ++ [27880; 37322]%N ++ runes_of_ascii "
`say ""hi""`, // " ++ [27880; 37322]%N ++ runes_of_ascii "
repeat
    metadata roots,match
    lengthOf
as
// @lengthOf(
/// triple
asx	{[ 0123456789
// " ++ [27880; 37322]%N ++ runes_of_ascii "
// `tick` ""quote"" 'q'
, 65535 ] :
charz //	t
, 1 : // `tick` ""quote"" 'q'
chars, 7 : As ,
    3 :
    BodyLength  , ""x y""
:
Packet , ""a	b""  : trueish,
}
// " ++ [27880; 37322]%N ++ runes_of_ascii "
// a // b
,
    // c
    } // " ++ [128512]%N ++ runes_of_ascii " emoji
,
    float64
i8i8  `
`// packet A { u8 x, }
,
    } ,
    @calculatedFrom(	""abc"" )
    @tag( 255 )	@calculatedFrom( ""`tick`"" ) zchar[ 7 ] body
@lengthOf( leftPad )
    ,len
{
asx
    A
,
} ,
    @tag( 7
    ) @calculatedFrom(""{,}"" )f64
    MetaDataX ``	,	} root packet metadata
    {
repeat//	t
char[ 0]
    uint8x , }

")).
Eval vm_compute in ("<<<M1202>>>" ++ check (runes_of_ascii "packet len
{  @tag(42	)
repeat asx
    {
    repeat _x u128`100% of %d` ,}	, int64 falsey
@lengthOf( packetx ) `` , x @calculatedFrom( // trailing space 
""CRC32"" ) ,match
Pad as uint8x	{ 65535/// triple
:
//x
//x
rootA ,
    } ,
    @rightPad
    ( )
@calculatedFrom(	""{,}""
) repeat zchar//	t
`doc`
,//	t
repeat msg_type
// @lengthOf(
//
`doc` , char[
    65535 ] i8i8 `// not a comment`, int32	Z9_
    `100% of %d`, @calculatedFrom(	""a\\"" )@tag( 1 //	t
) @calculatedFrom(
//x
// @lengthOf(
""CRC32""	) char[]	Z9_ ,BodyLength  ,}
    packet T{ }
    packet chars{
    repeat uint32
    repeatCount //
`line1
line2` ,
@lengthOf( i8i8 // a // b
) repeat u128 chars // a // b
`100% of %d` ,repeat options1
    {
_x{
repeat falsey
    `a\` ,	match x_y_z as
    Packet { """ ++ [28040; 24687]%N ++ runes_of_ascii """ : u8x , }
, zchar @calculatedFrom( """ ++ [233]%N ++ runes_of_ascii "t" ++ [233]%N ++ runes_of_ascii """ ) ,  }, stringy //x
,repeat uint16 asx , } ,@tag(
    0
    )@leftPad
( '\x00' )i64 repeatCount, @lengthOf( lengthOf )  repeat float32 Logon
    ,}
    packet Logon { @tag( 0 )char[] chars ,  }
MetaData //	t
roots { char[] f32a ,
zchar[ 42 ] A`{ , }` , float32 zchar , } 	 ")).
Eval vm_compute in ("<<<M4209>>>" ++ check (runes_of_ascii "root packet falsey {
    zchar[1] MetaDataX,
    match len as A {
        [""it's""] : chars,
        """" : f32a,
    },
    rootA {
        repeat packetx {
            f64 Header `" ++ [28040; 24687; 31867; 22411]%N ++ runes_of_ascii "`,
        },
        repeat char[42] As,
        Foo @lengthOf(asx) `line1
        line2`,
        len {
            msg_type {
                float32 BodyLength @lengthOf(u) `line1
                line2`,
                repeat u8 u128 `
                `,
            },
            stringy {
                i8 float @calculatedFrom(""`tick`""),
            },
            u64 Logon,
            char[00] chars @lengthOf(T) `two words`,
        },
    },
    char[] falsey,
    @calculatedFrom(""" ++ [233]%N ++ runes_of_ascii "t" ++ [233]%N ++ runes_of_ascii """)
    zchar[10] Pad @calculatedFrom(""a\\""),
    repeat char[42] zchar,
    @tag(0)
    repeat u128 Header,
    @leftPad('\x00')
    BodyLength @calculatedFrom(""{,}"") `it's`,
    char[] leftPad,
    match body as repeatCount {
        // " ++ [128512]%N ++ runes_of_ascii " emoji
        [""\" ++ [233]%N ++ runes_of_ascii """, 00] : Pad,
        4294967296 : u8x,
        // `tick` ""quote"" 'q'
        //x
    },
}")).
Eval vm_compute in ("<<<M3746>>>" ++ check (runes_of_ascii "packet BodyLength {
    @lengthOf(As)
    @rightPad()
    @lengthOf(len)
    uint8 leftPad,
    u {
        match body as Header {
            // c
            [4294967296, 7, ""abc"", 1] : stringy,
        },
        char[0] leftPad @lengthOf(i8i8),
        u64 charz,
        repeat uint16 a1,
        // @lengthOf(
    },
    zchar[0123456789] BodyLength @calculatedFrom(""{,}""),
    BodyLength `{ , }`,
}

packet u8x {
    repeat len {
        u32 f32a `" ++ [28040; 24687; 31867; 22411]%N ++ runes_of_ascii "`,
        A,
        i64 matchKey,
    },
}

MetaData _x {
}

packet _x {
    f32a {
        f32 body,
        uint16 u128,
        matchKey @lengthOf(Packet),
    },
    repeat zchar[0123456789] float `" ++ [233]%N ++ runes_of_ascii "`,
    f32 i8i8 `doc`,
    repeat string_,
    A `
        `,
    match u128 as i8i8 {
        0123456789 : float,
        10 : roots,
        ""it's"" : _x,
        10 : Z9_,
        [""a\""b"", ""x y""] : matchKey,
        [
            ""\" ++ [233]%N ++ runes_of_ascii """, 10, """ ++ [28040; 24687]%N ++ runes_of_ascii """, 255, 0123456789,
            7, 007
        ] : Pad,
    },
}")).
Eval vm_compute in ("<<<M4444>>>" ++ check (runes_of_ascii "
packet 
matchKey  {  float64 Packet
`u8 x,`
    , @lengthOf(
    T 
)
@lengthOf(
chars// " ++ [27880; 37322]%N ++ runes_of_ascii "
	  ) 
        // `tick` ""quote"" 'q'

	@rightPad

( 
' '
    )	string_
falsey
,

    // 50% %s
  @rightPad  ( 
) repeat charz

    {repeat

    //
	u16

len 	 // " ++ [27880; 37322]%N ++ runes_of_ascii "
    , 
i64 falsey  // " ++ [128512]%N ++ runes_of_ascii " emoji
	@calculatedFrom( 	 // a // b
""{,}""

    ) 
    // " ++ [128512]%N ++ runes_of_ascii " emoji
,
repeat	// c
	char[
	7

]

x_y_z

    `a\` ,

len	@lengthOf(u)

    ,

}

    ,
char
o	//
`100% of %d`

    , uint8

chars
    @calculatedFrom(
    // " ++ [27880; 37322]%N ++ runes_of_ascii "
	// a // b
  ""\n"")
, } root
packet 
leftPad	{ @rightPad  ( 
)  u64

    pack  @calculatedFrom(""packet"")  ,float32

BodyLength
,

int32

packetx  // packet A { u8 x, }
	`it's` , }
	packet  float { stringy  msg_type

,Z9_

@calculatedFrom(

    ""1""  )`u8 x,`
	, @lengthOf( Header

    // @lengthOf(
    // packet A { u8 x, }
    )  
      // a // b

  trueish
	@calculatedFrom( ""x y""
	)
    ,}

")).
Eval vm_compute in ("<<<M3284>>>" ++ check (runes_of_ascii "// top
packet
    // c0
x_y_z
    // c1
{
    // c2
match
    // c3
leftPad
    // c4
as
    // c5
string_
    // c6
{
    // c7
0
    // c8
:
    // c9
A
    // c10
,
    // c11
""a	b""
    // c12
:
    // c13
x_y_z
    // c14
,
    // c15
}
    // c16
,
    // c17
@calculatedFrom(
    // c18
""\n""
    // c19
)
    // c20
metadata
    // c21
{
    // c22
repeat
    // c23
lengthOf
    // c24
f32a
    // c25
`line1
line2`
    // c26
,
    // c27
MetaDataX
    // c28
{
    // c29
u8x
    // c30
matchKey
    // c31
,
    // c32
}
    // c33
,
    // c34
uint8
    // c35
a1
    // c36
@lengthOf(
    // c37
body
    // c38
)
    // c39
,
    // c40
string
    // c41
charz
    // c42
`a\`
    // c43
,
    // c44
}
    // c45
,
    // c46
}
    // c47
packet
    // c48
charz
    // c49
{
    // c50
}
    // c51
MetaData
    // c52
A
    // c53
{
    // c54
}
    // c55
")).
Eval vm_compute in ("<<<M1014>>>" ++ check (runes_of_ascii "// `tick` ""quote"" 'q'
packet Packet	{  char	Header
    `crlf
line`,	}
    options
{falsey
    // trailing space 
    =
""a	b""
; }
    packet Pad
    // c
    { repeat
charz{
    int32
    Pad
    `a\`
,
/// triple
// 50% %s
char[
0123456789
    // packet A { u8 x, }
    ]
// " ++ [128512]%N ++ runes_of_ascii " emoji
// 50% %s
u128 @calculatedFrom( ""packet"")`// not a comment`
, // @lengthOf(
_x//x
i64_  , match o as
    /// triple
    tag {	[ 00 ] : pack} , }	,	@lengthOf(	stringy )
f32 body
`tab	here`
    ,
repeat	string_, @lengthOf( lengthOf )rootA
    @lengthOf( x ) , i8i8 Packet ,@tag(
    3  )
    zchar[  0123456789 ] A
`// not a comment` ,	repeat char[] BodyLength	`{ , }`
    /// triple
    , A stringy , } root packet
a1
{ } MetaData msg_type { string_
    A ,
uint16 f32a
,
/// triple
// @lengthOf(
asx MetaDataX
,zchar[ 00 ] msg_type// c
, }")).
Eval vm_compute in ("<<<M237>>>" ++ check (runes_of_ascii "packet
    body { @tag( 42
    ) char[ 4294967296
] chars @calculatedFrom( ""{,}"")
`doc` // " ++ [27880; 37322]%N ++ runes_of_ascii "
,
repeat string lengthOf , @tag(
    3 /// triple
) string float @lengthOf( o
),
    u32 pack `100% of %d`, stringy
@lengthOf( repeatCount
    ) `say ""hi""`  , float32 crc `two words` , } packet zchar { @tag(
    0
    )
    @tag(  1 // a // b
)
@lengthOf(
    // `tick` ""quote"" 'q'
    Z9_) u32 Logon	@calculatedFrom(  ""x y""
)	, @tag( //	t
1 )  string
    packetx@lengthOf( u8x
//	t
// `tick` ""quote"" 'q'
)	, zchar[10 ] uint8x
    /// triple
    `// not a comment`
, repeat // a // b
stringy{ i16
    Z9_`// not a comment` ,repeat zchar[
    4294967296 ] u
,zchar @calculatedFrom(  ""{,}"" ) `a\` , }
,
rootA  u128 , } packet asx {
repeat i64_ ,@lengthOf( msg_type )repeat Z9_ rootA
    , }")).
Eval vm_compute in ("<<<M1359>>>" ++ check (runes_of_ascii "root
    packet
packetx { @calculatedFrom(
""`tick`""
)
// packet A { u8 x, }
//
@tag( 255) @calculatedFrom( ""a	b"" )
repeat f64
stringy , repeat // a // b
Z9_ repeatCount `" ++ [233]%N ++ runes_of_ascii "`
    ,
// trailing space 
// packet A { u8 x, }
repeat float64 int `100% of %d` , zchar[ 0123456789 ] MetaDataX @lengthOf(
crc ) , // " ++ [128512]%N ++ runes_of_ascii " emoji
trueish {Logon
, i32 matchKey `doc`
, f64 float
    // a // b
    `// not a comment`
// a // b
// " ++ [27880; 37322]%N ++ runes_of_ascii "
, // trailing space 
i64 Z9_
@calculatedFrom( ""// no comment"" )	,
    }
,
    @lengthOf(
    BodyLength ) repeat
// " ++ [128512]%N ++ runes_of_ascii " emoji
//
u128
{ u128 , falsey repeatCount
    //
    ,} ,	match stringy
as a1{ 42 :BodyLength ,[ 4294967296 ,
0123456789 //x
] :	len,
[
// 50% %s
// 50% %s
""packet""
    , """ ++ [233]%N ++ runes_of_ascii "t" ++ [233]%N ++ runes_of_ascii """ ]	:
Pad// 50% %s
, 3 : stringy ,  } , }

")).
Eval vm_compute in ("<<<M936>>>" ++ check (runes_of_ascii "packet f32a {@leftPad
    ( '\x00' )match	repeatCount
as packetx	{	4294967296:	leftPad , [ ""packet"" , ""abc""
,  ""CRC32""
,1 , 007
] :
    //
    u128 // @lengthOf(
,
    } , @calculatedFrom(
""packet""
    )/// triple
@tag(
00	)
    char u8x @lengthOf(	rootA) , repeat	zchar[ 42
]metadata,
    float32 Z9_	, @lengthOf(
int ) u8x { repeat zchar[ 7
    // " ++ [27880; 37322]%N ++ runes_of_ascii "
    ] i8i8  `crlf
line` , u32 chars `// not a comment` ,
    rootA @calculatedFrom(""x y""
)
, zchar[1 ] chars @calculatedFrom( ""{,}""
    // a // b
    ) //
,}, float32
    Header @lengthOf(f32a )	, repeat options1 { repeat i64// " ++ [27880; 37322]%N ++ runes_of_ascii "
i8i8 // `tick` ""quote"" 'q'
`
`,} , repeat
    char[ 7 ]matchKey ,	o , u16
roots
@calculatedFrom(
// " ++ [128512]%N ++ runes_of_ascii " emoji
// " ++ [128512]%N ++ runes_of_ascii " emoji
""{,}"") `tab	here`
,
    }
")).
Eval vm_compute in ("<<<M592>>>" ++ check (runes_of_ascii "root
packet// a // b
options1{ repeatCount
//	t
// a // b
@calculatedFrom( ""{,}""
    )
,// packet A { u8 x, }
uint8x @calculatedFrom( ""\" ++ [233]%N ++ runes_of_ascii """) `crlf
line` , @calculatedFrom( ""x y""
) uint16
    packetx ,
    char[]// `tick` ""quote"" 'q'
f32a @calculatedFrom( """" ) `doc`
    ,
/// triple
//
@tag(
    3)
@calculatedFrom( """ ++ [233]%N ++ runes_of_ascii "t" ++ [233]%N ++ runes_of_ascii """ ) u32 trueish , u16 options1 , lengthOf @calculatedFrom( """" ) `doc` , @lengthOf(
    // " ++ [27880; 37322]%N ++ runes_of_ascii "
    Packet ) @tag(255) @lengthOf( f32a // a // b
)Header
@lengthOf( i8i8
) ,
    @leftPad ( ' ' ) repeat i8i8 ,
// @lengthOf(
// " ++ [27880; 37322]%N ++ runes_of_ascii "
match matchKey as
    stringy {42 :body, ""a\\""
    : chars , 7
    :
    charz // 50% %s
, """" : a1 , ""{,}""
    :string_	,""{,}"" : MetaDataX
} ,}")).
Eval vm_compute in ("<<<M385>>>" ++ check (runes_of_ascii "
options{ msg_type	= ""it's"" }
    // c
    root packet // @lengthOf(
stringy
    { @rightPad
(
    // " ++ [128512]%N ++ runes_of_ascii " emoji
    '0' ) //	t
char[ 42 ] calculatedFrom@lengthOf( _x ) ,@calculatedFrom(
""a\\"" // c
)
@lengthOf(// a // b
falsey  ) int16 repeatCount// @lengthOf(
@lengthOf( falsey )
    `it's`, // `tick` ""quote"" 'q'
tag //
{
match
    f32a as/// triple
zchar { 42: // 50% %s
string_	,// a // b
},
    }
, string_ @calculatedFrom(
""`tick`"" ) `` ,@lengthOf( leftPad ) i32 A
    `u8 x,`
    // a // b
    , @lengthOf( falsey ) zchar[
255] rootA
    // packet A { u8 x, }
    @lengthOf(  T  ) `" ++ [233]%N ++ runes_of_ascii "`, @lengthOf(
crc ) char[] // @lengthOf(
len	, } MetaData roots
{ As Pad, }")).
Eval vm_compute in ("<<<M605>>>" ++ check (runes_of_ascii "  packet body {char[ 3 ]  u
    ,zchar[ 007] lengthOf @lengthOf(// a // b
rootA ) , @leftPad('0'	) x{match packetx as  packetx
    {
    [ 10 ]
    : repeatCount ,
// a // b
// packet A { u8 x, }
[// c
""1""
, ""a\\""] :
rootA
    , }
, },
    Logon { trueish{ repeatCount i64_ `tab	here`, i64_ { repeat
//x
// 50% %s
Logon asx,} ,//	t
u64  chars
`say ""hi""` , // trailing space 
int64 trueish , } ,
    _x Foo,
repeat uint64 int `doc`,int64	chars ,} , repeat char[ 0 // packet A { u8 x, }
] Foo	,match
trueish as
_x {007 :// @lengthOf(
falsey
    , // `tick` ""quote"" 'q'
255// " ++ [27880; 37322]%N ++ runes_of_ascii "
: u , 1 :  msg_type , 10:
Packet , }
    , repeat Z9_ `100% of %d` , }")).
Eval vm_compute in ("<<<M3544>>>" ++ check (runes_of_ascii "packet repeatCount {
    char[00] uint8x,
    // a // b
    @calculatedFrom(""a\\"")
    asx @lengthOf(charz),
}

packet string_ {
    @calculatedFrom(""it's"")
    repeat char[] BodyLength,
    @calculatedFrom(""abc"")
    int32 x,
    @tag(255)
    @calculatedFrom(""" ++ [28040; 24687]%N ++ runes_of_ascii """)
    @tag(0123456789)
    char[65535] len,
    @tag(0123456789)
    @lengthOf(stringy)
    int,
    @tag(65535)
    MetaDataX {
        A `it's`,
        float64 options1 @calculatedFrom(""// no comment""),
    },
    @rightPad('\x00')
    zchar[007] rootA @lengthOf(lengthOf) `" ++ [28040; 24687; 31867; 22411]%N ++ runes_of_ascii "`,
    @lengthOf(crc)
    repeat string charz,
    @tag(1)
    repeat a1,
}")).
Eval vm_compute in ("<<<M3906>>>" ++ check (runes_of_ascii "packet u {
    @lengthOf(metadata)
    repeat Foo {
        match Logon as string_ {
            [""" ++ [28040; 24687]%N ++ runes_of_ascii """, ""x y"", ""a	b""] : Foo,
            ""\n"" : pack,
            00 : metadata,
            [
                ""a	b"", 42, ""a\\"", ""a\\"", ""x y"",
                ""packet""
            ] : MetaDataX,
        },
        i32 u8x,
        BodyLength,// packet A { u8 x, }
        MetaDataX,
    },
    repeat body trueish,
    tag {
        repeat u64 u128 `{ , }`,
        zchar[0] int @lengthOf(rootA),
    },// `tick` ""quote"" 'q'
    @rightPad()
    @tag(42)
    @calculatedFrom(""a\""b"")
    repeat Z9_ Z9_,
}")).
Eval vm_compute in ("<<<M780>>>" ++ check (runes_of_ascii "
packet trueish
{}root packet msg_type  {
// 50% %s
// " ++ [128512]%N ++ runes_of_ascii " emoji
char[]
u8x@lengthOf(int
)// 50% %s
,u128
{
//x
/// triple
Logon@calculatedFrom( ""1"" )
,
}, @lengthOf( calculatedFrom )
repeat f32 Z9_, u16 int
@lengthOf( i64_
    // 50% %s
    ) `line1
line2` , //x
@leftPad ('\x00') @calculatedFrom(""" ++ [28040; 24687]%N ++ runes_of_ascii """)  int8 lengthOf
@calculatedFrom( ""x y"" ) `crlf
line`
,
uint8x , @lengthOf( packetx )
    /// triple
    char[]
Packet // " ++ [27880; 37322]%N ++ runes_of_ascii "
,@leftPad	( )
i64_	Header
,// 50% %s
u32 o @lengthOf(
    falsey)
, @lengthOf(	MetaDataX
)match Foo as trueish
{
    [
""it's"" ,10]:
Pad , },
    }")).
Eval vm_compute in ("<<<M1334>>>" ++ check (runes_of_ascii "// a // b
MetaData
    T
    {
// @lengthOf(
// trailing space 
Foo Logon ,Logon lengthOf , char[00
    ]
//
// @lengthOf(
pack
    ,
    char[7 //
]
    // " ++ [128512]%N ++ runes_of_ascii " emoji
    i8i8 `line1
line2` ,} packet trueish // trailing space 
{	@calculatedFrom(	""abc""
) @leftPad
( '0') @lengthOf(trueish) uint8x
    ,match x as
Packet //
{// a // b
""" ++ [128512]%N ++ runes_of_ascii """: repeatCount , [ 007 , 255, //x
4294967296 , 255// a // b
, """ ++ [28040; 24687]%N ++ runes_of_ascii """ , ""\n"" // a // b
,""\" ++ [233]%N ++ runes_of_ascii """ ,
""abc""
] :  A
    , ""abc"" : packetx  , }
, @tag(
7 ) @lengthOf(msg_type )
    @tag( 00 )
int
    pack
`" ++ [28040; 24687; 31867; 22411]%N ++ runes_of_ascii "`	, }
// a // b
")).
Eval vm_compute in ("<<<M765>>>" ++ check (runes_of_ascii "packet packetx
{
    match
    // " ++ [27880; 37322]%N ++ runes_of_ascii "
    tag	as body  { [255 ]
    :u8x ,} ,@lengthOf(lengthOf
) MetaDataX
, u128 // c
repeatCount
,
@leftPad
(
    )	match tag	as Pad { ""\n""//	t
: o [7 ] :BodyLength ,	4294967296 : roots
, 4294967296 :rootA ,
""x y"":	a1, } ,
    //
    u16// " ++ [27880; 37322]%N ++ runes_of_ascii "
Logon ,match len
    as tag{ [ ""// no comment""
    ] : MetaDataX ,
    ""1"" :
    roots ,""\n"" //
:pack, ""CRC32""
:
f32a ,}
    , @lengthOf( crc
    )
repeat falsey, }
MetaData
BodyLength {char[	1
    ]//	t
packetx `doc` ,}// " ++ [128512]%N ++ runes_of_ascii " emoji
packet crc {
}")).
Eval vm_compute in ("<<<M4306>>>" ++ check (runes_of_ascii "

  options {
	}  packet
i8i8{ 
	    //x
} root 
packet
crc  {

    @calculatedFrom(	// 50% %s
	""a\\""
) @calculatedFrom(
""// no comment"" 
)

@calculatedFrom(""packet"" ) repeat
As 
{ 

    // a // b

// c
	zchar[	7
	]falsey// @lengthOf(
    @lengthOf(// " ++ [128512]%N ++ runes_of_ascii " emoji
	  int ) ,  repeat zchar[
    007 ] 
i8i8 `line1
line2`
, 
}
	,	repeat

    Logon {
	Foo  @lengthOf( 
    //
  // c
	chars	)

    , match matchKey  as	Pad{

    42
:  // 50% %s
	i8i8
, }  // `tick` ""quote"" 'q'
    	, } , 
}
")).
Eval vm_compute in ("<<<M4416>>>" ++ check (runes_of_ascii "options{	repeatCount =
    false  // trailing space 
;

Packet

= 
""{,}"" 
	//
    ; float
//
      =	""`tick`"" T =
    char[	007
] ;

    calculatedFrom =

uint8  }

packet	x { int32

options1@calculatedFrom(	""{,}"" 
)
    // a // b
	// c
	`tab	here`
	,

match  lengthOf
as
    u128{  /// triple
		10

:
rootA,
// c
    	[
7//	t
  	,
0
]	: 
Header ,
    // @lengthOf(
// a // b
    3 :	i8i8
    , ""1"":	falsey

    ""`tick`"" : matchKey
    ,
""a\\""

    : 
tag ,} 
, }
")).
Eval vm_compute in ("<<<M296>>>" ++ check (runes_of_ascii "MetaData
    string_ // packet A { u8 x, }
{
u128 chars `u8 x,`
,
u8x // packet A { u8 x, }
leftPad
, } packet float {
    //	t
    trueish {
float { u16 stringy , }
    ,crc @calculatedFrom( ""// no comment""),// packet A { u8 x, }
zchar[
00 ] x_y_z @lengthOf( trueish )
    `crlf
line` ,}
, o{u8x
    { As @calculatedFrom(""a	b""
//x
// trailing space 
)
    , zchar[ 3]MetaDataX , } , char[ 255]  _x
,}
    // " ++ [128512]%N ++ runes_of_ascii " emoji
    , }
packet repeatCount { } 	 ")).
Eval vm_compute in ("<<<M530>>>" ++ check (runes_of_ascii "packet
    len	{ uint8
matchKey	,
    repeat body
,
    float32 int @lengthOf(T),} packet _x { @lengthOf(
crc ) float64 msg_type
// c
// packet A { u8 x, }
@lengthOf(rootA) `a\`// trailing space 
,}	root packet
    packetx// " ++ [128512]%N ++ runes_of_ascii " emoji
{ A Header
, repeat u8x {
    char[// " ++ [27880; 37322]%N ++ runes_of_ascii "
0
]
    leftPad @calculatedFrom( ""{,}""
) ,
    float32 calculatedFrom
    `say ""hi""` ,
    Logon string_ , } ,
// 50% %s
// @lengthOf(
zchar[  65535 ]	pack ,
    }")).
Eval vm_compute in ("<<<M113>>>" ++ check (runes_of_ascii "// trailing space 
root
    packet	repeatCount
{ @lengthOf(
    _x
) msg_type repeatCount
    // a // b
    ,repeat
//	t
// @lengthOf(
uint16 u
//
/// triple
,	zchar[65535 ] f32a `100% of %d` ,}
/// triple
// " ++ [27880; 37322]%N ++ runes_of_ascii "
packet i64_ {
@rightPad
( )  BodyLength @calculatedFrom(
    ""abc"" )
`line1
line2` ,
}
MetaData o {zchar[ 65535 ]// `tick` ""quote"" 'q'
uint8x // 50% %s
, zchar[1 ]
i64_
,
    zchar[ 4294967296 ]As , }
")).
Eval vm_compute in ("<<<M3441>>>" ++ check (runes_of_ascii "packet Frame {
    u8 HK,
    u8 BK,
    u8 TK,
    match HK as Hdr {
        1 : HdrA,
        2 : HdrB,
    },
    match BK as Body {
        1 : BodyA,
        2 : BodyB,
    },
    match TK as Trl {
        1 : TrlA,
    },
}
packet HdrA {
    u8 a,
}
packet HdrB {
    u16 b,
}
packet BodyA {
    u32 c,
}
packet BodyB {
    u64 d,
}
packet TrlA {
    u8 e,
}
root packet Msg {
    Frame,
    u8 x,
}
")).
Eval vm_compute in ("<<<M1051>>>" ++ check (runes_of_ascii "packet
BodyLength { @tag( 00  ) @tag( 7
    ) repeat
uint8
charz `// not a comment`
// a // b
// 50% %s
,
@tag( 255 )f64 packetx
@lengthOf( Logon ) `100% of %d`
, @tag( 0 )
msg_type falsey ,
repeat
Foo
    { match o	as
// @lengthOf(
// a // b
u128	{
10: body , 65535 :o ,
4294967296 :  calculatedFrom,""" ++ [28040; 24687]%N ++ runes_of_ascii """
    : zchar
, ""packet"" : f32a} ,match u8x
as  stringy{ ""x y"" :leftPad , } ,} ,
}")).
Eval vm_compute in ("<<<M3868>>>" ++ check (runes_of_ascii "

  packet
    len 	 // 50% %s

  {
	@calculatedFrom( ""it's""
	)
calculatedFrom /// triple
  	msg_type,}options
	{zchar =3
    ;

    T =
	""" ++ [28040; 24687]%N ++ runes_of_ascii """ ; x
=
char[	// 50% %s
    3
    ]
Foo =false
;  } options  { zchar
	= ""`tick`"" ;
T=
true 
Packet
	= 
' ' }
	options {A	=

    ""\n""	;
	roots  =
""1"";lengthOf
    =
    0;
metadata
        // " ++ [128512]%N ++ runes_of_ascii " emoji
  =
0123456789

}
")).
Eval vm_compute in ("<<<M977>>>" ++ check (runes_of_ascii "packet zchar
    {	i32 lengthOf
// trailing space 
// 50% %s
@calculatedFrom(  ""{,}""  )`100% of %d` , @tag( 4294967296 )
@rightPad( '0' ) match
leftPad as packetx { [
    ""`tick`"" ] :BodyLength
,[
00 ,3,""it's"" ] :
a1
    , 007 :
f32a , """ ++ [28040; 24687]%N ++ runes_of_ascii """// 50% %s
: // " ++ [27880; 37322]%N ++ runes_of_ascii "
body ,1 ://	t
u128 ,},
@calculatedFrom(""CRC32"")
f32a @lengthOf(	charz )
    `say ""hi""`	,
}
")).
Eval vm_compute in ("<<<M868>>>" ++ check (runes_of_ascii "packet chars {	@calculatedFrom(
""// no comment"" )	Logon @lengthOf( //x
rootA )	, match
    // @lengthOf(
    T as
    calculatedFrom
{[ 0
]:
    metadata ,	}
, @lengthOf( // 50% %s
string_)
//
// packet A { u8 x, }
repeat
    uint8x // c
falsey , @rightPad
(	'\x00') trueish
@calculatedFrom(  """ ++ [28040; 24687]%N ++ runes_of_ascii """
/// triple
// " ++ [128512]%N ++ runes_of_ascii " emoji
)`{ , }`, }
")).
Eval vm_compute in ("<<<M4403>>>" ++ check (runes_of_ascii "packet string_ {
    @lengthOf(metadata)
    zchar[0123456789] A,
    rootA zchar,
    u32 A @calculatedFrom(""abc""),
    @calculatedFrom(""" ++ [28040; 24687]%N ++ runes_of_ascii """)
    match chars as body {
        ""// no comment"" : float,
        1 : stringy,
        [1, 42] : roots,
        """ ++ [28040; 24687]%N ++ runes_of_ascii """ : a1,
        ""packet"" : repeatCount,
        7 : int,
    },
}")).
Eval vm_compute in ("<<<M973>>>" ++ check (runes_of_ascii "packet Packet
{repeatCount	{char[ 65535  ]
Logon
    , repeat packetx { x_y_z
@calculatedFrom(	""""
    ) ,	}  , repeat
u64// @lengthOf(
f32a
    , string a1 @lengthOf( calculatedFrom
) ,} , @lengthOf( x ) int64
    Logon ,
    @tag( 10 )zchar[0 ]metadata , }
MetaData //
a1 { charz float
    ,i32 i8i8	`" ++ [233]%N ++ runes_of_ascii "`, }")).
Eval vm_compute in ("<<<M3509>>>" ++ check (runes_of_ascii "packet MetaDataX {
    @tag(10)
    // " ++ [128512]%N ++ runes_of_ascii " emoji
    @leftPad()
    string lengthOf @calculatedFrom(""packet""),
    string metadata `line1
    line2`,
    @lengthOf(options1)
    _x {
        zchar[10] u128 `crlf
        line`,
    },
    a1 body,
    char[007] MetaDataX @calculatedFrom(""it's""),
}")).
Eval vm_compute in ("<<<M1210>>>" ++ check (runes_of_ascii "
packet metadata
{ Foo
`tab	here`, char[ 42]i64_ @calculatedFrom( ""CRC32"" ) ,f64 i8i8 `a\` , // `tick` ""quote"" 'q'
repeatCount @lengthOf( x
) ,  } packet leftPad{ zchar[0123456789
/// triple
// @lengthOf(
]
int ,	}
MetaData	rootA {
    string body , zchar[ 007 ]  msg_type //x
, }
")).
Eval vm_compute in ("<<<M1672>>>" ++ check (runes_of_ascii "// 50% %s
packet	a1
    { zchar[
// a // b
// 50% %s
007]
T `it's`
    ,@rightPad
    // a // b
    (
'\x00')
    o repeatCount , }  packet Logon {  }packet	Logon //x
{ repeat // " ++ [128512]%N ++ runes_of_ascii " emoji
uint16 u128
    //
    `a\`,
falsey
@calculatedFrom(""packet"" ""packet"" ) ,
    } 	 ")).
Eval vm_compute in ("<<<M1018>>>" ++ check (runes_of_ascii "// `tick` ""quote"" 'q'
options{ u // `tick` ""quote"" 'q'
= false ;pack = 4294967296 u128 // " ++ [128512]%N ++ runes_of_ascii " emoji
= i8;
// a // b
// 50% %s
roots
= ""packet"";
falsey // 50% %s
=  007
;	} options {
    // @lengthOf(
    BodyLength = true ; metadata =  true x /// triple
=  uint16 ; }
")).
Eval vm_compute in ("<<<M1577>>>" ++ check (runes_of_ascii "// 50% %s
packet	a1
    { zchar[
// a // b
// 50% %s
007]
T `it's`
    ,@rightPad
    // a // b
    (
'\x00') )
    o repeatCount , }  packet Logon {  }packet	Logon //x
{ repeat // " ++ [128512]%N ++ runes_of_ascii " emoji
uint16 u128
    //
    `a\`,
falsey
@calculatedFrom(""packet"" ) ,
    } 	 ")).
Eval vm_compute in ("<<<M1518>>>" ++ check (runes_of_ascii "// 50% %s
a1	packet
    { zchar[
// a // b
// 50% %s
007]
T `it's`
    ,@rightPad
    // a // b
    (
'\x00')
    o repeatCount , }  packet Logon {  }packet	Logon //x
{ repeat // " ++ [128512]%N ++ runes_of_ascii " emoji
uint16 u128
    //
    `a\`,
falsey
@calculatedFrom(""packet"" ) ,
    } 	 ")).
Eval vm_compute in ("<<<M1678>>>" ++ check (runes_of_ascii "// 50% %s
packet	a1
    { zchar[
// a // b
// 50% %s
007]
T `it's`
    ,@rightPad
    // a // b
    (
'\x00')
    o repeatCount , }  packet Logon {  }packet	Logon //x
{ repeat // " ++ [128512]%N ++ runes_of_ascii " emoji
uint16 u128
    //
    `a\`,
falsey
@calculatedFrom(""packet"" , )
    } 	 ")).
Eval vm_compute in ("<<<M1624>>>" ++ check (runes_of_ascii "// 50% %s
packet	a1
    { zchar[
// a // b
// 50% %s
007]
T `it's`
    ,@rightPad
    // a // b
    (
'\x00')
    o repeatCount , }  packet Logon {  }u32	Logon //x
{ repeat // " ++ [128512]%N ++ runes_of_ascii " emoji
uint16 u128
    //
    `a\`,
falsey
@calculatedFrom(""packet"" ) ,
    } 	 ")).
Eval vm_compute in ("<<<M3617>>>" ++ check (runes_of_ascii "  root
packet
zchar {  @calculatedFrom( ""\" ++ [233]%N ++ runes_of_ascii """
) 
@rightPad 
(

// a // b
)
	@rightPad	('\x00')
    int8

Foo
,	}packet  calculatedFrom{
u8x
    `doc` ,  }  MetaData

x
{

}	options{ repeatCount

    =

    ""x y""
	;leftPad =

""" ++ [128512]%N ++ runes_of_ascii """
    tag=

uint8}
//	t
")).
Eval vm_compute in ("<<<M3788>>>" ++ check (runes_of_ascii "packet metadata {
    // trailing space 
    roots uint8x,
    @leftPad()
    zchar[3] Header,
    i64_ roots,
    @lengthOf(A)
    // " ++ [128512]%N ++ runes_of_ascii " emoji
    @lengthOf(pack)
    @lengthOf(calculatedFrom)
    // trailing space 
    u8 charz `crlf
    line`,
}")).
Eval vm_compute in ("<<<M229>>>" ++ check (runes_of_ascii "packet As{  zchar[3 ]
    o @lengthOf(
    // trailing space 
    Header)`doc` , repeat char[] string_ , @tag(1 )
match BodyLength
    //	t
    as msg_type
{ """ ++ [28040; 24687]%N ++ runes_of_ascii """  :u8x, }
,  @tag(255 )repeat char[] crc
    // `tick` ""quote"" 'q'
    , }
")).
Eval vm_compute in ("<<<M3772>>>" ++ check (runes_of_ascii "root packet falsey {
    string stringy `tab	here`,
    repeat float As,
    char[] Packet,
    i8 body @lengthOf(T),
    repeat A `a\`,
    u8x @calculatedFrom(""\" ++ [233]%N ++ runes_of_ascii """) `tab	here`,
    float,
    char[42] i8i8 `u8 x,`,// a // b
}")).
Eval vm_compute in ("<<<M471>>>" ++ check (runes_of_ascii "packet
metadata { // " ++ [27880; 37322]%N ++ runes_of_ascii "
f64 u8x	,u16
    o `tab	here` , msg_type
    { u8 a1 @lengthOf( u
// c
// @lengthOf(
)
    `tab	here` , } , char[65535
] crc
@calculatedFrom( ""CRC32"") ,
    }
    MetaData Logon{ msg_type x ,  }")).
Eval vm_compute in ("<<<M4465>>>" ++ check (runes_of_ascii "packet A {
    match k as n {
        ""x\
                y"" : B,
        [""x\
                y"", 1] : C,
        [
            1, 2, 3, 4, 5,
            ""x\
                        y""
        ] : D,
    },
}")).
Eval vm_compute in ("<<<M1655>>>" ++ check (runes_of_ascii "// 50% %s
packet	a1
    { zchar[
// a // b
// 50% %s
007]
T `it's`
    ,@rightPad
    // a // b
    (
'\x00')
    o repeatCount , }  packet Logon {  }packet	Logon //x
{ repeat // " ++ [128512]%N ++ runes_of_ascii " emoji
uint16 u128")).
Eval vm_compute in ("<<<M4174>>>" ++ check (runes_of_ascii "packet pack {
    match options1 as trueish {
        10 : packetx,
        [""a\\"", 00, 007, 00] : f32a,
        [0123456789, ""it's"", ""a\\""] : body,
    },
    a1 `it's`,
    repeat A,
}
//	t")).
Eval vm_compute in ("<<<M495>>>" ++ check (runes_of_ascii "options { lengthOf =
    uint32 // packet A { u8 x, }
zchar
=
/// triple
//x
true
/// triple
//
; lengthOf =0123456789
tag = ""it's"" // " ++ [27880; 37322]%N ++ runes_of_ascii "
;matchKey =
zchar[ 255
    //x
    ]}
")).
Eval vm_compute in ("<<<M112>>>" ++ check (runes_of_ascii "options {
body ='\x00' u128 =
    i16 ; float = // packet A { u8 x, }
zchar[
65535 ]
; Z9_ =
""// no comment"" trueish
=// packet A { u8 x, }
false } // packet A { u8 x, }")).
Eval vm_compute in ("<<<M3889>>>" ++ check (runes_of_ascii "root 
packet
    rootA

    {

@tag(

    7)@calculatedFrom( ""`tick`"")a1 
    // packet A { u8 x, }
  @calculatedFrom(""" ++ [28040; 24687]%N ++ runes_of_ascii """
	)	, 

// packet A { u8 x, }

//x

}
")).
Eval vm_compute in ("<<<M635>>>" ++ check (runes_of_ascii "root
    packet float{  repeat
    i8i8 { pack , }
    , f64
uint8x ,	}	packet chars { } root //	t
packet
    float { tag @lengthOf(
T
    )
`tab	here`
, }")).
Eval vm_compute in ("<<<M2047>>>" ++ check (runes_of_ascii "MetaData MetaData BodyLength
{ int8 Foo
, string
    MetaDataX , float zchar ,pack options1
,asx string_, }
packet u8x {Foo@lengthOf(charz )
`" ++ [28040; 24687; 31867; 22411]%N ++ runes_of_ascii "`,  }
")).
Eval vm_compute in ("<<<M0>>>" ++ check (runes_of_ascii "packet uint8x {	@calculatedFrom(""a	b""
) i32
//
// " ++ [128512]%N ++ runes_of_ascii " emoji
charz ,
    match
x //x
as	x
{ ""a	b"":  lengthOf
,}, leftPad `// not a comment`
    , }
")).
Eval vm_compute in ("<<<M2158>>>" ++ check (runes_of_ascii "MetaData BodyLength
{ int8 Foo
, string
    MetaDataX , float zchar ,pack options1
,asx string_, }
packet u8x {int32@lengthOf(charz )
`" ++ [28040; 24687; 31867; 22411]%N ++ runes_of_ascii "`,  }
")).
Eval vm_compute in ("<<<M3353>>>" ++ check (runes_of_ascii "// top
root
    // c0
packet
    // c1
P { // c3a
  // c3b
char // c4
c // c5a
  // c5b
, // c6
u8 // c7a
  // c7b
x // c8
, // c9
}
    // c10
")).
Eval vm_compute in ("<<<M2167>>>" ++ check (runes_of_ascii "MetaData BodyLength
{ int8 Foo
, string
    MetaDataX , float zchar ,pack options1
,asx string_, }
packet u8x {Foo@lengthOf() charz
`" ++ [28040; 24687; 31867; 22411]%N ++ runes_of_ascii "`,  }
")).
Eval vm_compute in ("<<<M4456>>>" ++ check (runes_of_ascii "MetaData pack {
    u8 _x,
    //	t
    zchar uint8x `two words`,
    chars i8i8,
}

MetaData chars {
    //
    i64 pack ``,
}

packet _x {
}")).
Eval vm_compute in ("<<<M2178>>>" ++ check (runes_of_ascii "MetaData BodyLength
{ int8 Foo
, string
    MetaDataX , float zchar ,pack options1
,asx string_, }
packet u8x {Foo@lengthOf(charz )
007,  }
")).
Eval vm_compute in ("<<<M48>>>" ++ check (runes_of_ascii "// c
MetaData Packet { i8i8 repeatCount , calculatedFrom
falsey `
` // 50% %s
, float32
tag//
,string Packet `line1
line2`
    ,	}
// c
")).
Eval vm_compute in ("<<<M2044>>>" ++ check (runes_of_ascii "
packet leftPad {
@leftPad( '0')
u32
caf" ++ [233]%N ++ runes_of_ascii "_1 `100% of %d` ,repeat// 50% %s
i8 chars
    ,
} MetaData
    f32a
{ // packet A { u8 x, }
}")).
Eval vm_compute in ("<<<M2035>>>" ++ check (runes_of_ascii "
packet leftPad {
@leftPad#( '0')
u32
i64_ `100% of %d` ,repeat// 50% %s
i8 chars
    ,
} MetaData
    f32a
{ // packet A { u8 x, }
}")).
Eval vm_compute in ("<<<M1963>>>" ++ check (runes_of_ascii "
packet leftPad {
@leftPad( '0')
i64_
u32 `100% of %d` ,repeat// 50% %s
i8 chars
    ,
} MetaData
    f32a
{ // packet A { u8 x, }
}")).
Eval vm_compute in ("<<<M2280>>>" ++ check (runes_of_ascii "options
    {
x_y_z// " ++ [27880; 37322]%N ++ runes_of_ascii "
= 10 ; }
packet body {
    @calculatedFrom(
// trailing space 
// " ++ [27880; 37322]%N ++ runes_of_ascii "
""1""
)	match as T Foo
    {
255 :T , }
,}")).
Eval vm_compute in ("<<<M2233>>>" ++ check (runes_of_ascii "options
    {
x_y_z// " ++ [27880; 37322]%N ++ runes_of_ascii "
= 10  }
packet body {
    @calculatedFrom(
// trailing space 
// " ++ [27880; 37322]%N ++ runes_of_ascii "
""1""
)	match T as Foo
    {
255 :T , }
,}")).
Eval vm_compute in ("<<<M1951>>>" ++ check (runes_of_ascii "
packet leftPad {
@leftPad( )
u32
i64_ `100% of %d` ,repeat// 50% %s
i8 chars
    ,
} MetaData
    f32a
{ // packet A { u8 x, }
}")).
Eval vm_compute in ("<<<M2429>>>" ++ check (runes_of_ascii "MetaData
    calculatedFrom
{ zchar[  10 ]
    As`tab	here`,
    }// trailing space 
options  { roots = ='\x00' ; } packet A
{ }
")).
Eval vm_compute in ("<<<M2006>>>" ++ check (runes_of_ascii "
packet leftPad {
@leftPad( '0')
u32
i64_ `100% of %d` ,repeat// 50% %s
i8 chars
    ,
} 
    f32a
{ // packet A { u8 x, }
}")).
Eval vm_compute in ("<<<M1255>>>" ++ check (runes_of_ascii "packet chars {@tag( //	t
007 ) roots
    zchar , } packet
MetaDataX  { }
// 50% %s
// packet A { u8 x, }
MetaData
int { }
")).
Eval vm_compute in ("<<<M4213>>>" ++ check (runes_of_ascii "MetaData leftPad {
    uint64 tag `{ , }`,
    i64 chars `
        `,
}

packet MetaDataX {
    char[0] x `100% of %d`,
}")).
Eval vm_compute in ("<<<M1885>>>" ++ check (runes_of_ascii "packet o {
    roots `it's`
// trailing space 
//x
, char[ 42
    ]  A, // " ++ [27880; 37322]%N ++ runes_of_ascii "
uint64
repeatCount
    `crlf
line`
,}")).
Eval vm_compute in ("<<<M4331>>>" ++ check (runes_of_ascii "packet leftPad {
    @leftPad('0')
    u32 i64_,
    repeat i8 chars,
}

MetaData f32a {
    // packet A { u8 x, }
}")).
Eval vm_compute in ("<<<M1869>>>" ++ check (runes_of_ascii "packet o {
    roots `it's`
// trailing space 
//x
, char[ 42
    A  ], // " ++ [27880; 37322]%N ++ runes_of_ascii "
f64
repeatCount
    `crlf
line`
,}")).
Eval vm_compute in ("<<<M4273>>>" ++ check (runes_of_ascii "
packet

    A {  match k	as
	n
	{
	[

    ""a"", ""bb""
	, ""c c""
,

""d""

    , 
""e""
	]

: B
2 : 
C }
    ,
	} ")).
Eval vm_compute in ("<<<M1580>>>" ++ check (runes_of_ascii "// 50% %s
packet	a1
    { zchar[
// a // b
// 50% %s
007]
T `it's`
    ,@rightPad
    // a // b
    (
'\x00'")).
Eval vm_compute in ("<<<M2996>>>" ++ check (runes_of_ascii "packet A {
  match k as n {
    [""a"", ""bb"", 007, ""d"", ""e"", 66, ""g"", ""h"", 9, ""j"", ""k""] : B,
    2 : C
  },
}")).
Eval vm_compute in ("<<<M2992>>>" ++ check (runes_of_ascii "packet A {
  match k as n {
    [""a"", 22, ""c c"", 4, ""e"", 66, ""g"", 8, ""i"", 10, ""k""] : B,
    2 : C
  },
}")).
Eval vm_compute in ("<<<M1908>>>" ++ check (runes_of_ascii "packet o {
    roots `it's`
// trailing space 
//x
, char[ 42
    ]  A, // " ++ [27880; 37322]%N ++ runes_of_ascii "
f64
repeatCount
    `c")).
Eval vm_compute in ("<<<M3747>>>" ++ check (runes_of_ascii "root packet falsey {
    int falsey,
    u8 Packet @lengthOf(f32a) `u8 x,`,
}// `tick` ""quote"" 'q'")).
Eval vm_compute in ("<<<M3823>>>" ++ check (runes_of_ascii "
//
      options { 
}  packet  leftPad
{

}
packet
trueish 
{i8 pack ,
	}
packet  body  { }
")).
Eval vm_compute in ("<<<M849>>>" ++ check (runes_of_ascii "packet
a1 { @tag( 1
) rootA@calculatedFrom( ""a	b""
)	, // " ++ [128512]%N ++ runes_of_ascii " emoji
}options {lengthOf = i8 }
")).
Eval vm_compute in ("<<<M1468>>>" ++ check (runes_of_ascii "packet
T
{ match repeatCount as	calculatedFrom
{ [65535 ]	: : As	,
} ,}
// trailing space 
")).
Eval vm_compute in ("<<<M1788>>>" ++ check (runes_of_ascii "options{  lengthOf =//x
i16;
    BodyLength = 0 ; pack
= false;
    A MetaData char[ 3 ] }")).
Eval vm_compute in ("<<<M1498>>>" ++ check (runes_of_ascii "packet
T
{ match repeatCount as	calculatedFrom
{ [65535 ]	: As	,
} ,}
// trailing space 
")).
Eval vm_compute in ("<<<M2969>>>" ++ check (runes_of_ascii "packet A {
  match k as n {
    [1, 22, ""c c"", 4, 5, ""f"", 7, 8, ""i""] : B
    2 : C
  },
}")).
Eval vm_compute in ("<<<M2940>>>" ++ check (runes_of_ascii "packet A {
  match k as n {
    [""a"", 22, ""c c"", 4, ""e"", 66, ""g""] : B,
    2 : C
  },
}")).
Eval vm_compute in ("<<<M3795>>>" ++ check (runes_of_ascii "
MetaData
    uint8x { MetaDataX

    // " ++ [128512]%N ++ runes_of_ascii " emoji
	_x	,
char[
7

]  pack `it's`
, 
}
")).
Eval vm_compute in ("<<<M1732>>>" ++ check (runes_of_ascii "options{  lengthOf =//x
;i16
    BodyLength = 0 ; pack
= false;
    A = char[ 3 ] }")).
Eval vm_compute in ("<<<M1755>>>" ++ check (runes_of_ascii "options{  lengthOf =//x
i16;
    BodyLength = 0  pack
= false;
    A = char[ 3 ] }")).
Eval vm_compute in ("<<<M1730>>>" ++ check (runes_of_ascii "options{  lengthOf =//x
;
    BodyLength = 0 ; pack
= false;
    A = char[ 3 ] }")).
Eval vm_compute in ("<<<M1219>>>" ++ check (runes_of_ascii "// 50% %s
packet rootA { @lengthOf( //	t
x_y_z)
repeat
    charz
matchKey	,	}
")).
Eval vm_compute in ("<<<M3263>>>" ++ check (runes_of_ascii "MetaData Foo { zchar[ 0 ] matchKey , } options // c
{ lengthOf = i32 u = 00 ; }")).
Eval vm_compute in ("<<<M1159>>>" ++ check (runes_of_ascii "MetaData uint8x{ MetaDataX
    // " ++ [128512]%N ++ runes_of_ascii " emoji
    _x
, char[ 7 ] pack`it's`
, }")).
Eval vm_compute in ("<<<M211>>>" ++ check (runes_of_ascii "  packet  matchKey {@lengthOf( Pad ) repeat int16  trueish `two words` , }")).
Eval vm_compute in ("<<<M2908>>>" ++ check (runes_of_ascii "packet A {
  match k as n {
    [1, 22, 007, 4, 5] : B,
    2 : C
  },
}")).
Eval vm_compute in ("<<<M2892>>>" ++ check (runes_of_ascii "packet A {
  match k as n {
    [""a"", ""bb"", 007] : B,
    2 : C
  },
}")).
Eval vm_compute in ("<<<M4212>>>" ++ check (runes_of_ascii "

  MetaData
    M
    {
	u8

    x 
`a
b` 
,T t  `a
b`
	,
    }

")).
Eval vm_compute in ("<<<M3756>>>" ++ check (runes_of_ascii "  packet
x_y_z{

body { // " ++ [128512]%N ++ runes_of_ascii " emoji
_x BodyLength , }

    ,	}
")).
Eval vm_compute in ("<<<M1779>>>" ++ check (runes_of_ascii "options{  lengthOf =//x
i16;
    BodyLength = 0 ; pack
= false")).
Eval vm_compute in ("<<<M2873>>>" ++ check (runes_of_ascii "packet A {
  match k as n {
    [1, 22] : B,
    2 : C
  },
}")).
Eval vm_compute in ("<<<M781>>>" ++ check (runes_of_ascii "options { charz =
    false
    ; uint8x =	'0'
    ; } // " ++ [27880; 37322]%N)).
Eval vm_compute in ("<<<M4453>>>" ++ check (runes_of_ascii "MetaData M {
    u8 x `tab
    	x`,
    T t `tab
    	x`,
}")).
Eval vm_compute in ("<<<M1980>>>" ++ check (runes_of_ascii "
packet leftPad {
@leftPad( '0')
u32
i64_ `100% of %d`")).
Eval vm_compute in ("<<<M2025>>>" ++ check (runes_of_ascii "
packet leftPad {
@leftPad( '0')
u32
i64_ `100% of ")).
Eval vm_compute in ("<<<M3818>>>" ++ check (runes_of_ascii "options {
    matchKey = ""x y"";
    len = '\x00'
}")).
Eval vm_compute in ("<<<M1759>>>" ++ check (runes_of_ascii "options{  lengthOf =//x
i16;
    BodyLength = 0")).
Eval vm_compute in ("<<<M3016>>>" ++ check (runes_of_ascii "MetaData M {
    u8 x `a
b`,
    T t `a
b`,
}")).
Eval vm_compute in ("<<<M3052>>>" ++ check (runes_of_ascii "MetaData M {
    u8 x `
x`,
    T t `
x`,
}")).
Eval vm_compute in ("<<<M3632>>>" ++ check (runes_of_ascii "  packet
A  {
    u8 x
`d" ++ [8233]%N ++ runes_of_ascii "`

,	// c" ++ [8233]%N ++ runes_of_ascii "
}

")).
Eval vm_compute in ("<<<M2616>>>" ++ check (runes_of_ascii "packet A { match k as n { [1,] : B }, }")).
Eval vm_compute in ("<<<M2614>>>" ++ check (runes_of_ascii "packet A { match k as n { 1 : B,, }, }")).
Eval vm_compute in ("<<<M746>>>" ++ check (runes_of_ascii "
options { trueish=char[ 255 ] ; }
")).
Eval vm_compute in ("<<<M61>>>" ++ check (runes_of_ascii "
options{ Z9_ =7 ;zchar=	f64  ; }
")).
Eval vm_compute in ("<<<M2599>>>" ++ check (runes_of_ascii "packet A { x @calculatedFrom(c), }")).
Eval vm_compute in ("<<<M1446>>>" ++ check (runes_of_ascii "packet
T
{ match repeatCount as")).
Eval vm_compute in ("<<<M2726>>>" ++ check (runes_of_ascii "t" ++ [21; 14; 65533; 65533; 65533; 65533]%N ++ runes_of_ascii "" ++ [65533; 22]%N ++ runes_of_ascii "3" ++ [65533; 65533; 65533]%N ++ runes_of_ascii ")" ++ [65533; 65533; 65533; 65533; 65533; 8; 65533]%N ++ runes_of_ascii "y~" ++ [65533]%N ++ runes_of_ascii ":" ++ [65533; 65533; 65533]%N ++ runes_of_ascii "f" ++ [65533]%N)).
Eval vm_compute in ("<<<M3124>>>" ++ check (runes_of_ascii "packet A {
 u8 x `d" ++ [8202]%N ++ runes_of_ascii "`, // c" ++ [8202]%N ++ runes_of_ascii "
}")).
Eval vm_compute in ("<<<M260>>>" ++ check (runes_of_ascii "
packet Header {
As `" ++ [233]%N ++ runes_of_ascii "` , }
")).
Eval vm_compute in ("<<<M1856>>>" ++ check (runes_of_ascii "packet o {
    roots `it's`")).
Eval vm_compute in ("<<<M2840>>>" ++ check (runes_of_ascii "P@" ++ [65533; 65533; 65533; 65533]%N ++ runes_of_ascii "hB" ++ [65533]%N ++ runes_of_ascii "B" ++ [65533; 65533; 65533; 65533; 65533]%N ++ runes_of_ascii "F}" ++ [0; 65533; 65533; 65533]%N ++ runes_of_ascii "a
" ++ [65533]%N ++ runes_of_ascii "O" ++ [65533]%N)).
Eval vm_compute in ("<<<M2672>>>" ++ check (runes_of_ascii "options { a = char[x]; }")).
Eval vm_compute in ("<<<M497>>>" ++ check (runes_of_ascii "packet lengthOf{
    }")).
Eval vm_compute in ("<<<M3185>>>" ++ check (runes_of_ascii "// a// bpacket A {}")).
Eval vm_compute in ("<<<M2227>>>" ++ check (runes_of_ascii "options
    {
x_y_z")).
Eval vm_compute in ("<<<M2761>>>" ++ check (runes_of_ascii "?" ++ [65533]%N ++ runes_of_ascii "Nl" ++ [65533; 65533]%N ++ runes_of_ascii "0" ++ [65533; 65533]%N ++ runes_of_ascii "jP" ++ [65533; 25]%N ++ runes_of_ascii "\" ++ [1549; 65533]%N ++ runes_of_ascii "*%")).
Eval vm_compute in ("<<<M3167>>>" ++ check (runes_of_ascii "packet A {
}
// c" ++ [65279]%N)).
Eval vm_compute in ("<<<M3115>>>" ++ check (runes_of_ascii "packet A {
}// c" ++ [8192]%N)).
Eval vm_compute in ("<<<M2809>>>" ++ check (runes_of_ascii "b?JK7Y2K@U~\>c6Y")).
Eval vm_compute in ("<<<M4131>>>" ++ check (runes_of_ascii "packet crc {
}")).
Eval vm_compute in ("<<<M2191>>>" ++ check (runes_of_ascii "MetaData Bo")).
Eval vm_compute in ("<<<M2831>>>" ++ check (runes_of_ascii "true int8")).
Eval vm_compute in ("<<<M2808>>>" ++ check (runes_of_ascii "%x" ++ [65533]%N ++ runes_of_ascii "[" ++ [65533; 65533; 30]%N)).
Eval vm_compute in ("<<<M2437>>>" ++ check (runes_of_ascii "chars")).
Eval vm_compute in ("<<<M3131>>>" ++ check (runes_of_ascii "// c" ++ [8233]%N)).
Eval vm_compute in ("<<<M2770>>>" ++ check (runes_of_ascii "BkEi")).
Eval vm_compute in ("<<<M2558>>>" ++ check (runes_of_ascii "a" ++ [160]%N ++ runes_of_ascii "b")).
Eval vm_compute in ("<<<M2451>>>" ++ check (runes_of_ascii "u")).
