From FP Require Import Lexer Parser ShowPT Digest Formatter.
From Coq Require Import String List NArith.
Import ListNotations.
Open Scope string_scope.
Set Printing Width 100000000.
Set Printing Depth 100000000.
Definition show_fres (r : fres) : string :=
  match r with
  | FOk s => "OK:" ++ sh_escaped s ""
  | FErr s => "ERR:" ++ sh_escaped s ""
  | FPanic p => "PANIC:" ++ p
  end.
Definition check (rs : list rune) : string := digest (show_fres (format_res rs)).
Definition full (rs : list rune) : string := show_fres (format_res rs).
Eval vm_compute in ("<<<M4530>>>" ++ check (runes_of_ascii "

  packet

len {@calculatedFrom(
""`tick`""	)  repeat zchar[
    00	]chars //	t
      `a\` ,
    u8x  
      // trailing space 
  // a // b
MetaDataX 
`line1
line2`
// c

	,
	@calculatedFrom(
	""a\""b"" )

match matchKey
as
    asx
{
	[ ""CRC32"" ,
""a\""b"" ] // " ++ [27880; 37322]%N ++ runes_of_ascii "

  :
    msg_type ,

},

    i8 string_	@calculatedFrom(
	""{,}"" 
)	,@lengthOf(lengthOf 
    //
)	zchar[
    42 ]
_x 
    // packet A { u8 x, }
    	/// triple
  `line1
line2`
	, 
@lengthOf(

asx
	)
	repeat 	 // `tick` ""quote"" 'q'
  	int8

    Header
, 
repeat
	crc
    {

    int8
i64_//x
	@calculatedFrom( ""{,}"" ) 
, }
    ,
repeat _x	i8i8`line1
line2`

,float64 	 // trailing space 
  stringy
    ,  MetaDataX{

    charz
{	int16  matchKey ,repeat	i64_ 
,

    char[
00 ]

Z9_ `
`	,	match As 
    //x
    as

Packet

{
	3
:
crc ,[
    //	t
  	// @lengthOf(

1 , 
00
    ] :
Header 	 // " ++ [27880; 37322]%N ++ runes_of_ascii "
		, 255
    :_x

    ,
	42 :

    body

,

    [

    0]
    :  chars

    [4294967296 ,
    65535  ]

    :
    chars ,}

    /// triple
  	// @lengthOf(
	, } 

    // trailing space 

// @lengthOf(
  ,	}	, }

MetaData
    falsey{
char[

    255
    ]
u128 ,
u8

    Header`tab	here`,

string
float , }root
packet
int
{ Logon i64_ ,@calculatedFrom(  ""1"" ) zchar {
u {	zchar[ 255
]

Pad ,}

    ,	stringy
{  Pad metadata
	`u8 x,`
,	}
,
repeat

    string i8i8

, char[] As @calculatedFrom(
""\n""  )
,	} 
    // " ++ [27880; 37322]%N ++ runes_of_ascii "
	  ,
@lengthOf(
packetx	// a // b
  )  @lengthOf( 
i64_ )
	body `line1
line2`

    , @lengthOf(roots  ) match
// `tick` ""quote"" 'q'

// trailing space 
  MetaDataX as uint8x

{ 	 // `tick` ""quote"" 'q'
[
    007
    /// triple
    // " ++ [27880; 37322]%N ++ runes_of_ascii "

	,	//x

	255 
,00
	] : 
body  // c
  ,
	[	65535
    , ""1"" 
,	// `tick` ""quote"" 'q'
	1
	, 
""\n""	//	t
		,  1,
	""CRC32"" 
,
	//	t
0 
] : 
trueish

    ,

    }  ,
uint64
	Foo , zchar {	metadata
	@lengthOf(Pad
	) 	 //	t
`crlf
line`
,

    match
	u
	as

    charz  { 65535	: 
    //x
  	int 
[
    ""1""  ]: 
    // c
    	//
	a1 , 
[
4294967296

    ,00

, """ ++ [233]%N ++ runes_of_ascii "t" ++ [233]%N ++ runes_of_ascii """
, 
""" ++ [28040; 24687]%N ++ runes_of_ascii """,
00]

:  matchKey , 
[ 
""a\\""
]
	: Logon 
,

}	,	repeat 
rootA	{	int16 Foo
    @lengthOf( rootA	// " ++ [27880; 37322]%N ++ runes_of_ascii "

  )

    ,options1
    `u8 x,`  // trailing space 
	,},

}

    ,match 
chars
	as

u 
    // " ++ [128512]%N ++ runes_of_ascii " emoji

  // " ++ [128512]%N ++ runes_of_ascii " emoji

{[	//

""it's""
,
	007 ,

""" ++ [233]%N ++ runes_of_ascii "t" ++ [233]%N ++ runes_of_ascii """,
	""abc"" ,
	""\n"", 
    // " ++ [128512]%N ++ runes_of_ascii " emoji
	// " ++ [27880; 37322]%N ++ runes_of_ascii "
"""" 	 // c
    ]  :repeatCount, 65535 
      // " ++ [128512]%N ++ runes_of_ascii " emoji
    :Z9_

, 
[
007

    ,
""abc""
,
""// no comment""
	,""" ++ [28040; 24687]%N ++ runes_of_ascii """ ]
:

    falsey 
,  00

:string_
	},

char
repeatCount
,

} packet  Foo  {

char[]
    a1 
@calculatedFrom("""" )	`line1
line2` ,
uint16// a // b
      MetaDataX
// packet A { u8 x, }

`say ""hi""`

    ,
	char[] A

, 
    // trailing space 

// " ++ [128512]%N ++ runes_of_ascii " emoji
    f64
	int

@lengthOf(
Pad
)  , u32 BodyLength,

float64  trueish @lengthOf(
lengthOf

    ) 
// `tick` ""quote"" 'q'
		// trailing space 
  `crlf
line` , @tag(
	255 ) match 
Z9_ as

    tag{ [ ""a\""b"" ,4294967296

,
    ""{,}""  ,

    ""{,}""  /// triple

  ] :

Pad  ,
	1	:
lengthOf ,
	0123456789 :

msg_type

    , ""// no comment""	:
	BodyLength
,[  ""1""
    ]
	:
string_
[ 3 
,
    0,

1 ,	1

, ""\" ++ [233]%N ++ runes_of_ascii """  // " ++ [27880; 37322]%N ++ runes_of_ascii "
	,

"""" , 00
// c
] 	 // c
: asx	} ,  body`say ""hi""`	// `tick` ""quote"" 'q'

, }

    options
{ x  =

'0'
    ;

    u8x // " ++ [128512]%N ++ runes_of_ascii " emoji
    =u64 ;  
      // c
  //	t
	string_	=
""a\""b""
    }")).
Eval vm_compute in ("<<<M667>>>" ++ check (runes_of_ascii "options  {Logon  =
    int64 zchar =
'0' ; x_y_z =  ""abc""
    ; } root  packet Packet { @calculatedFrom( ""// no comment""
) char[] o// c
, @lengthOf( uint8x )
i32 metadata , @rightPad (
' '
    )
repeat
Foo{ BodyLength { i8i8 `{ , }` , },
    match _x as charz
{42 : Pad  ,
} , Pad zchar ,string
charz ,
    // trailing space 
    }
,
    char[ 1 ]
    Foo,
@lengthOf(  f32a ) @leftPad (	'\x00' ) match calculatedFrom as
    u8x
{  0123456789	: Packet  ""a\""b"" // packet A { u8 x, }
: //
charz,
    4294967296 :
    f32a [ ""packet"" ]
: zchar ,""packet""	: a1 ,  } ,
_x
    {repeat char[ 0 ]
len , }
,
    zchar[
//	t
// c
0123456789 ]pack @lengthOf( asx ),} packet Pad {
// trailing space 
//	t
@lengthOf(
u8x ) char[ 0 ]options1 `it's` , @lengthOf( body )
u128
{ Z9_ { string_ @calculatedFrom(""CRC32"" ) `" ++ [233]%N ++ runes_of_ascii "`
,} //	t
,match
    Header as o
    {""packet"" : i64_ , """ ++ [28040; 24687]%N ++ runes_of_ascii """ :leftPad ,3:i64_
    , } , int8 body
@calculatedFrom( ""a\\""
) `
`  ,
repeat Pad	{ // " ++ [128512]%N ++ runes_of_ascii " emoji
zchar[1 ]metadata @lengthOf(  Z9_ ) `// not a comment`
,
    rootA metadata ,
    u32 i8i8
@lengthOf( roots )
,
    repeat
//	t
// @lengthOf(
uint64 pack, }, } ,
char[ 0 ] chars
// " ++ [128512]%N ++ runes_of_ascii " emoji
// `tick` ""quote"" 'q'
, i8 msg_type`" ++ [233]%N ++ runes_of_ascii "`,match u as body// c
{ 42  : zchar} ,@leftPad
(' '
)asx {repeat repeatCount Z9_ ,
repeat//	t
zchar[ 4294967296] //
Pad
    , }, @tag( 255	)@tag( 255) char[ 0123456789 ]u8x ,
    //	t
    @calculatedFrom(""CRC32"" )// trailing space 
char[3 ]
Pad	`" ++ [233]%N ++ runes_of_ascii "` , @lengthOf( x_y_z ) @rightPad (// `tick` ""quote"" 'q'
)@rightPad
(
    /// triple
    ) Foo {
    match asx	as lengthOf
{["""" , 00 ,  ""1"", ""// no comment"",	4294967296 , 007,
""{,}""
    ] : MetaDataX , }
    ,
}
    , } // c
root packet crc
// " ++ [27880; 37322]%N ++ runes_of_ascii "
//x
{ repeat i32	body
    , float64
    // c
    Header`u8 x,`
, string Foo
@lengthOf( packetx // trailing space 
)
    , char[] As `" ++ [28040; 24687; 31867; 22411]%N ++ runes_of_ascii "`, string_ @calculatedFrom( ""\" ++ [233]%N ++ runes_of_ascii """ )
`it's`,
@calculatedFrom( ""CRC32"" )
    @tag( 1
    )	repeat trueish	packetx // @lengthOf(
,
}
MetaData f32a
{	char[] Header ,
}
")).
Eval vm_compute in ("<<<M4291>>>" ++ check (runes_of_ascii "packet T {
    @lengthOf(Foo)
    @tag(10)
    @lengthOf(rootA)
    chars `it's`,
    repeat char roots,
    @tag(0)
    match charz as leftPad {
        0 : tag,
    },
    Z9_ u128,
    int32 int @calculatedFrom(""\n""),
    @lengthOf(int)
    Z9_ {
        repeat char[] calculatedFrom `crlf
        line`,
        zchar[0] o @calculatedFrom(""\" ++ [233]%N ++ runes_of_ascii """),
        u8x {
            _x,// @lengthOf(
            zchar[3] stringy @lengthOf(T),
            // trailing space 
            uint8 body,
            char[] falsey @calculatedFrom(""// no comment"") `" ++ [233]%N ++ runes_of_ascii "`,/// triple
        },
    },
    @tag(1)
    @calculatedFrom(""a\\"")
    // c
    @rightPad('0')
    i32 tag @calculatedFrom(""a\""b"") `crlf
    line`,
    match BodyLength as f32a {
        [
            3, ""`tick`"", ""`tick`"", 007, ""1"",
            65535, 1, 0
        ] : Z9_,
        [""CRC32"", ""a\\""] : chars,
        ""a\""b"" : roots,
        1 : f32a,
        // " ++ [27880; 37322]%N ++ runes_of_ascii "
    },
    trueish {
        //
        /// triple
        zchar {
            match Pad as tag {
                [0123456789, 00, 7, ""a	b"", ""CRC32""] : options1,
                // @lengthOf(
            },
            pack {
                zchar[10] chars,
            },
            u `crlf
            line`,
            repeat int32 _x `two words`,
        },
    },// trailing space 
    falsey As,
}

options {
    falsey = ""abc"";
    Foo = false;
}

root packet A {
    @lengthOf(uint8x)
    match u8x as msg_type {
        [007, 00] : u128,
        [
            255, ""{,}"", 10, ""// no comment"", """",
            """ ++ [128512]%N ++ runes_of_ascii """
        ] : T,
        255 : string_,
        ""`tick`"" : As,
    },
}

MetaData chars {
    char[65535] roots,
    i64 u128,
    char[42] pack,
}//x")).
Eval vm_compute in ("<<<M959>>>" ++ check (runes_of_ascii "
MetaData lengthOf  {A chars `two words` , u string_
,roots
Logon	,u8
x_y_z , u32
    lengthOf
`{ , }` ,
    } packet
asx{ @rightPad(
)	chars `{ , }`, @calculatedFrom( ""a\\""
) repeat i64
x ,@calculatedFrom( ""it's"")@calculatedFrom( ""\n"" )
@leftPad
( '\x00' ) match
uint8x as leftPad {	42 // packet A { u8 x, }
: u128, [	65535] : Logon
// `tick` ""quote"" 'q'
// " ++ [128512]%N ++ runes_of_ascii " emoji
10 :
u128 ,
""\n"" :matchKey ,
} , // c
leftPad	{
    packetx
    @calculatedFrom( ""x y"" ) , }
, i16 int, @calculatedFrom( ""`tick`"" ) uint32 a1@lengthOf(
i64_), match zchar as
    roots
{
    42 :
    i64_	,
4294967296 :x_y_z 10
:
    //
    As [""it's"" ,
""\" ++ [233]%N ++ runes_of_ascii """ , 255
    ,
""\n"" ]
    : Packet , } , @tag( 0123456789 ) match
    lengthOf
as	stringy{
[ """ ++ [28040; 24687]%N ++ runes_of_ascii """ ,""\n"",
""1"",1 ,	""CRC32"" , 65535 ,
    // trailing space 
    65535] : rootA , 00 :trueish
,""CRC32"": Foo , } ,
@lengthOf( i64_ ) repeat
u8x {zchar[ 7]charz @lengthOf( i8i8 ), }	,
} packet
a1
    { @rightPad( '\x00' )calculatedFrom ,
    i8i8, @lengthOf(
    chars )
    @rightPad ('\x00' /// triple
) len{ string crc,repeat chars `" ++ [233]%N ++ runes_of_ascii "`
, }, x @calculatedFrom(
""" ++ [28040; 24687]%N ++ runes_of_ascii """) , // c
@tag(
    4294967296)match float as
    Packet
{ 1:
    T,	[ 4294967296 , ""it's"", 007
,
""CRC32""
] // packet A { u8 x, }
:	a1
    }
,
    @lengthOf(
    // c
    matchKey )rootA @lengthOf(
pack// " ++ [128512]%N ++ runes_of_ascii " emoji
),
@lengthOf(
body
)
    repeat x_y_z`` , calculatedFrom chars  ,
@calculatedFrom( """ ++ [128512]%N ++ runes_of_ascii """ ) chars pack ,
    // a // b
    }options {x_y_z = 4294967296; } // " ++ [27880; 37322]%N)).
Eval vm_compute in ("<<<M3860>>>" ++ check (runes_of_ascii "MetaData MetaDataX {
    i8i8 roots,
    zchar[65535] rootA `// not a comment`,// a // b
    x_y_z leftPad `u8 x,`,
    char[] stringy `it's`,
}// packet A { u8 x, }

packet Foo {
    string lengthOf,
    i32 packetx @lengthOf(asx) `{ , }`,
    repeat falsey `two words`,
    char[] roots @calculatedFrom(""" ++ [28040; 24687]%N ++ runes_of_ascii """),//
    leftPad @calculatedFrom(""" ++ [28040; 24687]%N ++ runes_of_ascii """) `" ++ [233]%N ++ runes_of_ascii "`,
    @tag(42)
    zchar[65535] As @lengthOf(a1) `doc`,
}

root packet charz {
    @tag(4294967296)
    string options1 `tab	here`,
}

packet leftPad {
}

packet metadata {
    //	t
    i32 BodyLength @calculatedFrom(""it's"") `say ""hi""`,
    @rightPad()
    // " ++ [128512]%N ++ runes_of_ascii " emoji
    chars {
        repeat falsey {
            uint64 tag @lengthOf(len),
            char[42] packetx @calculatedFrom(""abc""),
        },
        Header {
            zchar[00] charz @calculatedFrom(""x y""),
            uint8 calculatedFrom @calculatedFrom(""\n""),
            trueish `" ++ [28040; 24687; 31867; 22411]%N ++ runes_of_ascii "`,
            string_ @calculatedFrom(""// no comment"") `it's`,
        },
        string crc,
    },// " ++ [128512]%N ++ runes_of_ascii " emoji
    @calculatedFrom(""1"")
    @calculatedFrom(""" ++ [28040; 24687]%N ++ runes_of_ascii """)
    @tag(7)
    i8 Foo,
    i8 a1 @calculatedFrom(""{,}"") ``,
    repeat falsey {
        o @calculatedFrom(""abc"") `
                `,
        zchar[42] matchKey,
    },
    i64 As,
    //	t
    // `tick` ""quote"" 'q'
    repeat As,
    repeat int64 string_,
}
//	t")).
Eval vm_compute in ("<<<M4289>>>" ++ check (runes_of_ascii "root packet a1 {
    uint64 body,
    @lengthOf(rootA)
    char[1] zchar,
    BodyLength,
    string_,
    char[] float @lengthOf(lengthOf),//
    uint32 asx `" ++ [28040; 24687; 31867; 22411]%N ++ runes_of_ascii "`,
    char[] uint8x @calculatedFrom(""abc""),
    @tag(255)
    @calculatedFrom(""a\\"")
    zchar[3] options1,
}

packet charz {
    @rightPad(' ')
    matchKey @lengthOf(u) `u8 x,`,
    @lengthOf(len)
    @lengthOf(falsey)
    u @calculatedFrom(""a\\""),
    match i8i8 as Packet {
        [""a	b""] : roots,
        ""abc"" : trueish,
        [""a\\"", 65535] : asx,
        0123456789 : a1,
        1 : i64_,
    },
    match len as Header {
        [
            0, 0123456789, 7, 0, ""\n"",
            ""a\\""
        ] : o,
        ""x y"" : crc,
        [3, ""\" ++ [233]%N ++ runes_of_ascii """] : lengthOf,
        [10, ""x y""] : u8x,
        1 : Packet,
        007 : Z9_,
    },
    @calculatedFrom(""packet"")
    @tag(65535)
    repeat Pad rootA,
    @tag(4294967296)
    @lengthOf(stringy)
    crc @lengthOf(uint8x) `" ++ [28040; 24687; 31867; 22411]%N ++ runes_of_ascii "`,
}

// @lengthOf(
MetaData u8x {
    len calculatedFrom,// packet A { u8 x, }
    u16 asx,
}

MetaData Logon {
    u16 chars ``,
    A matchKey `a\`,
    char[007] Header,
    len uint8x,
    A Packet `line1
        line2`,
    string trueish `u8 x,`,
}")).
Eval vm_compute in ("<<<M127>>>" ++ check (runes_of_ascii "root packet As// `tick` ""quote"" 'q'
{
    @calculatedFrom( ""{,}""	)zchar[ 4294967296
    // packet A { u8 x, }
    ]As ,@tag( 7 ) repeat
    pack
    {body
    {// trailing space 
zchar[
65535 //x
] MetaDataX `doc`
, string_ @lengthOf( // " ++ [27880; 37322]%N ++ runes_of_ascii "
Logon  ) , i64 MetaDataX@calculatedFrom( """" )// " ++ [27880; 37322]%N ++ runes_of_ascii "
`a\`, //x
repeat char[] Foo,	} ,
/// triple
// packet A { u8 x, }
},@lengthOf( MetaDataX
    ) @calculatedFrom(
""\n""	) @lengthOf( float )
char[ 0123456789 ] a1 @calculatedFrom( ""a\""b"") ,
repeat msg_type  { // `tick` ""quote"" 'q'
repeat f64 Packet`a\` , int64 asx@calculatedFrom( ""{,}"" )`" ++ [233]%N ++ runes_of_ascii "`  ,zchar[3  ]
    metadata	,	zchar[
00 ] x_y_z
    @calculatedFrom( ""CRC32""
) , }, } packet calculatedFrom // a // b
{ match calculatedFrom as BodyLength{ 65535
: Foo ,
    }, match
    int as falsey {  42 : body, [ ""abc""
// " ++ [128512]%N ++ runes_of_ascii " emoji
// " ++ [27880; 37322]%N ++ runes_of_ascii "
,
    ""\n"" , ""abc""
,""" ++ [28040; 24687]%N ++ runes_of_ascii """	]:stringy
    // `tick` ""quote"" 'q'
    , [0123456789
, ""{,}""
,
42
    , 1
]// " ++ [27880; 37322]%N ++ runes_of_ascii "
: trueish , ""`tick`"" :metadata ,  [ ""1"" , ""a	b"" , 42
]
: zchar}
    ,repeat zchar[  4294967296 ]stringy `line1
line2`
, } options // @lengthOf(
{stringy= // packet A { u8 x, }
' '/// triple
; }")).
Eval vm_compute in ("<<<M521>>>" ++ check (runes_of_ascii "// `tick` ""quote"" 'q'
packet msg_type {
    // c
    uint8 leftPad ,  } packet roots {@tag(  3 )
// a // b
// `tick` ""quote"" 'q'
string_ //x
@lengthOf(body )
,  Header@lengthOf( Z9_
//x
/// triple
) , repeat zchar[ 007 ] roots	,	string_
msg_type `crlf
line` , Logon // c
@lengthOf(	pack // c
)
`say ""hi""` ,@rightPad ( '\x00' )
@leftPad
    // a // b
    ( '0' )
    repeat u8 float `it's` /// triple
, @calculatedFrom( ""\n"" )	@lengthOf(  falsey // " ++ [128512]%N ++ runes_of_ascii " emoji
)
    msg_type{ match
Packet
    as tag
{[
    10 ,
007 //x
]
    :int , 4294967296
    : //
asx
,} ,
uint32 string_ @lengthOf(
    _x ) `two words`
    //x
    ,
    _x
    //
    , } ,	f32a {f32 body , uint16  u128 ,
matchKey	@lengthOf(Packet ) , } ,
repeat
    zchar[
0123456789 ] // a // b
float `say ""hi""` ,f32 i8i8 `{ , }`, } root packet	options1 {@tag( 0
    )
packetx
, repeat
float64 BodyLength , }
    options { Pad =
    // packet A { u8 x, }
    true
// a // b
/// triple
; crc = 007; // @lengthOf(
}
MetaData packetx{ roots  Packet  `tab	here` , // " ++ [128512]%N ++ runes_of_ascii " emoji
asx
    len , }

")).
Eval vm_compute in ("<<<M732>>>" ++ check (runes_of_ascii "// " ++ [27880; 37322]%N ++ runes_of_ascii "
options  { i8i8
    //	t
    = 007 ; Logon =	3
; }	packet u128 {BodyLength{ char[ //x
7
] int, u16 _x@lengthOf( // packet A { u8 x, }
u)	, i8 rootA
    `tab	here`
,
    stringy MetaDataX`u8 x,` , } , @tag(007 ) f32a @calculatedFrom( """ ++ [28040; 24687]%N ++ runes_of_ascii """ )
    `it's`
,
// c
// a // b
@calculatedFrom( ""x y""
    )char[007 ] string_ //x
@calculatedFrom( """ ++ [128512]%N ++ runes_of_ascii """ )
    , // c
@calculatedFrom( ""// no comment""
) @calculatedFrom( ""a	b"" )  f64
As , // `tick` ""quote"" 'q'
zchar[7]x `
` ,
    /// triple
    u16
o, repeat float32 roots `{ , }`
    ,
@leftPad (
)// c
repeatCount
{ float64
u8x `a\`
// @lengthOf(
// " ++ [27880; 37322]%N ++ runes_of_ascii "
,rootA@lengthOf( //	t
chars ) ,
    match u128  as
roots{
// a // b
//
[
""" ++ [128512]%N ++ runes_of_ascii """ ] : msg_type// c
, ""\n"" :
    u8x
00 :
crc
    //x
    } , },
//x
/// triple
u16 lengthOf @calculatedFrom( // c
""" ++ [233]%N ++ runes_of_ascii "t" ++ [233]%N ++ runes_of_ascii """  ),	}MetaData
repeatCount{ zchar[ 0123456789
] Logon , char[ 42	]  int	,}
    options {}
options // " ++ [128512]%N ++ runes_of_ascii " emoji
{
repeatCount = ""1""
Z9_ = 255  string_ = ' '
;  trueish = 3 ; crc =
""packet""
    ;}
")).
Eval vm_compute in ("<<<M1232>>>" ++ check (runes_of_ascii "options {
    i64_ =
// c
// trailing space 
""x y"";
    chars
// a // b
//	t
=
    65535 metadata= i32; // trailing space 
} root  packet
chars { @lengthOf( /// triple
chars
    // " ++ [128512]%N ++ runes_of_ascii " emoji
    ) repeat  Logon
// " ++ [128512]%N ++ runes_of_ascii " emoji
//	t
{ string len @lengthOf(
    crc ) //x
,u128 @lengthOf( x )
, } , }
    packet chars
{ @lengthOf(charz)@calculatedFrom( """ ++ [233]%N ++ runes_of_ascii "t" ++ [233]%N ++ runes_of_ascii """  )
@calculatedFrom( """ ++ [128512]%N ++ runes_of_ascii """ )repeat
    // " ++ [128512]%N ++ runes_of_ascii " emoji
    repeatCount
    Packet `u8 x,`,match
rootA as
    /// triple
    falsey {
    ""{,}""
:
As ,
00
: // " ++ [128512]%N ++ runes_of_ascii " emoji
lengthOf ,
""\n"" : u8x, """ ++ [233]%N ++ runes_of_ascii "t" ++ [233]%N ++ runes_of_ascii """  :T 3:
    /// triple
    calculatedFrom ,}, @leftPad ( )@calculatedFrom(
    ""it's"" )	repeat crc
    stringy`
` ,@lengthOf(// `tick` ""quote"" 'q'
metadata ) repeat falsey{ char[]
Foo `a\` , match leftPad //	t
as  BodyLength {
""CRC32"": body , ""1"": x
,""a\\"":	calculatedFrom,
[
    // @lengthOf(
    1
,00]
:
float }
, repeat
    char calculatedFrom , Foo { u64  Header `
` ,}
, } , }
")).
Eval vm_compute in ("<<<M4041>>>" ++ check (runes_of_ascii "  options
    {LittleEndian =false

;
	FixedStringPadFromLeft=  false ;
FixedStringPadChar =

    ' ' ;

    }packet	Fill { uint16

    Qty

    ,
    uint64
	clOrdID

,repeat
i64
    Flags , }  packet

    Ack	{zchar[  7

]
clOrdID ,

    u64 
lastPx
, char[] Note 
, repeat

Fill , 
int32 count	, }	packet
    Quote {
	u8	venue	, InRef40	{char[]
Qty, 
}
, 
zchar[
    5

]
Flags, @rightPad	(

    '\x00'

    ) 
char[ 12
    ]
    msgKind
, }packet Logout 
{ InSym79 {
int32
Qty,
	Fill

,
char[
    3 ] x
,	repeat
InNote29
{ i16

price , 
Ack ,	f64 x ,
zchar[ 8 
]	count,}
	, }
    , }
root packet 
Logon {zchar[
    1
]

sym
,	u32
count ,

    u16	tag7 @lengthOf( Body) , match
    count  as Body
	{[ 122 
, 152
]
:

Ack
,	118 
:Logout

    ,
	61
:Quote	,161
:

    Fill

    ,  } ,
    u32
    Acct
	@calculatedFrom( ""CRC32""
    )

    ,	} ")).
Eval vm_compute in ("<<<M8>>>" ++ check (runes_of_ascii "packet leftPad
    { @tag( 3 )
    @tag( // trailing space 
255 ) @tag( 7 ) Packet @calculatedFrom(
    ""\n"" )
    ,
    @calculatedFrom(
//x
/// triple
""abc""
)
    repeat
    f32a
    trueish `// not a comment` ,
    match
    /// triple
    calculatedFrom
as stringy { [	1
,
    // @lengthOf(
    65535 ] :
    u  ,}
// `tick` ""quote"" 'q'
/// triple
, zchar[ 10 ] o `` , @lengthOf(calculatedFrom
)
char x_y_z ,char[] BodyLength ,stringy o
`line1
line2` ,
@tag( 00 )options1  {// @lengthOf(
float32 asx
@lengthOf( roots ) ,
// " ++ [128512]%N ++ runes_of_ascii " emoji
// `tick` ""quote"" 'q'
match Z9_
as
int
    {""{,}""
: A [ // " ++ [27880; 37322]%N ++ runes_of_ascii "
""a\""b""  ,
""it's""
    ] :	repeatCount ,1 :
    float , ""a\\"": zchar// `tick` ""quote"" 'q'
[0 , ""abc"" ,0,  00,
0
    ,
""" ++ [128512]%N ++ runes_of_ascii """ ]: T
, 0123456789	: As , }
    , }, @lengthOf(
    msg_type ) i8
matchKey , repeat
len len `a\`
,	}")).
Eval vm_compute in ("<<<M383>>>" ++ check (runes_of_ascii "packet repeatCount{
    @tag(1
) @leftPad
(' ')	@leftPad
    (
    // c
    '\x00'
    ) int16
trueish
@lengthOf( len) `// not a comment` ,@calculatedFrom(	""it's"")
f64 trueish
@lengthOf( pack ), i64
/// triple
//x
int
    `u8 x,`,  int16 Packet, repeat trueish{ char[ 65535 ] int @lengthOf( Foo ) `crlf
line`
    , },	match chars
as u128 { 0123456789 :
uint8x ,	""1""
    : A
    // `tick` ""quote"" 'q'
    , ""packet""	:
    matchKey
,0
: crc ,""abc"" :
T ,} ,
@rightPad (// " ++ [27880; 37322]%N ++ runes_of_ascii "
) match
//	t
//x
a1 as
    u128 {3
//
// @lengthOf(
:	lengthOf	, ""a\\"": trueish
007 :
rootA }
    ,@leftPad ( ' '
) string_ `tab	here`
    , packetx
    @lengthOf( Header ) , @tag(255	) @tag( 42 ) char[]packetx, // `tick` ""quote"" 'q'
}
    options { rootA // a // b
=
// c
//	t
' ' x_y_z = int8
}")).
Eval vm_compute in ("<<<M940>>>" ++ check (runes_of_ascii "
root packet As
{ repeat
    //	t
    x
    msg_type ,}MetaData crc { // c
u8 x , } root packet
    // " ++ [128512]%N ++ runes_of_ascii " emoji
    Logon{ @calculatedFrom(
""1"" )
@rightPad (  ' ') @leftPad
( ) string msg_type @lengthOf(
uint8x )	`a\`
, match calculatedFrom
as i8i8
{ [
""\" ++ [233]%N ++ runes_of_ascii """ ]  : options1 , // c
1
: asx
, [ 42,
42
    //
    ,//	t
""" ++ [28040; 24687]%N ++ runes_of_ascii """// `tick` ""quote"" 'q'
,"""" ,// " ++ [128512]%N ++ runes_of_ascii " emoji
7] // @lengthOf(
: x_y_z,  [// " ++ [27880; 37322]%N ++ runes_of_ascii "
0//x
] :
    // packet A { u8 x, }
    asx
    //
    7:
    u8x [
7
    ] :u , } ,} MetaData repeatCount
    { float Foo
    , As //	t
i8i8	,} packet tag {@leftPad (
' '
) match Z9_ as msg_type {
    //
    [ 10
, ""a\""b"" ,0 ,255 , 7 ,0123456789 , 10
]: Logon ,
    """ ++ [233]%N ++ runes_of_ascii "t" ++ [233]%N ++ runes_of_ascii """: a1 , 7
// packet A { u8 x, }
/// triple
: i64_  ,  255
:	leftPad
    }
    , }
")).
Eval vm_compute in ("<<<M1099>>>" ++ check (runes_of_ascii "packet A
{ repeat//
Logon, match	falsey as
    len { ""x y""
: _x
10 : Packet
    1 : x ,
    }, string
_x , @calculatedFrom(
    // " ++ [27880; 37322]%N ++ runes_of_ascii "
    ""\" ++ [233]%N ++ runes_of_ascii """)
    char[
    10 ] leftPad  `doc`
    ,
    }
packet tag {@calculatedFrom(""" ++ [128512]%N ++ runes_of_ascii """ )	repeat  Logon { match
    a1 as asx {
[ 0123456789
, 3 ] : T , 1 : Foo ,// " ++ [27880; 37322]%N ++ runes_of_ascii "
[
42 ,
    42 ]
    // " ++ [27880; 37322]%N ++ runes_of_ascii "
    :  i64_	,
[007 //
]
:
Header , }
    , repeat zchar[ 0
] As, repeat char body
    ,
},} packet
    u
{ @calculatedFrom(
    """ ++ [233]%N ++ runes_of_ascii "t" ++ [233]%N ++ runes_of_ascii """ ) @calculatedFrom( // trailing space 
""abc""	)
    @tag(
00
    //x
    )	string_ ,
    repeat string crc
    , match
trueish as Foo {
// trailing space 
//
[10 , 255 ] : float
    } , match As as zchar{
    /// triple
    10:T } ,
//
//x
}")).
Eval vm_compute in ("<<<M3900>>>" ++ check (runes_of_ascii "MetaData roots {
    charz matchKey `two words`,
    char[65535] T `// not a comment`,
    char[] tag,
    string a1 `two words`,
}

root packet stringy {
    repeat roots {
        repeat calculatedFrom len,
    },
    @tag(42)
    @rightPad('0')
    @tag(007)
    f32 lengthOf @lengthOf(tag) `crlf
        line`,
    int32 chars,
    zchar[3] rootA @calculatedFrom(""a\""b""),
    @rightPad()
    @calculatedFrom(""" ++ [128512]%N ++ runes_of_ascii """)
    @tag(0123456789)
    Foo {
        char[] u8x @lengthOf(charz),
        A,
    },
    match repeatCount as body {
        ""\n"" : T,
        [""" ++ [128512]%N ++ runes_of_ascii """, 255] : lengthOf,
    },
    @calculatedFrom(""x y"")
    u8 packetx @calculatedFrom(""CRC32"") `tab	here`,
}")).
Eval vm_compute in ("<<<M4366>>>" ++ check (runes_of_ascii "root packet options1 {
    float @calculatedFrom(""a	b""),
    @leftPad()
    match lengthOf as f32a {
        ""1"" : f32a,
        ""{,}"" : falsey,
        // a // b
    },
    // a // b
    // packet A { u8 x, }
}

packet T {
    @tag(7)
    @lengthOf(f32a)
    @rightPad()
    char[] msg_type @calculatedFrom(""\" ++ [233]%N ++ runes_of_ascii """) `" ++ [28040; 24687; 31867; 22411]%N ++ runes_of_ascii "`,
    options1 u128 `// not a comment`,
    // packet A { u8 x, }
    @rightPad(' ')
    char[1] metadata @calculatedFrom(""" ++ [128512]%N ++ runes_of_ascii """) `doc`,
}

packet u8x {
    roots @lengthOf(f32a),
    @calculatedFrom(""a\""b"")
    @tag(00)
    @leftPad('\x00')
    MetaDataX {
        int @calculatedFrom(""`tick`"") `
        `,
    },
}")).
Eval vm_compute in ("<<<M528>>>" ++ check (runes_of_ascii "
packet x_y_z // " ++ [27880; 37322]%N ++ runes_of_ascii "
{ x_y_z @calculatedFrom(""CRC32"" )
, x{ char[	0123456789 ]
    msg_type @lengthOf( float
    ), body
    calculatedFrom `line1
line2`
, match
Header
as stringy
    { [ 255 ] :x , 10: options1 // trailing space 
, } ,
    } , repeat char[] options1 `u8 x,`// " ++ [128512]%N ++ runes_of_ascii " emoji
, metadata @calculatedFrom(""\" ++ [233]%N ++ runes_of_ascii """
    //
    )
`` , string
falsey ,
    @rightPad
    // packet A { u8 x, }
    ( ' '
) @tag( 007 ) string repeatCount ,
    options1 @calculatedFrom(
// c
//
""packet"")// @lengthOf(
,
@lengthOf(
    BodyLength ) char[] matchKey//x
@calculatedFrom( ""a	b"" ),} // packet A { u8 x, }")).
Eval vm_compute in ("<<<M400>>>" ++ check (runes_of_ascii "packet crc {
// packet A { u8 x, }
// trailing space 
Logon ,
    } options { msg_type = '\x00'
;
    }
    packet falsey {
char[
0123456789
] calculatedFrom@calculatedFrom( ""packet""//
)`say ""hi""`, match As as o { 65535// packet A { u8 x, }
: A , """" : _x , ""`tick`"" :zchar,
0123456789 :calculatedFrom , } ,
    @tag( 00 )  As {
char[] calculatedFrom ,
} , float32 zchar
, char[ 255 ] lengthOf,
    @lengthOf(chars
    // " ++ [27880; 37322]%N ++ runes_of_ascii "
    )
@lengthOf( // c
a1 ) body  @calculatedFrom(""// no comment"" )
`crlf
line`	,} root  packet
    _x
{ @calculatedFrom(
    ""a\\""
) repeat
i32	o ,}")).
Eval vm_compute in ("<<<M364>>>" ++ check (runes_of_ascii "
packet chars  { repeat
    u64 As`" ++ [233]%N ++ runes_of_ascii "` ,@tag( 0 )repeat
T metadata
    ``	,
    }packet Z9_{
    @rightPad
    (//
'0'
    // " ++ [128512]%N ++ runes_of_ascii " emoji
    )
    match u as
lengthOf
    {
""abc""/// triple
: T
, ""CRC32"" //x
:  matchKey
[ """ ++ [233]%N ++ runes_of_ascii "t" ++ [233]%N ++ runes_of_ascii """ ,  """ ++ [28040; 24687]%N ++ runes_of_ascii """, 65535, 65535 , ""x y""
    ]
: metadata""it's"" : i8i8, // packet A { u8 x, }
255 : trueish , """":u128 ,	} , } MetaData u8x {
zchar[ 255
]  zchar ,
    // `tick` ""quote"" 'q'
    uint32 uint8x
`" ++ [233]%N ++ runes_of_ascii "`, uint8 trueish ,
    // packet A { u8 x, }
    i64	falsey
,
_x MetaDataX ,string
_x
// trailing space 
//
, } //	t")).
Eval vm_compute in ("<<<M4083>>>" ++ check (runes_of_ascii "

  packet o{
repeat
	MetaDataX	,

    uint64 f32a  /// triple

`" ++ [233]%N ++ runes_of_ascii "`
,

    f32
packetx`doc`	,
leftPad  {
repeat len x ,zchar[ 0123456789
    // packet A { u8 x, }

	]tag
	@lengthOf( 
MetaDataX

)
    ,
    chars
{ 
zchar[
        // " ++ [27880; 37322]%N ++ runes_of_ascii "
		// `tick` ""quote"" 'q'
	65535 ]
u8x

    `" ++ [28040; 24687; 31867; 22411]%N ++ runes_of_ascii "`
	,	u16
	BodyLength	@calculatedFrom(

    ""`tick`""  ) 
`line1
line2`	, 
char[]
stringy 
,	repeat

    i64_
charz	`crlf
line`  , // trailing space 

	} 
	    // packet A { u8 x, }
	  ,f32  msg_type
	,  }
,

    x ``

,}
")).
Eval vm_compute in ("<<<M793>>>" ++ check (runes_of_ascii "options{ Header = ' ' } root
packet lengthOf{ uint8 chars , @leftPad (  '\x00' ) repeat
    u128 {match	Header as	msg_type{ 007	:roots  , }
// c
//	t
, A
o ,
match Header as
options1 { 00 : float,""1"": int , """ ++ [128512]%N ++ runes_of_ascii """
: T , [
    ""a\\""
// " ++ [128512]%N ++ runes_of_ascii " emoji
// packet A { u8 x, }
,""// no comment""
// a // b
// packet A { u8 x, }
] //	t
: Foo	0123456789	:
    matchKey , } ,repeat
    o ,
}, } packet x_y_z { repeat stringy A  , @tag(  42 ) char[
    007 ]  Logon ,@leftPad ('\x00'
    )  zchar[
007 ]MetaDataX
, }")).
Eval vm_compute in ("<<<M1121>>>" ++ check (runes_of_ascii "options{ Logon =
int32
; x_y_z // trailing space 
= ""1"" f32a = 007 BodyLength =
    zchar[
    // " ++ [27880; 37322]%N ++ runes_of_ascii "
    3
]
    ; MetaDataX = false //x
;
} packet // c
A { match A
    as A {
    42 : _x ,
} , }
packet int
{ //
_x
    asx
,	} packet	trueish {
float	@calculatedFrom(
// " ++ [128512]%N ++ runes_of_ascii " emoji
// @lengthOf(
"""" ) ,
zchar[
65535 ] Pad@calculatedFrom(""a	b"" ) `
` //	t
,
}options
    {
    // " ++ [128512]%N ++ runes_of_ascii " emoji
    f32a =	zchar[ 42 ] ; body = ""`tick`"" ; //
As =
    true
    tag=3 ;
packetx = true
}
")).
Eval vm_compute in ("<<<M480>>>" ++ check (runes_of_ascii "MetaData
    o {
    } packet BodyLength { @tag(
255 ) zchar[ 00 ]
    leftPad@lengthOf( float  )
`" ++ [233]%N ++ runes_of_ascii "` , }	packet
asx {
    @leftPad ( )	char[] _x,
char[ 65535
    ] /// triple
trueish
@calculatedFrom( ""a\""b"") ,
int64 u
    , match x as u8x { 255 //	t
:/// triple
o, 65535: asx ,  ""a\\""
:
string_
, ""\" ++ [233]%N ++ runes_of_ascii """
    : f32a, 65535
: //	t
x_y_z
    ,  7
:uint8x	}
    , repeat msg_type { u128 charz `` , u64 options1	, repeat  a1 `` ,	} , repeatCount  ,}
// c
")).
Eval vm_compute in ("<<<M1035>>>" ++ check (runes_of_ascii "// @lengthOf(
MetaData	msg_type
{} MetaData Logon { i64 uint8x ,
o u128  ,}packet
    body {
@calculatedFrom( ""a	b"" ) uint8x`` ,} root
packet  roots{ repeat len f32a `crlf
line` , @rightPad( '\x00'
) repeat i8i8
    { zchar @lengthOf(
    packetx ) `a\`,
repeat
msg_type , char[]
    o `" ++ [233]%N ++ runes_of_ascii "`	, char[
// " ++ [27880; 37322]%N ++ runes_of_ascii "
//
42
]
roots // @lengthOf(
,
//x
// `tick` ""quote"" 'q'
}  , } MetaData
    pack
//	t
// trailing space 
{
repeatCount
charz , }")).
Eval vm_compute in ("<<<M4557>>>" ++ check (runes_of_ascii "packet msg_type {
    uint32 i8i8 `say ""hi""`,
    match packetx as asx {
        0123456789 : msg_type,
        1 : _x,
    },
    repeat As {
        f32 body,
        string msg_type,
        f64 roots,
    },
    char[] options1 `say ""hi""`,
}

options {
    msg_type = true;
}

packet crc {
    asx x_y_z,
}

MetaData T {
    T i8i8,
    int16 zchar,
    int tag,
    string x_y_z `
        `,
    float32 metadata,
}")).
Eval vm_compute in ("<<<M704>>>" ++ check (runes_of_ascii "
packet
matchKey { @calculatedFrom( """ ++ [28040; 24687]%N ++ runes_of_ascii """
) @lengthOf(
lengthOf ) @calculatedFrom( """ ++ [28040; 24687]%N ++ runes_of_ascii """
) match
    /// triple
    trueish as options1// trailing space 
{ 42
:matchKey,} , // " ++ [128512]%N ++ runes_of_ascii " emoji
i64
// trailing space 
//x
u8x , }MetaData float
    { options1 u8x// " ++ [27880; 37322]%N ++ runes_of_ascii "
, options1
//
//
x	, string u `it's` , pack Header `u8 x,` ,
char[] i64_ , } options{ } packet o  { } //
MetaData
    //	t
    MetaDataX
{  }
")).
Eval vm_compute in ("<<<M3980>>>" ++ check (runes_of_ascii "packet chars {
}

root packet chars {
    zchar[00] lengthOf `" ++ [28040; 24687; 31867; 22411]%N ++ runes_of_ascii "`,
}

root packet tag {
    @rightPad('\x00')
    zchar[3] Foo @lengthOf(pack),
    zchar[10] tag,
    repeat uint32 int,
    @rightPad('\x00')
    @lengthOf(f32a)
    @rightPad(' ')
    Packet int,
    match len as i8i8 {
        10 : chars,
    },
    @calculatedFrom(""x y"")
    Z9_ @calculatedFrom(""it's""),
}//	t")).
Eval vm_compute in ("<<<M1308>>>" ++ check (runes_of_ascii "// `tick` ""quote"" 'q'
packet i8i8	{ // a // b
@rightPad( )  body @calculatedFrom(// a // b
""\" ++ [233]%N ++ runes_of_ascii """ ) , i64 Header @lengthOf(
trueish
) , @tag( 65535 )  @lengthOf( tag//
) @tag( 255
)
    repeat
    float32 repeatCount
, char[
1 ] rootA`u8 x,` , @lengthOf(
    _x ) @lengthOf(
    Header  ) @calculatedFrom( """"
)
//x
// trailing space 
i8i8 pack// trailing space 
, }

")).
Eval vm_compute in ("<<<M1037>>>" ++ check (runes_of_ascii "packet crc {
    match string_ as matchKey {
7 : matchKey ,
    007 :
x//	t
, 65535 :	BodyLength
[
    00
    , 3 ] :
u128
,[  255 , 0  ] :
leftPad ,
""it's"":
//x
// trailing space 
u128 ,}
    ,
@calculatedFrom( """"
//x
/// triple
)
match MetaDataX as int {[ 3
] :
As
    ,
},
    } packet falsey {
}//
options { metadata
=// " ++ [128512]%N ++ runes_of_ascii " emoji
255//x
; }
")).
Eval vm_compute in ("<<<M4397>>>" ++ check (runes_of_ascii "// " ++ [128512]%N ++ runes_of_ascii " emoji
options {
}

packet a1 {
    // packet A { u8 x, }
    //x
    @lengthOf(Foo)
    pack {
        repeat matchKey leftPad,
        zchar[7] zchar `{ , }`,
        charz @lengthOf(x_y_z) `
                `,
    },
}

root packet roots {
}

options {
    calculatedFrom = false;
    o = int64;
    u = ""a\\""
    zchar = 42;
}")).
Eval vm_compute in ("<<<M1876>>>" ++ check (runes_of_ascii "MetaData
    u { }  options options {
// c
// @lengthOf(
float = int8 ;rootA =false ; As =	int16 // `tick` ""quote"" 'q'
repeatCount
    // trailing space 
    =
    int16
; u8x =
    //	t
    '\x00' ; } options	{
    repeatCount
= 0
u128
    //
    = false ; i64_
// trailing space 
// `tick` ""quote"" 'q'
= '0' ; //	t
}
")).
Eval vm_compute in ("<<<M2068>>>" ++ check (runes_of_ascii "MetaData
   @tag u { }  options {
// c
// @lengthOf(
float = int8 ;rootA =false ; As =	int16 // `tick` ""quote"" 'q'
repeatCount
    // trailing space 
    =
    int16
; u8x =
    //	t
    '\x00' ; } options	{
    repeatCount
= 0
u128
    //
    = false ; i64_
// trailing space 
// `tick` ""quote"" 'q'
= '0' ; //	t
}
")).
Eval vm_compute in ("<<<M2036>>>" ++ check (runes_of_ascii "MetaData
    u { }  options {
// c
// @lengthOf(
float = int8 ;rootA =false ; As =	int16 // `tick` ""quote"" 'q'
repeatCount
    // trailing space 
    =
    int16
; u8x =
    //	t
    '\x00' ; } options	{
    repeatCount
= 0
u128
    //
    = false ; i64_
// trailing space 
// `tick` ""quote"" 'q'
= = '0' ; //	t
}
")).
Eval vm_compute in ("<<<M1867>>>" ++ check (runes_of_ascii "MetaData
    u } {  options {
// c
// @lengthOf(
float = int8 ;rootA =false ; As =	int16 // `tick` ""quote"" 'q'
repeatCount
    // trailing space 
    =
    int16
; u8x =
    //	t
    '\x00' ; } options	{
    repeatCount
= 0
u128
    //
    = false ; i64_
// trailing space 
// `tick` ""quote"" 'q'
= '0' ; //	t
}
")).
Eval vm_compute in ("<<<M2017>>>" ++ check (runes_of_ascii "MetaData
    u { }  options {
// c
// @lengthOf(
float = int8 ;rootA =false ; As =	int16 // `tick` ""quote"" 'q'
repeatCount
    // trailing space 
    =
    int16
; u8x =
    //	t
    '\x00' ; } options	{
    repeatCount
= 0
u128
    //
    false = ; i64_
// trailing space 
// `tick` ""quote"" 'q'
= '0' ; //	t
}
")).
Eval vm_compute in ("<<<M2025>>>" ++ check (runes_of_ascii "MetaData
    u { }  options {
// c
// @lengthOf(
float = int8 ;rootA =false ; As =	int16 // `tick` ""quote"" 'q'
repeatCount
    // trailing space 
    =
    int16
; u8x =
    //	t
    '\x00' ; } options	{
    repeatCount
= 0
u128
    //
    = false  i64_
// trailing space 
// `tick` ""quote"" 'q'
= '0' ; //	t
}
")).
Eval vm_compute in ("<<<M1970>>>" ++ check (runes_of_ascii "MetaData
    u { }  options {
// c
// @lengthOf(
float = int8 ;rootA =false ; As =	int16 // `tick` ""quote"" 'q'
repeatCount
    // trailing space 
    =
    int16
; u8x =
    //	t
     ; } options	{
    repeatCount
= 0
u128
    //
    = false ; i64_
// trailing space 
// `tick` ""quote"" 'q'
= '0' ; //	t
}
")).
Eval vm_compute in ("<<<M4513>>>" ++ check (runes_of_ascii "packet BodyLength {
}

root packet Logon {
    @tag(10)
    @tag(0123456789)
    //x
    repeat float32 Pad,
}

packet f32a {
    // `tick` ""quote"" 'q'
    @rightPad(' ')
    // a // b
    repeat chars body,
    x_y_z @lengthOf(matchKey),
    repeat float64 Logon,
    repeat zchar[4294967296] Foo,
}")).
Eval vm_compute in ("<<<M305>>>" ++ check (runes_of_ascii "options
{
}
root
    // a // b
    packet x //	t
{ match
    len as x{ [	7 , 42 ,	007 , //x
255 // trailing space 
, ""// no comment""
// `tick` ""quote"" 'q'
// " ++ [128512]%N ++ runes_of_ascii " emoji
]:x_y_z, ""`tick`"" : u128
, 3 : string_
    /// triple
    ,
[	""CRC32""  ] : trueish ,4294967296 :Foo ,
[ 0 ]
: lengthOf } , }")).
Eval vm_compute in ("<<<M575>>>" ++ check (runes_of_ascii "packet	crc{ @calculatedFrom(
    // `tick` ""quote"" 'q'
    """" ) int8 len @lengthOf(lengthOf ) , @leftPad
/// triple
// " ++ [27880; 37322]%N ++ runes_of_ascii "
('\x00' )  _x //x
@calculatedFrom(
    """ ++ [28040; 24687]%N ++ runes_of_ascii """
), string leftPad @lengthOf(	packetx
    )
`say ""hi""` ,// packet A { u8 x, }
} options
{u128 =
    65535 ; }")).
Eval vm_compute in ("<<<M4457>>>" ++ check (runes_of_ascii "MetaData a1 {
    //x
    u8 u8x,
}

options {
    float = '0';
    // @lengthOf(
    pack = string;
}

MetaData packetx {
    tag Foo `
        `,
    uint8x asx,
    uint16 body,
    T x,// packet A { u8 x, }
    float a1 `
        `,
    matchKey crc,
}
// a // b")).
Eval vm_compute in ("<<<M1540>>>" ++ check (runes_of_ascii "packet
//	t
// trailing space 
_x {
// packet A { u8 x, }
// c
char[
3
    ] u8x @lengthOf(
u8x ) MetaData @calculatedFrom(""" ++ [128512]%N ++ runes_of_ascii """ // @lengthOf(
)
i16	Foo
@lengthOf(	string_
    )`doc`	, repeat	i64 metadata , @lengthOf( string_
) i8 // c
u  `line1
line2`	,
}
")).
Eval vm_compute in ("<<<M1667>>>" ++ check (runes_of_ascii "packet
//	t
// trailing space 
_x {
// packet A { u8 x, }
// c
char[
3
    ] u8x @lengthOf(
u8x ) , @calculatedFrom(""" ++ [128512]%N ++ runes_of_ascii """ // @lengthOf(
)
i16	Foo
@lengthOf(	string_
    )`doc`	, repeat	'1'i64 metadata , @lengthOf( string_
) i8 // c
u  `line1
line2`	,
}
")).
Eval vm_compute in ("<<<M1659>>>" ++ check (runes_of_ascii "packet
//	t
// trailing space 
_x {
// packet A { u8 x, }
// c
char[
3
    ] u8x @lengthOf(
u8x ) , @calculatedFrom(""" ++ [128512]%N ++ runes_of_ascii """ // @lengthOf(
)
i16	Foo
@lengthOf(	string_
    )`doc`	%, repeat	i64 metadata , @lengthOf( string_
) i8 // c
u  `line1
line2`	,
}
")).
Eval vm_compute in ("<<<M1584>>>" ++ check (runes_of_ascii "packet
//	t
// trailing space 
_x {
// packet A { u8 x, }
// c
char[
3
    ] u8x @lengthOf(
u8x ) , @calculatedFrom(""" ++ [128512]%N ++ runes_of_ascii """ // @lengthOf(
)
i16	Foo
@lengthOf(	string_
    ),	`doc` repeat	i64 metadata , @lengthOf( string_
) i8 // c
u  `line1
line2`	,
}
")).
Eval vm_compute in ("<<<M1630>>>" ++ check (runes_of_ascii "packet
//	t
// trailing space 
_x {
// packet A { u8 x, }
// c
char[
3
    ] u8x @lengthOf(
u8x ) , @calculatedFrom(""" ++ [128512]%N ++ runes_of_ascii """ // @lengthOf(
)
i16	Foo
@lengthOf(	string_
    )`doc`	, repeat	i64 metadata , @lengthOf( string_
) ) // c
u  `line1
line2`	,
}
")).
Eval vm_compute in ("<<<M1646>>>" ++ check (runes_of_ascii "packet
//	t
// trailing space 
_x {
// packet A { u8 x, }
// c
char[
3
    ] u8x @lengthOf(
u8x ) , @calculatedFrom(""" ++ [128512]%N ++ runes_of_ascii """ // @lengthOf(
)
i16	Foo
@lengthOf(	string_
    )`doc`	, repeat	i64 metadata , @lengthOf( string_
) i8 // c
u  `line1
line2`")).
Eval vm_compute in ("<<<M615>>>" ++ check (runes_of_ascii "
MetaData
    Header { int16 //	t
i64_ , } packet
u8x
{@tag(4294967296 ) zchar[
//	t
// " ++ [27880; 37322]%N ++ runes_of_ascii "
255 ] MetaDataX`
`,} options { pack = ""a	b"";crc =
    true _x
    =
4294967296 ;Z9_ = ' ' } root packet// a // b
repeatCount  { char[]
u8x ,  }
")).
Eval vm_compute in ("<<<M4159>>>" ++ check (runes_of_ascii "options

{
    trueish

= ""`tick`""
string_ = """ ++ [233]%N ++ runes_of_ascii "t" ++ [233]%N ++ runes_of_ascii """
    // c
    	}root  packet

    body{
	stringy @calculatedFrom(
    ""a	b""

    ) `line1
line2` 
, }
packet

Logon

{@leftPad (
	' ' ) 	 //	t
  u16

string_  `u8 x,` 
, }
")).
Eval vm_compute in ("<<<M4000>>>" ++ check (runes_of_ascii "packet len {
    @tag(255)
    repeat zchar[007] roots,
    leftPad {
        //	t
        f32 calculatedFrom,
        f32 lengthOf,
        u32 calculatedFrom,
    },
    x x,
}

MetaData u128 {
    A i8i8 `two words`,
}")).
Eval vm_compute in ("<<<M3943>>>" ++ check (runes_of_ascii "options {
}

MetaData pack {
    string T,
    msg_type stringy `" ++ [233]%N ++ runes_of_ascii "`,
}

// " ++ [128512]%N ++ runes_of_ascii " emoji
packet a1 {
    // " ++ [128512]%N ++ runes_of_ascii " emoji
    // packet A { u8 x, }
    repeat i32 x,
    i16 msg_type @calculatedFrom(""it's"") `two words`,
}// " ++ [27880; 37322]%N)).
Eval vm_compute in ("<<<M9>>>" ++ check (runes_of_ascii "options
    {
As= ""1"" ; matchKey = 0123456789 options1
    =
0123456789 ;// a // b
asx// c
=
    ""CRC32"" ;
    tag =00;
}// trailing space 
packet
matchKey { @calculatedFrom(
    ""abc""	) int32 repeatCount ,
}
")).
Eval vm_compute in ("<<<M1677>>>" ++ check (runes_of_ascii "options { { trueish = ""`tick`"" ; string_= """ ++ [233]%N ++ runes_of_ascii "t" ++ [233]%N ++ runes_of_ascii """
    // c
    } root
    packet body { stringy @calculatedFrom(
""a	b"" ) `line1
line2` , }
packet Logon {
    @leftPad(
    ' ' ) //	t
u16 string_ `u8 x,` ,
}
")).
Eval vm_compute in ("<<<M1849>>>" ++ check (runes_of_ascii "options { trueish = ""`tick`"" ; string_= """ ++ [233]%N ++ runes_of_ascii "t" ++ [233]%N ++ runes_of_ascii """
    // c
    } root
    packet body { stringy @calculatedFrom(
""a	b"" ) `line1
line2` , }
packet Logon {
    " ++ [233]%N ++ runes_of_ascii "@leftPad(
    ' ' ) //	t
u16 string_ `u8 x,` ,
}
")).
Eval vm_compute in ("<<<M1778>>>" ++ check (runes_of_ascii "options { trueish = ""`tick`"" ; string_= """ ++ [233]%N ++ runes_of_ascii "t" ++ [233]%N ++ runes_of_ascii """
    // c
    } root
    packet body { stringy @calculatedFrom(
""a	b"" ) `line1
line2` , }
Logon packet {
    @leftPad(
    ' ' ) //	t
u16 string_ `u8 x,` ,
}
")).
Eval vm_compute in ("<<<M1826>>>" ++ check (runes_of_ascii "options { trueish = ""`tick`"" ; string_= """ ++ [233]%N ++ runes_of_ascii "t" ++ [233]%N ++ runes_of_ascii """
    // c
    } root
    packet body { stringy @calculatedFrom(
""a	b"" ) `line1
line2` , }
packet Logon {
    @leftPad(
    ' ' ) //	t
u16 string_ `u8 x,` 
}
")).
Eval vm_compute in ("<<<M1776>>>" ++ check (runes_of_ascii "options { trueish = ""`tick`"" ; string_= """ ++ [233]%N ++ runes_of_ascii "t" ++ [233]%N ++ runes_of_ascii """
    // c
    } root
    packet body { stringy @calculatedFrom(
""a	b"" ) `line1
line2` , }
 Logon {
    @leftPad(
    ' ' ) //	t
u16 string_ `u8 x,` ,
}
")).
Eval vm_compute in ("<<<M543>>>" ++ check (runes_of_ascii "// `tick` ""quote"" 'q'
MetaData body{  zchar[ 0 ] asx // trailing space 
`a\` , float crc
,f32 trueish `crlf
line`	,// " ++ [128512]%N ++ runes_of_ascii " emoji
uint64 float ,body//	t
u
    `
`
    ,
    int16 stringy //	t
,}
")).
Eval vm_compute in ("<<<M605>>>" ++ check (runes_of_ascii "MetaData body {string	MetaDataX `" ++ [28040; 24687; 31867; 22411]%N ++ runes_of_ascii "`, }options{	zchar // packet A { u8 x, }
=
    false} packet chars// a // b
{ @tag(
42 )
len roots ,@rightPad () Header @lengthOf( charz ) ,
    }
")).
Eval vm_compute in ("<<<M295>>>" ++ check (runes_of_ascii "  MetaData x_y_z { string msg_type`" ++ [233]%N ++ runes_of_ascii "`, } packet chars{ repeat i32 metadata`say ""hi""` ,@leftPad ( ) @tag( 0123456789
)repeat zchar[
    // a // b
    007]
    //x
    lengthOf , }
")).
Eval vm_compute in ("<<<M3577>>>" ++ check (runes_of_ascii "packet A {
    u8 a,
}
packet B {
    u16 b,
}
root packet P {
    u8 K1,
    u8 K2,
    match K1 as M1 {
        1 : A,
    },
    match K2 as M2 {
        1 : B,
    },
}
")).
Eval vm_compute in ("<<<M323>>>" ++ check (runes_of_ascii "MetaData As  {
// " ++ [128512]%N ++ runes_of_ascii " emoji
// @lengthOf(
a1 Pad , zchar[ 00 ] // `tick` ""quote"" 'q'
body`// not a comment` ,
crc uint8x `// not a comment` ,uint32
packetx ``
    ,}
")).
Eval vm_compute in ("<<<M1800>>>" ++ check (runes_of_ascii "options { trueish = ""`tick`"" ; string_= """ ++ [233]%N ++ runes_of_ascii "t" ++ [233]%N ++ runes_of_ascii """
    // c
    } root
    packet body { stringy @calculatedFrom(
""a	b"" ) `line1
line2` , }
packet Logon {
    @leftPad")).
Eval vm_compute in ("<<<M1835>>>" ++ check (runes_of_ascii "options { trueish = ""`tick`"" ; string_= """ ++ [233]%N ++ runes_of_ascii "t" ++ [233]%N ++ runes_of_ascii """
    // c
    } root
    packet body { stringy @calculatedFrom(
""a	b"" ) `line1
line2` , }
packet Logon {
    @lef")).
Eval vm_compute in ("<<<M2202>>>" ++ check (runes_of_ascii "options{
_x
= true
} options
{ o	= /// triple
false
    ; chars
= ""\n"" } root packet	Pad
/// triple
// packet A { u@tag8 x, }
{	chars
    // a // b
    ,}")).
Eval vm_compute in ("<<<M4082>>>" ++ check (runes_of_ascii "  root packet	matchKey{

zchar[
3

    ]
    pack @calculatedFrom( ""a	b"")

`doc`
    ,	}

    options
	{ 
}MetaData
A  {
int8
	msg_type
    // c

,
}
")).
Eval vm_compute in ("<<<M2398>>>" ++ check (runes_of_ascii "// c
packet x { @lengthOf( metadata ) repeat lengthOf
,a1{
trueish	,// c
repeat//	t
MetaDataX ; } , zchar[
    42	] rootA // `tick` ""quote"" 'q'
,
    }
")).
Eval vm_compute in ("<<<M920>>>" ++ check (runes_of_ascii "packet
/// triple
/// triple
As
{ }
MetaData charz{
i64 falsey ,A msg_type, char[ 3 ]
trueish `say ""hi""` ,float32 calculatedFrom
    ,
string i8i8, }
")).
Eval vm_compute in ("<<<M3842>>>" ++ check (runes_of_ascii "
root

    packet	matchKey  { zchar[3	]
	pack @calculatedFrom(
""a	b""	)	`doc`  ,

    } 

    // c

options
{}
MetaData
A{	int8
msg_type,

    }")).
Eval vm_compute in ("<<<M1286>>>" ++ check (runes_of_ascii "
packet u { repeat char[// " ++ [27880; 37322]%N ++ runes_of_ascii "
10] crc
, repeat string x  ,  match
//	t
//
charz as
    tag{
007 :
options1
    , } ,Packet @lengthOf(trueish
) ,
}")).
Eval vm_compute in ("<<<M843>>>" ++ check (runes_of_ascii "options
{
crc
//
// a // b
=
    // packet A { u8 x, }
    ""abc""
    ; stringy =
    '0' ;
Logon
= zchar[
10  ]
    float// a // b
=
    false	}
")).
Eval vm_compute in ("<<<M1188>>>" ++ check (runes_of_ascii "options{ roots=
    char[ 7 ]
len // c
= i32 }
    // a // b
    MetaData u8x
    {i64
a1
    , }
packet metadata { @leftPad
( ) int64 len, }
")).
Eval vm_compute in ("<<<M710>>>" ++ check (runes_of_ascii "root packet options1 {
    }	options { u
    =  4294967296
    As=
""abc""  f32a = ' ' ; len // packet A { u8 x, }
=char[] ; uint8x
= true}
")).
Eval vm_compute in ("<<<M3525>>>" ++ check (runes_of_ascii "root packet
    // c1
P
    // c2
{ // c3a
  // c3b
char // c4a
  // c4b
c , // c6
u8 // c7a
  // c7b
x , // c9a
  // c9b
}
    // c10
")).
Eval vm_compute in ("<<<M1285>>>" ++ check (runes_of_ascii "root	packet rootA
/// triple
//	t
{
    @lengthOf( A) zchar[
    65535 ]len	`a\` ,  } root packet
packetx
{ uint8 i8i8 , }
// c
")).
Eval vm_compute in ("<<<M523>>>" ++ check (runes_of_ascii "//
MetaData i8i8 { } root packet
    roots {
repeat u16 BodyLength `
` ,
    } options {	string_ = """ ++ [233]%N ++ runes_of_ascii "t" ++ [233]%N ++ runes_of_ascii """ ; }
packet i64_
{}
")).
Eval vm_compute in ("<<<M3545>>>" ++ check (runes_of_ascii "packet B {
    u8 a,
}
root packet P {
    u8 K,
    u64 L @lengthOf(Body),
    match K as Body {
        1 : B,
    },
}
")).
Eval vm_compute in ("<<<M3333>>>" ++ check (runes_of_ascii "root packet matchKey { zchar[ 3 ] pack @calculatedFrom( ""a	b"" )
// c
`doc` , } options { } MetaData A { int8 msg_type , }")).
Eval vm_compute in ("<<<M3915>>>" ++ check (runes_of_ascii "

  MetaData

    body
{
    i64

    pack	`it's` , }

packet

    stringy  // c
	  { int16 calculatedFrom
	,	} ")).
Eval vm_compute in ("<<<M4115>>>" ++ check (runes_of_ascii "
MetaData

    float

    { float64 
  // c
charz

`
`	,}
    root	packet
    chars{@rightPad (
'0' 
)	Foo ,

} ")).
Eval vm_compute in ("<<<M1407>>>" ++ check (runes_of_ascii "
packet
    falsey  Header@calculatedFrom(""packet""  ) , char[
    0123456789 ] packetx
    , } // `tick` ""quote"" 'q'")).
Eval vm_compute in ("<<<M1362>>>" ++ check (runes_of_ascii "options {
    x =
    0  ;
/// triple
/// triple
Header = ""1"" ; zchar
    ='0' Pad= float64
;
} MetaData u128{	}
")).
Eval vm_compute in ("<<<M1452>>>" ++ check (runes_of_ascii "
packet
    falsey { Header@calculatedFrom(""packet""  ) , char[
    0123456789 ] 
    , } // `tick` ""quote"" 'q'")).
Eval vm_compute in ("<<<M3880>>>" ++ check (runes_of_ascii "
MetaData float 
{ float64
charz // c
    `
`,
    } 
root	packet chars{@rightPad

( '0'
    ) Foo,
    } ")).
Eval vm_compute in ("<<<M4425>>>" ++ check (runes_of_ascii "  MetaData
    T{

char[]
packetx 	 //	t
, 	 //
  	Packet
u ,
    i32 
_x
	, uint16

    asx
, 
}
")).
Eval vm_compute in ("<<<M487>>>" ++ check (runes_of_ascii "
options {
    A
= 42 /// triple
;
    body =
false; options1 = 0123456789 ; As
= char[
    7
] ; }")).
Eval vm_compute in ("<<<M4272>>>" ++ check (runes_of_ascii "MetaData float {
    float64 charz `
    `,// c
}

root packet chars {
    @rightPad('0')
    Foo,
}")).
Eval vm_compute in ("<<<M3830>>>" ++ check (runes_of_ascii "MetaData A {
    zchar[42] string_,
}

MetaData u {
    // a // b
}

options {
    o = ""CRC32"";
}")).
Eval vm_compute in ("<<<M2970>>>" ++ check (runes_of_ascii "packet A {
  match k as n {
    [1, 22, ""c c"", 4, 5, ""f"", 7, 8, ""i"", 10] : B,
    2 : C
  },
}")).
Eval vm_compute in ("<<<M3676>>>" ++ check (runes_of_ascii "
root 
packet roots
{
    // " ++ [128512]%N ++ runes_of_ascii " emoji
		calculatedFrom 	 // c
    	x_y_z

,
	}  // a // b
")).
Eval vm_compute in ("<<<M3305>>>" ++ check (runes_of_ascii "MetaData float { float64 charz `
` , } root packet chars { @rightPad ( '0' ) Foo , } // c
")).
Eval vm_compute in ("<<<M3281>>>" ++ check (runes_of_ascii "MetaData float { float64 charz `
` , // c
} root packet chars { @rightPad ( '0' ) Foo , }")).
Eval vm_compute in ("<<<M3492>>>" ++ check (runes_of_ascii "packet chars { }
// c
packet MetaDataX { @tag( 42 ) i16 string_ , repeat x `say ""hi""` , }")).
Eval vm_compute in ("<<<M16>>>" ++ check (runes_of_ascii "packet Z9_// packet A { u8 x, }
{ @tag(
4294967296 )uint8x@calculatedFrom( ""abc"" ), }

")).
Eval vm_compute in ("<<<M2298>>>" ++ check (runes_of_ascii "options
{ } options { BodyLength= u16 Header= f64 ; " ++ [8232]%N ++ runes_of_ascii "u128 =
    true
    ; } // a // b")).
Eval vm_compute in ("<<<M2229>>>" ++ check (runes_of_ascii "options
{ } options ) BodyLength= u16 Header= f64 ; u128 =
    true
    ; } // a // b")).
Eval vm_compute in ("<<<M3232>>>" ++ check (runes_of_ascii "packet metadata { Logon { A `" ++ [28040; 24687; 31867; 22411]%N ++ runes_of_ascii "` , tag o
// c
, } , zchar len `// not a comment` , }")).
Eval vm_compute in ("<<<M2286>>>" ++ check (runes_of_ascii "options
{ } options { BodyLength= u16 Header= f64 ; u128 =
    true
    ;  // a // b")).
Eval vm_compute in ("<<<M3455>>>" ++ check (runes_of_ascii "packet o { repeat Logon uint8x , } options { asx = zchar[ 3 // c
] stringy = '\x00' }")).
Eval vm_compute in ("<<<M1054>>>" ++ check (runes_of_ascii "MetaData A { } packet
    asx { @calculatedFrom(""`tick`""
) matchKey uint8x `" ++ [233]%N ++ runes_of_ascii "` ,
}
")).
Eval vm_compute in ("<<<M3398>>>" ++ check (runes_of_ascii "MetaData body { // c
i64 pack `it's` , } packet stringy { int16 calculatedFrom , }")).
Eval vm_compute in ("<<<M1166>>>" ++ check (runes_of_ascii "/// triple
options
{ Z9_ =
007;
// a // b
//
Pad =0123456789
u  = ""CRC32""
    }
")).
Eval vm_compute in ("<<<M2221>>>" ++ check (runes_of_ascii "options
{ }  { BodyLength= u16 Header= f64 ; u128 =
    true
    ; } // a // b")).
Eval vm_compute in ("<<<M2231>>>" ++ check (runes_of_ascii "options
{ } options { = u16 Header= f64 ; u128 =
    true
    ; } // a // b")).
Eval vm_compute in ("<<<M2890>>>" ++ check (runes_of_ascii "packet A {
  match k as n {
    [""a"", 22, ""c c"", 4] : B,
    2 : C
  },
}")).
Eval vm_compute in ("<<<M2892>>>" ++ check (runes_of_ascii "packet A {
  match k as n {
    [1, 22, ""c c"", 4] : B,
    2 : C
  },
}")).
Eval vm_compute in ("<<<M2794>>>" ++ check (runes_of_ascii "@lengthOf( options string u16 as ] i16 ( uint32 , options 7 [ uint16")).
Eval vm_compute in ("<<<M1023>>>" ++ check (runes_of_ascii "packet x_y_z { char stringy@calculatedFrom( """ ++ [233]%N ++ runes_of_ascii "t" ++ [233]%N ++ runes_of_ascii """ ), } /// triple")).
Eval vm_compute in ("<<<M2866>>>" ++ check (runes_of_ascii "packet A {
  match k as n {
    [1, ""bb""] : B,
    2 : C
  },
}")).
Eval vm_compute in ("<<<M123>>>" ++ check (runes_of_ascii "
packet crc	{ u32 T@lengthOf( x ) `crlf
line` ,// a // b
}")).
Eval vm_compute in ("<<<M2606>>>" ++ check (runes_of_ascii "packet A { match k as n { 1 : B 2 : C ""s"" : D [1] : E }, }")).
Eval vm_compute in ("<<<M4573>>>" ++ check (runes_of_ascii "options {
    a = ""x\
        y"";
    b = ""x\
        y""
}")).
Eval vm_compute in ("<<<M1180>>>" ++ check (runes_of_ascii "packet
    Header
{
i32 float, } // `tick` ""quote"" 'q'")).
Eval vm_compute in ("<<<M4133>>>" ++ check (runes_of_ascii "MetaData M {
    u8 x `
    x`,
    T t `
    x`,
}")).
Eval vm_compute in ("<<<M999>>>" ++ check (runes_of_ascii "MetaData metadata
    {
    // c
    i32
x , }
")).
Eval vm_compute in ("<<<M1126>>>" ++ check (runes_of_ascii "packet Logon
    { string u  `two words` , }
")).
Eval vm_compute in ("<<<M2762>>>" ++ check (runes_of_ascii "zchar[ @leftPad root repeat ) char [ [ char")).
Eval vm_compute in ("<<<M4333>>>" ++ check (runes_of_ascii "packet A {
    B {
        u8 x,
    },
}")).
Eval vm_compute in ("<<<M371>>>" ++ check (runes_of_ascii "//
packet u8x{
    }	packet
    crc { }")).
Eval vm_compute in ("<<<M2741>>>" ++ check (runes_of_ascii "Si%1~!4?\#L9=!>+J5vW%0b""]sse$x8k|lJ9Z")).
Eval vm_compute in ("<<<M1033>>>" ++ check (runes_of_ascii "options {
_x = 65535// " ++ [128512]%N ++ runes_of_ascii " emoji
; }
")).
Eval vm_compute in ("<<<M3012>>>" ++ check (runes_of_ascii "root packet A {
    u8 x `a
b`,
}")).
Eval vm_compute in ("<<<M2657>>>" ++ check (runes_of_ascii "options { a = 1; b = 2 c = 3;; }")).
Eval vm_compute in ("<<<M891>>>" ++ check (runes_of_ascii "options {
zchar	= '\x00' ;
}
")).
Eval vm_compute in ("<<<M396>>>" ++ check (runes_of_ascii "  options
{ a1 = ' '
    ; }")).
Eval vm_compute in ("<<<M1338>>>" ++ check (runes_of_ascii "root
    packet chars { }
")).
Eval vm_compute in ("<<<M2628>>>" ++ check (runes_of_ascii "packet A { u8 x, @tag(1) }")).
Eval vm_compute in ("<<<M3951>>>" ++ check (runes_of_ascii "// c
root packet pack {
}")).
Eval vm_compute in ("<<<M2715>>>" ++ check (runes_of_ascii "U;|@OK7+-3OJxNfG`GF-D*L")).
Eval vm_compute in ("<<<M3148>>>" ++ check (runes_of_ascii "packet A {
}// a// b")).
Eval vm_compute in ("<<<M393>>>" ++ check (runes_of_ascii " // trailing space ")).
Eval vm_compute in ("<<<M149>>>" ++ check (runes_of_ascii "packet	crc
    { }")).
Eval vm_compute in ("<<<M3111>>>" ++ check (runes_of_ascii "// c" ++ [8287]%N ++ runes_of_ascii "
packet A {
}")).
Eval vm_compute in ("<<<M3058>>>" ++ check (runes_of_ascii "packet A {
}// c ")).
Eval vm_compute in ("<<<M2764>>>" ++ check (runes_of_ascii "%w)<yjd'GFjF/'l0")).
Eval vm_compute in ("<<<M1129>>>" ++ check (runes_of_ascii "MetaData
o{ }")).
Eval vm_compute in ("<<<M2833>>>" ++ check ([651]%N ++ runes_of_ascii "o" ++ [65533; 65533]%N ++ runes_of_ascii "
z" ++ [65533; 15; 21; 65533]%N ++ runes_of_ascii "y")).
Eval vm_compute in ("<<<M2505>>>" ++ check (runes_of_ascii "// ab
c")).
Eval vm_compute in ("<<<M2456>>>" ++ check (runes_of_ascii "option")).
Eval vm_compute in ("<<<M2511>>>" ++ check (runes_of_ascii """a\""""")).
Eval vm_compute in ("<<<M2460>>>" ++ check (runes_of_ascii "root")).
Eval vm_compute in ("<<<M2500>>>" ++ check (runes_of_ascii "///")).
Eval vm_compute in ("<<<M2476>>>" ++ check (runes_of_ascii "''")).
Eval vm_compute in ("<<<M2678>>>" ++ check (runes_of_ascii "1")).
