From FP Require Import Lexer Parser ShowPT Digest Formatter.
From Coq Require Import String List NArith.
Import ListNotations.
Open Scope string_scope.
Set Printing Width 100000000.
Set Printing Depth 100000000.
Definition show_fres (r : fres) : string :=
  match r with
  | FOk s => "OK:" ++ sh_escaped s ""
  | FErr s => "ERR:" ++ sh_escaped s ""
  | FPanic p => "PANIC:" ++ p
  end.
Definition check (rs : list rune) : string := digest (show_fres (format_res rs)).
Definition full (rs : list rune) : string := show_fres (format_res rs).
Eval vm_compute in ("<<<M4132>>>" ++ check (runes_of_ascii "root packet i64_ {
    u64 Z9_ @lengthOf(uint8x) `
    `,
    repeat zchar x,
    match Packet as a1 {
        [""a	b""] : packetx,
        [
            255, 10, 4294967296, ""x y"", """ ++ [28040; 24687]%N ++ runes_of_ascii """,
            ""it's"", """"
        ] : falsey,
    },
    rootA {
        repeat charz {
            // " ++ [128512]%N ++ runes_of_ascii " emoji
            match x as a1 {
                10 : metadata,
                [
                    00, 007, ""{,}"", ""a	b"", ""abc"",
                    ""// no comment""
                ] : int,
                3 : tag,
                255 : x,
                ""{,}"" : Z9_,
            },
        },
        //
        body {
            repeat roots {
                f32 i8i8 @calculatedFrom(""a\\"") `line1
                line2`,
            },
            i8 leftPad `doc`,
        },
        o @calculatedFrom(""" ++ [28040; 24687]%N ++ runes_of_ascii """) `" ++ [28040; 24687; 31867; 22411]%N ++ runes_of_ascii "`,
    },
    match calculatedFrom as chars {
        // " ++ [27880; 37322]%N ++ runes_of_ascii "
        10 : i64_,
    },
    @lengthOf(i8i8)
    @tag(3)
    match Logon as o {
        [
            42, """", ""it's"", """ ++ [28040; 24687]%N ++ runes_of_ascii """, """",
            """ ++ [28040; 24687]%N ++ runes_of_ascii """
        ] : tag,
    },// `tick` ""quote"" 'q'
    zchar[0123456789] rootA @calculatedFrom(""abc""),
    zchar[4294967296] Z9_,
    zchar[65535] Header @lengthOf(trueish),
    @tag(0123456789)
    repeat trueish {
        float {
            repeat char[10] metadata,
            f32 float,
            As @calculatedFrom(""" ++ [233]%N ++ runes_of_ascii "t" ++ [233]%N ++ runes_of_ascii """),
            tag @calculatedFrom(""CRC32"") `line1
            line2`,
        },
    },
}

packet packetx {
    char[] options1,
    @calculatedFrom(""" ++ [28040; 24687]%N ++ runes_of_ascii """)
    @tag(1)
    match lengthOf as calculatedFrom {
        ""packet"" : uint8x,
        /// triple
        [""" ++ [128512]%N ++ runes_of_ascii """] : trueish,
        [3, ""CRC32""] : uint8x,
        [""\n"", ""{,}""] : metadata,
    },
    @tag(00)
    match Foo as falsey {
        0 : pack,
    },
    @calculatedFrom(""{,}"")
    repeat Logon `" ++ [233]%N ++ runes_of_ascii "`,
    @lengthOf(stringy)
    A @lengthOf(pack),
    @tag(00)
    match u8x as Packet {
        65535 : _x,
    },
    @rightPad()
    leftPad @calculatedFrom("""") `
    `,
    @calculatedFrom("""")
    @tag(4294967296)
    @tag(7)
    zchar[10] asx `tab	here`,
    @lengthOf(options1)
    //
    f32 packetx,
    // trailing space 
    calculatedFrom {
        zchar[0] Packet,
    },// @lengthOf(
}

MetaData u128 {
}

packet o {
    @lengthOf(lengthOf)
    tag body `line1
    line2`,
    packetx,
    repeat uint32 chars,
    match pack as u128 {
        ""it's"" : a1,
        [""x y"", ""it's""] : packetx,
    },
    @leftPad()
    @calculatedFrom(""packet"")
    @calculatedFrom(""1"")
    match i8i8 as Pad {
        [1, 4294967296, ""\n""] : T,
    },
    tag Foo,
    A {
        repeat pack,// `tick` ""quote"" 'q'
        repeat T {
            string asx @calculatedFrom(""// no comment"") `
            `,
            char[] x @lengthOf(trueish),
            zchar[007] body @lengthOf(A) `two words`,
        },
        repeat uint8x {
            match leftPad as A {
                [""\" ++ [233]%N ++ runes_of_ascii """] : metadata,
            },
            repeat MetaDataX int `u8 x,`,
            match rootA as Foo {
                ""x y"" : Logon,
            },
            match MetaDataX as metadata {
                4294967296 : _x,
                [
                    4294967296, ""{,}"", """", ""1"", ""\" ++ [233]%N ++ runes_of_ascii """,
                    ""abc""
                ] : roots,
                [""{,}"", """ ++ [128512]%N ++ runes_of_ascii """] : Z9_,
                ""a	b"" : trueish,
                ""\" ++ [233]%N ++ runes_of_ascii """ : int,
                [0, 1] : i64_,
            },
        },
    },
    repeat chars u8x,
    Logon int `u8 x,`,
    repeat packetx `a\`,
}")).
Eval vm_compute in ("<<<M4069>>>" ++ check (runes_of_ascii "packet trueish {
    Packet {
        u8x {
            match Packet as f32a {
                [255, 255, 1] : calculatedFrom,
                // packet A { u8 x, }
                ""// no comment"" : a1,
                10 : Foo,
                ""\" ++ [233]%N ++ runes_of_ascii """ : repeatCount,
                ""abc"" : MetaDataX,
                00 : u128,
            },
            repeat o roots `tab	here`,// @lengthOf(
            int16 packetx `" ++ [28040; 24687; 31867; 22411]%N ++ runes_of_ascii "`,
        },
    },
    crc @lengthOf(i8i8) ``,
    repeat uint8 body,
    @leftPad('\x00')
    string packetx @calculatedFrom(""packet""),
    f64 int `line1
    line2`,
}

packet crc {
    i32 u128 `line1
    line2`,
    @tag(42)
    lengthOf {
        leftPad @lengthOf(repeatCount),
        u16 _x,
        match rootA as msg_type {
            [""""] : Z9_,
            0 : tag,
            ""\" ++ [233]%N ++ runes_of_ascii """ : As,
            ""1"" : Logon,
            00 : A,
            3 : BodyLength,
        },
    },
    @tag(1)
    int8 Pad,
    zchar[65535] asx,
}

options {
    trueish = false;
}

packet Packet {
    @calculatedFrom(""abc"")
    u {
        repeat Logon {
            char[] msg_type @calculatedFrom(""a\""b"") `// not a comment`,
        },
        repeat char[00] rootA,
    },
    @calculatedFrom(""abc"")
    string float,
    match Foo as Z9_ {
        [
            0, 007, 4294967296, ""packet"", ""a	b"",
            ""\n""
        ] : trueish,
        [65535, """ ++ [28040; 24687]%N ++ runes_of_ascii """] : u8x,
        65535 : roots,
        // a // b
        [""CRC32""] : falsey,
        00 : roots,
    },
    @rightPad(' ')
    x_y_z @calculatedFrom(""\" ++ [233]%N ++ runes_of_ascii """),
}

packet matchKey {
    @tag(7)
    leftPad @calculatedFrom(""\" ++ [233]%N ++ runes_of_ascii """) `" ++ [233]%N ++ runes_of_ascii "`,
    @tag(007)
    uint8 leftPad,
    int {
        i16 x ``,
        match len as f32a {
            ""it's"" : calculatedFrom,
            [0] : lengthOf,
            7 : x_y_z,
            ""a\""b"" : float,
            1 : Pad,
        },
    },
    o {
        // @lengthOf(
        u8x metadata `tab	here`,
        asx {
            match int as x_y_z {
                ""a	b"" : falsey,
            },
        },
        repeat int16 As `crlf
        line`,
    },
    i32 i64_ `" ++ [233]%N ++ runes_of_ascii "`,
    T,
}")).
Eval vm_compute in ("<<<M4486>>>" ++ check (runes_of_ascii "
packet
	Packet

{

@tag(
10 // a // b
) match
	trueish as  x_y_z

{

    ""it's""

:
i8i8,
	// " ++ [27880; 37322]%N ++ runes_of_ascii "
// " ++ [27880; 37322]%N ++ runes_of_ascii "

	00 :
asx
    }  ,	zchar[  007  ]
u@calculatedFrom(
""`tick`""
) `line1
line2`
    ,  
      /// triple
    chars
    @calculatedFrom( """" 
)

    ,

    match zchar

    as  _x 
{ 00 :
rootA ""\" ++ [233]%N ++ runes_of_ascii """	: 
metadata 
	// c
      // trailing space 
		,}
        // a // b
  //
,
body 
{
    u32
	u128

@calculatedFrom(""{,}"") ,repeat
	char[
//x
  4294967296  ]  u `say ""hi""`,

    } // c
  	,
@lengthOf( 
stringy

)
	float	{string 	 //x
leftPad ,	repeat uint16
Pad
,
char
	u	// @lengthOf(

	, 	 // " ++ [128512]%N ++ runes_of_ascii " emoji
    i8i8
    u	,	}
,

match
o	as

x

    {

[

""`tick`""
    , ""1""
, 10
, 
//

// c
1
, 
00
	,	0
,

    255] :
uint8x  //

	,
    0
:
T , 	 //
	1: 
trueish
1
    : rootA
	,} // @lengthOf(
	  ,  zchar[//	t
255
    ]

    T `line1
line2`
, @leftPad
( '0' 	 // c
    )@leftPad ( 
'\x00')	@tag( 
007
)

    match  T

as u8x {[

007

] :  A  ,0

    :	x
, [4294967296]  :
	charz  ,  """":
As //

,
	7	:	// `tick` ""quote"" 'q'
      int , 65535
:
    x_y_z 
,

} ,// trailing space 
	}
	options{ 	 /// triple
  x  = '\x00' 
;// packet A { u8 x, }
    	} 

    // " ++ [128512]%N ++ runes_of_ascii " emoji
  root packet  i64_
    {

    @tag(
	4294967296  ) falsey	options1// `tick` ""quote"" 'q'

	, uint64 Pad `doc`

, @tag(
	65535  )
	char 
        // " ++ [128512]%N ++ runes_of_ascii " emoji

	/// triple
  	Logon 
@calculatedFrom( """"
	// @lengthOf(
  // c
) ,	char[  0	// @lengthOf(

  ]

    MetaDataX`a\`	/// triple
  , 	 //
metadata 
f32a `tab	here`,

    stringy Header,
@leftPad ()  //x

	@calculatedFrom( // c
	""\" ++ [233]%N ++ runes_of_ascii """ 
)@calculatedFrom( """ ++ [128512]%N ++ runes_of_ascii """

) char[]body
    @calculatedFrom(  ""a	b"" )
    `a\`
, } ")).
Eval vm_compute in ("<<<M120>>>" ++ check (runes_of_ascii "root packet // c
falsey { roots { repeat x_y_z ,
} , char[] T `
` , char[	3 ]T/// triple
,zchar { repeat
zchar[ 65535 ]
    rootA  `tab	here`
    , int32 leftPad , }
,
// packet A { u8 x, }
// `tick` ""quote"" 'q'
repeat
    Packet
    //	t
    ,repeat
char[ 00 ] body`" ++ [233]%N ++ runes_of_ascii "` , @tag(
00// @lengthOf(
) a1 i64_
, i8i8 BodyLength `{ , }`
    , match
    crc as u8x
// a // b
//	t
{ [
    // `tick` ""quote"" 'q'
    0 ]:
    matchKey , [ 0123456789,
""a\\""
,
""abc"" ]:As , """ ++ [128512]%N ++ runes_of_ascii """ : tag, 7 :
    u8x , 42 : f32a 00 :options1 } // trailing space 
,} packet// " ++ [27880; 37322]%N ++ runes_of_ascii "
MetaDataX{@tag( 42)@leftPad ( ) @leftPad
    //x
    ( )  body i64_ , } packet int{ @calculatedFrom(
// " ++ [27880; 37322]%N ++ runes_of_ascii "
//
""" ++ [233]%N ++ runes_of_ascii "t" ++ [233]%N ++ runes_of_ascii """)
@tag(42 ) @leftPad	( '\x00' ) repeat u8x ,  repeat len , @tag(	255	)match calculatedFrom as Z9_ {  ""CRC32"" :	len,""packet"" : falsey, [65535,
42//x
]// @lengthOf(
: charz ,
} // @lengthOf(
,i8i8 ,match
i8i8
    as Foo // trailing space 
{ ""a\\"" : x , } , @leftPad
( ) char crc `say ""hi""` ,
} options {	Pad =
    zchar[ // trailing space 
0
]; pack="""" // c
;
    } root
    packet lengthOf
{ @leftPad ('0' ) A
    // trailing space 
    @calculatedFrom(
// " ++ [27880; 37322]%N ++ runes_of_ascii "
//
""\" ++ [233]%N ++ runes_of_ascii """),@calculatedFrom( ""abc""// c
)  repeat// c
char[] a1 ,repeat int  trueish  , @rightPad(
    '\x00'
    )// a // b
zchar[4294967296 ] _x ,repeat
stringy //
x	,@tag( 00  ) @lengthOf( int )  @tag( 0) u8	T	,
@tag(1 ) @lengthOf(
a1 ) @calculatedFrom( ""it's"" ) char[ 10 ] body ,  @lengthOf( f32a )
    rootA
@calculatedFrom(""{,}"" ), // " ++ [128512]%N ++ runes_of_ascii " emoji
} 	 ")).
Eval vm_compute in ("<<<M105>>>" ++ check (runes_of_ascii "packet
uint8x {match Pad as// " ++ [128512]%N ++ runes_of_ascii " emoji
repeatCount{ [0 ] :
lengthOf ,[""// no comment"" ] :
metadata ,} , metadata
// trailing space 
//
, zchar[/// triple
1
] trueish//	t
, @calculatedFrom(""a\""b"" ) match//x
roots as f32a { 4294967296
: i64_ , ""it's""
: a1 , [
    // trailing space 
    00	,
    0123456789 ] : As ,
255 : Packet , ""{,}"" :
T/// triple
0
    :
falsey } ,
    body @calculatedFrom( ""\n""
    // trailing space 
    ) , @calculatedFrom( """ ++ [128512]%N ++ runes_of_ascii """ )	@tag(
10 ) char[ 10 ]
    trueish `doc` ,	@tag( 255 ) repeat
    Z9_ { asx chars`// not a comment` , } , @lengthOf(Packet ) u16
    crc , }
    // `tick` ""quote"" 'q'
    options
{ BodyLength =
    i32 ; x// " ++ [128512]%N ++ runes_of_ascii " emoji
=
255
    ; u= 3 } options
{ }
packet
    calculatedFrom {	}
    //x
    root
packet Header {
    Pad {
repeatCount ,  uint16 zchar , match msg_type
as
pack
    /// triple
    {	""abc"" : repeatCount , ""{,}"" : repeatCount""a	b""	: calculatedFrom},
repeat string
Logon `a\` , }
,@lengthOf( x_y_z
    ) match
tag as repeatCount { 007 :  BodyLength , [
    //	t
    """ ++ [28040; 24687]%N ++ runes_of_ascii """ ] :
BodyLength 42: string_ ""// no comment""
// trailing space 
/// triple
: //
Z9_ , 4294967296:
    // " ++ [128512]%N ++ runes_of_ascii " emoji
    _x
    } , f64 u `it's` , zchar[ 00] f32a `doc` ,match
    i64_
    as Logon
    { 4294967296// a // b
:
metadata ,
}
, char[1 ]Pad
, zchar[  0123456789 ] float // @lengthOf(
`` , }

")).
Eval vm_compute in ("<<<M3621>>>" ++ check (runes_of_ascii "// top
options // c0
{ // c1
StringPrefixLenType = // c3a
  // c3b
u8 // c4a
  // c4b
;
    // c5
ArrayPrefixLenType = u32 // c8
; } // c10
packet Quote // c12
{ // c13a
  // c13b
u32 // c14a
  // c14b
Ref // c15a
  // c15b
, InNote74 {
    // c18
u8
    // c19
pad0 // c20a
  // c20b
, }
    // c22
, }
    // c24
packet // c25a
  // c25b
Ack
    // c26
{ // c27a
  // c27b
repeat // c28a
  // c28b
string OrderId // c30a
  // c30b
, // c31
}
    // c32
packet // c33
Logout { // c35a
  // c35b
zchar[ 7
    // c37
] // c38a
  // c38b
venue ,
    // c40
char[ // c41
12
    // c42
]
    // c43
Px ,
    // c45
string count ,
    // c48
char[] Tail
    // c50
, // c51a
  // c51b
char[] Qty // c53
, Quote // c55a
  // c55b
, } // c57a
  // c57b
root
    // c58
packet // c59a
  // c59b
Trade // c60
{
    // c61
zchar[ // c62
2
    // c63
] // c64
price // c65a
  // c65b
,
    // c66
u32 x // c68a
  // c68b
, u32
    // c70
lastPx @lengthOf( // c72a
  // c72b
Body
    // c73
) // c74a
  // c74b
, // c75a
  // c75b
match x // c77a
  // c77b
as Body {
    // c80
148 // c81
: // c82a
  // c82b
Ack
    // c83
, // c84a
  // c84b
171
    // c85
: Quote , // c88a
  // c88b
15 // c89
: Logout // c91
, }
    // c93
, // c94
} ")).
Eval vm_compute in ("<<<M3935>>>" ++ check (runes_of_ascii "packet  leftPad  //x
  	{  uint16
x ,
lengthOf	// a // b

chars
`// not a comment` 
,  @calculatedFrom(
""a\\""
	) repeat	char[] As
`{ , }`
, metadata@calculatedFrom(""// no comment""

    )	,  uint32  f32a
    `
`,
	@tag( // @lengthOf(
  255
)
repeat

trueish	`doc`
	,
char[]trueish
@lengthOf(len  ) ,int16
i64_

,

@calculatedFrom( ""\n""
	)
	i8i8 `" ++ [28040; 24687; 31867; 22411]%N ++ runes_of_ascii "`  ,

} root packet	crc{repeat uint8x
packetx
,
    match u8x
as	T
{
	0

: 
crc	,	1 :  T	,
[ ""a\\"" // c
  	,
	0123456789	,
	00 ] :chars	,	7:
T	//	t
	,
    } // a // b
		, roots 
@lengthOf(
lengthOf  )
`two words`,
	match
	rootA as A
{

10

    :
    x  ,  } ,

    crc
@calculatedFrom(

    ""a	b""  ),
    chars	{match
    lengthOf as	Header

{ 4294967296 :	// c
	zchar,[
4294967296 
,  ""a\\"" ]

    :

asx  ,
}	,
_x@calculatedFrom( ""\" ++ [233]%N ++ runes_of_ascii """
	)	`tab	here`	// a // b
    , 
}	,
}//
	MetaData
asx
{	zchar[

    42 
]uint8x 

// `tick` ""quote"" 'q'

// `tick` ""quote"" 'q'
    	,

    uint8 Logon//x
    `// not a comment`
,} MetaData	o 
        //	t
    //x
  	{u16 	 // " ++ [27880; 37322]%N ++ runes_of_ascii "

	_x , x_y_z

    float 
`crlf
line`,  BodyLength
calculatedFrom
`tab	here`

    ,  uint16 
MetaDataX,
}")).
Eval vm_compute in ("<<<M4310>>>" ++ check (runes_of_ascii "packet falsey {
    int64 BodyLength,
    @tag(4294967296)
    @leftPad()
    match _x as Foo {
        ""\n"" : asx,
        // `tick` ""quote"" 'q'
        // `tick` ""quote"" 'q'
        [
            4294967296, 7, ""{,}"", """ ++ [128512]%N ++ runes_of_ascii """, """ ++ [28040; 24687]%N ++ runes_of_ascii """,
            ""packet"", ""packet"", ""x y""
        ] : x_y_z,
    },// `tick` ""quote"" 'q'
    A len `// not a comment`,
    //
    repeat char[] i64_ `crlf
        line`,
    // trailing space 
    // trailing space 
    repeat char[] u `line1
        line2`,
    tag {
        string metadata,
    },
    // " ++ [27880; 37322]%N ++ runes_of_ascii "
    // " ++ [128512]%N ++ runes_of_ascii " emoji
    char[3] falsey @lengthOf(leftPad) `crlf
        line`,
}

root packet MetaDataX {
    @lengthOf(u8x)
    match f32a as Header {
        [255, ""a\""b""] : u8x,
        ""packet"" : uint8x,
        ""1"" : _x,
    },
    Packet `doc`,
    zchar[3] u128 @lengthOf(asx),
}

MetaData x {
    As roots,
    char[10] crc `{ , }`,
    BodyLength asx `u8 x,`,
    matchKey i8i8,
    falsey pack `" ++ [233]%N ++ runes_of_ascii "`,
    leftPad metadata,
}

options {
    pack = 0
    tag = f32
    i64_ = ""abc"";
    // " ++ [128512]%N ++ runes_of_ascii " emoji
    // " ++ [128512]%N ++ runes_of_ascii " emoji
    f32a = true;
}

packet Foo {
}")).
Eval vm_compute in ("<<<M674>>>" ++ check (runes_of_ascii "root packet  Foo	{
repeat
Packet { match i64_ as f32a{ ""1"" : Z9_, } ,
match
    // " ++ [128512]%N ++ runes_of_ascii " emoji
    options1  as stringy{
[
1
] :Foo	1 : x_y_z
    // trailing space 
    ,
// packet A { u8 x, }
// packet A { u8 x, }
[ 7 , 42
,
""1""  , """ ++ [233]%N ++ runes_of_ascii "t" ++ [233]%N ++ runes_of_ascii """ ,
""\" ++ [233]%N ++ runes_of_ascii """
, """ ++ [128512]%N ++ runes_of_ascii """ , ""{,}"" ] // packet A { u8 x, }
: float,
0123456789 : x ,	} , }
, @lengthOf(// `tick` ""quote"" 'q'
u // " ++ [128512]%N ++ runes_of_ascii " emoji
) char[] // " ++ [128512]%N ++ runes_of_ascii " emoji
MetaDataX ,@tag( 4294967296
) u128 , @calculatedFrom( """ ++ [128512]%N ++ runes_of_ascii """ )@tag( 4294967296 ) MetaDataX
    // @lengthOf(
    @calculatedFrom( """ ++ [128512]%N ++ runes_of_ascii """
) `tab	here` ,
    } packet BodyLength
    {
    char[ 0]u128	``// packet A { u8 x, }
, i64_
    ,
    repeat//
matchKey{
    char[]
x  `u8 x,`
, u128 f32a `u8 x,`
, char[	42 ]  calculatedFrom ,packetx @calculatedFrom(// packet A { u8 x, }
""" ++ [128512]%N ++ runes_of_ascii """ ) `a\`  , } , @lengthOf( Foo ) @rightPad
(
    // trailing space 
    '0'  ) int64	o
// trailing space 
// `tick` ""quote"" 'q'
@lengthOf( float	) , }
    MetaData
// a // b
// `tick` ""quote"" 'q'
_x
// @lengthOf(
// " ++ [27880; 37322]%N ++ runes_of_ascii "
{
u16 x_y_z ,
    //x
    zchar[ 42 ] falsey , }")).
Eval vm_compute in ("<<<M192>>>" ++ check (runes_of_ascii "//x
packet	u8x { @lengthOf(  As
    )
repeat char[ // c
4294967296
]
    int `{ , }` ,repeat
    // " ++ [128512]%N ++ runes_of_ascii " emoji
    int8 len
`two words` , }root packet tag// a // b
{} root packet rootA { o@calculatedFrom(""""
    ) ,leftPad i64_ `it's`
// a // b
// packet A { u8 x, }
, // " ++ [27880; 37322]%N ++ runes_of_ascii "
@tag( 7 )
    float ,	int32 x_y_z, repeat roots { zchar[ 10 ]
    a1 ,
    f32a
    options1
    `crlf
line` , match _x
    // @lengthOf(
    as
zchar {	1 : u8x ,""// no comment"" : float,	[4294967296, 10 ,""" ++ [233]%N ++ runes_of_ascii "t" ++ [233]%N ++ runes_of_ascii """ , """ ++ [28040; 24687]%N ++ runes_of_ascii """
, 1 ] :u128 // trailing space 
,
    [ ""\" ++ [233]%N ++ runes_of_ascii """ ,//x
42 // " ++ [128512]%N ++ runes_of_ascii " emoji
] :	stringy
    ,
[ 1 // " ++ [27880; 37322]%N ++ runes_of_ascii "
,""\n""
]:falsey
    // a // b
    , } ,  string  charz  @calculatedFrom( """" ) ,
    }
,	char[]	options1
    `
`
,
//	t
/// triple
u8x{ repeat msg_type	matchKey `u8 x,` , } , A
@lengthOf( //x
pack
    ) //	t
, i64
stringy ,
}
packet i8i8{ i64_
u128
,@lengthOf( u8x//
) repeat
float64 f32a ,@calculatedFrom(
    ""`tick`"" ) pack
`" ++ [233]%N ++ runes_of_ascii "` ,
uint64 Z9_ @calculatedFrom("""" ) `tab	here` , }
")).
Eval vm_compute in ("<<<M1076>>>" ++ check (runes_of_ascii "
packet// `tick` ""quote"" 'q'
BodyLength
{ @rightPad (	)int8
// @lengthOf(
// c
BodyLength  @calculatedFrom(	""packet"" )
// c
/// triple
`
`, u8x
calculatedFrom
    ,//x
repeat
    f32a {
zchar[ 3 ] BodyLength , match i8i8 // " ++ [128512]%N ++ runes_of_ascii " emoji
as A{
    3  : packetx , ""CRC32"" //x
:
options1
}  , } , @leftPad
( ' ' )@lengthOf( Header ) repeat
len string_ ,
@tag( 4294967296 // @lengthOf(
)@calculatedFrom(""" ++ [233]%N ++ runes_of_ascii "t" ++ [233]%N ++ runes_of_ascii """ )len
repeatCount
,  u64 i64_
`{ , }`	, i16 o , @lengthOf( repeatCount	) @lengthOf(
Header ) @rightPad(  '\x00'
    //x
    ) repeat options1{ // c
roots @calculatedFrom(
    ""1""// c
)
    `tab	here` ,repeat // @lengthOf(
options1 zchar , repeat a1{
    u128 {match Z9_ as x {
    ""`tick`"" :o, ""`tick`""// packet A { u8 x, }
:  pack , [ 255 ]
    : Header ,3 : asx ,
[ 255 , //	t
""CRC32""
]  : charz }, } ,}, char[10 ] stringy ,
    } ,// " ++ [27880; 37322]%N ++ runes_of_ascii "
@leftPad( )
// packet A { u8 x, }
// a // b
char[
007] len`doc` , }")).
Eval vm_compute in ("<<<M492>>>" ++ check (runes_of_ascii "packet roots { } root packet metadata{ repeat //	t
float32 int ,	_x @lengthOf(
    packetx //
) `
` , repeat Packet Header
, @tag( 0 // trailing space 
)/// triple
float32 msg_type
    @calculatedFrom(
""\" ++ [233]%N ++ runes_of_ascii """// a // b
)  , char[
0 ] BodyLength , len
@calculatedFrom(	""" ++ [28040; 24687]%N ++ runes_of_ascii """ ) // trailing space 
`tab	here` ,	}
root packet calculatedFrom
{ @rightPad ( ' '
)
    tag
@calculatedFrom(""// no comment"")
    // " ++ [27880; 37322]%N ++ runes_of_ascii "
    , crc @calculatedFrom(""\" ++ [233]%N ++ runes_of_ascii """ ), @lengthOf( u128
// a // b
//x
) @lengthOf(
chars)
repeat
    lengthOf`tab	here` // a // b
, @tag( 007)
    char[]
    roots , @calculatedFrom(""" ++ [233]%N ++ runes_of_ascii "t" ++ [233]%N ++ runes_of_ascii """ ) repeat zchar[ 0 ] chars `crlf
line`  , // `tick` ""quote"" 'q'
@calculatedFrom(""a\\"" )	options1 ,
    // " ++ [27880; 37322]%N ++ runes_of_ascii "
    @rightPad ( // " ++ [27880; 37322]%N ++ runes_of_ascii "
)
    Z9_ { float32 x_y_z @lengthOf( asx // @lengthOf(
)
    , repeat float32 asx , f32 zchar
`" ++ [28040; 24687; 31867; 22411]%N ++ runes_of_ascii "`
    , char[ 007 ] Packet
`a\`
,
} ,
}")).
Eval vm_compute in ("<<<M4462>>>" ++ check (runes_of_ascii "

  packet

    _x{
	u ,

@lengthOf(len ) match

    f32a as Pad {
""packet""	:
metadata ,

""CRC32""
	:  x_y_z
[""abc"" ,
	""{,}""	] :Logon,}

// c
    	,

    zchar[ 7 ]
a1 ,
@tag(65535 
)	@tag(	0123456789 
) 
    //x
    @lengthOf(	asx)	repeat i16 	 // @lengthOf(
	tag`{ , }`	// `tick` ""quote"" 'q'
  ,
@leftPad( '\x00' 
) 
match
    i64_
as 
x 
{  0  :  crc
    ,

[ 
	//	t
	// trailing space 
      ""// no comment""

    ] 
:	uint8x ,
    42
// a // b
// trailing space 
	  :  string_
, 007

:trueish

,
	[  10
]  // " ++ [128512]%N ++ runes_of_ascii " emoji
	:

rootA
""" ++ [28040; 24687]%N ++ runes_of_ascii """

    :	// trailing space 
	len , }	//
	, 
@rightPad(
'\x00' 	 // trailing space 
	) @tag( 
//
  00) 
@calculatedFrom(
""" ++ [233]%N ++ runes_of_ascii "t" ++ [233]%N ++ runes_of_ascii """ )  // c
    char[]
    float 
@calculatedFrom(""\n""
    )

,  repeat f32

trueish

    `crlf
line` , 
} 	 // @lengthOf(
 
")).
Eval vm_compute in ("<<<M798>>>" ++ check (runes_of_ascii "
options
    { MetaDataX = zchar[
10 ]
    ;
Pad
=	true // trailing space 
;asx=
    false ;Header=""" ++ [233]%N ++ runes_of_ascii "t" ++ [233]%N ++ runes_of_ascii """ roots = ""it's""
} // " ++ [128512]%N ++ runes_of_ascii " emoji
options { // a // b
a1
    =
//	t
//	t
false
;
asx	= '\x00'
; zchar  =""packet"" BodyLength	= """"// trailing space 
As
= true } packet rootA//x
{} packet	calculatedFrom { repeat	char[]
matchKey ,  repeat trueish {	i16 repeatCount @lengthOf( rootA ) , } , uint64
i8i8 , int64 _x @calculatedFrom(
""// no comment"") ,
@lengthOf(tag ) repeat
    leftPad	, @lengthOf( o  ) // " ++ [128512]%N ++ runes_of_ascii " emoji
zchar
    // packet A { u8 x, }
    @calculatedFrom(""`tick`""
) ,tag @lengthOf(
x_y_z
    // `tick` ""quote"" 'q'
    ) ,
A@lengthOf(
    uint8x )`u8 x,` ,/// triple
roots { u128
    ,	} , } root // " ++ [27880; 37322]%N ++ runes_of_ascii "
packet uint8x
{A // " ++ [27880; 37322]%N ++ runes_of_ascii "
@lengthOf(
    x )`" ++ [233]%N ++ runes_of_ascii "` , }")).
Eval vm_compute in ("<<<M924>>>" ++ check (runes_of_ascii "  packet Pad{	@leftPad ( '\x00' ) @tag( 42
    )@rightPad ( ' ')
    uint8 asx
    // c
    ,
@rightPad
    (	)string a1,	u8x  @calculatedFrom( """ ++ [128512]%N ++ runes_of_ascii """ )	,	@tag(
    1 ) zchar[ 255 ] u128 ,@tag( 00)match
//x
//	t
u128
as zchar { 3 :	tag , [ """ ++ [233]%N ++ runes_of_ascii "t" ++ [233]%N ++ runes_of_ascii """ ]
: // " ++ [27880; 37322]%N ++ runes_of_ascii "
int ,
}
    ,
    @leftPad	( ) zchar[7 ]
    zchar
@lengthOf(
lengthOf ) , repeat Packet Foo	`a\`  , @lengthOf(
msg_type
)@rightPad
(
'0' ) @tag(255 ) string
    tag
//	t
//
@lengthOf(roots // a // b
)
    `say ""hi""` , repeat// " ++ [128512]%N ++ runes_of_ascii " emoji
Logon f32a,}packet uint8x {
    // trailing space 
    @rightPad	(' ' )@lengthOf(
    Header
)zchar[
7 ] u ,} // " ++ [128512]%N ++ runes_of_ascii " emoji
MetaData a1
    { rootA msg_type ,
u16
    /// triple
    lengthOf `it's`,f32
u8x
, }
    // c
    packet	trueish {}")).
Eval vm_compute in ("<<<M560>>>" ++ check (runes_of_ascii "
packet
    a1 /// triple
{ @lengthOf(
    As
)uint16 // " ++ [128512]%N ++ runes_of_ascii " emoji
matchKey
`line1
line2` , }
options { pack = 7 } packet
    // " ++ [128512]%N ++ runes_of_ascii " emoji
    packetx {@calculatedFrom(  ""packet"" ) int8 metadata
@lengthOf(
metadata
    ) , @tag(	7 )
    lengthOf @lengthOf( u128) // " ++ [128512]%N ++ runes_of_ascii " emoji
, @rightPad (
    )Header
@lengthOf( msg_type
)  ``,
leftPad ,
}
packet
    // packet A { u8 x, }
    string_{ }  packet f32a { @leftPad ( '0'
) @leftPad ( ' '
    /// triple
    )
@leftPad (' '
) x_y_z { char charz @calculatedFrom(
""""  )
//	t
// trailing space 
,
repeat rootA
repeatCount ,
    // packet A { u8 x, }
    repeat u128 f32a `// not a comment` ,},
// " ++ [27880; 37322]%N ++ runes_of_ascii "
// trailing space 
} // packet A { u8 x, }")).
Eval vm_compute in ("<<<M688>>>" ++ check (runes_of_ascii "options { msg_type
=65535
    ; a1 = """ ++ [128512]%N ++ runes_of_ascii """
; Foo
=  ""\" ++ [233]%N ++ runes_of_ascii """matchKey
=
'0'
; chars = """ ++ [28040; 24687]%N ++ runes_of_ascii """
    //	t
    } packet lengthOf {
// c
//x
} MetaData body
{
    A len // packet A { u8 x, }
`" ++ [28040; 24687; 31867; 22411]%N ++ runes_of_ascii "` ,}
packet
    o{
@rightPad //x
(
'\x00' ) int
// `tick` ""quote"" 'q'
// packet A { u8 x, }
roots , repeat
    u8x
`tab	here`	,
i32 x_y_z @lengthOf( Logon
) `line1
line2`,
    _x
Z9_ , @lengthOf(
zchar )  i32 msg_type `doc`
,	@rightPad ( ' '	) i8 options1
    //
    ,
@lengthOf(packetx) charz
@lengthOf(
// packet A { u8 x, }
// trailing space 
o
    ) , @rightPad ( ' ' ) match /// triple
packetx as leftPad{
    [ ""{,}""  ,
""" ++ [128512]%N ++ runes_of_ascii """
    ]:
    charz	,
    } ,	}
")).
Eval vm_compute in ("<<<M4005>>>" ++ check (runes_of_ascii "root packet i8i8 {
    @tag(3)
    @tag(3)
    match u128 as f32a {
        //	t
        [0123456789, 0123456789, 42, ""a\""b"", ""// no comment""] : Foo,
    },
}

packet Z9_ {
    @leftPad('0')
    char[] Pad @lengthOf(Z9_) ``,
    u8x u `doc`,
    @calculatedFrom(""{,}"")
    falsey {
        u8x f32a,
    },
    repeat i8 metadata,
    repeat i64 i8i8,
    zchar[1] u,
    string crc `crlf
    line`,// " ++ [128512]%N ++ runes_of_ascii " emoji
    match i8i8 as matchKey {
        [0, 0123456789] : uint8x,
    },
    metadata @calculatedFrom(""CRC32"") `
    `,
    @lengthOf(_x)
    @tag(7)
    @tag(00)
    repeat Packet matchKey `it's`,// " ++ [128512]%N ++ runes_of_ascii " emoji
}")).
Eval vm_compute in ("<<<M386>>>" ++ check (runes_of_ascii "// @lengthOf(
root packet uint8x { repeat
x_y_z //	t
{ zchar[ 10
] stringy@calculatedFrom(// `tick` ""quote"" 'q'
""x y"" ) , // a // b
}//	t
,
    i64
body @lengthOf( options1
    ) `u8 x,` ,lengthOf  {
    // packet A { u8 x, }
    match T
as
len {007
    :
    BodyLength 1 :	_x ""\n"" :	chars , 255
: /// triple
a1 , } , f64 roots
@lengthOf(  Foo)
    , lengthOf @lengthOf(  x_y_z
    )`
`,	repeat // `tick` ""quote"" 'q'
string tag
`tab	here` , } , // @lengthOf(
} options
{
    falsey = char[ 0123456789
    ]roots
    // `tick` ""quote"" 'q'
    = int64 // packet A { u8 x, }
; A	= 007 }
")).
Eval vm_compute in ("<<<M1274>>>" ++ check (runes_of_ascii "packet charz // @lengthOf(
{ // packet A { u8 x, }
repeat float64 chars , }root
packet
    //x
    repeatCount  { @rightPad( '\x00'	) Header
    // a // b
    i64_
    ,
} MetaData calculatedFrom { u8x
Z9_
`a\`	,  } packet string_ { @tag(0123456789 ) repeat o `` , //	t
len	@lengthOf( roots
    ) ,@calculatedFrom( ""1""
)	@calculatedFrom(""it's""
)
    uint64 Packet@lengthOf( T )
    , body ,
    match matchKey as MetaDataX{[
    // packet A { u8 x, }
    7 , 42	]	:
    stringy
, } , } root
packet A
// a // b
// a // b
{ @calculatedFrom(""a\""b"" )	int8 packetx ,	}
")).
Eval vm_compute in ("<<<M33>>>" ++ check (runes_of_ascii "root/// triple
packet int{
f32 i8i8 , uint8x /// triple
zchar
    `// not a comment`// a // b
,
    u64 u8x @lengthOf( u ) ,char[] i64_@lengthOf( crc
    ), @lengthOf( packetx
    )metadata i64_
, } packet a1	{ zchar[ 65535
] float, zchar[ 00
    //	t
    ]
    matchKey
,
} options { crc =u64 } MetaData leftPad { trueish string_ ,  uint64 Header
`" ++ [28040; 24687; 31867; 22411]%N ++ runes_of_ascii "` , }
    // " ++ [128512]%N ++ runes_of_ascii " emoji
    MetaData//x
tag { zchar
chars
// " ++ [27880; 37322]%N ++ runes_of_ascii "
//x
,  repeatCount  lengthOf`
` , i16
u /// triple
`tab	here` , lengthOf
a1 ,u16 o
    , char
i64_  `two words` , }
//x
")).
Eval vm_compute in ("<<<M4509>>>" ++ check (runes_of_ascii "// " ++ [128512]%N ++ runes_of_ascii " emoji
options {
    Packet = char[]
    a1 = 0;
    BodyLength = char[];
}

MetaData BodyLength {
    T string_ `" ++ [28040; 24687; 31867; 22411]%N ++ runes_of_ascii "`,
    x_y_z stringy `say ""hi""`,
    char Packet `" ++ [28040; 24687; 31867; 22411]%N ++ runes_of_ascii "`,
    leftPad Packet,
}

packet packetx {
    //x
    match uint8x as T {
        [
            0123456789, 255, 10, ""`tick`"", ""// no comment"",
            ""abc""
        ] : i64_,
        [""{,}"", ""a\""b""] : int,
        [0123456789, 65535, 255, 255] : repeatCount,
        //x
    },
    repeat char[255] A,
    repeat Foo `tab	here`,
}")).
Eval vm_compute in ("<<<M761>>>" ++ check (runes_of_ascii "MetaData a1
{
// `tick` ""quote"" 'q'
//	t
_x  asx ,} MetaData Packet
{	BodyLength
    int, } root packet x	{ @leftPad(' ' ) f64
// a // b
// `tick` ""quote"" 'q'
repeatCount@lengthOf(
x // c
) `line1
line2`
, @rightPad// @lengthOf(
('\x00'
    )match i8i8 as pack{ [ 10
, """ ++ [128512]%N ++ runes_of_ascii """, 10
, ""a	b"" ,
1// trailing space 
,
// c
// " ++ [128512]%N ++ runes_of_ascii " emoji
7 ] : leftPad [ 255 , 10 ,0 , 1 , """ ++ [233]%N ++ runes_of_ascii "t" ++ [233]%N ++ runes_of_ascii """, ""x y""  ]: A """ ++ [28040; 24687]%N ++ runes_of_ascii """ :
    u, 00 :  charz ,
    // a // b
    """ ++ [28040; 24687]%N ++ runes_of_ascii """
:
len 0:
    As, } ,
f32 x
`" ++ [233]%N ++ runes_of_ascii "` , }	MetaData x {}")).
Eval vm_compute in ("<<<M4057>>>" ++ check (runes_of_ascii "MetaData rootA {
}

options {
    rootA = '\x00'
    zchar = '0'
    rootA = float64;
    trueish = 3
    i64_ = float64;
}

options {
    body = '0';
    T = ""CRC32"";
    matchKey = char[];
}

packet rootA {
    @lengthOf(Z9_)
    @rightPad('0')
    Packet calculatedFrom,
}

packet body {
    match metadata as asx {
        3 : Header,
        3 : packetx,
        [10] : Packet,
        """" : pack,
        10 : pack,
        [255, 00, """", ""it's""] : x,
    },
}")).
Eval vm_compute in ("<<<M890>>>" ++ check (runes_of_ascii "
MetaData
    //	t
    u { int8 body
,
    string Packet ,} options // `tick` ""quote"" 'q'
{
    matchKey =float64
;
}
packet roots	{ // " ++ [128512]%N ++ runes_of_ascii " emoji
@calculatedFrom(	""abc"")
match MetaDataX
// " ++ [27880; 37322]%N ++ runes_of_ascii "
// c
as // " ++ [27880; 37322]%N ++ runes_of_ascii "
_x
    { 007
    : o[ 42  , ""x y""
, 65535 , 1 ,
65535
    ,""a	b""	,4294967296 ,
00 ]:f32a ""CRC32"" : repeatCount  , ""CRC32"" :u128 ,	} ,} options { } MetaData uint8x
{
char[] u128 , body
crc  `
`,
    lengthOf rootA ,// " ++ [128512]%N ++ runes_of_ascii " emoji
i8 crc
, }

")).
Eval vm_compute in ("<<<M821>>>" ++ check (runes_of_ascii "
options { }options
{ } options
{ }
    packet options1 {
/// triple
// @lengthOf(
repeat stringy repeatCount	, int64 rootA
    ,@lengthOf(
    T)
// trailing space 
// @lengthOf(
chars Foo `line1
line2`, i64_ , repeat tag roots, @calculatedFrom(""CRC32""
) //x
@calculatedFrom( """ ++ [233]%N ++ runes_of_ascii "t" ++ [233]%N ++ runes_of_ascii """)
a1 @calculatedFrom(
    /// triple
    ""1"" )`two words` , }options {Logon =false uint8x	= ""x y""
Header = ""a	b"" ;
    calculatedFrom= true
}
")).
Eval vm_compute in ("<<<M1153>>>" ++ check (runes_of_ascii "packet asx {@tag(// trailing space 
00 )
options1, string repeatCount @calculatedFrom( ""// no comment"" ) `// not a comment`,	@leftPad
(
    '0')
@tag(
    42) packetx @lengthOf(msg_type
// " ++ [128512]%N ++ runes_of_ascii " emoji
/// triple
) `{ , }` // packet A { u8 x, }
,  }  packet
roots { @tag(	1 ) // `tick` ""quote"" 'q'
@tag( 1 ) @lengthOf( // @lengthOf(
BodyLength ) char[ 0123456789
]MetaDataX , /// triple
} MetaData	string_ { }
")).
Eval vm_compute in ("<<<M207>>>" ++ check (runes_of_ascii "MetaData
T { Foo  lengthOf , string
    //x
    packetx
    `// not a comment` , zchar[
    //	t
    0] metadata
//x
// `tick` ""quote"" 'q'
`crlf
line` ,
x string_
`line1
line2` , } packet repeatCount {	char[ // `tick` ""quote"" 'q'
255 ]
A @calculatedFrom(""a\\"" )
,float32
    BodyLength @lengthOf(	_x )
// c
//
`doc` , char[] trueish
    // " ++ [128512]%N ++ runes_of_ascii " emoji
    @calculatedFrom( ""packet"")
    ,}
")).
Eval vm_compute in ("<<<M1269>>>" ++ check (runes_of_ascii "packet BodyLength
{ @tag( 255 ) match tag as
//	t
// " ++ [128512]%N ++ runes_of_ascii " emoji
x_y_z  {	7:Pad , ""a\""b"" :
matchKey	, [ // `tick` ""quote"" 'q'
42 , ""`tick`"" ,
    //
    ""// no comment""	, """"
    // " ++ [128512]%N ++ runes_of_ascii " emoji
    ,  1
,
"""" , 7 , """"
    // `tick` ""quote"" 'q'
    ]:
stringy
    , } , f64 repeatCount `a\`, }
    // c
    packet zchar// `tick` ""quote"" 'q'
{	i8 _x `tab	here`	, } MetaData x { }
")).
Eval vm_compute in ("<<<M495>>>" ++ check (runes_of_ascii "  packet pack { u8
len/// triple
,@rightPad(  ) u64 A@calculatedFrom( ""\n"" )
, // trailing space 
@lengthOf(
    o )
    @leftPad() @leftPad (
)int32 metadata, matchKey ,
} MetaData matchKey { }packet rootA {}options { A= zchar[65535]float = // `tick` ""quote"" 'q'
3
    roots //	t
= 7 Pad
    // trailing space 
    =
    10 ;trueish =false;}

")).
Eval vm_compute in ("<<<M4137>>>" ++ check (runes_of_ascii "
MetaData
u{

}
	options
	{  
  // c
// @lengthOf(
float =
int8
    ;rootA
	= false

    ; As

    = int16// `tick` ""quote"" 'q'
	repeatCount 
	// trailing space 
	= 
int16
	;
u8x
	= 
    //	t
'\x00' }
options{ repeatCount

=
0
u128
//
	  = 
false

; i64_ 
// trailing space 
  // `tick` ""quote"" 'q'
		=	'0'
    ; 	 //	t
}
")).
Eval vm_compute in ("<<<M200>>>" ++ check (runes_of_ascii "options
{ }	MetaData
Foo {
char[
    0 ]  Logon `u8 x,` ,// packet A { u8 x, }
zchar[ 255 ]
    calculatedFrom `
` ,
    zchar[ 00 ]o
    `u8 x,` ,char[255 ]
Header `a\`// `tick` ""quote"" 'q'
, // a // b
Pad
    Pad ,
    } packet i8i8 {
    u32
    // " ++ [128512]%N ++ runes_of_ascii " emoji
    float,// @lengthOf(
As @calculatedFrom( ""// no comment"" ) , }")).
Eval vm_compute in ("<<<M1951>>>" ++ check (runes_of_ascii "MetaData
    u { }  options {
// c
// @lengthOf(
float = int8 ;rootA =false ; As =	int16 // `tick` ""quote"" 'q'
repeatCount
    // trailing space 
    =
    int16 int16
; u8x =
    //	t
    '\x00' ; } options	{
    repeatCount
= 0
u128
    //
    = false ; i64_
// trailing space 
// `tick` ""quote"" 'q'
= '0' ; //	t
}
")).
Eval vm_compute in ("<<<M1866>>>" ++ check (runes_of_ascii "MetaData
    u { { }  options {
// c
// @lengthOf(
float = int8 ;rootA =false ; As =	int16 // `tick` ""quote"" 'q'
repeatCount
    // trailing space 
    =
    int16
; u8x =
    //	t
    '\x00' ; } options	{
    repeatCount
= 0
u128
    //
    = false ; i64_
// trailing space 
// `tick` ""quote"" 'q'
= '0' ; //	t
}
")).
Eval vm_compute in ("<<<M2075>>>" ++ check (runes_of_ascii "MetaData
    u { }  options {
// c
// @lengthOf(
float = int8 ;rootA =false ; As =	int16 // `tick` ""quote"" 'q'
repeatCount
    // trailing space 
    =
    int16
; u8x =
    //	t
    '\x00' ; } options	{
    repeatCount
= 0
u128
    //
    = false ; caf" ++ [233]%N ++ runes_of_ascii "_1
// trailing space 
// `tick` ""quote"" 'q'
= '0' ; //	t
}
")).
Eval vm_compute in ("<<<M1933>>>" ++ check (runes_of_ascii "MetaData
    u { }  options {
// c
// @lengthOf(
float = int8 ;rootA =false ; As :	int16 // `tick` ""quote"" 'q'
repeatCount
    // trailing space 
    =
    int16
; u8x =
    //	t
    '\x00' ; } options	{
    repeatCount
= 0
u128
    //
    = false ; i64_
// trailing space 
// `tick` ""quote"" 'q'
= '0' ; //	t
}
")).
Eval vm_compute in ("<<<M1870>>>" ++ check (runes_of_ascii "MetaData
    u {   options {
// c
// @lengthOf(
float = int8 ;rootA =false ; As =	int16 // `tick` ""quote"" 'q'
repeatCount
    // trailing space 
    =
    int16
; u8x =
    //	t
    '\x00' ; } options	{
    repeatCount
= 0
u128
    //
    = false ; i64_
// trailing space 
// `tick` ""quote"" 'q'
= '0' ; //	t
}
")).
Eval vm_compute in ("<<<M555>>>" ++ check (runes_of_ascii "MetaData repeatCount { char[ 4294967296 ]
BodyLength `it's` , } packet Header { zchar[255] chars `line1
line2` ,BodyLength
    // " ++ [128512]%N ++ runes_of_ascii " emoji
    tag// a // b
,	} options { body // packet A { u8 x, }
=""" ++ [28040; 24687]%N ++ runes_of_ascii """// @lengthOf(
}
    // `tick` ""quote"" 'q'
    packet f32a { char metadata `// not a comment` , } /// triple")).
Eval vm_compute in ("<<<M3655>>>" ++ check (runes_of_ascii "
options

{
LittleEndian = 
true; 
}
packet Logon	{

    u8
	x,
string
	user
,
    } packet

    Logout
{ u16

    reason
    ,}

packet
Empty

{
	}  root

packet
    Frame{  u16
    MsgType  , 
u16
    BodyLen
@lengthOf(
	Body )	,
    u8

    flags,Logon
	Body
    , u32
trailer

    ,}
")).
Eval vm_compute in ("<<<M3594>>>" ++ check (runes_of_ascii "packet
A 
{
u8
    a

,
} 
packet

    B { u16 b	,
} packet
	C
{
u32
c	, 
}
root	packet	M
{ u16
    Kc
,
u16  Kb
, u16
Ka , match
	Kc as
    X{
	9
:

A ,10
:

B  ,	}
, 
match

Kb as Y {2 
:
C ,

    1:	A
    ,} , match
	Ka  as
Z

    {
1  :
B,  } 
,

A,  B	,
C 
,

    }
")).
Eval vm_compute in ("<<<M29>>>" ++ check (runes_of_ascii "// `tick` ""quote"" 'q'
MetaData
    pack {
string MetaDataX , //
zchar[ 65535
] i8i8, pack rootA	`say ""hi""` ,
    string_ Header `crlf
line` ,
int64
string_ ,
/// triple
//	t
char[]
packetx
,	} options
    { trueish
= ' '
; i64_ =
i16 pack = u16
;
len =false }	MetaData i64_{ }")).
Eval vm_compute in ("<<<M725>>>" ++ check (runes_of_ascii "MetaData Header
    {
    char[ 1 ] As
    ,
}  MetaData
As { } root
// a // b
// `tick` ""quote"" 'q'
packet packetx { // " ++ [27880; 37322]%N ++ runes_of_ascii "
T  @lengthOf(
    packetx) ,/// triple
i8i8 {float
`" ++ [233]%N ++ runes_of_ascii "`
    ,  char[] A
// `tick` ""quote"" 'q'
// a // b
,falsey lengthOf
, }, repeat  roots ,}")).
Eval vm_compute in ("<<<M613>>>" ++ check (runes_of_ascii "MetaData BodyLength {  zchar[ 00 ]a1 ,
i64 A
`" ++ [233]%N ++ runes_of_ascii "` , int8 i8i8
`doc`
,char[ 1 ]Header
``// " ++ [128512]%N ++ runes_of_ascii " emoji
, } options
    {asx
=
false;
    T=	""CRC32""u8x
= ' '
    float =
3 } packet o /// triple
{ @rightPad( '0'
    // a // b
    ) calculatedFrom `crlf
line` ,}")).
Eval vm_compute in ("<<<M1548>>>" ++ check (runes_of_ascii "packet
//	t
// trailing space 
_x {
// packet A { u8 x, }
// c
char[
3
    ] u8x @lengthOf(
u8x ) , @calculatedFrom(""" ++ [128512]%N ++ runes_of_ascii """ """ ++ [128512]%N ++ runes_of_ascii """ // @lengthOf(
)
i16	Foo
@lengthOf(	string_
    )`doc`	, repeat	i64 metadata , @lengthOf( string_
) i8 // c
u  `line1
line2`	,
}
")).
Eval vm_compute in ("<<<M1661>>>" ++ check (runes_of_ascii "packet
//	t
// trailing space 
_x {
// packet A { u8 x, }
// c
char[
3
    ] u8x @lengthOf(
` u8x ) , @calculatedFrom(""" ++ [128512]%N ++ runes_of_ascii """ // @lengthOf(
)
i16	Foo
@lengthOf(	string_
    )`doc`	, repeat	i64 metadata , @lengthOf( string_
) i8 // c
u  `line1
line2`	,
}
")).
Eval vm_compute in ("<<<M1529>>>" ++ check (runes_of_ascii "packet
//	t
// trailing space 
_x {
// packet A { u8 x, }
// c
char[
3
    ] u8x @lengthOf(
) u8x , @calculatedFrom(""" ++ [128512]%N ++ runes_of_ascii """ // @lengthOf(
)
i16	Foo
@lengthOf(	string_
    )`doc`	, repeat	i64 metadata , @lengthOf( string_
) i8 // c
u  `line1
line2`	,
}
")).
Eval vm_compute in ("<<<M1497>>>" ++ check (runes_of_ascii "packet
//	t
// trailing space 
_x 
// packet A { u8 x, }
// c
char[
3
    ] u8x @lengthOf(
u8x ) , @calculatedFrom(""" ++ [128512]%N ++ runes_of_ascii """ // @lengthOf(
)
i16	Foo
@lengthOf(	string_
    )`doc`	, repeat	i64 metadata , @lengthOf( string_
) i8 // c
u  `line1
line2`	,
}
")).
Eval vm_compute in ("<<<M1061>>>" ++ check (runes_of_ascii "packet uint8x{ char[	42
    ]i64_ @lengthOf( crc
// `tick` ""quote"" 'q'
//x
) `a\`, @calculatedFrom(  ""{,}"") @calculatedFrom( ""\" ++ [233]%N ++ runes_of_ascii """ ) repeat
    i16 rootA`// not a comment` , // @lengthOf(
As
@lengthOf(falsey
) , @lengthOf(pack
)
int64 packetx	, }
")).
Eval vm_compute in ("<<<M1612>>>" ++ check (runes_of_ascii "packet
//	t
// trailing space 
_x {
// packet A { u8 x, }
// c
char[
3
    ] u8x @lengthOf(
u8x ) , @calculatedFrom(""" ++ [128512]%N ++ runes_of_ascii """ // @lengthOf(
)
i16	Foo
@lengthOf(	string_
    )`doc`	, repeat	i64 metadata ,  string_
) i8 // c
u  `line1
line2`	,
}
")).
Eval vm_compute in ("<<<M854>>>" ++ check (runes_of_ascii "
packet// packet A { u8 x, }
Z9_
    {} MetaData	falsey { string
    len
    // " ++ [128512]%N ++ runes_of_ascii " emoji
    `tab	here` ,
/// triple
// `tick` ""quote"" 'q'
i32 asx ,
    uint8 pack
    , } options // " ++ [27880; 37322]%N ++ runes_of_ascii "
{_x = // trailing space 
true
// " ++ [27880; 37322]%N ++ runes_of_ascii "
// " ++ [27880; 37322]%N ++ runes_of_ascii "
}

")).
Eval vm_compute in ("<<<M1332>>>" ++ check (runes_of_ascii "// packet A { u8 x, }
MetaData chars	{  Header  u128  ,
BodyLength
u8x//	t
`two words` // " ++ [128512]%N ++ runes_of_ascii " emoji
, uint8x
Header// packet A { u8 x, }
`say ""hi""` ,
rootA //x
A // c
`{ , }` , char[ 00 ]	leftPad
, i64 // a // b
As , }
")).
Eval vm_compute in ("<<<M1125>>>" ++ check (runes_of_ascii "MetaData string_ {
i32 packetx
`doc`, }//
packet zchar{ @rightPad
    (' '
)@calculatedFrom(""`tick`"" ) @calculatedFrom( ""CRC32"" // c
)u8x
    /// triple
    @lengthOf(
    Foo ) ,
    }	root
packet i8i8
    { }

")).
Eval vm_compute in ("<<<M925>>>" ++ check (runes_of_ascii "packet crc  {matchKey
`tab	here`
    ,
    repeat f32a{ // trailing space 
zchar  { string uint8x
,
repeat char[	4294967296 // trailing space 
]
msg_type ,} , roots{ zchar[ 7 ] u ,	},
    uint64 chars ,} ,  }")).
Eval vm_compute in ("<<<M1677>>>" ++ check (runes_of_ascii "options { { trueish = ""`tick`"" ; string_= """ ++ [233]%N ++ runes_of_ascii "t" ++ [233]%N ++ runes_of_ascii """
    // c
    } root
    packet body { stringy @calculatedFrom(
""a	b"" ) `line1
line2` , }
packet Logon {
    @leftPad(
    ' ' ) //	t
u16 string_ `u8 x,` ,
}
")).
Eval vm_compute in ("<<<M1849>>>" ++ check (runes_of_ascii "options { trueish = ""`tick`"" ; string_= """ ++ [233]%N ++ runes_of_ascii "t" ++ [233]%N ++ runes_of_ascii """
    // c
    } root
    packet body { stringy @calculatedFrom(
""a	b"" ) `line1
line2` , }
packet Logon {
    " ++ [233]%N ++ runes_of_ascii "@leftPad(
    ' ' ) //	t
u16 string_ `u8 x,` ,
}
")).
Eval vm_compute in ("<<<M1778>>>" ++ check (runes_of_ascii "options { trueish = ""`tick`"" ; string_= """ ++ [233]%N ++ runes_of_ascii "t" ++ [233]%N ++ runes_of_ascii """
    // c
    } root
    packet body { stringy @calculatedFrom(
""a	b"" ) `line1
line2` , }
Logon packet {
    @leftPad(
    ' ' ) //	t
u16 string_ `u8 x,` ,
}
")).
Eval vm_compute in ("<<<M1831>>>" ++ check (runes_of_ascii "options { trueish = ""`tick`"" ; string_= """ ++ [233]%N ++ runes_of_ascii "t" ++ [233]%N ++ runes_of_ascii """
    // c
    } root
    packet body { stringy @calculatedFrom(
""a	b"" ) `line1
line2` , }
packet Logon {
    @leftPad(
    ' ' ) //	t
u16 string_ `u8 x,` ,

")).
Eval vm_compute in ("<<<M1824>>>" ++ check (runes_of_ascii "options { trueish = ""`tick`"" ; string_= """ ++ [233]%N ++ runes_of_ascii "t" ++ [233]%N ++ runes_of_ascii """
    // c
    } root
    packet body { stringy @calculatedFrom(
""a	b"" ) `line1
line2` , }
packet Logon {
    @leftPad(
    ' ' ) //	t
u16 string_ = ,
}
")).
Eval vm_compute in ("<<<M1115>>>" ++ check (runes_of_ascii "options { i64_ =
true} root packet // c
repeatCount { u32 Foo //	t
, int8	rootA ,  zchar[
0
]
MetaDataX ,	@calculatedFrom( ""a\""b"" ) char  o, // " ++ [128512]%N ++ runes_of_ascii " emoji
}packet i64_ { } //
packet Foo
{ }
")).
Eval vm_compute in ("<<<M978>>>" ++ check (runes_of_ascii "MetaData
As
{
    u128 packetx
`" ++ [233]%N ++ runes_of_ascii "` //	t
, tag	o,zchar[ // c
255 ] rootA `two words`  , rootA msg_type	`it's`
, u64 packetx , } MetaData T{
char[
3
    ]
    _x , }
// trailing space 
")).
Eval vm_compute in ("<<<M1010>>>" ++ check (runes_of_ascii "MetaData o
//
/// triple
{
    body	f32a `
` ,
i32 string_ `line1
line2`, int64
    //
    matchKey
    , string crc,zchar[ 4294967296	] msg_type
    `crlf
line`, u32 Packet ,}
")).
Eval vm_compute in ("<<<M3577>>>" ++ check (runes_of_ascii "packet A {
    u8 a,
}
packet B {
    u16 b,
}
root packet P {
    u8 K1,
    u8 K2,
    match K1 as M1 {
        1 : A,
    },
    match K2 as M2 {
        1 : B,
    },
}
")).
Eval vm_compute in ("<<<M4457>>>" ++ check (runes_of_ascii "packet asx {
}

// packet A { u8 x, }
options {
    options1 = float64
    leftPad = true;
    MetaDataX = char[00];
    roots = false
}// " ++ [128512]%N ++ runes_of_ascii " emoji

packet string_ {
}")).
Eval vm_compute in ("<<<M2195>>>" ++ check (runes_of_ascii "options{
_x
= true
} options
@leftpad { o	= /// triple
false
    ; chars
= ""\n"" } root packet	Pad
/// triple
// packet A { u8 x, }
{	chars
    // a // b
    ,}")).
Eval vm_compute in ("<<<M2346>>>" ++ check (runes_of_ascii "// c
packet match { @lengthOf( metadata ) repeat lengthOf
,a1{
trueish	,// c
repeat//	t
MetaDataX , } , zchar[
    42	] rootA // `tick` ""quote"" 'q'
,
    }
")).
Eval vm_compute in ("<<<M2325>>>" ++ check (runes_of_ascii "// c
packet x { @lengthOf( metadata ) ) repeat lengthOf
,a1{
trueish	,// c
repeat//	t
MetaDataX , } , zchar[
    42	] rootA // `tick` ""quote"" 'q'
,
    }
")).
Eval vm_compute in ("<<<M2100>>>" ++ check (runes_of_ascii "options{
_x
= true
} } options
{ o	= /// triple
false
    ; chars
= ""\n"" } root packet	Pad
/// triple
// packet A { u8 x, }
{	chars
    // a // b
    ,}")).
Eval vm_compute in ("<<<M4125>>>" ++ check (runes_of_ascii "packet u128 {
    @leftPad(' ')
    @tag(3)
    @calculatedFrom(""abc"")
    repeat A,
}

packet x {
    u16 Z9_ `u8 x,`,
}

packet int {
    Logon chars,
}")).
Eval vm_compute in ("<<<M2092>>>" ++ check (runes_of_ascii "options{
_x
) true
} options
{ o	= /// triple
false
    ; chars
= ""\n"" } root packet	Pad
/// triple
// packet A { u8 x, }
{	chars
    // a // b
    ,}")).
Eval vm_compute in ("<<<M2099>>>" ++ check (runes_of_ascii "options{
_x
= true
 options
{ o	= /// triple
false
    ; chars
= ""\n"" } root packet	Pad
/// triple
// packet A { u8 x, }
{	chars
    // a // b
    ,}")).
Eval vm_compute in ("<<<M2378>>>" ++ check (runes_of_ascii "// c
packet x { @lengthOf( metadata ) repeat lengthOf
,a1{
trueish	,// c
]//	t
MetaDataX , } , zchar[
    42	] rootA // `tick` ""quote"" 'q'
,
    }
")).
Eval vm_compute in ("<<<M4409>>>" ++ check (runes_of_ascii "packet

    A {match 
k
    as n
	{
	[1
,
""bb""
, 007 , ""d"",
5

    , ""f""
, 7  ,

""h"" , 9	, ""j""
    ,
11
,	""l""
    ] :
	B

, 2:	C  }

,

}
")).
Eval vm_compute in ("<<<M973>>>" ++ check (runes_of_ascii "
options
{ BodyLength
= zchar[ 0123456789 ] } options
{
asx = ""a\""b"" ;rootA =	char[] roots
=""{,}"" ; int= ""it's"" // `tick` ""quote"" 'q'
; }
")).
Eval vm_compute in ("<<<M297>>>" ++ check (runes_of_ascii "packet
    // " ++ [27880; 37322]%N ++ runes_of_ascii "
    Foo
{ //x
uint8x
// " ++ [27880; 37322]%N ++ runes_of_ascii "
// " ++ [128512]%N ++ runes_of_ascii " emoji
,match
len as options1
// a // b
// trailing space 
{ 3 /// triple
:i64_ , }
, }
")).
Eval vm_compute in ("<<<M3675>>>" ++ check (runes_of_ascii "packet A {
    u8 a,
}

packet B {
    u16 b,
}

root packet P {
    u8 K,
    match K as M {
        1 : A,
        1 : B,
    },
}")).
Eval vm_compute in ("<<<M3836>>>" ++ check (runes_of_ascii "packet A {
    match k as n {
        [
            1, 007, 5, ""bb"", ""d"",
            ""f""
        ] : B,
        2 : C,
    },
}")).
Eval vm_compute in ("<<<M4162>>>" ++ check (runes_of_ascii "options {
    x = 0;
    /// triple
    /// triple
    Header = ""1"";
    zchar = '0'
    Pad = float64;
}

MetaData u128 {
}")).
Eval vm_compute in ("<<<M4527>>>" ++ check (runes_of_ascii "

  packet	metadata{

    Logon	{
A `" ++ [28040; 24687; 31867; 22411]%N ++ runes_of_ascii "`
,tag 
o
	,

}

    ,zchar

    len
	`// not a comment`
    ,// c
    	}
")).
Eval vm_compute in ("<<<M3339>>>" ++ check (runes_of_ascii "root packet matchKey { zchar[ 3 ] pack @calculatedFrom( ""a	b"" ) `doc` , }
// c
options { } MetaData A { int8 msg_type , }")).
Eval vm_compute in ("<<<M1458>>>" ++ check (runes_of_ascii "
packet
    falsey { Header@calculatedFrom(""packet""  ) , char[
    0123456789 ] packetx
    , , } // `tick` ""quote"" 'q'")).
Eval vm_compute in ("<<<M1410>>>" ++ check (runes_of_ascii "
packet
    falsey : Header@calculatedFrom(""packet""  ) , char[
    0123456789 ] packetx
    , } // `tick` ""quote"" 'q'")).
Eval vm_compute in ("<<<M2361>>>" ++ check (runes_of_ascii "// c
packet x { @lengthOf( metadata ) repeat lengthOf
,a1{
trueish	,// c
repeat//	t
MetaDataX , } , zchar[
    42	]")).
Eval vm_compute in ("<<<M3895>>>" ++ check (runes_of_ascii "packet Z9_ {
    @tag(00)
    @tag(7)
    @lengthOf(Logon)
    zchar[0123456789] x_y_z @calculatedFrom(""a\\""),
}")).
Eval vm_compute in ("<<<M3814>>>" ++ check (runes_of_ascii "MetaData
body  { i64	pack 	 // c
  `it's` 
,}packet stringy  {

    int16

calculatedFrom

    ,

    }
")).
Eval vm_compute in ("<<<M4477>>>" ++ check (runes_of_ascii "packet chars

{ }
    packet MetaDataX
{ @tag(

42
    )i16	string_// c
,
repeat 
x`say ""hi""`

    ,	} ")).
Eval vm_compute in ("<<<M4046>>>" ++ check (runes_of_ascii "options {
    LittleEndian = true;
}

root packet P {
    u16 a,
    u32 Sum @calculatedFrom(""CRC32""),
}")).
Eval vm_compute in ("<<<M37>>>" ++ check (runes_of_ascii "MetaData
chars { f32 metadata , i64
    metadata
// trailing space 
//x
`
` // `tick` ""quote"" 'q'
,}")).
Eval vm_compute in ("<<<M453>>>" ++ check (runes_of_ascii "
root packet string_ //	t
{ @lengthOf(
o ) @leftPad(	)
repeat char[
3 ] rootA
, } // @lengthOf(")).
Eval vm_compute in ("<<<M3697>>>" ++ check (runes_of_ascii "
//
  options {  charz

=""1""

trueish = """"
;  asx  =
	'0'	i8i8 //	t
    = ""it's""
	;

    }
")).
Eval vm_compute in ("<<<M3696>>>" ++ check (runes_of_ascii "packet chars {
}

packet MetaDataX {
    @tag(42)
    i16 string_,
    repeat x `say ""hi""`,
}")).
Eval vm_compute in ("<<<M2173>>>" ++ check (runes_of_ascii "options{
_x
= true
} options
{ o	= /// triple
false
    ; chars
= ""\n"" } root packet	Pad")).
Eval vm_compute in ("<<<M3275>>>" ++ check (runes_of_ascii "MetaData float { float64 // c
charz `
` , } root packet chars { @rightPad ( '0' ) Foo , }")).
Eval vm_compute in ("<<<M3486>>>" ++ check (runes_of_ascii "packet
// c
chars { } packet MetaDataX { @tag( 42 ) i16 string_ , repeat x `say ""hi""` , }")).
Eval vm_compute in ("<<<M3518>>>" ++ check (runes_of_ascii "packet chars { } packet MetaDataX { @tag( 42 ) i16 string_ , repeat x `say ""hi""` ,
// c
}")).
Eval vm_compute in ("<<<M2249>>>" ++ check (runes_of_ascii "options
{ } options { BodyLength= u16 float32= f64 ; u128 =
    true
    ; } // a // b")).
Eval vm_compute in ("<<<M1379>>>" ++ check (runes_of_ascii "packet metadata {
    @lengthOf(  Header) // " ++ [27880; 37322]%N ++ runes_of_ascii "
float32
options1
    `line1
line2`
,}")).
Eval vm_compute in ("<<<M3225>>>" ++ check (runes_of_ascii "packet metadata { Logon { A `" ++ [28040; 24687; 31867; 22411]%N ++ runes_of_ascii "` // c
, tag o , } , zchar len `// not a comment` , }")).
Eval vm_compute in ("<<<M2211>>>" ++ check (runes_of_ascii "string
{ } options { BodyLength= u16 Header= f64 ; u128 =
    true
    ; } // a // b")).
Eval vm_compute in ("<<<M3445>>>" ++ check (runes_of_ascii "packet o { repeat Logon uint8x , } options // c
{ asx = zchar[ 3 ] stringy = '\x00' }")).
Eval vm_compute in ("<<<M3719>>>" ++ check (runes_of_ascii "MetaData body {
    i64 pack `it's`,
}

packet stringy {
    int16 calculatedFrom,
}")).
Eval vm_compute in ("<<<M2916>>>" ++ check (runes_of_ascii "packet A {
  match k as n {
    [""a"", 22, ""c c"", 4, ""e"", 66] : B,
    2 : C
  },
}")).
Eval vm_compute in ("<<<M3588>>>" ++ check (runes_of_ascii "packet order_item
	{ u8 
a ,
} 
root  packet
	new_order 
{ order_item

, 
u8

x,}
")).
Eval vm_compute in ("<<<M2163>>>" ++ check (runes_of_ascii "options{
_x
= true
} options
{ o	= /// triple
false
    ; chars
= ""\n"" } root")).
Eval vm_compute in ("<<<M2231>>>" ++ check (runes_of_ascii "options
{ } options { = u16 Header= f64 ; u128 =
    true
    ; } // a // b")).
Eval vm_compute in ("<<<M2906>>>" ++ check (runes_of_ascii "packet A {
  match k as n {
    [1, 22, ""c c"", 4, 5] : B
    2 : C
  },
}")).
Eval vm_compute in ("<<<M2893>>>" ++ check (runes_of_ascii "packet A {
  match k as n {
    [1, 22, ""c c"", 4] : B
    2 : C
  },
}")).
Eval vm_compute in ("<<<M4111>>>" ++ check (runes_of_ascii "

  packet x	// c
		{@rightPad (
	)

repeat 
roots Logon	`doc`
,  }")).
Eval vm_compute in ("<<<M2850>>>" ++ check (runes_of_ascii "@leftPad u8 int32 [ @lengthOf( @leftPad [ { ( int64 char[ ; match")).
Eval vm_compute in ("<<<M3002>>>" ++ check (runes_of_ascii "packet A {
    B b `a
b`,
    B `a
b`,
    repeat B bs `a
b`,
}")).
Eval vm_compute in ("<<<M2863>>>" ++ check (runes_of_ascii "packet A {
  match k as n {
    [1, 22] : B
    2 : C
  },
}")).
Eval vm_compute in ("<<<M3365>>>" ++ check (runes_of_ascii "packet // c
x { @rightPad ( ) repeat roots Logon `doc` , }")).
Eval vm_compute in ("<<<M2804>>>" ++ check (runes_of_ascii "{ { int32 int32 match `a\` 255 packet '0' ) repeat '\x00'")).
Eval vm_compute in ("<<<M4326>>>" ++ check (runes_of_ascii "

  MetaData
    // c
  Foo
	{ 
char[ 00
] Pad	, }

")).
Eval vm_compute in ("<<<M399>>>" ++ check (runes_of_ascii "
packet
    msg_type {repeat //	t
lengthOf _x ,
}")).
Eval vm_compute in ("<<<M1101>>>" ++ check (runes_of_ascii "packet
len{
int16 trueish
`
` // " ++ [128512]%N ++ runes_of_ascii " emoji
, }
")).
Eval vm_compute in ("<<<M1216>>>" ++ check (runes_of_ascii "
MetaData
    A
    //x
    { char[] asx ,}
")).
Eval vm_compute in ("<<<M2602>>>" ++ check (runes_of_ascii "packet A { B { match k as n { 1 : C }, }, }")).
Eval vm_compute in ("<<<M3188>>>" ++ check (runes_of_ascii "
// c
root packet u128 { chars `it's` , }")).
Eval vm_compute in ("<<<M4350>>>" ++ check (runes_of_ascii "packet o {
}

options {
    Logon = 00
}")).
Eval vm_compute in ("<<<M2608>>>" ++ check (runes_of_ascii "packet A { match k as n { [] : B }, }")).
Eval vm_compute in ("<<<M789>>>" ++ check (runes_of_ascii "root packet MetaDataX {	} // a // b")).
Eval vm_compute in ("<<<M2618>>>" ++ check (runes_of_ascii "packet A { match k as n { 1 B }, }")).
Eval vm_compute in ("<<<M21>>>" ++ check (runes_of_ascii "//	t
packet Packet{ u64 tag
,}
")).
Eval vm_compute in ("<<<M3043>>>" ++ check (runes_of_ascii "packet A {
    u8 x `tab
	x`,
}")).
Eval vm_compute in ("<<<M3137>>>" ++ check (runes_of_ascii "packet A {
 u8 x `d" ++ [65279]%N ++ runes_of_ascii "`, // c" ++ [65279]%N ++ runes_of_ascii "
}")).
Eval vm_compute in ("<<<M314>>>" ++ check (runes_of_ascii "MetaData roots	{ u Logon ,}")).
Eval vm_compute in ("<<<M2623>>>" ++ check (runes_of_ascii "packet A { @tag(x) u8 x, }")).
Eval vm_compute in ("<<<M4439>>>" ++ check (runes_of_ascii "

  // c" ++ [11]%N ++ runes_of_ascii "

packet

A { } ")).
Eval vm_compute in ("<<<M3938>>>" ++ check (runes_of_ascii "// c" ++ [5760]%N ++ runes_of_ascii "
  packet 
A
	{}
")).
Eval vm_compute in ("<<<M733>>>" ++ check (runes_of_ascii "packet  Z9_{
    }
")).
Eval vm_compute in ("<<<M2573>>>" ++ check (runes_of_ascii "packet A { x y z, }")).
Eval vm_compute in ("<<<M610>>>" ++ check (runes_of_ascii "root packet A { }
")).
Eval vm_compute in ("<<<M3116>>>" ++ check (runes_of_ascii "// c" ++ [11]%N ++ runes_of_ascii "
packet A {
}")).
Eval vm_compute in ("<<<M3063>>>" ++ check (runes_of_ascii "packet A {
}// c" ++ [12288]%N)).
Eval vm_compute in ("<<<M2764>>>" ++ check (runes_of_ascii "%w)<yjd'GFjF/'l0")).
Eval vm_compute in ("<<<M2413>>>" ++ check (runes_of_ascii "// c
packet x")).
Eval vm_compute in ("<<<M2841>>>" ++ check (runes_of_ascii "f63].b{\{1C")).
Eval vm_compute in ("<<<M2480>>>" ++ check (runes_of_ascii "@leftPad")).
Eval vm_compute in ("<<<M241>>>" ++ check (runes_of_ascii "

//x
")).
Eval vm_compute in ("<<<M2441>>>" ++ check (runes_of_ascii "uint8")).
Eval vm_compute in ("<<<M319>>>" ++ check (runes_of_ascii "
//
")).
Eval vm_compute in ("<<<M179>>>" ++ check (runes_of_ascii "  
")).
Eval vm_compute in ("<<<M2781>>>" ++ check (runes_of_ascii "u32")).
Eval vm_compute in ("<<<M2497>>>" ++ check (runes_of_ascii "/")).
