From FP Require Import Lexer Parser ShowPT Digest Formatter.
From Coq Require Import String List NArith.
Import ListNotations.
Open Scope string_scope.
Set Printing Width 100000000.
Set Printing Depth 100000000.
Definition show_fres (r : fres) : string :=
  match r with
  | FOk s => "OK:" ++ sh_escaped s ""
  | FErr s => "ERR:" ++ sh_escaped s ""
  | FPanic p => "PANIC:" ++ p
  end.
Definition check (rs : list rune) : string := digest (show_fres (format_res rs)).
Definition full (rs : list rune) : string := show_fres (format_res rs).
Eval vm_compute in ("<<<M4502>>>" ++ check (runes_of_ascii "
options {ArrayPrefixLenType = u16

;FixedStringPadFromLeft=true ;
	JavaPackage
=""com.example.msg""
	; GoPackage	= 
""msg"";

    GoModule  =
	""example.com/msg""  ;}	MetaData

Meta
	{u32	SeqNum`sequence number` ,

    char[ 8  ]	Symbol
`symbol` , zchar[  5
]
	ZSym

    `z symbol`
,
string
Note,Symbol	AltSymbol`alias of symbol` , f64 Price  , 
}
packet
    Inner 
{
u8
	a,
    i16	b, string  c 
,
    }

packet Inner2{
u8	a2
,

    char[

3

] c2 , }

packet
Logon  {
    u8
	x

    ,  string  user  ,

    repeat u16
    codes

,
	} packet Logout{ u16 reason,
}  packet Empty

{}
	root
	packet Msg { u8 su8
	,  uint8  luint8 ,  u16 su16
, uint16
luint16
,
u32

    su32,	uint32	luint32
    , u64 su64 , 
uint64 
luint64 
, i8

    si8,
int8
lint8
	, i16

    si16

,
    int16
	lint16 , 
i32

    si32 ,
int32 lint32 ,
	i64 si64 , int64 
lint64 ,

f32 sf32 
,
    float32 lfloat32

, f64
    sf64

    ,
float64  lfloat64 , char[ 6]fsplain , @leftPad
(
	'0'

) char[	4 ] fs0
	,

@rightPad	('0'  )char[ 5

]	fs1 
,@leftPad(' '
)

char[  6
] fs2 ,@rightPad (	' '
	)

char[ 7
]
	fs3
    ,

@leftPad	(
'\x00'  )  char[	8 ]
fs4
	, @rightPad
    (
	'\x00'

    ) char[
9
	] fs5 ,

@leftPad

    ()
char[ 10 ]

fs6 
,
    @rightPad	(

)

    char[11 
]
    fs7
    , zchar[
7 
]
	fz

,@leftPad (
'0' )zchar[	3 
] fzl0
	, string  s1 `doc` , char[]

    s2

, Inner
	, 
Sub { u8
q

    ,

    string

    w, Deep{
    u16
z

    ,
    repeat
    i32 zs
	,}
,
    }, repeat
	u8	ru8

,
    repeat u16 ru16
,
repeat
    u32

ru32 ,  repeat

u64 
ru64
    ,repeat

    i8

ri8,repeat i16 ri16  ,

repeat  i32 ri32, repeat 
i64

ri64
,repeat 
f32

    rf32 ,
repeat

f64

rf64,
    repeat

    string

rstr , repeat char[] rstr2  ,repeat
    char[ 3
]
    rfs  ,repeat
	zchar[
3
] rfz
    , repeat

    Inner2 ,

    repeat  Grp{u8 
k
	,
    char[ 2  ]

v 
,
},
	SeqNum

, SeqNum
    seq2  ,	repeat SeqNum
	seqs

    ,Symbol

    , AltSymbol

    alt ,
ZSym, 
Note 
,

    repeat

    Symbol syms ,Price px

,
u16
	MsgType
,
u32 BodyLen@lengthOf(
Body	)
,

    match MsgType as
	Body
	{ 1 
:Logon

, [2	,

    3

]
	:

Logout
    ,7 :  Logon
,9  :
	Empty

,

    }
	,u32 
Checksum

    @calculatedFrom(
""CRC32""

),}")).
Eval vm_compute in ("<<<M4299>>>" ++ check (runes_of_ascii "root packet Header {
    repeat zchar[10] charz `two words`,
    repeat u8 uint8x `" ++ [233]%N ++ runes_of_ascii "`,
    T @calculatedFrom(""{,}"") `u8 x,`,
    char[1] trueish @lengthOf(x_y_z) `crlf
    line`,
    repeat Pad Foo,
    @lengthOf(roots)
    repeat asx,
    @rightPad('0')
    @leftPad('0')
    @leftPad('0')
    uint8 x @lengthOf(body) `crlf
    line`,
    match body as rootA {
        [0, ""\n""] : x_y_z,
        10 : packetx,
        1 : BodyLength,
        """ ++ [233]%N ++ runes_of_ascii "t" ++ [233]%N ++ runes_of_ascii """ : zchar,
        3 : As,
        """ ++ [233]%N ++ runes_of_ascii "t" ++ [233]%N ++ runes_of_ascii """ : asx,
    },
    match packetx as lengthOf {
        """ ++ [233]%N ++ runes_of_ascii "t" ++ [233]%N ++ runes_of_ascii """ : roots,
        42 : lengthOf,
        [""a\""b""] : asx,
    },
}

packet calculatedFrom {
    @calculatedFrom(""abc"")
    repeat u64 stringy,
    @calculatedFrom(""" ++ [233]%N ++ runes_of_ascii "t" ++ [233]%N ++ runes_of_ascii """)
    i32 i8i8 @lengthOf(f32a),
    i8 Pad @calculatedFrom(""a\\""),
    char charz `" ++ [28040; 24687; 31867; 22411]%N ++ runes_of_ascii "`,
    @calculatedFrom(""" ++ [233]%N ++ runes_of_ascii "t" ++ [233]%N ++ runes_of_ascii """)
    @tag(4294967296)
    rootA msg_type,
    @calculatedFrom(""CRC32"")
    @tag(007)
    @tag(0)
    uint8 A `crlf
    line`,
    char[0123456789] repeatCount `" ++ [233]%N ++ runes_of_ascii "`,
    packetx @lengthOf(tag) `it's`,
    @lengthOf(leftPad)
    @calculatedFrom(""\n"")
    @leftPad()
    Foo @calculatedFrom(""a\\"") `" ++ [28040; 24687; 31867; 22411]%N ++ runes_of_ascii "`,
}

packet metadata {
    packetx `" ++ [28040; 24687; 31867; 22411]%N ++ runes_of_ascii "`,
    u16 i64_ @calculatedFrom(""a\""b"") `
    `,
}

//	t
packet falsey {
    @lengthOf(int)
    // trailing space 
    // " ++ [27880; 37322]%N ++ runes_of_ascii "
    Packet,
    @calculatedFrom(""packet"")
    @lengthOf(trueish)
    @leftPad()
    A repeatCount,
    A `
    `,
    repeat trueish `{ , }`,
    zchar[42] rootA @lengthOf(A),
}

root packet u {
    repeat char[] i8i8,
    @tag(007)
    body {
        repeat u8x `tab	here`,
    },
    @rightPad('\x00')
    i16 matchKey `it's`,
    @lengthOf(trueish)
    metadata @lengthOf(lengthOf),// `tick` ""quote"" 'q'
    int @calculatedFrom(""`tick`""),
    @tag(3)
    match x_y_z as BodyLength {
        1 : options1,
    },
    repeat i64_ string_,
    //
    u8 trueish,
    f64 calculatedFrom,
}")).
Eval vm_compute in ("<<<M4331>>>" ++ check (runes_of_ascii "packet zchar {
    match calculatedFrom as repeatCount {
        [""{,}""] : zchar,
        00 : Pad,
        0 : pack,
    },// @lengthOf(
    f64 o `" ++ [28040; 24687; 31867; 22411]%N ++ runes_of_ascii "`,
    int32 f32a @lengthOf(body) `
        `,
    char[3] chars `crlf
        line`,
}

MetaData metadata {
    string int,
    len lengthOf,
}

root packet A {
    @tag(0123456789)
    zchar[0123456789] BodyLength,
    @leftPad('0')
    @rightPad(' ')
    zchar[0123456789] tag `it's`,
    @tag(007)
    @tag(7)
    falsey @calculatedFrom(""\" ++ [233]%N ++ runes_of_ascii """),
    @calculatedFrom(""{,}"")
    repeat Packet,
    @lengthOf(u)
    @calculatedFrom(""a\""b"")
    @lengthOf(lengthOf)
    char[] uint8x,
    @leftPad('\x00')
    // trailing space 
    repeat T {
        i8i8 a1,
        char[65535] chars `u8 x,`,
        Pad,
    },
    @lengthOf(o)
    u8 x,
    @calculatedFrom(""a	b"")
    lengthOf `// not a comment`,
    A {
        repeat calculatedFrom matchKey,
        options1 @calculatedFrom(""a	b""),// trailing space 
        repeat u `line1
                line2`,
    },
}

packet i8i8 {
}

packet pack {
    zchar[0123456789] leftPad `
        `,
    @rightPad('\x00')
    repeat int `" ++ [28040; 24687; 31867; 22411]%N ++ runes_of_ascii "`,
    match Packet as BodyLength {
        [00, 7] : falsey,
    },
    @tag(00)
    repeat zchar[1] len `u8 x,`,
    @leftPad()
    rootA @lengthOf(len),
    @tag(42)
    @lengthOf(i64_)
    repeat len {
        x {
            Logon {
                options1 Logon,
            },
            stringy {
                string body @lengthOf(tag),
            },
            falsey falsey,
        },
        MetaDataX roots `// not a comment`,
    },
}")).
Eval vm_compute in ("<<<M948>>>" ++ check (runes_of_ascii "options { o // c
= ""it's""; }
/// triple
/// triple
packet calculatedFrom { int32 Header @calculatedFrom( ""x y""
)
    `" ++ [28040; 24687; 31867; 22411]%N ++ runes_of_ascii "`	,
    @tag( // a // b
0 ) @lengthOf( f32a // " ++ [128512]%N ++ runes_of_ascii " emoji
)match i64_ as T
    // " ++ [27880; 37322]%N ++ runes_of_ascii "
    { 255
    :
Foo 1
: T
,
    ""a	b"":  Header , 1 : x, } , } root packet options1 {
@leftPad ( // a // b
' ' )
    match
uint8x as lengthOf  { ""`tick`""
    // c
    :
x_y_z ,
} , @calculatedFrom( ""a\""b""
)repeat
// trailing space 
// " ++ [27880; 37322]%N ++ runes_of_ascii "
body`
`  ,
char[ 10 ] float
    // c
    ,match
stringy as repeatCount {[
42
// c
/// triple
, ""`tick`""
    ]:
    float , //	t
""abc"": matchKey
, // a // b
7
    :	As
    255
: pack
,
""{,}"" : len
,
3
:	metadata	, } ,char[3 ] trueish @calculatedFrom(
""CRC32""
    )
,
    repeat charz { match Pad	as Z9_ { ""packet"" : f32a , ""{,}""
: f32a 7 : _x ,  00 :repeatCount , 4294967296 : asx , ""CRC32""
    : u128//x
} ,
    char[ 42 ] //	t
crc `two words` ,
// @lengthOf(
//	t
repeat Foo // @lengthOf(
`doc` // a // b
,} , } options // `tick` ""quote"" 'q'
{ falsey =
    false ;// trailing space 
Header
=true ; // `tick` ""quote"" 'q'
packetx = u64
    ; calculatedFrom
//
// a // b
= ""\n"";
    } packet
    body {@tag( 42  ) repeat
i16
    u128`// not a comment`
    ,@tag( 0 )@tag(  0123456789 ) @calculatedFrom( ""\n""	)
zchar[ 255 ] x_y_z @lengthOf( stringy	) ,
f32a @lengthOf(
Logon
    )
,  repeat zchar[ 10] _x , float64 charz
`` ,
Pad
@lengthOf(
    u ) , body ``, }
")).
Eval vm_compute in ("<<<M567>>>" ++ check (runes_of_ascii "options {
}
MetaData	x_y_z{
    string_ packetx ,  metadata// packet A { u8 x, }
o ,	char[
3 ]charz
// a // b
//x
, zchar
charz,}
MetaData
    /// triple
    T{ zchar[
3 ] len ,u x_y_z	, u64 A ,
} packet
zchar  { @tag(
    4294967296 ) @calculatedFrom( """ ++ [233]%N ++ runes_of_ascii "t" ++ [233]%N ++ runes_of_ascii """ ) @calculatedFrom( ""abc""
) match tag as  tag
    {
    """"
    :
    stringy ,
""" ++ [28040; 24687]%N ++ runes_of_ascii """:
    // trailing space 
    f32a ,4294967296 :
    matchKey ,	0
: msg_type // " ++ [27880; 37322]%N ++ runes_of_ascii "
,7 :
    //	t
    Logon
, 7
//
// @lengthOf(
:
trueish
,}
    , roots@calculatedFrom( // @lengthOf(
""" ++ [233]%N ++ runes_of_ascii "t" ++ [233]%N ++ runes_of_ascii """), BodyLength `" ++ [233]%N ++ runes_of_ascii "` , repeat  int zchar //
`
` , @leftPad () body @calculatedFrom(
    // packet A { u8 x, }
    """ ++ [233]%N ++ runes_of_ascii "t" ++ [233]%N ++ runes_of_ascii """	),}
    packet // a // b
Packet { @lengthOf(
    uint8x
    )
    // @lengthOf(
    i64_
    { u128	{
    stringy , }
,  }, T MetaDataX
`u8 x,`
    , @calculatedFrom("""" ) @lengthOf( // @lengthOf(
x_y_z )
    @calculatedFrom( ""1"" ) uint32 charz@calculatedFrom(""`tick`""	) `" ++ [233]%N ++ runes_of_ascii "`
,
    // @lengthOf(
    string
    u8x	@calculatedFrom( ""\" ++ [233]%N ++ runes_of_ascii """ ) `line1
line2` //
,@leftPad (
    )
string tag @lengthOf(
f32a ) `" ++ [233]%N ++ runes_of_ascii "`,@rightPad ( ) @tag(7)  @lengthOf(
    rootA
)
    // " ++ [128512]%N ++ runes_of_ascii " emoji
    repeat T matchKey , @lengthOf( metadata) zchar[
    10 ] _x @lengthOf( a1 // a // b
) , @leftPad(
) f32a o `{ , }`
    ,
}
// packet A { u8 x, }
")).
Eval vm_compute in ("<<<M4580>>>" ++ check (runes_of_ascii "MetaData asx {
    Packet i64_,
    zchar[0] stringy,
    A tag,
}

options {
}

root packet metadata {
    repeat x_y_z matchKey,
    repeat char[] x_y_z `crlf
        line`,
    @lengthOf(As)
    char[] x_y_z,
    @tag(00)
    @calculatedFrom(""" ++ [233]%N ++ runes_of_ascii "t" ++ [233]%N ++ runes_of_ascii """)
    u8 pack @calculatedFrom(""CRC32""),
    roots repeatCount,
    uint8x `two words`,
}

options {
    Z9_ = string
    Z9_ = 0
    string_ = true;// c
    crc = i64;
}

packet packetx {
    @leftPad('0')
    @rightPad('0')
    @lengthOf(stringy)
    char[] body `" ++ [28040; 24687; 31867; 22411]%N ++ runes_of_ascii "`,// " ++ [27880; 37322]%N ++ runes_of_ascii "
    match u as Foo {
        // " ++ [27880; 37322]%N ++ runes_of_ascii "
        4294967296 : Logon,
    },
    match stringy as BodyLength {
        ""a\\"" : chars,
        4294967296 : Packet,
        4294967296 : _x,
        255 : Foo,
        1 : roots,
    },
    @rightPad('0')
    //x
    match u8x as f32a {
        [""x y"", """ ++ [128512]%N ++ runes_of_ascii """, ""`tick`""] : calculatedFrom,
        ""a\""b"" : packetx,
        [0] : As,
        [""" ++ [28040; 24687]%N ++ runes_of_ascii """] : Z9_,
    },
    @lengthOf(Logon)
    match chars as len {
        [3, ""a\\""] : string_,
        [""it's"", ""a\\""] : len,
        [3, ""\n"", """ ++ [28040; 24687]%N ++ runes_of_ascii """] : rootA,
        10 : msg_type,
    },
    char[] chars @lengthOf(trueish) `
        `,//
    @tag(0)
    repeat zchar[7] A,
    char[7] rootA,
}")).
Eval vm_compute in ("<<<M969>>>" ++ check (runes_of_ascii "root packet
stringy {
int8 As @lengthOf( trueish ) ,}
packet
string_ {
stringy
`crlf
line`
,uint16
    metadata
    // `tick` ""quote"" 'q'
    ,  @tag( 4294967296
    // `tick` ""quote"" 'q'
    ) @tag( 255)
f32a u	`doc`  ,
    //x
    zchar[ 3 ] Packet ,@leftPad
(
    //	t
    '0')@lengthOf( uint8x  ) zchar[ 0 ]uint8x@lengthOf(
    // packet A { u8 x, }
    Pad
) `two words` ,
// " ++ [27880; 37322]%N ++ runes_of_ascii "
// " ++ [128512]%N ++ runes_of_ascii " emoji
@rightPad
( '\x00'  ) i8i8 roots ,@tag(
    007 ) u128	@calculatedFrom( """ ++ [233]%N ++ runes_of_ascii "t" ++ [233]%N ++ runes_of_ascii """ ) `two words`	, string string_ @lengthOf( falsey)
`a\`
,match tag as i8i8
{
""x y"":
asx , } ,
}
    packet	u8x { } options{
zchar =
    f64
    ;} packet
    T	{
@lengthOf( string_
)
    crc { metadata // a // b
charz , char[]uint8x
    `line1
line2`
    ,
    uint8 Packet, }
// a // b
/// triple
, metadata @calculatedFrom( ""\" ++ [233]%N ++ runes_of_ascii """ )
// " ++ [128512]%N ++ runes_of_ascii " emoji
// " ++ [27880; 37322]%N ++ runes_of_ascii "
`{ , }` ,
zchar @calculatedFrom( ""it's"" ) `a\`
, u64  packetx , match //	t
u128 as i8i8 { 4294967296 :x_y_z
// trailing space 
//x
} ,
int16 float
,	match chars as
    Pad
    { ""packet"" : Packet ,
}
    ,
    matchKey { metadata@lengthOf( Pad )`" ++ [233]%N ++ runes_of_ascii "` ,BodyLength``  , A , } ,
    // " ++ [27880; 37322]%N ++ runes_of_ascii "
    } 	 ")).
Eval vm_compute in ("<<<M3986>>>" ++ check (runes_of_ascii "root packet x_y_z {
    match Z9_ as u {
        255 : pack,
        255 : u128,
        007 : float,
        ""\n"" : options1,
        [1, """ ++ [28040; 24687]%N ++ runes_of_ascii """] : Z9_,
        """ ++ [28040; 24687]%N ++ runes_of_ascii """ : chars,
    },
    u8 _x @calculatedFrom(""" ++ [28040; 24687]%N ++ runes_of_ascii """) `say ""hi""`,
    @tag(3)
    match a1 as msg_type {
        [255, 0, ""\n""] : crc,
    },
}

root packet o {
    match tag as _x {
        007 : x,
        10 : charz,
        ""{,}"" : body,
        """ ++ [233]%N ++ runes_of_ascii "t" ++ [233]%N ++ runes_of_ascii """ : len,
        """ ++ [128512]%N ++ runes_of_ascii """ : u,
    },
    u64 u @calculatedFrom(""x y"") `it's`,
    @lengthOf(trueish)
    repeat uint8 u8x `" ++ [28040; 24687; 31867; 22411]%N ++ runes_of_ascii "`,
    @calculatedFrom(""\n"")
    @rightPad()
    @leftPad('\x00')
    repeat uint32 float,
    @lengthOf(A)
    @tag(0123456789)
    @rightPad(' ')
    zchar[10] o,
    uint8x @calculatedFrom(""a\\"") `
    `,
    body,
    repeat char[10] string_ `tab	here`,
}

root packet roots {
}

packet u {
    @calculatedFrom(""" ++ [128512]%N ++ runes_of_ascii """)
    f64 Logon @calculatedFrom(""1"") `a\`,
    int16 trueish `line1
    line2`,//
    zchar[0123456789] BodyLength `two words`,
    float32 i8i8 @lengthOf(metadata) `// not a comment`,
    i32 leftPad,
}")).
Eval vm_compute in ("<<<M3991>>>" ++ check (runes_of_ascii "options

{

    LittleEndian=
    true
	; StringPrefixLenType=

u16
;
    ArrayPrefixLenType

    =

u8;FixedStringPadChar = '0' ;
}

packet Logout {
repeat
i16 
f1 ,
string Ref	, @rightPad

( 
'\x00'	)

char[
	9
]	Tail
, repeat
char[
    6  ]Flags  ,  repeat

    char[ 3	]
Acct
	,}

    packet

Party { char[
    2	]
f1
    ,	u8  Side2,

@leftPad

    (  ' '  )	char[ 1]

    venue
,
}

packet

    Order { repeat i64
    Ref
, 
InPx62
	{ i32

OrderId ,
    } ,  InNote53 {

InClordid80
{char[]Acct

, 
u32
Px

    , 
repeat
Party 
,
    }
,  InPrice12

{

    u8

pad0,
    }
, repeat
	Logout

    , InFlags23
{
	repeat

    string	seqNo, string
sym
    ,
    int8
	Flags 
,

    zchar[

5
	]
    lastPx
	,zchar[ 6 
]

    Px ,
    },  char[10

]	Acct

    ,
    InPx18 {

    zchar[2

    ]
count	,Party
, }  ,

}	,

    char[ 5  ] Side2 , char[  1]

Acct

,

    }	root packet Ack {
u32
Tail
, repeat char[
4 ] msgKind	,
    repeat
    Logout
	, } ")).
Eval vm_compute in ("<<<M4103>>>" ++ check (runes_of_ascii "options {

    LittleEndian

    =true ;  StringPrefixLenType  = 
u16 ; ArrayPrefixLenType
	=  u8

    ;

    FixedStringPadChar = '0' ;  }	packet
Logout {

repeat i16 
f1	, 
string  Ref
,

@rightPad
(
	'\x00' )char[

9

]Tail 
,
repeat  char[
6  ]
    Flags ,
	repeat
    char[	3 ] Acct ,
	}
    packet 
Party

{  char[ 2	]	f1
,	u8
    Side2
	,@leftPad (
' ' )
    char[1 ] 
venue
,}packet
	Order	{ repeat
i64 
Ref ,  InPx62 { i32

OrderId ,}

, 
InNote53  {
InClordid80
	{char[]	Acct	, u32 
Px ,repeat	Party 
, } ,InPrice12	{

    u8
    pad0	,
}

    ,

    repeat 
Logout

, InFlags23 {
repeat
string seqNo  ,
    string sym  ,  int8
    Flags	,
    zchar[  5
]
lastPx
	, zchar[
6]

Px

, }
	,

    char[
	10
	]
	Acct	, InPx18
	{  zchar[2 ] count
	, Party
	, }, }

    ,
	char[5  ]Side2
    ,char[
1 
]

    Acct
    , }	root
packet
Ack  {

u32
	Tail
    ,repeat

char[ 4
] msgKind
	,
    repeat
    Logout, }")).
Eval vm_compute in ("<<<M4548>>>" ++ check (runes_of_ascii "root

    packet  // a // b
  f32a
{ zchar[ 
0123456789

] Foo,
zchar
@lengthOf(

    a1 )
	,
@rightPad  // packet A { u8 x, }
    ( 
)

    @tag(	3 
//
	)

    match int as  stringy
{ [  0 ] : chars
,	0

: i8i8 42: i64_ 
,

[ 
      // c
	// packet A { u8 x, }
    255

    /// triple
  // `tick` ""quote"" 'q'
,7
    , 
""1""

, ""a\\""	]
	: leftPad , 
""" ++ [233]%N ++ runes_of_ascii "t" ++ [233]%N ++ runes_of_ascii """
:Header
    ,

    [	7  ] 
: repeatCount

,
} ,  i32	falsey @lengthOf(
    u128	)

    `two words` , @tag(0 )	char[] 

    // trailing space 
	// " ++ [27880; 37322]%N ++ runes_of_ascii "
  	uint8x
    `{ , }`,// " ++ [128512]%N ++ runes_of_ascii " emoji
	repeat	MetaDataX {

    string /// triple
      len	, // `tick` ""quote"" 'q'
  }

, @leftPad
	( // a // b
  '\x00' 
    //x

	)	zchar[ 0123456789

    ] o , f32 As @calculatedFrom(""a\\"" ) , @lengthOf( 
string_

)	repeat

    u128	``, pack /// triple
  {
crc stringy
    ,

repeat  string
    asx
    ,

    } ,

    } ")).
Eval vm_compute in ("<<<M3645>>>" ++ check (runes_of_ascii "options {
    // c1
FixedStringPadFromLeft
    // c2
= // c3
true ; // c5
FixedStringPadChar // c6a
  // c6b
= // c7a
  // c7b
' ' ; // c9a
  // c9b
} // c10
packet
    // c11
Reject
    // c12
{ // c13
} packet Fill
    // c16
{ // c17
repeat
    // c18
i16 Tail // c20
, // c21a
  // c21b
} // c22
root // c23a
  // c23b
packet // c24a
  // c24b
Trade // c25
{ float64 Ref
    // c28
, // c29
Fill // c30
, // c31
u8 Note // c33
, // c34a
  // c34b
u16 count // c36a
  // c36b
@lengthOf(
    // c37
Body ) // c39
, // c40a
  // c40b
match // c41a
  // c41b
Note // c42
as
    // c43
Body {
    // c45
[ 98
    // c47
, 101 // c49
]
    // c50
:
    // c51
Fill , // c53a
  // c53b
34 // c54a
  // c54b
: Reject // c56
, // c57a
  // c57b
} , u32 x
    // c61
@calculatedFrom( // c62
""CRC32"" ) // c64a
  // c64b
, // c65a
  // c65b
} // c66
")).
Eval vm_compute in ("<<<M977>>>" ++ check (runes_of_ascii "packet
MetaDataX {zchar[4294967296
] o @calculatedFrom(
""" ++ [233]%N ++ runes_of_ascii "t" ++ [233]%N ++ runes_of_ascii """
// packet A { u8 x, }
// `tick` ""quote"" 'q'
) , @tag( 65535 ) @leftPad /// triple
(' ' )uint16 pack , char[]
charz  , zchar //
metadata , match  i64_
as asx { 0 :BodyLength , [
""" ++ [28040; 24687]%N ++ runes_of_ascii """ ] :	options1 , ""x y"" :
    matchKey ,""x y"": msg_type// " ++ [128512]%N ++ runes_of_ascii " emoji
}, @calculatedFrom(
""a\\"")match repeatCount as zchar { 007 :// a // b
crc
[
""" ++ [233]%N ++ runes_of_ascii "t" ++ [233]%N ++ runes_of_ascii """
    ,""" ++ [28040; 24687]%N ++ runes_of_ascii """ , ""it's"" ] : roots , } // a // b
, char[ 3]falsey `say ""hi""` , @calculatedFrom( ""a	b"") calculatedFrom Header ,repeat
    tag {stringy@calculatedFrom( ""\n""
),
match chars	as x_y_z { //	t
42 :
    repeatCount """ ++ [28040; 24687]%N ++ runes_of_ascii """	:pack
, /// triple
}
    ,
    char[ 3 ]x_y_z@lengthOf(//
body
) `two words` ,
o { repeat zchar[ 00 ] matchKey
    ,	repeat char[
1 ]
repeatCount  `it's` // " ++ [128512]%N ++ runes_of_ascii " emoji
,} , } , }")).
Eval vm_compute in ("<<<M940>>>" ++ check (runes_of_ascii "
root packet As
{ repeat
    //	t
    x
    msg_type ,}MetaData crc { // c
u8 x , } root packet
    // " ++ [128512]%N ++ runes_of_ascii " emoji
    Logon{ @calculatedFrom(
""1"" )
@rightPad (  ' ') @leftPad
( ) string msg_type @lengthOf(
uint8x )	`a\`
, match calculatedFrom
as i8i8
{ [
""\" ++ [233]%N ++ runes_of_ascii """ ]  : options1 , // c
1
: asx
, [ 42,
42
    //
    ,//	t
""" ++ [28040; 24687]%N ++ runes_of_ascii """// `tick` ""quote"" 'q'
,"""" ,// " ++ [128512]%N ++ runes_of_ascii " emoji
7] // @lengthOf(
: x_y_z,  [// " ++ [27880; 37322]%N ++ runes_of_ascii "
0//x
] :
    // packet A { u8 x, }
    asx
    //
    7:
    u8x [
7
    ] :u , } ,} MetaData repeatCount
    { float Foo
    , As //	t
i8i8	,} packet tag {@leftPad (
' '
) match Z9_ as msg_type {
    //
    [ 10
, ""a\""b"" ,0 ,255 , 7 ,0123456789 , 10
]: Logon ,
    """ ++ [233]%N ++ runes_of_ascii "t" ++ [233]%N ++ runes_of_ascii """: a1 , 7
// packet A { u8 x, }
/// triple
: i64_  ,  255
:	leftPad
    }
    , }
")).
Eval vm_compute in ("<<<M201>>>" ++ check (runes_of_ascii "packet _x{
    u ,@lengthOf( len)
    match f32a as
    Pad{""packet"": metadata,
""CRC32"":x_y_z[ ""abc"" , ""{,}"" ] : Logon , }
    // c
    , zchar[ 7  ]	a1  ,
    @tag( 65535 ) @tag(
0123456789
    )
    //x
    @lengthOf(
asx ) repeat
i16 // @lengthOf(
tag `{ , }` // `tick` ""quote"" 'q'
,
    @leftPad	(
'\x00' ) match i64_ as x { 0 :crc , [
//	t
// trailing space 
""// no comment"" ] : uint8x ,
    42
// a // b
// trailing space 
:  string_	, 007 : trueish , [10 ]// " ++ [128512]%N ++ runes_of_ascii " emoji
: rootA
""" ++ [28040; 24687]%N ++ runes_of_ascii """
    : // trailing space 
len , } //
, @rightPad (
'\x00' // trailing space 
) @tag(
    //
    00 ) @calculatedFrom( """ ++ [233]%N ++ runes_of_ascii "t" ++ [233]%N ++ runes_of_ascii """ ) // c
char[]float
@calculatedFrom(	""\n"" ),repeat f32 trueish `crlf
line` ,} // @lengthOf(")).
Eval vm_compute in ("<<<M1298>>>" ++ check (runes_of_ascii "MetaData
    Foo	{  }	packet x_y_z  {	a1
    u8x, /// triple
x
`it's`
    ,} packet
    Foo
{
@lengthOf(
    o) T @calculatedFrom( """ ++ [28040; 24687]%N ++ runes_of_ascii """ ) `two words`  ,
@lengthOf( i8i8 ) repeat metadata{u
{ repeat char[ 0
]// trailing space 
string_ ``, repeat
body {
    //
    zchar[	0123456789	]
Pad
    ,
    match
Pad as matchKey{
00
:_x
, [
    65535 , 7 , 10 , 3// `tick` ""quote"" 'q'
,// trailing space 
""" ++ [128512]%N ++ runes_of_ascii """
, 42
, ""\" ++ [233]%N ++ runes_of_ascii """ ,""a	b""
] : i8i8
    , } ,	int8 charz , match packetx
    as lengthOf	{
    [
    1/// triple
, 4294967296
, 1 ] :
As
},
}
    //
    , repeat zchar[ 4294967296]_x
, }, string o `` , }	, Header
Header
// @lengthOf(
// c
`u8 x,`
,charz
    i8i8 `crlf
line` ,}")).
Eval vm_compute in ("<<<M4223>>>" ++ check (runes_of_ascii "  packet BodyLength 
{
    repeat
    f32a  Pad  `// not a comment`, 
	    // " ++ [128512]%N ++ runes_of_ascii " emoji
    // c

}

MetaData As {
} options

    { 
crc
    // packet A { u8 x, }
	=	""a\\"" 
float

=  '\x00' a1// c
  	=	' '  ;i8i8=4294967296 } packet

u128	{

    // `tick` ""quote"" 'q'
  //
    match 	 //x
    stringy 
as	o{ ""`tick`""  :

    Foo
,
[

4294967296	]:

    x_y_z  ,	},  zchar[	/// triple

  10  ] // `tick` ""quote"" 'q'
  Packet
	@lengthOf(u8x )	,
@lengthOf(
	roots	)  // " ++ [27880; 37322]%N ++ runes_of_ascii "

x `// not a comment` 
, 
i64 asx 
@lengthOf(
	rootA  )  , metadata
,  i64_@calculatedFrom( ""\" ++ [233]%N ++ runes_of_ascii """
)
    ,

    @lengthOf( u128	)repeat o `two words` ,} ")).
Eval vm_compute in ("<<<M4207>>>" ++ check (runes_of_ascii "MetaData As {
}

packet float {
    // @lengthOf(
    options1 Pad `// not a comment`,
    uint16 As `line1
        line2`,
    float32 stringy @calculatedFrom(""`tick`"") `" ++ [233]%N ++ runes_of_ascii "`,
    repeat Packet {
        zchar[3] T @calculatedFrom(""x y""),
        char[7] asx @lengthOf(tag),
        //
        int64 charz `u8 x,`,
    },
    uint32 len,
    @tag(0123456789)
    Foo packetx `// not a comment`,
    char[] trueish @lengthOf(rootA),
    @leftPad('0')
    repeat x_y_z `{ , }`,
    i64 u128,
}

packet msg_type {
    char[] i8i8 `doc`,
    string trueish @calculatedFrom(""""),
    char[7] string_ `say ""hi""`,
}")).
Eval vm_compute in ("<<<M279>>>" ++ check (runes_of_ascii "
MetaData matchKey { i16
lengthOf, int16
    asx `it's`
    ,
    chars metadata `
` , char[ 00 ] u128 ,// " ++ [128512]%N ++ runes_of_ascii " emoji
zchar[ 007 ] falsey
,  uint64 packetx
, }
    packet string_
    {
}root
packet stringy{u64 packetx	@lengthOf( falsey // @lengthOf(
) `crlf
line` , falsey options1
    , repeat char[] calculatedFrom , @rightPad ( '\x00' )
i64 // c
charz
    @lengthOf(
    x_y_z )
    `u8 x,`,
// @lengthOf(
//x
@lengthOf( rootA )char[] BodyLength `it's`
, msg_type@calculatedFrom( // trailing space 
""packet"") ,
    // " ++ [27880; 37322]%N ++ runes_of_ascii "
    lengthOf {zchar[
65535	]tag
`
`
    , }
    , } 	 ")).
Eval vm_compute in ("<<<M4268>>>" ++ check (runes_of_ascii "options

{ packetx
='\x00'
o = 
// `tick` ""quote"" 'q'

""abc""  lengthOf // @lengthOf(
    =  255

zchar	=  """ ++ [128512]%N ++ runes_of_ascii """Pad	// packet A { u8 x, }
  = string 
;
	}
root 
packet
options1	//x
		{
calculatedFrom	o ,
	x @lengthOf(leftPad// " ++ [128512]%N ++ runes_of_ascii " emoji
	)	,	match

_x

as stringy 
{3
    :

i8i8
	,

}, 
string T
	,

} 
root
packet uint8x

{
	len 
/// triple
		// a // b
    ``

    ,} packet
matchKey
{ match
calculatedFrom as
	    // " ++ [27880; 37322]%N ++ runes_of_ascii "
    Packet
{ [ """ ++ [28040; 24687]%N ++ runes_of_ascii """ 
,	""packet"" //
    	] : // packet A { u8 x, }
rootA
	, }
    , } options
{
	uint8x 
=  false  ; }
")).
Eval vm_compute in ("<<<M1106>>>" ++ check (runes_of_ascii "packet string_  {
BodyLength u128 ,
}	MetaData
matchKey
{}
packet f32a
{
    repeat uint32
// trailing space 
// `tick` ""quote"" 'q'
matchKey
,}
    root packet trueish // `tick` ""quote"" 'q'
{ leftPad
    {match BodyLength as i8i8{255 : metadata
""CRC32"" // `tick` ""quote"" 'q'
: metadata ,
""packet"" : a1 } ,}, } packet
    asx { leftPad
//	t
// packet A { u8 x, }
{
    // `tick` ""quote"" 'q'
    char[	10 ]options1	, char[ 4294967296
    ]
//	t
//
Packet	`a\` ,
o `{ , }` , Z9_ {
match Foo as	T
    { 3 :
a1 ,
} , } ,} ,}
")).
Eval vm_compute in ("<<<M426>>>" ++ check (runes_of_ascii "
options {x= ""abc"" ; } root packet calculatedFrom {// trailing space 
@tag( 1 )match	x_y_z
    as int //	t
{[ ""it's"" ] :
    uint8x ,  4294967296 : i64_ , ""x y"": // `tick` ""quote"" 'q'
BodyLength , ""x y"" : u8x, }  ,
    @tag(007)@tag( 7)
    // " ++ [27880; 37322]%N ++ runes_of_ascii "
    @lengthOf( x_y_z )
    u64 crc, @calculatedFrom( ""CRC32"" ) u64 chars @calculatedFrom(// " ++ [27880; 37322]%N ++ runes_of_ascii "
""// no comment""
    ) ,@rightPad
// c
//x
( ) zchar[ 10 ] lengthOf ,
char[ 65535	] u128
    // c
    ,}
options { falsey = true ; } packet
BodyLength
    {}")).
Eval vm_compute in ("<<<M4234>>>" ++ check (runes_of_ascii "packet float {
    @leftPad(' ')
    repeat metadata falsey,
    lengthOf matchKey,
    int32 roots,
    int16 Pad @calculatedFrom(""\" ++ [233]%N ++ runes_of_ascii """),// a // b
    lengthOf @calculatedFrom(""`tick`"") `" ++ [28040; 24687; 31867; 22411]%N ++ runes_of_ascii "`,
    @lengthOf(metadata)
    i8i8,
    @rightPad('0')
    Foo,
    @tag(10)
    chars `
        `,
    @tag(7)
    @leftPad()
    repeat zchar[255] u128,// c
}

options {
    //	t
    msg_type = 0;// @lengthOf(
    u = ' '
    x_y_z = 65535
    u128 = char[];
    zchar = zchar[3];
}")).
Eval vm_compute in ("<<<M592>>>" ++ check (runes_of_ascii "// " ++ [128512]%N ++ runes_of_ascii " emoji
packet int
    { }options { string_=true
Z9_ = //
'\x00'
    ; uint8x
    = false}
packet body
{ int16
Foo ,
repeat	string
roots `
`
// " ++ [128512]%N ++ runes_of_ascii " emoji
//
,//	t
stringy a1
    `tab	here` ,int8
    repeatCount , @lengthOf(chars )
    match
    _x as repeatCount{""CRC32"" :
f32a ,
    [
    // packet A { u8 x, }
    0123456789 ,""it's"" ]:
    Logon
    , [""// no comment"" ,10
, ""a\""b"" ]	:trueish
, [ 0 ]: trueish , 0
: BodyLength, },
    } /// triple")).
Eval vm_compute in ("<<<M680>>>" ++ check (runes_of_ascii "packet len { @tag( 4294967296 ) repeat f32 a1 `" ++ [28040; 24687; 31867; 22411]%N ++ runes_of_ascii "`
    ,
uint8x
`
`
//
//	t
,} root packet rootA
    { match crc
    as // packet A { u8 x, }
i8i8 // c
{ ""a\""b"" : _x
00 :
Packet , ""// no comment"" : MetaDataX , // c
[  """ ++ [28040; 24687]%N ++ runes_of_ascii """//x
, 007 ] : MetaDataX 42:  charz , [ """ ++ [233]%N ++ runes_of_ascii "t" ++ [233]%N ++ runes_of_ascii """	, // a // b
""abc"" ]: _x, } , uint16 Logon, @leftPad
    (
' ' ) // packet A { u8 x, }
@leftPad
( // " ++ [27880; 37322]%N ++ runes_of_ascii "
' ' ) uint8  stringy @lengthOf(
    msg_type ) `
`
    , }")).
Eval vm_compute in ("<<<M1313>>>" ++ check (runes_of_ascii "packet options1{match string_
as// packet A { u8 x, }
i8i8 {
    10 :
a1 , ""a\""b"" :
    x_y_z ""abc"" :
charz
""" ++ [28040; 24687]%N ++ runes_of_ascii """
    : //
repeatCount, ""\" ++ [233]%N ++ runes_of_ascii """  : u8x, } ,@lengthOf( Foo// @lengthOf(
)repeat x_y_z {  repeat u32
BodyLength
,
    } ,match Foo
    as
msg_type
{ 42
:Pad [ 0
    , """ ++ [28040; 24687]%N ++ runes_of_ascii """] : MetaDataX ,	""1"" :
    // `tick` ""quote"" 'q'
    float
""x y"" // @lengthOf(
: msg_type
    //x
    , 4294967296:len} , float `" ++ [28040; 24687; 31867; 22411]%N ++ runes_of_ascii "`, }
")).
Eval vm_compute in ("<<<M715>>>" ++ check (runes_of_ascii "MetaData  len{
}
packet BodyLength{ char[
42
    ]A@calculatedFrom(""// no comment"" ) `crlf
line`// a // b
,  match //
Header as calculatedFrom {
/// triple
// packet A { u8 x, }
""`tick`"" :
//x
//	t
o
,
// packet A { u8 x, }
// c
},
repeat packetx , }packet u { }packet
x_y_z { @lengthOf( repeatCount
    ) // trailing space 
char[] charz @calculatedFrom(
""it's"" ) `doc` , } packet	calculatedFrom {}
")).
Eval vm_compute in ("<<<M683>>>" ++ check (runes_of_ascii "MetaData float { u8 Packet
    ,
    string i64_ `" ++ [28040; 24687; 31867; 22411]%N ++ runes_of_ascii "`
, charz pack , char
rootA ,char[0123456789 ] msg_type ,
    uint8 calculatedFrom , } packet	Pad
    { }
    root packet len{ // c
matchKey
    @calculatedFrom(""a\""b""
    ) `u8 x,`
, //x
@leftPad
    ( ) match roots as u128{ [  4294967296
    // packet A { u8 x, }
    , 007] :body , } , charz ,
    // trailing space 
    }")).
Eval vm_compute in ("<<<M3646>>>" ++ check (runes_of_ascii "options {
FixedStringPadFromLeft	=
true
;FixedStringPadChar
=

    ' ' ; }
packet 
Reject{	}	packet
	Fill{ repeat  i16

Tail ,
    } root
packet

    Trade
{  float64 Ref
, Fill

,	u8
Note,
u16 count @lengthOf(Body),
	match Note
	as	Body

{ [
98,
	101
]
: Fill, 
34

    :
Reject  ,	}

    ,u32
x @calculatedFrom(

    ""CRC32"" )
    ,
    } ")).
Eval vm_compute in ("<<<M170>>>" ++ check (runes_of_ascii "// " ++ [128512]%N ++ runes_of_ascii " emoji
packet i64_ { match repeatCount
as u8x{ // packet A { u8 x, }
7 : crc , },repeat uint32 roots ,
} packet options1{ match  MetaDataX as
chars
{ ""CRC32""
    :tag , 00 : lengthOf// a // b
,	""" ++ [233]%N ++ runes_of_ascii "t" ++ [233]%N ++ runes_of_ascii """ : _x , } , uint16 trueish	,
char[ 10 ] calculatedFrom	,
@calculatedFrom( ""a\\""  ) @tag(
65535 ) @rightPad (	'\x00' ) repeat int32 len , }
")).
Eval vm_compute in ("<<<M1079>>>" ++ check (runes_of_ascii "packet
    Packet
// " ++ [128512]%N ++ runes_of_ascii " emoji
//	t
{ @leftPad
('\x00' )
    // `tick` ""quote"" 'q'
    match trueish as Pad { 65535 :Header ,
00 :// `tick` ""quote"" 'q'
roots
    [ """ ++ [233]%N ++ runes_of_ascii "t" ++ [233]%N ++ runes_of_ascii """ ,
""1"" , ""packet"" , 42 , 0, ""x y""
    ,
""" ++ [128512]%N ++ runes_of_ascii """ ,
""a	b"" ]
    :
BodyLength
, """ ++ [28040; 24687]%N ++ runes_of_ascii """ : Packet ,
[ """ ++ [128512]%N ++ runes_of_ascii """ ]: body } , } //x
options
    // a // b
    { /// triple
As = u16 }")).
Eval vm_compute in ("<<<M1857>>>" ++ check (runes_of_ascii "MetaData MetaData
    u { }  options {
// c
// @lengthOf(
float = int8 ;rootA =false ; As =	int16 // `tick` ""quote"" 'q'
repeatCount
    // trailing space 
    =
    int16
; u8x =
    //	t
    '\x00' ; } options	{
    repeatCount
= 0
u128
    //
    = false ; i64_
// trailing space 
// `tick` ""quote"" 'q'
= '0' ; //	t
}
")).
Eval vm_compute in ("<<<M3561>>>" ++ check (runes_of_ascii "// top
options // c0a
  // c0b
{ // c1a
  // c1b
LittleEndian // c2
=
    // c3
true
    // c4
; // c5
}
    // c6
root
    // c7
packet // c8a
  // c8b
P // c9
{ u16 a
    // c12
, // c13a
  // c13b
u32 Sum // c15
@calculatedFrom(
    // c16
""CRC32"" // c17
) // c18a
  // c18b
, // c19a
  // c19b
} // c20a
  // c20b
")).
Eval vm_compute in ("<<<M1981>>>" ++ check (runes_of_ascii "MetaData
    u { }  options {
// c
// @lengthOf(
float = int8 ;rootA =false ; As =	int16 // `tick` ""quote"" 'q'
repeatCount
    // trailing space 
    =
    int16
; u8x =
    //	t
    '\x00' ; } } options	{
    repeatCount
= 0
u128
    //
    = false ; i64_
// trailing space 
// `tick` ""quote"" 'q'
= '0' ; //	t
}
")).
Eval vm_compute in ("<<<M769>>>" ++ check (runes_of_ascii "
packet i8i8 { match tag
as  i8i8
    { """ ++ [28040; 24687]%N ++ runes_of_ascii """ : pack ,
3
: rootA , [	1, //	t
3
]:falsey, }  ,
// " ++ [128512]%N ++ runes_of_ascii " emoji
// trailing space 
zchar[
10 ]string_ , // @lengthOf(
}packet falsey{string chars ,
uint8x
,@lengthOf( packetx ) char[]
Packet, }MetaData a1 {
chars roots
    //
    `crlf
line` , /// triple
asx zchar ,}
")).
Eval vm_compute in ("<<<M1987>>>" ++ check (runes_of_ascii "MetaData
    u { }  options {
// c
// @lengthOf(
float = int8 ;rootA =false ; As =	int16 // `tick` ""quote"" 'q'
repeatCount
    // trailing space 
    =
    int16
; u8x =
    //	t
    '\x00' ; } {	options
    repeatCount
= 0
u128
    //
    = false ; i64_
// trailing space 
// `tick` ""quote"" 'q'
= '0' ; //	t
}
")).
Eval vm_compute in ("<<<M1990>>>" ++ check (runes_of_ascii "MetaData
    u { }  options {
// c
// @lengthOf(
float = int8 ;rootA =false ; As =	int16 // `tick` ""quote"" 'q'
repeatCount
    // trailing space 
    =
    int16
; u8x =
    //	t
    '\x00' ; } options	
    repeatCount
= 0
u128
    //
    = false ; i64_
// trailing space 
// `tick` ""quote"" 'q'
= '0' ; //	t
}
")).
Eval vm_compute in ("<<<M1140>>>" ++ check (runes_of_ascii "
options  {Foo =
    true // trailing space 
;}
    packet
u128{ @calculatedFrom( ""x y"")  lengthOf@lengthOf(
msg_type)	`tab	here` ,
    asx
x
, zchar[ 10
    // c
    ] i64_ , repeat body ,
char[255 // @lengthOf(
]asx@calculatedFrom( """ ++ [128512]%N ++ runes_of_ascii """
    )
`crlf
line`,u128
    string_ ,
int { zchar[ 7
]_x , }  , }")).
Eval vm_compute in ("<<<M435>>>" ++ check (runes_of_ascii "// " ++ [27880; 37322]%N ++ runes_of_ascii "
packet// @lengthOf(
roots {	int64 Packet ,}
/// triple
// c
packet trueish
    { @calculatedFrom(
    """" )  msg_type @calculatedFrom(
    ""a\""b"")  ,
    // " ++ [27880; 37322]%N ++ runes_of_ascii "
    u16 trueish
, f32a	, uint64 //x
lengthOf
    @lengthOf( Foo
) , }options { repeatCount = true ; x = false
    chars=zchar[ 007]
;}")).
Eval vm_compute in ("<<<M836>>>" ++ check (runes_of_ascii "
packet
    uint8x { @leftPad( '\x00' ) float32 x_y_z @lengthOf( x ) `a\` ,	int32
Header,match
    asx as
    string_ {"""" :
    lengthOf, 1 : uint8x , } , repeat /// triple
a1 { repeat
zchar[0	] Packet , // trailing space 
char falsey@calculatedFrom( /// triple
""1""), }
,
    } // " ++ [128512]%N ++ runes_of_ascii " emoji")).
Eval vm_compute in ("<<<M4095>>>" ++ check (runes_of_ascii "options {
    Foo = true;
}

packet u128 {
    @calculatedFrom(""x y"")
    lengthOf @lengthOf(msg_type) `tab	here`,
    asx x,
    zchar[10] i64_,
    repeat body,
    char[255] asx @calculatedFrom(""" ++ [128512]%N ++ runes_of_ascii """) `crlf
    line`,
    u128 string_,
    int {
        zchar[7] _x,
    },
}")).
Eval vm_compute in ("<<<M702>>>" ++ check (runes_of_ascii "packet float { @leftPad (' '
)
@calculatedFrom(// `tick` ""quote"" 'q'
""a\""b"")@calculatedFrom( ""packet""
) u32 msg_type
//
// a // b
`" ++ [233]%N ++ runes_of_ascii "`	,
@tag( 00 ) @rightPad (' ' )
    repeat chars
metadata// " ++ [128512]%N ++ runes_of_ascii " emoji
,@rightPad ('0'	) tag string_	, repeat f64 int `u8 x,`  , }
// c
")).
Eval vm_compute in ("<<<M1540>>>" ++ check (runes_of_ascii "packet
//	t
// trailing space 
_x {
// packet A { u8 x, }
// c
char[
3
    ] u8x @lengthOf(
u8x ) MetaData @calculatedFrom(""" ++ [128512]%N ++ runes_of_ascii """ // @lengthOf(
)
i16	Foo
@lengthOf(	string_
    )`doc`	, repeat	i64 metadata , @lengthOf( string_
) i8 // c
u  `line1
line2`	,
}
")).
Eval vm_compute in ("<<<M1508>>>" ++ check (runes_of_ascii "packet
//	t
// trailing space 
_x {
// packet A { u8 x, }
// c
char[
3 3
    ] u8x @lengthOf(
u8x ) , @calculatedFrom(""" ++ [128512]%N ++ runes_of_ascii """ // @lengthOf(
)
i16	Foo
@lengthOf(	string_
    )`doc`	, repeat	i64 metadata , @lengthOf( string_
) i8 // c
u  `line1
line2`	,
}
")).
Eval vm_compute in ("<<<M1666>>>" ++ check (runes_of_ascii "packet
//	t
// trailing spa'ce 
_x {
// packet A { u8 x, }
// c
char[
3
    ] u8x @lengthOf(
u8x ) , @calculatedFrom(""" ++ [128512]%N ++ runes_of_ascii """ // @lengthOf(
)
i16	Foo
@lengthOf(	string_
    )`doc`	, repeat	i64 metadata , @lengthOf( string_
) i8 // c
u  `line1
line2`	,
}
")).
Eval vm_compute in ("<<<M1594>>>" ++ check (runes_of_ascii "packet
//	t
// trailing space 
_x {
// packet A { u8 x, }
// c
char[
3
    ] u8x @lengthOf(
u8x ) , @calculatedFrom(""" ++ [128512]%N ++ runes_of_ascii """ // @lengthOf(
)
i16	Foo
@lengthOf(	string_
    )`doc`	, i64	repeat metadata , @lengthOf( string_
) i8 // c
u  `line1
line2`	,
}
")).
Eval vm_compute in ("<<<M1647>>>" ++ check (runes_of_ascii "packet
//	t
// trailing space 
_x {
// packet A { u8 x, }
// c
char[
3
    ] u8x @lengthOf(
u8x ) , @calculatedFrom(""" ++ [128512]%N ++ runes_of_ascii """ // @lengthOf(
)
i16	Foo
@lengthOf(	string_
    )`doc`	, repeat	i64 metadata , @lengthOf( string_
) i8 // c
u  `line1
line2`	,

")).
Eval vm_compute in ("<<<M1592>>>" ++ check (runes_of_ascii "packet
//	t
// trailing space 
_x {
// packet A { u8 x, }
// c
char[
3
    ] u8x @lengthOf(
u8x ) , @calculatedFrom(""" ++ [128512]%N ++ runes_of_ascii """ // @lengthOf(
)
i16	Foo
@lengthOf(	string_
    )`doc`	, 	i64 metadata , @lengthOf( string_
) i8 // c
u  `line1
line2`	,
}
")).
Eval vm_compute in ("<<<M3266>>>" ++ check (runes_of_ascii "// top
MetaData // c0a
  // c0b
float // c1
{
    // c2
float64 // c3
charz // c4a
  // c4b
`
`
    // c5
,
    // c6
} root // c8
packet // c9a
  // c9b
chars
    // c10
{ @rightPad ( '0' // c14
)
    // c15
Foo
    // c16
,
    // c17
} ")).
Eval vm_compute in ("<<<M1171>>>" ++ check (runes_of_ascii "root  packet
msg_type {
// @lengthOf(
//	t
string repeatCount `crlf
line` , i8	Foo @lengthOf( MetaDataX )
    , @tag( 10 ) @calculatedFrom(
    ""abc"" ) @lengthOf( falsey
    ) repeat stringy pack `doc`,  } options { As =65535}")).
Eval vm_compute in ("<<<M1072>>>" ++ check (runes_of_ascii "/// triple
packet trueish{ // packet A { u8 x, }
repeat int`crlf
line`
    ,
    repeat
    int32 // c
o
, } packet
    string_ {
T Logon ,i64_	,
string_
, char[ 10
]zchar@lengthOf(
    u128/// triple
)`say ""hi""`
,
}")).
Eval vm_compute in ("<<<M1220>>>" ++ check (runes_of_ascii "MetaData a1 {char[]  repeatCount
    `it's`, char[  4294967296 // @lengthOf(
]
    i8i8// c
`// not a comment`
    // packet A { u8 x, }
    ,
// @lengthOf(
/// triple
float32 zchar , } packet calculatedFrom{ }
")).
Eval vm_compute in ("<<<M1845>>>" ++ check (runes_of_ascii "options { trueish = ""`tick`"" ; string_= """ ++ [233]%N ++ runes_of_ascii "t" ++ [233]%N ++ runes_of_ascii """
    // c
    } root
    packet body { stringy @calculatedFrom(
""a	b"" ) `line1
line2` , }
packet Logon {
    @leftPad(
    ' ' @tag ) //	t
u16 string_ `u8 x,` ,
}
")).
Eval vm_compute in ("<<<M1827>>>" ++ check (runes_of_ascii "options { trueish = ""`tick`"" ; string_= """ ++ [233]%N ++ runes_of_ascii "t" ++ [233]%N ++ runes_of_ascii """
    // c
    } root
    packet body { stringy @calculatedFrom(
""a	b"" ) `line1
line2` , }
packet Logon {
    @leftPad(
    ' ' ) //	t
u16 string_ `u8 x,` , ,
}
")).
Eval vm_compute in ("<<<M1693>>>" ++ check (runes_of_ascii "options { trueish = ; ""`tick`"" string_= """ ++ [233]%N ++ runes_of_ascii "t" ++ [233]%N ++ runes_of_ascii """
    // c
    } root
    packet body { stringy @calculatedFrom(
""a	b"" ) `line1
line2` , }
packet Logon {
    @leftPad(
    ' ' ) //	t
u16 string_ `u8 x,` ,
}
")).
Eval vm_compute in ("<<<M1833>>>" ++ check (runes_of_ascii "options { trueish = ""`tick`"" ; string_= """ ++ [233]%N ++ runes_of_ascii "t" ++ [233]%N ++ runes_of_ascii """
    // c
    } root
    packet body { stringy @calculatedFrom(
""a	b"" ) `line1
line2` , }
packet Logon {
    @leftPad(
    ' ' ) //	t
u16 string_ `u8 x,` ,
)
")).
Eval vm_compute in ("<<<M1721>>>" ++ check (runes_of_ascii "options { trueish = ""`tick`"" ; string_= """ ++ [233]%N ++ runes_of_ascii "t" ++ [233]%N ++ runes_of_ascii """
    // c
    } 
    packet body { stringy @calculatedFrom(
""a	b"" ) `line1
line2` , }
packet Logon {
    @leftPad(
    ' ' ) //	t
u16 string_ `u8 x,` ,
}
")).
Eval vm_compute in ("<<<M3998>>>" ++ check (runes_of_ascii "

  packet 
/// triple
	/// triple
	As	{ }  MetaData charz { i64
falsey , A  msg_type
, char[
    3]

trueish

    `say ""hi""`
	,
    float32  calculatedFrom
	,

    string i8i8

    ,

}
")).
Eval vm_compute in ("<<<M886>>>" ++ check (runes_of_ascii "packet tag	{ BodyLength
    // @lengthOf(
    @lengthOf( options1
    )
,} options
{trueish
    = ""a\\""	matchKey
= 0123456789 // trailing space 
;
    BodyLength = '\x00' charz = """ ++ [233]%N ++ runes_of_ascii "t" ++ [233]%N ++ runes_of_ascii """
; }
")).
Eval vm_compute in ("<<<M830>>>" ++ check (runes_of_ascii "
MetaData u8x {
    i64_ u128`tab	here` ,char[]
asx ,
    u // packet A { u8 x, }
BodyLength ,u64  uint8x ,
    _x
rootA //x
,}
    MetaData trueish { float64 asx// c
, /// triple
}")).
Eval vm_compute in ("<<<M3713>>>" ++ check (runes_of_ascii "options {
    packetx = ' '
}

root packet i64_ {
    string Foo,
    @tag(3)
    u128 @calculatedFrom(""\" ++ [233]%N ++ runes_of_ascii """) `
    `,
    repeat char[00] Logon,
    repeat crc lengthOf `a\`,
}")).
Eval vm_compute in ("<<<M1586>>>" ++ check (runes_of_ascii "packet
//	t
// trailing space 
_x {
// packet A { u8 x, }
// c
char[
3
    ] u8x @lengthOf(
u8x ) , @calculatedFrom(""" ++ [128512]%N ++ runes_of_ascii """ // @lengthOf(
)
i16	Foo
@lengthOf(	string_
    )")).
Eval vm_compute in ("<<<M2332>>>" ++ check (runes_of_ascii "// c
packet x { @lengthOf( metadata metadata ) repeat lengthOf
,a1{
trueish	,// c
repeat//	t
MetaDataX , } , zchar[
    42	] rootA // `tick` ""quote"" 'q'
,
    }
")).
Eval vm_compute in ("<<<M2335>>>" ++ check (runes_of_ascii "// c
packet x { @lengthOf( metadata ) repeat lengthOf
'\x01',a1{
trueish	,// c
repeat//	t
MetaDataX , } , zchar[
    42	] rootA // `tick` ""quote"" 'q'
,
    }
")).
Eval vm_compute in ("<<<M2155>>>" ++ check (runes_of_ascii "options{
_x
= true
} options
{ o	= /// triple
false
    ; chars
= ""\n"" } root root packet	Pad
/// triple
// packet A { u8 x, }
{	chars
    // a // b
    ,}")).
Eval vm_compute in ("<<<M2085>>>" ++ check (runes_of_ascii "options{
_x _x
= true
} options
{ o	= /// triple
false
    ; chars
= ""\n"" } root packet	Pad
/// triple
// packet A { u8 x, }
{	chars
    // a // b
    ,}")).
Eval vm_compute in ("<<<M2319>>>" ++ check (runes_of_ascii "// c
packet x { @lengthOf( metadata ) repeat lengthOf
,a1{
trueish	,// c
MetaDataX//	t
repeat , } , zchar[
    42	] rootA // `tick` ""quote"" 'q'
,
    }
")).
Eval vm_compute in ("<<<M2199>>>" ++ check (runes_of_ascii "options{
_x
= true
} options
{ o	= /// triple
false
    ; chars
= '""\n"" } root packet	Pad
/// triple
// packet A { u8 x, }
{	chars
    // a // b
    ,}")).
Eval vm_compute in ("<<<M2151>>>" ++ check (runes_of_ascii "options{
_x
= true
} options
{ o	= /// triple
false
    ; chars
= ""\n"" root } packet	Pad
/// triple
// packet A { u8 x, }
{	chars
    // a // b
    ,}")).
Eval vm_compute in ("<<<M4059>>>" ++ check (runes_of_ascii "packet A {
    Inner {
        match k as n {
            [
                1, 22, 007, 4, 5,
                66
            ] : B,
        },
    },
}")).
Eval vm_compute in ("<<<M2394>>>" ++ check (runes_of_ascii "// c
packet x { @lengthOf( metadata )  lengthOf
,a1{
trueish	,// c
repeat//	t
MetaDataX , } , zchar[
    42	] rootA // `tick` ""quote"" 'q'
,
    }
")).
Eval vm_compute in ("<<<M2076>>>" ++ check (runes_of_ascii "{
_x
= true
} options
{ o	= /// triple
false
    ; chars
= ""\n"" } root packet	Pad
/// triple
// packet A { u8 x, }
{	chars
    // a // b
    ,}")).
Eval vm_compute in ("<<<M1785>>>" ++ check (runes_of_ascii "options { trueish = ""`tick`"" ; string_= """ ++ [233]%N ++ runes_of_ascii "t" ++ [233]%N ++ runes_of_ascii """
    // c
    } root
    packet body { stringy @calculatedFrom(
""a	b"" ) `line1
line2` , }
packet")).
Eval vm_compute in ("<<<M4185>>>" ++ check (runes_of_ascii "packet A {
    match k as n {
        [
            1, 007, 5, 7, ""bb"",
            ""d"", ""f"", ""h""
        ] : B,
        2 : C,
    },
}")).
Eval vm_compute in ("<<<M1770>>>" ++ check (runes_of_ascii "options { trueish = ""`tick`"" ; string_= """ ++ [233]%N ++ runes_of_ascii "t" ++ [233]%N ++ runes_of_ascii """
    // c
    } root
    packet body { stringy @calculatedFrom(
""a	b"" ) `line1
line2`")).
Eval vm_compute in ("<<<M1275>>>" ++ check (runes_of_ascii "packet Z9_
{	}packet f32a	{
repeat metadata
//	t
// " ++ [27880; 37322]%N ++ runes_of_ascii "
`
` , charz // @lengthOf(
@calculatedFrom( ""a\\"" ) , i64
charz , }
")).
Eval vm_compute in ("<<<M4201>>>" ++ check (runes_of_ascii "

  packet A
{
    Inner 
{ 
match  k 
as

    n
    { [ 1  , 
22 ,  007 
] : B
    ,

    }

    ,
    }	,

    }")).
Eval vm_compute in ("<<<M3321>>>" ++ check (runes_of_ascii "root packet matchKey { zchar[
// c
3 ] pack @calculatedFrom( ""a	b"" ) `doc` , } options { } MetaData A { int8 msg_type , }")).
Eval vm_compute in ("<<<M3353>>>" ++ check (runes_of_ascii "root packet matchKey { zchar[ 3 ] pack @calculatedFrom( ""a	b"" ) `doc` , } options { } MetaData A { int8
// c
msg_type , }")).
Eval vm_compute in ("<<<M1474>>>" ++ check (runes_of_ascii "
packet
    false" ++ [233]%N ++ runes_of_ascii "y { Header@calculatedFrom(""packet""  ) , char[
    0123456789 ] packetx
    , } // `tick` ""quote"" 'q'")).
Eval vm_compute in ("<<<M3022>>>" ++ check (runes_of_ascii "packet A {
    Inner {
        u8 x `a
    b
  c`,
        Deep {
            u8 y `a
    b
  c`,
        },
    },
}")).
Eval vm_compute in ("<<<M4146>>>" ++ check (runes_of_ascii "packet
chars
{

}

    packet	// c
  MetaDataX  {
@tag(
	42

    )

i16	string_	,
repeat
	x`say ""hi""`	, }
")).
Eval vm_compute in ("<<<M2978>>>" ++ check (runes_of_ascii "packet A {
  match k as n {
    [""a"", ""bb"", ""c c"", ""d"", ""e"", ""f"", ""g"", ""h"", ""i"", ""j"", ""k""] : B
    2 : C
  },
}")).
Eval vm_compute in ("<<<M1026>>>" ++ check (runes_of_ascii "packet
// " ++ [128512]%N ++ runes_of_ascii " emoji
// @lengthOf(
Header
    {	}
MetaData
Packet {
uint64 As `say ""hi""`,	}
// trailing space 
")).
Eval vm_compute in ("<<<M48>>>" ++ check (runes_of_ascii "  options { zchar =  007
Header =
char[// c
007 ] ;
    lengthOf= char[
7 ]; chars =//
"""" // a // b
;
}
")).
Eval vm_compute in ("<<<M1080>>>" ++ check (runes_of_ascii "root packet Pad {
float64
// a // b
//x
Pad@lengthOf(repeatCount)
,@lengthOf( _x ) BodyLength o
,
}
")).
Eval vm_compute in ("<<<M1546>>>" ++ check (runes_of_ascii "packet
//	t
// trailing space 
_x {
// packet A { u8 x, }
// c
char[
3
    ] u8x @lengthOf(
u8x ) ,")).
Eval vm_compute in ("<<<M102>>>" ++ check (runes_of_ascii "
options {
a1/// triple
=""1""
;
trueish	=  i64 ; stringy=""" ++ [128512]%N ++ runes_of_ascii """
; u8x
= 255 ;
u128
=
""`tick`""; }

")).
Eval vm_compute in ("<<<M2946>>>" ++ check (runes_of_ascii "packet A {
  match k as n {
    [""a"", ""bb"", 007, ""d"", ""e"", 66, ""g"", ""h""] : B,
    2 : C
  },
}")).
Eval vm_compute in ("<<<M1531>>>" ++ check (runes_of_ascii "packet
//	t
// trailing space 
_x {
// packet A { u8 x, }
// c
char[
3
    ] u8x @lengthOf(")).
Eval vm_compute in ("<<<M4053>>>" ++ check (runes_of_ascii "options {
    x_y_z = ""CRC32"";
}

MetaData matchKey {
    char[] u `u8 x,`,
}

options {
}")).
Eval vm_compute in ("<<<M3289>>>" ++ check (runes_of_ascii "MetaData float { float64 charz `
` , } root packet chars // c
{ @rightPad ( '0' ) Foo , }")).
Eval vm_compute in ("<<<M3500>>>" ++ check (runes_of_ascii "packet chars { } packet MetaDataX { @tag(
// c
42 ) i16 string_ , repeat x `say ""hi""` , }")).
Eval vm_compute in ("<<<M2282>>>" ++ check (runes_of_ascii "options
{ } options { BodyLength= u16 Header= f64 ; u128 =
    true
    ; ; } // a // b")).
Eval vm_compute in ("<<<M2929>>>" ++ check (runes_of_ascii "packet A {
  match k as n {
    [""a"", 22, ""c c"", 4, ""e"", 66, ""g""] : B,
    2 : C
  },
}")).
Eval vm_compute in ("<<<M2273>>>" ++ check (runes_of_ascii "options
{ } options { BodyLength= u16 Header= f64 ; u128 true
    =
    ; } // a // b")).
Eval vm_compute in ("<<<M3239>>>" ++ check (runes_of_ascii "packet metadata { Logon { A `" ++ [28040; 24687; 31867; 22411]%N ++ runes_of_ascii "` , tag o , } , zchar // c
len `// not a comment` , }")).
Eval vm_compute in ("<<<M3053>>>" ++ check (runes_of_ascii "packet A {
    u32 crc @calculatedFrom(""x\
y""),
    @calculatedFrom(""x\
y"") u8 y,
}")).
Eval vm_compute in ("<<<M3459>>>" ++ check (runes_of_ascii "packet o { repeat Logon uint8x , } options { asx = zchar[ 3 ] stringy // c
= '\x00' }")).
Eval vm_compute in ("<<<M2256>>>" ++ check (runes_of_ascii "options
{ } options { BodyLength= u16 Header=  ; u128 =
    true
    ; } // a // b")).
Eval vm_compute in ("<<<M3404>>>" ++ check (runes_of_ascii "MetaData body { i64 pack `it's` // c
, } packet stringy { int16 calculatedFrom , }")).
Eval vm_compute in ("<<<M4589>>>" ++ check (runes_of_ascii "packet zchar {
    @lengthOf(Header)
    f32 string_ `a\`,
}// packet A { u8 x, }")).
Eval vm_compute in ("<<<M4108>>>" ++ check (runes_of_ascii "packet A {
    match k as n {
        [1, 22, 007] : B,
        2 : C,
    },
}")).
Eval vm_compute in ("<<<M4480>>>" ++ check (runes_of_ascii "packet// c
    x
    {

@rightPad
    (  ) repeat
	roots Logon`doc` 
,

}
")).
Eval vm_compute in ("<<<M2897>>>" ++ check (runes_of_ascii "packet A {
  match k as n {
    [1, 22, 007, 4, 5] : B,
    2 : C
  },
}")).
Eval vm_compute in ("<<<M2878>>>" ++ check (runes_of_ascii "packet A {
  match k as n {
    [""a"", 22, ""c c""] : B
    2 : C
  },
}")).
Eval vm_compute in ("<<<M4468>>>" ++ check (runes_of_ascii "  packet
x
{	@rightPad	(
	)	// c
repeat

roots
	Logon`doc`

,  }
")).
Eval vm_compute in ("<<<M3790>>>" ++ check (runes_of_ascii "  root	packet f32a 
{ 
@tag(
    42
) char
	Header
    `
`	, 
}
")).
Eval vm_compute in ("<<<M2867>>>" ++ check (runes_of_ascii "packet A {
  match k as n {
    [1, ""bb""] : B
    2 : C
  },
}")).
Eval vm_compute in ("<<<M3387>>>" ++ check (runes_of_ascii "packet x { @rightPad ( ) repeat roots Logon `doc` , } // c
")).
Eval vm_compute in ("<<<M3379>>>" ++ check (runes_of_ascii "packet x { @rightPad ( ) repeat roots // c
Logon `doc` , }")).
Eval vm_compute in ("<<<M2345>>>" ++ check (runes_of_ascii "// c
packet x { @lengthOf( metadata ) repeat lengthOf
,")).
Eval vm_compute in ("<<<M327>>>" ++ check (runes_of_ascii "options {
_x = 0
; As = zchar[ 4294967296 ] ; } //x")).
Eval vm_compute in ("<<<M2589>>>" ++ check (runes_of_ascii "packet A { x @lengthOf(y) @calculatedFrom(""c""), }")).
Eval vm_compute in ("<<<M801>>>" ++ check (runes_of_ascii "MetaData charz {
//
//	t
f32a stringy
    ,	}
")).
Eval vm_compute in ("<<<M4435>>>" ++ check (runes_of_ascii "

  //	t
packet
	Packet {  u64 tag
	,
    }
")).
Eval vm_compute in ("<<<M1265>>>" ++ check (runes_of_ascii "  options //
{ u8x
=
    zchar[ 0  ]
    }")).
Eval vm_compute in ("<<<M3187>>>" ++ check (runes_of_ascii "// c
root packet u128 { chars `it's` , }")).
Eval vm_compute in ("<<<M1059>>>" ++ check (runes_of_ascii "MetaData uint8x // trailing space 
{	}")).
Eval vm_compute in ("<<<M2616>>>" ++ check (runes_of_ascii "packet A { match k as n { x : B }, }")).
Eval vm_compute in ("<<<M3176>>>" ++ check (runes_of_ascii "root // a
 packet // b
 A // c
 { }")).
Eval vm_compute in ("<<<M682>>>" ++ check (runes_of_ascii "  MetaData
    options1  {
    }
")).
Eval vm_compute in ("<<<M3042>>>" ++ check (runes_of_ascii "root packet A {
    u8 x `
x`,
}")).
Eval vm_compute in ("<<<M2760>>>" ++ check (runes_of_ascii "RhCe{*)SOkbY3jNAmCPh}|2~2jWOF^")).
Eval vm_compute in ("<<<M3025>>>" ++ check (runes_of_ascii "packet A {
    u8 x `a

b`,
}")).
Eval vm_compute in ("<<<M2786>>>" ++ check (runes_of_ascii "MetaData zchar[ repeatCount")).
Eval vm_compute in ("<<<M1137>>>" ++ check (runes_of_ascii "packet
i8i8
    { }
// c
")).
Eval vm_compute in ("<<<M2710>>>" ++ check (runes_of_ascii "-t" ++ [65533]%N ++ runes_of_ascii " =" ++ [65533; 65533; 65533; 1092; 65533; 65533; 65533; 3; 65533; 0]%N ++ runes_of_ascii "'H" ++ [65533; 65533]%N ++ runes_of_ascii "d" ++ [65533]%N ++ runes_of_ascii "" ++ [65533; 65533]%N)).
Eval vm_compute in ("<<<M700>>>" ++ check (runes_of_ascii "  MetaData crc { } 	 ")).
Eval vm_compute in ("<<<M3471>>>" ++ check (runes_of_ascii "
// c
MetaData o { }")).
Eval vm_compute in ("<<<M3145>>>" ++ check (runes_of_ascii "packet A {
}
// c x")).
Eval vm_compute in ("<<<M3071>>>" ++ check (runes_of_ascii "// c" ++ [160]%N ++ runes_of_ascii "
packet A {
}")).
Eval vm_compute in ("<<<M4492>>>" ++ check (runes_of_ascii "packet packetx {
}")).
Eval vm_compute in ("<<<M3138>>>" ++ check (runes_of_ascii "packet A {
}// c" ++ [6158]%N)).
Eval vm_compute in ("<<<M4303>>>" ++ check (runes_of_ascii "  options{  }
")).
Eval vm_compute in ("<<<M2553>>>" ++ check ([65279]%N ++ runes_of_ascii "packet A {}")).
Eval vm_compute in ("<<<M2837>>>" ++ check (runes_of_ascii "xc" ++ [65533; 65533; 65533]%N ++ runes_of_ascii " " ++ [65533; 1320]%N ++ runes_of_ascii "9" ++ [25]%N)).
Eval vm_compute in ("<<<M1406>>>" ++ check (runes_of_ascii "
packet")).
Eval vm_compute in ("<<<M2515>>>" ++ check (runes_of_ascii """a\b""")).
Eval vm_compute in ("<<<M2838>>>" ++ check (runes_of_ascii "{yr*k")).
Eval vm_compute in ("<<<M2510>>>" ++ check (runes_of_ascii """a\""")).
Eval vm_compute in ("<<<M2524>>>" ++ check (runes_of_ascii "`\`")).
Eval vm_compute in ("<<<M2508>>>" ++ check (runes_of_ascii """a")).
Eval vm_compute in ("<<<M2791>>>" ++ check ([65533]%N)).
