From FP Require Import Lexer Parser ShowPT Digest Formatter.
From Coq Require Import String List NArith.
Import ListNotations.
Open Scope string_scope.
Set Printing Width 100000000.
Set Printing Depth 100000000.
Definition show_fres (r : fres) : string :=
  match r with
  | FOk s => "OK:" ++ sh_escaped s ""
  | FErr s => "ERR:" ++ sh_escaped s ""
  | FPanic p => "PANIC:" ++ p
  end.
Definition check (rs : list rune) : string := digest (show_fres (format_res rs)).
Definition full (rs : list rune) : string := show_fres (format_res rs).
Eval vm_compute in ("<<<M434>>>" ++ check (runes_of_ascii "  packet u { repeat Packet
    `
` , string	x @calculatedFrom( ""x y"" )
`say ""hi""` , @tag( 42) repeat
stringy
, match len	as
    /// triple
    u {
[7 ,""it's""// " ++ [27880; 37322]%N ++ runes_of_ascii "
, 10 ,""a\\"" , 0, ""1""
] :float ,
    ""a	b""
: Foo , }
// `tick` ""quote"" 'q'
// c
, float ,repeat calculatedFrom
{ uint64
    body
,
    char[] uint8x
, int32 len ,f32a
@calculatedFrom( """ ++ [28040; 24687]%N ++ runes_of_ascii """
)
, }	, @leftPad ( /// triple
'\x00'
    )
    string
    body , match// " ++ [128512]%N ++ runes_of_ascii " emoji
msg_type as
    As	{	[ """ ++ [128512]%N ++ runes_of_ascii """ ,
    // packet A { u8 x, }
    ""abc""
// @lengthOf(
/// triple
]
    : msg_type // @lengthOf(
, [0123456789
    // trailing space 
    ,  10 ]:
A, ""1"": Foo , 7:
    string_ ,	""`tick`"" :	string_ 007	: int, }
,
}
    packet BodyLength
    {// trailing space 
match crc as Pad// `tick` ""quote"" 'q'
{
    [0123456789 , ""\n"" , ""x y"" ,
""\n"" , 7
    , ""1"" ] : // @lengthOf(
u8x
, [ 00
, ""abc"", """ ++ [128512]%N ++ runes_of_ascii """, ""a\\"" ,65535 ]:// " ++ [128512]%N ++ runes_of_ascii " emoji
pack ,	},
    @tag( 0 ) leftPad { char[]
    options1 @lengthOf(	asx
// a // b
// " ++ [128512]%N ++ runes_of_ascii " emoji
) ,char[ 0
] /// triple
As `crlf
line` ,	i64  crc ,
}
,
float64 asx , @leftPad ( // `tick` ""quote"" 'q'
' ' ) T@calculatedFrom( ""abc""),  }packet As {
    // " ++ [27880; 37322]%N ++ runes_of_ascii "
    string i64_ @calculatedFrom( ""\n"")
    ,@lengthOf( i8i8 )  @lengthOf( asx ) @rightPad('0'/// triple
)repeat uint64	MetaDataX,tag zchar /// triple
, @calculatedFrom( ""// no comment"") char[]u @calculatedFrom(// packet A { u8 x, }
""a\\""
// " ++ [27880; 37322]%N ++ runes_of_ascii "
//x
) `u8 x,`	, // trailing space 
@calculatedFrom(""" ++ [233]%N ++ runes_of_ascii "t" ++ [233]%N ++ runes_of_ascii """ ) // @lengthOf(
char[//
10 ]
repeatCount `
` , } packet f32a {
    Header  o ,
    } packet chars { @rightPad( '0' ) match
u128  as u8x {3 : i8i8
// `tick` ""quote"" 'q'
//	t
,
    255: charz [ 4294967296 , ""x y"",""" ++ [233]%N ++ runes_of_ascii "t" ++ [233]%N ++ runes_of_ascii """ ,
    ""{,}"" ]	:
x	,
    65535 : len }
, @lengthOf( u8x // " ++ [128512]%N ++ runes_of_ascii " emoji
)i16 Foo@lengthOf(  u8x // packet A { u8 x, }
),
@lengthOf( _x)@leftPad ( ' ' )
char[
    // `tick` ""quote"" 'q'
    255  ]
tag
    @calculatedFrom( ""it's"" )
// trailing space 
//
, @calculatedFrom("""" ) float32 i64_ `line1
line2` , repeat string
    roots,string // trailing space 
float, @lengthOf( Header ) @tag( 007
    ) @calculatedFrom( ""abc"" ) match
zchar  as
u8x { ""a	b"" : charz , 0 :	len ,
} ,zchar[ 00]MetaDataX
    @calculatedFrom(
    // c
    ""a\""b""
) `two words` ,} // `tick` ""quote"" 'q'")).
Eval vm_compute in ("<<<M3816>>>" ++ check (runes_of_ascii "
options 
      // c
  { chars 
=

'0';

Pad	// " ++ [27880; 37322]%N ++ runes_of_ascii "

  =

    42

;

}  packet
roots
    {
@calculatedFrom( """ ++ [28040; 24687]%N ++ runes_of_ascii """
	)
@calculatedFrom(  // a // b
    ""// no comment"")chars,} 
packet	body{

    @lengthOf(x)
	match msg_type
	as
    x_y_z{

0123456789 
:	uint8x,// packet A { u8 x, }
    ""`tick`"" 
:

    i64_	// packet A { u8 x, }
00//
  :
a1""{,}"" : 
Header,
[
255

    ]
:  falsey
	,
}
,	@calculatedFrom(

    ""\n""
	)  @rightPad
	( )

    @lengthOf(
BodyLength  )
i16 
A
@lengthOf(
    uint8x)

    ,
char[] Foo
    @lengthOf( T)
    ,
@leftPad (

    '0' ) _x
	{
	Logon	// trailing space 
  @lengthOf( //x
		u ),
}	,@leftPad
    (  '\x00'

    ) char[
	4294967296

] trueish
@calculatedFrom( ""x y""
    ) `" ++ [233]%N ++ runes_of_ascii "` 
,
    @rightPad  (
' '	) 
      // packet A { u8 x, }
    	match msg_type
as

pack
{
    [	""a\""b""
	,
""`tick`"" 
]
    :

    asx

,""x y"":a1	// `tick` ""quote"" 'q'
		,""" ++ [128512]%N ++ runes_of_ascii """:  MetaDataX  42
	: Foo 
007//x
      :trueish
/// triple

  // @lengthOf(
	""it's"" 
: string_ },  repeat Header  `
`	,	@tag(
	00 ) f32 options1
@lengthOf(
calculatedFrom
    ), zchar[255	]
Logon	, }

    root
packet packetx  {
@lengthOf(

calculatedFrom
    )
metadata
x_y_z  ,
	}

    packet leftPad {

match

    roots
as  falsey  { 
""x y""	: u
    ,
""x y""

:
msg_type  }
,  repeat  int64

    leftPad  ,
u  @calculatedFrom( ""x y"") 
`tab	here` ,

    @calculatedFrom(""packet""
)
	match 
    // " ++ [27880; 37322]%N ++ runes_of_ascii "
    // `tick` ""quote"" 'q'
    matchKey as BodyLength{	255:

a1
	007 :  T ,  // `tick` ""quote"" 'q'
    ""`tick`""
//	t
// a // b
    :rootA ,
[

    ""a\\""
, 1  ,
255

, 7	// packet A { u8 x, }
    	,
1

,
    ""it's""
	,	1 ,42  ] :
    x_y_z

    ,
42

    :
i64_//x
  ,
}//
,

    float64

x_y_z
	`doc`	,uint8x//x
,string float 
    //x
  	// " ++ [27880; 37322]%N ++ runes_of_ascii "
    @calculatedFrom(  ""\n""	) , 
@lengthOf( 
        // `tick` ""quote"" 'q'
o) stringy  //
@lengthOf(
	rootA

)
	, }  //x")).
Eval vm_compute in ("<<<M538>>>" ++ check (runes_of_ascii "options
    // c
    {
    chars =
    '0' ; Pad // " ++ [27880; 37322]%N ++ runes_of_ascii "
= 42 ;
    } packet
    roots
{@calculatedFrom( """ ++ [28040; 24687]%N ++ runes_of_ascii """ ) @calculatedFrom(// a // b
""// no comment"" ) chars, }
    packet body { @lengthOf( x  ) match msg_type as x_y_z { 0123456789 :  uint8x
, // packet A { u8 x, }
""`tick`"" :
i64_ // packet A { u8 x, }
00 //
:
    a1
""{,}"" :Header,	[255]	: falsey ,
}
, @calculatedFrom( ""\n"" ) @rightPad
() @lengthOf( BodyLength) i16	A @lengthOf( uint8x ),char[] Foo @lengthOf(
T )
, @leftPad
    (  '0' ) _x {Logon// trailing space 
@lengthOf( //x
u
), } , @leftPad	( '\x00'
) char[ 4294967296 ]
    trueish @calculatedFrom(""x y"" )
`" ++ [233]%N ++ runes_of_ascii "` ,@rightPad	(
    ' ')
    // packet A { u8 x, }
    match msg_type as pack {[
""a\""b"" , ""`tick`""]	: asx
,""x y"" :  a1 // `tick` ""quote"" 'q'
,
    """ ++ [128512]%N ++ runes_of_ascii """	:
    MetaDataX 42 :Foo	007//x
: trueish
/// triple
// @lengthOf(
""it's"" : string_	}	, repeat Header`
`, @tag(
00) f32
options1 @lengthOf( calculatedFrom) ,zchar[255 ] Logon, } root
packet packetx { @lengthOf(	calculatedFrom ) metadata	x_y_z, }
packet leftPad { match roots  as
falsey {
""x y"" : u ,""x y"" : msg_type }
    ,repeat int64 leftPad
,
u @calculatedFrom( ""x y"" ) `tab	here`
, @calculatedFrom(
""packet"" ) match
// " ++ [27880; 37322]%N ++ runes_of_ascii "
// `tick` ""quote"" 'q'
matchKey as BodyLength{ 255 :
a1 007: T , // `tick` ""quote"" 'q'
""`tick`""
//	t
// a // b
:
rootA, [ ""a\\""	,
1
,255,7 // packet A { u8 x, }
, 1 , ""it's""
, 1, 42]
:x_y_z
,
    42 :
i64_//x
, }//
, float64 x_y_z
    `doc`
,
    uint8x //x
,string
    float
//x
// " ++ [27880; 37322]%N ++ runes_of_ascii "
@calculatedFrom( ""\n"") ,
@lengthOf(
    // `tick` ""quote"" 'q'
    o
)stringy //
@lengthOf(
rootA ) , } //x")).
Eval vm_compute in ("<<<M1361>>>" ++ check (runes_of_ascii "options { u= char[] }	MetaData u// " ++ [27880; 37322]%N ++ runes_of_ascii "
{  char[
0 ] Logon , char[]x_y_z , string string_ // @lengthOf(
,u64 uint8x ,
}
    packet body
    {char[00 ] rootA	, T {stringy// packet A { u8 x, }
{ repeat
char[]
//
//x
metadata `" ++ [28040; 24687; 31867; 22411]%N ++ runes_of_ascii "`
    ,
match i8i8// packet A { u8 x, }
as
BodyLength {
0:
BodyLength
    //	t
    ,
},// `tick` ""quote"" 'q'
packetx
@calculatedFrom( ""CRC32"" ) `
` , }, int32 falsey`a\`,
    } , //	t
match // a // b
Z9_ as calculatedFrom { 255
//	t
//	t
: As // " ++ [27880; 37322]%N ++ runes_of_ascii "
},
    // " ++ [27880; 37322]%N ++ runes_of_ascii "
    Logon `doc` , } root  packet
stringy
    {match x
as T {
    65535 : Header
,[ ""a\""b""
, ""1"" ]// " ++ [128512]%N ++ runes_of_ascii " emoji
:Z9_ ,
//
//
}
,char[]/// triple
zchar @lengthOf( lengthOf )
//x
// @lengthOf(
`two words`
,options1 { repeat int
Header `` , i8
    Logon @calculatedFrom( ""a	b""
    )  `" ++ [28040; 24687; 31867; 22411]%N ++ runes_of_ascii "` , // @lengthOf(
} , uint32 roots `// not a comment`
,
len
//
//
{ match
// `tick` ""quote"" 'q'
//x
options1
    as
//x
// c
o
{65535 :  f32a , ""CRC32"" :
tag ,// @lengthOf(
4294967296
:
u8x
    , 0 : metadata
,
""a	b"" : string_}
    , char[ 65535 ]
/// triple
// " ++ [128512]%N ++ runes_of_ascii " emoji
crc  @calculatedFrom(""{,}"" ) `crlf
line`, Pad@lengthOf(
leftPad	) ,uint8
Z9_ `u8 x,`
, }	, msg_type@calculatedFrom(
"""")
,
// trailing space 
// `tick` ""quote"" 'q'
repeat u8x	,	match	metadata
as BodyLength{
    ""packet""//
:f32a 7 : int /// triple
0123456789 : x  , // `tick` ""quote"" 'q'
} , uint16 i64_ , } packet
string_{
string_ ,
/// triple
//
}
")).
Eval vm_compute in ("<<<M3647>>>" ++ check (runes_of_ascii "// top
options // c0a
  // c0b
{ LittleEndian =
    // c3
false ; // c5
ArrayPrefixLenType
    // c6
= // c7a
  // c7b
u64 // c8
; // c9a
  // c9b
FixedStringPadChar // c10
= '0' // c12
;
    // c13
} // c14
packet
    // c15
Quote // c16
{ repeat // c18
InFlags37 // c19
{ char[] // c21a
  // c21b
lastPx // c22
, // c23
} ,
    // c25
i16 // c26
tag7
    // c27
,
    // c28
char[]
    // c29
f1 // c30
,
    // c31
zchar[ // c32a
  // c32b
6 // c33
] // c34
Note , } packet Order // c39
{
    // c40
u8 Ref // c42a
  // c42b
, repeat // c44a
  // c44b
Quote , repeat // c47
string Acct
    // c49
, // c50
}
    // c51
root // c52a
  // c52b
packet // c53a
  // c53b
Heartbeat { repeat
    // c56
Quote
    // c57
, @leftPad (
    // c60
'0'
    // c61
) char[ // c63
11
    // c64
]
    // c65
OrderId // c66a
  // c66b
, zchar[ 8 // c69a
  // c69b
]
    // c70
Ref // c71a
  // c71b
, // c72a
  // c72b
u32 // c73
Flags // c74a
  // c74b
, // c75a
  // c75b
u32 // c76
Tail
    // c77
@lengthOf( Body // c79a
  // c79b
)
    // c80
, // c81
match
    // c82
Flags as
    // c84
Body { // c86
156 // c87
: // c88a
  // c88b
Order
    // c89
, // c90a
  // c90b
7
    // c91
:
    // c92
Quote // c93
,
    // c94
} // c95
, // c96a
  // c96b
} // c97
")).
Eval vm_compute in ("<<<M668>>>" ++ check (runes_of_ascii "options{// packet A { u8 x, }
uint8x =	'\x00' Foo  =
    65535 ; As
    =
""" ++ [28040; 24687]%N ++ runes_of_ascii """ } options{} // `tick` ""quote"" 'q'
root	packet i8i8
{// packet A { u8 x, }
repeat
calculatedFrom	body `" ++ [233]%N ++ runes_of_ascii "` ,	@tag( 1)
repeat lengthOf{match
asx as x// @lengthOf(
{ """ ++ [233]%N ++ runes_of_ascii "t" ++ [233]%N ++ runes_of_ascii """ : T	}
    //x
    ,	trueish @calculatedFrom( ""\n"") ,
    u32 x ,} , @rightPad ('\x00'	) i32 packetx //	t
@lengthOf(
// @lengthOf(
// " ++ [128512]%N ++ runes_of_ascii " emoji
trueish )
    , @tag( 10) repeat
asx
    { repeat int32 lengthOf , int8
repeatCount ``// a // b
,
repeatCount msg_type ,
msg_type{ Logon { charz u
    `it's` ,calculatedFrom
repeatCount `crlf
line`
    // `tick` ""quote"" 'q'
    ,
    }
, }
,
// " ++ [27880; 37322]%N ++ runes_of_ascii "
//	t
} // " ++ [128512]%N ++ runes_of_ascii " emoji
, _x { // trailing space 
match
    x_y_z
as packetx {""`tick`"" :
Pad ,
    """" : x, } , char[] T, int
,Z9_ falsey, } ,string  T
    `it's` ,@lengthOf(u128
)// @lengthOf(
u128 @calculatedFrom(""1""	)
    , u128 { float { zchar[ 00
] MetaDataX@lengthOf(// " ++ [128512]%N ++ runes_of_ascii " emoji
leftPad
) `it's` , } ,
repeat char[] tag // " ++ [128512]%N ++ runes_of_ascii " emoji
,
} ,
//x
// " ++ [128512]%N ++ runes_of_ascii " emoji
@leftPad
( '0') match A as lengthOf {""packet""
: Header 0123456789 :
leftPad ,
    ""a\""b""	: zchar ""a	b"": // `tick` ""quote"" 'q'
rootA ,
}
    ,
    string crc	, }")).
Eval vm_compute in ("<<<M477>>>" ++ check (runes_of_ascii "
MetaData
    asx
// a // b
/// triple
{
char[]	Z9_ // " ++ [128512]%N ++ runes_of_ascii " emoji
`doc` , }
    packet roots { a1 @lengthOf( string_ ) ,	char[ 0123456789 ] Logon`
` , // " ++ [128512]%N ++ runes_of_ascii " emoji
@calculatedFrom(
""`tick`""  )
i64 u128
    //
    , i32 matchKey
    `doc` ,match asx as pack { /// triple
[ 0 ] : x_y_z
0123456789 :float,
00 : packetx
65535 : crc
,	4294967296
    :a1 } , falsey
float ,  @calculatedFrom(""CRC32"") // " ++ [128512]%N ++ runes_of_ascii " emoji
@lengthOf( body ) @lengthOf( MetaDataX )// @lengthOf(
leftPad
@calculatedFrom( """ ++ [28040; 24687]%N ++ runes_of_ascii """
)
`// not a comment`,
    uint8 packetx @calculatedFrom( ""a	b"")// packet A { u8 x, }
,}  packet
    Logon	{
    } packet zchar { /// triple
Z9_
{ repeat i8 Foo	,	f64
    // " ++ [128512]%N ++ runes_of_ascii " emoji
    falsey
`tab	here` // " ++ [27880; 37322]%N ++ runes_of_ascii "
,
match  msg_type as As{
255: roots
, [ 4294967296, 7
    , ""`tick`""
, 65535	] :
metadata, """ ++ [233]%N ++ runes_of_ascii "t" ++ [233]%N ++ runes_of_ascii """: x_y_z ""`tick`"" : x_y_z , [
    42 , ""CRC32"" , //x
""// no comment"",  0123456789	, ""// no comment"" , ""CRC32"" ,	""" ++ [128512]%N ++ runes_of_ascii """ ,
    ""{,}"" //
]:packetx, } , o@lengthOf(
msg_type ) `it's` , }	,	@calculatedFrom( """ ++ [28040; 24687]%N ++ runes_of_ascii """ )
uint64 x
`crlf
line` , zchar[
7 ]
Logon , repeat rootA matchKey `crlf
line` ,} // " ++ [27880; 37322]%N)).
Eval vm_compute in ("<<<M294>>>" ++ check (runes_of_ascii "MetaData roots { zchar[ 7 ] body , } packet trueish { repeat zchar[ 0123456789
] i8i8 `line1
line2`
//x
/// triple
, } packet u8x { x_y_z chars
, @calculatedFrom( """ ++ [28040; 24687]%N ++ runes_of_ascii """) @calculatedFrom(
    """ ++ [28040; 24687]%N ++ runes_of_ascii """ )
    @tag( 007) int64
Foo// trailing space 
,int8 _x`it's`
, match x as Foo {
[// c
65535,	""" ++ [233]%N ++ runes_of_ascii "t" ++ [233]%N ++ runes_of_ascii """	,""abc"" ,
""\" ++ [233]%N ++ runes_of_ascii """// @lengthOf(
,	10 ]: // packet A { u8 x, }
Pad
, } ,
body
{ match msg_type as uint8x {
""a\""b"" :	falsey 0 :  Packet""it's""
:lengthOf //	t
""" ++ [28040; 24687]%N ++ runes_of_ascii """:
charz ,} ,
    // a // b
    }	,	@tag( 42 )@calculatedFrom(
""\" ++ [233]%N ++ runes_of_ascii """
    )// c
@lengthOf(
u )
    repeat char
calculatedFrom	, @tag(
// @lengthOf(
// " ++ [128512]%N ++ runes_of_ascii " emoji
1  )
@rightPad ( '\x00'
) @lengthOf( f32a )
int16 pack
`" ++ [233]%N ++ runes_of_ascii "` , @lengthOf(
    // c
    A //x
) repeat
char[]
    options1 , } packet _x { @lengthOf(
    options1)  string
    u8x @lengthOf(
_x// a // b
), repeat
// " ++ [128512]%N ++ runes_of_ascii " emoji
// packet A { u8 x, }
Pad
{ As	{ matchKey chars ,
} ,// trailing space 
} ,repeat string crc
    //
    `line1
line2` ,
    //
    } packet crc{@calculatedFrom( ""{,}"" )  a1 u128 , } //	t")).
Eval vm_compute in ("<<<M202>>>" ++ check (runes_of_ascii "root packet body{
@tag(
4294967296
    )
As @calculatedFrom(""" ++ [128512]%N ++ runes_of_ascii """ )
    `a\` , /// triple
} root packet
    uint8x
{ MetaDataX{ repeat
matchKey lengthOf , repeat u32 uint8x
// packet A { u8 x, }
// a // b
`doc`
    /// triple
    ,
} ,  } options { int // a // b
=
    ""abc"" } packet
    // trailing space 
    u8x {
} root
packet // " ++ [128512]%N ++ runes_of_ascii " emoji
falsey {repeat float32	u , repeat	char[]
// " ++ [128512]%N ++ runes_of_ascii " emoji
// packet A { u8 x, }
msg_type
    `
` , @leftPad ( ' ')
    @tag(255
)match Header as msg_type
    { 3 :uint8x
    ,
    255 :
x , // trailing space 
7 // " ++ [27880; 37322]%N ++ runes_of_ascii "
: leftPad
// c
// `tick` ""quote"" 'q'
""" ++ [28040; 24687]%N ++ runes_of_ascii """
// packet A { u8 x, }
// c
: Packet ,[ 4294967296
    ,""1"" ] :
    T , } ,
    //	t
    Logon @calculatedFrom( ""x y"")  `it's`
, string charz @calculatedFrom(
// " ++ [128512]%N ++ runes_of_ascii " emoji
//	t
""abc""
) ,
string options1	,
/// triple
/// triple
@lengthOf(
//
//x
As
    ) repeat zchar[ // `tick` ""quote"" 'q'
7 ]zchar , @lengthOf(
    crc)x_y_z
    @calculatedFrom(
""" ++ [28040; 24687]%N ++ runes_of_ascii """ ) ,
}
")).
Eval vm_compute in ("<<<M4236>>>" ++ check (runes_of_ascii "// c
    packet 
i8i8

{

    }
    packet
	string_ { @rightPad
    ('\x00' 	 //x
		) 
int

    Packet 
,  // a // b
  @tag(

255 )	matchKey ,
    chars	@calculatedFrom( ""packet""	)
    `
`
	,_x @lengthOf(u

    )

    ,	@tag(	// c
    255)  asx 
Foo ,string
roots

,repeat
falsey
{  matchKey	{

    match Pad as
i8i8 //x
    	{
	[ 00
	,7	]:u 
, 1
: BodyLength, 	 // a // b
	""// no comment"" :

    metadata,

""""
// @lengthOf(
  //

	:
	BodyLength
/// triple
,}

    ,

}

, 
A,

repeat

char

    falsey , } , 	 // packet A { u8 x, }
    	_x	u`it's`,  @leftPad 
( 
'\x00'

    )
    @calculatedFrom(
    ""\n""
	)match
x_y_z
    as

metadata  { ""CRC32""	:

    packetx  // packet A { u8 x, }
,  ""packet"" 
:

    metadata
1  :
string_  // c
  , [ 0

,  // " ++ [128512]%N ++ runes_of_ascii " emoji
10
] 
:  // packet A { u8 x, }
  falsey	// " ++ [27880; 37322]%N ++ runes_of_ascii "
	,
    },
char[] chars
@lengthOf( zchar/// triple
  	) `say ""hi""` 
,
    }
")).
Eval vm_compute in ("<<<M936>>>" ++ check (runes_of_ascii "
MetaData
A
//
// " ++ [128512]%N ++ runes_of_ascii " emoji
{ u8x
A /// triple
``
, int16 roots `// not a comment`
    , u128 u,
int options1 `" ++ [28040; 24687; 31867; 22411]%N ++ runes_of_ascii "`,  i16 repeatCount
,i8	roots, // `tick` ""quote"" 'q'
} root
packet matchKey{  lengthOf/// triple
{ i64_@lengthOf( msg_type )
, } ,
    }
options
    {x=
    char[] } // trailing space 
packet
As{ i64_`crlf
line` , // c
rootA Z9_	,string Pad @calculatedFrom( ""// no comment""
) `say ""hi""`
,
@rightPad
(
    '\x00' )
@calculatedFrom(
    ""{,}""
)// `tick` ""quote"" 'q'
@calculatedFrom(
    ""CRC32""	)falsey `doc` , match Logon as tag { 3 : f32a ,
    ""abc"":  o , 255 :	A""abc"": leftPad, }  , @calculatedFrom(""" ++ [233]%N ++ runes_of_ascii "t" ++ [233]%N ++ runes_of_ascii """)repeat u32
_x `{ , }` , repeat stringy`a\`
,
// @lengthOf(
// " ++ [128512]%N ++ runes_of_ascii " emoji
len // packet A { u8 x, }
@lengthOf(Header
)
//
// " ++ [27880; 37322]%N ++ runes_of_ascii "
`" ++ [28040; 24687; 31867; 22411]%N ++ runes_of_ascii "`
,
    i32 len @lengthOf( repeatCount ) `line1
line2`,
    @tag(
//x
// a // b
42//x
)	BodyLength	,	}")).
Eval vm_compute in ("<<<M884>>>" ++ check (runes_of_ascii "packet Packet
{asx
    //	t
    @lengthOf(metadata)  `line1
line2`
// " ++ [128512]%N ++ runes_of_ascii " emoji
// packet A { u8 x, }
,
@tag( 0123456789) repeat char tag,
BodyLength @calculatedFrom( ""`tick`""
)
, @calculatedFrom(
""\" ++ [233]%N ++ runes_of_ascii """ )
tag @calculatedFrom(// @lengthOf(
""" ++ [233]%N ++ runes_of_ascii "t" ++ [233]%N ++ runes_of_ascii """
    )	,@leftPad
( ) match o as T
    {	""CRC32"":metadata [ 7, // trailing space 
""CRC32"", ""CRC32""
, ""a\\"" , 0123456789
]
:
i8i8 4294967296
:
    o, [65535 ] : leftPad, 00:
charz
    , } , string_ @calculatedFrom( ""\n"" ) `u8 x,` , }
root packet Foo // `tick` ""quote"" 'q'
{ @rightPad(
    '0'
    ) repeat msg_type string_ , } root packet Z9_{ @calculatedFrom(
    // c
    ""1"")string
    A //x
, repeat x zchar,  @tag( 1
    ) @tag( 0 ) i64_
    float
`tab	here` , repeat //
u8 _x
    `` , lengthOf
@calculatedFrom(
    ""`tick`"")
//x
// trailing space 
,
    }
")).
Eval vm_compute in ("<<<M166>>>" ++ check (runes_of_ascii "packet A {
@lengthOf(
    lengthOf)int16 packetx // trailing space 
@calculatedFrom(""1"" )
    , repeat u64 Packet`
` , match trueish as /// triple
roots { 3
: A ,""x y""
// " ++ [27880; 37322]%N ++ runes_of_ascii "
//
:
BodyLength
    //
    ,
    42:Foo  , },
} packet As	{
    msg_type @lengthOf(
    /// triple
    u )
    , }root packet
    zchar
    {i8i8 i8i8
`
` ,zchar
    {int8	Foo
`a\`  , },
    f32 pack @lengthOf(
crc
// packet A { u8 x, }
// c
) , @calculatedFrom( ""{,}""	) // " ++ [27880; 37322]%N ++ runes_of_ascii "
match crc as
roots { 65535 : int ""packet""
:  float ,00 : zchar
// packet A { u8 x, }
// `tick` ""quote"" 'q'
, [ ""x y""] :
options1, ""it's""
:x, } , @lengthOf(
Packet)
    match x
    //	t
    as As{ //	t
0: lengthOf
,
    //	t
    3 : pack , ""it's""  : x_y_z ,
""a\""b"" : metadata
} , uint16
    i8i8, } // a // b")).
Eval vm_compute in ("<<<M924>>>" ++ check (runes_of_ascii "  packet Pad{	@leftPad ( '\x00' ) @tag( 42
    )@rightPad ( ' ')
    uint8 asx
    // c
    ,
@rightPad
    (	)string a1,	u8x  @calculatedFrom( """ ++ [128512]%N ++ runes_of_ascii """ )	,	@tag(
    1 ) zchar[ 255 ] u128 ,@tag( 00)match
//x
//	t
u128
as zchar { 3 :	tag , [ """ ++ [233]%N ++ runes_of_ascii "t" ++ [233]%N ++ runes_of_ascii """ ]
: // " ++ [27880; 37322]%N ++ runes_of_ascii "
int ,
}
    ,
    @leftPad	( ) zchar[7 ]
    zchar
@lengthOf(
lengthOf ) , repeat Packet Foo	`a\`  , @lengthOf(
msg_type
)@rightPad
(
'0' ) @tag(255 ) string
    tag
//	t
//
@lengthOf(roots // a // b
)
    `say ""hi""` , repeat// " ++ [128512]%N ++ runes_of_ascii " emoji
Logon f32a,}packet uint8x {
    // trailing space 
    @rightPad	(' ' )@lengthOf(
    Header
)zchar[
7 ] u ,} // " ++ [128512]%N ++ runes_of_ascii " emoji
MetaData a1
    { rootA msg_type ,
u16
    /// triple
    lengthOf `it's`,f32
u8x
, }
    // c
    packet	trueish {}")).
Eval vm_compute in ("<<<M3803>>>" ++ check (runes_of_ascii "root packet As {
    repeat x msg_type,
}

MetaData crc {
    // c
    u8 x,
}

root packet Logon {
    @calculatedFrom(""1"")
    @rightPad(' ')
    @leftPad()
    string msg_type @lengthOf(uint8x) `a\`,
    match calculatedFrom as i8i8 {
        [""\" ++ [233]%N ++ runes_of_ascii """] : options1,
        // c
        1 : asx,
        [42, 42, """ ++ [28040; 24687]%N ++ runes_of_ascii """, """", 7] : x_y_z,
        [0] : asx,
        //
        7 : u8x,
        [7] : u,
    },
}

MetaData repeatCount {
    float Foo,
    As i8i8,
}

packet tag {
    @leftPad(' ')
    match Z9_ as msg_type {
        //
        [
            10, ""a\""b"", 0, 255, 7,
            0123456789, 10
        ] : Logon,
        """ ++ [233]%N ++ runes_of_ascii "t" ++ [233]%N ++ runes_of_ascii """ : a1,
        7 : i64_,
        255 : leftPad,
    },
}")).
Eval vm_compute in ("<<<M164>>>" ++ check (runes_of_ascii "MetaData
Packet {
    float	Pad ,u32 // " ++ [128512]%N ++ runes_of_ascii " emoji
Foo `it's`
    ,uint16 stringy
    , } packet
    stringy // @lengthOf(
{ @lengthOf(
    chars
) repeat f32 pack ,  @lengthOf(
rootA
)
    // @lengthOf(
    @calculatedFrom( ""CRC32""  ) char[] MetaDataX
    // a // b
    `" ++ [28040; 24687; 31867; 22411]%N ++ runes_of_ascii "` , @tag( 4294967296
    ) len	@calculatedFrom(""a	b"")
,
} packet
stringy { f32 leftPad/// triple
,
stringy { int	@calculatedFrom(""1"" ) `" ++ [233]%N ++ runes_of_ascii "`,	char[] o, zchar[ 0123456789  ]
    matchKey @lengthOf(	lengthOf )
`two words`
, }
,
@leftPad ('\x00'
) @lengthOf(
// " ++ [128512]%N ++ runes_of_ascii " emoji
/// triple
falsey) repeat string falsey
    `// not a comment` // trailing space 
, //	t
string Pad
    , }

")).
Eval vm_compute in ("<<<M405>>>" ++ check (runes_of_ascii "options { options1 =
0 } packet _x { @tag( 3
    // trailing space 
    )
@lengthOf( packetx
)repeat
    zchar[ 255] roots,}	packet  Logon{ f64
float ,
matchKey	,
    f32a//
Pad
    `" ++ [233]%N ++ runes_of_ascii "` ,
    // `tick` ""quote"" 'q'
    @calculatedFrom( ""packet"" ) match u128 as
Pad{
    [// " ++ [27880; 37322]%N ++ runes_of_ascii "
00 ,""CRC32"" ]
    : msg_type
65535
:	stringy , [
""abc"" //	t
,00, """ ++ [233]%N ++ runes_of_ascii "t" ++ [233]%N ++ runes_of_ascii """ , ""// no comment""
    , // trailing space 
0
,""// no comment""
    , ""1"" ]
    : matchKey [ ""it's"" ,0] : A } , zchar[ 3] //x
uint8x , } options { _x = ' ' rootA = //x
char[] uint8x= //	t
""a	b"" ;
body= char[]
    // trailing space 
    }
    root
packet
    len  { }
")).
Eval vm_compute in ("<<<M1070>>>" ++ check (runes_of_ascii "options { packetx=  ""a\\""
    //	t
    x_y_z	=// " ++ [128512]%N ++ runes_of_ascii " emoji
false ;
    len
    //x
    = """ ++ [233]%N ++ runes_of_ascii "t" ++ [233]%N ++ runes_of_ascii """u =
    ""x y"" }MetaData Foo
    { uint8x
    /// triple
    Z9_ // c
`
`
,options1 msg_type ,string_ // @lengthOf(
trueish
`
` , metadata /// triple
rootA`two words`
    //
    , } root packet Foo { repeat
trueish {
match A as options1 { ""packet""
: int , }
    ,
zchar[ 007]	u8x @calculatedFrom( """ ++ [233]%N ++ runes_of_ascii "t" ++ [233]%N ++ runes_of_ascii """ ) , msg_type float `" ++ [28040; 24687; 31867; 22411]%N ++ runes_of_ascii "` , match string_ as  charz // a // b
{10
: zchar ,
    [ 0	, 007, 10 ,65535 ,1 , ""x y""
    ,""" ++ [233]%N ++ runes_of_ascii "t" ++ [233]%N ++ runes_of_ascii """ ]// `tick` ""quote"" 'q'
: u  ,
1: u128
//x
//
,3: int,	} , }
    ,
    } 	 ")).
Eval vm_compute in ("<<<M4439>>>" ++ check (runes_of_ascii "MetaData i8i8 {
    char[0123456789] body `doc`,// c
}

packet uint8x {
    pack {
        char u `crlf
                line`,
        float,
        zchar[007] A,
    },
    char[] calculatedFrom `
        `,
    char[42] matchKey @calculatedFrom(""a\\"") ``,
}

root packet int {
    @rightPad('0')
    Pad {
        match zchar as asx {
            [""a	b"", 42] : Logon,
            //
        },
        Packet {
            zchar[4294967296] A,
        },
        match x as float {
            ""x y"" : o,
            1 : calculatedFrom,
        },
    },
}
//")).
Eval vm_compute in ("<<<M4379>>>" ++ check (runes_of_ascii "MetaData i64_ {
    int rootA,
    char[0] A `{ , }`,
    u128 rootA `doc`,// @lengthOf(
    zchar[42] i8i8 `it's`,
    /// triple
    char[00] u,
    zchar[0123456789] A `line1
    line2`,
}

packet Z9_ {
    @lengthOf(pack)
    @calculatedFrom(""a\\"")
    BodyLength @calculatedFrom(""\" ++ [233]%N ++ runes_of_ascii """),
    @rightPad()
    @tag(1)
    @lengthOf(i8i8)
    char[] trueish,
    f32a @calculatedFrom(""" ++ [28040; 24687]%N ++ runes_of_ascii """) `u8 x,`,
    @tag(65535)
    string trueish,
}

packet BodyLength {
    stringy @lengthOf(Z9_),
    char[007] metadata @calculatedFrom("""") `" ++ [233]%N ++ runes_of_ascii "`,
}")).
Eval vm_compute in ("<<<M802>>>" ++ check (runes_of_ascii "packet Logon // `tick` ""quote"" 'q'
{
    @rightPad
()
repeat
Z9_ , match i64_
//x
// @lengthOf(
as len { 65535
// " ++ [27880; 37322]%N ++ runes_of_ascii "
// @lengthOf(
:
    MetaDataX
, """ ++ [128512]%N ++ runes_of_ascii """: u128 , """ ++ [28040; 24687]%N ++ runes_of_ascii """ :lengthOf
""a	b"" : o , [
    255 // c
]  : As , [""\n""] :
// @lengthOf(
// trailing space 
o, } ,	@tag(
//	t
// trailing space 
42)
@tag( 1 ) //	t
string_ @calculatedFrom( ""1"" ) ,
    } root packet
matchKey
{ repeat u32
MetaDataX ,
    float32
As	@lengthOf(
charz	),
a1 repeatCount `
`	, } packet
    msg_type
    // trailing space 
    {
    }")).
Eval vm_compute in ("<<<M1190>>>" ++ check (runes_of_ascii "packet metadata {	@tag( 7 ) body { u8x As
    // @lengthOf(
    `line1
line2`
    ,
    match// a // b
MetaDataX	as float{ 10
: msg_type 7 : o,}, // " ++ [27880; 37322]%N ++ runes_of_ascii "
} , _x
{  repeat falsey	`
`
,match
    x_y_z
    as Packet {""" ++ [28040; 24687]%N ++ runes_of_ascii """ :u8x	, } ,
zchar @calculatedFrom( """ ++ [233]%N ++ runes_of_ascii "t" ++ [233]%N ++ runes_of_ascii """ ) , } , // trailing space 
@lengthOf( stringy )i64_
@lengthOf( _x )	`` ,/// triple
}
//x
//x
packet asx
    { @leftPad
    (
    '\x00' )
i64	repeatCount
, @lengthOf( lengthOf//	t
)
repeat//	t
float32 Logon
// @lengthOf(
//
, }
")).
Eval vm_compute in ("<<<M223>>>" ++ check (runes_of_ascii "
root packet // a // b
matchKey
    { @calculatedFrom(
""// no comment"")match matchKey as crc { 65535:metadata , 255 :options1 , ""{,}"" :asx
,
    [ ""\" ++ [233]%N ++ runes_of_ascii """ , 00
,	""""  , /// triple
""{,}"" ,
""a\\"" ]
    : msg_type , 007: f32a ,//x
} , @lengthOf(
repeatCount) @leftPad ()
    @calculatedFrom(  ""a\\"")float ,@tag( 42 ) u8 crc @calculatedFrom( //
""" ++ [28040; 24687]%N ++ runes_of_ascii """// " ++ [27880; 37322]%N ++ runes_of_ascii "
)
, uint64
BodyLength @lengthOf( f32a)
    `" ++ [28040; 24687; 31867; 22411]%N ++ runes_of_ascii "` , tag a1 ,
tag @calculatedFrom( ""`tick`""
), } // trailing space ")).
Eval vm_compute in ("<<<M890>>>" ++ check (runes_of_ascii "
MetaData
    //	t
    u { int8 body
,
    string Packet ,} options // `tick` ""quote"" 'q'
{
    matchKey =float64
;
}
packet roots	{ // " ++ [128512]%N ++ runes_of_ascii " emoji
@calculatedFrom(	""abc"")
match MetaDataX
// " ++ [27880; 37322]%N ++ runes_of_ascii "
// c
as // " ++ [27880; 37322]%N ++ runes_of_ascii "
_x
    { 007
    : o[ 42  , ""x y""
, 65535 , 1 ,
65535
    ,""a	b""	,4294967296 ,
00 ]:f32a ""CRC32"" : repeatCount  , ""CRC32"" :u128 ,	} ,} options { } MetaData uint8x
{
char[] u128 , body
crc  `
`,
    lengthOf rootA ,// " ++ [128512]%N ++ runes_of_ascii " emoji
i8 crc
, }

")).
Eval vm_compute in ("<<<M4152>>>" ++ check (runes_of_ascii "
MetaData T{
Foo	lengthOf
	,

    string  
  //x
	packetx
    `// not a comment`, zchar[
	//	t
      0]  metadata 
    //x

  // `tick` ""quote"" 'q'
	  `crlf
line` ,
x string_ 
`line1
line2`
,
} packet 
repeatCount{ char[	// `tick` ""quote"" 'q'
    255]
    A  @calculatedFrom(

    ""a\\"" ) , float32	BodyLength@lengthOf(
_x

)

// c
	//
	`doc`

,
	char[] trueish

    // " ++ [128512]%N ++ runes_of_ascii " emoji
	@calculatedFrom(	""packet"")
    , }

")).
Eval vm_compute in ("<<<M1301>>>" ++ check (runes_of_ascii "root	packet	u
{ uint8x
    // @lengthOf(
    falsey
, repeat char[ 0
    ]
o`u8 x,`  , @rightPad (
'\x00')
match leftPad
    as
    u { 7
:crc
, [""`tick`""
,0123456789
    ] :
Packet ,
    [ 42 ] : msg_type, 3 :
    tag ,
    } ,/// triple
@calculatedFrom(
""1"" )	char[ 1	] leftPad , } packet // " ++ [27880; 37322]%N ++ runes_of_ascii "
o{ char[] falsey ,
repeat
i8
//
// " ++ [128512]%N ++ runes_of_ascii " emoji
f32a `tab	here` ,
float64 pack @calculatedFrom(
    ""\" ++ [233]%N ++ runes_of_ascii """
    ) , }
")).
Eval vm_compute in ("<<<M3865>>>" ++ check (runes_of_ascii "MetaData o {
    i16 len,
}

packet msg_type {
    chars roots,// trailing space 
    repeat char[0] packetx `{ , }`,
    @rightPad('\x00')
    // @lengthOf(
    repeat i64 x,
    match packetx as packetx {
        65535 : x,
        [""\n"", 3] : Logon,
    },
    BodyLength @calculatedFrom(""{,}""),
    repeat pack Z9_,
    x i8i8,
}

options {
    int = ""abc"";
    u = ""abc""
    int = '0';
}")).
Eval vm_compute in ("<<<M4132>>>" ++ check (runes_of_ascii "packet x_y_z {
    @tag(1)
    A @calculatedFrom(""a\""b""),
    match Pad as lengthOf {
        007 : u128,
    },
    match chars as roots {
        1 : roots,
        [1] : A,
        // " ++ [27880; 37322]%N ++ runes_of_ascii "
        ""a	b"" : roots,
        [""abc"", 0] : u128,
    },
    repeat i64 i8i8,
    @calculatedFrom(""" ++ [233]%N ++ runes_of_ascii "t" ++ [233]%N ++ runes_of_ascii """)
    BodyLength,
    @tag(255)
    string u8x,
    BodyLength options1 `
    `,
}")).
Eval vm_compute in ("<<<M797>>>" ++ check (runes_of_ascii "packet lengthOf {
    @lengthOf( zchar//x
)char[]// trailing space 
metadata  , @tag(
10 ) string leftPad
,
@lengthOf(i8i8  )//
@leftPad
    //x
    (
'\x00')
    repeat Packet `a\`
, options1 { float
@calculatedFrom( ""it's""), repeat
    calculatedFrom
    i64_	,	}
, uint8 A @lengthOf( leftPad
) `two words`
,
} MetaData repeatCount { }MetaData u8x
{}
")).
Eval vm_compute in ("<<<M4533>>>" ++ check (runes_of_ascii "packet f32a {
}

packet metadata {
    @calculatedFrom(""\" ++ [233]%N ++ runes_of_ascii """)
    repeat _x {
        string falsey,
    },
    @calculatedFrom(""it's"")
    As leftPad `a\`,
    @calculatedFrom(""abc"")
    char[0] roots,
    @tag(00)
    match Pad as roots {
        10 : x_y_z,
        00 : len,
        [""// no comment""] : T,
    },
    a1 Header `" ++ [233]%N ++ runes_of_ascii "`,// " ++ [27880; 37322]%N ++ runes_of_ascii "
}")).
Eval vm_compute in ("<<<M1067>>>" ++ check (runes_of_ascii "packet f32a{char[
    0123456789 ] matchKey `u8 x,` , @tag( 7 ) zchar[
    //x
    00
// trailing space 
// a // b
] _x
, } packet repeatCount {@calculatedFrom( ""CRC32""
    )@lengthOf(f32a)@leftPad('0'
// trailing space 
//
) match // trailing space 
body
// `tick` ""quote"" 'q'
// " ++ [27880; 37322]%N ++ runes_of_ascii "
as
    int{ [ """" , 1
] :
    string_, } ,}
")).
Eval vm_compute in ("<<<M1893>>>" ++ check (runes_of_ascii "MetaData
    u { }  options {
// c
// @lengthOf(
float zchar[ int8 ;rootA =false ; As =	int16 // `tick` ""quote"" 'q'
repeatCount
    // trailing space 
    =
    int16
; u8x =
    //	t
    '\x00' ; } options	{
    repeatCount
= 0
u128
    //
    = false ; i64_
// trailing space 
// `tick` ""quote"" 'q'
= '0' ; //	t
}
")).
Eval vm_compute in ("<<<M1881>>>" ++ check (runes_of_ascii "MetaData
    u { }  options { {
// c
// @lengthOf(
float = int8 ;rootA =false ; As =	int16 // `tick` ""quote"" 'q'
repeatCount
    // trailing space 
    =
    int16
; u8x =
    //	t
    '\x00' ; } options	{
    repeatCount
= 0
u128
    //
    = false ; i64_
// trailing space 
// `tick` ""quote"" 'q'
= '0' ; //	t
}
")).
Eval vm_compute in ("<<<M1859>>>" ++ check (runes_of_ascii "@rightPad
    u { }  options {
// c
// @lengthOf(
float = int8 ;rootA =false ; As =	int16 // `tick` ""quote"" 'q'
repeatCount
    // trailing space 
    =
    int16
; u8x =
    //	t
    '\x00' ; } options	{
    repeatCount
= 0
u128
    //
    = false ; i64_
// trailing space 
// `tick` ""quote"" 'q'
= '0' ; //	t
}
")).
Eval vm_compute in ("<<<M1942>>>" ++ check (runes_of_ascii "MetaData
    u { }  options {
// c
// @lengthOf(
float = int8 ;rootA =false ; As =	int16 // `tick` ""quote"" 'q'
=
    // trailing space 
    repeatCount
    int16
; u8x =
    //	t
    '\x00' ; } options	{
    repeatCount
= 0
u128
    //
    = false ; i64_
// trailing space 
// `tick` ""quote"" 'q'
= '0' ; //	t
}
")).
Eval vm_compute in ("<<<M1870>>>" ++ check (runes_of_ascii "MetaData
    u {   options {
// c
// @lengthOf(
float = int8 ;rootA =false ; As =	int16 // `tick` ""quote"" 'q'
repeatCount
    // trailing space 
    =
    int16
; u8x =
    //	t
    '\x00' ; } options	{
    repeatCount
= 0
u128
    //
    = false ; i64_
// trailing space 
// `tick` ""quote"" 'q'
= '0' ; //	t
}
")).
Eval vm_compute in ("<<<M2056>>>" ++ check (runes_of_ascii "MetaData
    u { }  options {
// c
// @lengthOf(
float = int8 ;rootA =false ; As =	int16 // `tick` ""quote"" 'q'
repeatCount
    // trailing space 
    =
    int16
; u8x =
    //	t
    '\x00' ; } options	{
    repeatCount
= 0
u128
    //
    = false ; i64_
// trailing space 
// `tick` ""quote"" 'q'
= '0' ; //	t")).
Eval vm_compute in ("<<<M1310>>>" ++ check (runes_of_ascii "packet
    Foo{@calculatedFrom(
""" ++ [233]%N ++ runes_of_ascii "t" ++ [233]%N ++ runes_of_ascii """ )
repeatCount stringy, u32 u8x	@calculatedFrom(  ""{,}""
)
    `
`
    // " ++ [27880; 37322]%N ++ runes_of_ascii "
    ,
    repeat	float64 Foo
,
char[]T
    `{ , }` , } packet // a // b
f32a	{@tag(
    // a // b
    007) uint64
    falsey,
}
MetaData Foo{
u16
T ,
crc tag ,A
    falsey	`tab	here`,	}
")).
Eval vm_compute in ("<<<M425>>>" ++ check (runes_of_ascii "// trailing space 
packet Packet
{@calculatedFrom(
""`tick`""
)
// a // b
// `tick` ""quote"" 'q'
repeat rootA  {
    //
    repeat int8 u128`
` , char[
4294967296
]A@lengthOf(
Foo ) , } , repeat i16	leftPad , @lengthOf( // a // b
x ) float64 float // " ++ [128512]%N ++ runes_of_ascii " emoji
@lengthOf(roots), } // trailing space ")).
Eval vm_compute in ("<<<M486>>>" ++ check (runes_of_ascii "options
    { /// triple
} MetaData
    Logon // packet A { u8 x, }
{ char[ 65535 ] i8i8
, }
options
{ u128
= f64 options1 = int8;  Packet
    // " ++ [27880; 37322]%N ++ runes_of_ascii "
    = true; falsey
=char[255
    ] uint8x
    =uint32
;	}	MetaData
//x
// trailing space 
i64_ {
} packet BodyLength  { } // a // b")).
Eval vm_compute in ("<<<M3549>>>" ++ check (runes_of_ascii "packet B { // c2
u8 a ,
    // c5
}
    // c6
root // c7
packet P { u8
    // c11
K // c12
, // c13
match K as Body
    // c17
{ // c18a
  // c18b
1 : B // c21
,
    // c22
} ,
    // c24
u16 // c25
L // c26
@lengthOf(
    // c27
Body // c28
)
    // c29
, }
    // c31
")).
Eval vm_compute in ("<<<M3668>>>" ++ check (runes_of_ascii "options {
    LittleEndian = true;
}
packet Sub {
    u8 a,
    @calculatedFrom(""CRC16"") u64 SubSum,
}
root packet Frame {
    u16 MsgType,
    u16 BodyLen @lengthOf(Body),
    Sub Body,
    string note,
    @calculatedFrom(""CRC16"") u64 Checksum,
    u8 tail,
}
")).
Eval vm_compute in ("<<<M662>>>" ++ check (runes_of_ascii "  packet f32a { } MetaData x {BodyLength zchar , // @lengthOf(
}  packet metadata{ @tag( 7 ) @lengthOf( uint8x )
    body{ u8 Z9_ @calculatedFrom( /// triple
""it's"" ) `u8 x,`
    // @lengthOf(
    , }
, float32 falsey
@lengthOf( u//	t
) `line1
line2` ,}")).
Eval vm_compute in ("<<<M1608>>>" ++ check (runes_of_ascii "packet
//	t
// trailing space 
_x {
// packet A { u8 x, }
// c
char[
3
    ] u8x @lengthOf(
u8x ) , @calculatedFrom(""" ++ [128512]%N ++ runes_of_ascii """ // @lengthOf(
)
i16	Foo
@lengthOf(	string_
    )`doc`	, repeat	i64 metadata , , @lengthOf( string_
) i8 // c
u  `line1
line2`	,
}
")).
Eval vm_compute in ("<<<M1499>>>" ++ check (runes_of_ascii "packet
//	t
// trailing space 
_x char[
// packet A { u8 x, }
// c
{
3
    ] u8x @lengthOf(
u8x ) , @calculatedFrom(""" ++ [128512]%N ++ runes_of_ascii """ // @lengthOf(
)
i16	Foo
@lengthOf(	string_
    )`doc`	, repeat	i64 metadata , @lengthOf( string_
) i8 // c
u  `line1
line2`	,
}
")).
Eval vm_compute in ("<<<M1644>>>" ++ check (runes_of_ascii "packet
//	t
// trailing space 
_x {
// packet A { u8 x, }
// c
char[
3
    ] u8x @lengthOf(
u8x ) , @calculatedFrom(""" ++ [128512]%N ++ runes_of_ascii """ // @lengthOf(
)
i16	Foo
@lengthOf(	string_
    )`doc`	, repeat	i64 metadata , @lengthOf( string_
) i8 // c
u  `line1
line2`	}
,
")).
Eval vm_compute in ("<<<M1547>>>" ++ check (runes_of_ascii "packet
//	t
// trailing space 
_x {
// packet A { u8 x, }
// c
char[
3
    ] u8x @lengthOf(
u8x ) , @calculatedFrom( // @lengthOf(
)
i16	Foo
@lengthOf(	string_
    )`doc`	, repeat	i64 metadata , @lengthOf( string_
) i8 // c
u  `line1
line2`	,
}
")).
Eval vm_compute in ("<<<M1615>>>" ++ check (runes_of_ascii "packet
//	t
// trailing space 
_x {
// packet A { u8 x, }
// c
char[
3
    ] u8x @lengthOf(
u8x ) , @calculatedFrom(""" ++ [128512]%N ++ runes_of_ascii """ // @lengthOf(
)
i16	Foo
@lengthOf(	string_
    )`doc`	, repeat	i64 metadata , [ string_
) i8 // c
u  `line1
line2`	,
}
")).
Eval vm_compute in ("<<<M3792>>>" ++ check (runes_of_ascii "packet metadata {
    Z9_ @lengthOf(i64_),
}

packet pack {
    options1 @lengthOf(asx),
    @leftPad(' ')
    @calculatedFrom(""abc"")
    // `tick` ""quote"" 'q'
    // trailing space 
    falsey,// trailing space 
    char[3] rootA,
}")).
Eval vm_compute in ("<<<M3665>>>" ++ check (runes_of_ascii "packet Sub {
    u8 a,
    @calculatedFrom(""CRC16"") u16 SubSum,
}
root packet Frame {
    u16 MsgType,
    u16 BodyLen @lengthOf(Body),
    Sub Body,
    string note,
    @calculatedFrom(""CRC16"") u16 Checksum,
    u8 tail,
}
")).
Eval vm_compute in ("<<<M4021>>>" ++ check (runes_of_ascii "
packet
lengthOf 
{}packet Z9_ { 
} packet uint8x {leftPad

    Foo 
    // `tick` ""quote"" 'q'
  	`" ++ [233]%N ++ runes_of_ascii "` ,// c
    	@calculatedFrom(
    //
  /// triple

""\n"")@calculatedFrom(""" ++ [128512]%N ++ runes_of_ascii """ ) zchar[ 0123456789
] metadata
	,
}
")).
Eval vm_compute in ("<<<M1145>>>" ++ check (runes_of_ascii "MetaData
calculatedFrom
{
    Foo uint8x,o Packet `a\`
, int8
Packet
,
As calculatedFrom
, } options  { T
// trailing space 
// c
= u64 ; stringy =/// triple
f64 ; BodyLength =
// a // b
/// triple
true ; } 	 ")).
Eval vm_compute in ("<<<M1309>>>" ++ check (runes_of_ascii "MetaData rootA{ }packet BodyLength{repeat
    int32 falsey`a\`
, i64
rootA @lengthOf(
falsey
) , } root packet
x
    { u64 A  `" ++ [233]%N ++ runes_of_ascii "` ,} packet // @lengthOf(
BodyLength{}
    //x
    options { A
    =
""\n"" ; }
")).
Eval vm_compute in ("<<<M1827>>>" ++ check (runes_of_ascii "options { trueish = ""`tick`"" ; string_= """ ++ [233]%N ++ runes_of_ascii "t" ++ [233]%N ++ runes_of_ascii """
    // c
    } root
    packet body { stringy @calculatedFrom(
""a	b"" ) `line1
line2` , }
packet Logon {
    @leftPad(
    ' ' ) //	t
u16 string_ `u8 x,` , ,
}
")).
Eval vm_compute in ("<<<M1693>>>" ++ check (runes_of_ascii "options { trueish = ; ""`tick`"" string_= """ ++ [233]%N ++ runes_of_ascii "t" ++ [233]%N ++ runes_of_ascii """
    // c
    } root
    packet body { stringy @calculatedFrom(
""a	b"" ) `line1
line2` , }
packet Logon {
    @leftPad(
    ' ' ) //	t
u16 string_ `u8 x,` ,
}
")).
Eval vm_compute in ("<<<M1833>>>" ++ check (runes_of_ascii "options { trueish = ""`tick`"" ; string_= """ ++ [233]%N ++ runes_of_ascii "t" ++ [233]%N ++ runes_of_ascii """
    // c
    } root
    packet body { stringy @calculatedFrom(
""a	b"" ) `line1
line2` , }
packet Logon {
    @leftPad(
    ' ' ) //	t
u16 string_ `u8 x,` ,
)
")).
Eval vm_compute in ("<<<M1731>>>" ++ check (runes_of_ascii "options { trueish = ""`tick`"" ; string_= """ ++ [233]%N ++ runes_of_ascii "t" ++ [233]%N ++ runes_of_ascii """
    // c
    } root
    packet  { stringy @calculatedFrom(
""a	b"" ) `line1
line2` , }
packet Logon {
    @leftPad(
    ' ' ) //	t
u16 string_ `u8 x,` ,
}
")).
Eval vm_compute in ("<<<M776>>>" ++ check (runes_of_ascii "  options // c
{x_y_z =
    f64 } // " ++ [27880; 37322]%N ++ runes_of_ascii "
root
    packet As {@tag( 255	)string BodyLength ,
    @leftPad	(
) match Foo as
    body {007: i8i8 , 42 :
metadata
    , // @lengthOf(
"""" :
body, }
, }

")).
Eval vm_compute in ("<<<M1825>>>" ++ check (runes_of_ascii "options { trueish = ""`tick`"" ; string_= """ ++ [233]%N ++ runes_of_ascii "t" ++ [233]%N ++ runes_of_ascii """
    // c
    } root
    packet body { stringy @calculatedFrom(
""a	b"" ) `line1
line2` , }
packet Logon {
    @leftPad(
    ' ' ) //	t
u16 string_")).
Eval vm_compute in ("<<<M830>>>" ++ check (runes_of_ascii "
MetaData u8x {
    i64_ u128`tab	here` ,char[]
asx ,
    u // packet A { u8 x, }
BodyLength ,u64  uint8x ,
    _x
rootA //x
,}
    MetaData trueish { float64 asx// c
, /// triple
}")).
Eval vm_compute in ("<<<M2054>>>" ++ check (runes_of_ascii "MetaData
    u { }  options {
// c
// @lengthOf(
float = int8 ;rootA =false ; As =	int16 // `tick` ""quote"" 'q'
repeatCount
    // trailing space 
    =
    int16
; u8x =
    ")).
Eval vm_compute in ("<<<M1112>>>" ++ check (runes_of_ascii "
packet	Packet {
    @calculatedFrom(
    ""1""  )
uint8x, @leftPad	('\x00'
    /// triple
    ) char[] f32a @lengthOf( /// triple
f32a // packet A { u8 x, }
) `a\` ,  }

")).
Eval vm_compute in ("<<<M1581>>>" ++ check (runes_of_ascii "packet
//	t
// trailing space 
_x {
// packet A { u8 x, }
// c
char[
3
    ] u8x @lengthOf(
u8x ) , @calculatedFrom(""" ++ [128512]%N ++ runes_of_ascii """ // @lengthOf(
)
i16	Foo
@lengthOf(	string_")).
Eval vm_compute in ("<<<M4484>>>" ++ check (runes_of_ascii "
root packet matchKey
{
zchar[ 
3 
        // c
]

    pack
    @calculatedFrom(
    ""a	b""
    )	`doc`

, } options {}

MetaData
A

{  int8

msg_type  ,
}
")).
Eval vm_compute in ("<<<M2112>>>" ++ check (runes_of_ascii "options{
_x
= true
} options
repeat o	= /// triple
false
    ; chars
= ""\n"" } root packet	Pad
/// triple
// packet A { u8 x, }
{	chars
    // a // b
    ,}")).
Eval vm_compute in ("<<<M2412>>>" ++ check (runes_of_ascii "// c
packet x { { @lengthOf( metadata ) repeat lengthOf
,a1{
trueish	,// c
repeat//	t
MetaDataX , } , zchar[
    42	] rootA // `tick` ""quote"" 'q'
,
    }
")).
Eval vm_compute in ("<<<M2170>>>" ++ check (runes_of_ascii "options{
_x
= true
} options
{ o	= /// triple
false
    ; chars
= ""\n"" } root packet	Pad
/// triple
// packet A { u8 x, }
{ {	chars
    // a // b
    ,}")).
Eval vm_compute in ("<<<M2193>>>" ++ check (runes_of_ascii "options{
_x
= true
} options
{ o	= /// triple
false
    ; chars
" ++ [127]%N ++ runes_of_ascii "= ""\n"" } root packet	Pad
/// triple
// packet A { u8 x, }
{	chars
    // a // b
    ,}")).
Eval vm_compute in ("<<<M2126>>>" ++ check (runes_of_ascii "options{
_x
= true
} options
{ o	= /// triple
;
    false chars
= ""\n"" } root packet	Pad
/// triple
// packet A { u8 x, }
{	chars
    // a // b
    ,}")).
Eval vm_compute in ("<<<M2129>>>" ++ check (runes_of_ascii "options{
_x
= true
} options
{ o	= /// triple
false
     chars
= ""\n"" } root packet	Pad
/// triple
// packet A { u8 x, }
{	chars
    // a // b
    ,}")).
Eval vm_compute in ("<<<M4356>>>" ++ check (runes_of_ascii "// " ++ [27880; 37322]%N ++ runes_of_ascii "
MetaData int {
    // `tick` ""quote"" 'q'
    char[4294967296] packetx `line1
    line2`,
    rootA matchKey `two words`,
    matchKey Packet,
}")).
Eval vm_compute in ("<<<M3572>>>" ++ check (runes_of_ascii "root packet // c1
P
    // c2
{
    // c3
repeat // c4
string ss // c6
,
    // c7
repeat // c8
u16
    // c9
ns
    // c10
, // c11
}
    // c12
")).
Eval vm_compute in ("<<<M306>>>" ++ check (runes_of_ascii "packet
    u128
{ @lengthOf( options1
)repeat int`" ++ [28040; 24687; 31867; 22411]%N ++ runes_of_ascii "` ,
@calculatedFrom(
    """" )
repeat
f32 Z9_	,
zchar[
007
] msg_type
`doc`
    ,
}
")).
Eval vm_compute in ("<<<M611>>>" ++ check (runes_of_ascii "root packet // " ++ [27880; 37322]%N ++ runes_of_ascii "
_x	{repeat int64 trueish//x
, string calculatedFrom , Z9_ As
    , match tag
as trueish { 65535:  repeatCount
, }//
, }
")).
Eval vm_compute in ("<<<M1775>>>" ++ check (runes_of_ascii "options { trueish = ""`tick`"" ; string_= """ ++ [233]%N ++ runes_of_ascii "t" ++ [233]%N ++ runes_of_ascii """
    // c
    } root
    packet body { stringy @calculatedFrom(
""a	b"" ) `line1
line2` ,")).
Eval vm_compute in ("<<<M4008>>>" ++ check (runes_of_ascii "  MetaData float 	 // c
		{	float64
    charz `
` ,

    }root
    packet	chars{
@rightPad	( 
'0'

    )

    Foo  ,
	}
")).
Eval vm_compute in ("<<<M541>>>" ++ check (runes_of_ascii "// @lengthOf(
options {
u128
    =  ' '  chars
=
    char ; float=""// no comment"" repeatCount
    //x
    =
    false;
}
")).
Eval vm_compute in ("<<<M3315>>>" ++ check (runes_of_ascii "root packet
// c
matchKey { zchar[ 3 ] pack @calculatedFrom( ""a	b"" ) `doc` , } options { } MetaData A { int8 msg_type , }")).
Eval vm_compute in ("<<<M3347>>>" ++ check (runes_of_ascii "root packet matchKey { zchar[ 3 ] pack @calculatedFrom( ""a	b"" ) `doc` , } options { } MetaData
// c
A { int8 msg_type , }")).
Eval vm_compute in ("<<<M4077>>>" ++ check (runes_of_ascii "options{ MetaDataX

    =
""\" ++ [233]%N ++ runes_of_ascii """}options
    {

// @lengthOf(
//	t
    Logon= 
""1""x_y_z = 65535 }MetaData

//	t
u8x{ }
")).
Eval vm_compute in ("<<<M1419>>>" ++ check (runes_of_ascii "
packet
    falsey { Header""packet""@calculatedFrom(  ) , char[
    0123456789 ] packetx
    , } // `tick` ""quote"" 'q'")).
Eval vm_compute in ("<<<M3963>>>" ++ check (runes_of_ascii "packet A {
    u16 len @lengthOf(body) `a
    b`,
    u32 crc @calculatedFrom(""CRC32"") `a
    b`,
    string body,
}")).
Eval vm_compute in ("<<<M589>>>" ++ check (runes_of_ascii "
options
    {
} MetaData u8x{	i32 int // a // b
, i64 A ,
    o Z9_ `tab	here`
    ,
    // @lengthOf(
    }
")).
Eval vm_compute in ("<<<M2>>>" ++ check (runes_of_ascii "packet i8i8
    {
char[
1
] f32a@calculatedFrom(//	t
""\n"" )
    // packet A { u8 x, }
    , repeat charz,}
")).
Eval vm_compute in ("<<<M3563>>>" ++ check (runes_of_ascii "options {
    LittleEndian = true;
}
root packet P {
    u16 a,
    u32 Sum @calculatedFrom(""CR\
C32""),
}
")).
Eval vm_compute in ("<<<M3762>>>" ++ check (runes_of_ascii "packet	metadata{ Logon{ 	 // c
    A	`" ++ [28040; 24687; 31867; 22411]%N ++ runes_of_ascii "` ,
tag
o, }
    , 
zchar

len
	`// not a comment`
    ,
}
")).
Eval vm_compute in ("<<<M37>>>" ++ check (runes_of_ascii "MetaData
chars { f32 metadata , i64
    metadata
// trailing space 
//x
`
` // `tick` ""quote"" 'q'
,}")).
Eval vm_compute in ("<<<M2969>>>" ++ check (runes_of_ascii "packet A {
  match k as n {
    [""a"", 22, ""c c"", 4, ""e"", 66, ""g"", 8, ""i"", 10] : B
    2 : C
  },
}")).
Eval vm_compute in ("<<<M3893>>>" ++ check (runes_of_ascii "
packet

Inner
{
u8

    a

,
    } root
packet P
{ Inner
ref_obj ,
	u8
x

    ,

    }")).
Eval vm_compute in ("<<<M2971>>>" ++ check (runes_of_ascii "packet A {
  match k as n {
    [1, 22, ""c c"", 4, 5, ""f"", 7, 8, ""i"", 10] : B
    2 : C
  },
}")).
Eval vm_compute in ("<<<M3538>>>" ++ check (runes_of_ascii "packet Inner

{u8

a , }	root packet
	P
	{ repeat

    Inner items , u8
    x

    , 
}")).
Eval vm_compute in ("<<<M2933>>>" ++ check (runes_of_ascii "packet A {
  match k as n {
    [""a"", ""bb"", 007, ""d"", ""e"", 66, ""g""] : B,
    2 : C
  },
}")).
Eval vm_compute in ("<<<M3295>>>" ++ check (runes_of_ascii "MetaData float { float64 charz `
` , } root packet chars { @rightPad ( // c
'0' ) Foo , }")).
Eval vm_compute in ("<<<M3506>>>" ++ check (runes_of_ascii "packet chars { } packet MetaDataX { @tag( 42 ) i16
// c
string_ , repeat x `say ""hi""` , }")).
Eval vm_compute in ("<<<M2308>>>" ++ check (runes_of_ascii "options
{ } options { BodyLength= u16 Header= f64 ; caf" ++ [233]%N ++ runes_of_ascii "_1 =
    true
    ; } // a // b")).
Eval vm_compute in ("<<<M3921>>>" ++ check (runes_of_ascii "packet A {
    B b `a
        b`,
    B `a
        b`,
    repeat B bs `a
        b`,
}")).
Eval vm_compute in ("<<<M3214>>>" ++ check (runes_of_ascii "packet
// c
metadata { Logon { A `" ++ [28040; 24687; 31867; 22411]%N ++ runes_of_ascii "` , tag o , } , zchar len `// not a comment` , }")).
Eval vm_compute in ("<<<M3246>>>" ++ check (runes_of_ascii "packet metadata { Logon { A `" ++ [28040; 24687; 31867; 22411]%N ++ runes_of_ascii "` , tag o , } , zchar len `// not a comment` ,
// c
}")).
Eval vm_compute in ("<<<M3437>>>" ++ check (runes_of_ascii "packet o { repeat Logon // c
uint8x , } options { asx = zchar[ 3 ] stringy = '\x00' }")).
Eval vm_compute in ("<<<M1397>>>" ++ check (runes_of_ascii "root packet SimpleMessage {
	uint16 MsgType `" ++ [28040; 24687; 31867; 22411]%N ++ runes_of_ascii "`,
	string JsonBody `Json" ++ [23383; 31526; 20018; 28040; 24687; 20307]%N ++ runes_of_ascii "`,
}")).
Eval vm_compute in ("<<<M3991>>>" ++ check (runes_of_ascii "packet Header {
}

MetaData Packet {
    uint64 As `say ""hi""`,
}
// trailing space ")).
Eval vm_compute in ("<<<M3412>>>" ++ check (runes_of_ascii "MetaData body { i64 pack `it's` , } packet stringy // c
{ int16 calculatedFrom , }")).
Eval vm_compute in ("<<<M4607>>>" ++ check (runes_of_ascii "MetaData
    M { u8

    x `d`

    ,  y

    z 
`e`,char[ 3	] 
w
    ,
	} ")).
Eval vm_compute in ("<<<M2924>>>" ++ check (runes_of_ascii "packet A {
  match k as n {
    [1, 22, 007, 4, 5, 66, 7] : B
    2 : C
  },
}")).
Eval vm_compute in ("<<<M3902>>>" ++ check (runes_of_ascii "packet
    A {
match 
k

as
n  {
    [ 1
,
22
    ,
	007  ] :B,
2 : C}	, }")).
Eval vm_compute in ("<<<M2889>>>" ++ check (runes_of_ascii "packet A {
  match k as n {
    [1, ""bb"", 007, ""d""] : B
    2 : C
  },
}")).
Eval vm_compute in ("<<<M4546>>>" ++ check (runes_of_ascii "  packet
float	//	t
      { //
  }MetaData i8i8
	{ 
uint8x	i8i8 
, }
")).
Eval vm_compute in ("<<<M2876>>>" ++ check (runes_of_ascii "packet A {
  match k as n {
    [1, ""bb"", 007] : B
    2 : C
  },
}")).
Eval vm_compute in ("<<<M526>>>" ++ check (runes_of_ascii "//
MetaData o { i16 zchar // a // b
, char[//	t
00
] string_	, }")).
Eval vm_compute in ("<<<M1157>>>" ++ check (runes_of_ascii "
MetaData lengthOf
    {	uint32
T `crlf
line` ,}
/// triple
")).
Eval vm_compute in ("<<<M2340>>>" ++ check (runes_of_ascii "// c
packet x { @lengthOf( metadata ) repeat lengthOf
,a1{")).
Eval vm_compute in ("<<<M3371>>>" ++ check (runes_of_ascii "packet x { @rightPad // c
( ) repeat roots Logon `doc` , }")).
Eval vm_compute in ("<<<M195>>>" ++ check (runes_of_ascii "packet i8i8// a // b
{ a1`{ , }` ,
// a // b
// " ++ [27880; 37322]%N ++ runes_of_ascii "
} //x")).
Eval vm_compute in ("<<<M3177>>>" ++ check (runes_of_ascii "packet A { repeat // a
 B // b
 b // c
 `d` // e
 , }")).
Eval vm_compute in ("<<<M3570>>>" ++ check (runes_of_ascii "

  root

    packet
P

{ string
s

    ,	}
")).
Eval vm_compute in ("<<<M346>>>" ++ check (runes_of_ascii "MetaData leftPad // `tick` ""quote"" 'q'
{
    }")).
Eval vm_compute in ("<<<M272>>>" ++ check (runes_of_ascii "
root  packet zchar
    {zchar[007] Foo , }")).
Eval vm_compute in ("<<<M3049>>>" ++ check (runes_of_ascii "options {
    a = ""x\
y"";
    b = ""x\
y""
}")).
Eval vm_compute in ("<<<M3193>>>" ++ check (runes_of_ascii "root packet u128 // c
{ chars `it's` , }")).
Eval vm_compute in ("<<<M2250>>>" ++ check (runes_of_ascii "options
{ } options { BodyLength= u16")).
Eval vm_compute in ("<<<M2787>>>" ++ check ([11; 65533]%N ++ runes_of_ascii "7" ++ [65533; 442; 12]%N ++ runes_of_ascii "r" ++ [951]%N ++ runes_of_ascii "{
7" ++ [65533]%N ++ runes_of_ascii "	" ++ [65533]%N ++ runes_of_ascii "T" ++ [65533; 65533]%N ++ runes_of_ascii "+" ++ [65533]%N ++ runes_of_ascii "U" ++ [65533; 65533]%N ++ runes_of_ascii "Z" ++ [65533; 65533]%N ++ runes_of_ascii "?le" ++ [2015; 30]%N ++ runes_of_ascii "e?Ye" ++ [65533]%N ++ runes_of_ascii "=")).
Eval vm_compute in ("<<<M4559>>>" ++ check (runes_of_ascii "packet A {
    u8 x `tab
    	x`,
}")).
Eval vm_compute in ("<<<M2731>>>" ++ check (runes_of_ascii "( '\x00' = _x root , ] string ( (")).
Eval vm_compute in ("<<<M4427>>>" ++ check (runes_of_ascii "

  packet  len
    {

    }
")).
Eval vm_compute in ("<<<M3072>>>" ++ check (runes_of_ascii "packet A {
 u8 x `d" ++ [160]%N ++ runes_of_ascii "`, // c" ++ [160]%N ++ runes_of_ascii "
}")).
Eval vm_compute in ("<<<M4598>>>" ++ check (runes_of_ascii "
packet
	A	{  u8 x

`
`
, }
")).
Eval vm_compute in ("<<<M2807>>>" ++ check (runes_of_ascii "Nx>%""+FOjL#!9!ewSS+QVDXT-b5")).
Eval vm_compute in ("<<<M1342>>>" ++ check (runes_of_ascii "// packet A { u8 x, }
 	 ")).
Eval vm_compute in ("<<<M2581>>>" ++ check (runes_of_ascii "packet A { char[ 3 ] , }")).
Eval vm_compute in ("<<<M2815>>>" ++ check (runes_of_ascii "int64 uint32 u16 false")).
Eval vm_compute in ("<<<M2620>>>" ++ check (runes_of_ascii "packet A { @tag(1) }")).
Eval vm_compute in ("<<<M2646>>>" ++ check (runes_of_ascii "MetaData M { x y, }")).
Eval vm_compute in ("<<<M3066>>>" ++ check (runes_of_ascii "// c" ++ [12288]%N ++ runes_of_ascii "
packet A {
}")).
Eval vm_compute in ("<<<M3167>>>" ++ check (runes_of_ascii "packet A { // a
 }")).
Eval vm_compute in ("<<<M3133>>>" ++ check (runes_of_ascii "packet A {
}// c" ++ [65279]%N)).
Eval vm_compute in ("<<<M3156>>>" ++ check (runes_of_ascii "

  packet A {}")).
Eval vm_compute in ("<<<M1334>>>" ++ check (runes_of_ascii "options
{ }
")).
Eval vm_compute in ("<<<M2837>>>" ++ check (runes_of_ascii "xc" ++ [65533; 65533; 65533]%N ++ runes_of_ascii " " ++ [65533; 1320]%N ++ runes_of_ascii "9" ++ [25]%N)).
Eval vm_compute in ("<<<M2437>>>" ++ check (runes_of_ascii "zchar[]")).
Eval vm_compute in ("<<<M3144>>>" ++ check (runes_of_ascii "// c x")).
Eval vm_compute in ("<<<M3094>>>" ++ check (runes_of_ascii "// c" ++ [8232]%N)).
Eval vm_compute in ("<<<M2543>>>" ++ check (runes_of_ascii "[[]]")).
Eval vm_compute in ("<<<M2549>>>" ++ check (runes_of_ascii "a" ++ [11]%N ++ runes_of_ascii "b")).
Eval vm_compute in ("<<<M2556>>>" ++ check ([233]%N ++ runes_of_ascii "a")).
