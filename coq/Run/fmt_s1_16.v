From FP Require Import Lexer Parser ShowPT Digest Formatter.
From Coq Require Import String List NArith.
Import ListNotations.
Open Scope string_scope.
Set Printing Width 100000000.
Set Printing Depth 100000000.
Definition show_fres (r : fres) : string :=
  match r with
  | FOk s => "OK:" ++ sh_escaped s ""
  | FErr s => "ERR:" ++ sh_escaped s ""
  | FPanic p => "PANIC:" ++ p
  end.
Definition check (rs : list rune) : string := digest (show_fres (format_res rs)).
Definition full (rs : list rune) : string := show_fres (format_res rs).
Eval vm_compute in ("<<<M2085>>>" ++ check (runes_of_ascii "  packet 
body{

    chars  //x
  `two words` 
,
match
crc

as

metadata  { 65535  :

    // c
trueish""\" ++ [233]%N ++ runes_of_ascii """ 
:
charz ,
""abc""  : MetaDataX

[ ""packet"" ,  ""// no comment""
,
    0 ,	00
    , ""// no comment""
    ,
""{,}"" 
,
00 
]:
	i64_
// @lengthOf(
  //	t

,
    """ ++ [233]%N ++ runes_of_ascii "t" ++ [233]%N ++ runes_of_ascii """
	:
	f32a	,

    [ """ ++ [128512]%N ++ runes_of_ascii """

    ,	""it's""	]:Foo	} 
,	@rightPad

    (' '

/// triple
	  )repeat
char[ 
1
	]
body
    `it's`

,
	@tag(  007
) @calculatedFrom(

    """ ++ [233]%N ++ runes_of_ascii "t" ++ [233]%N ++ runes_of_ascii """)

// @lengthOf(
		//

	@calculatedFrom(
    ""a\""b""  // trailing space 

	)
repeat

i64_ 
{
    roots/// triple
		{
i16 // packet A { u8 x, }

Header  `two words`, repeatCount
    `{ , }` ,

    f64  x@calculatedFrom( ""a	b""

    ) 
    // a // b
	,  repeatCount@calculatedFrom( // " ++ [27880; 37322]%N ++ runes_of_ascii "

	"""")
,
	}
,repeat	u8	BodyLength
	`crlf
line` , 
    // `tick` ""quote"" 'q'
	char
As@lengthOf(

Foo ),

}
	,char[]roots

    `line1
line2` , 	 //
  int
a1 ,string_

    { char[]

Logon 
`line1
line2` ,
repeat
float32
    trueish,  }

, @leftPad 
(
'0' 
)

    repeat  metadata {

    rootA
	@lengthOf( 	 // trailing space 
	falsey ) ``	, 

    // " ++ [128512]%N ++ runes_of_ascii " emoji

// packet A { u8 x, }
  }
,

    }

    packet
	float 
{

u16 
      // trailing space 
  	// trailing space 

Logon	// a // b
    `tab	here`// @lengthOf(

	,
    // @lengthOf(

	// c

u128

    {
    zchar[ 255 
        // packet A { u8 x, }
  //
    ] 
charz
	`doc`

,
} , @tag(
0	)	repeat	Foo
{  i32
	body @calculatedFrom(

""`tick`"")`" ++ [233]%N ++ runes_of_ascii "`
,
	} /// triple
  	, 
char[] 
o	@calculatedFrom(
""1"" )  `line1
line2`

, @lengthOf(  
      // a // b

//x
	zchar

    )
i16 BodyLength @lengthOf( 

    // " ++ [27880; 37322]%N ++ runes_of_ascii "

BodyLength
)
    ,
@lengthOf(
	T )

@rightPad (' '
	)
    @lengthOf( T
	)repeat
    u64
_x// " ++ [27880; 37322]%N ++ runes_of_ascii "
  ,
match MetaDataX	as// trailing space 
  options1 // trailing space 
	{//x
  0123456789	:  options1

,
    } ,
repeat 
u8  charz
    ,	repeat 
i8i8{ // c
	a1 ,
	len

    {repeat	string  o, 
    // a // b
  } ,
match
    zchar as 
Logon 
{
    """" :

    matchKey  """ ++ [128512]%N ++ runes_of_ascii """
	: u

007  :  repeatCount,
}
    ,  // c
	}	,

}
")).
Eval vm_compute in ("<<<M1827>>>" ++ check (runes_of_ascii "packet asx {
    Logon {
        body @calculatedFrom(""it's""),// @lengthOf(
        char[3] MetaDataX,
        string leftPad `crlf
        line`,
        u128 @calculatedFrom(""packet""),
    },
}//x

packet x_y_z {
    len {
        match leftPad as rootA {
            [
                007, ""a\\"", 0123456789, ""\" ++ [233]%N ++ runes_of_ascii """, ""`tick`"",
                ""{,}""
            ] : falsey,
            4294967296 : matchKey,
            // packet A { u8 x, }
        },
        int32 Z9_,
        a1 {
            x_y_z,
            repeat _x `doc`,
            char[] falsey @lengthOf(u128) `doc`,
        },
        match Foo as stringy {
            7 : asx,
            ""x y"" : calculatedFrom,
        },
    },
    @lengthOf(i64_)
    @rightPad('\x00')
    @tag(42)
    char[] repeatCount,
    match Z9_ as int {
        [""a	b"", ""abc"", 255, 7] : asx,
        ""1"" : chars,
        [""a	b"", 00, 4294967296] : leftPad,
        [
            65535, 0, ""abc"", ""it's"", 007,
            ""x y"", 255, 3
        ] : leftPad,
        [4294967296] : u,
        // " ++ [128512]%N ++ runes_of_ascii " emoji
        // " ++ [128512]%N ++ runes_of_ascii " emoji
        0123456789 : a1,
    },
    x_y_z u8x,
    asx {
        repeat Header float `crlf
        line`,
        rootA charz `a\`,
    },
    @calculatedFrom(""CRC32"")
    string string_,
    @tag(65535)
    @rightPad('\x00')
    u8x a1 `{ , }`,
}

options {
    // c
    float = 007
}

root packet metadata {
}")).
Eval vm_compute in ("<<<M1717>>>" ++ check (runes_of_ascii "packet u {
    Header {
        float64 Foo @lengthOf(Pad) `{ , }`,
        leftPad @calculatedFrom(""a	b""),
        msg_type {
            Z9_ @lengthOf(u8x),
            falsey,
            len @lengthOf(float) `it's`,
            repeat int64 options1 `a\`,
        },// trailing space 
    },
    //	t
    // " ++ [128512]%N ++ runes_of_ascii " emoji
    falsey u8x,
    zchar[1] x ``,
    @lengthOf(uint8x)
    crc @lengthOf(matchKey),
    repeat f32 string_,
    packetx,
    // " ++ [27880; 37322]%N ++ runes_of_ascii "
    u8x {
        f64 Header,
        repeat uint8 uint8x,
        x_y_z {
            match string_ as a1 {
                [255] : f32a,
                [
                    ""packet"", ""1"", 00, """ ++ [128512]%N ++ runes_of_ascii """, 4294967296,
                    4294967296
                ] : Logon,
            },
            pack @lengthOf(options1),
            zchar[1] crc ``,
        },
    },
    rootA zchar,
}

options {
    uint8x = 4294967296
    // " ++ [27880; 37322]%N ++ runes_of_ascii "
    // @lengthOf(
    tag = float32;
    o = true;// trailing space 
    rootA = ""packet"";
}//x

packet float {
}// " ++ [27880; 37322]%N ++ runes_of_ascii "

options {
    // " ++ [27880; 37322]%N ++ runes_of_ascii "
    msg_type = i16;
    trueish = zchar[1];
    Logon = ""abc""
    rootA = i16;
}

MetaData rootA {
}")).
Eval vm_compute in ("<<<M202>>>" ++ check (runes_of_ascii "root packet body{
@tag(
4294967296
    )
As @calculatedFrom(""" ++ [128512]%N ++ runes_of_ascii """ )
    `a\` , /// triple
} root packet
    uint8x
{ MetaDataX{ repeat
matchKey lengthOf , repeat u32 uint8x
// packet A { u8 x, }
// a // b
`doc`
    /// triple
    ,
} ,  } options { int // a // b
=
    ""abc"" } packet
    // trailing space 
    u8x {
} root
packet // " ++ [128512]%N ++ runes_of_ascii " emoji
falsey {repeat float32	u , repeat	char[]
// " ++ [128512]%N ++ runes_of_ascii " emoji
// packet A { u8 x, }
msg_type
    `
` , @leftPad ( ' ')
    @tag(255
)match Header as msg_type
    { 3 :uint8x
    ,
    255 :
x , // trailing space 
7 // " ++ [27880; 37322]%N ++ runes_of_ascii "
: leftPad
// c
// `tick` ""quote"" 'q'
""" ++ [28040; 24687]%N ++ runes_of_ascii """
// packet A { u8 x, }
// c
: Packet ,[ 4294967296
    ,""1"" ] :
    T , } ,
    //	t
    Logon @calculatedFrom( ""x y"")  `it's`
, string charz @calculatedFrom(
// " ++ [128512]%N ++ runes_of_ascii " emoji
//	t
""abc""
) ,
string options1	,
/// triple
/// triple
@lengthOf(
//
//x
As
    ) repeat zchar[ // `tick` ""quote"" 'q'
7 ]zchar , @lengthOf(
    crc)x_y_z
    @calculatedFrom(
""" ++ [28040; 24687]%N ++ runes_of_ascii """ ) ,
}
")).
Eval vm_compute in ("<<<M1764>>>" ++ check (runes_of_ascii "
packet Pad

    { @lengthOf( stringy ) 
MetaDataX @calculatedFrom(""" ++ [28040; 24687]%N ++ runes_of_ascii """ )`{ , }` , 
	    //x
/// triple
  char[
0123456789	] leftPad
	@lengthOf( float )

    ,  asx
leftPad	`u8 x,`,
	@calculatedFrom(""\" ++ [233]%N ++ runes_of_ascii """
)

repeat
    rootA
    matchKey `" ++ [28040; 24687; 31867; 22411]%N ++ runes_of_ascii "`

, @lengthOf(

stringy )  /// triple
uint8x
msg_type`u8 x,`	,  // c
	char[ 3 ]
    stringy  `tab	here`  ,

}
MetaData 
metadata
    { string_

    zchar
,float32
	u128 ,

    char[]
	//	t
    	u128 	 //x
  ,
}

    options
// trailing space 
{
    zchar =""" ++ [28040; 24687]%N ++ runes_of_ascii """
;
msg_type =007
; repeatCount
    ='\x00' ;

    }

    packet
_x  {
	}options

    {
    asx =true
	;
lengthOf	= '0'
	i8i8
= '0'

    crc = 
""abc"" 
      /// triple
    	;
Packet
// " ++ [128512]%N ++ runes_of_ascii " emoji
  // trailing space 
  	=
' ' } 	 // a // b")).
Eval vm_compute in ("<<<M1697>>>" ++ check (runes_of_ascii "
root packet

    Packet	{
char[0123456789

    ]pack @lengthOf(  As  )

    `{ , }`
	,
	repeat

    // `tick` ""quote"" 'q'
  	string 
rootA,
	match
    repeatCount as
pack	/// triple
  { ""a\""b""	: uint8x	// packet A { u8 x, }
		[
""x y""	, 
""it's"" 
    // " ++ [128512]%N ++ runes_of_ascii " emoji
	  ]
:  chars 
""\" ++ [233]%N ++ runes_of_ascii """ 
:  //	t
    crc

    0123456789  : Packet
,

[ ""1""
    ]

: A , 
    // @lengthOf(

  }, 	 // `tick` ""quote"" 'q'
	  }	options	/// triple
{}
    packet 
pack // trailing space 

  {i8 	 //x

	MetaDataX , 
string
float 
`" ++ [28040; 24687; 31867; 22411]%N ++ runes_of_ascii "`

    ,

@lengthOf(  trueish ) @calculatedFrom(
""`tick`"" )	f64
lengthOf  ,
	repeat  pack

packetx  
      // trailing space 
	  // packet A { u8 x, }
  ,
}
")).
Eval vm_compute in ("<<<M209>>>" ++ check (runes_of_ascii "packet _x
    {repeat
u8x {
    repeat pack
    body,
    } ,
@calculatedFrom( ""x y"" ) A { match msg_type as f32a {4294967296
    : crc 1
// c
/// triple
: uint8x , // a // b
[ 255, 0
    ] : // " ++ [27880; 37322]%N ++ runes_of_ascii "
pack , [7 ,
// `tick` ""quote"" 'q'
// packet A { u8 x, }
00 ] :	roots , [ 255
    ]
:	rootA
    , } ,
    char packetx
@calculatedFrom( ""{,}""
    // trailing space 
    )
, } ,
    match
    BodyLength //
as u8x {""a	b"" : u,
    00 // @lengthOf(
: msg_type,// " ++ [27880; 37322]%N ++ runes_of_ascii "
}, match metadata as As{[ 0123456789, 3 ,// a // b
0
, ""it's""
, ""it's"" , ""1"" ] :
int
,
    ""packet"": leftPad}, char[] Pad `say ""hi""` , }

")).
Eval vm_compute in ("<<<M1665>>>" ++ check (runes_of_ascii "MetaData metadata {
    // `tick` ""quote"" 'q'
    msg_type Pad,
    int8 calculatedFrom,
}

MetaData msg_type {
    // packet A { u8 x, }
}

packet len {
    _x,
}

options {
    As = true;// " ++ [27880; 37322]%N ++ runes_of_ascii "
    repeatCount = '\x00';
    uint8x = ""\" ++ [233]%N ++ runes_of_ascii """;
    chars = true;
}

// " ++ [27880; 37322]%N ++ runes_of_ascii "
// `tick` ""quote"" 'q'
packet crc {
    matchKey @lengthOf(float),
    @leftPad('0')
    match i8i8 as x {
        [65535, 10, 4294967296] : repeatCount,
        ""// no comment"" : stringy,
    },
    @calculatedFrom(""a	b"")
    crc,
    /// triple
}")).
Eval vm_compute in ("<<<M64>>>" ++ check (runes_of_ascii "
MetaData x_y_z // c
{char As ,} packet packetx { asx @calculatedFrom( """ ++ [128512]%N ++ runes_of_ascii """
) `a\`, MetaDataX // packet A { u8 x, }
, @leftPad
(
    '0'
)
asx@lengthOf( f32a) `a\` , @lengthOf(	metadata )
match	Packet as lengthOf { [ // `tick` ""quote"" 'q'
""packet"", """ ++ [128512]%N ++ runes_of_ascii """] : // trailing space 
Foo , 0
    :
    crc [
10
, ""CRC32"" ]
:
trueish
//
// " ++ [27880; 37322]%N ++ runes_of_ascii "
,}	, } packet/// triple
lengthOf { @lengthOf( msg_type )
repeat zchar[7 ]  f32a `" ++ [233]%N ++ runes_of_ascii "`,
int64 tag ,  }
")).
Eval vm_compute in ("<<<M1833>>>" ++ check (runes_of_ascii "

  root
	packet

    pack

    { match Pad as 	 // a // b
	f32a  {
    [

    /// triple
  //	t
    """"
]
:  leftPad ,[
""" ++ [233]%N ++ runes_of_ascii "t" ++ [233]%N ++ runes_of_ascii """,

007
]: //	t

f32a  //x
  	,

    65535

    :
    body

, 
	// @lengthOf(
	10
	:u128,
42	:  // trailing space 
    pack ,	},}options
    {// " ++ [27880; 37322]%N ++ runes_of_ascii "
o

=  
  // c

f64 ;
	x_y_z  //
  =	/// triple
  u32

len =
    42;

    falsey	=
true

;} ")).
Eval vm_compute in ("<<<M1463>>>" ++ check (runes_of_ascii "// top
packet // c0
B // c1a
  // c1b
{ // c2
u8
    // c3
a , // c5a
  // c5b
string s // c7
,
    // c8
} // c9a
  // c9b
root // c10
packet
    // c11
P
    // c12
{ // c13a
  // c13b
u16 // c14a
  // c14b
L // c15
@lengthOf(
    // c16
B ) // c18
,
    // c19
B
    // c20
, // c21
u8
    // c22
t // c23a
  // c23b
, } // c25a
  // c25b
")).
Eval vm_compute in ("<<<M197>>>" ++ check (runes_of_ascii "packet	zchar { char[]  i64_,
    // " ++ [128512]%N ++ runes_of_ascii " emoji
    @calculatedFrom(	""// no comment"" ) match charz
    as tag
{ [""it's""
, 4294967296
    ,/// triple
""a	b""
    , """ ++ [28040; 24687]%N ++ runes_of_ascii """
,""" ++ [128512]%N ++ runes_of_ascii """
    ,  255 ,007 ] // packet A { u8 x, }
: i64_
, [	0123456789 ,3
, 00 ]: // `tick` ""quote"" 'q'
Packet , [ """ ++ [233]%N ++ runes_of_ascii "t" ++ [233]%N ++ runes_of_ascii """ ]
:a1 ,	}
,
    }
")).
Eval vm_compute in ("<<<M509>>>" ++ check (runes_of_ascii "root packet tag { }  packet MetaDataX MetaDataX{char[007	]
// c
/// triple
asx  @calculatedFrom( ""a\""b""
) `say ""hi""`// " ++ [27880; 37322]%N ++ runes_of_ascii "
,  @tag(4294967296 )
    char[1//x
] packetx @calculatedFrom(""a\""b""
    ) ,
// " ++ [128512]%N ++ runes_of_ascii " emoji
// a // b
@calculatedFrom(""" ++ [233]%N ++ runes_of_ascii "t" ++ [233]%N ++ runes_of_ascii """  ) repeat pack // " ++ [27880; 37322]%N ++ runes_of_ascii "
,
    } // c")).
Eval vm_compute in ("<<<M657>>>" ++ check (runes_of_ascii "root packet tag { }  packet MetaDataX{char[007	]
// c
/// triple
asx  @calculatedFrom( ""a\""b""
) `say ""hi""`// " ++ [27880; 37322]%N ++ runes_of_ascii "
,  @tag(4294967296 )
    char[1//x
] packetx @calculatedFrom(@tag""a\""b""
    ) ,
// " ++ [128512]%N ++ runes_of_ascii " emoji
// a // b
@calculatedFrom(""" ++ [233]%N ++ runes_of_ascii "t" ++ [233]%N ++ runes_of_ascii """  ) repeat pack // " ++ [27880; 37322]%N ++ runes_of_ascii "
,
    } // c")).
Eval vm_compute in ("<<<M515>>>" ++ check (runes_of_ascii "root packet tag { }  packet MetaDataX char[{007	]
// c
/// triple
asx  @calculatedFrom( ""a\""b""
) `say ""hi""`// " ++ [27880; 37322]%N ++ runes_of_ascii "
,  @tag(4294967296 )
    char[1//x
] packetx @calculatedFrom(""a\""b""
    ) ,
// " ++ [128512]%N ++ runes_of_ascii " emoji
// a // b
@calculatedFrom(""" ++ [233]%N ++ runes_of_ascii "t" ++ [233]%N ++ runes_of_ascii """  ) repeat pack // " ++ [27880; 37322]%N ++ runes_of_ascii "
,
    } // c")).
Eval vm_compute in ("<<<M555>>>" ++ check (runes_of_ascii "root packet tag { }  packet MetaDataX{char[007	]
// c
/// triple
asx  @calculatedFrom( ""a\""b""
) ,// " ++ [27880; 37322]%N ++ runes_of_ascii "
`say ""hi""`  @tag(4294967296 )
    char[1//x
] packetx @calculatedFrom(""a\""b""
    ) ,
// " ++ [128512]%N ++ runes_of_ascii " emoji
// a // b
@calculatedFrom(""" ++ [233]%N ++ runes_of_ascii "t" ++ [233]%N ++ runes_of_ascii """  ) repeat pack // " ++ [27880; 37322]%N ++ runes_of_ascii "
,
    } // c")).
Eval vm_compute in ("<<<M643>>>" ++ check (runes_of_ascii "root packet tag { }  packet MetaDataX{char[007	]
// c
/// triple
asx  @calculatedFrom( ""a\""b""
) `say ""hi""`// " ++ [27880; 37322]%N ++ runes_of_ascii "
,  @tag(4294967296 )
    char[1//x
] packetx @calculatedFrom(""a\""b""
    ) ,
// " ++ [128512]%N ++ runes_of_ascii " emoji
// a // b
@calculatedFrom(""" ++ [233]%N ++ runes_of_ascii "t" ++ [233]%N ++ runes_of_ascii """  ) repeat pack // " ++ [27880; 37322]%N ++ runes_of_ascii "

    } // c")).
Eval vm_compute in ("<<<M503>>>" ++ check (runes_of_ascii "root packet tag { }   MetaDataX{char[007	]
// c
/// triple
asx  @calculatedFrom( ""a\""b""
) `say ""hi""`// " ++ [27880; 37322]%N ++ runes_of_ascii "
,  @tag(4294967296 )
    char[1//x
] packetx @calculatedFrom(""a\""b""
    ) ,
// " ++ [128512]%N ++ runes_of_ascii " emoji
// a // b
@calculatedFrom(""" ++ [233]%N ++ runes_of_ascii "t" ++ [233]%N ++ runes_of_ascii """  ) repeat pack // " ++ [27880; 37322]%N ++ runes_of_ascii "
,
    } // c")).
Eval vm_compute in ("<<<M227>>>" ++ check (runes_of_ascii "
root packet
rootA { } root packet
// a // b
// trailing space 
_x // " ++ [27880; 37322]%N ++ runes_of_ascii "
{
    i64_, // a // b
} MetaData options1{ // `tick` ""quote"" 'q'
a1 float `crlf
line`
,
    u8x
falsey // " ++ [128512]%N ++ runes_of_ascii " emoji
`" ++ [233]%N ++ runes_of_ascii "`,
f32a MetaDataX,int64 u8x, } packet f32a {}
")).
Eval vm_compute in ("<<<M267>>>" ++ check (runes_of_ascii "root packet
i8i8
    { _x@lengthOf(chars
),
    char[	7]
packetx
    /// triple
    `say ""hi""`
,
    // c
    }root packet string_ {
    //
    repeat// `tick` ""quote"" 'q'
options1// c
`u8 x,`	,
    }
options {	}")).
Eval vm_compute in ("<<<M1699>>>" ++ check (runes_of_ascii "// top
packet FooBar {
    // c2
    u8 a,// c5a
    // c5b
}// c6a

// c6b
packet foo_bar {
    // c9a
    // c9b
    u16 b,
}

// c13
root packet R {
    // c17
    FooBar,// c19
    foo_bar,
}")).
Eval vm_compute in ("<<<M1300>>>" ++ check (runes_of_ascii "// top
MetaData // c0
body // c1
{ // c2
i64 // c3
pack // c4
`it's` // c5
, // c6
} // c7
packet // c8
stringy // c9
{ // c10
int16 // c11
calculatedFrom // c12
, // c13
} // c14
")).
Eval vm_compute in ("<<<M405>>>" ++ check (runes_of_ascii "packet
    // `tick` ""quote"" 'q'
    crc
// packet A { u8 x, }
//	t
{
u32 a1 a1 ,
    // trailing space 
    roots
charz //
`two words`,	}
    MetaData int {
} /// triple")).
Eval vm_compute in ("<<<M681>>>" ++ check (runes_of_ascii "root pac%ket len // trailing space 
{
// " ++ [27880; 37322]%N ++ runes_of_ascii "
//	t
char[10
] metadata	@lengthOf( o ) `crlf
line`,
    @rightPad
( ' '
) string
    Header @calculatedFrom( ""a\\""
    ), }
")).
Eval vm_compute in ("<<<M708>>>" ++ check (runes_of_ascii "root packet len // trailing space 
char[
// " ++ [27880; 37322]%N ++ runes_of_ascii "
//	t
{10
] metadata	@lengthOf( o ) `crlf
line`,
    @rightPad
( ' '
) string
    Header @calculatedFrom( ""a\\""
    ), }
")).
Eval vm_compute in ("<<<M444>>>" ++ check (runes_of_ascii "packet
    // `tick` ""quote"" 'q'
    crc
// packet A { u8 x, }
//	t
{
u32 a1 ,
    // trailing space 
    roots
charz //
`two words`,	}
    MetaData  {
} /// triple")).
Eval vm_compute in ("<<<M2081>>>" ++ check (runes_of_ascii "packet A {
    match k as n {
        [
            1, ""bb"", 007, ""d"", 5,
            ""f"", 7, ""h"", 9, ""j"",
            11
        ] : B,
        2 : C,
    },
}")).
Eval vm_compute in ("<<<M140>>>" ++ check (runes_of_ascii "packet Logon {
    stringy
crc	`crlf
line`
, T
@calculatedFrom( ""a\""b""
    ) // packet A { u8 x, }
`u8 x,` // " ++ [27880; 37322]%N ++ runes_of_ascii "
, }  options {	leftPad =  '\x00'}
")).
Eval vm_compute in ("<<<M1797>>>" ++ check (runes_of_ascii "packet A {
    Inner {
        u8 x `x
                `,
        Deep {
            u8 y `x
                        `,
        },
    },
}")).
Eval vm_compute in ("<<<M1491>>>" ++ check (runes_of_ascii "packet A {
    u8 a,
}
packet B {
    u16 b,
}
root packet P {
    u8 K,
    match K as M {
        1 : A,
        1 : B,
    },
}
")).
Eval vm_compute in ("<<<M1456>>>" ++ check (runes_of_ascii "packet B {
    u8 a,
}
root packet P {
    u8 K,
    u64 L @lengthOf(Body),
    match K as Body {
        1 : B,
    },
}
")).
Eval vm_compute in ("<<<M1250>>>" ++ check (runes_of_ascii "root packet matchKey { zchar[ 3 ] pack @calculatedFrom( ""a	b"" ) `doc` , }
// c
options { } MetaData A { int8 msg_type , }")).
Eval vm_compute in ("<<<M1749>>>" ++ check (runes_of_ascii "  packet  chars {	}
packet

    MetaDataX	{
    @tag(  42  )	// c

	i16

string_  ,	repeat
    x
`say ""hi""` ,
    } ")).
Eval vm_compute in ("<<<M1862>>>" ++ check (runes_of_ascii "  MetaData
float 	 // c

{  float64 charz`
` , }root

packet

    chars 
{
@rightPad

    ( '0')

Foo

, } ")).
Eval vm_compute in ("<<<M1965>>>" ++ check (runes_of_ascii "packet crc {
    u32 a1,
    // trailing space 
    float32 charz `two words`,
}

MetaData int {
}/// triple")).
Eval vm_compute in ("<<<M1471>>>" ++ check (runes_of_ascii "options {
    LittleEndian = true;
}
root packet P {
    u16 a,
    u32 Sum @calculatedFrom(""CRC32""),
}
")).
Eval vm_compute in ("<<<M37>>>" ++ check (runes_of_ascii "MetaData
chars { f32 metadata , i64
    metadata
// trailing space 
//x
`
` // `tick` ""quote"" 'q'
,}")).
Eval vm_compute in ("<<<M557>>>" ++ check (runes_of_ascii "root packet tag { }  packet MetaDataX{char[007	]
// c
/// triple
asx  @calculatedFrom( ""a\""b""
)")).
Eval vm_compute in ("<<<M1615>>>" ++ check (runes_of_ascii "MetaData body {
    // c
    i64 pack `it's`,
}

packet stringy {
    int16 calculatedFrom,
}")).
Eval vm_compute in ("<<<M869>>>" ++ check (runes_of_ascii "packet A {
  match k as n {
    [1, 22, ""c c"", 4, 5, ""f"", 7, 8, ""i""] : B
    2 : C
  },
}")).
Eval vm_compute in ("<<<M1209>>>" ++ check (runes_of_ascii "MetaData float { float64 charz `
` , } root packet chars { @rightPad ( '0'
// c
) Foo , }")).
Eval vm_compute in ("<<<M1420>>>" ++ check (runes_of_ascii "packet chars { } packet MetaDataX { @tag( 42 ) i16 string_ , // c
repeat x `say ""hi""` , }")).
Eval vm_compute in ("<<<M2077>>>" ++ check (runes_of_ascii "packet A {
    match k as n {
        [1, 22, ""c c"", 4, 5] : B,
        2 : C,
    },
}")).
Eval vm_compute in ("<<<M1150>>>" ++ check (runes_of_ascii "packet metadata { Logon { A `" ++ [28040; 24687; 31867; 22411]%N ++ runes_of_ascii "` , tag o , } , zchar // c
len `// not a comment` , }")).
Eval vm_compute in ("<<<M1355>>>" ++ check (runes_of_ascii "packet o { repeat Logon uint8x , }
// c
options { asx = zchar[ 3 ] stringy = '\x00' }")).
Eval vm_compute in ("<<<M1650>>>" ++ check (runes_of_ascii "
// c
	  packet

x

    {
@rightPad
	(
    )
repeat	roots
Logon
	`doc` ,
    }

")).
Eval vm_compute in ("<<<M1316>>>" ++ check (runes_of_ascii "MetaData body { i64 pack `it's`
// c
, } packet stringy { int16 calculatedFrom , }")).
Eval vm_compute in ("<<<M2103>>>" ++ check (runes_of_ascii "  packet A {

    B 
b

`a

b`	,
    B`a

b`
	,

    repeat
B  bs `a

b` ,}
")).
Eval vm_compute in ("<<<M1690>>>" ++ check (runes_of_ascii "

  packet x
// c
	{ @rightPad(	)

    repeat roots

Logon `doc`

,
	}

")).
Eval vm_compute in ("<<<M1710>>>" ++ check (runes_of_ascii "// top
root packet u128 {
    // c3
    chars `it's`,
    // c6
}
// c7")).
Eval vm_compute in ("<<<M698>>>" ++ check (runes_of_ascii "root packet len // trailing space 
{
// " ++ [27880; 37322]%N ++ runes_of_ascii "
//	t
char[10
] metadata")).
Eval vm_compute in ("<<<M780>>>" ++ check (runes_of_ascii "packet A {
  match k as n {
    [""a"", 22] : B
    2 : C
  },
}")).
Eval vm_compute in ("<<<M1276>>>" ++ check (runes_of_ascii "packet // c
x { @rightPad ( ) repeat roots Logon `doc` , }")).
Eval vm_compute in ("<<<M195>>>" ++ check (runes_of_ascii "packet i8i8// a // b
{ a1`{ , }` ,
// a // b
// " ++ [27880; 37322]%N ++ runes_of_ascii "
} //x")).
Eval vm_compute in ("<<<M537>>>" ++ check (runes_of_ascii "root packet tag { }  packet MetaDataX{char[007	]")).
Eval vm_compute in ("<<<M1932>>>" ++ check (runes_of_ascii "packet A {
    u8 x `a
        b
      c`,
}")).
Eval vm_compute in ("<<<M1104>>>" ++ check (runes_of_ascii "root packet u128 // c
{ chars `it's` , }")).
Eval vm_compute in ("<<<M137>>>" ++ check (runes_of_ascii "//x
MetaData falsey{ string Pad , }
")).
Eval vm_compute in ("<<<M1479>>>" ++ check (runes_of_ascii "root packet P {
    string s,
}
")).
Eval vm_compute in ("<<<M1071>>>" ++ check (runes_of_ascii "MetaData M {
}// c
packet A {}")).
Eval vm_compute in ("<<<M1917>>>" ++ check (runes_of_ascii "
packet

    A{
	}
// c" ++ [5760]%N)).
Eval vm_compute in ("<<<M1743>>>" ++ check (runes_of_ascii "
packet
A	{ 
}// c" ++ [12]%N ++ runes_of_ascii "
")).
Eval vm_compute in ("<<<M986>>>" ++ check (runes_of_ascii "packet A {
}
// c" ++ [133]%N)).
Eval vm_compute in ("<<<M502>>>" ++ check (runes_of_ascii "root packet tag {")).
Eval vm_compute in ("<<<M762>>>" ++ check (runes_of_ascii "false , uint16")).
Eval vm_compute in ("<<<M748>>>" ++ check (runes_of_ascii "6y" ++ [65533; 142; 0]%N)).
Eval vm_compute in ("<<<M721>>>" ++ check (runes_of_ascii " ")).
