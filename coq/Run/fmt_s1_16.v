From FP Require Import Lexer Parser ShowPT Digest Formatter.
From Coq Require Import String List NArith.
Import ListNotations.
Open Scope string_scope.
Set Printing Width 100000000.
Set Printing Depth 100000000.
Definition show_fres (r : fres) : string :=
  match r with
  | FOk s => "OK:" ++ sh_escaped s ""
  | FErr s => "ERR:" ++ sh_escaped s ""
  | FPanic p => "PANIC:" ++ p
  end.
Definition check (rs : list rune) : string := digest (show_fres (format_res rs)).
Definition full (rs : list rune) : string := show_fres (format_res rs).
Eval vm_compute in ("<<<M3501>>>" ++ check (runes_of_ascii "options {
    StringPrefixLenType = u8;
    ArrayPrefixLenType = u64;
    FixedStringPadFromLeft = true;
    JavaPackage = ""co\
m.example.msg"";
    GoPackage = ""ms\
g"";
    GoModule = ""example.com/msg"";
}
MetaData Meta {
    u32 SeqNum `sequence number`,
    char[8] Symbol `symbol`,
    zchar[5] ZSym `z symbol`,
    string Note,
    Symbol AltSymbol `alias of symbol`,
    f64 Price,
}
packet Inner {
    u8 a,
    i16 b,
    string c,
}
packet Inner2 {
    u8 a2,
    char[3] c2,
}
packet Logon {
    u8 x,
    string user,
    repeat u16 codes,
}
packet Logout {
    u16 reason,
}
packet Empty {
}
root packet Msg {
    u8 su8,
    uint8 luint8,
    u16 su16,
    uint16 luint16,
    u32 su32,
    uint32 luint32,
    u64 su64,
    uint64 luint64,
    i8 si8,
    int8 lint8,
    i16 si16,
    int16 lint16,
    i32 si32,
    int32 lint32,
    i64 si64,
    int64 lint64,
    f32 sf32,
    float32 lfloat32,
    f64 sf64,
    float64 lfloat64,
    char[6] fsplain,
    @leftPad('0') char[4] fs0,
    @rightPad('0') char[5] fs1,
    @leftPad(' ') char[6] fs2,
    @rightPad(' ') char[7] fs3,
    @leftPad('\x00') char[8] fs4,
    @rightPad('\x00') char[9] fs5,
    @leftPad() char[10] fs6,
    @rightPad() char[11] fs7,
    zchar[7] fz,
    @leftPad('0') zchar[3] fzl0,
    string s1 `doc`,
    char[] s2,
    Inner,
    Sub {
        u8 q,
        string w,
        Deep {
            u16 z,
            repeat i32 zs,
        },
    },
    repeat u8 ru8,
    repeat u16 ru16,
    repeat u32 ru32,
    repeat u64 ru64,
    repeat i8 ri8,
    repeat i16 ri16,
    repeat i32 ri32,
    repeat i64 ri64,
    repeat f32 rf32,
    repeat f64 rf64,
    repeat string rstr,
    repeat char[] rstr2,
    repeat char[3] rfs,
    repeat zchar[3] rfz,
    repeat Inner2,
    repeat Grp {
        u8 k,
        char[2] v,
    },
    SeqNum,
    SeqNum seq2,
    repeat SeqNum seqs,
    Symbol,
    AltSymbol alt,
    ZSym,
    Note,
    repeat Symbol syms,
    Price px,
    u16 MsgType,
    u32 BodyLen @lengthOf(Body),
    match MsgType as Body {
        1 : Logon,
        [2, 3] : Logout,
        7 : Logon,
        9 : Empty,
    },
    u32 Checksum @calculatedFrom(""CRC32""),
}
")).
Eval vm_compute in ("<<<M874>>>" ++ check (runes_of_ascii "
MetaData
As { int16 lengthOf `tab	here`  ,
    zchar[
// @lengthOf(
// @lengthOf(
42
    ]	repeatCount ,zchar[ 10 ]	crc `line1
line2`
, int64 stringy `it's` ,
char[ 7  ]
string_
`crlf
line` , }
root
    packet Pad	{repeat BodyLength {
repeat metadata // c
{ char[1 ]body ,
repeat string roots , options1 Z9_ ,	repeat  string Header
,
},
char[
    4294967296
]
    lengthOf `line1
line2`
,u32
uint8x
    , // " ++ [27880; 37322]%N ++ runes_of_ascii "
}
, @rightPad (
    '\x00') x_y_z
    { f32a {
char[
    1]	body
`a\` // trailing space 
, }
    ,
// packet A { u8 x, }
//
repeat packetx`it's`
,	char[ 42 ] falsey ,
}  , char[]packetx `" ++ [28040; 24687; 31867; 22411]%N ++ runes_of_ascii "`//x
, @leftPad('\x00'
    ) metadata// packet A { u8 x, }
@lengthOf(  As ) `say ""hi""` ,  @tag(42 )//
x
// @lengthOf(
// `tick` ""quote"" 'q'
@calculatedFrom( ""x y""//x
)
,  @lengthOf( float )
repeat //x
Foo { asx
    // 50% %s
    { repeat // c
char[]
crc
    `crlf
line`
// " ++ [128512]%N ++ runes_of_ascii " emoji
//	t
, zchar[ 4294967296 // @lengthOf(
]uint8x , }, Z9_ @lengthOf(
i8i8 ) , uint16 o
@calculatedFrom(""{,}"" ) `" ++ [233]%N ++ runes_of_ascii "` , match
    roots as f32a
    // `tick` ""quote"" 'q'
    { 7 : u128 ,
[ ""packet"" , 10 ]
: Packet ,}
    ,
    }, @leftPad ( '\x00'  )repeat o {
    float
    {pack ,i16
crc @calculatedFrom(
""abc"" ) ,	} , repeat
rootA	{
    repeat string_ { repeatCount f32a `doc` ,
    u8x rootA , packetx `doc` , }, } , repeat
/// triple
//x
zchar[7 ] options1 , match	x
    as metadata {
255 : chars , ""a\\"": packetx , [ ""it's""
]: body,// c
0123456789 : // @lengthOf(
charz [""it's""  , 10 ,""""	,
255
    , 65535 ,00,7 ,""a\""b""  ]: msg_type ,
    }
    // `tick` ""quote"" 'q'
    ,}
    , repeat f32a
crc `100% of %d` ,
i16
leftPad
    @calculatedFrom(
// packet A { u8 x, }
// " ++ [27880; 37322]%N ++ runes_of_ascii "
""a\\""
)
`" ++ [233]%N ++ runes_of_ascii "`
,
    } packet rootA {chars ,
    // " ++ [27880; 37322]%N ++ runes_of_ascii "
    u64
falsey @lengthOf( leftPad
) `
`	, string MetaDataX	@calculatedFrom( ""it's""// @lengthOf(
) `it's` ,  }
")).
Eval vm_compute in ("<<<M4385>>>" ++ check (runes_of_ascii "packet falsey {
    u16 float,
    string body @lengthOf(stringy) `u8 x,`,// " ++ [27880; 37322]%N ++ runes_of_ascii "
    @calculatedFrom(""a\""b"")
    MetaDataX @calculatedFrom(""CRC32"") `it's`,
    @rightPad('0')
    @leftPad('0')
    @lengthOf(Foo)
    i8i8 calculatedFrom,//
}

//	t
options {
    x_y_z = '0';
}

packet string_ {
    @rightPad('0')
    repeat i8 leftPad,
    leftPad roots,
    zchar[7] charz @calculatedFrom(""1""),
    match Header as leftPad {
        10 : falsey,
        4294967296 : stringy,
        3 : o,
        [
            7, 4294967296, 007, ""`tick`"", 0123456789,
            0123456789, ""1"", ""a\""b""
        ] : rootA,
        ""a\""b"" : MetaDataX,
    },
    int16 u8x @calculatedFrom(""" ++ [233]%N ++ runes_of_ascii "t" ++ [233]%N ++ runes_of_ascii """),
    char leftPad,
    zchar[0123456789] Packet @calculatedFrom(""\" ++ [233]%N ++ runes_of_ascii """),
    f32a x,// a // b
    string i8i8 @lengthOf(len),
}

MetaData msg_type {
    len trueish,
    i16 msg_type `it's`,
    char[] falsey ``,
    // trailing space 
    string tag,
}

packet trueish {
    int32 Packet @lengthOf(chars) `doc`,
    i8i8 {
        repeat packetx uint8x,
        repeat uint64 Header `say ""hi""`,
    },
    @calculatedFrom(""packet"")
    tag,
    @lengthOf(rootA)
    @lengthOf(trueish)
    match trueish as options1 {
        42 : matchKey,
    },
    i64 u8x,
    @rightPad(' ')
    char[3] MetaDataX @calculatedFrom(""" ++ [28040; 24687]%N ++ runes_of_ascii """),
    @lengthOf(len)
    @tag(10)
    char[] As @lengthOf(Header) ``,
    @tag(42)
    Logon {
        repeat u32 a1,
        stringy @calculatedFrom(""" ++ [233]%N ++ runes_of_ascii "t" ++ [233]%N ++ runes_of_ascii """),
        repeat len,
    },
    u128 u128,
}")).
Eval vm_compute in ("<<<M1396>>>" ++ check (runes_of_ascii "// " ++ [128512]%N ++ runes_of_ascii " emoji
root packet	asx { @lengthOf( a1 ) uint32 string_
    @lengthOf( u
) `// not a comment` ,  @lengthOf(
Header )  @calculatedFrom(""CRC32""// " ++ [27880; 37322]%N ++ runes_of_ascii "
) //
@lengthOf( u8x) zchar[1 ] repeatCount
, lengthOf len, @lengthOf(MetaDataX  )  @calculatedFrom(
    ""// no comment"")
match
    u as pack // `tick` ""quote"" 'q'
{ 0 //x
:
    T , // " ++ [27880; 37322]%N ++ runes_of_ascii "
0 : falsey [
    """ ++ [128512]%N ++ runes_of_ascii """
    , 10
    ]: // " ++ [27880; 37322]%N ++ runes_of_ascii "
u8x """" :roots
,
    255	: lengthOf , """"
: roots} ,u32
    // trailing space 
    x @calculatedFrom( ""a\\""
    ),
    @lengthOf( rootA ) @lengthOf( charz) f32 MetaDataX
    //x
    , @calculatedFrom( """ ++ [128512]%N ++ runes_of_ascii """ ) // trailing space 
int64
string_ , o @lengthOf( crc ) ,
    } root
packet i64_  {
body x `doc` ,
}	packet	Packet {  } packet  float{ @leftPad ()match falsey as matchKey{// packet A { u8 x, }
""a\\"" : options1 ,// a // b
[	""\" ++ [233]%N ++ runes_of_ascii """ ,""packet"", ""it's"" ,""1"", ""abc"" ,10 , ""a	b"" ]
:
    u
,[ 4294967296
    ]:  calculatedFrom , 10 : Pad
, ""abc""  : a1,
42 : Foo , }
,@calculatedFrom(// `tick` ""quote"" 'q'
""a	b"") repeat	leftPad
    `{ , }` ,repeat //x
Pad{ x x ,
    zchar[ 007
] charz , uint32 len `two words`
    , _x@lengthOf( zchar),} , repeat _x { u128  matchKey
    , } , char[ // trailing space 
10]  charz@lengthOf( pack ) ,
@calculatedFrom( ""`tick`""
) string_
, calculatedFrom @calculatedFrom(
"""" /// triple
)
    , }
")).
Eval vm_compute in ("<<<M4059>>>" ++ check (runes_of_ascii "
options { chars=
'0';	} root  packet 
x
	{ match
Logon
    as  calculatedFrom
{ 
[ 
""`tick`"" 	 // packet A { u8 x, }

	, 0123456789 ]
	:	Packet}
,
    // packet A { u8 x, }
char[
0123456789	// " ++ [128512]%N ++ runes_of_ascii " emoji

]u8x

    ,  @tag(	00) string
metadata `say ""hi""` 
,
    i64

    A `" ++ [28040; 24687; 31867; 22411]%N ++ runes_of_ascii "`

, @lengthOf(	/// triple
  calculatedFrom) float@calculatedFrom(  ""{,}"" ) // " ++ [27880; 37322]%N ++ runes_of_ascii "

,  }
	packet
	crc
{ 
@tag(
	0123456789
	)uint32
    tag`line1
line2` ,
    repeat

    zchar[
    4294967296 ] BodyLength  `" ++ [28040; 24687; 31867; 22411]%N ++ runes_of_ascii "`
	,repeat
	calculatedFrom 
`two words`
, uint32 
repeatCount	,
leftPad BodyLength `" ++ [233]%N ++ runes_of_ascii "` , 
options1
	Logon`` ,

@leftPad
(' '
)
    repeat	metadata
    string_// c

  , char[ 0123456789 
]

    trueish @calculatedFrom(

""a\""b"")
	`say ""hi""`,

@calculatedFrom(
""\n""
    )  pack	,	}	packet
	leftPad{@tag( 
7

) options1 
{ repeat
	pack
	,  },
	u  `` ,
	packetx
@lengthOf(MetaDataX ) 
, asx
	// trailing space 
  {
    repeat
repeatCount Z9_ ,repeat  zchar[4294967296 ]Pad	, }

,
@tag( 
255 )  @tag( 255
)

    char[
    0123456789
	]
u8x  // packet A { u8 x, }

,//
	@calculatedFrom(
""CRC32""
    )char[  3
	] Pad `tab	here`
    ,

    MetaDataX  ,@leftPad(
	' '
	) 
char[]	Foo@calculatedFrom(""" ++ [28040; 24687]%N ++ runes_of_ascii """

)
	,
}
")).
Eval vm_compute in ("<<<M4036>>>" ++ check (runes_of_ascii "
options
	{
    options1  =	// " ++ [27880; 37322]%N ++ runes_of_ascii "

true 	 // @lengthOf(
	} 
    // 50% %s
	// c
    packet

Header 
{ 
    // c

@calculatedFrom(

// packet A { u8 x, }
//
    """ ++ [233]%N ++ runes_of_ascii "t" ++ [233]%N ++ runes_of_ascii """

    ) u16

    Foo ,}root
	packet

pack
{	@tag( 255
)

a1{	// packet A { u8 x, }
  char[]
	x_y_z ,	}  , @lengthOf(

falsey
)	uint64

    tag  ,
char[]
    // `tick` ""quote"" 'q'
  Header
	@calculatedFrom(  ""// no comment""
	),	@leftPad
	(

    '0'
)
@rightPad('\x00'
) tag
    @calculatedFrom(
    // " ++ [128512]%N ++ runes_of_ascii " emoji
		// " ++ [27880; 37322]%N ++ runes_of_ascii "
	""" ++ [28040; 24687]%N ++ runes_of_ascii """

    // @lengthOf(

	// c
)
	,
uint16
    x
    @calculatedFrom(

    ""`tick`""	)
`tab	here`	, repeat  i64 
string_	`u8 x,`, _x
@calculatedFrom( ""packet""  ) `// not a comment`
	,
repeat  // @lengthOf(
  	x
{ 	 // `tick` ""quote"" 'q'
  	i32 o
`
` 
    // " ++ [27880; 37322]%N ++ runes_of_ascii "
    ,
} ,

    match	uint8x  // `tick` ""quote"" 'q'
  as 
falsey	{  ""\" ++ [233]%N ++ runes_of_ascii """ : 
falsey
, 
4294967296	:  roots	""" ++ [28040; 24687]%N ++ runes_of_ascii """ :
float
	,// " ++ [27880; 37322]%N ++ runes_of_ascii "

  [
1
    , 	 /// triple

  1  ,
"""" ,
	// trailing space 

  // @lengthOf(
	""CRC32""  , 00
    ,""a	b"" ,""a	b""

    ] 
:  calculatedFrom }
	,
    @calculatedFrom(""{,}""
) //x

	zchar[ 00  ]Pad, }
	packet 
  /// triple
  	calculatedFrom {}
")).
Eval vm_compute in ("<<<M4301>>>" ++ check (runes_of_ascii "  root packet msg_type {
    } packet
	calculatedFrom

    {
// " ++ [128512]%N ++ runes_of_ascii " emoji

  // " ++ [27880; 37322]%N ++ runes_of_ascii "
repeat
int32
    Pad

    , 
	//

}MetaData
    // c
	//
	Header
	{ 
char[ 65535 
]
As ,
char[65535 // 50% %s
  ] A `tab	here`
, 
//
	char[
0 ]  metadata
, string// @lengthOf(
  	Pad,
	} options { 
crc 
= 
""a\""b"" ;	options1 =

""// no comment""
	;
} packet Pad 
{

    repeat 	 /// triple
u8

    i64_

, 
@tag( 255
    )

i64  BodyLength
, @tag( 0 )	repeat
    BodyLength u
`doc`
,match	BodyLength	as
	zchar 
{	65535 :

    metadata

    , 00 :
    MetaDataX

    , 7
: roots
	"""" :  As

    , 
007 
:
	_x, [
""" ++ [233]%N ++ runes_of_ascii "t" ++ [233]%N ++ runes_of_ascii """  ,

    ""it's"" ,
3 
,  """ ++ [128512]%N ++ runes_of_ascii """
	,3

    ,
	007]  :
stringy ,
} ,	repeat

tag  float
    ,  // packet A { u8 x, }

@tag(  
      // " ++ [27880; 37322]%N ++ runes_of_ascii "
    	0) @rightPad	(
'0' ) repeat	//x
  Z9_	{ char[]  lengthOf
	@calculatedFrom( ""\" ++ [233]%N ++ runes_of_ascii """
)
`100% of %d`,
	repeat	zchar[ 255]i8i8
    /// triple
// `tick` ""quote"" 'q'
  `u8 x,`  ,
    repeat	i16

    falsey	``  , char[

    10  ]	stringy
	, }  
  // @lengthOf(
    // trailing space 
	,

    u16
	int 
,	} ")).
Eval vm_compute in ("<<<M3941>>>" ++ check (runes_of_ascii "

  root packet
	uint8x
{  }packet

uint8x

    { } options// " ++ [128512]%N ++ runes_of_ascii " emoji

{ Foo
=
' '
u = 
char[]

} 
  // c
	// `tick` ""quote"" 'q'
packet
charz

    {

    char[]zchar `" ++ [233]%N ++ runes_of_ascii "`  ,
@calculatedFrom(  ""x y"") string Logon 
,
	char[
    0
// 50% %s
	//
	]crc @lengthOf(

    float
	)
`" ++ [233]%N ++ runes_of_ascii "` 	 // @lengthOf(

  ,  // " ++ [27880; 37322]%N ++ runes_of_ascii "
}
root

packet 
Header {
	i8// trailing space 
  calculatedFrom  @lengthOf(  u128

)

,
    @tag( 
	    //x
  	65535

    )
repeat 	 // `tick` ""quote"" 'q'
zchar[ 
4294967296
	] tag
	    //	t
	  //x
, @leftPad // " ++ [128512]%N ++ runes_of_ascii " emoji
  (
    '\x00'	// packet A { u8 x, }
    	)
	tag	{
match
	    // c
	repeatCount  as charz{
0123456789	:
asx

,  },

f32
    string_ /// triple
	`
`  //
	, },uint32
	matchKey

,i32  // c
leftPad 
@calculatedFrom( ""1"" )
	`it's`  ,

    _x  { f32a @calculatedFrom(
""`tick`"" ) ,

    char
metadata 
`a\`	,
repeat uint16 // a // b
float
`" ++ [233]%N ++ runes_of_ascii "`	// " ++ [128512]%N ++ runes_of_ascii " emoji
,
	}

    ,
	@lengthOf( 
A
)
    zchar[  0123456789 ]

Header @lengthOf(
o
	)
    `
` 
,	}")).
Eval vm_compute in ("<<<M99>>>" ++ check (runes_of_ascii "
root packet
    Logon {
zchar[ 65535 ] uint8x ,@leftPad (
)repeat f32 Packet , @leftPad
( ' ' // c
) match i8i8 as body { 65535 : MetaDataX/// triple
, //x
007 : // c
Packet },
@calculatedFrom( ""packet"") uint8x , Foo @lengthOf( // `tick` ""quote"" 'q'
asx ) ,i64 int ,@leftPad ( ' ' ) repeat
rootA{ int32 zchar, match  stringy
    as MetaDataX
    {
[ """ ++ [28040; 24687]%N ++ runes_of_ascii """
,
10 ,42 , ""a\""b"" ,
// trailing space 
// trailing space 
42 ,
    7 ]
    : msg_type ,[42 ] :stringy ,""a\\""
:	Header
255 : calculatedFrom , [ 007
    ] : MetaDataX , ""a\""b"": stringy
    , } ,char[ 007 ]
    int @lengthOf( o ) `100% of %d`
,
    } ,char[ 00 ]leftPad @lengthOf(
zchar ) ,
char[]
zchar
    @calculatedFrom( ""1"" )
    ,
i64_
{ Packet
@lengthOf( Header )`two words`  ,// a // b
match int as As {
    ""\" ++ [233]%N ++ runes_of_ascii """
    : As
,
}  ,metadata`// not a comment`, repeat f64 float ,
    //	t
    }
, } options { //
u = ""packet"" BodyLength = ""packet"" ;
} root
packet u8x {  } // packet A { u8 x, }")).
Eval vm_compute in ("<<<M3774>>>" ++ check (runes_of_ascii "packet Packet {
    @lengthOf(Foo)
    match Logon as string_ {
        [""`tick`"", ""// no comment"", 0, 3, 4294967296] : trueish,
        """ ++ [233]%N ++ runes_of_ascii "t" ++ [233]%N ++ runes_of_ascii """ : packetx,
        10 : float,
        """" : x_y_z,
        ""a	b"" : o,
        10 : calculatedFrom,
    },// 50% %s
    metadata {
        matchKey @lengthOf(Pad),
        zchar[255] x ``,
        x @lengthOf(metadata),
    },
    repeat msg_type rootA,
    repeat Header,
    char[7] len @lengthOf(packetx) `u8 x,`,
    @lengthOf(falsey)
    @lengthOf(options1)
    repeat u16 Foo,
    repeat int32 msg_type,
    match lengthOf as Logon {
        ""1"" : tag,
    },
}

MetaData u128 {
    uint8x MetaDataX,
}

packet falsey {
    uint16 A @calculatedFrom(""// no comment""),
    @leftPad(' ')
    // `tick` ""quote"" 'q'
    trueish,
    @tag(7)
    repeat string msg_type,
    repeat string falsey `line1
        line2`,
}

packet lengthOf {
}// `tick` ""quote"" 'q'")).
Eval vm_compute in ("<<<M4261>>>" ++ check (runes_of_ascii "  packet Z9_

    {u32	pack`crlf
line`

    ,
    /// triple
	@lengthOf(len )u128	{	match x_y_z
    as	Logon {
7:	pack,1
	:

int
4294967296  // " ++ [27880; 37322]%N ++ runes_of_ascii "
:rootA

    ,1
    :f32a  ,  [

"""" , // 50% %s
	42
,	""\n""

    , 
        // " ++ [128512]%N ++ runes_of_ascii " emoji
    	// packet A { u8 x, }
7,	// c
	0  , 
""// no comment"",

4294967296	,
	""// no comment""

] : matchKey,  }
	,  
      // " ++ [27880; 37322]%N ++ runes_of_ascii "
    match
float as
    trueish 	 // a // b
	{ 007

:  packetx

,

65535

: repeatCount
	} ,
repeat 
    // @lengthOf(
  roots
lengthOf ,repeat
i8
string_ , }  , i64

    leftPad	@lengthOf(  msg_type
)
    , // a // b
	@tag( 
// c
	7)zchar[
    7
] f32a	//	t
    	@calculatedFrom(	""\n""
)	,	string
falsey,
    // packet A { u8 x, }
	repeat	leftPad{

match
matchKey	// a // b
    as
	repeatCount { ""\n""	:metadata ,  ""x y"" :
	Logon 
	// " ++ [128512]%N ++ runes_of_ascii " emoji
	// " ++ [27880; 37322]%N ++ runes_of_ascii "
	, 
},
	}
,	/// triple
	}")).
Eval vm_compute in ("<<<M506>>>" ++ check (runes_of_ascii "root
    packet
    string_ {
@lengthOf(
    falsey )@tag( // @lengthOf(
42 ) match repeatCount	as Z9_ {
""{,}"" :
    roots // 50% %s
, 255
: As ,[65535
, 0
    ]
:
    // a // b
    T
} ,
    /// triple
    repeat i8 repeatCount`" ++ [28040; 24687; 31867; 22411]%N ++ runes_of_ascii "` , }
options{ As =
zchar[
    255	]
;}
    // trailing space 
    packet // trailing space 
leftPad { @lengthOf( lengthOf ) Foo  { x msg_type ,
msg_type/// triple
`it's`,u16  crc @lengthOf( f32a) `
` ,
} // trailing space 
,
    u stringy
    ,packetx`u8 x,` , @leftPad
() @calculatedFrom(""abc"" ) @tag(
65535 ) BodyLength { zchar[1 ] Logon,} , match As as matchKey{42 : // `tick` ""quote"" 'q'
Z9_
    , //	t
[ ""it's"" ]
    // trailing space 
    :
    calculatedFrom 255: roots,""abc"": u8x
, """" : i8i8 4294967296
    : packetx
,},} root packet  A{ char[10 ] x_y_z
, }")).
Eval vm_compute in ("<<<M619>>>" ++ check (runes_of_ascii "  packet float
{
    }packet	o { zchar[ 3 ]  x `doc` ,repeat
    string_{ char[] stringy `" ++ [233]%N ++ runes_of_ascii "` , }
    , repeat uint32 a1 ``
, //
int64// c
Pad@calculatedFrom(""1"" ) ,
    @lengthOf( crc ) repeat /// triple
u16 packetx , msg_type
    @lengthOf( crc) , @tag(
3
) i16 u128 ,	zchar[65535 ]Logon `crlf
line`, @lengthOf(
repeatCount )
    @calculatedFrom( ""a\""b"" )
    crc tag
, }
root packet i8i8{ repeat
    Packet	{
msg_type @calculatedFrom(
    ""a\""b"" )  ,
/// triple
// 50% %s
}
,  }// c
packet i8i8{ //	t
i32 a1 // packet A { u8 x, }
@calculatedFrom( ""\n""	)
`// not a comment`
, } root packet
u128
{@leftPad
    (
'\x00'
)
x_y_z
@lengthOf(lengthOf )
, repeat u32 calculatedFrom // packet A { u8 x, }
,u8 _x@calculatedFrom( """ ++ [128512]%N ++ runes_of_ascii """ )  `u8 x,` , int8 Pad ,
crc
,
    }
")).
Eval vm_compute in ("<<<M4224>>>" ++ check (runes_of_ascii "packet o {	repeat
    calculatedFrom
{
As,  repeat	u {	//	t
	  i32 
repeatCount, }, match  BodyLength 
as	u8x

{

    007:
trueish }
	,

asx float
    `two words` , } 
,
match	pack

as // `tick` ""quote"" 'q'
calculatedFrom{	""it's"": Foo , 
    // 50% %s
    // @lengthOf(
    }
    ,	match	body
as
    calculatedFrom
{
	[
    // 50% %s
      ""a\""b""]	:o

    , 42	:
	Packet
	, 	 //
    	[ 0123456789 
,
1 , ""1""
	]
	:float, }	,}
MetaData

i64_

    {
	u128 

    //x
    crc ``	,	// c
	string_

    u

,
	i8	int`doc` , 
  // " ++ [27880; 37322]%N ++ runes_of_ascii "

i16 x

`doc`

,falsey  
      /// triple
	//
f32a
,
    }
options

    {roots //x
    	=zchar[4294967296	] ; x
=	65535 ;

crc
    =

zchar[
	    // " ++ [27880; 37322]%N ++ runes_of_ascii "
	  7

] ;metadata=char[] ;
leftPad =
    i32 }
")).
Eval vm_compute in ("<<<M3713>>>" ++ check (runes_of_ascii "

  MetaData
pack
    { char[ 10
]

_x 
,calculatedFrom

    MetaDataX	`" ++ [233]%N ++ runes_of_ascii "`	,	/// triple
  int32 pack ,i16

    lengthOf`doc`

, a1
u// trailing space 

`` ,
    char[	255]
    T ,
	}

    /// triple
    MetaData

stringy

    { T

    falsey
`say ""hi""` ,char[

    7	]
leftPad 
`" ++ [233]%N ++ runes_of_ascii "`

    ,

}
root	packet
    packetx
	{  char[

42	] 
u
,
i32 tag @calculatedFrom(
""abc""
) 
`" ++ [233]%N ++ runes_of_ascii "` , 	 // " ++ [27880; 37322]%N ++ runes_of_ascii "
		u8
calculatedFrom`say ""hi""`,
repeat _x``  //x
, 
repeat leftPad falsey

    ,
i8i8
	{ string T	`line1
line2` ,
	} ,}
MetaData

T

    {_x 
msg_type

, char[007  ]

    trueish
    , char[] lengthOf 
`two words`,  char[] // `tick` ""quote"" 'q'
zchar 
`line1
line2`	,

metadata
uint8x 
`" ++ [233]%N ++ runes_of_ascii "`

,
    // " ++ [27880; 37322]%N ++ runes_of_ascii "
}

")).
Eval vm_compute in ("<<<M4353>>>" ++ check (runes_of_ascii "packet leftPad {
    @leftPad('\x00')
    int32 stringy `it's`,
    body {
        lengthOf x_y_z `line1
        line2`,
        falsey pack,
        asx,
        uint32 trueish @lengthOf(MetaDataX) `{ , }`,
    },
    @calculatedFrom(""" ++ [128512]%N ++ runes_of_ascii """)
    falsey @lengthOf(f32a) `line1
    line2`,
    string u128 @calculatedFrom(""a\""b""),
    i64 asx @lengthOf(u) `line1
    line2`,
    uint8x @calculatedFrom(""packet"") `a\`,
    @calculatedFrom(""`tick`"")
    As `it's`,
    @lengthOf(Z9_)
    i16 packetx,
    @lengthOf(BodyLength)
    stringy @lengthOf(Header) `" ++ [233]%N ++ runes_of_ascii "`,
}

options {
    Foo = """ ++ [28040; 24687]%N ++ runes_of_ascii """;
    BodyLength = ' '
    lengthOf = ""a\""b"";
    stringy = ""abc"";
    int = false// trailing space 
}")).
Eval vm_compute in ("<<<M1382>>>" ++ check (runes_of_ascii "packet matchKey{ @rightPad
//x
/// triple
(	)	match Logon
// @lengthOf(
// packet A { u8 x, }
as tag { 10 :// a // b
body ,	4294967296 : tag
    //	t
    ,
65535 :
    // a // b
    len ,
""x y""	: Header //	t
},	}
    // packet A { u8 x, }
    MetaData
    uint8x{ asx _x `" ++ [233]%N ++ runes_of_ascii "` , msg_type Header `` , // a // b
u128 x
`// not a comment` , // " ++ [128512]%N ++ runes_of_ascii " emoji
u16 msg_type
,
matchKey int , u16
    x_y_z// @lengthOf(
,
} packet
    string_ {@lengthOf(
//x
// @lengthOf(
crc
    )
repeat
    string body // `tick` ""quote"" 'q'
`line1
line2`, }
//
// " ++ [27880; 37322]%N ++ runes_of_ascii "
packet len { i64
    // 50% %s
    pack `say ""hi""`
    , } packet asx {	@calculatedFrom( """ ++ [233]%N ++ runes_of_ascii "t" ++ [233]%N ++ runes_of_ascii """  )
repeat T
u8x ,}
")).
Eval vm_compute in ("<<<M3969>>>" ++ check (runes_of_ascii "
packet T
    { f32a{a1 ,}	// @lengthOf(
    	,

    zchar[
7
] stringy  `100% of %d` 	 // @lengthOf(
      ,// `tick` ""quote"" 'q'
} options{
}	packet 
A 
{

    @rightPad( ) @lengthOf( 
lengthOf // `tick` ""quote"" 'q'
  )
@tag(  1  )

T @calculatedFrom(  ""a\""b""
)
    `` 
,Header, 
@tag( 
    // `tick` ""quote"" 'q'
    // trailing space 
  4294967296	)

options1 {
	char[]A  //
`{ , }` 
,	match Z9_ // packet A { u8 x, }

	as rootA
{ 
[ 3  ,
    """ ++ [233]%N ++ runes_of_ascii "t" ++ [233]%N ++ runes_of_ascii """
]
        // packet A { u8 x, }
:

    Logon ,  }
,  options1 Header

`" ++ [233]%N ++ runes_of_ascii "` ,

repeat
f64/// triple
	  MetaDataX `it's`
, 
}

,
	// trailing space 
	float64
    BodyLength
, }
")).
Eval vm_compute in ("<<<M3659>>>" ++ check (runes_of_ascii "packet len {
    tag {
        match _x as len {
            255 : zchar,
        },
    },
    @calculatedFrom(""// no comment"")
    T @lengthOf(Z9_),
    repeat a1 {
        repeat string leftPad `" ++ [233]%N ++ runes_of_ascii "`,
        //	t
        //x
        char[] matchKey @lengthOf(x_y_z) `line1
        line2`,// " ++ [128512]%N ++ runes_of_ascii " emoji
        repeat char[0123456789] matchKey,
    },
    i64 calculatedFrom @calculatedFrom(""\" ++ [233]%N ++ runes_of_ascii """),
}

packet BodyLength {
    @calculatedFrom(""CRC32"")
    @lengthOf(i8i8)
    f32a @calculatedFrom(""abc""),
    zchar[42] body @lengthOf(uint8x) `" ++ [28040; 24687; 31867; 22411]%N ++ runes_of_ascii "`,
    float @lengthOf(trueish),
    repeat zchar[255] u8x `it's`,//
}")).
Eval vm_compute in ("<<<M1387>>>" ++ check (runes_of_ascii "packet chars	{	char
options1 ,
}
    // @lengthOf(
    packet
    tag { match
msg_type as leftPad { 42 :options1 ,
    """"  : rootA 7 : asx ,[ 10  ,""a\\"" , ""a\""b"" , 007 ,00, ""a	b""	] : Logon
,007: calculatedFrom ,
    [
255
    ,
    // `tick` ""quote"" 'q'
    10
// " ++ [27880; 37322]%N ++ runes_of_ascii "
//x
, //
0
    ,
1 , """ ++ [233]%N ++ runes_of_ascii "t" ++ [233]%N ++ runes_of_ascii """ , """ ++ [233]%N ++ runes_of_ascii "t" ++ [233]%N ++ runes_of_ascii """ ]  : repeatCount }
, string matchKey
, @calculatedFrom(
""""
)
repeat
int64 repeatCount
`line1
line2` , } MetaData trueish{ char[]
    Foo , float matchKey
    ,// " ++ [128512]%N ++ runes_of_ascii " emoji
float32 Header ,
BodyLength matchKey ,
// `tick` ""quote"" 'q'
// trailing space 
i64 T ,Pad
// c
//
int `a\`, }
")).
Eval vm_compute in ("<<<M611>>>" ++ check (runes_of_ascii "MetaData asx { i8 float
,float32 falsey ``
, u8 x_y_z
    // packet A { u8 x, }
    `say ""hi""` , int16 //	t
Header
,repeatCount uint8x
,  _x Packet	`u8 x,` ,
} MetaData Packet// c
{	zchar[ 0 ] uint8x
    , char[ 7] zchar
, } root packet len
{ @leftPad (
'\x00' )@rightPad( '0'
)	@tag( 255
) float repeatCount `100% of %d`, trueish { trueish { repeat
    char[] Pad // " ++ [128512]%N ++ runes_of_ascii " emoji
, match calculatedFrom as msg_type
    {
""\n"" : As, } , } , }, _x a1,@lengthOf(rootA )Logon
{ repeat	string_{  stringy @lengthOf(
    roots ) `100% of %d` , f32 Z9_
,crc o , }
    ,}
,
}

")).
Eval vm_compute in ("<<<M246>>>" ++ check (runes_of_ascii "
packet body { u32 BodyLength , i64 Pad	@calculatedFrom(//	t
""// no comment"" ) , @tag( 00 )
    @tag( 0123456789 ) @calculatedFrom(	""CRC32"" ) char i8i8 // trailing space 
@calculatedFrom( ""// no comment"" )	,
@tag( 3 ) @leftPad(
    '\x00'
)@rightPad
( ) match
string_ as MetaDataX//x
{""packet"" :float , [
    ""abc""
, """", 3
,
// @lengthOf(
/// triple
65535
    , ""a	b"" , 42 , 1 , ""packet"" ]:
    i64_ // @lengthOf(
, 7
    // packet A { u8 x, }
    :	lengthOf
0
    //x
    : len
    ,
10// 50% %s
: len , [0  ] :A, }
, }
// `tick` ""quote"" 'q'
")).
Eval vm_compute in ("<<<M550>>>" ++ check (runes_of_ascii "packet f32a { @calculatedFrom( ""1""
)	zchar[
10 ]// " ++ [128512]%N ++ runes_of_ascii " emoji
roots
    @lengthOf(	u8x ) `u8 x,`, @lengthOf( crc // " ++ [27880; 37322]%N ++ runes_of_ascii "
)
@leftPad(	) @lengthOf( metadata )  repeat
string	i8i8 ,match chars
as metadata
{ 1
: Pad }, @tag(
00
    // a // b
    )  uint8// " ++ [128512]%N ++ runes_of_ascii " emoji
stringy ,
@tag(
4294967296 // @lengthOf(
) char[ 00 ]	rootA @lengthOf( f32a) , char[] x_y_z	, match
    u8x
as o
    {""a\""b""
    //x
    :
    Packet }
    , }  MetaData
crc{ char[] _x// packet A { u8 x, }
, } // c
root// trailing space 
packet matchKey {}
")).
Eval vm_compute in ("<<<M3323>>>" ++ check (runes_of_ascii "// top
options // c0
{ // c1
} // c2
root // c3
packet // c4
u // c5
{ // c6
@rightPad // c7
( // c8
) // c9
@tag( // c10
42 // c11
) // c12
@calculatedFrom( // c13
"""" // c14
) // c15
repeat // c16
u8 // c17
msg_type // c18
, // c19
@lengthOf( // c20
stringy // c21
) // c22
@leftPad // c23
( // c24
'\x00' // c25
) // c26
@tag( // c27
4294967296 // c28
) // c29
A // c30
`crlf
line` // c31
, // c32
zchar[ // c33
1 // c34
] // c35
asx // c36
`" ++ [233]%N ++ runes_of_ascii "` // c37
, // c38
charz // c39
, // c40
} // c41
")).
Eval vm_compute in ("<<<M857>>>" ++ check (runes_of_ascii "  packet float	{
@leftPad ( /// triple
) uint64  u //	t
,
    repeat char Z9_ ,
    @lengthOf( asx) int8 _x @lengthOf(
    uint8x
)`" ++ [233]%N ++ runes_of_ascii "` , @rightPad
    ( // packet A { u8 x, }
'\x00' //	t
) options1 As , }  packet x // " ++ [27880; 37322]%N ++ runes_of_ascii "
{ @lengthOf(// " ++ [27880; 37322]%N ++ runes_of_ascii "
int	)
string_{ repeat Logon {	rootA
,i8i8{ char[
3 ]i64_
,rootA falsey
// trailing space 
// c
, } ,
} ,  } ,i32 crc , int
{ repeat f64 Packet
, uint8x
@calculatedFrom( ""1"") , string
// `tick` ""quote"" 'q'
//
x
`u8 x,` , } ,  }")).
Eval vm_compute in ("<<<M3723>>>" ++ check (runes_of_ascii "MetaData string_ {
    u128 chars `u8 x,`,
    u8x leftPad,
}

packet float {
    //	t
    trueish {
        float {
            u16 stringy,
        },
        crc @calculatedFrom(""// no comment""),// packet A { u8 x, }
        zchar[00] x_y_z @lengthOf(trueish) `crlf
        line`,
    },
    o {
        u8x {
            As @calculatedFrom(""a	b""),
            zchar[3] MetaDataX,
        },
        char[255] _x,
    },
}

packet repeatCount {
}")).
Eval vm_compute in ("<<<M1392>>>" ++ check (runes_of_ascii "packet tag
    {uint64 _x, @lengthOf( rootA
    ) int32
    calculatedFrom  ,
/// triple
/// triple
uint32 Packet `say ""hi""` , @tag(
    255) len@lengthOf( Foo
)
, BodyLength,zchar[	42] packetx @lengthOf( a1)
,  i16 packetx, @leftPad( ' '
)// @lengthOf(
matchKey
{ zchar[ 007 ] pack, i32 chars  ,
    //
    Packet {repeat uint16
    options1`100% of %d` , }
// packet A { u8 x, }
// c
,
    /// triple
    repeat
msg_type , }, }")).
Eval vm_compute in ("<<<M289>>>" ++ check (runes_of_ascii "options {
    repeatCount = false // trailing space 
;Packet=""{,}""
    //
    ; float
    //
    = ""`tick`"" T=char[ 007 ]  ; calculatedFrom = uint8 }
    packet x
{int32 options1
@calculatedFrom(""{,}"")
// a // b
// c
`tab	here` ,	match lengthOf  as  u128 { /// triple
10 :rootA ,
    // c
    [
    7//	t
, 0	] :Header
    ,
// @lengthOf(
// a // b
3 :  i8i8 , ""1"" :falsey""`tick`"": matchKey , ""a\\"": tag , }, }")).
Eval vm_compute in ("<<<M4451>>>" ++ check (runes_of_ascii "root packet trueish {
    string Packet `say ""hi""`,
    Logon {
        f64 repeatCount,
    },
}

options {
    // a // b
    Header = true;
    uint8x = '\x00';
    Z9_ = int16
}

packet tag {
    repeat tag {
        int8 uint8x @calculatedFrom(""it's""),
        repeat float32 crc,
    },
}

options {
    roots = 255;
}

root packet Foo {
    @tag(7)
    packetx @calculatedFrom(""`tick`""),
}")).
Eval vm_compute in ("<<<M1115>>>" ++ check (runes_of_ascii "root packet calculatedFrom
    { T
    { match stringy as //	t
options1	{ 00
: stringy
,  [
    // `tick` ""quote"" 'q'
    1 ]: f32a }
// " ++ [128512]%N ++ runes_of_ascii " emoji
// trailing space 
, string int @lengthOf( As ) , repeat lengthOf A ,
    }  , i8 charz@calculatedFrom(	""packet"" ) ,
uint8 metadata @calculatedFrom(
""packet"")
`u8 x,`//	t
, match // " ++ [128512]%N ++ runes_of_ascii " emoji
Packet  as u128 { ""a	b"" : x
    , // c
} , }
")).
Eval vm_compute in ("<<<M4392>>>" ++ check (runes_of_ascii "packet 
pack{match  options1
as trueish 
{ 10
	: packetx	,
	[
    ""a\\""
        // @lengthOf(
    //x
    	,	// 50% %s
  	00, 
  // `tick` ""quote"" 'q'
007
    // `tick` ""quote"" 'q'
	  ,
00
    ] : f32a// " ++ [128512]%N ++ runes_of_ascii " emoji
  ,
	[
0123456789 
,  ""it's""
        // a // b
	// trailing space 
,""a\\""	]
:

    body ,},a1 	 // a // b
`it's`
, repeat
    A
, 
}
	//	t
")).
Eval vm_compute in ("<<<M3841>>>" ++ check (runes_of_ascii "root packet packetx {
    @tag(1)
    T uint8x,
}

packet crc {
    @calculatedFrom(""abc"")
    msg_type charz `line1
        line2`,
}

packet Pad {
}

root packet x {
    @tag(0)
    zchar[10] metadata,
    _x charz,
    x `// not a comment`,
    int16 roots,
    string i64_ `line1
        line2`,
    repeat lengthOf ``,
    zchar[42] int,
}")).
Eval vm_compute in ("<<<M3329>>>" ++ check (runes_of_ascii "// top
packet // c0
leftPad // c1
{ // c2
@calculatedFrom( // c3
""packet"" // c4
) // c5
chars // c6
Header // c7
, // c8
Z9_ // c9
{ // c10
int16 // c11
roots // c12
@lengthOf( // c13
f32a // c14
) // c15
`line1
line2` // c16
, // c17
rootA // c18
, // c19
} // c20
, // c21
repeat // c22
int8 // c23
int // c24
, // c25
} // c26
")).
Eval vm_compute in ("<<<M3463>>>" ++ check (runes_of_ascii "options {
    LittleEndian = true;
    FixedStringPadChar = '0';
}
packet Heartbeat {
    zchar[5] sym,
    repeat char[3] OrderId,
}
root packet Quote {
    u64 lastPx,
    repeat u8 venue,
    Heartbeat,
    InSym1 {
        char[3] Acct,
        char[] lastPx,
        Heartbeat,
        repeat string x,
    },
}
")).
Eval vm_compute in ("<<<M522>>>" ++ check (runes_of_ascii "packet
chars
    { repeat char[ 3 ] roots , @calculatedFrom(""a\\""
) @leftPad
(
// " ++ [27880; 37322]%N ++ runes_of_ascii "
// packet A { u8 x, }
'\x00' ) @leftPad( '0' ) uint16 rootA
// " ++ [128512]%N ++ runes_of_ascii " emoji
/// triple
`crlf
line` ,
@rightPad ( '\x00' )Z9_
    Logon, }
    packet msg_type { } options
{ charz
    = '\x00'  MetaDataX= 3 ; _x =false //
}
")).
Eval vm_compute in ("<<<M3537>>>" ++ check (runes_of_ascii "MetaData options1 {
    u16 stringy,
}

packet stringy {
    // packet A { u8 x, }
    zchar @calculatedFrom(""`tick`""),
    @rightPad('\x00')
    @leftPad('\x00')
    @leftPad('\x00')
    rootA @calculatedFrom(""" ++ [28040; 24687]%N ++ runes_of_ascii """),
    @leftPad('\x00')
    char[0] u @calculatedFrom(""`tick`""),// a // b
}")).
Eval vm_compute in ("<<<M4460>>>" ++ check (runes_of_ascii "MetaData uint8x {
    i8 x_y_z,
    char[255] repeatCount `{ , }`,
}

options {
    u = false
    options1 = 0123456789
    BodyLength = 255;
    lengthOf = ""`tick`"";
    u = ' '
}

MetaData Header {
    zchar[0123456789] Z9_,
    int32 Header,
    char[007] A `
        `,
}//	t")).
Eval vm_compute in ("<<<M1552>>>" ++ check (runes_of_ascii "// 50% %s
packet	a1
    { zchar[
// a // b
// 50% %s
007]
T `it's` `it's`
    ,@rightPad
    // a // b
    (
'\x00')
    o repeatCount , }  packet Logon {  }packet	Logon //x
{ repeat // " ++ [128512]%N ++ runes_of_ascii " emoji
uint16 u128
    //
    `a\`,
falsey
@calculatedFrom(""packet"" ) ,
    } 	 ")).
Eval vm_compute in ("<<<M110>>>" ++ check (runes_of_ascii "
MetaData	Header {// `tick` ""quote"" 'q'
i64_ i64_ /// triple
, chars falsey , // trailing space 
u32 MetaDataX//x
, Header metadata ,
zchar len, }options
{
    u8x = '0' calculatedFrom =zchar[ 4294967296	]
// trailing space 
// packet A { u8 x, }
} MetaData  Pad	{}")).
Eval vm_compute in ("<<<M1707>>>" ++ check (runes_of_ascii "// 50% %s
packet	a1
    { zchar[
// a // b
// 50% %s
007]
T `it's`
    ,@rightPad
    // a // b
    (
'\x00')
    o repeatCount , }  packet Logon {  }packet	Logon //x
{ repea@xt // " ++ [128512]%N ++ runes_of_ascii " emoji
uint16 u128
    //
    `a\`,
falsey
@calculatedFrom(""packet"" ) ,
    } 	 ")).
Eval vm_compute in ("<<<M1588>>>" ++ check (runes_of_ascii "// 50% %s
packet	a1
    { zchar[
// a // b
// 50% %s
007]
T `it's`
    ,@rightPad
    // a // b
    (
'\x00')
    o , repeatCount }  packet Logon {  }packet	Logon //x
{ repeat // " ++ [128512]%N ++ runes_of_ascii " emoji
uint16 u128
    //
    `a\`,
falsey
@calculatedFrom(""packet"" ) ,
    } 	 ")).
Eval vm_compute in ("<<<M1591>>>" ++ check (runes_of_ascii "// 50% %s
packet	a1
    { zchar[
// a // b
// 50% %s
007]
T `it's`
    ,@rightPad
    // a // b
    (
'\x00')
    o repeatCount  }  packet Logon {  }packet	Logon //x
{ repeat // " ++ [128512]%N ++ runes_of_ascii " emoji
uint16 u128
    //
    `a\`,
falsey
@calculatedFrom(""packet"" ) ,
    } 	 ")).
Eval vm_compute in ("<<<M3819>>>" ++ check (runes_of_ascii "root packet metadata {
}// " ++ [128512]%N ++ runes_of_ascii " emoji

packet tag {
    @leftPad('0')
    @lengthOf(asx)
    @rightPad('\x00')
    repeat u16 stringy `
        `,
}

options {
    Foo = ""// no comment""
    leftPad = false;
}

packet chars {
    string uint8x @lengthOf(float),
}")).
Eval vm_compute in ("<<<M1589>>>" ++ check (runes_of_ascii "// 50% %s
packet	a1
    { zchar[
// a // b
// 50% %s
007]
T `it's`
    ,@rightPad
    // a // b
    (
'\x00')
    o ( , }  packet Logon {  }packet	Logon //x
{ repeat // " ++ [128512]%N ++ runes_of_ascii " emoji
uint16 u128
    //
    `a\`,
falsey
@calculatedFrom(""packet"" ) ,
    } 	 ")).
Eval vm_compute in ("<<<M833>>>" ++ check (runes_of_ascii "
options {uint8x = false} root
packet uint8x { Logon BodyLength , @leftPad (	)
    float64 msg_type
    , repeat string
    Z9_ ,}
packet
len	{
@tag( 1 ) @leftPad
    //
    ( '\x00'
)  @tag( 255
    ) rootA chars // `tick` ""quote"" 'q'
`` , }
")).
Eval vm_compute in ("<<<M77>>>" ++ check (runes_of_ascii "packet
Foo
{repeat int16 u8x,
//
// packet A { u8 x, }
}	options {
// `tick` ""quote"" 'q'
//
x =// packet A { u8 x, }
0123456789 ; BodyLength
    = zchar[	00 ] f32a =false
    ;
    // 50% %s
    stringy = int32}
    packet
zchar {}
")).
Eval vm_compute in ("<<<M4057>>>" ++ check (runes_of_ascii "root packet rootA {
}

packet u128 {
    @calculatedFrom(""\" ++ [233]%N ++ runes_of_ascii """)
    falsey @calculatedFrom(""a\\""),
    @lengthOf(pack)
    repeat float64 packetx,
    @calculatedFrom(""packet"")
    charz,
    uint8 leftPad `crlf
    line`,
}")).
Eval vm_compute in ("<<<M812>>>" ++ check (runes_of_ascii "
packet
    options1{ zchar[ 255] leftPad	,
} packet
    repeatCount { }MetaData	pack
// " ++ [27880; 37322]%N ++ runes_of_ascii "
//x
{
char[ 00]BodyLength , zchar[//	t
0123456789
    ] metadata, zchar[ 65535 ] rootA
`a\`,
uint32 msg_type
, Foo f32a , }")).
Eval vm_compute in ("<<<M932>>>" ++ check (runes_of_ascii "packet
lengthOf {
// @lengthOf(
//x
repeat //x
chars ,
    } MetaData
tag
//
// @lengthOf(
{ roots repeatCount `a\` ,
char[ 1  ] u128 `{ , }` // @lengthOf(
,// a // b
packetx lengthOf
, f64 Header ,
    }
")).
Eval vm_compute in ("<<<M718>>>" ++ check (runes_of_ascii "MetaData float { u64 Logon ,
    float32 Z9_ `` ,
i16
    Pad	`" ++ [28040; 24687; 31867; 22411]%N ++ runes_of_ascii "` ,
Z9_ body // trailing space 
, uint64 calculatedFrom
,	}
MetaData
falsey
    { char[]
    trueish , }	root packet	rootA  {}
")).
Eval vm_compute in ("<<<M162>>>" ++ check (runes_of_ascii "options {
} root packet // packet A { u8 x, }
chars { @tag( 1 )zchar[3 ] falsey `" ++ [233]%N ++ runes_of_ascii "`
, } options{ o  =' '
tag
= char[]
    ;float = ' ' ; }// a // b
MetaData	zchar { BodyLength _x , }")).
Eval vm_compute in ("<<<M3623>>>" ++ check (runes_of_ascii "options {
}

/// triple
//	t
MetaData string_ {
    i64_ a1,
    u128 x,
    A T `
        `,
    options1 calculatedFrom `" ++ [28040; 24687; 31867; 22411]%N ++ runes_of_ascii "`,
    int8 roots `a\`,
    zchar[7] MetaDataX,
}")).
Eval vm_compute in ("<<<M3910>>>" ++ check (runes_of_ascii "
packet u128{ u8  a
,
    } root
	packet Msg {
    u8	k  , u24

{
u8 Hi 
, u16  Lo

,
    }  ,
repeat  i24

    { u32 q ,
},u128  ,
u16	float32x ,
string  s  , }
")).
Eval vm_compute in ("<<<M1384>>>" ++ check (runes_of_ascii "root
    packet
A // @lengthOf(
{ @calculatedFrom(""CRC32""
    // " ++ [27880; 37322]%N ++ runes_of_ascii "
    )zchar[
//x
// " ++ [27880; 37322]%N ++ runes_of_ascii "
3 // a // b
] int,
    @lengthOf( a1 )char[ 42 ] leftPad ,
f64 float , }")).
Eval vm_compute in ("<<<M1157>>>" ++ check (runes_of_ascii "root
packet T { @leftPad // " ++ [128512]%N ++ runes_of_ascii " emoji
( '0' ) repeat leftPad
    {  char[
3	]
    roots,}
, }
    packet _x
    {
    int32  int
@calculatedFrom(""\n""  ) , }
")).
Eval vm_compute in ("<<<M3848>>>" ++ check (runes_of_ascii "
MetaData  crc{ 	 // a // b
  string	repeatCount	, As
repeatCount  `{ , }`	, uint32
Packet

    `` ,
    uint16
	chars

`say ""hi""`
	, 	 //
  }// " ++ [27880; 37322]%N)).
Eval vm_compute in ("<<<M2198>>>" ++ check (runes_of_ascii "MetaData BodyLength
{ int8 Foo
, string
    MetaDataX , float zchar ,pack optio'1'ns1
,asx string_, }
packet u8x {Foo@lengthOf(charz )
`" ++ [28040; 24687; 31867; 22411]%N ++ runes_of_ascii "`,  }
")).
Eval vm_compute in ("<<<M1942>>>" ++ check (runes_of_ascii "
packet leftPad {
@leftPad @leftPad( '0')
u32
i64_ `100% of %d` ,repeat// 50% %s
i8 chars
    ,
} MetaData
    f32a
{ // packet A { u8 x, }
}")).
Eval vm_compute in ("<<<M2072>>>" ++ check (runes_of_ascii "MetaData BodyLength
{ int8 Foo
string ,
    MetaDataX , float zchar ,pack options1
,asx string_, }
packet u8x {Foo@lengthOf(charz )
`" ++ [28040; 24687; 31867; 22411]%N ++ runes_of_ascii "`,  }
")).
Eval vm_compute in ("<<<M1959>>>" ++ check (runes_of_ascii "
packet leftPad {
@leftPad( '0'MetaData
u32
i64_ `100% of %d` ,repeat// 50% %s
i8 chars
    ,
} MetaData
    f32a
{ // packet A { u8 x, }
}")).
Eval vm_compute in ("<<<M2345>>>" ++ check (runes_of_ascii "options
    {
x_y_z// " ++ [27880; 37322]%N ++ runes_of_ascii "
= 10 ; }
packet body {
    @calculatedFrom(
// trailing space 
// " ++ [27880; 37322]%N ++ runes_of_ascii "
""1""
)	'\x01'match T as Foo
    {
255 :T , }
,}")).
Eval vm_compute in ("<<<M2014>>>" ++ check (runes_of_ascii "
packet leftPad {
@leftPad( '0')
u32
i64_ `100% of %d` ,repeat// 50% %s
i8 chars
    ,
} MetaData
    MetaData
{ // packet A { u8 x, }
}")).
Eval vm_compute in ("<<<M2241>>>" ++ check (runes_of_ascii "options
    {
x_y_z// " ++ [27880; 37322]%N ++ runes_of_ascii "
= 10 ; true
packet body {
    @calculatedFrom(
// trailing space 
// " ++ [27880; 37322]%N ++ runes_of_ascii "
""1""
)	match T as Foo
    {
255 :T , }
,}")).
Eval vm_compute in ("<<<M2294>>>" ++ check (runes_of_ascii "options
    {
x_y_z// " ++ [27880; 37322]%N ++ runes_of_ascii "
= 10 ; }
packet body {
    @calculatedFrom(
// trailing space 
// " ++ [27880; 37322]%N ++ runes_of_ascii "
""1""
)	match T as Foo
    { {
255 :T , }
,}")).
Eval vm_compute in ("<<<M2344>>>" ++ check (runes_of_ascii "options
    {
x_y_z// " ++ [27880; 37322]%N ++ runes_of_ascii "
= 10 ; }
packet body {
    " ++ [65279]%N ++ runes_of_ascii "@calculatedFrom(
// trailing space 
// " ++ [27880; 37322]%N ++ runes_of_ascii "
""1""
)	match T as Foo
    {
255 :T , }
,}")).
Eval vm_compute in ("<<<M2046>>>" ++ check (runes_of_ascii " BodyLength
{ int8 Foo
, string
    MetaDataX , float zchar ,pack options1
,asx string_, }
packet u8x {Foo@lengthOf(charz )
`" ++ [28040; 24687; 31867; 22411]%N ++ runes_of_ascii "`,  }
")).
Eval vm_compute in ("<<<M4220>>>" ++ check (runes_of_ascii "packet A {
    B b `a
            b
          c`,
    B `a
            b
          c`,
    repeat B bs `a
            b
          c`,
}")).
Eval vm_compute in ("<<<M2351>>>" ++ check (runes_of_ascii "options
    {
x_y_z// " ++ [27880; 37322]%N ++ runes_of_ascii "
= 10 ; }
packet body {
    @calculatedFrom(
// trailing space 
// " ++ [27880; 37322]%N ++ runes_of_ascii "
""1""
)	match T as x" ++ [178]%N ++ runes_of_ascii "
    {
255 :T , }
,}")).
Eval vm_compute in ("<<<M2221>>>" ++ check (runes_of_ascii "options
    {
)// " ++ [27880; 37322]%N ++ runes_of_ascii "
= 10 ; }
packet body {
    @calculatedFrom(
// trailing space 
// " ++ [27880; 37322]%N ++ runes_of_ascii "
""1""
)	match T as Foo
    {
255 :T , }
,}")).
Eval vm_compute in ("<<<M2243>>>" ++ check (runes_of_ascii "options
    {
x_y_z// " ++ [27880; 37322]%N ++ runes_of_ascii "
= 10 ; }
 body {
    @calculatedFrom(
// trailing space 
// " ++ [27880; 37322]%N ++ runes_of_ascii "
""1""
)	match T as Foo
    {
255 :T , }
,}")).
Eval vm_compute in ("<<<M3657>>>" ++ check (runes_of_ascii "

  MetaData 
Foo

    { zchar[ 0
]
matchKey,  }options

    { 
lengthOf
	=
i32	u

    =
	    // c
  00

    ;	}

")).
Eval vm_compute in ("<<<M3754>>>" ++ check (runes_of_ascii "  packet
A{

    u16

len @lengthOf(	body
    ) `%`  , u32 crc

@calculatedFrom(  ""CRC32""  ) `%` ,
	string
body
    ,
} ")).
Eval vm_compute in ("<<<M4417>>>" ++ check (runes_of_ascii "
packet

_x{	} 
packet
    msg_type
{ @lengthOf(f32a
) u8x
Z9_,} MetaData  /// triple
chars

{
string 
T

, }	//x
 
")).
Eval vm_compute in ("<<<M1860>>>" ++ check (runes_of_ascii "packet o {
    roots `it's`
// trailing space 
//x
, options 42
    ]  A, // " ++ [27880; 37322]%N ++ runes_of_ascii "
f64
repeatCount
    `crlf
line`
,}")).
Eval vm_compute in ("<<<M3089>>>" ++ check (runes_of_ascii "packet A {
    match k as n {
        ""%d%s"" : B,
        [""%d%s"", 1] : C,
        [1,2,3,4,5,""%d%s""] : D,
    },
}")).
Eval vm_compute in ("<<<M1357>>>" ++ check (runes_of_ascii "packet o
    {@calculatedFrom( ""packet"" ) match As as float {  255 :
metadata , [
0123456789] :
    i8i8 , } , }
")).
Eval vm_compute in ("<<<M4384>>>" ++ check (runes_of_ascii "
packet 
A
	{ 
match
	k 
as
    n {	[	1
	, 22

    ,
""c c""
    , 4
,

    5 ]  : B

    2
    :
C 
} ,
} ")).
Eval vm_compute in ("<<<M2154>>>" ++ check (runes_of_ascii "MetaData BodyLength
{ int8 Foo
, string
    MetaDataX , float zchar ,pack options1
,asx string_, }
packet u8x")).
Eval vm_compute in ("<<<M3391>>>" ++ check (runes_of_ascii "options {
    LittleEndian = true;
}
root packet P {
    u16 a,
    u32 Sum @calculatedFrom(""CR\
C32""),
}
")).
Eval vm_compute in ("<<<M3021>>>" ++ check (runes_of_ascii "packet A {
    Inner {
        u8 x `a
b`,
        Deep {
            u8 y `a
b`,
        },
    },
}")).
Eval vm_compute in ("<<<M4116>>>" ++ check (runes_of_ascii "packet a1 {
    @tag(1)
    rootA @calculatedFrom(""a	b""),// " ++ [128512]%N ++ runes_of_ascii " emoji
}

options {
    lengthOf = i8
}")).
Eval vm_compute in ("<<<M3027>>>" ++ check (runes_of_ascii "packet A {
    Inner {
        u8 x `
`,
        Deep {
            u8 y `
`,
        },
    },
}")).
Eval vm_compute in ("<<<M3800>>>" ++ check (runes_of_ascii "packet A {
    Inner {
        match k as n {
            [1, 22, 007] : B,
        },
    },
}")).
Eval vm_compute in ("<<<M2986>>>" ++ check (runes_of_ascii "packet A {
  match k as n {
    [1, 22, 007, 4, 5, 66, 7, 8, 9, 10, 11] : B,
    2 : C
  },
}")).
Eval vm_compute in ("<<<M2987>>>" ++ check (runes_of_ascii "packet A {
  match k as n {
    [1, 22, 007, 4, 5, 66, 7, 8, 9, 10, 11] : B
    2 : C
  },
}")).
Eval vm_compute in ("<<<M1419>>>" ++ check (runes_of_ascii "packet
{
T match repeatCount as	calculatedFrom
{ [65535 ]	: As	,
} ,}
// trailing space 
")).
Eval vm_compute in ("<<<M1169>>>" ++ check (runes_of_ascii "MetaData
// " ++ [128512]%N ++ runes_of_ascii " emoji
/// triple
roots { // packet A { u8 x, }
}  MetaData  stringy
{ }
")).
Eval vm_compute in ("<<<M2974>>>" ++ check (runes_of_ascii "packet A {
  match k as n {
    [1, 22, 007, 4, 5, 66, 7, 8, 9, 10] : B
    2 : C
  },
}")).
Eval vm_compute in ("<<<M1756>>>" ++ check (runes_of_ascii "options{  lengthOf =//x
i16;
    BodyLength = 0 ; ; pack
= false;
    A = char[ 3 ] }")).
Eval vm_compute in ("<<<M1823>>>" ++ check (runes_of_ascii "options{  lengthOf =//x
i16;
    BodyLength = 0 ; pack
= false" ++ [233]%N ++ runes_of_ascii ";
    A = char[ 3 ] }")).
Eval vm_compute in ("<<<M1803>>>" ++ check (runes_of_ascii "options{  lengthOf =//x
i16;
    BodyLength = 0 ; pack
= false;
    A = char[ 3 : }")).
Eval vm_compute in ("<<<M4126>>>" ++ check (runes_of_ascii "MetaData Foo {
    zchar[0] matchKey,
}

options {
    lengthOf = i32
    u = 00;
}")).
Eval vm_compute in ("<<<M1055>>>" ++ check (runes_of_ascii "
MetaData u  { char[255
    ] string_	, } packet
A {}
root packet asx
{ //	t
}
")).
Eval vm_compute in ("<<<M3245>>>" ++ check (runes_of_ascii "MetaData // c
Foo { zchar[ 0 ] matchKey , } options { lengthOf = i32 u = 00 ; }")).
Eval vm_compute in ("<<<M3277>>>" ++ check (runes_of_ascii "MetaData Foo { zchar[ 0 ] matchKey , } options { lengthOf = i32 u = 00 // c
; }")).
Eval vm_compute in ("<<<M1826>>>" ++ check (runes_of_ascii "options{  lengthOf =//x
i16;
    x" ++ [178]%N ++ runes_of_ascii " = 0 ; pack
= false;
    A = char[ 3 ] }")).
Eval vm_compute in ("<<<M494>>>" ++ check (runes_of_ascii "packet
x { @calculatedFrom(  ""a	b"" )crc // 50% %s
crc`crlf
line`  , }

")).
Eval vm_compute in ("<<<M1039>>>" ++ check (runes_of_ascii "options{crc =//x
00 ; Packet= uint32 ; MetaDataX = '\x00' ; } // a // b")).
Eval vm_compute in ("<<<M2889>>>" ++ check (runes_of_ascii "packet A {
  match k as n {
    [""a"", 22, ""c c""] : B
    2 : C
  },
}")).
Eval vm_compute in ("<<<M3335>>>" ++ check (runes_of_ascii "// top
options // c0
{ // c1
u8x // c2
= // c3
false // c4
} // c5
")).
Eval vm_compute in ("<<<M3983>>>" ++ check (runes_of_ascii "  options
    { 
charz=

    false
; uint8x
=  '0'; 
} // " ++ [27880; 37322]%N ++ runes_of_ascii "
")).
Eval vm_compute in ("<<<M3290>>>" ++ check (runes_of_ascii "
// c
packet u8x { } MetaData crc { char[ 4294967296 ] Foo , }")).
Eval vm_compute in ("<<<M3301>>>" ++ check (runes_of_ascii "packet u8x { } MetaData crc // c
{ char[ 4294967296 ] Foo , }")).
Eval vm_compute in ("<<<M443>>>" ++ check (runes_of_ascii "packet// trailing space 
options1
{ } // `tick` ""quote"" 'q'")).
Eval vm_compute in ("<<<M3721>>>" ++ check (runes_of_ascii "packet u8x {
}

MetaData crc {
    char[4294967296] Foo,
}")).
Eval vm_compute in ("<<<M3585>>>" ++ check (runes_of_ascii "MetaData M {
    u8 x `a
    b`,
    T t `a
    b`,
}")).
Eval vm_compute in ("<<<M3194>>>" ++ check (runes_of_ascii "// a
MetaData M {} // b
// c
MetaData N {} // d
// e")).
Eval vm_compute in ("<<<M3076>>>" ++ check (runes_of_ascii "MetaData M {
    u8 x `%%d%!`,
    T t `%%d%!`,
}")).
Eval vm_compute in ("<<<M2760>>>" ++ check (runes_of_ascii ") `two words` ""x y"" char[ i8 uint64 u16 ) char")).
Eval vm_compute in ("<<<M2705>>>" ++ check (runes_of_ascii "packet char[] i32 0123456789 , false f32 u32")).
Eval vm_compute in ("<<<M2787>>>" ++ check (runes_of_ascii "root f64 char[] false true true root ( u64")).
Eval vm_compute in ("<<<M2595>>>" ++ check (runes_of_ascii "packet A { x @calculatedFrom(""c"") `d`, }")).
Eval vm_compute in ("<<<M3231>>>" ++ check (runes_of_ascii "root packet u128 { chars `doc` // c
, }")).
Eval vm_compute in ("<<<M2376>>>" ++ check (runes_of_ascii "MetaData
Foo {Header //
pack , ,	} 	 ")).
Eval vm_compute in ("<<<M2408>>>" ++ check (runes_of_ascii "MetaData
    calculatedFrom
{ zchar[")).
Eval vm_compute in ("<<<M2740>>>" ++ check (runes_of_ascii "[ char[] int16 @lengthOf( [ uint8 ;")).
Eval vm_compute in ("<<<M103>>>" ++ check (runes_of_ascii "options // packet A { u8 x, }
{
}")).
Eval vm_compute in ("<<<M2833>>>" ++ check (runes_of_ascii "9a*YBA$bs(xyqL$&bnd[U5G{p]{s VS<")).
Eval vm_compute in ("<<<M3982>>>" ++ check (runes_of_ascii "options {
    u8x = false
}// c")).
Eval vm_compute in ("<<<M688>>>" ++ check (runes_of_ascii "options {x // c
= ""1"" }
// c
")).
Eval vm_compute in ("<<<M3338>>>" ++ check (runes_of_ascii "// c
options { u8x = false }")).
Eval vm_compute in ("<<<M3181>>>" ++ check (runes_of_ascii "packet A {
}// a// b// c
")).
Eval vm_compute in ("<<<M2385>>>" ++ check (runes_of_ascii "MetaData
Foo {Header //
p")).
Eval vm_compute in ("<<<M441>>>" ++ check (runes_of_ascii "// packet A { u8 x, }

")).
Eval vm_compute in ("<<<M94>>>" ++ check (runes_of_ascii "MetaData	metadata	{}
")).
Eval vm_compute in ("<<<M1851>>>" ++ check (runes_of_ascii "packet o {
    roots")).
Eval vm_compute in ("<<<M2847>>>" ++ check (runes_of_ascii "8""" ++ [65533; 65533; 65533; 24; 65533; 26]%N ++ runes_of_ascii "fLV" ++ [65533; 65533]%N ++ runes_of_ascii "J" ++ [19; 914; 65533; 27; 918]%N)).
Eval vm_compute in ("<<<M3118>>>" ++ check (runes_of_ascii "// c" ++ [8192]%N ++ runes_of_ascii "
packet A {
}")).
Eval vm_compute in ("<<<M1262>>>" ++ check (runes_of_ascii "packet tag {	} 	 ")).
Eval vm_compute in ("<<<M3989>>>" ++ check (runes_of_ascii "root packet A {
}")).
Eval vm_compute in ("<<<M3187>>>" ++ check (runes_of_ascii "packet A {
}


")).
Eval vm_compute in ("<<<M620>>>" ++ check (runes_of_ascii "options {  }")).
Eval vm_compute in ("<<<M2636>>>" ++ check (runes_of_ascii "packet { }")).
Eval vm_compute in ("<<<M2491>>>" ++ check (runes_of_ascii "@leftpad")).
Eval vm_compute in ("<<<M2465>>>" ++ check (runes_of_ascii "string")).
Eval vm_compute in ("<<<M2519>>>" ++ check (runes_of_ascii """a
b""")).
Eval vm_compute in ("<<<M2467>>>" ++ check (runes_of_ascii "root")).
Eval vm_compute in ("<<<M2482>>>" ++ check (runes_of_ascii "'1'")).
Eval vm_compute in ("<<<M2485>>>" ++ check (runes_of_ascii "'0")).
Eval vm_compute in ("<<<M2689>>>" ++ check (runes_of_ascii " ")).
