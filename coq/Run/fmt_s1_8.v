From FP Require Import Lexer Parser ShowPT Digest Formatter.
From Coq Require Import String List NArith.
Import ListNotations.
Open Scope string_scope.
Set Printing Width 100000000.
Set Printing Depth 100000000.
Definition show_fres (r : fres) : string :=
  match r with
  | FOk s => "OK:" ++ sh_escaped s ""
  | FErr s => "ERR:" ++ sh_escaped s ""
  | FPanic p => "PANIC:" ++ p
  end.
Definition check (rs : list rune) : string := digest (show_fres (format_res rs)).
Definition full (rs : list rune) : string := show_fres (format_res rs).
Eval vm_compute in ("<<<M1719>>>" ++ check (runes_of_ascii "  options {
ArrayPrefixLenType
	=u16 ;FixedStringPadFromLeft
    = 
true

    ;  JavaPackage
= ""co\
m.example.msg""
; GoPackage  = 
""ms\
g"" 
;	GoModule = ""example.com/msg""

;
}

    MetaData Meta
	{
    u32
    SeqNum
    `sequence number`,	char[

    8
]
Symbol `symbol` 
,  zchar[5

    ]
ZSym	`z symbol`

,  string  Note
    ,
	Symbol
    AltSymbol

`alias of symbol`,

f64  Price ,
} packet 
Inner{u8

    a
, i16
    b

, 
string

    c
,	}

    packet Inner2 {
u8

a2,

    char[

3
]c2, 
} packet
Logon

{
u8 
x

,

    string
	user, 
repeat u16 
codes

    , 
}  packet Logout

{u16 
reason  , 
}
packet
    Empty{ } 
root packet 
Msg
{u8 su8 
, 
uint8 luint8
,
    u16 su16 
,
uint16 luint16 ,  u32 su32

, uint32
luint32
    ,

    u64
su64,
uint64
    luint64 ,
i8
	si8
, 
int8 lint8,
i16
si16,int16

    lint16
,
i32  si32
    , int32  lint32
    ,
i64

si64
,
	int64 lint64

,
f32

sf32

    ,float32

lfloat32
,
f64
sf64  , float64
	lfloat64,  char[ 
6
	]
fsplain
,
    @leftPad
	(	'0'  ) 
char[
4] fs0 ,
    @rightPad 
(
	'0'  )char[ 5
    ]
fs1

, @leftPad
    (
' '	) 
char[
6

]
fs2 
,
@rightPad
( ' '  )char[ 7
]fs3
	, @leftPad ( '\x00')	char[
    8
    ] fs4
,
@rightPad 
(
'\x00'	)

    char[  9
] 
fs5 ,  @leftPad

    (
    ) char[ 10
	]
    fs6
, 
@rightPad  ()char[
	11 ]
	fs7

    ,
	zchar[7
	]
fz ,

@leftPad
	(	'0')
    zchar[  3
    ]
fzl0

    ,

    string s1  `doc`	, 
char[]

    s2 ,

Inner,	Sub 
{
	u8	q,
	string  w  ,Deep  {

    u16
z,

    repeat	i32 
zs,
    } ,

    } ,
repeat

u8 ru8 
,
repeat  u16
	ru16
, repeat
	u32  ru32 ,
repeat
	u64 ru64
,
    repeat
i8
    ri8
    ,repeat i16  ri16  ,

    repeat	i32	ri32 ,repeat
    i64 
ri64 ,
repeat f32
    rf32 ,
repeat  f64  rf64 ,
    repeat string	rstr  , repeat char[]  rstr2
	,

    repeat  char[
3 ] 
rfs  , repeat
zchar[

3  ]rfz ,
	repeat  Inner2 ,

    repeat Grp
{ u8 k 
,char[ 2 ] 
v  ,	}

    ,  SeqNum

    ,
	SeqNum seq2 
,
	repeat
	SeqNum 
seqs,
	Symbol

,
	AltSymbol
	alt

    , ZSym
,	Note	,
repeat	Symbol
syms
,Price
    px
,	u16
MsgType
    ,

    u32

    BodyLen

    @lengthOf( Body )
,  match 
MsgType as Body
{ 
1  :

    Logon,
[	2
	, 3 ] :
    Logout ,

7: Logon,
    9  :Empty ,}

    ,u32

    Checksum

@calculatedFrom(""CRC32""
    ) ,}

")).
Eval vm_compute in ("<<<M5>>>" ++ check (runes_of_ascii "root
packet zchar {
repeatCount // a // b
@lengthOf(  asx )	, match
string_ as o// @lengthOf(
{ 7 :packetx
    ,
    7 : Pad},// packet A { u8 x, }
zchar[ 65535 ]
    T
@calculatedFrom( /// triple
""" ++ [128512]%N ++ runes_of_ascii """
)
    , tag @lengthOf( // " ++ [27880; 37322]%N ++ runes_of_ascii "
u ) `crlf
line`,
    @calculatedFrom(
    // " ++ [128512]%N ++ runes_of_ascii " emoji
    """" ) _x	@calculatedFrom(// @lengthOf(
""a	b"" )
`// not a comment` ,match Z9_ as float { 0123456789 : calculatedFrom, ""{,}"":u //	t
} , @leftPad( ) @tag( 255	) @lengthOf(i8i8
    ) match
tag as
    trueish { 4294967296:	uint8x
    ,[ //x
65535 ] : u8x ,	10 : i64_,
""""
    :metadata
    } , int64 T , } root packet len { @tag(	0) Logon ,
@tag(255) repeat u64 packetx `it's`
    , @tag(
    4294967296 )
zchar[007 ]repeatCount `a\` , char[ 4294967296
]
// " ++ [128512]%N ++ runes_of_ascii " emoji
// packet A { u8 x, }
asx @calculatedFrom(
""it's"" ), }	root packet asx {	uint16 options1@lengthOf(
    matchKey ) `it's`	, }	root //
packet
Logon{ @lengthOf( asx) @calculatedFrom(  ""packet""
)	Z9_ @calculatedFrom(// " ++ [128512]%N ++ runes_of_ascii " emoji
""" ++ [28040; 24687]%N ++ runes_of_ascii """)
    ,
@tag(	007
    /// triple
    )
zchar[0123456789 ] i64_ ,
msg_type`line1
line2` , repeat zchar[
007 ]Pad
`
`	, falsey {
    chars lengthOf ``
    ,	match Header as lengthOf
    {
""" ++ [233]%N ++ runes_of_ascii "t" ++ [233]%N ++ runes_of_ascii """	: falsey 42:
uint8x , [ 007
,""abc""
    ,
// c
// a // b
""abc"" ,""a\\""  ,
65535 // c
,""a\""b"" ,
42, ""{,}"" ]:charz } , int64 //x
Foo // c
, Z9_@lengthOf( int )`it's`
, }
,
    @rightPad
    ( ) // trailing space 
string As @calculatedFrom(""" ++ [28040; 24687]%N ++ runes_of_ascii """ ) ,
    // c
    match matchKey as repeatCount{
4294967296 :msg_type	, """ ++ [28040; 24687]%N ++ runes_of_ascii """ : zchar 3  : u8x , """":	asx
// trailing space 
// `tick` ""quote"" 'q'
, } ,}
")).
Eval vm_compute in ("<<<M50>>>" ++ check (runes_of_ascii "//x
packet Header
    {
    body
// " ++ [27880; 37322]%N ++ runes_of_ascii "
// " ++ [27880; 37322]%N ++ runes_of_ascii "
@calculatedFrom(
    ""CRC32"" )
`it's` ,repeat
int64//x
msg_type // " ++ [128512]%N ++ runes_of_ascii " emoji
,
//	t
//
@tag( 0 ) zchar[ 0 //
]
    int
//	t
// @lengthOf(
, }
    // " ++ [128512]%N ++ runes_of_ascii " emoji
    options { Packet=
true
    MetaDataX =
""" ++ [28040; 24687]%N ++ runes_of_ascii """ A
    = string} root packet	Logon {
    @leftPad // " ++ [27880; 37322]%N ++ runes_of_ascii "
('0' //x
)Header//
leftPad `doc` ,
    f32a
    {	rootA @lengthOf( calculatedFrom )	, int8
Packet `line1
line2` , } , repeat calculatedFrom
    { // `tick` ""quote"" 'q'
match
packetx as len { 1:matchKey ,
0123456789 :repeatCount ,
""\" ++ [233]%N ++ runes_of_ascii """ :
float , 255:
    MetaDataX
, },} ,
//x
// " ++ [27880; 37322]%N ++ runes_of_ascii "
leftPad {  repeat roots{ //	t
roots
@calculatedFrom(/// triple
""abc"" ),int32
BodyLength @calculatedFrom( ""packet"" )
,
}	, match repeatCount as
matchKey { ""abc"" : u128 , """ ++ [128512]%N ++ runes_of_ascii """ : a1
, ""a\\""
:rootA ,	[  3,3 ]// c
:
x_y_z	007 :Foo
    } ,
}
, // c
repeat rootA	matchKey	`it's` //	t
,	a1
    @calculatedFrom(""x y"" )  `line1
line2` ,int	,
    @tag(
// trailing space 
//x
65535) match metadata as	As
{ ""x y"": Foo	,//x
[ // `tick` ""quote"" 'q'
""x y"" ]:
    tag
//
// a // b
, 3
    : pack } ,repeat int8 charz ,char[] body , }
options {
    MetaDataX = char[ 0 ] ; } // a // b")).
Eval vm_compute in ("<<<M253>>>" ++ check (runes_of_ascii "options{
} packet matchKey { repeat
int32 packetx, zchar[
    10
    //x
    ] Packet
    ,@lengthOf(string_
) @tag( 007 ) @tag( 255 )// @lengthOf(
Z9_ @calculatedFrom( """ ++ [28040; 24687]%N ++ runes_of_ascii """ ) ,
@lengthOf(
// `tick` ""quote"" 'q'
// `tick` ""quote"" 'q'
asx
) @calculatedFrom(
    // trailing space 
    ""CRC32"" )
string
_x,
    @calculatedFrom( """"
    ) @lengthOf(
trueish)x , @leftPad (
)
// `tick` ""quote"" 'q'
/// triple
zchar[ 4294967296 ]
    float , @lengthOf(
    // trailing space 
    u128
    )//	t
Logon{repeat char[]x `u8 x,`, // packet A { u8 x, }
} , @tag(
1) f64 Z9_ ,
u32 i64_
`crlf
line`  , @rightPad
// `tick` ""quote"" 'q'
// @lengthOf(
( '\x00'	) @leftPad (	) repeat float32
uint8x , }
root packet
u128
    // `tick` ""quote"" 'q'
    { i32
    charz //	t
@lengthOf( crc
) `u8 x,`  ,// a // b
@tag(
65535 // " ++ [128512]%N ++ runes_of_ascii " emoji
)// trailing space 
@lengthOf( f32a ) repeat// " ++ [27880; 37322]%N ++ runes_of_ascii "
Logon
`{ , }`
    , @rightPad (
    ' ' ) @tag(65535
)
    repeat trueish , i32
lengthOf
    // `tick` ""quote"" 'q'
    , }")).
Eval vm_compute in ("<<<M1840>>>" ++ check (runes_of_ascii "packet Pad {
    @tag(65535)
    repeat char[4294967296] o `u8 x,`,
    @calculatedFrom(""x y"")
    metadata @lengthOf(repeatCount) `tab	here`,
}

packet u128 {
    // packet A { u8 x, }
    // " ++ [128512]%N ++ runes_of_ascii " emoji
    repeat zchar[10] _x,/// triple
}

options {
    /// triple
    msg_type = true;
}

packet tag {
    // c
    @tag(7)
    i32 f32a @lengthOf(u8x) `two words`,
    string Foo @lengthOf(Foo),
    @rightPad('0')
    match As as crc {
        """" : float,
        //	t
    },
    repeat i16 i8i8,
    @rightPad('0')
    repeat u128 {
        i64 tag @calculatedFrom(""" ++ [28040; 24687]%N ++ runes_of_ascii """),
        i8i8 @calculatedFrom(""{,}"") `it's`,
        repeat string rootA,
    },
    repeat string chars,
    asx,
    match calculatedFrom as calculatedFrom {
        ""a\""b"" : Logon,
        ""a	b"" : asx,
    },
    char zchar @calculatedFrom(""1"") `say ""hi""`,
}")).
Eval vm_compute in ("<<<M36>>>" ++ check (runes_of_ascii "packet  int {@tag( 00
) float	,
@leftPad( '0'
)@calculatedFrom(""" ++ [28040; 24687]%N ++ runes_of_ascii """ ) match crc
as body
    {""`tick`"" : msg_type} // @lengthOf(
,
Logon
,repeat u8x, // " ++ [27880; 37322]%N ++ runes_of_ascii "
} packet MetaDataX { }packet string_ {
repeat //
Header Header
, // trailing space 
} packet
A{ @rightPad // " ++ [27880; 37322]%N ++ runes_of_ascii "
( '\x00' // trailing space 
) @leftPad (
    ' ' ) repeat uint64
    matchKey // trailing space 
, f32 len // @lengthOf(
, // trailing space 
repeat
tag
{i64
// @lengthOf(
// " ++ [27880; 37322]%N ++ runes_of_ascii "
roots
    // " ++ [27880; 37322]%N ++ runes_of_ascii "
    @lengthOf( metadata ), }
, @tag(
65535
    ) char[ //
00 ]
// a // b
/// triple
a1
    ,repeat i16 i8i8 ,char[
3 ]int @calculatedFrom(
""a\\"" ) , // a // b
@calculatedFrom( """ ++ [28040; 24687]%N ++ runes_of_ascii """) Pad// " ++ [128512]%N ++ runes_of_ascii " emoji
@lengthOf(
stringy ) ,/// triple
}
")).
Eval vm_compute in ("<<<M276>>>" ++ check (runes_of_ascii "packet zchar { msg_type ,
//
// `tick` ""quote"" 'q'
@tag( 65535 ) repeat float32 len,
    @lengthOf(
// " ++ [27880; 37322]%N ++ runes_of_ascii "
// `tick` ""quote"" 'q'
crc )	lengthOf
    //
    {
repeat float `say ""hi""` ,}	, u32 // a // b
Packet
@lengthOf( i8i8// a // b
)  `
`
// packet A { u8 x, }
// packet A { u8 x, }
,
i8i8 // a // b
, u32 calculatedFrom  @lengthOf( BodyLength //x
)`a\` , @lengthOf( Logon// " ++ [128512]%N ++ runes_of_ascii " emoji
) match MetaDataX
as	Foo  { [
""\n"" ,
255 ] :Packet , 3: o
    ,
[007] : T, }
, match pack as A { """ ++ [28040; 24687]%N ++ runes_of_ascii """
: _x 007	:
//x
// " ++ [128512]%N ++ runes_of_ascii " emoji
metadata,
255 :
As
    ,
    7 :charz, 10 : len, } , f32 len
, @leftPad ('\x00'  )float32 trueish , }
")).
Eval vm_compute in ("<<<M178>>>" ++ check (runes_of_ascii "
packet
// packet A { u8 x, }
// " ++ [27880; 37322]%N ++ runes_of_ascii "
matchKey {} packet
    string_ { matchKey @lengthOf(
asx)
    ,@rightPad ( ' '
) metadata
,
// a // b
// @lengthOf(
o //
chars ,  uint16 tag `u8 x,` ,
repeat  float32 Logon  `two words` , /// triple
matchKey	@calculatedFrom( ""a	b""
)`doc`
    ,
repeat packetx
a1 ,} MetaData Packet //
{
char[]
    pack, string  zchar ,zchar[
//	t
// trailing space 
1 ] x_y_z, int64
    charz
`say ""hi""`, u32
lengthOf
    `doc`
,}
options
    { a1
= int16 ; crc =' ';tag = char[ 42]
leftPad
    = true ; }")).
Eval vm_compute in ("<<<M143>>>" ++ check (runes_of_ascii "root packet crc {@calculatedFrom(
""" ++ [128512]%N ++ runes_of_ascii """)
BodyLength{x_y_z i8i8
//
//
, int32 uint8x
`two words` ,	rootA tag , zchar[
7] matchKey
    `" ++ [233]%N ++ runes_of_ascii "` ,} , T { x@calculatedFrom( ""a	b"" )
`// not a comment` ,zchar[ // " ++ [128512]%N ++ runes_of_ascii " emoji
42 ] /// triple
A
, match chars
as
    //x
    len {""packet"" :crc 3//x
:
chars [
0123456789 , ""packet"" ]
    : pack	[""packet""
,
00// " ++ [27880; 37322]%N ++ runes_of_ascii "
,
    7 ,""" ++ [28040; 24687]%N ++ runes_of_ascii """, 3
,  ""packet"",
    42, 0123456789
    ] :
repeatCount	""{,}"" :
chars
    ,/// triple
} ,
} ,
}")).
Eval vm_compute in ("<<<M1526>>>" ++ check (runes_of_ascii "packet  Frame
{
u8

    HK

    ,u8 BK
,  u8 
TK ,match HK as

Hdr
    {	1
    :
	HdrA

    ,
2

:
HdrB
    ,},match

    BK  as
Body	{  1 : BodyA ,
2
	: BodyB,
},match
TK
	as Trl
{ 
1: TrlA ,}

,	}
packet

HdrA 
{
u8 a
,

    }

packet
HdrB 
{ u16
    b
,	}	packet BodyA  {	u32 c
,}packet  BodyB{  u64 d

, }
packet
    TrlA	{ u8
e,
}root

packet
	Msg
	{  Frame
    ,
	u8
x, }")).
Eval vm_compute in ("<<<M1843>>>" ++ check (runes_of_ascii "

  // top

packet

    // c0
    chars 
	    // c1
{ 
        // c2
      }  
  // c3
	  packet
        // c4
MetaDataX 
    // c5
{

    // c6
		@tag(

    // c7
	42

    // c8
    	)
    // c9
		i16

// c10
string_

    // c11
    ,
	    // c12
    repeat 

// c13
	  x 
    // c14
`say ""hi""` 
      // c15
		, 
	    // c16
	} 
	// c17
")).
Eval vm_compute in ("<<<M2013>>>" ++ check (runes_of_ascii "  options
{ LittleEndian
	= 
true ;	} packet  Sub
{ u8

a  ,
@calculatedFrom(
    ""CRC16""	)

    u64 SubSum
,
    }

root  packet  Frame {u16  MsgType 
,
    u16	BodyLen @lengthOf(  Body 
)
,Sub

    Body ,  string
	note,@calculatedFrom(

    ""CRC16""	)
u64
Checksum ,

    u8

    tail
    ,  }
")).
Eval vm_compute in ("<<<M1392>>>" ++ check (runes_of_ascii "// top
packet
    // c0
chars
    // c1
{
    // c2
}
    // c3
packet
    // c4
MetaDataX
    // c5
{
    // c6
@tag(
    // c7
42
    // c8
)
    // c9
i16
    // c10
string_
    // c11
,
    // c12
repeat
    // c13
x
    // c14
`say ""hi""`
    // c15
,
    // c16
}
    // c17
")).
Eval vm_compute in ("<<<M489>>>" ++ check (runes_of_ascii "root packet tag tag { }  packet MetaDataX{char[007	]
// c
/// triple
asx  @calculatedFrom( ""a\""b""
) `say ""hi""`// " ++ [27880; 37322]%N ++ runes_of_ascii "
,  @tag(4294967296 )
    char[1//x
] packetx @calculatedFrom(""a\""b""
    ) ,
// " ++ [128512]%N ++ runes_of_ascii " emoji
// a // b
@calculatedFrom(""" ++ [233]%N ++ runes_of_ascii "t" ++ [233]%N ++ runes_of_ascii """  ) repeat pack // " ++ [27880; 37322]%N ++ runes_of_ascii "
,
    } // c")).
Eval vm_compute in ("<<<M665>>>" ++ check (runes_of_ascii "root packet " ++ [65279]%N ++ runes_of_ascii " tag { }  packet MetaDataX{char[007	]
// c
/// triple
asx  @calculatedFrom( ""a\""b""
) `say ""hi""`// " ++ [27880; 37322]%N ++ runes_of_ascii "
,  @tag(4294967296 )
    char[1//x
] packetx @calculatedFrom(""a\""b""
    ) ,
// " ++ [128512]%N ++ runes_of_ascii " emoji
// a // b
@calculatedFrom(""" ++ [233]%N ++ runes_of_ascii "t" ++ [233]%N ++ runes_of_ascii """  ) repeat pack // " ++ [27880; 37322]%N ++ runes_of_ascii "
,
    } // c")).
Eval vm_compute in ("<<<M505>>>" ++ check (runes_of_ascii "root packet tag { }  MetaDataX packet{char[007	]
// c
/// triple
asx  @calculatedFrom( ""a\""b""
) `say ""hi""`// " ++ [27880; 37322]%N ++ runes_of_ascii "
,  @tag(4294967296 )
    char[1//x
] packetx @calculatedFrom(""a\""b""
    ) ,
// " ++ [128512]%N ++ runes_of_ascii " emoji
// a // b
@calculatedFrom(""" ++ [233]%N ++ runes_of_ascii "t" ++ [233]%N ++ runes_of_ascii """  ) repeat pack // " ++ [27880; 37322]%N ++ runes_of_ascii "
,
    } // c")).
Eval vm_compute in ("<<<M548>>>" ++ check (runes_of_ascii "root packet tag { }  packet MetaDataX{char[007	]
// c
/// triple
asx  @calculatedFrom( ""a\""b""
 `say ""hi""`// " ++ [27880; 37322]%N ++ runes_of_ascii "
,  @tag(4294967296 )
    char[1//x
] packetx @calculatedFrom(""a\""b""
    ) ,
// " ++ [128512]%N ++ runes_of_ascii " emoji
// a // b
@calculatedFrom(""" ++ [233]%N ++ runes_of_ascii "t" ++ [233]%N ++ runes_of_ascii """  ) repeat pack // " ++ [27880; 37322]%N ++ runes_of_ascii "
,
    } // c")).
Eval vm_compute in ("<<<M511>>>" ++ check (runes_of_ascii "root packet tag { }  packet root{char[007	]
// c
/// triple
asx  @calculatedFrom( ""a\""b""
) `say ""hi""`// " ++ [27880; 37322]%N ++ runes_of_ascii "
,  @tag(4294967296 )
    char[1//x
] packetx @calculatedFrom(""a\""b""
    ) ,
// " ++ [128512]%N ++ runes_of_ascii " emoji
// a // b
@calculatedFrom(""" ++ [233]%N ++ runes_of_ascii "t" ++ [233]%N ++ runes_of_ascii """  ) repeat pack // " ++ [27880; 37322]%N ++ runes_of_ascii "
,
    } // c")).
Eval vm_compute in ("<<<M647>>>" ++ check (runes_of_ascii "root packet tag { }  packet MetaDataX{char[007	]
// c
/// triple
asx  @calculatedFrom( ""a\""b""
) `say ""hi""`// " ++ [27880; 37322]%N ++ runes_of_ascii "
,  @tag(4294967296 )
    char[1//x
] packetx @calculatedFrom(""a\""b""
    ) ,
// " ++ [128512]%N ++ runes_of_ascii " emoji
// a // b
@calculatedFrom(""" ++ [233]%N ++ runes_of_ascii "t" ++ [233]%N ++ runes_of_ascii """  ) repeat pack")).
Eval vm_compute in ("<<<M2119>>>" ++ check (runes_of_ascii "options {
    StringPrefixLenType = u16;
    FixedStringPadChar = ' ';
}

packet Party {
}

packet Quote {
    repeat Party,
    repeat char[2] f1,
}

packet Logon {
}

root packet Cancel {
    uint16 x,
    zchar[6] f1,
}")).
Eval vm_compute in ("<<<M1691>>>" ++ check (runes_of_ascii "// top
root packet matchKey {
    // c3
    zchar[3] pack @calculatedFrom(""a	b"") `doc`,
    // c12
}

// c13
options {
    // c15
}

// c16
MetaData A {
    // c19
    int8 msg_type,
    // c22
}
// c23")).
Eval vm_compute in ("<<<M1272>>>" ++ check (runes_of_ascii "// top
packet
    // c0
x
    // c1
{
    // c2
@rightPad
    // c3
(
    // c4
)
    // c5
repeat
    // c6
roots
    // c7
Logon
    // c8
`doc`
    // c9
,
    // c10
}
    // c11
")).
Eval vm_compute in ("<<<M472>>>" ++ check (runes_of_ascii "packet
    // `tick` ""quote"" 'q'
    crc
// packet A { u8 x, }
//	t
{
u32 a1 ,
    // trailing space 
    roots
charz //
`two words`,	}
    MetaData int {
@tag} /// triple")).
Eval vm_compute in ("<<<M702>>>" ++ check (runes_of_ascii "root packet len // trailing space 
{
// " ++ [27880; 37322]%N ++ runes_of_ascii "
//	t
char[10
] ] metadata	@lengthOf( o ) `crlf
line`,
    @rightPad
( ' '
) string
    Header @calculatedFrom( ""a\\""
    ), }
")).
Eval vm_compute in ("<<<M452>>>" ++ check (runes_of_ascii "packet
    // `tick` ""quote"" 'q'
    crc
// packet A { u8 x, }
//	t
{
u32 a1 ,
    // trailing space 
    roots
charz //
`two words`,	}
    MetaData int [
} /// triple")).
Eval vm_compute in ("<<<M478>>>" ++ check (runes_of_ascii "packet
    // `tick` ""quote"" 'q'
    crc
// packet A { u8 x, }
//	t
{
u32 a1 ,
    // trailing space 
    a" ++ [769]%N ++ runes_of_ascii "b
charz //
`two words`,	}
    MetaData int {
} /// triple")).
Eval vm_compute in ("<<<M1996>>>" ++ check (runes_of_ascii "packet A {
    match k as n {
        [
            1, 22, ""c c"", 4, 5,
            ""f"", 7, 8, ""i"", 10,
            11, ""l""
        ] : B,
        2 : C,
    },
}")).
Eval vm_compute in ("<<<M1494>>>" ++ check (runes_of_ascii "packet A {
    u8 a,
}
packet B {
    u16 b,
}
root packet P {
    u8 K,
    match K as M {
        [1, 2] : A,
        3 : B,
        7 : A,
    },
}
")).
Eval vm_compute in ("<<<M1461>>>" ++ check (runes_of_ascii "packet
	B {

    u8

a ,}  root  packet  P
	{
    u8
    K, 
match
    K

    as	Body

{

1
: B	,
	},

u16
    L

@lengthOf(

Body)
	,}
")).
Eval vm_compute in ("<<<M1651>>>" ++ check (runes_of_ascii "MetaData metadata{char[65535	] 
x
, 

    // c

  char[]
	u128	, pack
    Z9_ , }packet// " ++ [27880; 37322]%N ++ runes_of_ascii "
		a1
{repeat
float 
repeatCount ,	}

")).
Eval vm_compute in ("<<<M1876>>>" ++ check (runes_of_ascii "MetaData

    float 
{float64	charz `
`, }

    root
    packet
	chars
    {
@rightPad	// c
		(
'0' )

    Foo

,	}
")).
Eval vm_compute in ("<<<M1242>>>" ++ check (runes_of_ascii "root packet matchKey { zchar[ 3 ] pack @calculatedFrom( ""a	b""
// c
) `doc` , } options { } MetaData A { int8 msg_type , }")).
Eval vm_compute in ("<<<M1970>>>" ++ check (runes_of_ascii "packet A {
    u16 len @lengthOf(body) `
        `,
    u32 crc @calculatedFrom(""CRC32"") `
        `,
    string body,
}")).
Eval vm_compute in ("<<<M2097>>>" ++ check (runes_of_ascii "packet metadata {
    Logon {
        A `" ++ [28040; 24687; 31867; 22411]%N ++ runes_of_ascii "`,
        tag o,
    },
    zchar len `// not a comment`,
    // c
}")).
Eval vm_compute in ("<<<M2052>>>" ++ check (runes_of_ascii "MetaData falsey

{ 
//x

//	t
char[	/// triple
  65535	]

Packet

    `{ , }` , // @lengthOf(
    } 	 //x
")).
Eval vm_compute in ("<<<M904>>>" ++ check (runes_of_ascii "packet A {
  match k as n {
    [1, ""bb"", 007, ""d"", 5, ""f"", 7, ""h"", 9, ""j"", 11, ""l""] : B
    2 : C
  },
}")).
Eval vm_compute in ("<<<M1978>>>" ++ check (runes_of_ascii "packet FooBar {
    u8 a,
}

packet foo_bar {
    u16 b,
}

root packet R {
    FooBar,
    foo_bar,
}")).
Eval vm_compute in ("<<<M870>>>" ++ check (runes_of_ascii "packet A {
  match k as n {
    [""a"", ""bb"", 007, ""d"", ""e"", 66, ""g"", ""h"", 9] : B,
    2 : C
  },
}")).
Eval vm_compute in ("<<<M383>>>" ++ check (runes_of_ascii "root packet SimpleMessage {
    uint16 MsgType `" ++ [28040; 24687; 31867; 22411]%N ++ runes_of_ascii "`,
    string JsonBody `Json" ++ [23383; 31526; 20018; 28040; 24687; 20307]%N ++ runes_of_ascii "`,
}")).
Eval vm_compute in ("<<<M1625>>>" ++ check (runes_of_ascii "packet o {
    repeat Logon uint8x,
}

options {
    asx = zchar[3]
    stringy = '\x00'
}")).
Eval vm_compute in ("<<<M1201>>>" ++ check (runes_of_ascii "MetaData float { float64 charz `
` , } root packet chars
// c
{ @rightPad ( '0' ) Foo , }")).
Eval vm_compute in ("<<<M1412>>>" ++ check (runes_of_ascii "packet chars { } packet MetaDataX { @tag( 42 // c
) i16 string_ , repeat x `say ""hi""` , }")).
Eval vm_compute in ("<<<M931>>>" ++ check (runes_of_ascii "packet A {
    B b `a
    b
  c`,
    B `a
    b
  c`,
    repeat B bs `a
    b
  c`,
}")).
Eval vm_compute in ("<<<M1142>>>" ++ check (runes_of_ascii "packet metadata { Logon { A `" ++ [28040; 24687; 31867; 22411]%N ++ runes_of_ascii "` , tag o // c
, } , zchar len `// not a comment` , }")).
Eval vm_compute in ("<<<M1347>>>" ++ check (runes_of_ascii "packet o { repeat
// c
Logon uint8x , } options { asx = zchar[ 3 ] stringy = '\x00' }")).
Eval vm_compute in ("<<<M7>>>" ++ check (runes_of_ascii "packet pack {
repeat As {
char[ 65535 // trailing space 
] crc `crlf
line` , },
}
")).
Eval vm_compute in ("<<<M1308>>>" ++ check (runes_of_ascii "MetaData body
// c
{ i64 pack `it's` , } packet stringy { int16 calculatedFrom , }")).
Eval vm_compute in ("<<<M843>>>" ++ check (runes_of_ascii "packet A {
  match k as n {
    [1, 22, ""c c"", 4, 5, ""f"", 7] : B
    2 : C
  },
}")).
Eval vm_compute in ("<<<M797>>>" ++ check (runes_of_ascii "packet A {
  match k as n {
    [""a"", ""bb"", ""c c"", ""d""] : B,
    2 : C
  },
}")).
Eval vm_compute in ("<<<M955>>>" ++ check (runes_of_ascii "packet A {
    B b `tab
	x`,
    B `tab
	x`,
    repeat B bs `tab
	x`,
}")).
Eval vm_compute in ("<<<M1616>>>" ++ check (runes_of_ascii "
// top
  root// c0
packet // c1
  pack	// c2
	{// c3
} 	 // c4
 
")).
Eval vm_compute in ("<<<M1663>>>" ++ check (runes_of_ascii "MetaData M {
    u8 x `a
        b`,
    T t `a
        b`,
}")).
Eval vm_compute in ("<<<M1649>>>" ++ check (runes_of_ascii "packet float {
}

MetaData As {
    char[] trueish,
}
// " ++ [27880; 37322]%N)).
Eval vm_compute in ("<<<M1704>>>" ++ check (runes_of_ascii "packet x {
    @rightPad()
    repeat roots Logon `doc`,
}")).
Eval vm_compute in ("<<<M772>>>" ++ check (runes_of_ascii "packet A { Inner { match k as n { [1] : B, }, }, }")).
Eval vm_compute in ("<<<M1924>>>" ++ check (runes_of_ascii "MetaData	packetx	{ zchar[ 7 
]  u128
    ,	}
")).
Eval vm_compute in ("<<<M2031>>>" ++ check (runes_of_ascii "packet	A 
{ u8 x`d" ++ [12]%N ++ runes_of_ascii "`

    ,	// c" ++ [12]%N ++ runes_of_ascii "
  }

")).
Eval vm_compute in ("<<<M1861>>>" ++ check (runes_of_ascii "packet
    A	{ u8  x `d" ++ [8233]%N ++ runes_of_ascii "` , // c" ++ [8233]%N ++ runes_of_ascii "
}

")).
Eval vm_compute in ("<<<M1735>>>" ++ check (runes_of_ascii "  root // c

packet 
pack  { 
}
")).
Eval vm_compute in ("<<<M1013>>>" ++ check (runes_of_ascii "packet A {
 u8 x `d" ++ [8233]%N ++ runes_of_ascii "`, // c" ++ [8233]%N ++ runes_of_ascii "
}")).
Eval vm_compute in ("<<<M1836>>>" ++ check (runes_of_ascii "

  packet
    float
{
} ")).
Eval vm_compute in ("<<<M171>>>" ++ check (runes_of_ascii "packet options1 {  }

")).
Eval vm_compute in ("<<<M149>>>" ++ check (runes_of_ascii "packet	crc
    { }")).
Eval vm_compute in ("<<<M1047>>>" ++ check (runes_of_ascii "// c" ++ [65279]%N ++ runes_of_ascii "
packet A {
}")).
Eval vm_compute in ("<<<M497>>>" ++ check (runes_of_ascii "root packet tag")).
Eval vm_compute in ("<<<M393>>>" ++ check (runes_of_ascii "packet")).
Eval vm_compute in ("<<<M731>>>" ++ check (runes_of_ascii " " ++ [12]%N ++ runes_of_ascii " ")).
